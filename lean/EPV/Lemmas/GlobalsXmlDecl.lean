/-
C19 (phase 5) — the XML-declaration reader `XmlDecl.parse` against the grammar of
EPV/Spec/GlobalsXmlDeclSpec.lean: it accepts exactly the texts the grammar derives (with expat's
lax version number) and returns the derivation.
-/
import EPV.Spec.GlobalsXmlDeclSpec
import EPV.Lemmas.GlobalsXmlText
namespace EPV.Globals.XmlDecl
open EPV.Globals.XmlText EPV.GlobalsSpec.XmlDeclGrammar

/-! ### list facts -/

theorem tw_app {α : Type} (p : α → Bool) (w : List α) (c : α) (r : List α)
    (hw : w.all p = true) (hc : p c = false) :
    (w ++ c :: r).takeWhile p = w ∧ (w ++ c :: r).dropWhile p = c :: r := by
  induction w with
  | nil => simp [hc]
  | cons x t ih =>
    simp only [List.all_cons, Bool.and_eq_true] at hw
    have := ih hw.2
    simp [hw.1, this.1, this.2]

theorem tw_all {α : Type} (p : α → Bool) (w : List α) (hw : w.all p = true) :
    w.takeWhile p = w ∧ w.dropWhile p = [] := by
  induction w with
  | nil => simp
  | cons x t ih =>
    simp only [List.all_cons, Bool.and_eq_true] at hw
    have := ih hw.2
    simp [hw.1, this.1, this.2]

theorem all_tw {α : Type} (p : α → Bool) (l : List α) : (l.takeWhile p).all p = true := by
  induction l with
  | nil => simp
  | cons x t ih =>
    by_cases h : p x = true
    · simp [List.takeWhile, h, ih]
    · simp [List.takeWhile, h]

theorem tw_dw {α : Type} (p : α → Bool) (l : List α) : l.takeWhile p ++ l.dropWhile p = l :=
  List.takeWhile_append_dropWhile

theorem stripPrefix_app : ∀ (p x : List Char), stripPrefix p (p ++ x) = some x
  | [], x => by simp [stripPrefix]
  | c :: cs, x => by simp [stripPrefix, stripPrefix_app cs x]

theorem quote_not_val (dq : Bool) : valChar (quoteOf dq) = false := by
  cases dq <;> decide

theorem quote_not_ws (dq : Bool) : isWs (quoteOf dq) = false := by
  cases dq <;> decide

/-! ### soundness: what is accepted is a derivation of the text -/

theorem eqP_sound (s : List Char) (e : EqT) (r : List Char) (h : eqP s = some (e, r)) :
    s = e.l ++ ('=' :: (e.r ++ r)) ∧ e.l.all isWs = true ∧ e.r.all isWs = true := by
  unfold eqP at h
  split at h
  · next r0 h0 =>
    simp only [Option.some.injEq, Prod.mk.injEq] at h
    obtain ⟨rfl, rfl⟩ := h
    refine ⟨?_, all_tw _ _, all_tw _ _⟩
    have h1 := tw_dw isWs s
    rw [h0] at h1
    simp only [tw_dw]
    exact h1.symm
  · cases h

theorem qval_sound (s : List Char) (dq : Bool) (v r : List Char) (h : qval s = some (dq, v, r)) :
    s = quoteOf dq :: (v ++ (quoteOf dq :: r)) ∧ v.all valChar = true := by
  unfold qval at h
  split at h
  · next r0 =>
    split at h
    · next r' h0 =>
      simp only [Option.some.injEq, Prod.mk.injEq] at h
      obtain ⟨rfl, rfl, rfl⟩ := h
      refine ⟨?_, all_tw _ _⟩
      have h1 := tw_dw valChar r0
      rw [h0] at h1
      simp only [quoteOf, if_true]
      rw [h1]
    · cases h
  · next r0 =>
    split at h
    · next r' h0 =>
      simp only [Option.some.injEq, Prod.mk.injEq] at h
      obtain ⟨rfl, rfl, rfl⟩ := h
      refine ⟨?_, all_tw _ _⟩
      have h1 := tw_dw valChar r0
      rw [h0] at h1
      simp only [quoteOf, Bool.false_eq_true, if_false]
      rw [h1]
    · cases h
  · cases h

/-- well-formedness of one pseudo-attribute as `attr` checks it -/
def attrWf (ok : List Char → Bool) (a : Attr) : Bool :=
  spacingOk a && a.val.all valChar && ok a.val

theorem attr_sound (kw : List Char) (ok : List Char → Bool) (s : List Char) (a : Attr) (r : List Char)
    (h : attr kw ok s = some (a, r)) :
    s = renderAttr kw a ++ r ∧ attrWf ok a = true := by
  unfold attr at h
  split at h
  · cases h
  · next hne =>
    split at h
    · cases h
    · next r0 h0 =>
      split at h
      · cases h
      · next e r1 h1 =>
        split at h
        · cases h
        · next dq v r2 h2 =>
          split at h
          · next hok =>
            simp only [Option.some.injEq, Prod.mk.injEq] at h
            obtain ⟨rfl, rfl⟩ := h
            have e0 := stripPrefix_eq _ _ _ h0
            obtain ⟨e1, w1, w2⟩ := eqP_sound _ _ _ h1
            obtain ⟨e2, w3⟩ := qval_sound _ _ _ _ h2
            refine ⟨?_, ?_⟩
            · have h3 := tw_dw isWs s
              rw [e0, e1, e2] at h3
              simp only [renderAttr, List.append_assoc, List.cons_append, List.nil_append]
              exact h3.symm
            · have h4 := all_tw isWs s
              simp only [Bool.not_eq_true] at hne
              simp [attrWf, spacingOk, hne, h4, w1, w2, w3, hok]
          · cases h

theorem optAttr_sound (kw : List Char) (ok : List Char → Bool) (s : List Char) :
    s = renderOpt kw (optAttr kw ok s).1 ++ (optAttr kw ok s).2 ∧
    optOk (attrWf ok) (optAttr kw ok s).1 = true := by
  unfold optAttr
  split
  · next a r h =>
    have := attr_sound kw ok s a r h
    exact ⟨this.1, this.2⟩
  · exact ⟨rfl, rfl⟩

theorem valChar_eq : valChar = nameTailChar := rfl

theorem lit_yes : "yes".toList = ['y', 'e', 's'] := by decide
theorem lit_no : "no".toList = ['n', 'o'] := by decide

theorem sdOk_eq (v : List Char) : sdOk v = yesNo v := by
  simp only [sdOk, yesNo, lit_yes, lit_no]

theorem encOk_encName (v : List Char) (hv : v.all valChar = true) (h : encOk v = true) :
    encName v = true := by
  cases v with
  | nil => cases h
  | cons c cs =>
    simp only [List.all_cons, Bool.and_eq_true] at hv
    simp only [encOk] at h
    simp only [encName, h, Bool.true_and, ← valChar_eq, hv.2]

theorem encName_encOk (v : List Char) (h : encName v = true) :
    v.all valChar = true ∧ encOk v = true := by
  cases v with
  | nil => cases h
  | cons c cs =>
    simp only [encName, Bool.and_eq_true, ← valChar_eq] at h
    have : valChar c = true := by simp [valChar, Char.isAlphanum, h.1]
    simp [encOk, h.1, h.2, this]

/-- the three per-attribute conditions of `attr` are the grammar's (with the lax version number) -/
theorem wf_iff (t : Tree) :
    expatAccepts t = true ↔
      (attrWf verOk t.ver = true ∧ optOk (attrWf encOk) t.enc = true ∧ optOk (attrWf sdOk) t.sd = true ∧
       t.trail.all isWs = true) := by
  have hsd : ∀ a : Attr, yesNo a.val = true → a.val.all valChar = true := by
    intro a h
    simp only [yesNo, lit_yes, lit_no, Bool.or_eq_true, beq_iff_eq] at h
    rcases h with h | h <;> rw [h] <;> decide
  constructor
  · intro h
    simp only [expatAccepts, Bool.and_eq_true] at h
    obtain ⟨⟨⟨⟨h1, h2⟩, h3⟩, h4⟩, h5⟩ := h
    refine ⟨?_, ?_, ?_, h5⟩
    · simp [attrWf, h1, valChar_eq, h2, verOk]
    · cases he : t.enc with
      | none => rfl
      | some a =>
        rw [he] at h3
        simp only [optOk, Bool.and_eq_true] at h3
        have := encName_encOk _ h3.2
        simp [optOk, attrWf, h3.1, this.1, this.2]
    · cases hs : t.sd with
      | none => rfl
      | some a =>
        rw [hs] at h4
        simp only [optOk, Bool.and_eq_true] at h4
        simp [optOk, attrWf, h4.1, hsd a h4.2, sdOk_eq, h4.2]
  · rintro ⟨h1, h2, h3, h4⟩
    simp only [attrWf, Bool.and_eq_true] at h1
    simp only [expatAccepts, Bool.and_eq_true]
    refine ⟨⟨⟨⟨h1.1.1, by rw [← valChar_eq]; exact h1.1.2⟩, ?_⟩, ?_⟩, h4⟩
    · cases he : t.enc with
      | none => rfl
      | some a =>
        rw [he] at h2
        simp only [optOk, attrWf, Bool.and_eq_true] at h2
        simp [optOk, h2.1.1, encOk_encName _ h2.1.2 h2.2]
    · cases hs : t.sd with
      | none => rfl
      | some a =>
        rw [hs] at h3
        simp only [optOk, attrWf, Bool.and_eq_true] at h3
        simp [optOk, h3.1.1, ← sdOk_eq, h3.2]

/-- **soundness**: an accepted body is the rendering of the returned tree, and the tree is in expat's language -/
theorem parse_sound (body : List Char) (t : Tree) (h : parse body = some t) :
    render t = body ∧ expatAccepts t = true := by
  unfold parse at h
  split at h
  · cases h
  · next v r1 hv =>
    have a1 := attr_sound _ _ _ _ _ hv
    have a2 := optAttr_sound kwEncoding encOk r1
    have a3 := optAttr_sound kwStandalone sdOk (optAttr kwEncoding encOk r1).2
    dsimp only at h
    split at h
    · next hws =>
      simp only [Option.some.injEq] at h
      subst h
      refine ⟨?_, ?_⟩
      · simp only [render]
        rw [← a3.1, ← a2.1, ← a1.1]
      · rw [wf_iff]
        exact ⟨a1.2, a2.2, a3.2, hws⟩
    · cases h

/-! ### completeness: every derivation is accepted and returned -/

theorem eqP_render (e : EqT) (x : List Char) (hl : e.l.all isWs = true) (hr : e.r.all isWs = true)
    (c : Char) (hc : isWs c = false) :
    eqP (e.l ++ ('=' :: (e.r ++ c :: x))) = some (e, c :: x) := by
  unfold eqP
  have h1 := tw_app isWs e.l '=' (e.r ++ c :: x) hl (by decide)
  have h2 := tw_app isWs e.r c x hr hc
  rw [h1.2, h1.1]
  simp only [h2.1, h2.2]

theorem qval_render (dq : Bool) (v x : List Char) (hv : v.all valChar = true) :
    qval (quoteOf dq :: (v ++ (quoteOf dq :: x))) = some (dq, v, x) := by
  have h := tw_app valChar v (quoteOf dq) x hv (quote_not_val dq)
  cases dq
  · simp only [quoteOf, Bool.false_eq_true, if_false] at h ⊢
    simp only [qval, h.1, h.2]
  · simp only [quoteOf, if_true] at h ⊢
    simp only [qval, h.1, h.2]

theorem attr_render (k : Char) (ks : List Char) (hk : isWs k = false) (ok : List Char → Bool) (a : Attr)
    (x : List Char) (h : attrWf ok a = true) :
    attr (k :: ks) ok (renderAttr (k :: ks) a ++ x) = some (a, x) := by
  simp only [attrWf, spacingOk, Bool.and_eq_true, Bool.not_eq_true'] at h
  obtain ⟨⟨⟨⟨⟨hne, hs⟩, hl⟩, hr⟩, hv⟩, hok⟩ := h
  have e : renderAttr (k :: ks) a ++ x =
      a.s ++ k :: (ks ++ (a.eq.l ++ ('=' :: (a.eq.r ++ quoteOf a.dq :: (a.val ++ (quoteOf a.dq :: x)))))) := by
    simp only [renderAttr, List.append_assoc, List.cons_append, List.nil_append]
  rw [e]
  have h1 := tw_app isWs a.s k (ks ++ (a.eq.l ++ ('=' :: (a.eq.r ++ quoteOf a.dq :: (a.val ++ (quoteOf a.dq :: x)))))) hs hk
  unfold attr
  rw [h1.1, h1.2, hne]
  have h2 := stripPrefix_app (k :: ks) (a.eq.l ++ ('=' :: (a.eq.r ++ quoteOf a.dq :: (a.val ++ (quoteOf a.dq :: x)))))
  simp only [List.cons_append] at h2
  simp only [Bool.false_eq_true, if_false, h2, eqP_render a.eq _ hl hr _ (quote_not_ws a.dq),
    qval_render a.dq a.val x hv, hok, if_true]

/-- a pseudo-attribute with another keyword is not taken for this one -/
theorem attr_other (kw : List Char) (ok : List Char → Bool) (s : List Char)
    (h : stripPrefix kw (s.dropWhile isWs) = none) : attr kw ok s = none := by
  unfold attr
  split
  · rfl
  · rw [h]

theorem optAttr_render (k : Char) (ks : List Char) (hk : isWs k = false) (ok : List Char → Bool)
    (oa : Option Attr) (x : List Char) (h : optOk (attrWf ok) oa = true)
    (hx : oa = none → stripPrefix (k :: ks) (x.dropWhile isWs) = none) :
    optAttr (k :: ks) ok (renderOpt (k :: ks) oa ++ x) = (oa, x) := by
  cases oa with
  | some a =>
    simp only [optAttr, renderOpt, attr_render k ks hk ok a x h]
  | none =>
    simp only [optAttr, renderOpt, List.nil_append, attr_other _ ok x (hx rfl)]

/-- what follows an absent `encoding` / `standalone`: `S standalone…`, or only white space -/
theorem rest_not_kw (k : Char) (ks : List Char) (hk : k ≠ 's') (oa : Option Attr) (trail : List Char)
    (h : optOk (attrWf sdOk) oa = true) (ht : trail.all isWs = true) :
    stripPrefix (k :: ks) ((renderOpt kwStandalone oa ++ trail).dropWhile isWs) = none := by
  cases oa with
  | none =>
    simp only [renderOpt, List.nil_append, (tw_all isWs trail ht).2, stripPrefix]
  | some a =>
    simp only [optOk, attrWf, spacingOk, Bool.and_eq_true] at h
    have e : renderOpt kwStandalone (some a) ++ trail =
        a.s ++ 's' :: (['t', 'a', 'n', 'd', 'a', 'l', 'o', 'n', 'e'] ++
          (a.eq.l ++ ('=' :: (a.eq.r ++ quoteOf a.dq :: (a.val ++ (quoteOf a.dq :: trail)))))) := by
      simp only [renderOpt, renderAttr, kwStandalone, List.append_assoc, List.cons_append, List.nil_append]
    rw [e, (tw_app isWs a.s 's' _ h.1.1.1.1.2 (by decide)).2]
    simp only [stripPrefix]
    have : (k == 's') = false := by simpa using hk
    simp [this]

/-- **completeness**: every derivation of expat's language is accepted, and the very derivation is returned -/
theorem parse_render (t : Tree) (h : expatAccepts t = true) : parse (render t) = some t := by
  rw [wf_iff] at h
  obtain ⟨h1, h2, h3, h4⟩ := h
  unfold parse
  simp only [render, kwVersion]
  rw [attr_render 'v' _ (by decide) verOk t.ver _ h1]
  have hE : optAttr kwEncoding encOk (renderOpt kwEncoding t.enc ++ (renderOpt kwStandalone t.sd ++ t.trail)) =
      (t.enc, renderOpt kwStandalone t.sd ++ t.trail) :=
    optAttr_render 'e' _ (by decide) encOk t.enc _ h2 (fun _ => rest_not_kw 'e' _ (by decide) t.sd t.trail h3 h4)
  have hS : optAttr kwStandalone sdOk (renderOpt kwStandalone t.sd ++ t.trail) = (t.sd, t.trail) :=
    optAttr_render 's' _ (by decide) sdOk t.sd _ h3 (fun _ => by
      simp only [(tw_all isWs t.trail h4).2, stripPrefix])
  simp only [hE, hS, h4, if_true]

/-! ### the declaration inside the whole text -/

theorem all_imp {α : Type} (p q : α → Bool) (h : ∀ c, p c = true → q c = true) (l : List α)
    (hl : l.all p = true) : l.all q = true := by
  rw [List.all_eq_true] at hl ⊢
  exact fun c hc => h c (hl c hc)

def notQ (c : Char) : Bool := c != '?'

theorem ws_notQ (c : Char) (h : isWs c = true) : notQ c = true := by
  by_cases hc : c = '?'
  · subst hc; exact absurd h (by decide)
  · simpa [notQ] using hc

theorem val_notQ (c : Char) (h : valChar c = true) : notQ c = true := by
  by_cases hc : c = '?'
  · subst hc; exact absurd h (by decide)
  · simpa [notQ] using hc

theorem renderAttr_notQ (kw : List Char) (hk : kw.all notQ = true) (ok : List Char → Bool) (a : Attr)
    (h : attrWf ok a = true) : (renderAttr kw a).all notQ = true := by
  simp only [attrWf, spacingOk, Bool.and_eq_true] at h
  obtain ⟨⟨⟨⟨⟨_, hs⟩, hl⟩, hr⟩, hv⟩, _⟩ := h
  have hq : notQ (quoteOf a.dq) = true := by cases a.dq <;> decide
  simp only [renderAttr, List.all_append, List.all_cons, List.all_nil, Bool.and_eq_true, Bool.and_true]
  exact ⟨all_imp _ _ ws_notQ _ hs, hk, all_imp _ _ ws_notQ _ hl, by decide, all_imp _ _ ws_notQ _ hr, hq,
    all_imp _ _ val_notQ _ hv, hq⟩

theorem renderOpt_notQ (kw : List Char) (hk : kw.all notQ = true) (ok : List Char → Bool) (oa : Option Attr)
    (h : optOk (attrWf ok) oa = true) : (renderOpt kw oa).all notQ = true := by
  cases oa with
  | none => rfl
  | some a => exact renderAttr_notQ kw hk ok a h

theorem render_notQ (t : Tree) (h : expatAccepts t = true) : (render t).all notQ = true := by
  rw [wf_iff] at h
  obtain ⟨h1, h2, h3, h4⟩ := h
  simp only [render, List.all_append, Bool.and_eq_true]
  exact ⟨renderAttr_notQ _ (by decide) _ _ h1, renderOpt_notQ _ (by decide) _ _ h2,
    renderOpt_notQ _ (by decide) _ _ h3, all_imp _ _ ws_notQ _ h4⟩

theorem noQG_of_notQ : ∀ (x : List Char), x.all notQ = true → EPV.GlobalsSpec.PrologGrammar.noQG x = true
  | [], _ => rfl
  | c :: cs, h => by
    simp only [List.all_cons, Bool.and_eq_true] at h
    have hc : c ≠ '?' := by simpa [notQ] using h.1
    unfold EPV.GlobalsSpec.PrologGrammar.noQG
    split
    · rfl
    · next heq => simp only [List.cons.injEq] at heq; exact absurd heq.1 hc
    · next heq => simp only [List.cons.injEq] at heq; rw [← heq.2]; exact noQG_of_notQ cs h.2

/-- the rendering starts with a white-space character -/
theorem render_head (t : Tree) (h : expatAccepts t = true) :
    ∃ c r, render t = c :: r ∧ isWs c = true := by
  simp only [expatAccepts, spacingOk, Bool.and_eq_true] at h
  obtain ⟨⟨⟨⟨⟨⟨⟨hne, hs⟩, _⟩, _⟩, _⟩, _⟩, _⟩, _⟩ := h
  cases hsv : t.ver.s with
  | nil => rw [hsv] at hne; cases hne
  | cons c w =>
    rw [hsv] at hs
    simp only [List.all_cons, Bool.and_eq_true] at hs
    exact ⟨c, _, by simp only [render, renderAttr, hsv, List.cons_append]; rfl, hs.1⟩

theorem declOf_render (t : Tree) (rest : List Char) (h : expatAccepts t = true) :
    declOf (renderDecl t rest) = some (render t, rest) := by
  obtain ⟨c, r, hr, hc⟩ := render_head t h
  have hsplit := splitAt_qg (render t) rest (noQG_of_notQ _ (render_notQ t h))
  have hcq : c ≠ '?' := by intro e; subst e; exact absurd hc (by decide)
  unfold declOf renderDecl
  simp only [stripPrefix, beq_self_eq_true, if_true]
  rw [hr] at hsplit ⊢
  simp only [List.cons_append] at hsplit ⊢
  split
  · next heq => simp only [Option.some.injEq, List.cons.injEq] at heq; exact absurd heq.1 hcq
  · next c' r' _ heq =>
    simp only [Option.some.injEq, List.cons.injEq] at heq
    obtain ⟨rfl, rfl⟩ := heq
    simp only [hc, if_true]
    exact hsplit
  · next hno => exact absurd rfl (hno c _)

theorem splitAt_sound (pat : List Char) : ∀ (s a b : List Char), splitAt pat s = some (a, b) → s = a ++ (pat ++ b)
  | [], a, b, h => by
    simp only [splitAt] at h
    split at h
    · next hp =>
      simp only [Option.some.injEq, Prod.mk.injEq] at h
      obtain ⟨rfl, rfl⟩ := h
      simp only [List.isEmpty_iff] at hp
      simp [hp]
    · cases h
  | c :: cs, a, b, h => by
    simp only [splitAt] at h
    split at h
    · next r hr =>
      simp only [Option.some.injEq, Prod.mk.injEq] at h
      obtain ⟨rfl, rfl⟩ := h
      have := stripPrefix_eq pat (c :: cs) _ hr
      simpa using this
    · next hr =>
      cases hs : splitAt pat cs with
      | none => rw [hs] at h; cases h
      | some ab =>
        rw [hs] at h
        simp only [Option.map_some, Option.some.injEq, Prod.mk.injEq] at h
        obtain ⟨rfl, rfl⟩ := h
        have := splitAt_sound pat cs ab.1 ab.2 hs
        simp only [List.cons_append]
        rw [← this]

theorem declOf_sound (s decl r : List Char) (h : declOf s = some (decl, r)) :
    s = '<' :: '?' :: 'x' :: 'm' :: 'l' :: (decl ++ ('?' :: '>' :: r)) := by
  unfold declOf at h
  split at h
  · next r0 h0 =>
    simp only [Option.some.injEq, Prod.mk.injEq] at h
    obtain ⟨rfl, rfl⟩ := h
    exact stripPrefix_eq _ _ _ h0
  · next c r0 _ h0 =>
    split at h
    · have := splitAt_sound _ _ _ _ h
      rw [stripPrefix_eq _ _ _ h0, this]
      rfl
    · cases h
  · cases h

end EPV.Globals.XmlDecl

/-
Lemmas for C20, part 3: the `dropRoot` flag of the evaluator (F20b) is irrelevant for expressions
that never apply an abbreviated `*` step to the document node (`starAtDoc = false`).
-/
import EPV.Lemmas.SchemaTypingSel
namespace EPV.Xsd.Sel
open EPV.Xsd

variable {α : Type}

theorem flatMap_congr' {β γ : Type} (l : List β) (f g : β → List γ) (h : ∀ x ∈ l, f x = g x) :
    l.flatMap f = l.flatMap g := by
  induction l with
  | nil => rfl
  | cons x xs ih =>
    simp only [List.flatMap_cons]
    rw [h x List.mem_cons_self, ih (fun y hy => h y (List.mem_cons_of_mem _ hy))]

theorem filterPosAux_congr (f g : Item α → Nat → Nat → Bool) (n : Nat) (l : List (Item α))
    (h : ∀ x ∈ l, ∀ i n, f x i n = g x i n) : ∀ i, filterPosAux f n l i = filterPosAux g n l i := by
  induction l with
  | nil => intro _; rfl
  | cons x xs ih =>
    intro i
    simp only [filterPosAux, h x List.mem_cons_self]
    rw [ih (fun y hy => h y (List.mem_cons_of_mem _ hy))]

theorem filterPosAux_subset (f : Item α → Nat → Nat → Bool) (n : Nat) (l : List (Item α)) :
    ∀ i x, x ∈ filterPosAux f n l i → x ∈ l := by
  induction l with
  | nil => intro i x hx; simp [filterPosAux] at hx
  | cons y ys ih =>
    intro i x hx
    simp only [filterPosAux] at hx
    split at hx
    · cases hx with
      | head => exact List.mem_cons_self
      | tail _ hx => exact List.mem_cons_of_mem _ (ih _ x hx)
    · exact List.mem_cons_of_mem _ (ih _ x hx)

theorem filterPos_subset (f : Item α → Nat → Nat → Bool) (l : List (Item α)) (x : Item α)
    (hx : x ∈ filterPos f l) : x ∈ l := filterPosAux_subset f _ l 1 x hx

theorem filterPos_congr (f g : Item α → Nat → Nat → Bool) (l : List (Item α))
    (h : ∀ x ∈ l, ∀ i n, f x i n = g x i n) : filterPos f l = filterPos g l :=
  filterPosAux_congr f g _ l h 1

theorem dedup_subset (l : List (Item α)) : ∀ seen x, x ∈ dedup l seen → x ∈ l := by
  induction l with
  | nil => intro seen x hx; simp [dedup] at hx
  | cons y ys ih =>
    intro seen x hx
    simp only [dedup] at hx
    split at hx
    · exact List.mem_cons_of_mem _ (ih _ x hx)
    · cases hx with
      | head => exact List.mem_cons_self
      | tail _ hx => exact List.mem_cons_of_mem _ (ih _ x hx)

theorem sibs_noDoc (t : Forest α) : ∀ start x, x ∈ sibs start t → isDoc x = false := by
  induction t with
  | nil => intro s x hx; simp [sibs] at hx
  | leaf k txt r ih =>
    intro s x hx
    simp only [sibs, List.mem_cons] at hx
    rcases hx with rfl | hx
    · rfl
    · exact ih _ x hx
  | elem a n ats xs k r _ ihr =>
    intro s x hx
    simp only [sibs, List.mem_cons] at hx
    rcases hx with rfl | hx
    · rfl
    · exact ihr _ x hx

theorem descF_noDoc (t : Forest α) : ∀ start x, x ∈ descF start t → isDoc x = false := by
  induction t with
  | nil => intro s x hx; simp [descF] at hx
  | leaf k txt r ih =>
    intro s x hx
    simp only [descF, List.mem_cons] at hx
    rcases hx with rfl | hx
    · rfl
    · exact ih _ x hx
  | elem a n ats xs k r ihk ihr =>
    intro s x hx
    simp only [descF, List.mem_cons, List.mem_append] at hx
    rcases hx with rfl | hx | hx
    · rfl
    · exact ihk _ x hx
    · exact ihr _ x hx

theorem children_noDoc (c x : Item α) (hx : x ∈ children c) : isDoc x = false := by
  cases c <;> simp only [children] at hx
  · exact sibs_noDoc _ _ x hx
  · exact sibs_noDoc _ _ x hx
  · cases hx
  · cases hx

theorem descendants_noDoc (c x : Item α) (hx : x ∈ descendants c) : isDoc x = false := by
  cases c <;> simp only [descendants] at hx
  · exact descF_noDoc _ _ x hx
  · exact descF_noDoc _ _ x hx
  · cases hx
  · cases hx

theorem attributes_noDoc (cfg : Cfg α) (c x : Item α) (hx : x ∈ attributes cfg c) : isDoc x = false := by
  cases c <;> simp only [attributes] at hx
  · cases hx
  · simp only [List.mem_map] at hx
    obtain ⟨y, _, rfl⟩ := hx
    rfl
  · cases hx
  · cases hx

theorem parentOf_noDoc (cfg : Cfg α) (hd : cfg.dummy = true) (rt c x : Item α)
    (hx : parentOf cfg rt c = some x) : isDoc x = false := by
  unfold parentOf at hx
  cases hci : c.idx? with
  | none => rw [hci] at hx; simp at hx
  | some i =>
    rw [hci] at hx
    simp only at hx
    cases hf : (rt :: descendants rt).find? (hasChildIdx cfg i) with
    | none => rw [hf] at hx; simp at hx
    | some p =>
      rw [hf] at hx
      simp only [hd, Bool.true_and] at hx
      split at hx
      · cases hx
      · rename_i hnd
        cases hx
        cases x <;> simp_all [parentOf.isDocB, isDoc]

theorem ancestorsOf_noDoc (cfg : Cfg α) (hd : cfg.dummy = true) (rt : Item α) :
    ∀ (n : Nat) (c x : Item α), x ∈ ancestorsOf cfg rt n c → isDoc x = false
  | 0, _, _, hx => by simp [ancestorsOf] at hx
  | n + 1, c, x, hx => by
    simp only [ancestorsOf] at hx
    cases hp : parentOf cfg rt c with
    | none => rw [hp] at hx; cases hx
    | some p =>
      rw [hp] at hx
      simp only [List.mem_cons] at hx
      rcases hx with rfl | hx
      · exact parentOf_noDoc cfg hd rt c x hp
      · exact ancestorsOf_noDoc cfg hd rt n p x hx

theorem siblings_noDoc (cfg : Cfg α) (rt c x : Item α) (hx : x ∈ siblings cfg rt c) : isDoc x = false := by
  unfold siblings at hx
  split at hx
  · cases hx
  · cases hp : parentOf cfg rt c with
    | none => rw [hp] at hx; cases hx
    | some p => rw [hp] at hx; exact children_noDoc p x hx

/-- under a dummy document a step yields the document only as `descendant-or-self::node()` /
`self::node()` of the document (reverse axes stop at the root element) -/
theorem stepNodes_doc (cfg : Cfg α) (hdm : cfg.dummy = true) (rt : Item α) (ax : Axis) (t : NTest) (c x : Item α)
    (hx : x ∈ stepNodes cfg rt ax t c) (hd : isDoc x = true) :
    ((ax == .descOrSelf || ax == .self) && t == .node) = true ∧ isDoc c = true := by
  unfold stepNodes at hx
  split at hx
  · cases hx
  · simp only [List.mem_filter] at hx
    obtain ⟨hm, ht⟩ := hx
    have htn : t = .node := by
      cases x with
      | doc k => cases ax <;> cases t <;> simp_all [testOk]
      | _ => simp [isDoc] at hd
    subst htn
    cases ax with
    | child => rw [children_noDoc c x hm] at hd; cases hd
    | descendant => rw [descendants_noDoc c x hm] at hd; cases hd
    | attrib => rw [attributes_noDoc cfg c x hm] at hd; cases hd
    | self =>
      simp only [axisNodes, List.mem_singleton] at hm
      subst hm; exact ⟨by decide, hd⟩
    | descOrSelf =>
      simp only [axisNodes, List.mem_cons] at hm
      rcases hm with rfl | hm
      · exact ⟨by decide, hd⟩
      · rw [descendants_noDoc c x hm] at hd; cases hd
    | parent =>
      simp only [axisNodes, Option.mem_toList] at hm
      rw [parentOf_noDoc cfg hdm rt c x hm] at hd; cases hd
    | ancestor =>
      simp only [axisNodes] at hm
      rw [ancestorsOf_noDoc cfg hdm rt _ c x hm] at hd; cases hd
    | follSibling =>
      simp only [axisNodes, List.mem_filter] at hm
      rw [siblings_noDoc cfg rt c x hm.1] at hd; cases hd
    | precSibling =>
      simp only [axisNodes, List.mem_reverse, List.mem_filter] at hm
      rw [siblings_noDoc cfg rt c x hm.1] at hd; cases hd

def Cfg.withDrop (cfg : Cfg α) (b : Bool) : Cfg α := { cfg with dropRoot := b }

theorem attributes_withDrop (cfg : Cfg α) (b : Bool) (c : Item α) :
    attributes (cfg.withDrop b) c = attributes cfg c := by cases c <;> rfl

theorem hasChildIdx_withDrop (cfg : Cfg α) (b : Bool) (i : Nat) :
    hasChildIdx (cfg.withDrop b) i = hasChildIdx cfg i := by
  funext p; simp [hasChildIdx, attributes_withDrop]

theorem parentOf_withDrop (cfg : Cfg α) (b : Bool) (rt c : Item α) :
    parentOf (cfg.withDrop b) rt c = parentOf cfg rt c := by
  unfold parentOf
  cases c.idx? with
  | none => rfl
  | some i => simp only [hasChildIdx_withDrop]; rfl

theorem ancestorsOf_withDrop (cfg : Cfg α) (b : Bool) (rt : Item α) : ∀ (n : Nat) (c : Item α),
    ancestorsOf (cfg.withDrop b) rt n c = ancestorsOf cfg rt n c
  | 0, _ => rfl
  | n + 1, c => by
    simp only [ancestorsOf, parentOf_withDrop]
    cases parentOf cfg rt c with
    | none => rfl
    | some p => simp [ancestorsOf_withDrop cfg b rt n p]

theorem axisNodes_withDrop (cfg : Cfg α) (b : Bool) (rt : Item α) (ax : Axis) (c : Item α) :
    axisNodes (cfg.withDrop b) rt ax c = axisNodes cfg rt ax c := by
  cases ax <;> simp [axisNodes, attributes_withDrop, parentOf_withDrop, ancestorsOf_withDrop, siblings]

theorem stepNodes_withDrop (cfg : Cfg α) (rt : Item α) (ax : Axis) (t : NTest) (c : Item α)
    (h : (ax == .child && t == .star && isDoc c) = false) :
    stepNodes (cfg.withDrop true) rt ax t c = stepNodes (cfg.withDrop false) rt ax t c := by
  unfold stepNodes
  rw [axisNodes_withDrop, axisNodes_withDrop]
  simp only [Cfg.withDrop, Bool.true_and, Bool.false_and]
  rw [h]

/-- **the typed-`*` branch is never taken on the document when `starAtDoc` is false** -/
theorem eval_withDrop (cfg : Cfg α) (hdm : cfg.dummy = true) (rt : Item α) (e : E) :
    ∀ (cd : Bool) (c : Item α) (pos size : Nat), (isDoc c = true → cd = true) →
      starAtDoc cd e = false →
      eval (cfg.withDrop true) rt e c pos size = eval (cfg.withDrop false) rt e c pos size ∧
      (∀ x ∈ (eval (cfg.withDrop false) rt e c pos size).1, isDoc x = true → canDoc cd e = true) := by
  induction e with
  | here =>
    intro cd c pos size hc _
    refine ⟨rfl, ?_⟩
    intro x hx hd
    simp only [eval, List.mem_singleton] at hx
    subst hx
    exact hc hd
  | root => intro cd c pos size _ _; exact ⟨rfl, fun _ _ _ => rfl⟩
  | step p ax t q1 q2 ihp ih1 ih2 =>
    intro cd c pos size hc hs
    simp only [starAtDoc, Bool.or_eq_false_iff] at hs
    obtain ⟨⟨⟨hsp, hstar⟩, hs1⟩, hs2⟩ := hs
    obtain ⟨hpe, hpd⟩ := ihp cd c pos size hc hsp
    -- per context node the candidates agree
    have hstep : ∀ c' ∈ (eval (cfg.withDrop false) rt p c pos size).1,
        (filterPos (fun it i n => (eval (cfg.withDrop true) rt q2 it i n).2)
          (filterPos (fun it i n => (eval (cfg.withDrop true) rt q1 it i n).2)
            (stepNodes (cfg.withDrop true) rt ax t c'))) =
        (filterPos (fun it i n => (eval (cfg.withDrop false) rt q2 it i n).2)
          (filterPos (fun it i n => (eval (cfg.withDrop false) rt q1 it i n).2)
            (stepNodes (cfg.withDrop false) rt ax t c'))) := by
      intro c' hc'
      have hsn : stepNodes (cfg.withDrop true) rt ax t c' = stepNodes (cfg.withDrop false) rt ax t c' := by
        apply stepNodes_withDrop
        cases hdc : isDoc c' with
        | false => simp
        | true =>
          have := hpd c' hc' hdc
          rw [this] at hstar
          simpa using hstar
      rw [hsn]
      have hcd : ∀ x ∈ stepNodes (cfg.withDrop false) rt ax t c', isDoc x = true →
          (canDoc cd p && (ax == .descOrSelf || ax == .self) && t == .node) = true := by
        intro x hx hd
        obtain ⟨h1, h2⟩ := stepNodes_doc _ (by simpa [Cfg.withDrop] using hdm) rt ax t c' x hx hd
        rw [hpd c' hc' h2]
        simpa [Bool.and_assoc] using h1
      have e1 : filterPos (fun it i n => (eval (cfg.withDrop true) rt q1 it i n).2)
            (stepNodes (cfg.withDrop false) rt ax t c') =
          filterPos (fun it i n => (eval (cfg.withDrop false) rt q1 it i n).2)
            (stepNodes (cfg.withDrop false) rt ax t c') := by
        apply filterPos_congr
        intro x hx i n
        rw [(ih1 _ x i n (hcd x hx) hs1).1]
      rw [e1]
      apply filterPos_congr
      intro x hx i n
      rw [(ih2 _ x i n (hcd x (filterPos_subset _ _ x hx)) hs2).1]
    constructor
    · simp only [eval, hpe]
      rw [flatMap_congr' _ _ _ hstep]
    · intro x hx hd
      simp only [eval] at hx
      have hx := dedup_subset _ _ x hx
      simp only [List.mem_flatMap] at hx
      obtain ⟨c', hc', hx⟩ := hx
      have hx := filterPos_subset _ _ x (filterPos_subset _ _ x hx)
      obtain ⟨h1, h2⟩ := stepNodes_doc _ (by simpa [Cfg.withDrop] using hdm) rt ax t c' x hx hd
      simp only [canDoc]
      rw [hpd c' hc' h2]
      simpa [Bool.and_assoc] using h1
  | ptrue => intro cd c pos size _ _; exact ⟨rfl, fun x hx => by simp [eval] at hx⟩
  | pos n => intro cd c pos size _ _; exact ⟨rfl, fun x hx => by simp [eval] at hx⟩
  | last => intro cd c pos size _ _; exact ⟨rfl, fun x hx => by simp [eval] at hx⟩
  | posLe n => intro cd c pos size _ _; exact ⟨rfl, fun x hx => by simp [eval] at hx⟩
  | exist p ih =>
    intro cd c pos size hc hs
    simp only [starAtDoc] at hs
    exact ⟨by simp only [eval, (ih cd c 1 1 hc hs).1], fun x hx => by simp [eval] at hx⟩
  | countGt p n ih =>
    intro cd c pos size hc hs
    simp only [starAtDoc] at hs
    exact ⟨by simp only [eval, (ih cd c 1 1 hc hs).1], fun x hx => by simp [eval] at hx⟩
  | not q ih =>
    intro cd c pos size hc hs
    simp only [starAtDoc] at hs
    exact ⟨by simp only [eval, (ih cd c pos size hc hs).1], fun x hx => by simp [eval] at hx⟩
  | and q r ihq ihr =>
    intro cd c pos size hc hs
    simp only [starAtDoc, Bool.or_eq_false_iff] at hs
    exact ⟨by simp only [eval, (ihq cd c pos size hc hs.1).1, (ihr cd c pos size hc hs.2).1],
      fun x hx => by simp [eval] at hx⟩
  | or q r ihq ihr =>
    intro cd c pos size hc hs
    simp only [starAtDoc, Bool.or_eq_false_iff] at hs
    exact ⟨by simp only [eval, (ihq cd c pos size hc hs.1).1, (ihr cd c pos size hc hs.2).1],
      fun x hx => by simp [eval] at hx⟩

/-! ## expressions that never consult the attribute lists -/

theorem axisNodes_forward (ca cb : Cfg α) (rt : Item α) (ax : Axis) (c : Item α)
    (h : (ax == .child || ax == .descendant || ax == .descOrSelf || ax == .self) = true) :
    axisNodes ca rt ax c = axisNodes cb rt ax c := by
  cases ax <;> first | rfl | (simp at h)

theorem stepNodes_forward (ca cb : Cfg α) (hd : ca.dropRoot = cb.dropRoot) (rt : Item α) (ax : Axis)
    (t : NTest) (c : Item α)
    (h : (ax == .child || ax == .descendant || ax == .descOrSelf || ax == .self) = true) :
    stepNodes ca rt ax t c = stepNodes cb rt ax t c := by
  unfold stepNodes
  rw [hd, axisNodes_forward ca cb rt ax c h]

/-- **forward, attribute-free expressions are evaluated without ever looking at the attribute lists**:
two configurations that agree on the `*`-under-document flag give the same answer -/
theorem eval_attrs_irrelevant (ca cb : Cfg α) (hd : ca.dropRoot = cb.dropRoot) (rt : Item α) (e : E) :
    usesAttrOrUp e = false → ∀ (c : Item α) (pos size : Nat), eval ca rt e c pos size = eval cb rt e c pos size := by
  induction e with
  | here => intro _ c pos size; rfl
  | root => intro _ c pos size; rfl
  | step p ax t q1 q2 ihp ih1 ih2 =>
    intro h c pos size
    simp only [usesAttrOrUp, Bool.or_eq_false_iff, Bool.not_eq_false'] at h
    obtain ⟨⟨⟨hp, h1⟩, h2⟩, hax⟩ := h
    have hfm : ∀ (l : List (Item α)),
        l.flatMap (fun c' => filterPos (fun it i n => (eval ca rt q2 it i n).2)
          (filterPos (fun it i n => (eval ca rt q1 it i n).2) (stepNodes ca rt ax t c'))) =
        l.flatMap (fun c' => filterPos (fun it i n => (eval cb rt q2 it i n).2)
          (filterPos (fun it i n => (eval cb rt q1 it i n).2) (stepNodes cb rt ax t c'))) := by
      intro l
      apply flatMap_congr'
      intro c' _
      rw [stepNodes_forward ca cb hd rt ax t c' hax]
      have e1 : filterPos (fun it i n => (eval ca rt q1 it i n).2) (stepNodes cb rt ax t c') =
          filterPos (fun it i n => (eval cb rt q1 it i n).2) (stepNodes cb rt ax t c') :=
        filterPos_congr _ _ _ (fun x _ i n => by rw [ih1 h1 x i n])
      rw [e1]
      exact filterPos_congr _ _ _ (fun x _ i n => by rw [ih2 h2 x i n])
    simp only [eval, ihp hp c pos size, hfm]
  | ptrue => intro _ c pos size; rfl
  | pos n => intro _ c pos size; rfl
  | last => intro _ c pos size; rfl
  | posLe n => intro _ c pos size; rfl
  | exist p ih => intro h c pos size; simp only [usesAttrOrUp] at h; simp only [eval, ih h c 1 1]
  | countGt p n ih => intro h c pos size; simp only [usesAttrOrUp] at h; simp only [eval, ih h c 1 1]
  | not q ih => intro h c pos size; simp only [usesAttrOrUp] at h; simp only [eval, ih h c pos size]
  | and q r ihq ihr =>
    intro h c pos size
    simp only [usesAttrOrUp, Bool.or_eq_false_iff] at h
    simp only [eval, ihq h.1 c pos size, ihr h.2 c pos size]
  | or q r ihq ihr =>
    intro h c pos size
    simp only [usesAttrOrUp, Bool.or_eq_false_iff] at h
    simp only [eval, ihq h.1 c pos size, ihr h.2 c pos size]

theorem select_attrs_irrelevant (ca cb : Cfg α) (hd : ca.dropRoot = cb.dropRoot) (fromDoc : Bool)
    (t : Forest α) (e : E) (h : usesAttrOrUp e = false) : select ca fromDoc t e = select cb fromDoc t e := by
  unfold select
  rw [eval_attrs_irrelevant ca cb hd (.doc t) e h]

end EPV.Xsd.Sel

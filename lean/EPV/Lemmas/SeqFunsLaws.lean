/-
C08 helper lemmas for the algebraic laws (quantifier duality, remove/insert-before,
positional predicates, distinct-values constraints).
-/
import EPV.Lemmas.SeqFunsEval
namespace EPV.Seq
open EPV.Seq.Spec

/-! ### quantifier duality -/

theorem forallM_eq_not_exists {β : Type} (g : β → Except Err Bool) (l : List β) :
    forallM g l = (existsM (fun v => (g v).map not) l).map not := by
  induction l with
  | nil => rfl
  | cons b bs ih =>
    simp only [forallM, existsM]
    cases g b with
    | error e => rfl
    | ok r => cases r <;> simp [Except.map, bind, Except.bind, ih, pure, Except.pure]

theorem semEvery_eq_not_semSome : ∀ (bs : Binds) (c : Ctx) (test : Ctx → Except Err Bool),
    semEvery bs c test = (semSome bs c (fun c' => (test c').map not)).map not
  | .one x e, c, test => by
    simp only [semEvery, semSome]
    cases Spec.sem e c with
    | error err => rfl
    | ok s => exact forallM_eq_not_exists _ s
  | .cons x e rest, c, test => by
    simp only [semEvery, semSome]
    cases Spec.sem e c with
    | error err => rfl
    | ok s =>
      simp only [bind, Except.bind]
      have : (fun v => semEvery rest (bind1 c x v) test)
          = fun v => (semSome rest (bind1 c x v) (fun c' => (test c').map not)).map not := by
        funext v; exact semEvery_eq_not_semSome rest (bind1 c x v) test
      rw [this, forallM_eq_not_exists]
      congr 2
      funext v
      cases semSome rest (bind1 c x v) (fun c' => (test c').map not) with
      | error e => rfl
      | ok b => cases b <;> rfl

theorem sem_every_not_some_not (bs : Binds) (t : Expr) (c : Ctx) :
    Spec.sem (.everyE bs t) c = Spec.sem (.fn1 .not_ (.someE bs (.fn1 .not_ t))) c := by
  simp only [Spec.sem, semEvery_eq_not_semSome]
  have : (fun c' => ((Spec.sem t c').bind Spec.ebv).map not)
      = (fun c' => ((Spec.sem t c').bind (Spec.applyFn1 .not_)).bind Spec.ebv) := by
    funext c'
    cases Spec.sem t c' with
    | error e => rfl
    | ok v =>
      simp only [Except.bind, Spec.applyFn1]
      cases Spec.ebv v with
      | error e => rfl
      | ok b => cases b <;> rfl
  rw [this]
  cases semSome bs c (fun c' => ((Spec.sem t c').bind (Spec.applyFn1 .not_)).bind Spec.ebv) with
  | error e => rfl
  | ok b => cases b <;> rfl

/-! ### remove after insert-before -/

theorem filter_idx_all {α : Type} (p : Nat → Bool) (xs : List α) (s : Nat) (h : ∀ i, s ≤ i → p i = true) :
    ((xs.zipIdx s).filter fun t => p t.2).map Prod.fst = xs := by
  induction xs generalizing s with
  | nil => rfl
  | cons x xs ih =>
    simp only [List.zipIdx_cons, List.filter_cons, h s (Nat.le_refl s), if_true, List.map_cons]
    rw [ih (s + 1) (fun i hi => h i (by omega))]

theorem remove_insert_aux {α : Type} (p : Nat → Bool) (x : α) (xs : List α) (k s : Nat) (h : k ≤ xs.length)
    (hk : p (s + k) = false) (hne : ∀ i, i ≠ s + k → p i = true) :
    (((xs.take k ++ x :: xs.drop k).zipIdx s).filter fun t => p t.2).map Prod.fst = xs := by
  induction k generalizing xs s with
  | zero =>
    simp only [List.take_zero, List.nil_append, List.drop_zero, List.zipIdx_cons, List.filter_cons]
    rw [show p s = false from hk]
    simp only [Bool.false_eq_true, if_false]
    exact filter_idx_all p xs (s + 1) (fun i hi => hne i (by omega))
  | succ k ih =>
    cases xs with
    | nil => simp at h
    | cons y ys =>
      simp only [List.take_succ_cons, List.drop_succ_cons, List.cons_append, List.zipIdx_cons, List.filter_cons]
      rw [hne s (by omega)]
      simp only [if_true, List.map_cons]
      rw [ih ys (s + 1) (by simpa using h) (by rw [← hk]; congr 1; omega) (fun i hi => hne i (by omega))]

/-! ### positional predicates -/

theorem filter_last_idx {α : Type} (xs : List α) (s : Nat) :
    ((xs.zipIdx s).filter fun t => decide (t.2 + 1 = s + xs.length)).map Prod.fst = xs.drop (xs.length - 1) := by
  induction xs generalizing s with
  | nil => rfl
  | cons x xs ih =>
    simp only [List.zipIdx_cons, List.filter_cons, List.length_cons]
    cases xs with
    | nil => simp
    | cons y ys =>
      have h1 : ¬ (s + 1 = s + (List.length (y :: ys) + 1)) := by simp
      simp only [h1, decide_false, Bool.false_eq_true, if_false]
      have := ih (s + 1)
      have h2 : (fun t : α × Nat => decide (t.2 + 1 = s + 1 + (y :: ys).length))
          = (fun t : α × Nat => decide (t.2 + 1 = s + ((y :: ys).length + 1))) := by
        funext t; exact decide_eq_decide.mpr (by omega)
      rw [h2] at this
      rw [this]
      simp

theorem keepWhere_pure {β : Type} (q : β → Bool) (l : List β) :
    keepWhere (fun t => (Except.ok (q t) : Except Err Bool)) l = .ok (l.filter q) := by
  induction l with
  | nil => rfl
  | cons b bs ih =>
    simp only [keepWhere, ih, bind, Except.bind, pure, Except.pure, List.filter_cons]

/-! ### distinct-values: the constraints of F&O §14.2.1 -/

theorem eqD_refl_of_not_nan (d : D) (h : d ≠ .nan) : eqD d d := by
  cases d <;> simp_all [eqD]

theorem sameValue_refl (a : Atom) : sameValue a a = true := by
  unfold sameValue
  cases a with
  | dbl d =>
    by_cases h : d = .nan
    · subst h; simp
    · simp [eqAtom?, kind, numVal, eqD_refl_of_not_nan d h]
  | int n => simp [eqAtom?, kind, numVal, eqD]
  | str s => simp [eqAtom?]
  | bool b => simp [eqAtom?]

theorem distinct_sublist (xs : Seq) : List.Sublist (Spec.distinctValues xs) xs := by
  induction xs with
  | nil => exact List.Sublist.slnil
  | cons x xs ih =>
    simp only [Spec.distinctValues]
    exact List.Sublist.cons₂ x ((List.filter_sublist).trans ih)

theorem distinct_pairwise (xs : Seq) :
    List.Pairwise (fun a b => sameValue a b = false) (Spec.distinctValues xs) := by
  induction xs with
  | nil => exact List.Pairwise.nil
  | cons x xs ih =>
    simp only [Spec.distinctValues]
    apply List.Pairwise.cons
    · intro y hy
      have := (List.mem_filter.mp hy).2
      simpa using this
    · exact ih.sublist List.filter_sublist

theorem distinct_covers (xs : Seq) : ∀ z ∈ xs, ∃ y ∈ Spec.distinctValues xs, sameValue y z = true := by
  induction xs with
  | nil => intro z hz; cases hz
  | cons x xs ih =>
    intro z hz
    simp only [Spec.distinctValues]
    rcases List.mem_cons.mp hz with h | h
    · subst h; exact ⟨z, List.mem_cons_self, sameValue_refl z⟩
    · obtain ⟨y, hy, hyz⟩ := ih z h
      by_cases hxy : sameValue x y = true
      · exact ⟨x, List.mem_cons_self, sameValue_trans hxy hyz⟩
      · refine ⟨y, List.mem_cons_of_mem _ (List.mem_filter.mpr ⟨hy, ?_⟩), hyz⟩
        simp [hxy]

/-! ### min / max on integers: the result is an upper (lower) bound that occurs in the input -/

theorem extremum_int_max (b : Int) (xs : List Int) :
    extremum (fun x y => decide (x < y)) true b xs ∈ b :: xs ∧
      ∀ y ∈ b :: xs, y ≤ extremum (fun x y => decide (x < y)) true b xs := by
  induction xs generalizing b with
  | nil => simp [extremum]
  | cons x xs ih =>
    simp only [extremum, if_true]
    by_cases h : b < x
    · simp only [h, decide_true, if_true]
      obtain ⟨hm, hb⟩ := ih x
      refine ⟨?_, ?_⟩
      · rcases List.mem_cons.mp hm with h' | h'
        · rw [h']; simp
        · exact List.mem_cons_of_mem _ (List.mem_cons_of_mem _ h')
      · intro y hy
        rcases List.mem_cons.mp hy with h' | h'
        · have := hb x List.mem_cons_self; omega
        · exact hb y h'
    · simp only [h, decide_false, Bool.false_eq_true, if_false]
      obtain ⟨hm, hb⟩ := ih b
      refine ⟨?_, ?_⟩
      · rcases List.mem_cons.mp hm with h' | h'
        · rw [h']; simp
        · exact List.mem_cons_of_mem _ (List.mem_cons_of_mem _ h')
      · intro y hy
        rcases List.mem_cons.mp hy with h' | h'
        · subst h'; exact hb y List.mem_cons_self
        · rcases List.mem_cons.mp h' with h'' | h''
          · have := hb b List.mem_cons_self; omega
          · exact hb y (List.mem_cons_of_mem _ h'')

theorem filterMap_int_map (ns : List Int) : (ns.map Atom.int).filterMap Atom.int? = ns := by
  induction ns with
  | nil => rfl
  | cons a as ih => simp [Atom.int?, ih]

theorem fnMinMax_ints (n : Int) (ns : List Int) :
    fnMinMax true ((n :: ns).map Atom.int) = .ok [.int (extremum (fun x y => decide (x < y)) true n ns)] := by
  have h1 : ((n :: ns).map Atom.int).all Atom.isStr = false := by simp [Atom.isStr]
  have h2 : ((n :: ns).map Atom.int).any Atom.isStr = false := by simp [Atom.isStr]
  have h3 : ((n :: ns).map Atom.int).all Atom.isBool = false := by simp [Atom.isBool]
  have h4 : ((n :: ns).map Atom.int).any Atom.isBool = false := by simp [Atom.isBool]
  have h5 : ((n :: ns).map Atom.int).all Atom.isInt = true := by simp [Atom.isInt]
  have h6 := filterMap_int_map (n :: ns)
  simp only [List.map_cons] at *
  simp only [fnMinMax, h1, h2, h3, h4, h5, h6, Bool.false_eq_true, if_false, if_true]
  exact congrArg (fun m => Except.ok [Atom.int m]) (pyExtremum_eq (fun x y : Int => decide (x < y)) true ns n)

end EPV.Seq

/-
C08 helper lemmas for the algebraic laws (quantifier duality, remove/insert-before,
positional predicates, distinct-values constraints).
-/
import EPV.Lemmas.SeqFunsEval
namespace EPV.Seq
open EPV.Seq.Spec

/-! ### quantifier duality -/

theorem forallM_eq_not_exists {β : Type} (g : β → Except Err Bool) (l : List β) :
    forallM g l = (existsM (fun v => (g v).map not) l).map not := by
  induction l with
  | nil => rfl
  | cons b bs ih =>
    simp only [forallM, existsM]
    cases g b with
    | error e => rfl
    | ok r => cases r <;> simp [Except.map, bind, Except.bind, ih, pure, Except.pure]

theorem semEvery_eq_not_semSome (sm : Summation) : ∀ (bs : Binds) (c : Ctx) (test : Ctx → Except Err Bool),
    semEvery sm bs c test = (semSome sm bs c (fun c' => (test c').map not)).map not
  | .one x e, c, test => by
    simp only [semEvery, semSome]
    cases Spec.sem sm e c with
    | error err => rfl
    | ok s => exact forallM_eq_not_exists _ s
  | .cons x e rest, c, test => by
    simp only [semEvery, semSome]
    cases Spec.sem sm e c with
    | error err => rfl
    | ok s =>
      simp only [bind, Except.bind]
      have : (fun v => semEvery sm rest (bind1 c x v) test)
          = fun v => (semSome sm rest (bind1 c x v) (fun c' => (test c').map not)).map not := by
        funext v; exact semEvery_eq_not_semSome sm rest (bind1 c x v) test
      rw [this, forallM_eq_not_exists]
      congr 2
      funext v
      cases semSome sm rest (bind1 c x v) (fun c' => (test c').map not) with
      | error e => rfl
      | ok b => cases b <;> rfl

theorem sem_every_not_some_not (sm : Summation) (bs : Binds) (t : Expr) (c : Ctx) :
    Spec.sem sm (.everyE bs t) c = Spec.sem sm (.fn1 .not_ (.someE bs (.fn1 .not_ t))) c := by
  simp only [Spec.sem, semEvery_eq_not_semSome]
  have : (fun c' => ((Spec.sem sm t c').bind Spec.ebv).map not)
      = (fun c' => ((Spec.sem sm t c').bind (Spec.applyFn1 sm c'.coll c'.doc .not_)).bind Spec.ebv) := by
    funext c'
    cases Spec.sem sm t c' with
    | error e => rfl
    | ok v =>
      simp only [Except.bind, Spec.applyFn1]
      cases Spec.ebv v with
      | error e => rfl
      | ok b => cases b <;> rfl
  rw [this]
  cases semSome sm bs c (fun c' => ((Spec.sem sm t c').bind (Spec.applyFn1 sm c'.coll c'.doc .not_)).bind Spec.ebv) with
  | error e => rfl
  | ok b => cases b <;> rfl

/-! ### remove after insert-before -/

theorem filter_idx_all {α : Type} (p : Nat → Bool) (xs : List α) (s : Nat) (h : ∀ i, s ≤ i → p i = true) :
    ((xs.zipIdx s).filter fun t => p t.2).map Prod.fst = xs := by
  induction xs generalizing s with
  | nil => rfl
  | cons x xs ih =>
    simp only [List.zipIdx_cons, List.filter_cons, h s (Nat.le_refl s), if_true, List.map_cons]
    rw [ih (s + 1) (fun i hi => h i (by omega))]

theorem remove_insert_aux {α : Type} (p : Nat → Bool) (x : α) (xs : List α) (k s : Nat) (h : k ≤ xs.length)
    (hk : p (s + k) = false) (hne : ∀ i, i ≠ s + k → p i = true) :
    (((xs.take k ++ x :: xs.drop k).zipIdx s).filter fun t => p t.2).map Prod.fst = xs := by
  induction k generalizing xs s with
  | zero =>
    simp only [List.take_zero, List.nil_append, List.drop_zero, List.zipIdx_cons, List.filter_cons]
    rw [show p s = false from hk]
    simp only [Bool.false_eq_true, if_false]
    exact filter_idx_all p xs (s + 1) (fun i hi => hne i (by omega))
  | succ k ih =>
    cases xs with
    | nil => simp at h
    | cons y ys =>
      simp only [List.take_succ_cons, List.drop_succ_cons, List.cons_append, List.zipIdx_cons, List.filter_cons]
      rw [hne s (by omega)]
      simp only [if_true, List.map_cons]
      rw [ih ys (s + 1) (by simpa using h) (by rw [← hk]; congr 1; omega) (fun i hi => hne i (by omega))]

/-! ### positional predicates -/

theorem filter_last_idx {α : Type} (xs : List α) (s : Nat) :
    ((xs.zipIdx s).filter fun t => decide (t.2 + 1 = s + xs.length)).map Prod.fst = xs.drop (xs.length - 1) := by
  induction xs generalizing s with
  | nil => rfl
  | cons x xs ih =>
    simp only [List.zipIdx_cons, List.filter_cons, List.length_cons]
    cases xs with
    | nil => simp
    | cons y ys =>
      have h1 : ¬ (s + 1 = s + (List.length (y :: ys) + 1)) := by simp
      simp only [h1, decide_false, Bool.false_eq_true, if_false]
      have := ih (s + 1)
      have h2 : (fun t : α × Nat => decide (t.2 + 1 = s + 1 + (y :: ys).length))
          = (fun t : α × Nat => decide (t.2 + 1 = s + ((y :: ys).length + 1))) := by
        funext t; exact decide_eq_decide.mpr (by omega)
      rw [h2] at this
      rw [this]
      simp

theorem keepWhere_pure {β : Type} (q : β → Bool) (l : List β) :
    keepWhere (fun t => (Except.ok (q t) : Except Err Bool)) l = .ok (l.filter q) := by
  induction l with
  | nil => rfl
  | cons b bs ih =>
    simp only [keepWhere, ih, bind, Except.bind, pure, Except.pure, List.filter_cons]

/-! ### distinct-values: the constraints of F&O §14.2.1 -/

theorem XV.eqv_refl_q (n : Int) (d : Nat) : XV.eqv (.q n d) (.q n d) = true := by simp [XV.eqv]

theorem numEq_refl (a : Atom) (hk : kind a = .num) (hn : a ≠ .dbl .nan) : numEq a a = true := by
  cases a with
  | int n => simp [numEq, isDouble, exact, XV.eqv]
  | dec m k => simp [numEq, isDouble, exact, XV.eqv]
  | dbl d => cases d <;> simp_all [numEq, isDouble, eqD, toDouble, D.val, XV.eqv]
  | _ => simp [kind] at hk

theorem collEq_refl (cl : Coll) (s : String) : collEq cl s s = true := by
  cases cl <;> simp [collEq]

theorem sameValue_refl (cl : Coll) (a : Atom) (hnode : kind a ≠ .node) : sameValue cl a a = true := by
  unfold sameValue
  by_cases hn : a = .dbl .nan
  · subst hn; simp
  · cases a with
    | node i => simp [kind] at hnode
    | int n => simp [eqAtomC?, eqAtom?, kind, collEq_refl, numEq_refl (.int n) rfl (by simp)]
    | dec m k => simp [eqAtomC?, eqAtom?, kind, collEq_refl, numEq_refl (.dec m k) rfl (by simp)]
    | dbl d => simp [eqAtomC?, eqAtom?, kind, collEq_refl, numEq_refl (.dbl d) rfl hn]
    | str s => simp [eqAtomC?, eqAtom?, kind, collEq_refl]
    | untyped s => simp [eqAtomC?, eqAtom?, kind, collEq_refl]
    | bool b => simp [eqAtomC?, eqAtom?, kind, collEq_refl]

theorem distinctFrom_sublist (cl : Coll) (xs : Seq) : ∀ kept, List.Sublist (Spec.distinctFrom cl kept xs) xs := by
  induction xs with
  | nil => intro kept; exact List.Sublist.slnil
  | cons x xs ih =>
    intro kept
    simp only [Spec.distinctFrom]
    split
    · exact (ih kept).cons x
    · exact (ih _).cons₂ x

/-- no result equals a value kept before it (in particular no two results are equal) -/
theorem distinctFrom_fresh (cl : Coll) (xs : Seq) : ∀ kept, ∀ r ∈ Spec.distinctFrom cl kept xs, ∀ k ∈ kept, sameValue cl k r = false := by
  induction xs with
  | nil => intro kept r hr; cases hr
  | cons x xs ih =>
    intro kept r hr k hk
    simp only [Spec.distinctFrom] at hr
    split at hr
    · exact ih kept r hr k hk
    · rename_i hnot
      rcases List.mem_cons.mp hr with h | h
      · subst h
        cases hs : sameValue cl k r with
        | false => rfl
        | true => exact absurd (List.any_eq_true.mpr ⟨k, hk, hs⟩) hnot
      · exact ih _ r h k (List.mem_append_left _ hk)

theorem distinctFrom_pairwise (cl : Coll) (xs : Seq) : ∀ kept,
    List.Pairwise (fun a b => sameValue cl a b = false) (Spec.distinctFrom cl kept xs) := by
  induction xs with
  | nil => intro kept; exact List.Pairwise.nil
  | cons x xs ih =>
    intro kept
    simp only [Spec.distinctFrom]
    split
    · exact ih kept
    · apply List.Pairwise.cons
      · intro r hr
        exact distinctFrom_fresh cl xs (kept ++ [x]) r hr x (List.mem_append_right _ List.mem_cons_self)
      · exact ih _

theorem distinctFrom_covers (cl : Coll) (xs : Seq) (hnode : ∀ z ∈ xs, kind z ≠ .node) : ∀ kept, ∀ z ∈ xs,
    ∃ y ∈ kept ++ Spec.distinctFrom cl kept xs, sameValue cl y z = true := by
  induction xs with
  | nil => intro kept z hz; cases hz
  | cons x xs ih =>
    intro kept z hz
    have ih' := ih (fun z hz => hnode z (List.mem_cons_of_mem _ hz))
    simp only [Spec.distinctFrom]
    split
    · rename_i hseen
      rcases List.mem_cons.mp hz with h | h
      · subst h
        obtain ⟨y, hy, hyz⟩ := List.any_eq_true.mp hseen
        exact ⟨y, List.mem_append_left _ hy, hyz⟩
      · exact ih' kept z h
    · rcases List.mem_cons.mp hz with h | h
      · subst h
        exact ⟨z, List.mem_append_right _ List.mem_cons_self, sameValue_refl cl z (hnode z List.mem_cons_self)⟩
      · obtain ⟨y, hy, hyz⟩ := ih' (kept ++ [x]) z h
        refine ⟨y, ?_, hyz⟩
        simp only [List.mem_append, List.mem_cons, List.not_mem_nil, or_false] at hy ⊢
        rcases hy with (hy | hy) | hy
        · exact Or.inl hy
        · exact Or.inr (Or.inl hy)
        · exact Or.inr (Or.inr hy)

/-! ### min / max on integers: the result is an upper (lower) bound that occurs in the input -/

theorem extremum_int_max (b : Int) (xs : List Int) :
    extremum (fun x y => decide (x < y)) true b xs ∈ b :: xs ∧
      ∀ y ∈ b :: xs, y ≤ extremum (fun x y => decide (x < y)) true b xs := by
  induction xs generalizing b with
  | nil => simp [extremum]
  | cons x xs ih =>
    simp only [extremum, if_true]
    by_cases h : b < x
    · simp only [h, decide_true, if_true]
      obtain ⟨hm, hb⟩ := ih x
      refine ⟨?_, ?_⟩
      · rcases List.mem_cons.mp hm with h' | h'
        · rw [h']; simp
        · exact List.mem_cons_of_mem _ (List.mem_cons_of_mem _ h')
      · intro y hy
        rcases List.mem_cons.mp hy with h' | h'
        · have := hb x List.mem_cons_self; omega
        · exact hb y h'
    · simp only [h, decide_false, Bool.false_eq_true, if_false]
      obtain ⟨hm, hb⟩ := ih b
      refine ⟨?_, ?_⟩
      · rcases List.mem_cons.mp hm with h' | h'
        · rw [h']; simp
        · exact List.mem_cons_of_mem _ (List.mem_cons_of_mem _ h')
      · intro y hy
        rcases List.mem_cons.mp hy with h' | h'
        · subst h'; exact hb y List.mem_cons_self
        · rcases List.mem_cons.mp h' with h'' | h''
          · have := hb b List.mem_cons_self; omega
          · exact hb y (List.mem_cons_of_mem _ h'')

theorem extremum_map_int (isMax : Bool) (n : Int) (ns : List Int) :
    extremum (fun x y : Atom => XV.lt (exact x) (exact y)) isMax (.int n) (ns.map Atom.int)
      = .int (extremum (fun x y => decide (x < y)) isMax n ns) := by
  induction ns generalizing n with
  | nil => rfl
  | cons a as ih =>
    simp only [List.map_cons, extremum]
    have h1 : XV.lt (exact (.int n)) (exact (.int a)) = decide (n < a) := by simp [exact, XV.lt]
    have h2 : XV.lt (exact (.int a)) (exact (.int n)) = decide (a < n) := by simp [exact, XV.lt]
    rw [h1, h2]
    cases isMax
    · by_cases h : a < n <;> simp [h, ih]
    · by_cases h : n < a <;> simp [h, ih]

theorem castUntyped_ints (l : List Int) : castUntyped (l.map Atom.int) = .ok (l.map Atom.int) := by
  induction l with
  | nil => rfl
  | cons a as ih => simp [castUntyped, ih, bind, Except.bind, pure, Except.pure]

theorem atomized_ints (doc : List String) (l : List Int) :
    (l.map Atom.int).map (atomized doc) = l.map Atom.int := by
  induction l with
  | nil => rfl
  | cons a as ih => simp [atomized] at ih ⊢

theorem fnMinMax_ints (cl : Coll) (doc : List String) (n : Int) (ns : List Int) :
    fnMinMax cl doc true ((n :: ns).map Atom.int)
      = .ok [.int (extremum (fun x y => decide (x < y)) true n ns)] := by
  rw [fnMinMax_eq, Spec.fnMinMax, atomized_ints, castUntyped_ints]
  show Spec.minMaxCore cl true ((n :: ns).map Atom.int) = _
  have h0 : outsideAgg ((n :: ns).map Atom.int) = false := by
    unfold outsideAgg; rw [List.any_eq_false]; intro x hx
    obtain ⟨k, _, rfl⟩ := List.mem_map.mp hx; simp
  have h1 : allKind .str ((n :: ns).map Atom.int) = false := by simp [allKind, kind]
  have h2 : allKind .bool ((n :: ns).map Atom.int) = false := by simp [allKind, kind]
  have h3 : allKind .num ((n :: ns).map Atom.int) = true := by
    unfold allKind; rw [List.all_eq_true]; intro x hx
    obtain ⟨k, _, rfl⟩ := List.mem_map.mp hx; simp [kind]
  have h4 : anyDouble ((n :: ns).map Atom.int) = false := by
    unfold anyDouble; rw [List.any_eq_false]; intro x hx
    obtain ⟨k, _, rfl⟩ := List.mem_map.mp hx; simp [isDouble]
  simp only [List.map_cons] at *
  simp only [Spec.minMaxCore, h0, h1, h2, h3, h4, Bool.false_eq_true, if_false, if_true, extremum_map_int]

end EPV.Seq

/-
C15 — the heap machine keeps the state *closed*: objects and variables mention only addresses
that exist (`StOK`), for every dialect whose pure functions only move values around (`Pres`),
in particular for the Python transcriptions and the F&O definitions.  With this invariant the
deep-immutability theorem needs no hypothesis about the store.
-/
import EPV.Lemmas.MapArrayRefine
import EPV.Lemmas.MapArrayObserve
namespace EPV.MapArray
open Spec

/-- an item mentions only addresses below `n` -/
def ItemOK (n : Nat) : Item → Prop
  | .atom _ => True
  | .ref a => a < n

def SeqOK (n : Nat) (v : Seq) : Prop := ∀ it ∈ v, ItemOK n it
def EntOK (n : Nat) (es : Entries Seq) : Prop := ∀ e ∈ es, SeqOK n e.2
def MemOK (n : Nat) (ms : List Seq) : Prop := ∀ m ∈ ms, SeqOK n m

def ObjOK (n : Nat) : Obj → Prop
  | .arr ms => MemOK n ms
  | .map es => EntOK n es

/-- **well-founded store**: every object mentions only addresses *older than itself* (objects are
created after the values they contain and never change) — hence no cycles, and references exist -/
def StoreOK (s : Store) : Prop := ∀ (a : Nat) (o : Obj), s[a]? = some o → ObjOK a o

/-- closed state: objects and variables mention only existing addresses -/
def StOK (st : St) : Prop := StoreOK st.store ∧ ∀ v ∈ st.env, SeqOK st.store.length v

theorem ItemOK_mono {n m : Nat} (h : n ≤ m) {it : Item} (hi : ItemOK n it) : ItemOK m it := by
  cases it with
  | atom k => trivial
  | ref a => exact Nat.lt_of_lt_of_le hi h

theorem SeqOK_mono {n m : Nat} (h : n ≤ m) {v : Seq} (hv : SeqOK n v) : SeqOK m v :=
  fun it hit => ItemOK_mono h (hv it hit)

theorem ObjOK_mono {n m : Nat} (h : n ≤ m) {o : Obj} (ho : ObjOK n o) : ObjOK m o := by
  cases o with
  | arr ms => exact fun x hx => SeqOK_mono h (ho x hx)
  | map es => exact fun x hx => SeqOK_mono h (ho x hx)

theorem StoreOK_weak {s : Store} (hs : StoreOK s) (a : Nat) (o : Obj) (h : s[a]? = some o) : ObjOK s.length o := by
  have hlt : a < s.length := by
    by_cases hl : a < s.length
    · exact hl
    · rw [List.getElem?_eq_none (by omega)] at h; cases h
  exact ObjOK_mono (Nat.le_of_lt hlt) (hs a o h)

theorem SeqOK_nil (n : Nat) : SeqOK n [] := fun _ h => by simp at h
theorem SeqOK_append {n : Nat} {a b : Seq} (ha : SeqOK n a) (hb : SeqOK n b) : SeqOK n (a ++ b) :=
  fun it hit => (List.mem_append.1 hit).elim (ha it) (hb it)
theorem SeqOK_flatten {n : Nat} {l : List Seq} (h : ∀ v ∈ l, SeqOK n v) : SeqOK n l.flatten := by
  intro it hit
  obtain ⟨v, hv, hiv⟩ := List.mem_flatten.1 hit
  exact h v hv it hiv
theorem SeqOK_atom (n : Nat) (k : Key) : SeqOK n [.atom k] := fun it hit => by
  simp at hit; subst hit; trivial

/-- what the machine needs from the pure functions of a dialect: results are made of the
values that went in -/
structure Pres (d : Dialect) : Prop where
  mapCtor : ∀ n l es, d.mapCtor l = .ok es → EntOK n l → EntOK n es
  mapPut : ∀ n es k v es', d.mapPut es k v = .ok es' → EntOK n es → SeqOK n v → EntOK n es'
  mapRemove : ∀ n es ks es', d.mapRemove es ks = .ok es' → EntOK n es → EntOK n es'
  mapGet : ∀ n es k, EntOK n es → SeqOK n (d.mapGet es k)
  mapMerge : ∀ n maps p es, d.mapMerge maps p = .ok es → (∀ m ∈ maps, EntOK n m) → EntOK n es
  arrGet : ∀ n ms p x, d.arrGet ms p = .ok x → MemOK n ms → SeqOK n x
  arrPut : ∀ n ms p v ms', d.arrPut ms p v = .ok ms' → MemOK n ms → SeqOK n v → MemOK n ms'
  arrInsertBefore : ∀ n ms p v ms', d.arrInsertBefore ms p v = .ok ms' → MemOK n ms → SeqOK n v → MemOK n ms'
  arrAppend : ∀ n ms v, MemOK n ms → SeqOK n v → MemOK n (d.arrAppend ms v)
  arrRemove : ∀ n ms ps ms', d.arrRemove ms ps = .ok ms' → MemOK n ms → MemOK n ms'
  arrSubarray : ∀ n ms s l ms', d.arrSubarray ms s l = .ok ms' → MemOK n ms → MemOK n ms'
  arrHead : ∀ n ms x, d.arrHead ms = .ok x → MemOK n ms → SeqOK n x
  arrTail : ∀ n ms ms', d.arrTail ms = .ok ms' → MemOK n ms → MemOK n ms'
  arrReverse : ∀ n ms, MemOK n ms → MemOK n (d.arrReverse ms)

theorem StoreOK_alloc {s : Store} (hs : StoreOK s) {o : Obj} (ho : ObjOK s.length o) :
    StoreOK (alloc s o).1 ∧ SeqOK (alloc s o).1.length (alloc s o).2 := by
  constructor
  · intro a o' ha
    simp only [alloc] at ha
    by_cases hlt : a < s.length
    · rw [List.getElem?_append_left hlt] at ha
      exact hs a o' ha
    · rw [List.getElem?_append_right (by omega)] at ha
      by_cases h0 : a - s.length = 0
      · rw [h0] at ha; simp at ha; subst ha
        have : a = s.length := by omega
        rw [this]; exact ho
      · have : ([o] : List Obj)[a - s.length]? = none := by
          apply List.getElem?_eq_none; simp; omega
        rw [this] at ha; cases ha
  · intro it hit
    simp only [alloc, List.mem_singleton] at hit
    subst hit
    simp [ItemOK, alloc]

theorem asMap_EntOK {s : Store} (hs : StoreOK s) {v : Seq} {es : Entries Seq} (h : asMap s v = .ok es) :
    EntOK s.length es := by
  obtain ⟨a, ha⟩ := asMap_ok h
  exact StoreOK_weak hs a _ ha

theorem asArr_ok {s : Store} {v : Seq} {r : Nat × List Seq} (h : asArr s v = .ok r) :
    s[r.1]? = some (Obj.arr r.2) := by
  unfold asArr at h
  split at h
  · rename_i a
    split at h
    · rename_i ms heq
      injection h with h; subst h; exact heq
    · cases h
  · cases h

theorem asArr_MemOK {s : Store} (hs : StoreOK s) {v : Seq} {r : Nat × List Seq} (h : asArr s v = .ok r) :
    MemOK s.length r.2 := StoreOK_weak hs r.1 _ (asArr_ok h)


theorem flattenItems_ok {s : Store} (hs : StoreOK s) (fuel : Nat) (v : Seq) (hv : SeqOK s.length v) :
    SeqOK s.length (flattenItems s fuel v) := by
  induction fuel generalizing v with
  | zero => exact SeqOK_nil _
  | succ n ih =>
    simp only [flattenItems]
    intro it hit
    obtain ⟨x, hx, hix⟩ := List.mem_flatMap.1 hit
    cases x with
    | atom k => simp at hix; subst hix; trivial
    | ref a =>
      simp only at hix
      cases hsa : s[a]? with
      | none => rw [hsa] at hix; simp at hix; subst hix; exact hv _ hx
      | some o =>
        rw [hsa] at hix
        cases o with
        | arr ms => exact ih ms.flatten (SeqOK_flatten (StoreOK_weak hs a _ hsa)) it hix
        | map es => simp at hix; subst hix; exact hv _ hx

theorem findItems_ok (eq : Key → Key → Bool) {s : Store} (hs : StoreOK s) (key : Key) (fuel : Nat) (v : Seq) :
    MemOK s.length (findItems eq s key fuel v) := by
  induction fuel generalizing v with
  | zero => intro m hm; simp [findItems] at hm
  | succ n ih =>
    simp only [findItems]
    intro m hm
    obtain ⟨x, _, hmx⟩ := List.mem_flatMap.1 hm
    cases x with
    | atom k => simp at hmx
    | ref a =>
      simp only at hmx
      cases hsa : s[a]? with
      | none => rw [hsa] at hmx; simp at hmx
      | some o =>
        rw [hsa] at hmx
        cases o with
        | arr ms =>
          obtain ⟨y, _, hmy⟩ := List.mem_flatMap.1 hmx
          exact ih y m hmy
        | map es =>
          obtain ⟨e, he, hme⟩ := List.mem_flatMap.1 hmx
          rcases List.mem_append.1 hme with h1 | h1
          · split at h1
            · simp at h1; subst h1; exact StoreOK_weak hs a _ hsa e he
            · simp at h1
          · exact ih e.2 m h1

theorem mapM_ok_mem {α β : Type} {l : List α} {f : α → Except Err β} {r : List β}
    (h : l.mapM f = .ok r) : ∀ y ∈ r, ∃ x ∈ l, f x = .ok y := by
  induction l generalizing r with
  | nil => simp only [List.mapM_nil, pure, Except.pure] at h; injection h with h; subst h; simp
  | cons x rest ih =>
    rw [List.mapM_cons] at h
    obtain ⟨y0, h0, h⟩ := bind_ok h
    obtain ⟨r', h1, h⟩ := bind_ok h
    simp only [pure, Except.pure] at h
    injection h with h; subst h
    intro y hy
    rcases List.mem_cons.1 hy with rfl | hy
    · exact ⟨x, by simp, h0⟩
    · obtain ⟨x', hx', hf⟩ := ih h1 y hy
      exact ⟨x', List.mem_cons_of_mem _ hx', hf⟩

theorem lookupItem_ok {d : Dialect} (hd : Pres d) {s : Store} (hs : StoreOK s) (ks : Option (List Key))
    (it : Item) (r : Seq) (h : lookupItem d s ks it = .ok r) : SeqOK s.length r := by
  cases it with
  | atom k => simp [lookupItem] at h
  | ref a =>
    simp only [lookupItem] at h
    cases hsa : s[a]? with
    | none => rw [hsa] at h; simp at h
    | some o =>
      rw [hsa] at h
      cases o with
      | map es =>
        have hes : EntOK s.length es := StoreOK_weak hs a _ hsa
        cases ks with
        | none =>
          simp only at h; injection h with h; subst h
          intro x hx
          obtain ⟨e, he, hxe⟩ := List.mem_flatMap.1 hx
          exact hes e he x hxe
        | some l =>
          simp only at h; injection h with h; subst h
          intro x hx
          obtain ⟨k, _, hxk⟩ := List.mem_flatMap.1 hx
          exact hd.mapGet _ es k hes x hxk
      | arr ms =>
        have hms : MemOK s.length ms := StoreOK_weak hs a _ hsa
        cases ks with
        | none => simp only at h; injection h with h; subst h; exact SeqOK_flatten hms
        | some l =>
          simp only at h
          cases hm : l.mapM (fun k => do let p ← d.arrIndex k; d.arrGet ms p) with
          | error e => rw [hm] at h; simp [Except.map] at h
          | ok parts =>
            rw [hm] at h
            simp only [Except.map] at h
            injection h with h; subst h
            apply SeqOK_flatten
            intro v hv
            obtain ⟨k, _, hk⟩ := mapM_ok_mem hm v hv
            obtain ⟨p, _, hk⟩ := bind_ok hk
            exact hd.arrGet _ ms p v hk hms

theorem allocMany_ok {s : Store} (hs : StoreOK s) (os : List Obj) (hos : ∀ o ∈ os, ObjOK s.length o) :
    StoreOK (allocMany s os).1 ∧ SeqOK (allocMany s os).1.length (allocMany s os).2 := by
  induction os generalizing s with
  | nil => exact ⟨hs, SeqOK_nil _⟩
  | cons o rest ih =>
    simp only [allocMany]
    obtain ⟨h1, h2⟩ := StoreOK_alloc hs (hos o (by simp))
    have hlen : s.length ≤ (alloc s o).1.length := by simp [alloc]
    obtain ⟨h3, h4⟩ := ih h1 (fun o' ho' => ObjOK_mono hlen (hos o' (List.mem_cons_of_mem _ ho')))
    refine ⟨h3, SeqOK_append (SeqOK_mono ?_ h2) h4⟩
    exact (allocMany_prefix _ rest).length_le


theorem callFn_ok {d : Dialect} (hd : Pres d) {s : Store} (hs : StoreOK s) (f arg r : Seq)
    (h : callFn d s f arg = .ok r) : SeqOK s.length r := by
  unfold callFn at h
  split at h
  · rename_i key
    split at h
    · rename_i a
      cases hsa : s[a]? with
      | none => rw [hsa] at h; cases h
      | some o =>
        rw [hsa] at h
        cases o with
        | map es =>
          simp only at h; injection h with h; subst h
          exact hd.mapGet _ es key (StoreOK_weak hs a _ hsa)
        | arr ms =>
          simp only at h
          obtain ⟨p, _, h⟩ := bind_ok h
          exact hd.arrGet _ ms p r h (StoreOK_weak hs a _ hsa)
    · cases h
  · cases h

theorem arrSort_mem {ms ms' : List Seq} (h : arrSort ms = .ok ms') : ∀ m ∈ ms', m ∈ ms := by
  unfold arrSort at h
  cases hk : ms.mapM (fun m => (seqSortKey m).map fun k => (m, k)) with
  | none => rw [hk] at h; cases h
  | some keyed =>
    rw [hk] at h
    simp only [arrSortKeyed] at h
    split at h
    · injection h with h; subst h
      intro m hm
      obtain ⟨p, hp, rfl⟩ := List.mem_map.1 hm
      have hp' : p ∈ keyed := List.mem_mergeSort.1 hp
      -- every keyed pair comes from a member
      have : ∀ (l : List Seq) (r : List (Seq × List SKey)),
          l.mapM (fun m => (seqSortKey m).map fun k => (m, k)) = some r → ∀ q ∈ r, q.1 ∈ l := by
        intro l
        induction l with
        | nil => intro r hr q hq; simp at hr; subst hr; simp at hq
        | cons x xs ih =>
          intro r hr q hq
          rw [List.mapM_cons] at hr
          cases hx : seqSortKey x with
          | none => simp [hx] at hr
          | some kx =>
            cases hxs : xs.mapM (fun m => (seqSortKey m).map fun k => (m, k)) with
            | none => simp [hx, hxs] at hr
            | some r' =>
              simp [hx, hxs] at hr
              subst hr
              rcases List.mem_cons.1 hq with rfl | hq
              · simp
              · exact List.mem_cons_of_mem _ (ih r' hxs q hq)
      exact this ms keyed hk p hp'
    · cases h

theorem var_ok {st : St} (hst : StOK st) (i : Nat) : SeqOK st.store.length (st.var i) := by
  unfold St.var
  by_cases hi : i < st.env.length
  · rw [List.getD_eq_getElem?_getD, List.getElem?_eq_getElem hi]
    exact hst.2 _ (List.getElem_mem hi)
  · rw [List.getD_eq_getElem?_getD, List.getElem?_eq_none (by omega)]
    exact SeqOK_nil _

def Good (s' : Store) (v : Seq) : Prop := StoreOK s' ∧ SeqOK s'.length v

theorem good_same {s s' : Store} {x v : Seq} (hs : StoreOK s) (hx : SeqOK s.length x)
    (h : (Except.ok (s, x) : Except Err (Store × Seq)) = .ok (s', v)) : Good s' v := by
  injection h with h; injection h with h1 h2; subst h1; subst h2; exact ⟨hs, hx⟩

theorem good_alloc {s s' : Store} {o : Obj} {v : Seq} (hs : StoreOK s) (ho : ObjOK s.length o)
    (h : (Except.ok (alloc s o) : Except Err (Store × Seq)) = .ok (s', v)) : Good s' v := by
  injection h with h
  have := StoreOK_alloc hs ho
  rw [h] at this; exact this

theorem good_arr {s s' : Store} {ms : List Seq} {v : Seq} (hs : StoreOK s) (ho : MemOK s.length ms)
    (h : (Except.ok (alloc s (Obj.arr ms)) : Except Err (Store × Seq)) = .ok (s', v)) : Good s' v :=
  good_alloc hs (o := Obj.arr ms) ho h

theorem good_lift {s s' : Store} {r : Except Err Obj} {v : Seq} (hs : StoreOK s)
    (hr : ∀ o, r = .ok o → ObjOK s.length o) (h : liftAlloc s r = .ok (s', v)) : Good s' v := by
  cases r with
  | error e => simp [liftAlloc, Except.map] at h
  | ok o =>
    simp only [liftAlloc, Except.map] at h
    exact good_alloc hs (hr o rfl) h

theorem map_ok_inv {α β : Type} {r : Except Err α} {f : α → β} {o : β} (h : r.map f = .ok o) :
    ∃ a, r = .ok a ∧ o = f a := by
  cases r with
  | error e => simp [Except.map] at h
  | ok a => simp only [Except.map] at h; injection h with h; exact ⟨a, rfl, h.symm⟩

theorem Fn1_ok {n : Nat} (f : Fn1) {x : Seq} (hx : SeqOK n x) : SeqOK n (f.app x) := by
  cases f with
  | ident => exact hx
  | const k => exact SeqOK_atom _ _
  | dup => exact SeqOK_append hx hx
  | count => exact SeqOK_atom _ _

theorem Fn2_ok {n : Nat} (f : Fn2) {a b : Seq} (ha : SeqOK n a) (hb : SeqOK n b) : SeqOK n (f.app a b) := by
  cases f with
  | concat => exact SeqOK_append ha hb
  | rconcat => exact SeqOK_append hb ha
  | left => exact ha
  | right => exact hb
  | countR => exact SeqOK_atom _ _

theorem filterLoop_mem {α : Type} (p : α → Option Bool) (l r : List α) (h : filterLoop p l = .ok r) :
    ∀ x ∈ r, x ∈ l := by
  induction l generalizing r with
  | nil => simp only [filterLoop] at h; injection h with h; subst h; simp
  | cons a rest ih =>
    simp only [filterLoop] at h
    cases hp : p a with
    | none => rw [hp] at h; simp at h
    | some b =>
      rw [hp] at h
      simp only at h
      cases hr : filterLoop p rest with
      | error e => rw [hr] at h; simp at h
      | ok r' =>
        rw [hr] at h
        simp only at h
        injection h with h; subst h
        intro x hx
        split at hx
        · rcases List.mem_cons.1 hx with rfl | hx
          · simp
          · exact List.mem_cons_of_mem _ (ih r' hr x hx)
        · exact List.mem_cons_of_mem _ (ih r' hr x hx)

theorem foldLLoop_ok {n : Nat} (f : Seq → Seq → Seq) (hf : ∀ a b, SeqOK n a → SeqOK n b → SeqOK n (f a b))
    (acc : Seq) (ms : List Seq) (hacc : SeqOK n acc) (hms : MemOK n ms) : SeqOK n (foldLLoop f acc ms) := by
  induction ms generalizing acc with
  | nil => exact hacc
  | cons x rest ih =>
    simp only [foldLLoop]
    exact ih _ (hf _ _ hacc (hms x (by simp))) (fun m hm => hms m (List.mem_cons_of_mem _ hm))

theorem pairLoop_ok {n : Nat} (f : Seq → Seq → Seq) (hf : ∀ a b, SeqOK n a → SeqOK n b → SeqOK n (f a b))
    (l1 l2 : List Seq) (h1 : MemOK n l1) (h2 : MemOK n l2) : MemOK n (pairLoop f l1 l2) := by
  induction l1 generalizing l2 with
  | nil => intro m hm; simp [pairLoop] at hm
  | cons a as ih =>
    cases l2 with
    | nil => intro m hm; simp [pairLoop] at hm
    | cons b bs =>
      simp only [pairLoop]
      intro m hm
      rcases List.mem_cons.1 hm with rfl | hm
      · exact hf _ _ (h1 a (by simp)) (h2 b (by simp))
      · exact ih bs (fun x hx => h1 x (List.mem_cons_of_mem _ hx)) (fun x hx => h2 x (List.mem_cons_of_mem _ hx)) m hm

theorem evalOp_good {d : Dialect} (hd : Pres d) (ha : d.alias = false) {st : St} (hst : StOK st)
    (op : Op) (s' : Store) (v : Seq) (h : evalOp d st op = .ok (s', v)) : Good s' v := by
  have hs := hst.1
  have hv := var_ok hst
  cases op <;> simp only [evalOp, writeBack_copy d ha] at h
  case seq parts =>
    refine good_same hs ?_ h
    intro it hit
    obtain ⟨x, _, hx⟩ := List.mem_flatMap.1 hit
    cases x with
    | lit k => simp at hx; subst hx; trivial
    | var i => exact hv i it hx
  case mCtor es =>
    refine good_lift hs (fun o ho => ?_) h
    obtain ⟨es', hes', rfl⟩ := map_ok_inv ho
    refine hd.mapCtor _ _ _ hes' ?_
    intro e he
    obtain ⟨x, _, rfl⟩ := List.mem_map.1 he
    exact hv _
  case mPut m k vv =>
    obtain ⟨es, hes, h⟩ := bind_ok h
    refine good_lift hs (fun o ho => ?_) h
    obtain ⟨es', hes', rfl⟩ := map_ok_inv ho
    exact hd.mapPut _ _ _ _ _ hes' (asMap_EntOK hs hes) (hv _)
  case mRemove m ks =>
    obtain ⟨es, hes, h⟩ := bind_ok h
    refine good_lift hs (fun o ho => ?_) h
    obtain ⟨es', hes', rfl⟩ := map_ok_inv ho
    exact hd.mapRemove _ _ _ _ hes' (asMap_EntOK hs hes)
  case mGet m k =>
    obtain ⟨es, hes, h⟩ := bind_ok h
    exact good_same hs (hd.mapGet _ _ _ (asMap_EntOK hs hes)) h
  case mContains m k =>
    obtain ⟨es, hes, h⟩ := bind_ok h
    exact good_same hs (SeqOK_atom _ _) h
  case mSize m =>
    obtain ⟨es, hes, h⟩ := bind_ok h
    exact good_same hs (SeqOK_atom _ _) h
  case mKeys m =>
    obtain ⟨es, hes, h⟩ := bind_ok h
    refine good_same hs ?_ h
    intro it hit
    obtain ⟨e, _, rfl⟩ := List.mem_map.1 hit
    trivial
  case mEntry k vv =>
    refine good_lift hs (fun o ho => ?_) h
    obtain ⟨es', hes', rfl⟩ := map_ok_inv ho
    refine hd.mapCtor _ _ _ hes' ?_
    intro e he
    simp at he; subst he; exact hv _
  case mMerge ms pol =>
    cases pol with
    | none => simp at h
    | some p =>
      simp only at h
      obtain ⟨maps, hmaps, h⟩ := bind_ok h
      refine good_lift hs (fun o ho => ?_) h
      obtain ⟨es', hes', rfl⟩ := map_ok_inv ho
      refine hd.mapMerge _ _ _ _ hes' ?_
      intro m hm
      obtain ⟨it, _, hit⟩ := mapM_ok_mem hmaps m hm
      exact asMap_EntOK hs hit
  case mFind input k =>
    exact good_arr hs (findItems_ok _ hs _ _ _) h
  case mForEach m =>
    obtain ⟨es, hes, h⟩ := bind_ok h
    injection h with h
    have hes' := asMap_EntOK hs hes
    have := allocMany_ok hs (es.map fun e => Obj.arr [[Item.atom e.1], e.2]) (by
      intro o ho
      obtain ⟨e, he, rfl⟩ := List.mem_map.1 ho
      intro m hm
      simp at hm
      rcases hm with rfl | rfl
      · exact SeqOK_atom _ _
      · exact hes' e he)
    rw [h] at this; exact this
  case lookup vv ks =>
    obtain ⟨parts, hparts, h⟩ := bind_ok h
    refine good_same hs (SeqOK_flatten ?_) h
    intro r hr
    obtain ⟨it, _, hit⟩ := mapM_ok_mem hparts r hr
    exact lookupItem_ok hd hs ks it r hit
  case aSquare ms =>
    refine good_arr hs ?_ h
    intro m hm
    obtain ⟨i, _, rfl⟩ := List.mem_map.1 hm
    exact hv i
  case aCurly vv =>
    refine good_arr hs ?_ h
    intro m hm
    obtain ⟨it, hit, rfl⟩ := List.mem_map.1 hm
    intro x hx
    simp at hx; rw [hx]; exact hv vv it hit
  case aGet a p =>
    obtain ⟨r, hr, h⟩ := bind_ok h
    obtain ⟨x, hx, h⟩ := bind_ok h
    exact good_same hs (hd.arrGet _ _ _ _ hx (asArr_MemOK hs hr)) h
  case aPut a p vv =>
    obtain ⟨r, hr, h⟩ := bind_ok h
    obtain ⟨x, hx, h⟩ := bind_ok h
    exact good_arr hs (hd.arrPut _ _ _ _ _ hx (asArr_MemOK hs hr) (hv _)) h
  case aInsert a p vv =>
    obtain ⟨r, hr, h⟩ := bind_ok h
    obtain ⟨x, hx, h⟩ := bind_ok h
    exact good_arr hs (hd.arrInsertBefore _ _ _ _ _ hx (asArr_MemOK hs hr) (hv _)) h
  case aAppend a vv =>
    obtain ⟨r, hr, h⟩ := bind_ok h
    exact good_arr hs (hd.arrAppend _ _ _ (asArr_MemOK hs hr) (hv _)) h
  case aRemove a ps =>
    obtain ⟨r, hr, h⟩ := bind_ok h
    refine good_lift hs (fun o ho => ?_) h
    obtain ⟨ms', hms', rfl⟩ := map_ok_inv ho
    exact hd.arrRemove _ _ _ _ hms' (asArr_MemOK hs hr)
  case aSub a start len =>
    obtain ⟨r, hr, h⟩ := bind_ok h
    refine good_lift hs (fun o ho => ?_) h
    obtain ⟨ms', hms', rfl⟩ := map_ok_inv ho
    exact hd.arrSubarray _ _ _ _ _ hms' (asArr_MemOK hs hr)
  case aHead a =>
    obtain ⟨r, hr, h⟩ := bind_ok h
    obtain ⟨x, hx, h⟩ := bind_ok h
    exact good_same hs (hd.arrHead _ _ _ hx (asArr_MemOK hs hr)) h
  case aTail a =>
    obtain ⟨r, hr, h⟩ := bind_ok h
    refine good_lift hs (fun o ho => ?_) h
    obtain ⟨ms', hms', rfl⟩ := map_ok_inv ho
    exact hd.arrTail _ _ _ hms' (asArr_MemOK hs hr)
  case aReverse a =>
    obtain ⟨r, hr, h⟩ := bind_ok h
    exact good_arr hs (hd.arrReverse _ _ (asArr_MemOK hs hr)) h
  case aJoin vv =>
    obtain ⟨parts, hparts, h⟩ := bind_ok h
    refine good_arr hs ?_ h
    intro m hm
    obtain ⟨ms, hms, hmm⟩ := List.mem_flatten.1 hm
    obtain ⟨it, _, hit⟩ := mapM_ok_mem hparts ms hms
    obtain ⟨r, hr, rfl⟩ := map_ok_inv hit
    exact asArr_MemOK hs hr m hmm
  case aFlatten vv =>
    exact good_same hs (flattenItems_ok hs _ _ (hv _)) h
  case aSize a =>
    obtain ⟨r, hr, h⟩ := bind_ok h
    exact good_same hs (SeqOK_atom _ _) h
  case aForEach a f =>
    obtain ⟨r, hr, h⟩ := bind_ok h
    refine good_arr hs ?_ h
    intro m hm
    obtain ⟨x, hx, rfl⟩ := List.mem_map.1 hm
    exact Fn1_ok f (asArr_MemOK hs hr x hx)
  case aFilter a p =>
    obtain ⟨r, hr, h⟩ := bind_ok h
    obtain ⟨ms', hms', h⟩ := bind_ok h
    refine good_arr hs ?_ h
    intro m hm
    exact asArr_MemOK hs hr m (filterLoop_mem _ _ _ hms' m hm)
  case aFoldL a z f =>
    obtain ⟨r, hr, h⟩ := bind_ok h
    exact good_same hs (foldLLoop_ok _ (fun a b ha hb => Fn2_ok f ha hb) _ _ (hv _) (asArr_MemOK hs hr)) h
  case aFoldR a z f =>
    obtain ⟨r, hr, h⟩ := bind_ok h
    refine good_same hs ?_ h
    unfold foldRLoop
    exact foldLLoop_ok _ (fun a b ha hb => Fn2_ok f hb ha) _ _ (hv _)
      (fun m hm => asArr_MemOK hs hr m (List.mem_reverse.1 hm))
  case aForEachPair a b f =>
    obtain ⟨r1, hr1, h⟩ := bind_ok h
    obtain ⟨r2, hr2, h⟩ := bind_ok h
    exact good_arr hs (pairLoop_ok _ (fun a b ha hb => Fn2_ok f ha hb) _ _ (asArr_MemOK hs hr1)
      (asArr_MemOK hs hr2)) h
  case mForEachF m f =>
    obtain ⟨es, hes, h⟩ := bind_ok h
    refine good_same hs ?_ h
    intro it hit
    obtain ⟨e, he, hie⟩ := List.mem_flatMap.1 hit
    exact Fn2_ok f (SeqOK_atom _ _) (asMap_EntOK hs hes e he) it hie
  case deq a b =>
    exact good_same hs (SeqOK_atom _ _) h
  case aSort a =>
    obtain ⟨r, hr, h⟩ := bind_ok h
    obtain ⟨ms', hms', h⟩ := bind_ok h
    exact good_arr hs (fun m hm => asArr_MemOK hs hr m (arrSort_mem hms' m hm)) h
  case call f k first =>
    obtain ⟨r, hr, h⟩ := bind_ok h
    exact good_same hs (callFn_ok hd hs _ _ r hr) h
  case call2 t k1 k2 =>
    obtain ⟨r, hr, h⟩ := bind_ok h
    obtain ⟨r2, hr2, h⟩ := bind_ok h
    exact good_same hs (callFn_ok hd hs _ _ r2 hr2) h


/-! the two dialects only move values around -/

theorem EntOK_filter {n : Nat} {es : Entries Seq} (p : Key × Seq → Bool) (h : EntOK n es) : EntOK n (es.filter p) :=
  fun e he => h e (List.mem_filter.1 he).1

theorem EntOK_append {n : Nat} {a b : Entries Seq} (ha : EntOK n a) (hb : EntOK n b) : EntOK n (a ++ b) :=
  fun e he => (List.mem_append.1 he).elim (ha e) (hb e)

theorem EntOK_single {n : Nat} {k : Key} {v : Seq} (hv : SeqOK n v) : EntOK n [(k, v)] :=
  fun e he => by simp at he; subst he; exact hv

theorem specGet_ok {n : Nat} {es : Entries Seq} (h : EntOK n es) (k : Key) : SeqOK n (Spec.get es k) := by
  unfold Spec.get
  cases hf : es.find? (fun e => sameKey e.1 k) with
  | none => exact SeqOK_nil _
  | some e => exact h e (List.mem_of_find?_eq_some hf)

theorem specMergeStep_ok {n : Nat} (pol : Policy) {acc acc' : Entries Seq} {e : Key × Seq}
    (hacc : EntOK n acc) (he : SeqOK n e.2) (h : Spec.mergeStep pol acc e = .ok acc') : EntOK n acc' := by
  unfold Spec.mergeStep at h
  split at h
  · injection h with h; subst h; exact EntOK_append hacc (fun x hx => by simp at hx; subst hx; exact he)
  · cases pol with
    | reject => simp at h
    | useFirst => injection h with h; subst h; exact hacc
    | useAny => injection h with h; subst h; exact hacc
    | useLast =>
      injection h with h; subst h
      exact EntOK_append (EntOK_filter _ hacc) (EntOK_single he)
    | combine =>
      injection h with h; subst h
      intro x hx
      obtain ⟨a, ha, rfl⟩ := List.mem_map.1 hx
      split
      · exact SeqOK_append (hacc a ha) he
      · exact hacc a ha

theorem specMergeLoop_ok {n : Nat} (pol : Policy) (acc : Entries Seq) (l : List (Key × Seq)) (m : Entries Seq)
    (hacc : EntOK n acc) (hl : EntOK n l) (h : Spec.mergeLoop pol acc l = .ok m) : EntOK n m := by
  induction l generalizing acc with
  | nil => simp only [Spec.mergeLoop] at h; injection h with h; subst h; exact hacc
  | cons e rest ih =>
    simp only [Spec.mergeLoop] at h
    cases hs : Spec.mergeStep pol acc e with
    | error x => rw [hs] at h; simp at h
    | ok acc' =>
      rw [hs] at h
      exact ih acc' (specMergeStep_ok pol hacc (hl e (by simp)) hs)
        (fun x hx => hl x (List.mem_cons_of_mem _ hx)) h

theorem EntOK_flatten {n : Nat} {maps : List (Entries Seq)} (h : ∀ m ∈ maps, EntOK n m) : EntOK n maps.flatten := by
  intro e he
  obtain ⟨m, hm, hem⟩ := List.mem_flatten.1 he
  exact h m hm e hem

theorem MemOK_take {n : Nat} {ms : List Seq} (k : Nat) (h : MemOK n ms) : MemOK n (ms.take k) :=
  fun m hm => h m (List.mem_of_mem_take hm)
theorem MemOK_drop {n : Nat} {ms : List Seq} (k : Nat) (h : MemOK n ms) : MemOK n (ms.drop k) :=
  fun m hm => h m (List.mem_of_mem_drop hm)
theorem MemOK_append {n : Nat} {a b : List Seq} (ha : MemOK n a) (hb : MemOK n b) : MemOK n (a ++ b) :=
  fun m hm => (List.mem_append.1 hm).elim (ha m) (hb m)
theorem MemOK_single {n : Nat} {v : Seq} (hv : SeqOK n v) : MemOK n [v] :=
  fun m hm => by simp at hm; subst hm; exact hv

theorem specAget_ok {n : Nat} {ms : List Seq} {p : Int} {x : Seq} (h : Spec.aget ms p = .ok x)
    (hms : MemOK n ms) : SeqOK n x := by
  unfold Spec.aget at h
  split at h
  · split at h
    · rename_i y hy
      injection h with h; subst h
      exact hms _ (List.mem_of_getElem? hy)
    · cases h
  · cases h

theorem Pres_spec : Pres specDialect where
  mapCtor := by
    intro n l es h hl
    simp only [specDialect, Spec.construct] at h
    split at h
    · injection h with h; subst h; exact hl
    · cases h
  mapPut := by
    intro n es k v es' h hes hv
    simp only [specDialect] at h
    injection h with h; subst h
    exact EntOK_append (EntOK_filter _ hes) (EntOK_single hv)
  mapRemove := by
    intro n es ks es' h hes
    simp only [specDialect] at h
    injection h with h; subst h
    exact EntOK_filter _ hes
  mapGet := fun n es k hes => specGet_ok hes k
  mapMerge := by
    intro n maps p es h hm
    exact specMergeLoop_ok p [] maps.flatten es (fun e he => by simp at he) (EntOK_flatten hm) h
  arrGet := fun n ms p x h hms => specAget_ok h hms
  arrPut := by
    intro n ms p v ms' h hms hv
    simp only [specDialect, Spec.aput] at h
    split at h
    · injection h with h; subst h
      exact MemOK_append (MemOK_append (MemOK_take _ hms) (MemOK_single hv)) (MemOK_drop _ hms)
    · cases h
  arrInsertBefore := by
    intro n ms p v ms' h hms hv
    simp only [specDialect, Spec.ainsertBefore] at h
    split at h
    · injection h with h; subst h
      exact MemOK_append (MemOK_append (MemOK_take _ hms) (MemOK_single hv)) (MemOK_drop _ hms)
    · cases h
  arrAppend := fun n ms v hms hv => MemOK_append hms (MemOK_single hv)
  arrRemove := by
    intro n ms ps ms' h hms
    simp only [specDialect, Spec.aremove] at h
    split at h
    · injection h with h; subst h
      intro m hm
      obtain ⟨i, _, hi⟩ := List.mem_filterMap.1 hm
      exact hms _ (List.mem_of_getElem? hi)
    · cases h
  arrSubarray := by
    intro n ms st l ms' h hms
    simp only [specDialect, Spec.asubarray] at h
    split at h
    · split at h
      · cases h
      · injection h with h; subst h; exact MemOK_drop _ hms
    · split at h
      · cases h
      · split at h
        · cases h
        · injection h with h; subst h; exact MemOK_take _ (MemOK_drop _ hms)
  arrHead := fun n ms x h hms => specAget_ok h hms
  arrTail := by
    intro n ms ms' h hms
    simp only [specDialect, Spec.atail] at h
    split at h
    · cases h
    · injection h with h; subst h; exact MemOK_drop _ hms
  arrReverse := fun n ms hms m hm => hms m (List.mem_reverse.1 hm)


theorem dictSet_ok {n : Nat} {es : Entries Seq} (k : Key) {v : Seq} (hes : EntOK n es) (hv : SeqOK n v) :
    EntOK n (dictSet es k v) := by
  induction es with
  | nil => exact EntOK_single hv
  | cons e rest ih =>
    obtain ⟨k', v'⟩ := e
    simp only [dictSet]
    split
    · intro x hx
      rcases List.mem_cons.1 hx with rfl | hx
      · exact hv
      · exact hes x (List.mem_cons_of_mem _ hx)
    · intro x hx
      rcases List.mem_cons.1 hx with rfl | hx
      · exact hes _ (by simp)
      · exact ih (fun y hy => hes y (List.mem_cons_of_mem _ hy)) x hx

theorem dictOfList_ok {n : Nat} (acc l : Entries Seq) (hacc : EntOK n acc) (hl : EntOK n l) :
    EntOK n (l.foldl (fun d e => dictSet d e.1 e.2) acc) := by
  induction l generalizing acc with
  | nil => exact hacc
  | cons e rest ih =>
    exact ih _ (dictSet_ok e.1 hacc (hl e (by simp))) (fun x hx => hl x (List.mem_cons_of_mem _ hx))

theorem mapCtor_EntOK {n : Nat} {l es : Entries Seq} (h : mapCtor l = .ok es) (hl : EntOK n l) : EntOK n es := by
  obtain ⟨rfl, _⟩ := mapCtor_ok h; exact hl

theorem mapGet_ok {n : Nat} {es : Entries Seq} (h : EntOK n es) (k : Key) : SeqOK n (mapGet es k) := by
  unfold mapGet dictGet
  cases hf : es.find? (fun e => dictEq e.1 k) with
  | none => exact SeqOK_nil _
  | some e => exact h e (List.mem_of_find?_eq_some hf)

theorem pyMergeStep_ok {n : Nat} (pol : Policy) {items items' : Entries Seq} {e : Key × Seq}
    (hacc : EntOK n items) (he : SeqOK n e.2) (h : MapArray.mergeStep pol items e = .ok items') :
    EntOK n items' := by
  obtain ⟨k1, v⟩ := e
  unfold MapArray.mergeStep at h
  simp only at h
  split at h
  · split at h
    · injection h with h; subst h; exact dictSet_ok _ hacc he
    · cases pol with
      | reject => simp at h
      | useFirst => injection h with h; subst h; exact hacc
      | useAny => injection h with h; subst h; exact hacc
      | useLast =>
        injection h with h; subst h
        exact dictSet_ok _ (EntOK_filter _ hacc) he
      | combine =>
        injection h with h; subst h
        exact dictSet_ok _ hacc (SeqOK_append (mapGet_ok hacc _) he)
  · split at h
    · injection h with h; subst h; exact dictSet_ok _ hacc he
    · rename_i k2 v2 hf
      have hv2 : SeqOK n v2 := hacc _ (List.mem_of_find?_eq_some hf)
      cases pol with
      | reject => simp at h
      | useFirst => injection h with h; subst h; exact hacc
      | useAny => injection h with h; subst h; exact hacc
      | useLast =>
        injection h with h; subst h
        exact dictSet_ok _ (EntOK_filter _ hacc) he
      | combine =>
        injection h with h; subst h
        exact dictSet_ok _ hacc (SeqOK_append hv2 he)

theorem pyMergeLoop_ok {n : Nat} (pol : Policy) (acc : Entries Seq) (l : List (Key × Seq)) (m : Entries Seq)
    (hacc : EntOK n acc) (hl : EntOK n l) (h : MapArray.mergeLoop pol acc l = .ok m) : EntOK n m := by
  induction l generalizing acc with
  | nil => simp only [MapArray.mergeLoop] at h; injection h with h; subst h; exact hacc
  | cons e rest ih =>
    simp only [MapArray.mergeLoop] at h
    cases hs : MapArray.mergeStep pol acc e with
    | error x => rw [hs] at h; simp at h
    | ok acc' =>
      rw [hs] at h
      exact ih acc' (pyMergeStep_ok pol hacc (hl e (by simp)) hs)
        (fun x hx => hl x (List.mem_cons_of_mem _ hx)) h

theorem Pres_py (alias : Bool) : Pres (pyDialect alias) where
  mapCtor := fun n l es h hl => mapCtor_EntOK h hl
  mapPut := by
    intro n es k v es' h hes hv
    exact mapCtor_EntOK h (EntOK_append (EntOK_filter _ hes) (EntOK_single hv))
  mapRemove := fun n es ks es' h hes => mapCtor_EntOK h (EntOK_filter _ hes)
  mapGet := fun n es k hes => mapGet_ok hes k
  mapMerge := by
    intro n maps p es h hm
    simp only [pyDialect, mapMerge] at h
    cases hl : MapArray.mergeLoop p [] maps.flatten with
    | error x => rw [hl] at h; simp at h
    | ok items =>
      rw [hl] at h
      exact mapCtor_EntOK h (pyMergeLoop_ok p [] _ items (fun e he => by simp at he) (EntOK_flatten hm) hl)
  arrGet := fun n ms p x h hms => Pres_spec.arrGet n ms p x (by simpa [pyDialect, specDialect, arrGet_eq] using h) hms
  arrPut := fun n ms p v ms' h hms hv =>
    Pres_spec.arrPut n ms p v ms' (by simpa [pyDialect, specDialect, arrPut_eq] using h) hms hv
  arrInsertBefore := fun n ms p v ms' h hms hv =>
    Pres_spec.arrInsertBefore n ms p v ms' (by simpa [pyDialect, specDialect, arrInsertBefore_eq] using h) hms hv
  arrAppend := fun n ms v hms hv => Pres_spec.arrAppend n ms v hms hv
  arrRemove := fun n ms ps ms' h hms =>
    Pres_spec.arrRemove n ms ps ms' (by simpa [pyDialect, specDialect, arrRemove_eq] using h) hms
  arrSubarray := fun n ms st l ms' h hms =>
    Pres_spec.arrSubarray n ms st l ms' (by simpa [pyDialect, specDialect, arrSubarray_eq] using h) hms
  arrHead := fun n ms x h hms => Pres_spec.arrHead n ms x (by simpa [pyDialect, specDialect, arrHead_eq] using h) hms
  arrTail := fun n ms ms' h hms => Pres_spec.arrTail n ms ms' (by simpa [pyDialect, specDialect, arrTail_eq] using h) hms
  arrReverse := fun n ms hms => Pres_spec.arrReverse n ms hms

/-- one step keeps the state closed (copying mode) -/
theorem step_StOK {d : Dialect} (hd : Pres d) (ha : d.alias = false) {st : St} (hst : StOK st) (op : Op) :
    StOK (step d st op).1 := by
  unfold step
  cases h : evalOp d st op with
  | error e =>
    refine ⟨hst.1, fun v hv => ?_⟩
    rcases List.mem_append.1 hv with hv | hv
    · exact hst.2 v hv
    · simp at hv; subst hv; exact SeqOK_nil _
  | ok r =>
    obtain ⟨s', v⟩ := r
    obtain ⟨h1, h2⟩ := evalOp_good hd ha hst op s' v h
    have hp := evalOp_prefix d ha st op s' v h
    refine ⟨h1, fun w hw => ?_⟩
    rcases List.mem_append.1 hw with hw | hw
    · exact SeqOK_mono hp.length_le (hst.2 w hw)
    · simp at hw; subst hw; exact h2

theorem run_StOK {d : Dialect} (hd : Pres d) (ha : d.alias = false) {st : St} (hst : StOK st) (ops : List Op) :
    StOK (run d st ops) := by
  induction ops generalizing st with
  | nil => exact hst
  | cons op rest ih => simp only [run, List.foldl_cons]; exact ih (step_StOK hd ha hst op)

theorem StOK_empty : StOK ⟨[], []⟩ := ⟨fun a o h => by simp at h, fun v hv => by simp at hv⟩

theorem Closed_of_StoreOK {s : Store} (h : StoreOK s) : Closed s := by
  intro a o hao r hr
  have ho := StoreOK_weak h a o hao
  cases o with
  | arr ms =>
    simp only [objRefs] at hr
    obtain ⟨m, hm, hrm⟩ := List.mem_flatMap.1 hr
    obtain ⟨it, hit, hir⟩ := List.mem_filterMap.1 hrm
    cases it with
    | atom k => simp at hir
    | ref b => simp at hir; subst hir; exact ho m hm _ hit
  | map es =>
    simp only [objRefs] at hr
    obtain ⟨e, he, hre⟩ := List.mem_flatMap.1 hr
    obtain ⟨it, hit, hir⟩ := List.mem_filterMap.1 hre
    cases it with
    | atom k => simp at hir
    | ref b => simp at hir; subst hir; exact ho e he _ hit

theorem seqRefs_of_SeqOK {n : Nat} {v : Seq} (h : SeqOK n v) : ∀ r ∈ seqRefs v, r < n := by
  intro r hr
  obtain ⟨it, hit, hir⟩ := List.mem_filterMap.1 hr
  cases it with
  | atom k => simp at hir
  | ref b => simp at hir; subst hir; exact h _ hit

end EPV.MapArray

/-
C04 helper (completeness, grammar level): under `Consistent`, a strict EBNF derivation `t` whose nodes
pass the table's guards is exactly what the parser model returns on `t.yield`.
-/
import EPV.Lemmas.PrattCompleteModel
import EPV.Lemmas.PrattDerive
namespace EPV.Pratt
open EPV.Syn

/-- the table-side checks of `led`/`nud` pass at every node: the symbol has the `led`/`nud` kind the node
needs, closers match, empty brackets only where allowed, the guard (`deny`) does not reject the left
operand, the next-token check (`rhs`) accepts the right operand -/
def guardsPass (T : Tbl) : Tree → Bool
  | .nil => true
  | .atom _ _ => true
  | .group g c e =>
      (match T.nud g with | .group c' eo => c == c' && (!e.isNil || eo) | _ => false) && guardsPass T e
  | .pre p x => (match T.nud p with | .prefix _ rhs => rhsOk rhs x.yield | _ => false) && guardsPass T x
  | .bin o l r =>
      (match T.led o with
       | .infix _ deny rhs => !deny.contains l.head && rhsOk rhs r.yield
       | _ => false) && guardsPass T l && guardsPass T r
  | .typed o l _ =>
      (match T.led o with | .typed deny => !deny.contains l.head | _ => false) && guardsPass T l
  | .post o c l e =>
      (match T.led o with
       | .bracket c' eo deny => c == c' && !deny.contains l.head && (!e.isNil || eo)
       | _ => false) && guardsPass T l && guardsPass T e
  | .arrow o l f a =>
      (match T.led o with
       | .arrow _ _ start g => rhsOk start f.yield && a.head == 2 * g + 1
       | _ => false) && guardsPass T l && guardsPass T f && guardsPass T a

/-- `expression(rbp)` absorbs every operator of level ≥ k -/
def Adm (G : Gram) (bp : Nat → Nat) (k rbp : Nat) : Prop := ∀ j, k ≤ j → j < G.top → 2 * rbp < bp j

/-- every operator on the left spine of the tree is absorbed by `expression(rbp)` -/
def SpineAdm (T : Tbl) (rbp : Nat) : Tree → Prop
  | .bin o l _ => rbp < T.lbp o ∧ SpineAdm T rbp l
  | .typed o l _ => rbp < T.lbp o ∧ SpineAdm T rbp l
  | .post o _ l _ => rbp < T.lbp o ∧ SpineAdm T rbp l
  | .arrow o l _ _ => rbp < T.lbp o ∧ SpineAdm T rbp l
  | _ => True

theorem isGroup_eq : ∀ a : Tree, a.isGroup = true → ∃ g c e, a = .group g c e := by
  intro a h
  cases a <;> simp [Tree.isGroup] at h
  exact ⟨_, _, _, rfl⟩

theorem startsOpen_append (a b : List Tok) (h : startsOpen a) : startsOpen (a ++ b) := by
  cases a with
  | nil => simp [startsOpen] at h
  | cons t tl => cases t <;> simp_all [startsOpen]

theorem startsOpen_ne_nil (a : List Tok) (h : startsOpen a) : a ≠ [] := by
  cases a with
  | nil => simp [startsOpen] at h
  | cons t tl => simp

theorem wf_startsOpen (G : Gram) : ∀ t, wf true G t = true → startsOpen t.yield := by
  intro t
  induction t with
  | nil => simp [wf]
  | atom => intro _; simp [Tree.yield, startsOpen]
  | group => intro _; simp [Tree.yield, startsOpen]
  | pre => intro _; simp [Tree.yield, startsOpen]
  | bin o l r ihl _ =>
    intro h
    have hl : wf true G l = true := by
      simp only [wf] at h
      split at h <;> simp_all
    simpa [Tree.yield] using startsOpen_append _ _ (ihl hl)
  | typed o l n ihl =>
    intro h
    have hl : wf true G l = true := by
      simp only [wf] at h
      split at h <;> simp_all
    simpa [Tree.yield] using startsOpen_append _ _ (ihl hl)
  | post o c l e ihl _ =>
    intro h
    have hl : wf true G l = true := by
      simp only [wf] at h
      split at h <;> simp_all
    simpa [Tree.yield] using startsOpen_append _ _ (ihl hl)
  | arrow o l f a ihl _ _ =>
    intro h
    have hl : wf true G l = true := by
      simp only [wf] at h
      split at h <;> simp_all
    simpa [Tree.yield] using startsOpen_append _ _ (ihl hl)

namespace Consistent
variable {T : Tbl} {G : Gram} {bp : Nat → Nat} {K : Nat}

theorem le (hc : Consistent T G bp K) {i j : Nat} (hij : i ≤ j) (hj : j < G.top) : bp i ≤ bp j := by
  by_cases h : i = j
  · subst h; exact Nat.le_refl _
  · exact Nat.le_of_lt (hc.lt j i (by omega) hj)

end Consistent

section
variable {T : Tbl} {G : Gram} {bp : Nat → Nat} {K : Nat}

theorem adm_succ (hc : Consistent T G bp K) {j b : Nat} (hb : 2 * b = bp j) : Adm G bp (j + 1) b := by
  intro j' h1 h2
  have := hc.lt j' j (by omega) h2
  omega

theorem adm_prefix (hc : Consistent T G bp K) {j r : Nat} (hb : 2 * r + 1 = bp j) : Adm G bp j r := by
  intro j' h1 h2
  have := hc.le h1 h2
  omega

theorem adm_zero (hc : Consistent T G bp K) (hpos : 0 < bp 0) : Adm G bp 0 0 := by
  intro j' _ h2
  have := hc.le (Nat.zero_le j') h2
  omega

theorem adm_top (b : Nat) : Adm G bp G.top b := by
  intro j' h1 h2; omega

/-- the operators on the left spine of a derivation from level `k` are absorbed by any `rbp` admissible for `k` -/
theorem spine_adm (hc : Consistent T G bp K) : ∀ t, wf true G t = true → guardsPass T t = true →
    ∀ k rbp, k ≤ lvl G t → Adm G bp k rbp → SpineAdm T rbp t := by
  intro t
  induction t with
  | nil => intros; trivial
  | atom => intros; trivial
  | group => intros; trivial
  | pre => intros; trivial
  | bin o l r ihl _ =>
    intro hwf hgp k rbp hk hadm
    cases hl : T.led o <;> simp [guardsPass, hl] at hgp
    obtain ⟨j, kind, hg, hj, -, hkind⟩ := hc.infix_info hl
    have hlv : lvl G (.bin o l r) = j := by simp [lvl, hg]
    rw [hlv] at hk
    have hj2 := hadm j hk hj
    rcases hkind with ⟨rfl, -, hb, -⟩ | ⟨rfl, -, hb, -⟩ | ⟨rfl, -, -, hb, -⟩
    · simp [wf, hg] at hwf
      exact ⟨by omega, ihl hwf.1.2 hgp.1.2 k rbp (by omega) hadm⟩
    · simp [wf, hg] at hwf
      exact ⟨by omega, ihl hwf.1.2 hgp.1.2 k rbp (by omega) hadm⟩
    · simp [wf, hg] at hwf
      exact ⟨by omega, ihl hwf.1.2 hgp.1.2 k rbp (by omega) hadm⟩
  | typed o l n ihl =>
    intro hwf hgp k rbp hk hadm
    cases hl : T.led o <;> simp [guardsPass, hl] at hgp
    obtain ⟨j, hg, hj, hb, -⟩ := hc.typed_info hl
    have hlv : lvl G (.typed o l n) = j := by simp [lvl, hg]
    rw [hlv] at hk
    have hj2 := hadm j hk hj
    simp [wf, hg] at hwf
    exact ⟨by omega, ihl hwf.2 hgp.2 k rbp (by omega) hadm⟩
  | post o c l e ihl _ =>
    intro hwf hgp k rbp hk hadm
    cases hl : T.led o <;> simp [guardsPass, hl] at hgp
    obtain ⟨j, hg, hj, hb, -⟩ := hc.bracket_info hl
    have hlv : lvl G (.post o c l e) = j := by simp [lvl, hg]
    rw [hlv] at hk
    have hj2 := hadm j hk (by omega)
    simp [wf, hg] at hwf
    exact ⟨by omega, ihl hwf.1.2 hgp.1.2 k rbp (by omega) hadm⟩
  | arrow o l f a ihl _ _ =>
    intro hwf hgp k rbp hk hadm
    cases hl : T.led o <;> simp [guardsPass, hl] at hgp
    obtain ⟨j, hg, hj, hb, -⟩ := hc.arrow_info hl
    have hlv : lvl G (.arrow o l f a) = j := by simp [lvl, hg]
    rw [hlv] at hk
    have hj2 := hadm j hk (by omega)
    simp [wf, hg] at hwf
    exact ⟨by omega, ihl hwf.1.1.2 hgp.1.1.2 k rbp (by omega) hadm⟩

/-- the left operand of an operator with `2 * lbp = bp j`, derived from level ≥ j, closes with an rbp ≥ lbp -/
theorem left_close (hc : Consistent T G bp K) {j b : Nat} (_hj : j < G.top) (hb : 2 * b = bp j) (hbK : b ≤ K) :
    ∀ l, guardsPass T l = true → j ≤ lvl G l → leO b (rclose T l) := by
  intro l hgp hlv
  cases l with
  | nil => simp [rclose, leO]
  | atom => simp [rclose, leO]
  | group => simp [rclose, leO]
  | typed => simp [rclose, leO]
  | post => simp [rclose, leO]
  | pre p x =>
    cases hn : T.nud p <;> simp [guardsPass, hn] at hgp
    simp only [rclose, nudRbp, hn, leO]
    rcases hc.prefix_info hn with ⟨j', hu, hg, hj', hr, -⟩ | ⟨hu, rfl, -⟩
    · simp only [lvl, hu, hg, Option.getD_some, Bool.false_eq_true, if_false] at hlv
      have := hc.le hlv hj'
      omega
    · exact hbK
  | bin o l r =>
    cases hl : T.led o <;> simp [guardsPass, hl] at hgp
    obtain ⟨j', kind, hg, hj', -, hkind⟩ := hc.infix_info hl
    simp only [lvl, hg, Option.map_some, Option.getD_some] at hlv
    have := hc.le hlv hj'
    simp only [rclose, ledRbp, hl, leO]
    rcases hkind with ⟨-, -, hb', rfl⟩ | ⟨-, -, hb', rfl⟩ | ⟨-, -, -, -, rfl, -⟩
    · omega
    · omega
    · exact hbK
  | arrow o l f a =>
    cases hl : T.led o <;> simp [guardsPass, hl] at hgp
    obtain ⟨j', hg, hj', hb', rfl, -⟩ := hc.arrow_info hl
    simp only [lvl, hg, Option.map_some, Option.getD_some] at hlv
    have hj'' : j' < G.top := by omega
    have := hc.le hlv hj''
    simp only [rclose, ledRbp, hl, leO]
    omega

/-- the left operand of a postfix-level operator (bracket, lookup) closes with an rbp ≥ its lbp -/
theorem left_close_postfix (hc : Consistent T G bp K) {j b : Nat} (hj : j + 1 = G.top)
    (hpk : G.lkind j = some .postfix) (hbK : b ≤ K) :
    ∀ l, guardsPass T l = true → j ≤ lvl G l → leO b (rclose T l) := by
  intro l hgp hlv
  cases l with
  | nil => simp [rclose, leO]
  | atom => simp [rclose, leO]
  | group => simp [rclose, leO]
  | typed => simp [rclose, leO]
  | post => simp [rclose, leO]
  | pre p x =>
    cases hn : T.nud p <;> simp [guardsPass, hn] at hgp
    rcases hc.prefix_info hn with ⟨j', hu, hg, hj', hr, hk', -⟩ | ⟨hu, rfl, -⟩
    · simp only [lvl, hu, hg, Option.getD_some, Bool.false_eq_true, if_false] at hlv
      have : j' = j := by omega
      subst this
      rw [hpk] at hk'; simp at hk'
    · simpa [rclose, nudRbp, hn, leO] using hbK
  | bin o l r =>
    cases hl : T.led o <;> simp [guardsPass, hl] at hgp
    obtain ⟨j', kind, hg, hj', -, hkind⟩ := hc.infix_info hl
    simp only [lvl, hg, Option.map_some, Option.getD_some] at hlv
    have hjj : j' = j := by omega
    subst hjj
    simp only [rclose, ledRbp, hl, leO]
    rcases hkind with ⟨-, hk', -⟩ | ⟨-, hk', -⟩ | ⟨-, -, -, -, rfl, -⟩
    · rw [hpk] at hk'; simp at hk'
    · rw [hpk] at hk'; simp at hk'
    · exact hbK
  | arrow o l f a =>
    cases hl : T.led o <;> simp [guardsPass, hl] at hgp
    obtain ⟨j', hg, hj', -⟩ := hc.arrow_info hl
    simp only [lvl, hg, Option.map_some, Option.getD_some] at hlv
    omega

/-- `expression(rbp)` with `rbp` admissible for the level of `t` stops where `t`'s own closing rbp stops -/
theorem close_of_adm (hc : Consistent T G bp K) : ∀ t, guardsPass T t = true → ∀ k rbp, k ≤ lvl G t →
    Adm G bp k rbp → rbp ≤ K → ∀ after, headLe T (some rbp) after → headLe T (rclose T t) after := by
  intro t hgp k rbp hk hadm hrK after h
  cases after with
  | nil => simp [headLe]
  | cons tk tl =>
    cases tk with
    | atom => simp [headLe]
    | ty => simp [headLe]
    | close => simp [headLe]
    | op o' =>
      simp only [headLe, leO] at h ⊢
      cases t with
      | nil => simp [rclose]
      | atom => simp [rclose]
      | group => simp [rclose]
      | typed => simp [rclose]
      | post => simp [rclose]
      | pre p x =>
        cases hn : T.nud p <;> simp [guardsPass, hn] at hgp
        simp only [rclose, nudRbp, hn]
        rcases hc.prefix_info hn with ⟨j', hu, hg, hj', hr, -⟩ | ⟨hu, rfl, -⟩
        · simp only [lvl, hu, hg, Option.getD_some, Bool.false_eq_true, if_false] at hk
          have := hadm j' hk hj'
          omega
        · omega
      | bin o l r =>
        cases hl : T.led o <;> simp [guardsPass, hl] at hgp
        obtain ⟨j', kind, hg, hj', hK, hkind⟩ := hc.infix_info hl
        simp only [lvl, hg, Option.map_some, Option.getD_some] at hk
        have := hadm j' hk hj'
        simp only [rclose, ledRbp, hl]
        rcases hkind with ⟨-, -, hb', rfl⟩ | ⟨-, -, hb', rfl⟩ | ⟨-, -, -, hb', rfl, -⟩
        · omega
        · omega
        · omega
      | arrow o l f a =>
        cases hl : T.led o <;> simp [guardsPass, hl] at hgp
        obtain ⟨j', hg, hj', hb', rfl, -⟩ := hc.arrow_info hl
        simp only [lvl, hg, Option.map_some, Option.getD_some] at hk
        have := hadm j' hk (by omega)
        simp only [rclose, ledRbp, hl]
        omega

/-- the induction hypothesis of the completeness proof: every derivation needing at most `n` activations parses -/
def CompleteUpTo (T : Tbl) (G : Gram) (bp : Nat → Nat) (K n : Nat) : Prop :=
  ∀ t, need t ≤ n → wf true G t = true → guardsPass T t = true → ∀ k rbp, k ≤ lvl G t → Adm G bp k rbp → rbp ≤ K →
    ∀ after, headLe T (some rbp) after → ParsesAt T rbp t after

theorem body_ok (hc : Consistent T G bp K) (hpos : 0 < bp 0) {n : Nat} (IH : CompleteUpTo T G bp K n)
    (e : Tree) (hn : need e ≤ n) (eo : Bool) (c : Nat) (after : List Tok)
    (hwf : (e.isNil && eo) = true ∨ wf true G e = true) (hgp : guardsPass T e = true) (hem : (!e.isNil || eo) = true) :
    BodyOK T eo e c after := by
  by_cases hnil : e = .nil
  · subst hnil
    left
    simp [Tree.isNil] at hem
    exact ⟨rfl, hem⟩
  · right
    have hw : wf true G e = true := by
      rcases hwf with h | h
      · cases e <;> simp [Tree.isNil] at h hnil
      · exact h
    refine ⟨wf_startsOpen G e hw, ?_⟩
    exact IH e hn hw hgp 0 0 (Nat.zero_le _) (adm_zero hc hpos) (Nat.zero_le _) (.close c :: after) (by simp [headLe])

/-- one level of the completeness induction: the left spine of `s`, continued by the frames `tl` -/
theorem spine_complete (hc : Consistent T G bp K) (hpos : 0 < bp 0) (n : Nat) (IH : CompleteUpTo T G bp K n) :
    ∀ s, need s ≤ n + 1 → wf true G s = true → guardsPass T s = true → ∀ rbp, SpineAdm T rbp s →
      ∀ tl after, FramesOK T rbp s tl after → headLe T (rclose T s) (ctxToks tl ++ after) →
      ∀ f, 2 * (need s + needs tl) ≤ f →
        expr T f rbp (s.yield ++ (ctxToks tl ++ after)) = .ok (plug s tl, after) := by
  intro s
  induction s with
  | nil => intro _ h; simp [wf] at h
  | atom k m =>
    intro _ _ _ rbp _ tl after hfr _ f hf
    exact expr_complete T rbp (.atom k m) tl after (by simp [HeadOK]) hfr f hf
  | pre p x _ =>
    intro hn hwf hgp rbp _ tl after hfr hcl f hf
    cases hnud : T.nud p <;> simp [guardsPass, hnud] at hgp
    rename_i r rhs
    obtain ⟨hrhs, hgx⟩ := hgp
    have hx : need x ≤ n := by simp [need] at hn; omega
    have hclx : headLe T (some r) (ctxToks tl ++ after) := by simpa [rclose, nudRbp, hnud] using hcl
    refine expr_complete T rbp (.pre p x) tl after ?_ hfr f hf
    rcases hc.prefix_info hnud with ⟨j, hu, hg, hj, hb, -, hrK⟩ | ⟨hu, rfl, -, -⟩
    · simp [wf, hu, hg] at hwf
      have hxne := startsOpen_ne_nil _ (wf_startsOpen G x hwf.2)
      refine ⟨r, rhs, hnud, by rw [rhsOk_append _ _ _ hxne]; exact hrhs, ?_⟩
      exact IH x hx hwf.2 hgx j r hwf.1 (adm_prefix hc hb) hrK _ hclx
    · simp [wf, hu] at hwf
      have hxne := startsOpen_ne_nil _ (wf_startsOpen G x hwf.2)
      refine ⟨r, rhs, hnud, by rw [rhsOk_append _ _ _ hxne]; exact hrhs, ?_⟩
      have hxl : G.top ≤ lvl G x := by
        have := hwf.1
        cases x <;> simp [Tree.isKeySpec] at this <;> simp [lvl]
      exact IH x hx hwf.2 hgx G.top r hxl (adm_top _) (Nat.le_refl _) _ hclx
  | group g c e _ =>
    intro hn hwf hgp rbp _ tl after hfr _ f hf
    cases hnud : T.nud g <;> simp [guardsPass, hnud] at hgp
    rename_i c' eo
    have hg := hc.group_info hnud
    simp [wf, hg] at hwf
    obtain ⟨⟨rfl, hem⟩, hgpe⟩ := hgp
    refine expr_complete T rbp (.group g c e) tl after ?_ hfr f hf
    refine ⟨eo, hnud, ?_⟩
    have he : need e ≤ n := by simp [need] at hn; omega
    exact body_ok hc hpos IH e he eo c _ (by simpa using hwf) hgpe (by simpa using hem)
  | bin o l x ihl _ =>
    intro hn hwf hgp rbp hsp tl after hfr hcl f hf
    cases hled : T.led o <;> simp [guardsPass, hled] at hgp
    rename_i r deny rhs
    obtain ⟨⟨⟨hdeny, hrhs⟩, hgl⟩, hgx⟩ := hgp
    obtain ⟨j, kind, hg, hj, hK, hkind⟩ := hc.infix_info hled
    have hnl : need l ≤ n + 1 := by simp [need] at hn; omega
    have hnx : need x ≤ n := by simp [need] at hn; omega
    obtain ⟨hlt, hspl⟩ := hsp
    have hclx : headLe T (some r) (ctxToks tl ++ after) := by simpa [rclose, ledRbp, hled] using hcl
    -- facts that depend on the kind of the operator
    have key : wf true G l = true ∧ wf true G x = true ∧ leO (T.lbp o) (rclose T l) ∧
        ParsesAt T r x (ctxToks tl ++ after) := by
      rcases hkind with ⟨rfl, hlk, hb, rfl⟩ | ⟨rfl, hlk, hb, rfl⟩ | ⟨rfl, hj1, hlk, hb, rfl, -, -⟩
      · simp [wf, hg] at hwf
        refine ⟨hwf.1.2, hwf.2, left_close hc hj hb hK l hgl hwf.1.1.1, ?_⟩
        exact IH x hnx hwf.2 hgx (j + 1) _ hwf.1.1.2 (adm_succ hc hb) hK _ hclx
      · simp [wf, hg] at hwf
        refine ⟨hwf.1.2, hwf.2, left_close hc hj hb hK l hgl (by omega), ?_⟩
        exact IH x hnx hwf.2 hgx (j + 1) _ hwf.1.1.2 (adm_succ hc hb) hK _ hclx
      · simp [wf, hg] at hwf
        refine ⟨hwf.1.2, hwf.2, left_close_postfix hc hj1 hlk hK l hgl hwf.1.1.1, ?_⟩
        have hxl : G.top ≤ lvl G x := by
          have := hwf.1.1.2
          cases x <;> simp [Tree.isKeySpec] at this <;> simp [lvl]
        exact IH x hnx hwf.2 hgx G.top _ hxl (adm_top _) (Nat.le_refl _) _ hclx
    obtain ⟨hwl, hwx, hlc, hpx⟩ := key
    have hxne := startsOpen_ne_nil _ (wf_startsOpen G x hwx)
    have hstep : StepOK T rbp l (.bin o x) (ctxToks tl ++ after) :=
      ⟨r, deny, rhs, hled, hlt, by simpa using hdeny, by rw [rhsOk_append _ _ _ hxne]; exact hrhs, hpx⟩
    have := ihl hnl hwl hgl rbp hspl (.bin o x :: tl) after ⟨hstep, hfr⟩
      (by simpa [ctxToks, Frame.toks, headLe] using hlc) f
      (by simp only [needs, Frame.need]; simp only [need] at hf; omega)
    simpa [Tree.yield, ctxToks, Frame.toks, plug, Frame.apply] using this
  | typed o l m ihl =>
    intro hn hwf hgp rbp hsp tl after hfr _ f hf
    cases hled : T.led o <;> simp [guardsPass, hled] at hgp
    rename_i deny
    obtain ⟨hdeny, hgl⟩ := hgp
    obtain ⟨j, hg, hj, hb, -, hK⟩ := hc.typed_info hled
    simp [wf, hg] at hwf
    have hnl : need l ≤ n + 1 := by simp [need] at hn; omega
    obtain ⟨hlt, hspl⟩ := hsp
    have hlc := left_close hc hj hb hK l hgl (by omega)
    have hstep : StepOK T rbp l (.typed o m) (ctxToks tl ++ after) := ⟨deny, hled, hlt, by simpa using hdeny⟩
    have := ihl hnl hwf.2 hgl rbp hspl (.typed o m :: tl) after ⟨hstep, hfr⟩
      (by simpa [ctxToks, Frame.toks, headLe] using hlc) f
      (by simp only [needs, Frame.need]; simp only [need] at hf; omega)
    simpa [Tree.yield, ctxToks, Frame.toks, plug, Frame.apply] using this
  | post o c l e ihl _ =>
    intro hn hwf hgp rbp hsp tl after hfr _ f hf
    cases hled : T.led o <;> simp [guardsPass, hled] at hgp
    rename_i c' eo deny
    obtain ⟨⟨⟨⟨rfl, hdeny⟩, hem⟩, hgl⟩, hge⟩ := hgp
    obtain ⟨j, hg, hj, hb, hlk, hK⟩ := hc.bracket_info hled
    simp [wf, hg] at hwf
    have hnl : need l ≤ n + 1 := by simp [need] at hn; omega
    have hne : need e ≤ n := by simp [need] at hn; omega
    obtain ⟨hlt, hspl⟩ := hsp
    have hlc := left_close_postfix hc hj hlk hK l hgl hwf.1.1
    have hbody := body_ok hc hpos IH e hne eo c (ctxToks tl ++ after) (by simpa using hwf.2) hge (by simpa using hem)
    have hstep : StepOK T rbp l (.post o c e) (ctxToks tl ++ after) := ⟨eo, deny, hled, hlt, by simpa using hdeny, hbody⟩
    have := ihl hnl hwf.1.2 hgl rbp hspl (.post o c e :: tl) after ⟨hstep, hfr⟩
      (by simpa [ctxToks, Frame.toks, headLe] using hlc) f
      (by simp only [needs, Frame.need]; simp only [need] at hf; omega)
    simpa [Tree.yield, ctxToks, Frame.toks, plug, Frame.apply] using this
  | arrow o l s a ihl _ _ =>
    intro hn hwf hgp rbp hsp tl after hfr hcl f hf
    cases hled : T.led o <;> simp [guardsPass, hled] at hgp
    rename_i sr ar start g
    obtain ⟨⟨⟨⟨hstart, hhead⟩, hgl⟩, hgs⟩, hga⟩ := hgp
    obtain ⟨j, hg, hj, hb, rfl, hlk, hK, hsr, hsrK, -, hgsr⟩ := hc.arrow_info hled
    simp [wf, hg] at hwf
    obtain ⟨⟨⟨⟨⟨hll, hspec⟩, hagrp⟩, hwl⟩, hws⟩, hwa⟩ := hwf
    have hnl : need l ≤ n + 1 := by simp [need] at hn; omega
    have hns : need s ≤ n := by simp [need] at hn; omega
    have hna : need a ≤ n := by simp [need] at hn; omega
    obtain ⟨hlt, hspl⟩ := hsp
    have hcla : headLe T (some (T.lbp o)) (ctxToks tl ++ after) := by simpa [rclose, ledRbp, hled] using hcl
    have hsl : G.top ≤ lvl G s := by
      cases s <;> simp [Tree.isArrowSpec] at hspec <;> simp [lvl]
    have hal : G.top ≤ lvl G a := by
      cases a <;> simp [Tree.isGroup] at hagrp <;> simp [lvl]
    have hhl : headLe T (some sr) (a.yield ++ (ctxToks tl ++ after)) := by
      obtain ⟨g', c', e', rfl⟩ := isGroup_eq a hagrp
      simp only [Tree.head] at hhead
      have : g' = g := by omega
      subst this
      simpa [Tree.yield, headLe, leO] using hgsr
    have hps : ParsesAt T sr s (a.yield ++ (ctxToks tl ++ after)) :=
      IH s hns hws hgs G.top sr hsl (adm_top _) hsrK _ hhl
    have hpa : ParsesAt T (T.lbp o) a (ctxToks tl ++ after) :=
      IH a hna hwa hga G.top _ hal (adm_top _) hK _ hcla
    have hlc := left_close hc (j := j) (by omega) hb hK l hgl hll
    have hsne := startsOpen_ne_nil _ (wf_startsOpen G s hws)
    have hstep : StepOK T rbp l (.arrow o s a) (ctxToks tl ++ after) :=
      ⟨sr, _, start, g, hled, hlt, by rw [rhsOk_append _ _ _ hsne]; exact hstart, hps, hpa, hhead⟩
    have := ihl hnl hwl hgl rbp hspl (.arrow o s a :: tl) after ⟨hstep, hfr⟩
      (by simpa [ctxToks, Frame.toks, headLe] using hlc) f
      (by simp only [needs, Frame.need]; simp only [need] at hf; omega)
    simpa [Tree.yield, ctxToks, Frame.toks, plug, Frame.apply] using this

/-- **completeness**: every strict derivation whose nodes pass the table's guards is parsed back from its yield -/
theorem complete_all (hc : Consistent T G bp K) (hpos : 0 < bp 0) : ∀ n, CompleteUpTo T G bp K n := by
  intro n
  induction n with
  | zero =>
    intro t hn hwf
    cases t <;> simp [need] at hn
    simp [wf] at hwf
  | succ n IH =>
    intro t hn hwf hgp k rbp hk hadm hrK after hafter f hf
    have hsp := spine_adm hc t hwf hgp k rbp hk hadm
    have hcl := close_of_adm hc t hgp k rbp hk hadm hrK after hafter
    have := spine_complete hc hpos n IH t hn hwf hgp rbp hsp [] after (by simpa [FramesOK] using hafter)
      (by simpa [ctxToks] using hcl) f (by simpa [needs] using hf)
    simpa [ctxToks, plug] using this

end

end EPV.Pratt

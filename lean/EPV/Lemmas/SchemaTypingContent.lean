/-
Lemmas for C20, part 6: content models WITH occurrence constraints and sequence/choice structure.
`apply_schema` looks only at the flat particle list `model_group.iter_elements()`.  This file states
what the full content model is (XSD 1.1 Part 1 §3.8.4 / §3.9.4: particles with minOccurs/maxOccurs,
sequence and choice groups) and proves that the flat view loses nothing the walk needs: every child
name of a content-valid element is accepted by some particle of the flat list.
-/
import EPV.Lemmas.SchemaTyping
namespace EPV.Xsd.Spec
open EPV.Xsd

/-- a model group term: a leaf particle or a sequence / choice of terms, each with
minOccurs / maxOccurs (`none` = unbounded) -/
inductive Group where
  | leaf (p : Particle) (min : Nat) (max : Option Nat)
  | seq (gs : List Group) (min : Nat) (max : Option Nat)
  | choice (gs : List Group) (min : Nat) (max : Option Nat)

def occursOk (min : Nat) (max : Option Nat) (k : Nat) : Prop := min ≤ k ∧ ∀ m, max = some m → k ≤ m

mutual
/-- `Accepts g names`: the sequence of child element names is valid against the term (§3.9.4.2
Element Sequence Locally Valid (Particle) with §3.8.4 for groups) -/
inductive Accepts : Group → List String → Prop
  | leaf (p : Particle) (min : Nat) (max : Option Nat) (names : List String) :
      occursOk min max names.length → (∀ n ∈ names, p.matches n = true) →
      Accepts (.leaf p min max) names
  | seq (gs : List Group) (min : Nat) (max : Option Nat) (parts : List (List String)) :
      occursOk min max parts.length → (∀ part ∈ parts, AcceptsSeq gs part) →
      Accepts (.seq gs min max) parts.flatten
  | choice (gs : List Group) (min : Nat) (max : Option Nat) (parts : List (List String)) :
      occursOk min max parts.length → (∀ part ∈ parts, AcceptsChoice gs part) →
      Accepts (.choice gs min max) parts.flatten
/-- one pass through a sequence: the terms in order -/
inductive AcceptsSeq : List Group → List String → Prop
  | nil : AcceptsSeq [] []
  | cons (g : Group) (gs : List Group) (a b : List String) :
      Accepts g a → AcceptsSeq gs b → AcceptsSeq (g :: gs) (a ++ b)
/-- one pass through a choice: exactly one of the terms -/
inductive AcceptsChoice : List Group → List String → Prop
  | here (g : Group) (gs : List Group) (a : List String) : Accepts g a → AcceptsChoice (g :: gs) a
  | there (g : Group) (gs : List Group) (a : List String) : AcceptsChoice gs a → AcceptsChoice (g :: gs) a
end

mutual
/-- `XsdGroup.iter_elements()`: the element / wildcard particles in document order of the schema -/
def flat : Group → List Particle
  | .leaf p _ _ => [p]
  | .seq gs _ _ => flatL gs
  | .choice gs _ _ => flatL gs
def flatL : List Group → List Particle
  | [] => []
  | g :: gs => flat g ++ flatL gs
end

/-- **the flat particle list accepts every child name of a content-valid element** — whatever the
occurrence constraints and the nesting of sequences and choices -/
theorem accepts_flat (g : Group) (names : List String) (h : Accepts g names) :
    ∀ n ∈ names, ∃ p ∈ flat g, p.matches n = true := by
  refine Accepts.rec
    (motive_1 := fun g names _ => ∀ n ∈ names, ∃ p ∈ flat g, p.matches n = true)
    (motive_2 := fun gs names _ => ∀ n ∈ names, ∃ p ∈ flatL gs, p.matches n = true)
    (motive_3 := fun gs names _ => ∀ n ∈ names, ∃ p ∈ flatL gs, p.matches n = true)
    ?_ ?_ ?_ ?_ ?_ ?_ ?_ h
  · intro p min max names _ hall n hn
    exact ⟨p, by simp [flat], hall n hn⟩
  · intro gs min max parts _ _ ih n hn
    simp only [List.mem_flatten] at hn
    obtain ⟨part, hp, hnp⟩ := hn
    simpa [flat] using ih part hp n hnp
  · intro gs min max parts _ _ ih n hn
    simp only [List.mem_flatten] at hn
    obtain ⟨part, hp, hnp⟩ := hn
    simpa [flat] using ih part hp n hnp
  · intro n hn; cases hn
  · intro g gs a b _ _ iha ihb n hn
    simp only [List.mem_append] at hn
    rcases hn with hn | hn
    · obtain ⟨p, hp, hm⟩ := iha n hn
      exact ⟨p, by simp [flatL, hp], hm⟩
    · obtain ⟨p, hp, hm⟩ := ihb n hn
      exact ⟨p, by simp [flatL, hp], hm⟩
  · intro g gs a _ iha n hn
    obtain ⟨p, hp, hm⟩ := iha n hn
    exact ⟨p, by simp [flatL, hp], hm⟩
  · intro g gs a _ ih n hn
    obtain ⟨p, hp, hm⟩ := ih n hn
    exact ⟨p, by simp [flatL, hp], hm⟩

/-- hence the particle loop of `apply_schema` never comes back empty-handed on a content-valid child -/
theorem valid_child_found (s : Schema) (g : Group) (names : List String) (h : Accepts g names)
    (n : String) (hn : n ∈ names) : findParticle s n (flat g) ≠ none := by
  obtain ⟨p, hp, hm⟩ := accepts_flat g names h n hn
  intro hnone
  simp only [findParticle, Option.map_eq_none_iff] at hnone
  rw [scan_none_eq] at hnone
  cases hfd : (flat g).find? (·.declares n) with
  | some q => rw [hfd] at hnone; cases hnone
  | none =>
    rw [hfd] at hnone
    cases hfe : (flat g).find? (elemMatch n) with
    | some q => rw [hfe] at hnone; cases hnone
    | none =>
      rw [hfe] at hnone
      simp only at hnone
      have h1 := List.find?_eq_none.mp hfe p hp
      have h2 := List.find?_eq_none.mp hnone p hp
      simp only [elemMatch, wildMatch, hm, Bool.and_true, Bool.not_eq_true', Bool.not_eq_false] at h1 h2
      cases hw : p.isWild <;> simp [hw] at h1 h2

end EPV.Xsd.Spec

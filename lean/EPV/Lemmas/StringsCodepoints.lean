/- C09 helper lemmas, part 4: code points <-> strings, code-point comparison. -/
import EPV.Model.Strings
namespace EPV.Strings
open EPV.FOStrings (Str Num Err CpLt)

theorem isXmlCodepoint_iff (v : Int) : isXmlCodepoint v = true ↔ FOStrings.IsXmlChar v := by
  unfold isXmlCodepoint FOStrings.IsXmlChar
  simp only [Bool.or_eq_true, Bool.and_eq_true, decide_eq_true_eq, beq_iff_eq]
  omega

theorem codepointsToString_eq_spec (l : List Int) :
    codepointsToString l = FOStrings.codepointsToString l := by
  induction l with
  | nil => rfl
  | cons v vs ih =>
    simp only [FOStrings.codepointsToString, List.mapM_cons] at ih ⊢
    rw [← ih]
    simp only [codepointsToString]
    by_cases h : FOStrings.IsXmlChar v
    · simp only [(isXmlCodepoint_iff v).mpr h, h, if_true]
      cases codepointsToString vs <;> rfl
    · have : isXmlCodepoint v = false := by
        cases hh : isXmlCodepoint v
        · rfl
        · exact absurd ((isXmlCodepoint_iff v).mp hh) h
      simp only [this, h, if_false, Bool.false_eq_true]
      rfl

theorem stringToCodepoints_eq_spec (s : Str) :
    stringToCodepoints s = FOStrings.stringToCodepoints s := by
  unfold stringToCodepoints FOStrings.stringToCodepoints
  cases s <;> simp

theorem codepoints_roundtrip (s : Str) (h : ∀ c ∈ s, FOStrings.IsXmlChar (c : Int)) :
    codepointsToString (stringToCodepoints s) = .ok s := by
  rw [stringToCodepoints_eq_spec]
  unfold FOStrings.stringToCodepoints
  induction s with
  | nil => rfl
  | cons c cs ih =>
    have hc := h c (by simp)
    have ih' := ih (fun x hx => h x (by simp [hx]))
    simp only [List.map_cons, codepointsToString, (isXmlCodepoint_iff _).mpr hc, if_true, ih']
    simp

theorem codepoints_roundtrip_error (s : Str) (h : ∃ c ∈ s, ¬ FOStrings.IsXmlChar (c : Int)) :
    codepointsToString (stringToCodepoints s) = .error .FOCH0001 := by
  rw [stringToCodepoints_eq_spec]
  unfold FOStrings.stringToCodepoints
  induction s with
  | nil => simp at h
  | cons c cs ih =>
    simp only [List.map_cons, codepointsToString]
    by_cases hc : FOStrings.IsXmlChar (c : Int)
    · simp only [(isXmlCodepoint_iff _).mpr hc, if_true]
      obtain ⟨x, hx, hnx⟩ := h
      have : ∃ c ∈ cs, ¬ FOStrings.IsXmlChar (c : Int) := by
        simp only [List.mem_cons] at hx
        rcases hx with rfl | hx
        · exact absurd hc hnx
        · exact ⟨x, hx, hnx⟩
      rw [ih this]
    · have : isXmlCodepoint (c : Int) = false := by
        cases hh : isXmlCodepoint (c : Int)
        · rfl
        · exact absurd ((isXmlCodepoint_iff _).mp hh) hc
      simp [this]

theorem codepointsToString_ok (l : List Int) (s : Str) (h : codepointsToString l = .ok s) :
    stringToCodepoints s = l ∧ ∀ v ∈ l, FOStrings.IsXmlChar v := by
  rw [stringToCodepoints_eq_spec]
  unfold FOStrings.stringToCodepoints
  induction l generalizing s with
  | nil => simp [codepointsToString] at h; subst h; simp
  | cons v vs ih =>
    simp only [codepointsToString] at h
    by_cases hv : isXmlCodepoint v = true
    · simp only [hv, if_true] at h
      cases hr : codepointsToString vs with
      | error e => simp [hr] at h
      | ok r =>
        simp only [hr, Except.ok.injEq] at h
        subst h
        obtain ⟨h1, h2⟩ := ih r hr
        have hx := (isXmlCodepoint_iff v).mp hv
        have hnn : 0 ≤ v := by unfold FOStrings.IsXmlChar at hx; omega
        refine ⟨?_, ?_⟩
        · simp only [List.map_cons, h1]
          congr 1
          exact Int.toNat_of_nonneg hnn
        · intro x hx'
          simp only [List.mem_cons] at hx'
          rcases hx' with rfl | hx'
          · exact hx
          · exact h2 x hx'
    · simp [hv] at h

/-! compare -/

theorem pyLt_iff (a b : Str) : pyLt a b = true ↔ CpLt a b := by
  induction a generalizing b with
  | nil =>
    cases b with
    | nil => simp [pyLt]; intro h; cases h
    | cons y ys => simp [pyLt]; exact CpLt.nil y ys
  | cons x xs ih =>
    cases b with
    | nil => simp [pyLt]; intro h; cases h
    | cons y ys =>
      simp only [pyLt]
      by_cases h1 : x < y
      · simp [h1]; exact CpLt.head x y xs ys h1
      · by_cases h2 : y < x
        · simp only [h1, h2, if_true, if_false, Bool.false_eq_true, false_iff]
          intro h
          cases h with
          | head _ _ _ _ hlt => omega
          | tail _ _ _ _ => omega
        · have hxy : x = y := by omega
          subst hxy
          simp only [h1, if_false, ih]
          constructor
          · exact CpLt.tail x xs ys
          · intro h
            cases h with
            | head _ _ _ _ hlt => omega
            | tail _ _ _ h' => exact h'

theorem cpLt_irrefl (a : Str) : ¬ CpLt a a := by
  induction a with
  | nil => intro h; cases h
  | cons x xs ih =>
    intro h
    cases h with
    | head _ _ _ _ hlt => omega
    | tail _ _ _ h' => exact ih h'

theorem cpLt_trans (a b c : Str) (h1 : CpLt a b) (h2 : CpLt b c) : CpLt a c := by
  induction h1 generalizing c with
  | nil y ys => cases h2 with
    | head _ z _ zs _ => exact CpLt.nil z zs
    | tail _ _ zs _ => exact CpLt.nil _ zs
  | head x y xs ys hxy => cases h2 with
    | head _ z _ zs hyz => exact CpLt.head x z xs zs (by omega)
    | tail _ _ zs _ => exact CpLt.head x y xs zs hxy
  | tail x xs ys _ ih => cases h2 with
    | head _ z _ zs hyz => exact CpLt.head x z xs zs hyz
    | tail _ _ zs h' => exact CpLt.tail x xs zs (ih zs h')

theorem cpLt_trichotomy (a b : Str) : CpLt a b ∨ a = b ∨ CpLt b a := by
  induction a generalizing b with
  | nil => cases b with
    | nil => exact Or.inr (Or.inl rfl)
    | cons y ys => exact Or.inl (CpLt.nil y ys)
  | cons x xs ih => cases b with
    | nil => exact Or.inr (Or.inr (CpLt.nil x xs))
    | cons y ys =>
      rcases Nat.lt_trichotomy x y with h | h | h
      · exact Or.inl (CpLt.head x y xs ys h)
      · subst h
        rcases ih ys with h | h | h
        · exact Or.inl (CpLt.tail x xs ys h)
        · exact Or.inr (Or.inl (by rw [h]))
        · exact Or.inr (Or.inr (CpLt.tail x ys xs h))
      · exact Or.inr (Or.inr (CpLt.head y x ys xs h))

theorem specCompare_lt_iff (a b : Str) : FOStrings.compare a b = -1 ↔ CpLt a b := by
  induction a generalizing b with
  | nil => cases b with
    | nil => simp [FOStrings.compare]; intro h; cases h
    | cons y ys => simp [FOStrings.compare]; exact CpLt.nil y ys
  | cons x xs ih => cases b with
    | nil => simp [FOStrings.compare]; intro h; cases h
    | cons y ys =>
      simp only [FOStrings.compare]
      by_cases h1 : x < y
      · simp [h1]; exact CpLt.head x y xs ys h1
      · by_cases h2 : y < x
        · simp only [h1, h2, if_true, if_false]
          constructor
          · intro h; omega
          · intro h
            cases h with
            | head _ _ _ _ hlt => omega
            | tail _ _ _ _ => omega
        · have hxy : x = y := by omega
          subst hxy
          simp only [h1, if_false, ih]
          constructor
          · exact CpLt.tail x xs ys
          · intro h
            cases h with
            | head _ _ _ _ hlt => omega
            | tail _ _ _ h' => exact h'

theorem specCompare_eq_iff (a b : Str) : FOStrings.compare a b = 0 ↔ a = b := by
  induction a generalizing b with
  | nil => cases b <;> simp [FOStrings.compare]
  | cons x xs ih => cases b with
    | nil => simp [FOStrings.compare]
    | cons y ys =>
      simp only [FOStrings.compare]
      by_cases h1 : x < y
      · simp [h1]; omega
      · by_cases h2 : y < x
        · simp [h1, h2]; omega
        · have hxy : x = y := by omega
          subst hxy
          simp [ih]

theorem specCompare_range (a b : Str) :
    FOStrings.compare a b = -1 ∨ FOStrings.compare a b = 0 ∨ FOStrings.compare a b = 1 := by
  induction a generalizing b with
  | nil => cases b <;> simp [FOStrings.compare]
  | cons x xs ih => cases b with
    | nil => simp [FOStrings.compare]
    | cons y ys =>
      simp only [FOStrings.compare]
      split
      · simp
      · split
        · simp
        · exact ih ys

theorem compare_eq_spec (a b : Str) : compare a b = FOStrings.compare a b := by
  unfold compare
  by_cases h : a = b
  · simp [h, (specCompare_eq_iff b b).mpr rfl]
  · simp only [h, if_false]
    by_cases hl : pyLt a b = true
    · simp [hl, (specCompare_lt_iff a b).mpr ((pyLt_iff a b).mp hl)]
    · simp only [hl, Bool.false_eq_true, if_false]
      rcases specCompare_range a b with h1 | h1 | h1
      · exact absurd ((pyLt_iff a b).mpr ((specCompare_lt_iff a b).mp h1)) hl
      · exact absurd ((specCompare_eq_iff a b).mp h1) h
      · exact h1.symm

theorem codepointEqual_iff (a b : Str) : codepointEqual a b = true ↔ a = b := by
  unfold codepointEqual
  induction a generalizing b with
  | nil => cases b <;> simp
  | cons x xs ih => cases b with
    | nil => simp
    | cons y ys =>
      have := ih ys
      by_cases hl : xs.length = ys.length
      · simp only [List.length_cons, hl, ne_eq, not_true_eq_false, if_false, List.zip_cons_cons,
          List.all_cons, Bool.and_eq_true, beq_iff_eq, List.cons.injEq] at this ⊢
        rw [this]
      · simp only [List.length_cons, ne_eq, Nat.add_right_cancel_iff, hl, not_false_eq_true, if_true,
          Bool.false_eq_true, List.cons.injEq, false_iff, not_and]
        intro _ h
        exact hl (by rw [h])
end EPV.Strings

/- C09 helper lemmas, part 9: the code-point based collations of CollationManager (code point, HTML ASCII case-insensitive). -/
import EPV.Lemmas.StringsFind
import EPV.Lemmas.StringsCodepoints
namespace EPV.Strings
open EPV.FOStrings (Str Num Err Collation)

theorem firstPos_range' (c a n : Nat) :
    FOStrings.firstPos c (List.range' a n) = if a ≤ c ∧ c < a + n then some (c - a) else none := by
  induction n generalizing a with
  | zero => simp [FOStrings.firstPos]
  | succ n ih =>
    simp only [List.range'_succ, FOStrings.firstPos, ih]
    by_cases h : a = c
    · subst h; simp
    · simp only [h, if_false]
      by_cases h2 : a + 1 ≤ c ∧ c < a + 1 + n
      · have h3 : a ≤ c ∧ c < a + (n + 1) := by omega
        simp only [h2, h3, and_self, if_true, Option.map_some]
        congr 1; omega
      · have h3 : ¬ (a ≤ c ∧ c < a + (n + 1)) := by omega
        simp [h2, h3]

theorem translateChar_az (c : Nat) :
    FOStrings.translateChar FOStrings.upperAZ FOStrings.lowerAZ c =
      [if 65 ≤ c ∧ c < 91 then c + 32 else c] := by
  unfold FOStrings.translateChar FOStrings.upperAZ FOStrings.lowerAZ
  rw [firstPos_range']
  by_cases h : 65 ≤ c ∧ c < 91
  · simp only [h, and_self, if_true]
    rw [List.getElem?_range' (by omega)]
    simp only [Option.toList]
    congr 1; omega
  · simp only [h, if_false]

/-- `str.translate` with the A–Z table is the `fn:translate($s, 'A…Z', 'a…z')` of F&O §5.3.4 -/
theorem asciiLower_eq_htmlFold (s : Str) : asciiLower s = FOStrings.htmlFold s := by
  unfold asciiLower FOStrings.htmlFold FOStrings.translate
  induction s with
  | nil => rfl
  | cons c cs ih => simp only [List.map_cons, List.flatMap_cons, translateChar_az, ih]; rfl

theorem strxfrm_eq_key (col : Collation) (s : Str) : strxfrm col s = FOStrings.collKey col s := by
  cases col
  · rfl
  · exact asciiLower_eq_htmlFold s

theorem strxfrm_length (col : Collation) (s : Str) : (strxfrm col s).length = s.length := by
  cases col <;> simp [strxfrm, asciiLower]

theorem strxfrm_take (col : Collation) (s : Str) (i : Nat) :
    strxfrm col (s.take i) = (strxfrm col s).take i := by
  cases col <;> simp [strxfrm, asciiLower, List.map_take]

theorem strxfrm_drop (col : Collation) (s : Str) (i : Nat) :
    strxfrm col (s.drop i) = (strxfrm col s).drop i := by
  cases col <;> simp [strxfrm, asciiLower, List.map_drop]

theorem compareC_eq_spec (col : Collation) (a b : Str) :
    compareC col a b = FOStrings.compareC col a b := by
  cases col
  · exact compare_eq_spec a b
  · simp only [compareC, FOStrings.compareC, FOStrings.collKey, ← asciiLower_eq_htmlFold]
    exact compare_eq_spec _ _

theorem findC_eq_spec (col : Collation) (s t : Str) : findC col s t = FOStrings.firstOccC col s t := by
  unfold findC FOStrings.firstOccC
  rw [firstOcc_eq_pyFind, strxfrm_eq_key, strxfrm_eq_key]

theorem containsC_eq_spec (col : Collation) (s t : Str) :
    containsC col s t = FOStrings.containsC col s t := by
  unfold containsC FOStrings.containsC
  rw [pyIn_eq_find, ← findC_eq_spec]
  rfl

theorem substringBeforeC_eq_spec (col : Collation) (s t : Str) :
    substringBeforeC col s t = FOStrings.substringBeforeC col s t := by
  unfold substringBeforeC FOStrings.substringBeforeC
  rw [findC_eq_spec]
  cases FOStrings.firstOccC col s t <;> rfl

theorem substringAfterC_eq_spec (col : Collation) (s t : Str) :
    substringAfterC col s t = FOStrings.substringAfterC col s t := by
  unfold substringAfterC FOStrings.substringAfterC
  rw [findC_eq_spec]
  cases FOStrings.firstOccC col s t <;> rfl

/-- the match found under a collation: the factor `m` of `s` at the found offset has the length of
`t`, is equal to `t` under the collation, and splits `s` into before ++ m ++ after -/
theorem before_after_concat_C (col : Collation) (s t : Str) (h : containsC col s t = true) :
    ∃ m, m.length = t.length ∧ strxfrm col m = strxfrm col t ∧
      substringBeforeC col s t ++ m ++ substringAfterC col s t = s := by
  unfold containsC at h
  rw [pyIn_eq_find] at h
  unfold substringBeforeC substringAfterC findC
  cases hf : pyFind (strxfrm col t) (strxfrm col s) with
  | none => simp [hf] at h
  | some i =>
    obtain ⟨h1, h2, _⟩ := (pyFind_eq_some_iff _ _ i).mp hf
    simp only
    unfold occAt at h1
    rw [List.isPrefixOf_iff_prefix, List.prefix_iff_eq_take] at h1
    rw [strxfrm_length] at h1 h2
    refine ⟨(s.drop i).take t.length, ?_, ?_, ?_⟩
    · -- length: the prefix relation forces |t| ≤ |s| - i
      have hl := congrArg List.length h1
      simp only [strxfrm_length, List.length_take, List.length_drop] at hl
      simp only [List.length_take, List.length_drop]
      omega
    · rw [strxfrm_take, strxfrm_drop]; exact h1.symm
    · rw [List.append_assoc, ← List.drop_drop, List.take_append_drop, List.take_append_drop]
end EPV.Strings

/-
C08 helper lemmas: the evaluator of the model (`eval`: token `select` methods, odometer,
`select_with_focus`) equals the XPath semantics of the specification (`sem`).
-/
import EPV.Lemmas.SeqFunsAgg
import EPV.Lemmas.SeqFunsOdo
namespace EPV.Seq
open EPV.Seq.Spec

/-! ### focus loops -/

theorem predicateLoop_eq (pred : Nat → Nat → Atom → R) (n : Nat) (l : List (Atom × Nat)) :
    predicateLoop pred (l.map fun t => (t.2, n, t.1)) =
      (keepWhere (fun t : Atom × Nat => (pred t.2 n t.1).bind (predicateTruth t.2)) l).map
        (fun kept => kept.map Prod.fst) := by
  induction l with
  | nil => rfl
  | cons t l ih =>
    obtain ⟨x, pos⟩ := t
    simp only [List.map_cons, predicateLoop, keepWhere, ih, predicateKeeps_eq]
    generalize keepWhere (fun t : Atom × Nat => (pred t.2 n t.1).bind (predicateTruth t.2)) l = kw
    cases pred pos n x with
    | error e => rfl
    | ok v =>
      simp only [bind, Except.bind]
      cases predicateTruth pos v with
      | error e => rfl
      | ok k =>
        simp only []
        cases kw with
        | error e => rfl
        | ok rest => cases k <;> rfl

theorem mapLoop_eq (body : Nat → Nat → Atom → R) (n : Nat) (l : List (Atom × Nat)) :
    mapLoop body (l.map fun t => (t.2, n, t.1)) = collect (fun t : Atom × Nat => body t.2 n t.1) l := by
  induction l with
  | nil => rfl
  | cons t l ih =>
    obtain ⟨x, pos⟩ := t
    simp only [List.map_cons, mapLoop, collect, ih]

/-! ### consumers of the binding tuples -/

theorem loopFold_collect (f : Atom → Seq → Except Err (Seq × Bool)) (g : Atom → R)
    (h : ∀ v acc, f v acc = (g v).map fun r => (acc ++ r, false)) (items : Seq) (acc : Seq) :
    loopFold f items acc = (collect g items).map fun r => (acc ++ r, false) := by
  induction items generalizing acc with
  | nil => simp [loopFold, collect, Except.map]
  | cons v vs ih =>
    simp only [loopFold, collect, h]
    cases g v with
    | error e => rfl
    | ok r =>
      simp only [Except.map, bind, Except.bind]
      rw [ih]
      cases collect g vs with
      | error e => rfl
      | ok rs => simp [Except.map, pure, Except.pure, List.append_assoc]

theorem loopFold_exists (f : Atom → Bool → Except Err (Bool × Bool)) (g : Atom → Except Err Bool)
    (h : ∀ v, f v false = (g v).map fun b => (b, b)) (items : Seq) :
    loopFold f items false = (existsM g items).map fun b => (b, b) := by
  induction items with
  | nil => rfl
  | cons v vs ih =>
    simp only [loopFold, existsM, h]
    cases g v with
    | error e => rfl
    | ok b => cases b <;> simp [Except.map, bind, Except.bind, ih, pure, Except.pure]

theorem loopFold_forall (f : Atom → Bool → Except Err (Bool × Bool)) (g : Atom → Except Err Bool)
    (h : ∀ v, f v true = (g v).map fun b => (b, !b)) (items : Seq) :
    loopFold f items true = (forallM g items).map fun b => (b, !b) := by
  induction items with
  | nil => rfl
  | cons v vs ih =>
    simp only [loopFold, forallM, h]
    cases g v with
    | error e => rfl
    | ok b => cases b <;> simp [Except.map, bind, Except.bind, ih, pure, Except.pure]

theorem map_eq_bind_pure {α β : Type} (kw : Except Err α) (g : α → β) :
    kw.map g = (do let k ← kw; pure (g k)) := by cases kw <;> rfl

theorem filter_core (c : Ctx) (p : Expr) (s : Seq) (h : ∀ c', eval p c' = Spec.sem foSum p c') :
    predicateLoop (fun pos size x => eval p { c with item := some x, pos := pos, size := size }) (selectWithFocus s)
      = (do
          let kept ← keepWhere (fun t : Atom × Nat => do
              let v ← Spec.sem foSum p { c with item := some t.1, pos := t.2, size := s.length }
              predicateTruth t.2 v) (positions s)
          pure (kept.map Prod.fst)) := by
  rw [selectWithFocus_eq, predicateLoop_eq]
  have : (fun t : Atom × Nat => (eval p { c with item := some t.1, pos := t.2, size := s.length }).bind (predicateTruth t.2))
      = (fun t : Atom × Nat => (Spec.sem foSum p { c with item := some t.1, pos := t.2, size := s.length }).bind (predicateTruth t.2)) := by
    funext t; rw [h]
  rw [this]
  exact map_eq_bind_pure _ _

theorem map_core (c : Ctx) (b : Expr) (s : Seq) (h : ∀ c', eval b c' = Spec.sem foSum b c') :
    mapLoop (fun pos size x => eval b { c with item := some x, pos := pos, size := size }) (selectWithFocus s)
      = collect (fun t : Atom × Nat => Spec.sem foSum b { c with item := some t.1, pos := t.2, size := s.length })
          (positions s) := by
  rw [selectWithFocus_eq, mapLoop_eq]
  congr 1
  funext t; rw [h]

theorem numericOperand_some (v : Seq) (x : Atom) (h : numericOperand v = .ok (some x)) : kind x = .num := by
  match v, h with
  | [], h => simp [numericOperand] at h
  | [a], h =>
    by_cases hk : kind a = .num
    · simp [numericOperand, hk] at h; rw [← h]; exact hk
    · cases a <;> simp [numericOperand, kind] at h hk
  | _ :: _ :: _, h => simp [numericOperand] at h

theorem cmp_core (op : Cmp) (doc : List String) (ra rb : R) :
    (do
      let x ← singleton? ((← ra).map (atomize doc))
      let y ← singleton? ((← rb).map (atomize doc))
      valueCompare op x y : R)
    = (do
      let x ← ra.bind fun v => atMostOne (v.map (atomized doc))
      let y ← rb.bind fun v => atMostOne (v.map (atomized doc))
      match x, y with
      | some x, some y => do let r ← compareAtoms op x y; pure [Atom.bool r]
      | _, _ => pure []) := by
  cases ra with
  | error e => rfl
  | ok va =>
    simp only [bind, Except.bind, map_atomize, singleton_eq]
    cases atMostOne (va.map (atomized doc)) with
    | error e => rfl
    | ok x =>
      simp only []
      cases rb with
      | error e => rfl
      | ok vb =>
        simp only []
        cases atMostOne (vb.map (atomized doc)) with
        | error e => rfl
        | ok y =>
          cases x <;> cases y <;> simp [valueCompare, cmpAtoms_eq, bind, Except.bind, pure, Except.pure]

theorem selsOf_ne_nil (bs : Binds) (c : Ctx) : selsOf bs c ≠ [] := by
  cases bs <;> simp [selsOf]

theorem bind1_eq (c : Ctx) (vars : Vars) (x : Nat) (v : Atom) :
    bind1 { c with vars := vars } x v = { c with vars := (x, [v]) :: vars } := rfl

mutual
theorem eval_eq_sem : ∀ (e : Expr) (c : Ctx), eval e c = Spec.sem foSum e c
  | .lit a, c => by simp [eval, Spec.sem]
  | .empty, c => by simp [eval, Spec.sem]
  | .var x, c => by simp only [eval, Spec.sem] <;> rfl
  | .dot, c => by simp only [eval, Spec.sem] <;> rfl
  | .position, c => by simp [eval, Spec.sem]
  | .last, c => by simp [eval, Spec.sem]
  | .comma a b, c => by
    simp only [eval, Spec.sem, eval_eq_sem a, eval_eq_sem b, commaSel]
  | .range a b, c => by
    simp only [eval, Spec.sem, eval_eq_sem a, eval_eq_sem b, rangeOperand_eq, rangeTo_eq]
    cases Spec.sem foSum a c with
    | error e => rfl
    | ok va =>
      simp only [bind, Except.bind]
      cases atMostInt va with
      | error e => rfl
      | ok oa =>
        cases oa with
        | none => rfl
        | some lo =>
          try dsimp only
          cases Spec.sem foSum b c with
          | error e => rfl
          | ok vb => rfl
  | .filter e p, c => by
    simp only [eval, Spec.sem, eval_eq_sem e]
    cases Spec.sem foSum e c with
    | error err => rfl
    | ok s => exact filter_core c p s (eval_eq_sem p)
  | .map a b, c => by
    simp only [eval, Spec.sem, eval_eq_sem a]
    cases Spec.sem foSum a c with
    | error err => rfl
    | ok s => exact map_core c b s (eval_eq_sem b)
  | .forE bs r, c => by
    simp only [eval, Spec.sem]
    rw [iterProduct_eq_cartFold _ (selsOf_ne_nil bs c)]
    have hbody : (fun (vars : Vars) (acc : Seq) => (do
          let v ← eval r { c with vars := vars }
          pure (acc ++ v, false) : Except Err (Seq × Bool)))
        = fun vars acc => ((fun c' => Spec.sem foSum r c') { c with vars := vars }).map fun v => (acc ++ v, false) := by
      funext vars acc; rw [eval_eq_sem r]; dsimp only; cases Spec.sem foSum r { c with vars := vars } <;> rfl
    rw [hbody, for_eq bs c c.vars (fun c' => Spec.sem foSum r c') []]
    cases Spec.semFor foSum bs { c with vars := c.vars } (fun c' => Spec.sem foSum r c') <;> rfl
  | .someE bs t, c => by
    simp only [eval, Spec.sem]
    rw [iterProduct_eq_cartFold _ (selsOf_ne_nil bs c)]
    have hbody : (fun (vars : Vars) (_ : Bool) => (do
          let b ← ebv (← eval t { c with vars := vars })
          pure (b, b) : Except Err (Bool × Bool)))
        = fun vars _ => ((fun c' => (Spec.sem foSum t c').bind Spec.ebv) { c with vars := vars }).map fun b => (b, b) := by
      funext vars acc; rw [eval_eq_sem t]; dsimp only
      cases Spec.sem foSum t { c with vars := vars } with
      | error e => rfl
      | ok v => simp only [bind, Except.bind, ebv_eq]; cases Spec.ebv v <;> rfl
    rw [hbody, some_eq bs c c.vars (fun c' => (Spec.sem foSum t c').bind Spec.ebv)]
    cases Spec.semSome foSum bs { c with vars := c.vars } (fun c' => (Spec.sem foSum t c').bind Spec.ebv) <;> rfl
  | .everyE bs t, c => by
    simp only [eval, Spec.sem]
    rw [iterProduct_eq_cartFold _ (selsOf_ne_nil bs c)]
    have hbody : (fun (vars : Vars) (_ : Bool) => (do
          let b ← ebv (← eval t { c with vars := vars })
          pure (b, !b) : Except Err (Bool × Bool)))
        = fun vars _ => ((fun c' => (Spec.sem foSum t c').bind Spec.ebv) { c with vars := vars }).map fun b => (b, !b) := by
      funext vars acc; rw [eval_eq_sem t]; dsimp only
      cases Spec.sem foSum t { c with vars := vars } with
      | error e => rfl
      | ok v => simp only [bind, Except.bind, ebv_eq]; cases Spec.ebv v <;> rfl
    rw [hbody, every_eq bs c c.vars (fun c' => (Spec.sem foSum t c').bind Spec.ebv)]
    cases Spec.semEvery foSum bs { c with vars := c.vars } (fun c' => (Spec.sem foSum t c').bind Spec.ebv) <;> rfl
  | .fn1 f a, c => by
    simp only [eval, Spec.sem, eval_eq_sem a, applyFn1_eq]
    cases Spec.sem foSum a c <;> rfl
  | .fn2 f a b, c => by
    cases f <;> simp only [eval, Spec.sem, eval_eq_sem a, eval_eq_sem b, applyFn2_eq, applyFn1_eq]
    case sum =>
      cases Spec.sem foSum a c with
      | error e => rfl
      | ok va => cases va <;> rfl
  | .fn3 f a b d, c => by
    cases f <;> simp only [eval, Spec.sem, eval_eq_sem a, eval_eq_sem b, eval_eq_sem d, applyFn3_eq]
  | .cmp op a b, c => by
    simp only [eval, Spec.sem, eval_eq_sem a, eval_eq_sem b]
    exact cmp_core op c.doc (Spec.sem foSum a c) (Spec.sem foSum b c)
  | .andE a b, c => by
    simp only [eval, Spec.sem, eval_eq_sem a, eval_eq_sem b]
    cases Spec.sem foSum a c with
    | error e => rfl
    | ok va =>
      simp only [bind, Except.bind, ebv_eq]
      cases Spec.ebv va with
      | error e => rfl
      | ok ba =>
        cases ba
        · rfl
        · simp only [if_true]
          cases Spec.sem foSum b c with
          | error e => rfl
          | ok vb => simp only [ebv_eq]
  | .orE a b, c => by
    simp only [eval, Spec.sem, eval_eq_sem a, eval_eq_sem b]
    cases Spec.sem foSum a c with
    | error e => rfl
    | ok va =>
      simp only [bind, Except.bind, ebv_eq]
      cases Spec.ebv va with
      | error e => rfl
      | ok ba =>
        cases ba
        · simp only [Bool.false_eq_true, if_false]
          cases Spec.sem foSum b c with
          | error e => rfl
          | ok vb => simp only [ebv_eq]
        · rfl
  | .arith op a b, c => by
    simp only [eval, Spec.sem, eval_eq_sem a, eval_eq_sem b, arithOperand_eq]
    cases Spec.sem foSum a c with
    | error e => rfl
    | ok va =>
      simp only [bind, Except.bind]
      cases hx : numericOperand va with
      | error e => rfl
      | ok ox =>
        cases ox with
        | none => rfl
        | some x =>
          try dsimp only
          cases Spec.sem foSum b c with
          | error e => rfl
          | ok vb =>
            try dsimp only
            cases hy : numericOperand vb with
            | error e => rfl
            | ok oy =>
              cases oy with
              | none => rfl
              | some y =>
                have kx : kind x = .num := numericOperand_some va x hx
                have ky : kind y = .num := numericOperand_some vb y hy
                simp [arithAtoms_eq op x y kx ky, pure, Except.pure]
  | .ifE t a b, c => by
    simp only [eval, Spec.sem, eval_eq_sem t, eval_eq_sem a, eval_eq_sem b]
    cases Spec.sem foSum t c with
    | error e => rfl
    | ok vt =>
      simp only [bind, Except.bind, ebv_eq]

theorem for_eq : ∀ (bs : Binds) (c : Ctx) (vars : Vars) (body : Ctx → R) (acc : Seq),
    cartFold (fun vars acc => (body { c with vars := vars }).map fun v => (acc ++ v, false)) (selsOf bs c) vars acc
      = (Spec.semFor foSum bs { c with vars := vars } body).map fun r => (acc ++ r, false)
  | .one x e, c, vars, body, acc => by
    simp only [selsOf, cartFold, Spec.semFor, eval_eq_sem e]
    cases Spec.sem foSum e { c with vars := vars } with
    | error err => rfl
    | ok items =>
      simp only [bind, Except.bind]
      exact loopFold_collect _ _ (fun v acc => rfl) items acc
  | .cons x e rest, c, vars, body, acc => by
    simp only [selsOf, cartFold, Spec.semFor, eval_eq_sem e]
    cases Spec.sem foSum e { c with vars := vars } with
    | error err => rfl
    | ok items =>
      simp only [bind, Except.bind]
      exact loopFold_collect _ _ (fun v acc => for_eq rest c ((x, [v]) :: vars) body acc) items acc

theorem some_eq : ∀ (bs : Binds) (c : Ctx) (vars : Vars) (test : Ctx → Except Err Bool),
    cartFold (fun vars (_ : Bool) => (test { c with vars := vars }).map fun b => (b, b)) (selsOf bs c) vars false
      = (Spec.semSome foSum bs { c with vars := vars } test).map fun b => (b, b)
  | .one x e, c, vars, test => by
    simp only [selsOf, cartFold, Spec.semSome, eval_eq_sem e]
    cases Spec.sem foSum e { c with vars := vars } with
    | error err => rfl
    | ok items =>
      simp only [bind, Except.bind]
      exact loopFold_exists _ _ (fun v => rfl) items
  | .cons x e rest, c, vars, test => by
    simp only [selsOf, cartFold, Spec.semSome, eval_eq_sem e]
    cases Spec.sem foSum e { c with vars := vars } with
    | error err => rfl
    | ok items =>
      simp only [bind, Except.bind]
      exact loopFold_exists _ _ (fun v => some_eq rest c ((x, [v]) :: vars) test) items

theorem every_eq : ∀ (bs : Binds) (c : Ctx) (vars : Vars) (test : Ctx → Except Err Bool),
    cartFold (fun vars (_ : Bool) => (test { c with vars := vars }).map fun b => (b, !b)) (selsOf bs c) vars true
      = (Spec.semEvery foSum bs { c with vars := vars } test).map fun b => (b, !b)
  | .one x e, c, vars, test => by
    simp only [selsOf, cartFold, Spec.semEvery, eval_eq_sem e]
    cases Spec.sem foSum e { c with vars := vars } with
    | error err => rfl
    | ok items =>
      simp only [bind, Except.bind]
      exact loopFold_forall _ _ (fun v => rfl) items
  | .cons x e rest, c, vars, test => by
    simp only [selsOf, cartFold, Spec.semEvery, eval_eq_sem e]
    cases Spec.sem foSum e { c with vars := vars } with
    | error err => rfl
    | ok items =>
      simp only [bind, Except.bind]
      exact loopFold_forall _ _ (fun v => every_eq rest c ((x, [v]) :: vars) test) items
end

end EPV.Seq

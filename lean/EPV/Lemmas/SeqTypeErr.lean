/-
C18 — which errors the judgements themselves can raise.
-/
import EPV.Lemmas.SeqTypeInst
set_option linter.unusedSimpArgs false
namespace EPV.SeqType

theorem allE_error {α : Type} (f : α → Res) (e : Err) : ∀ (l : List α), allE f l = .error e → ∃ x ∈ l, f x = .error e
  | [], h => by simp [allE] at h
  | x :: xs, h => by
    simp only [allE] at h
    cases hx : f x with
    | error e' => rw [hx] at h; simp at h; exact ⟨x, by simp, by rw [hx, h]⟩
    | ok b =>
      rw [hx] at h
      cases b
      · simp at h
      · obtain ⟨y, hy, hfy⟩ := allE_error f e xs h
        exact ⟨y, by simp [hy], hfy⟩

theorem andE_error (a : Res) (b : Unit → Res) (e : Err) (h : andE a b = .error e) : a = .error e ∨ b () = .error e := by
  cases a with
  | error e' => simp [andE] at h; left; rw [h]
  | ok v => cases v <;> simp [andE] at h; right; exact h

theorem seqMatch_error (o : Occ) (f : Item → Res) (v : List Item) (e : Err) (h : seqMatch o f v = .error e) :
    ∃ x ∈ v, f x = .error e := by
  match v with
  | [] => simp [seqMatch] at h
  | [x] => exact ⟨x, by simp, by simpa [seqMatch] using h⟩
  | x :: y :: r =>
    simp only [seqMatch] at h
    split at h
    · simp at h
    · exact allE_error f e _ h

theorem matchLeaf_error (tb : Tables) (xsd11 strict : Bool) (l : Leaf) (x : Item) (e : Err)
    (h : matchLeaf tb xsd11 strict l x = .error e) : e = .XPST0051 := by
  cases x with
  | atom c =>
    cases l <;> simp [matchLeaf] at h <;> try exact h.symm
    all_goals (split at h <;> simp at h)
  | node k n kids root =>
    cases l <;> simp [matchLeaf] at h
    case kindT k' nt ta o =>
      split at h
      · simp at h
      · cases ta <;> simp at h <;> try exact h.symm
        all_goals (split at h <;> simp at h)
  | func sa sr => cases l <;> simp [matchLeaf] at h <;> exact h.symm
  | map es => cases l <;> simp [matchLeaf] at h <;> exact h.symm
  | array ms => cases l <;> simp [matchLeaf] at h <;> exact h.symm

/-- `match_sequence_type` raises nothing but the static XPST0051 (a name that is no atomic type) -/
theorem matchSt_error (tb : Tables) (xsd11 : Bool) : ∀ (t : Ty) (strict : Bool) (v : List Item) (e : Err),
    matchSt tb xsd11 strict t v = .error e → e = .XPST0051
  | .empty, _, v, e, h => by simp [matchSt] at h
  | .leaf l o, strict, v, e, h => by
    simp only [matchSt] at h
    obtain ⟨x, _, hx⟩ := seqMatch_error _ _ _ _ h
    exact matchLeaf_error tb xsd11 strict l x e hx
  | .func a r, strict, v, e, h => by
    simp only [matchSt] at h
    obtain ⟨x, _, hx⟩ := seqMatch_error _ _ _ _ h
    cases x with
    | func sa sr => simp at hx
    | atom c => simp at hx
    | node k n kids root => simp at hx
    | map es =>
      cases a with
      | nil => simp at hx
      | cons k as =>
        cases as with
        | cons _ _ => simp at hx
        | nil =>
          simp only [] at hx
          split at hx
          · simp at hx
          · rcases andE_error _ _ _ hx with h1 | h1
            · exact matchSt_error tb xsd11 r true [] e h1
            · obtain ⟨y, _, hy⟩ := allE_error _ _ _ h1
              exact matchSt_error tb xsd11 r true y.2 e hy
    | array ms =>
      cases a with
      | nil => simp at hx
      | cons k as =>
        cases as with
        | cons _ _ => simp at hx
        | nil =>
          simp only [] at hx
          split at hx
          · simp at hx
          · obtain ⟨y, _, hy⟩ := allE_error _ _ _ hx
            exact matchSt_error tb xsd11 r true y e hy
  | .map k vt o, strict, v, e, h => by
    simp only [matchSt] at h
    obtain ⟨x, _, hx⟩ := seqMatch_error _ _ _ _ h
    cases x with
    | map es =>
      simp only [] at hx
      obtain ⟨y, _, hy⟩ := allE_error _ _ _ hx
      rcases andE_error _ _ _ hy with h1 | h1
      · simp at h1
      · exact matchSt_error tb xsd11 vt true y.2 e h1
    | _ => simp at hx
  | .array m o, strict, v, e, h => by
    simp only [matchSt] at h
    obtain ⟨x, _, hx⟩ := seqMatch_error _ _ _ _ h
    cases x with
    | array ms =>
      simp only [] at hx
      obtain ⟨y, _, hy⟩ := allE_error _ _ _ hx
      exact matchSt_error tb xsd11 m true y e hy
    | _ => simp at hx

theorem instLoop_error (occ : Occ) (f : Item → Res) (e : Err) : ∀ (v : List Item) (pos : Nat),
    instLoop occ f pos v = .error e → ∃ x ∈ v, f x = .error e
  | [], pos, h => by simp [instLoop] at h
  | x :: xs, pos, h => by
    simp only [instLoop] at h
    cases hx : f x with
    | error e' => rw [hx] at h; simp at h; exact ⟨x, by simp, by rw [hx, h]⟩
    | ok b =>
      rw [hx] at h
      cases b
      · simp at h
      · simp only [] at h
        split at h
        · simp at h
        · obtain ⟨y, hy, hfy⟩ := instLoop_error occ f e xs (pos + 1) h
          exact ⟨y, by simp [hy], hfy⟩

theorem instItem_error (tb : Tables) (xsd11 : Bool) (t : Ty) (x : Item) (e : Err)
    (h : instItem tb xsd11 t x = .error e) : e = .XPST0051 := by
  cases t with
  | empty => simp [instItem, instItemTok] at h
  | func a r =>
    simp only [instItem, instItemTok] at h
    split at h
    · exact matchSt_error tb xsd11 _ _ _ e h
    · simp at h
  | map k v o => exact matchSt_error tb xsd11 _ _ _ e (by simpa [instItem, instItemTok] using h)
  | array m o => exact matchSt_error tb xsd11 _ _ _ e (by simpa [instItem, instItemTok] using h)
  | leaf l o =>
    cases l with
    | kindT k' nt ta o' =>
      simp only [instItem, Leaf.isName, instItemTok, Bool.false_eq_true, if_false] at h
      cases x with
      | node k n kids root =>
        simp only [] at h
        cases k' <;> simp at h
        case element =>
          split at h
          · cases ta <;> simp at h <;> exact h.symm
          · simp at h
      | _ => simp at h
    | mapAny => exact matchSt_error tb xsd11 _ _ _ e (by simpa [instItem, Leaf.isName, instItemTok] using h)
    | arrayAny => exact matchSt_error tb xsd11 _ _ _ e (by simpa [instItem, Leaf.isName, instItemTok] using h)
    | atomic a => cases x <;> simp [instItem, Leaf.isName, instItemName] at h
    | numeric => cases x <;> simp [instItem, Leaf.isName, instItemName] at h
    | listT l' => cases x <;> simp [instItem, Leaf.isName, instItemName] at h <;> exact h.symm
    | anyType => cases x <;> simp [instItem, Leaf.isName, instItemName] at h <;> exact h.symm
    | anySimpleType => cases x <;> simp [instItem, Leaf.isName, instItemName] at h <;> exact h.symm
    | item => simp [instItem, Leaf.isName, instItemTok] at h
    | funcAny => simp [instItem, Leaf.isName, instItemTok] at h
    | anyNode => cases x <;> simp [instItem, Leaf.isName, instItemTok] at h
    | kind k' nt => cases x <;> simp [instItem, Leaf.isName, instItemTok] at h
    | docElem nt => cases x <;> simp [instItem, Leaf.isName, instItemTok] at h

/-- `instance of` raises nothing but the static XPST0051: never a dynamic error -/
theorem instanceOf_error (tb : Tables) (xsd11 : Bool) (t : Ty) (v : List Item) (e : Err)
    (h : instanceOf tb xsd11 t v = .error e) : e = .XPST0051 := by
  cases t with
  | empty => simp [instanceOf] at h
  | _ =>
    simp only [instanceOf] at h
    obtain ⟨x, _, hx⟩ := instLoop_error _ _ _ _ _ h
    exact instItem_error tb xsd11 _ x e hx

end EPV.SeqType

/-
Helper lemmas for C14: counting loop = filter length, the positional predicate finds the
counted sibling, evaluation of a generated path walks down to the node.
-/
import EPV.Spec.NodePathSpec
namespace EPV.NodePath

/-! ### lists -/

theorem take_succ_of_getElem? {α : Type} (l : List α) (i : Nat) (a : α) (h : l[i]? = some a) :
    l.take (i + 1) = l.take i ++ [a] := by
  rw [List.take_add_one, h]; rfl

theorem lt_length_of_getElem? {α : Type} {l : List α} {i : Nat} {a : α} (h : l[i]? = some a) :
    i < l.length := by
  rcases Nat.lt_or_ge i l.length with h' | h'
  · exact h'
  · rw [List.getElem?_eq_none h'] at h; cases h

/-- the loop of `get_child_position` counts the siblings up to and including the child -/
theorem gcpLoop_eq (cnt : Node → Node → Bool) (child : Node) :
    ∀ (kids : List Node) (k pos : Nat), k < kids.length →
      gcpLoop cnt child kids k pos = pos + ((kids.take (k + 1)).filter (cnt child)).length := by
  intro kids
  induction kids with
  | nil => intro k pos h; cases h
  | cons c cs ih =>
    intro k pos h
    cases k with
    | zero =>
      simp only [gcpLoop, List.take_succ_cons, List.take_zero, List.filter_cons, List.filter_nil]
      split <;> simp
    | succ k =>
      have hk : k < cs.length := by simpa using h
      simp only [gcpLoop, List.take_succ_cons, List.filter_cons]
      rw [ih k _ hk]
      split <;> simp <;> omega

/-- the `[p]` predicate applied to the matching siblings finds index `i` when `p` is one more
than the number of matching siblings before `i` -/
theorem nth1_idxWhere {α : Type} (p : α → Bool) :
    ∀ (l : List α) (off i : Nat) (a : α), l[i]? = some a → p a = true →
      nth1 (((l.take i).filter p).length + 1) (idxWhere p l off) = [off + i] := by
  intro l
  induction l with
  | nil => intro off i a h; simp at h
  | cons b bs ih =>
    intro off i a h hp
    cases i with
    | zero =>
      simp only [List.getElem?_cons_zero, Option.some.injEq] at h
      subst h
      simp [nth1, idxWhere, hp]
    | succ i =>
      simp only [List.getElem?_cons_succ] at h
      have := ih (off + 1) i a h hp
      simp only [nth1] at this ⊢
      simp only [List.take_succ_cons, List.filter_cons, idxWhere]
      by_cases hb : p b = true
      · simp only [hb, if_true, List.length_cons, List.drop_succ_cons]
        rw [this]; congr 1; omega
      · simp only [hb, Bool.false_eq_true, if_false]
        rw [this]; congr 1; omega

/-- with pairwise distinct keys, the entries whose key equals the key of entry `j` are `[j]` -/
theorem idxWhere_key {α β : Type} [DecidableEq β] (f : α → β) :
    ∀ (l : List α) (off j : Nat) (a : α), nodupB (l.map f) = true → l[j]? = some a →
      idxWhere (fun b => decide (f b = f a)) l off = [off + j] := by
  intro l
  induction l with
  | nil => intro off j a _ h; simp at h
  | cons b bs ih =>
    intro off j a hn h
    simp only [List.map_cons, nodupB, Bool.and_eq_true, Bool.not_eq_eq_eq_not, Bool.not_true] at hn
    cases j with
    | zero =>
      simp only [List.getElem?_cons_zero, Option.some.injEq] at h
      subst h
      -- no later entry has the same key
      have hnone : ∀ (l : List α) (o : Nat), (l.map f).contains (f b) = false →
          idxWhere (fun c => decide (f c = f b)) l o = [] := by
        intro l
        induction l with
        | nil => intros; rfl
        | cons c cs ihc =>
          intro o hc
          simp only [List.map_cons, List.contains_cons, Bool.or_eq_false_iff, beq_eq_false_iff_ne] at hc
          have hcb : ¬ f c = f b := fun e => hc.1 e.symm
          simp only [idxWhere, hcb, decide_false, Bool.false_eq_true, if_false]
          exact ihc _ hc.2
      simp [idxWhere, hnone bs (off + 1) hn.1]
    | succ j =>
      simp only [List.getElem?_cons_succ] at h
      have hmem : (bs.map f).contains (f a) = true := by
        have hj := lt_length_of_getElem? h
        have : bs[j] = a := by
          have := List.getElem?_eq_getElem hj
          rw [this] at h; exact Option.some.inj h
        simp only [List.contains_iff_mem, List.mem_map]
        exact ⟨a, this ▸ List.getElem_mem hj, rfl⟩
      have hba : ¬ f b = f a := by
        intro e; rw [e, hmem] at hn; exact absurd hn.1 (by simp)
      simp only [idxWhere, hba, decide_false, Bool.false_eq_true, if_false]
      rw [ih (off + 1) j a hn.2 h]; congr 1; omega

/-! ### trees -/

theorem descend_append (top : Node) : ∀ (p q : List Nat),
    descend top (p ++ q) = (descend top p).bind (descend · q) := by
  intro p
  induction p generalizing top with
  | nil => intro q; rfl
  | cons i is ih =>
    intro q
    simp only [List.cons_append, descend]
    cases top.kids[i]? with
    | none => rfl
    | some c => exact ih c q

theorem descend_snoc (top : Node) (p : List Nat) (i : Nat) (n c : Node)
    (h : descend top p = some n) (hc : n.kids[i]? = some c) : descend top (p ++ [i]) = some c := by
  rw [descend_append, h]
  simp [descend, hc]

/-- the node test of the step generated for a child does not depend on the position -/
theorem test_childStep (c : Node) (pos : Nat) : (childStep c pos).test = (stepShape c).test := by
  funext c'
  cases c <;> cases c' <;> rfl

theorem pos_childStep (c : Node) (pos : Nat) : (childStep c pos).pos = pos := by
  cases c <;> rfl

/-- `sameKind` is the node test of the generated step -/
theorem sameKind_eq_test (c c' : Node) : sameKind c c' = (stepShape c).test c' := by
  cases c <;> cases c' <;> simp [sameKind, stepShape, Step.test, eq_comm]

theorem test_self (c : Node) : (stepShape c).test c = true := by
  cases c <;> simp [stepShape, Step.test]

/-- a child-axis step generated by `childStep` is evaluated by the third branch of `stepFrom` -/
theorem stepFrom_childStep (top : Node) (c : Node) (pos : Nat) (pre : List Nat) (n : Node)
    (h : descend top pre = some n) :
    stepFrom top (childStep c pos) ⟨pre, .self⟩ =
      (nth1 pos (idxWhere (stepShape c).test n.kids 0)).map fun i => ⟨pre ++ [i], .self⟩ := by
  have ht := test_childStep c pos
  cases c <;> simp only [stepFrom, h, childStep, Step.pos] <;> simp only [childStep] at ht <;> rw [ht]

/-- one generated step selects exactly the child it was generated for -/
theorem stepFrom_child (cnt : Node → Node → Bool) (top : Node) (pre : List Nat) (n c : Node) (i : Nat)
    (h : descend top pre = some n) (hc : n.kids[i]? = some c) (hs : safeAt cnt n.kids c = true) :
    stepFrom top (childStep c (getChildPositionWith cnt n.kids i c)) ⟨pre, .self⟩ = [⟨pre ++ [i], .self⟩] := by
  rw [stepFrom_childStep top c _ pre n h]
  have hlen := lt_length_of_getElem? hc
  have hpos : getChildPositionWith cnt n.kids i c
      = ((n.kids.take i).filter (stepShape c).test).length + 1 := by
    unfold getChildPositionWith
    rw [gcpLoop_eq cnt c n.kids i 0 hlen]
    have hcongr : (n.kids.take (i + 1)).filter (cnt c) = (n.kids.take (i + 1)).filter (stepShape c).test := by
      apply List.filter_congr
      intro x hx
      have hx' := List.mem_of_mem_take hx
      simp only [safeAt, List.all_eq_true, beq_iff_eq] at hs
      exact hs x hx'
    rw [hcongr, take_succ_of_getElem? _ _ _ hc, List.filter_append]
    simp [test_self c]
  rw [hpos, nth1_idxWhere _ n.kids 0 i c hc (test_self c)]
  simp

theorem evalFrom_pathToWith (cnt : Node → Node → Bool)
    (top : Node) : ∀ (is : List Nat) (n : Node) (pre : List Nat) (steps : List Step),
      descend top pre = some n → pathSafe cnt n is = true → pathToWith cnt n is = some steps →
      evalFrom top [⟨pre, .self⟩] steps = [⟨pre ++ is, .self⟩] := by
  intro is
  induction is with
  | nil =>
    intro n pre steps _ _ hp
    simp only [pathToWith, Option.some.injEq] at hp
    subst hp
    simp [evalFrom]
  | cons i is ih =>
    intro n pre steps hd hs hp
    simp only [pathToWith] at hp
    cases hc : n.kids[i]? with
    | none => simp [hc] at hp
    | some c =>
      simp only [hc] at hp
      simp only [pathSafe, hc, Bool.and_eq_true] at hs
      cases hr : pathToWith cnt c is with
      | none => simp [hr] at hp
      | some rest =>
        simp only [hr, Option.some.injEq] at hp
        subst hp
        simp only [evalFrom, List.flatMap_cons, List.flatMap_nil, List.append_nil]
        rw [stepFrom_child cnt top pre n c i hd hc hs.1]
        have := ih c (pre ++ [i]) rest (descend_snoc top pre i n c hd hc) hs.2 hr
        rw [this, List.append_assoc]; rfl

/-- the repaired counting agrees with the node test everywhere -/
theorem pathSafe_of_agree (cnt : Node → Node → Bool) (hcnt : ∀ c c', cnt c c' = (stepShape c).test c') :
    ∀ (is : List Nat) (n : Node), pathSafe cnt n is = true := by
  intro is
  induction is with
  | nil => intro n; rfl
  | cons i is ih =>
    intro n
    simp only [pathSafe]
    cases n.kids[i]? with
    | none => rfl
    | some c =>
      simp only [Bool.and_eq_true]
      exact ⟨by simp [safeAt, hcnt], ih c⟩

theorem evalFrom_append (top : Node) : ∀ (s1 s2 : List Step) (ctx : List Ref),
    evalFrom top ctx (s1 ++ s2) = evalFrom top (evalFrom top ctx s1) s2 := by
  intro s1
  induction s1 with
  | nil => intros; rfl
  | cons s rest ih => intro s2 ctx; simp only [List.cons_append, evalFrom]; exact ih s2 _

/-- `pathToWith` succeeds exactly when `descend` does -/
theorem pathToWith_isSome (cnt : Node → Node → Bool) : ∀ (is : List Nat) (n : Node),
    (pathToWith cnt n is).isSome = (descend n is).isSome := by
  intro is
  induction is with
  | nil => intro n; rfl
  | cons i is ih =>
    intro n
    simp only [pathToWith, descend]
    cases n.kids[i]? with
    | none => rfl
    | some c =>
      have := ih c
      cases h : pathToWith cnt c is <;> simp [h] at this ⊢ <;> exact this

/-! ### well-formedness is inherited -/

theorem wfList_get : ∀ (l : List Node) (i : Nat) (c : Node), wfList l = true → l[i]? = some c → c.wf = true := by
  intro l
  induction l with
  | nil => intro i c _ h; simp at h
  | cons a as ih =>
    intro i c hw h
    simp only [wfList, Bool.and_eq_true] at hw
    cases i with
    | zero => simp only [List.getElem?_cons_zero, Option.some.injEq] at h; subst h; exact hw.1
    | succ i => simp only [List.getElem?_cons_succ] at h; exact ih i c hw.2 h

theorem wf_kids (n c : Node) (i : Nat) (hw : n.wf = true) (h : n.kids[i]? = some c) : c.wf = true := by
  cases n with
  | elem nm nss attrs kids =>
    simp only [Node.wf, Bool.and_eq_true] at hw
    exact wfList_get kids i c hw.2 h
  | text => simp [Node.kids] at h
  | comment => simp [Node.kids] at h
  | pi t => simp [Node.kids] at h

theorem wf_descend : ∀ (is : List Nat) (top n : Node), top.wf = true → descend top is = some n → n.wf = true := by
  intro is
  induction is with
  | nil => intro top n hw h; simp only [descend, Option.some.injEq] at h; subst h; exact hw
  | cons i is ih =>
    intro top n hw h
    simp only [descend] at h
    cases hc : top.kids[i]? with
    | none => simp [hc] at h
    | some c => simp only [hc] at h; exact ih c n (wf_kids top c i hw hc) h

theorem wf_attrs (n : Node) (hw : n.wf = true) : nodupB (n.attrs.map (·.1)) = true := by
  cases n with
  | elem nm nss attrs kids => simp only [Node.wf, Bool.and_eq_true] at hw; exact hw.1.1
  | _ => rfl

theorem wf_nss (n : Node) (hw : n.wf = true) : nodupB (n.nss.map (·.1)) = true := by
  cases n with
  | elem nm nss attrs kids => simp only [Node.wf, Bool.and_eq_true] at hw; exact hw.1.2
  | _ => rfl

/-! ### the headline lemma, for any counting function that agrees with the node test -/

theorem stepFrom_attr (top : Node) (pre : List Nat) (n : Node) (j : Nat) (a : Name × String)
    (hd : descend top pre = some n) (hw : n.wf = true) (ha : n.attrs[j]? = some a) :
    stepFrom top (.attr a.1) ⟨pre, .self⟩ = [⟨pre, .attr j⟩] := by
  simp only [stepFrom, hd]
  rw [idxWhere_key (fun b : Name × String => b.1) n.attrs 0 j a (wf_attrs n hw) ha]
  simp

theorem stepFrom_ns (top : Node) (pre : List Nat) (n : Node) (j : Nat) (a : String × String)
    (hd : descend top pre = some n) (hw : n.wf = true) (ha : n.nss[j]? = some a) :
    stepFrom top (.ns a.1) ⟨pre, .self⟩ = [⟨pre, .ns j⟩] := by
  simp only [stepFrom, hd]
  rw [idxWhere_key (fun b : String × String => b.1) n.nss 0 j a (wf_nss n hw) ha]
  simp

theorem evalSteps_pathOfWith (cnt : Node → Node → Bool)
    (top : Node) (r : Ref) (steps : List Step) (hw : top.wf = true) (hs : pathSafe cnt top r.path = true)
    (hp : pathOfWith cnt top r = some steps) : evalSteps top steps = [r] := by
  obtain ⟨path, sel⟩ := r
  unfold pathOfWith at hp
  simp only at hp
  cases hpt : pathToWith cnt top path with
  | none => simp [hpt] at hp
  | some st =>
    cases hd : descend top path with
    | none => simp [hpt, hd] at hp
    | some n =>
      simp only [hpt, hd] at hp
      have hwalk := evalFrom_pathToWith cnt top path top [] st rfl hs hpt
      simp only [List.nil_append] at hwalk
      have hwn := wf_descend path top n hw hd
      cases sel with
      | self =>
        simp only [Option.some.injEq] at hp
        subst hp
        exact hwalk
      | attr j =>
        cases ha : n.attrs[j]? with
        | none => simp [ha] at hp
        | some a =>
          simp only [ha, Option.map_some, Option.some.injEq] at hp
          subst hp
          unfold evalSteps
          rw [evalFrom_append, hwalk]
          simp only [evalFrom, List.flatMap_cons, List.flatMap_nil, List.append_nil]
          exact stepFrom_attr top path n j a hd hwn ha
      | ns j =>
        cases ha : n.nss[j]? with
        | none => simp [ha] at hp
        | some a =>
          simp only [ha, Option.map_some, Option.some.injEq] at hp
          subst hp
          unfold evalSteps
          rw [evalFrom_append, hwalk]
          simp only [evalFrom, List.flatMap_cons, List.flatMap_nil, List.append_nil]
          exact stepFrom_ns top path n j a hd hwn ha

theorem pathOfWith_isSome_iff (cnt : Node → Node → Bool) (top : Node) (r : Ref) :
    (pathOfWith cnt top r).isSome ↔ Valid top r := by
  obtain ⟨path, sel⟩ := r
  have h := pathToWith_isSome cnt path top
  unfold pathOfWith Valid
  simp only
  cases hd : descend top path with
  | none =>
    cases hpt : pathToWith cnt top path <;> simp
  | some n =>
    rw [hd] at h
    cases hpt : pathToWith cnt top path with
    | none => rw [hpt] at h; simp at h
    | some st =>
      cases sel with
      | self => simp
      | attr j =>
        simp only [Option.isSome_map]
        constructor
        · intro hs
          cases ha : n.attrs[j]? with
          | none => simp [ha] at hs
          | some a => exact lt_length_of_getElem? ha
        · intro hl; simp [List.getElem?_eq_getElem hl]
      | ns j =>
        simp only [Option.isSome_map]
        constructor
        · intro hs
          cases ha : n.nss[j]? with
          | none => simp [ha] at hs
          | some a => exact lt_length_of_getElem? ha
        · intro hl; simp [List.getElem?_eq_getElem hl]

theorem pathOf_isSome_iff (top : Node) (r : Ref) : (pathOf top r).isSome ↔ Valid top r :=
  pathOfWith_isSome_iff sameKind top r

/-! ### the generated path is the F&O path; Python shape of the recursion; fragments -/

theorem getChildPosition_eq (kids : List Node) (i : Nat) (c : Node) (hc : kids[i]? = some c) :
    getChildPosition kids i c = ((kids.take i).filter (stepShape c).test).length + 1 := by
  unfold getChildPosition getChildPositionWith
  rw [gcpLoop_eq sameKind c kids i 0 (lt_length_of_getElem? hc), take_succ_of_getElem? _ _ _ hc]
  have : sameKind c = (stepShape c).test := funext (sameKind_eq_test c)
  rw [this, List.filter_append]
  simp [test_self c]

theorem childStep_eq_withPos (c : Node) (p : Nat) : childStep c p = (stepShape c).withPos p := by
  cases c <;> rfl

theorem pathTo_eq_spec : ∀ (is : List Nat) (top : Node), pathTo top is = specPathTo top is := by
  intro is
  induction is with
  | nil => intro top; rfl
  | cons i is ih =>
    intro top
    simp only [pathTo, pathToWith, specPathTo]
    cases hc : top.kids[i]? with
    | none => rfl
    | some c =>
      have := ih c
      simp only [pathTo] at this
      simp only [this]
      have hs : childStep c (getChildPositionWith sameKind top.kids i c) = specStep top.kids i c := by
        have := getChildPosition_eq top.kids i c hc
        unfold getChildPosition at this
        rw [this, childStep_eq_withPos]; rfl
      rw [hs]
      cases specPathTo c is <;> rfl

theorem pathOf_eq_spec (top : Node) (r : Ref) : pathOf top r = specPath top r := by
  have := pathTo_eq_spec r.path top
  simp only [pathTo] at this
  simp only [pathOf, pathOfWith, specPath, this]
  cases specPathTo top r.path <;> cases descend top r.path <;> rfl

/-- the shape of the Python property: `f"{self.parent.path}/{step}"` -/
theorem pathTo_snoc : ∀ (is : List Nat) (top n c : Node) (i : Nat) (st : List Step),
    descend top is = some n → n.kids[i]? = some c → pathTo top is = some st →
    pathTo top (is ++ [i]) = some (st ++ [childStep c (getChildPosition n.kids i c)]) := by
  intro is
  induction is with
  | nil =>
    intro top n c i st hd hc hp
    simp only [descend, Option.some.injEq] at hd
    subst hd
    simp only [pathTo, pathToWith, Option.some.injEq] at hp
    subst hp
    simp [pathTo, pathToWith, hc, getChildPosition]
  | cons j js ih =>
    intro top n c i st hd hc hp
    simp only [descend] at hd
    simp only [pathTo, pathToWith] at hp
    cases hj : top.kids[j]? with
    | none => simp [hj] at hd
    | some d =>
      simp only [hj] at hd hp
      cases hr : pathToWith sameKind d js with
      | none => simp [hr] at hp
      | some rest =>
        simp only [hr, Option.some.injEq] at hp
        subst hp
        have := ih d n c i rest hd hc hr
        simp only [pathTo] at this
        simp [pathTo, pathToWith, hj, this]

theorem getChildPosition_single (e : Node) : getChildPosition [e] 0 e = 1 := by
  rw [getChildPosition_eq [e] 0 e rfl]; rfl

/-- `fn:path` of a tree rooted at a parent-less element drops the step of the root element
(`item.path[len(root_node.path):]`): the absolute path in the dummy document is the root
element's own step followed by the relative path. -/
theorem pathOf_dummy_doc (e : Node) (is : List Nat) (sel : Sel) :
    pathOf (docNode [e]) ⟨0 :: is, sel⟩ = (pathOf e ⟨is, sel⟩).map (childStep e 1 :: ·) := by
  simp only [pathOf, pathOfWith, pathToWith, descend, docNode, Node.kids, List.getElem?_cons_zero]
  have h1 : getChildPositionWith sameKind [e] 0 e = 1 := getChildPosition_single e
  rw [h1]
  cases pathToWith sameKind e is with
  | none => rfl
  | some st =>
    cases descend e is with
    | none => rfl
    | some n =>
      cases sel with
      | self => rfl
      | attr j => simp only; cases n.attrs[j]? <;> rfl
      | ns j => simp only; cases n.nss[j]? <;> rfl

/-- for the node itself (no attribute / namespace selector) no well-formedness is needed -/
theorem evalSteps_pathOfWith_self (cnt : Node → Node → Bool) (top : Node) (is : List Nat) (steps : List Step)
    (hs : pathSafe cnt top is = true) (hp : pathOfWith cnt top ⟨is, .self⟩ = some steps) :
    evalSteps top steps = [⟨is, .self⟩] := by
  unfold pathOfWith at hp
  simp only at hp
  cases hpt : pathToWith cnt top is with
  | none => simp [hpt] at hp
  | some st =>
    cases hd : descend top is with
    | none => simp [hpt, hd] at hp
    | some n =>
      simp only [hpt, hd, Option.some.injEq] at hp
      subst hp
      have hwalk := evalFrom_pathToWith cnt top is top [] st rfl hs hpt
      simpa [evalSteps] using hwalk

/-! ### replacing the dummy `<document>` element by a document node -/

/-- below the root, a path depends on the root only through its `children` list -/
theorem pathOfWith_kids (cnt : Node → Node → Bool) (top top' : Node) (h : top.kids = top'.kids)
    (i : Nat) (is : List Nat) (sel : Sel) :
    pathOfWith cnt top ⟨i :: is, sel⟩ = pathOfWith cnt top' ⟨i :: is, sel⟩ := by
  simp only [pathOfWith, pathToWith, descend, h]

theorem replaceDummy_kids (w : Node) : (replaceDummy w).kids = w.kids := rfl

theorem replaceDummy_wf (w : Node) (h : w.wf = true) : (replaceDummy w).wf = true := by
  cases w with
  | elem nm nss attrs kids =>
    simp only [Node.wf, Bool.and_eq_true] at h
    simp [replaceDummy, docNode, Node.wf, Node.kids, nodupB, h.2]
  | text => simp [replaceDummy, docNode, Node.wf, Node.kids, nodupB, wfList]
  | comment => simp [replaceDummy, docNode, Node.wf, Node.kids, nodupB, wfList]
  | pi t => simp [replaceDummy, docNode, Node.wf, Node.kids, nodupB, wfList]

/-! ### lengths: every child-axis step makes the reference one index longer -/

def Step.isChild : Step → Bool
  | .attr _ | .ns _ => false
  | _ => true

def nChild (steps : List Step) : Nat := (steps.filter Step.isChild).length

theorem stepFrom_len (top : Node) (s : Step) (c x : Ref) (hx : x ∈ stepFrom top s c) :
    x.path.length = c.path.length + (if s.isChild then 1 else 0) := by
  unfold stepFrom at hx
  cases hs : c.sel <;> simp only [hs] at hx
  · cases hd : descend top c.path with
    | none => simp [hd] at hx
    | some n =>
      simp only [hd] at hx
      cases s <;> simp only [List.mem_map] at hx <;> obtain ⟨i, _, rfl⟩ := hx <;> simp [Step.isChild]
  all_goals simp at hx

theorem evalFrom_len (top : Node) : ∀ (steps : List Step) (ctx : List Ref) (x : Ref),
    x ∈ evalFrom top ctx steps → ∃ c ∈ ctx, x.path.length = c.path.length + nChild steps := by
  intro steps
  induction steps with
  | nil => intro ctx x hx; exact ⟨x, hx, by simp [nChild]⟩
  | cons s rest ih =>
    intro ctx x hx
    simp only [evalFrom] at hx
    obtain ⟨y, hy, hlen⟩ := ih _ x hx
    obtain ⟨c, hc, hyc⟩ := List.mem_flatMap.1 hy
    refine ⟨c, hc, ?_⟩
    rw [hlen, stepFrom_len top s c y hyc]
    simp only [nChild, List.filter_cons]
    cases s.isChild <;> simp <;> omega

theorem childStep_isChild (c : Node) (p : Nat) : (childStep c p).isChild = true := by
  cases c <;> rfl

theorem nChild_pathToWith (cnt : Node → Node → Bool) : ∀ (is : List Nat) (n : Node) (steps : List Step),
    pathToWith cnt n is = some steps → nChild steps = is.length ∧ steps.length = is.length := by
  intro is
  induction is with
  | nil => intro n steps h; simp only [pathToWith, Option.some.injEq] at h; subst h; simp [nChild]
  | cons i is ih =>
    intro n steps h
    simp only [pathToWith] at h
    cases hc : n.kids[i]? with
    | none => simp [hc] at h
    | some c =>
      simp only [hc] at h
      cases hr : pathToWith cnt c is with
      | none => simp [hr] at h
      | some rest =>
        simp only [hr, Option.some.injEq] at h
        subst h
        have := ih c rest hr
        simp only [nChild, List.filter_cons, childStep_isChild, if_true, List.length_cons] at this ⊢
        omega

theorem nChild_pathOfWith (cnt : Node → Node → Bool) (top : Node) (r : Ref) (steps : List Step)
    (h : pathOfWith cnt top r = some steps) : nChild steps = r.path.length := by
  obtain ⟨path, sel⟩ := r
  unfold pathOfWith at h
  simp only at h
  cases hpt : pathToWith cnt top path with
  | none => simp [hpt] at h
  | some st =>
    have hn := (nChild_pathToWith cnt path top st hpt).1
    cases hd : descend top path with
    | none => simp [hpt, hd] at h
    | some n =>
      simp only [hpt, hd] at h
      cases sel with
      | self => simp only [Option.some.injEq] at h; subst h; exact hn
      | attr j =>
        cases ha : n.attrs[j]? with
        | none => simp [ha] at h
        | some a =>
          simp only [ha, Option.map_some, Option.some.injEq] at h
          subst h
          simp only [nChild, List.filter_append, List.length_append] at hn ⊢
          simp [Step.isChild, hn]
      | ns j =>
        cases ha : n.nss[j]? with
        | none => simp [ha] at h
        | some a =>
          simp only [ha, Option.map_some, Option.some.injEq] at h
          subst h
          simp only [nChild, List.filter_append, List.length_append] at hn ⊢
          simp [Step.isChild, hn]

end EPV.NodePath

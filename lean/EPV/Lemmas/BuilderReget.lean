/-
C02: `get_node_tree` on an already built node tree, `XPathContext.get_root` and the node-comparison
walk relative to a context root (EPV/Model/BuilderIters.lean).
-/
import EPV.Lemmas.BuilderIters
namespace EPV.Builder

theorem nodeAt_root (tree : PNode) : nodeAt tree tree.pos = some tree := by
  cases tree <;> simp [nodeAt]

theorem nodeAt_pos : ∀ (tree : PNode) (p : Nat) (n : PNode), nodeAt tree p = some n → n.pos = p
  | .doc q kids, p, n, h => by
    unfold nodeAt at h
    split at h
    · rename_i hq; injection h with h; subst h; simpa using hq
    · exact nodeAtKids_pos kids p n h
  | .elem q name m a sv kids, p, n, h => by
    unfold nodeAt at h
    split at h
    · rename_i hq; injection h with h; subst h; simpa using hq
    · exact nodeAtKids_pos kids p n h
  | .text q s, p, n, h => by
    unfold nodeAt at h
    split at h
    · rename_i hq; injection h with h; subst h; simpa using hq
    · cases h
  | .comment q s, p, n, h => by
    unfold nodeAt at h
    split at h
    · rename_i hq; injection h with h; subst h; simpa using hq
    · cases h
  | .pi q t s, p, n, h => by
    unfold nodeAt at h
    split at h
    · rename_i hq; injection h with h; subst h; simpa using hq
    · cases h
where nodeAtKids_pos : ∀ (kids : List PNode) (p : Nat) (n : PNode), nodeAt.nodeAtKids kids p = some n → n.pos = p
  | [], p, n, h => by simp [nodeAt.nodeAtKids] at h
  | k :: ks, p, n, h => by
    unfold nodeAt.nodeAtKids at h
    split at h
    · rename_i r hr; injection h with h; subst h; exact nodeAt_pos k p _ hr
    · exact nodeAtKids_pos ks p n h

/-- `get_node_tree(node)` / `fragment=None` returns the very same node of the very same tree -/
theorem reget_none (tree : PNode) (sel : Nat) (n : PNode) (h : nodeAt tree sel = some n) :
    reget none tree sel = .ok ⟨tree, sel⟩ := by
  simp [reget, h]

/-- `fragment=False` on an element root: a dummy document one position before the root, the tree is
re-rooted at it -/
theorem reget_false_elem_root (p : Nat) (name : String) (m : NsMap) (a : Attrib) (sv : String) (kids : List PNode) :
    reget (some false) (.elem p name m a sv kids) p
      = .ok ⟨.doc (p - 1) [.elem p name m a sv kids], p - 1⟩ := by
  simp [reget, nodeAt, PNode.pos, PNode.isElem]

/-- … and asking again changes nothing (the document of the tree is returned) -/
theorem reget_false_idem (d : Nat) (kids : List PNode) :
    reget (some false) (.doc d kids) d = .ok ⟨.doc d kids, d⟩ := by
  simp [reget, nodeAt, PNode.pos, PNode.isElem]

/-- `fragment=False` on any element node of a tree that has a document: that document -/
theorem reget_false_in_doc (d : Nat) (kids : List PNode) (sel : Nat) (n : PNode)
    (h : nodeAt (.doc d kids) sel = some n) (he : n.isElem = true) :
    reget (some false) (.doc d kids) sel = .ok ⟨.doc d kids, d⟩ := by
  simp [reget, h, he]

/-- `fragment=True` on a document: its first element child, tree untouched -/
theorem reget_true_doc (d : Nat) (kids : List PNode) (r : PNode) (h : getroot kids = some r) :
    reget (some true) (.doc d kids) d = .ok ⟨.doc d kids, r.pos⟩ := by
  simp [reget, nodeAt, PNode.pos, h]

/-- `fragment=True` on a non-document node: the node itself -/
theorem reget_true_nondoc (tree : PNode) (sel : Nat) (n : PNode) (h : nodeAt tree sel = some n)
    (hd : n.isDoc = false) : reget (some true) tree sel = .ok ⟨tree, sel⟩ := by
  cases n <;> simp_all [reget, PNode.isDoc]

/-! ### context root -/

/-- with the tree root as context root `get_root` always answers the tree root -/
theorem ctxGetRoot_root (tree : PNode) (L : LazyState) (node : Nat) :
    ctxGetRoot tree (some tree.pos) L node = some tree.pos := by
  unfold ctxGetRoot
  simp only [nodeAt_root]
  split <;> rfl

/-! ### a subtree's listing is a sublist of the tree's listing -/

mutual
theorem iterNode_pos_par : ∀ (n : PNode) (par par' : Option Nat),
    (iterNode par n).map (·.pos) = (iterNode par' n).map (·.pos)
  | .doc p kids, par, par' => by simp [iterNode]
  | .elem p name m a sv kids, par, par' => by simp [iterNode]
  | .text p s, par, par' => by simp [iterNode]
  | .comment p s, par, par' => by simp [iterNode]
  | .pi p t s, par, par' => by simp [iterNode]
end

theorem iterKids_pos_par : ∀ (ks : List PNode) (par par' : Option Nat),
    (iterKids par ks).map (·.pos) = (iterKids par' ks).map (·.pos)
  | [], par, par' => by simp [iterKids]
  | k :: ks, par, par' => by
    simp only [iterKids, List.map_append]
    rw [iterNode_pos_par k par par', iterKids_pos_par ks par par']

theorem iterNode_pos_kids (n : PNode) (par q : Option Nat) :
    ((iterKids q n.kids).map (·.pos)).Sublist ((iterNode par n).map (·.pos)) := by
  cases n with
  | doc p kids =>
    simp only [PNode.kids, iterNode, List.map_cons]
    rw [iterKids_pos_par kids q (some p)]
    exact List.Sublist.cons _ (List.Sublist.refl _)
  | elem p name m a sv kids =>
    simp only [PNode.kids, iterNode, List.map_cons, List.map_append]
    rw [iterKids_pos_par kids q (some p)]
    exact List.Sublist.cons _ (List.sublist_append_right _ _)
  | text p s => simp [PNode.kids, iterKids]
  | comment p s => simp [PNode.kids, iterKids]
  | pi p t s => simp [PNode.kids, iterKids]

theorem nodeAt_eq (n : PNode) (p : Nat) :
    nodeAt n p = if n.pos == p then some n else nodeAt.nodeAtKids n.kids p := by
  cases n <;> simp [nodeAt, PNode.pos, PNode.kids, nodeAt.nodeAtKids]

mutual
theorem nodeAt_sublist : ∀ (tree : PNode) (cr : Nat) (sub : PNode), nodeAt tree cr = some sub →
    ((iterNode none sub).map (·.pos)).Sublist ((iterNode none tree).map (·.pos))
  | .doc p kids, cr, sub, h => by
    rw [nodeAt_eq] at h
    split at h
    · injection h with h; subst h; exact List.Sublist.refl _
    · exact (nodeAtKids_sublist kids cr sub h).trans (iterNode_pos_kids (.doc p kids) none none)
  | .elem p name m a sv kids, cr, sub, h => by
    rw [nodeAt_eq] at h
    split at h
    · injection h with h; subst h; exact List.Sublist.refl _
    · exact (nodeAtKids_sublist kids cr sub h).trans (iterNode_pos_kids (.elem p name m a sv kids) none none)
  | .text p s, cr, sub, h => by
    rw [nodeAt_eq] at h
    split at h
    · injection h with h; subst h; exact List.Sublist.refl _
    · simp [PNode.kids, nodeAt.nodeAtKids] at h
  | .comment p s, cr, sub, h => by
    rw [nodeAt_eq] at h
    split at h
    · injection h with h; subst h; exact List.Sublist.refl _
    · simp [PNode.kids, nodeAt.nodeAtKids] at h
  | .pi p t s, cr, sub, h => by
    rw [nodeAt_eq] at h
    split at h
    · injection h with h; subst h; exact List.Sublist.refl _
    · simp [PNode.kids, nodeAt.nodeAtKids] at h
theorem nodeAtKids_sublist : ∀ (ks : List PNode) (cr : Nat) (sub : PNode), nodeAt.nodeAtKids ks cr = some sub →
    ((iterNode none sub).map (·.pos)).Sublist ((iterKids none ks).map (·.pos))
  | [], cr, sub, h => by simp [nodeAt.nodeAtKids] at h
  | k :: ks, cr, sub, h => by
    unfold nodeAt.nodeAtKids at h
    simp only [iterKids, List.map_append]
    split at h
    · rename_i r hr; injection h with h; subst h
      exact (nodeAt_sublist k cr _ hr).trans (List.sublist_append_left _ _)
    · exact (nodeAtKids_sublist ks cr sub h).trans (List.sublist_append_right _ _)
end

end EPV.Builder

/- C09 helper lemmas, part 3: the translate table loop answers like "first occurrence in the map string". -/
import EPV.Model.Strings
namespace EPV.Strings
open EPV.FOStrings (Str Num Err)

/-- what the table will answer for `c` when the loop still has `rest` to process from index `k` -/
def restLookup (trans : Str) (c : Nat) : Nat → Str → Option (Option Nat)
  | _, [] => none
  | k, x :: xs => if x = c then some trans[k]? else restLookup trans c (k + 1) xs

theorem lookup_buildTable (trans : Str) (c : Nat) (k : Nat) (rest : Str) (table : List (Nat × Option Nat)) :
    (buildTable trans k rest table).lookup c =
      match table.lookup c with
      | some v => some v
      | none => restLookup trans c k rest := by
  induction rest generalizing k table with
  | nil => simp only [buildTable, restLookup]; cases table.lookup c <;> rfl
  | cons x xs ih =>
    simp only [buildTable, restLookup]
    rw [ih]
    by_cases hx : (table.lookup x).isSome = true
    · simp only [hx, if_true]
      cases hc : table.lookup c with
      | some v => rfl
      | none =>
        have : x ≠ c := by intro h; subst h; simp [hc] at hx
        simp [this]
    · simp only [hx, Bool.false_eq_true, if_false]
      rw [List.lookup_append]
      cases hc : table.lookup c with
      | some v => simp
      | none =>
        by_cases hxc : x = c
        · subst hxc; simp [List.lookup]
        · have : (c == x) = false := by simp; exact fun h => hxc h.symm
          simp [List.lookup, this, hxc]

theorem restLookup_eq_firstPos (trans : Str) (c : Nat) (k : Nat) (rest : Str) :
    restLookup trans c k rest = (FOStrings.firstPos c rest).map fun m => trans[k + m]? := by
  induction rest generalizing k with
  | nil => rfl
  | cons x xs ih =>
    simp only [restLookup, FOStrings.firstPos]
    by_cases hxc : x = c
    · simp [hxc]
    · simp only [hxc, if_false, ih, Option.map_map]
      congr 1
      funext m
      simp only [Function.comp]
      congr 1
      omega

theorem translate_eq_spec (arg map trans : Str) :
    translate arg map trans = FOStrings.translate arg map trans := by
  unfold translate pyTranslate FOStrings.translate
  congr 1
  funext c
  rw [lookup_buildTable, restLookup_eq_firstPos]
  simp only [List.lookup, FOStrings.translateChar]
  cases FOStrings.firstPos c map with
  | none => rfl
  | some m =>
    simp only [Option.map, Nat.zero_add]
    cases trans[m]? <;> rfl
end EPV.Strings

/-
C07 — XPath 1.0 parser (mode v1): the code's general comparison against XPath 1.0 §3.4
(EPV/Spec/FOCompare.lean `cmp1`), outside the F07-compat trigger.
-/
import EPV.Lemmas.CompareValue
set_option linter.unusedSimpArgs false
namespace EPV.Cmp
open EPV.CmpSpec EPV.CmpFind

/-- a loop over pairs whose comparison never raises is `List.any` -/
theorem anyPairs_total (f : Atom → Atom → R) (g : Atom → Atom → Bool) (ps : List (Atom × Atom))
    (h : ∀ p ∈ ps, f p.1 p.2 = .ok (g p.1 p.2)) :
    anyPairs f ps = .ok (ps.any fun p => g p.1 p.2) := by
  induction ps with
  | nil => rfl
  | cons p ps ih =>
    obtain ⟨a, b⟩ := p
    have h1 := h (a, b) (by simp)
    simp only at h1
    simp only [anyPairs, h1, List.any_cons]
    cases hg : g a b
    · simp [ih (fun q hq => h q (by simp [hq]))]
    · simp

theorem anyOpt_map_some (l : List Bool) : anyOpt (l.map some) = some (l.any id) := by
  unfold anyOpt
  have h1 : (l.map some).any (· == none) = false := by
    rw [List.any_eq_false]; intro x hx; obtain ⟨b, _, rfl⟩ := List.mem_map.mp hx; simp
  simp only [h1, Bool.false_eq_true, if_false]
  congr 1
  induction l with
  | nil => rfl
  | cons b l ih => cases b <;> simp_all

theorem allNodes_eq {L : List Item} {svs : List Str} (h : allNodes L = some svs) : L = svs.map .node := by
  induction L generalizing svs with
  | nil => simp [allNodes] at h; subst h; rfl
  | cons it L ih =>
    cases it with
    | atom a => simp [allNodes] at h
    | node s =>
      simp only [allNodes, Option.map_eq_some_iff] at h
      obtain ⟨t, ht, rfl⟩ := h
      simp [ih ht]

theorem allNodes_map (svs : List Str) : allNodes (svs.map .node) = some svs := by
  induction svs with
  | nil => rfl
  | cons s l ih => simp [allNodes, ih]

/-- the five shapes of an XPath 1.0 object as operand items -/
theorem obj1_cases {L : List Item} {a : Obj1} (h : obj1 L = some a) :
    (∃ svs, L = svs.map .node ∧ a = .nodeset svs) ∨ (∃ d, L = [.atom (.dbl d)] ∧ a = .number d) ∨
    (∃ v, L = [.atom (.int v)] ∧ a = .number (toD64 v)) ∨ (∃ s, L = [.atom (.str s)] ∧ a = .string s) ∨
    (∃ b, L = [.atom (.bool b)] ∧ a = .boolean b) := by
  unfold obj1 at h
  cases hn : allNodes L with
  | some svs =>
    simp only [hn] at h
    exact Or.inl ⟨svs, allNodes_eq hn, by cases h; rfl⟩
  | none =>
    simp only [hn] at h
    split at h <;> first
      | (cases h; simp)
      | skip
    all_goals simp at h

theorem any_product (l r : List Atom) (g : Atom × Atom → Bool) :
    (product l r).any g = l.any fun a => r.any fun b => g (a, b) := by
  induction l with
  | nil => rfl
  | cons a l ih =>
    have : product (a :: l) r = r.map (fun b => (a, b)) ++ product l r := by simp [product]
    rw [this, List.any_append, ih]
    simp [List.any_map, Function.comp_def]

theorem anyOpt_flatMap_some {α β} (l : List α) (r : List β) (g : α → β → Bool) :
    anyOpt (l.flatMap fun s => r.map fun t => some (g s t)) = some (l.any fun s => r.any (g s)) := by
  have : (l.flatMap fun s => r.map fun t => some (g s t)) = (l.flatMap fun s => r.map (g s)).map some := by
    simp [List.map_flatMap, Function.comp_def]
  rw [this, anyOpt_map_some]
  congr 1
  induction l with
  | nil => rfl
  | cons a l ih => simp [List.any_append, ih, List.any_map, Function.comp_def]

theorem singleBool?_strs (svs : List Str) : singleBool? (svs.map .str) = none := by
  cases svs with
  | nil => rfl
  | cons s t => cases t <;> rfl

theorem atomize_nodes (svs : List Str) : (svs.map Item.node).map (atomize .v1) = svs.map .str := by
  simp [List.map_map, Function.comp_def, atomize]

/-- the number a clean numeric string stands for, in Python's float() and in XPath 1.0 number() alike -/
def numOf (s : Str) : D := match lexNum s with | .lit q neg => toD64 q neg | _ => .nan

theorem clean_str {s : Str} (h1 : floatFails (.str s) = false) (h2 : num1Differs (.str s) = false) :
    pyFloat (.str s) = .ok (numOf s) ∧ number1 s = some (numOf s) := by
  unfold floatFails pyFloat strToDouble at h1
  unfold num1Differs at h2
  unfold pyFloat strToDouble number1 numOf
  cases hl : lexNum s <;> simp_all

/-- mapFloat over clean strings -/
theorem mapFloat_strs (svs : List Str)
    (h : ∀ s ∈ svs, floatFails (.str s) = false ∧ num1Differs (.str s) = false) :
    mapFloat (svs.map .str) = .ok (svs.map numOf) ∧ svs.map number1 = svs.map (fun s => some (numOf s)) := by
  induction svs with
  | nil => exact ⟨rfl, rfl⟩
  | cons s l ih =>
    have hs := h s (by simp)
    have ⟨c1, c2⟩ := clean_str hs.1 hs.2
    have ⟨i1, i2⟩ := ih (fun t ht => h t (by simp [ht]))
    constructor
    · simp [mapFloat, c1, i1]
    · simp [c2, i2]

/-- the number() of an atomized XPath 1.0 item (strings by §4.4, numbers themselves) -/
def num1A : Atom → Option D
  | .str s => number1 s
  | .dbl d => some d
  | .int v => some (toD64 v)
  | _ => none

/-- items an XPath 1.0 operand can atomize to (besides a boolean) -/
def V1Atom : Atom → Bool | .str _ => true | .dbl _ => true | .int _ => true | _ => false

theorem atom_clean {a : Atom} (hk : V1Atom a = true) (h1 : floatFails a = false) (h2 : num1Differs a = false) :
    ∃ d, pyFloat a = .ok d ∧ num1A a = some d := by
  cases a <;> simp [V1Atom] at hk
  case str s => exact ⟨numOf s, clean_str h1 h2⟩
  case dbl d => exact ⟨d, rfl, rfl⟩
  case int v =>
    rcases pyFloat_int_cases v with ⟨e, he⟩ | hok
    · simp [floatFails, he] at h1
    · exact ⟨toD64 v, hok, rfl⟩

theorem mapFloat_clean (l : List Atom) (h : ∀ a ∈ l, ∃ d, pyFloat a = .ok d ∧ num1A a = some d) :
    ∃ ds, mapFloat l = .ok ds ∧ l.map num1A = ds.map some := by
  induction l with
  | nil => exact ⟨[], rfl, rfl⟩
  | cons a l ih =>
    obtain ⟨d, hd1, hd2⟩ := h a (by simp)
    obtain ⟨ds, h1, h2⟩ := ih (fun b hb => h b (by simp [hb]))
    exact ⟨d :: ds, by simp [mapFloat, hd1, h1], by simp [hd2, h2]⟩

theorem cmpNum_some (op : Op) (x y : D) : cmpNum op (some x) (some y) = some (six numLt numEq op x y) := rfl

/-- ORDERING in 1.0 mode: all items clean → the code compares the very numbers XPath 1.0 §3.4 asks for -/
theorem compat_ord_agree (op : Op) (l r : List Atom) (ho : op.isOrd = true)
    (hl : ∀ a ∈ l, ∃ d, pyFloat a = .ok d ∧ num1A a = some d)
    (hr : ∀ a ∈ r, ∃ d, pyFloat a = .ok d ∧ num1A a = some d) :
    ∃ v, compatLoop .v1 op l r = .ok v ∧
      anyOpt (l.flatMap fun x => r.map fun y => cmpNum op (num1A x) (num1A y)) = some v := by
  obtain ⟨ds, hd1, hd2⟩ := mapFloat_clean l hl
  obtain ⟨es, he1, he2⟩ := mapFloat_clean r hr
  refine ⟨ds.any fun x => es.any fun y => six numLt numEq op x y, ?_, ?_⟩
  · simp only [compatLoop, compatLoopWith, ho, if_true, hd1, he1]
    rw [anyPairs_total _ (fun a b => match a, b with | .dbl x, .dbl y => six numLt numEq op x y | _, _ => false)]
    · rw [any_product]
      simp [List.any_map, Function.comp_def]
    · intro ⟨a, b⟩ hp
      obtain ⟨ha, hb⟩ := mem_product.mp hp
      obtain ⟨x, _, rfl⟩ := List.mem_map.mp ha
      obtain ⟨y, _, rfl⟩ := List.mem_map.mp hb
      simp [pyOp_dbl_dbl, liftPy]
  · have : (l.flatMap fun x => r.map fun y => cmpNum op (num1A x) (num1A y)) =
        ((l.map num1A).flatMap fun x => (r.map num1A).map fun y => cmpNum op x y) := by
      simp [List.flatMap_map, List.map_map, Function.comp_def]
    rw [this, hd2, he2]
    have : ((ds.map some).flatMap fun x => (es.map some).map fun y => cmpNum op x y) =
        (ds.flatMap fun x => es.map fun y => some (six numLt numEq op x y)) := by
      simp [List.flatMap_map, List.map_map, Function.comp_def, cmpNum_some]
    rw [this, anyOpt_flatMap_some]

/-- `=` / `!=` in 1.0 mode between string-valued items: code-point comparison of the strings -/
theorem compat_eq_strs (op : Op) (ss ts : List Str) (ho : op.isOrd = false) :
    compatLoop .v1 op (ss.map .str) (ts.map .str) =
      .ok (ss.any fun s => ts.any fun t => six strLtS strEqS op s t) := by
  simp only [compatLoop, compatLoopWith, ho, Bool.false_eq_true, if_false, if_true]
  rw [anyPairs_total _ (fun a b => match a, b with | .str s, .str t => six strLtS strEqS op s t | _, _ => false)]
  · rw [any_product]
    simp [List.any_map, Function.comp_def]
  · intro ⟨a, b⟩ hp
    obtain ⟨ha, hb⟩ := mem_product.mp hp
    obtain ⟨x, _, rfl⟩ := List.mem_map.mp ha
    obtain ⟨y, _, rfl⟩ := List.mem_map.mp hb
    simp [pyOp, pyBinop, subclassFirst, dunder, liftPy, sCmp, cmpBy_eq_six]
    rfl

theorem singleBool?_of_V1 (l : List Atom) (h : ∀ a ∈ l, V1Atom a = true) : singleBool? l = none := by
  match l with
  | [] => rfl
  | [a] => cases a <;> simp_all [V1Atom, singleBool?]
  | a :: _ :: _ => cases a <;> rfl

theorem flatMap_single {α β} (l : List α) (f : α → β) : (l.flatMap fun a => [f a]) = l.map f := by
  induction l with
  | nil => rfl
  | cons a l ih => simp [ih]

/-- 1.0 mode, neither operand a boolean: the evaluator is the loop (or False on an empty operand) -/
theorem generalCmp_v1_nb (op : Op) (L Rr : List Item)
    (hl : ∀ a ∈ L.map (atomize .v1), V1Atom a = true) (hr : ∀ a ∈ Rr.map (atomize .v1), V1Atom a = true) :
    generalCmp .v1 op L Rr =
      if (L.map (atomize .v1)).isEmpty || (Rr.map (atomize .v1)).isEmpty then .ok false
      else compatLoop .v1 op (L.map (atomize .v1)) (Rr.map (atomize .v1)) := by
  simp only [generalCmp, generalCmpWith, Mode.compat, if_true, singleBool?_of_V1 _ hl, singleBool?_of_V1 _ hr]
  by_cases h1 : (L.map (atomize .v1)).isEmpty = true
  · simp [h1]
  · by_cases h2 : (Rr.map (atomize .v1)).isEmpty = true
    · simp [h1, h2]
    · simp [h1, h2, compatLoop]

/-- the atomized operand of a non-boolean XPath 1.0 object -/
def objAtoms : Obj1 → List Atom
  | .nodeset svs => svs.map .str
  | .number d => [.dbl d]
  | .string s => [.str s]
  | .boolean b => [.bool b]

def isBoolObj : Obj1 → Bool | .boolean _ => true | _ => false

theorem isEqNe_of_ord {op : Op} (h : op.isOrd = true) : isEqNe op = false := by
  cases op <;> simp_all [Op.isOrd, isEqNe]

theorem anyOpt_single (x : Option Bool) : anyOpt [x] = x := by
  cases x with
  | none => rfl
  | some b => cases b <;> rfl

/-- XPath 1.0 §3.4, ordering operators, neither object a boolean: every item of both operands is
converted with number() and the numbers are compared pairwise -/
theorem cmp1_ord (op : Op) (a b : Obj1) (ho : op.isOrd = true) (ha : isBoolObj a = false) (hb : isBoolObj b = false) :
    cmp1 op a b = anyOpt ((objAtoms a).flatMap fun x => (objAtoms b).map fun y => cmpNum op (num1A x) (num1A y)) := by
  have he := isEqNe_of_ord ho
  cases a <;> cases b <;> simp [isBoolObj] at ha hb <;>
    simp [cmp1, he, objAtoms, num1A, num1, List.flatMap_map, Function.comp_def, anyOpt_single, flatMap_single]

/-- shape of the atomized operand of a non-boolean object: only strings, doubles, integers, with the
same number() values as the object's items -/
theorem obj1_atoms {L : List Item} {a : Obj1} (h : obj1 L = some a) (hb : isBoolObj a = false) :
    (∀ x ∈ L.map (atomize .v1), V1Atom x = true) ∧
    (L.map (atomize .v1)).map num1A = (objAtoms a).map num1A ∧
    ((L.map (atomize .v1)).isEmpty = (objAtoms a).isEmpty) := by
  rcases obj1_cases h with ⟨svs, rfl, rfl⟩ | ⟨d, rfl, rfl⟩ | ⟨i, rfl, rfl⟩ | ⟨s, rfl, rfl⟩ | ⟨x, rfl, rfl⟩
  · refine ⟨?_, by rw [atomize_nodes]; rfl, by rw [atomize_nodes]; rfl⟩
    intro x hx
    rw [atomize_nodes] at hx
    obtain ⟨s, _, rfl⟩ := List.mem_map.mp hx
    rfl
  · simp [atomize, V1Atom, objAtoms]
  · simp [atomize, V1Atom, objAtoms, num1A]
  · simp [atomize, V1Atom, objAtoms]
  · simp [isBoolObj] at hb

theorem flatMap_num_congr (op : Op) (l l' r r' : List Atom)
    (hl : l.map num1A = l'.map num1A) (hr : r.map num1A = r'.map num1A) :
    (l.flatMap fun x => r.map fun y => cmpNum op (num1A x) (num1A y)) =
    (l'.flatMap fun x => r'.map fun y => cmpNum op (num1A x) (num1A y)) := by
  have e : ∀ (p q : List Atom), (p.flatMap fun x => q.map fun y => cmpNum op (num1A x) (num1A y)) =
      ((p.map num1A).flatMap fun x => (q.map num1A).map fun y => cmpNum op x y) := by
    intro p q; simp [List.flatMap_map, List.map_map, Function.comp_def]
  rw [e, e, hl, hr]

/-- XPath 1.0, ordering operator, no boolean operand, every item clean -/
theorem compat_v1_ord (op : Op) (L Rr : List Item) (a b : Obj1) (v : Bool)
    (hL : obj1 L = some a) (hR : obj1 Rr = some b) (ha : isBoolObj a = false) (hb : isBoolObj b = false)
    (ho : op.isOrd = true) (hv : cmp1 op a b = some v)
    (hc : ∀ x ∈ L.map (atomize .v1) ++ Rr.map (atomize .v1), floatFails x = false ∧ num1Differs x = false) :
    generalCmp .v1 op L Rr = .ok v := by
  obtain ⟨hl1, hl2, hl3⟩ := obj1_atoms hL ha
  obtain ⟨hr1, hr2, hr3⟩ := obj1_atoms hR hb
  rw [generalCmp_v1_nb op L Rr hl1 hr1]
  rw [cmp1_ord op a b ho ha hb, ← flatMap_num_congr op _ _ _ _ hl2 hr2] at hv
  have hcl : ∀ x ∈ L.map (atomize .v1), ∃ d, pyFloat x = .ok d ∧ num1A x = some d := fun x hx =>
    atom_clean (hl1 x hx) (hc x (by simp [hx])).1 (hc x (by simp [hx])).2
  have hcr : ∀ x ∈ Rr.map (atomize .v1), ∃ d, pyFloat x = .ok d ∧ num1A x = some d := fun x hx =>
    atom_clean (hr1 x hx) (hc x (by simp [hx])).1 (hc x (by simp [hx])).2
  obtain ⟨w, hw1, hw2⟩ := compat_ord_agree op _ _ ho hcl hcr
  rw [hw2] at hv
  cases hv
  by_cases he : ((L.map (atomize .v1)).isEmpty || (Rr.map (atomize .v1)).isEmpty) = true
  · simp only [he, if_true]
    -- an empty operand: no pairs, the specification says false as well
    simp only [Bool.or_eq_true, List.isEmpty_iff] at he
    rcases he with he | he <;> simp [he, anyOpt] at hw2 <;> simp [← hw2]
  · simp only [he, if_false, Bool.false_eq_true]
    exact hw1

theorem pyOp_int_dbl (m : Mode) (op : Op) (v : Int) (y : D) :
    pyOp m op (.int v) (.dbl y) = .ok (six numLt numEq op (.fin v) y) := by
  simp [pyOp, pyBinop, subclassFirst, dunder, Atom.pyNum, numCmp, dCmp_eq_six]
theorem pyOp_dbl_int (m : Mode) (op : Op) (x : D) (v : Int) :
    pyOp m op (.dbl x) (.int v) = .ok (six numLt numEq op x (.fin v)) := by
  simp [pyOp, pyBinop, subclassFirst, dunder, Atom.pyNum, numCmp, dCmp_eq_six]

theorem exact_int {v : Int} (h : inexactDouble (.int v) = false) : toD64 (v : Rat) = .fin v := by
  simpa [inexactDouble, exactVal] using h

theorem isEqNe_of_not_ord {op : Op} (h : op.isOrd = false) : isEqNe op = true := by
  cases op <;> simp_all [Op.isOrd, isEqNe]

theorem any_false_of_nil_right {α} (l : List α) (g : α → Bool) (h : ∀ x, g x = false) : l.any g = false := by
  rw [List.any_eq_false]; intro x _; simp [h x]

/-- XPath 1.0, `=` / `!=`, no boolean operand: strings (node string values) are compared as strings,
two numbers as numbers; a string/node-set against a number is the deviating region (excluded by `hmix`
unless the node-set is empty) -/
theorem compat_v1_eq (op : Op) (L Rr : List Item) (a b : Obj1) (v : Bool)
    (hL : obj1 L = some a) (hR : obj1 Rr = some b) (ha : isBoolObj a = false) (hb : isBoolObj b = false)
    (ho : op.isOrd = false) (hv : cmp1 op a b = some v)
    (hmix : ∀ x ∈ L.map (atomize .v1), ∀ y ∈ Rr.map (atomize .v1), isNumeric x = isNumeric y)
    (hex : ∀ x ∈ L.map (atomize .v1) ++ Rr.map (atomize .v1), inexactDouble x = false) :
    generalCmp .v1 op L Rr = .ok v := by
  obtain ⟨hl1, -, -⟩ := obj1_atoms hL ha
  obtain ⟨hr1, -, -⟩ := obj1_atoms hR hb
  rw [generalCmp_v1_nb op L Rr hl1 hr1]
  have he := isEqNe_of_not_ord ho
  rcases obj1_cases hL with ⟨svs, rfl, rfl⟩ | ⟨d, rfl, rfl⟩ | ⟨i, rfl, rfl⟩ | ⟨s, rfl, rfl⟩ | ⟨x, rfl, rfl⟩ <;>
  rcases obj1_cases hR with ⟨tvs, rfl, rfl⟩ | ⟨e, rfl, rfl⟩ | ⟨j, rfl, rfl⟩ | ⟨t, rfl, rfl⟩ | ⟨y, rfl, rfl⟩ <;>
  simp [isBoolObj] at ha hb
  -- 1. node-set × node-set
  · rw [atomize_nodes, atomize_nodes, compat_eq_strs op svs tvs ho]
    simp only [cmp1, he, if_true, anyOpt_flatMap_some, Option.some.injEq] at hv
    subst hv
    cases svs <;> cases tvs <;> simp [any_false_of_nil_right]
  -- 2, 3. node-set × number: only the empty node-set is outside the deviating region
  · cases svs with
    | nil => simp [cmp1, he, anyOpt] at hv; subst hv; simp
    | cons s rest =>
      have := hmix (.str s) (by simp [atomize]) (.dbl e) (by simp [atomize])
      simp [isNumeric, numRank] at this
  · cases svs with
    | nil => simp [cmp1, he, anyOpt] at hv; subst hv; simp
    | cons s rest =>
      have := hmix (.str s) (by simp [atomize]) (.int j) (by simp [atomize])
      simp [isNumeric, numRank] at this
  -- 4. node-set × string
  · rw [atomize_nodes, show [Item.atom (Atom.str t)].map (atomize .v1) = [t].map Atom.str from rfl,
      compat_eq_strs op svs [t] ho]
    have e2 : (svs.map fun s => some (six strLtS strEqS op s t)) =
        (svs.flatMap fun s => [t].map fun t => some (six strLtS strEqS op s t)) := by
      simp [flatMap_single]
    simp only [cmp1, he, if_true, e2, anyOpt_flatMap_some, Option.some.injEq] at hv
    subst hv
    cases svs <;> simp
  -- 5. number × node-set
  · cases tvs with
    | nil => simp [cmp1, he, anyOpt] at hv; subst hv; simp
    | cons s rest =>
      have := hmix (.dbl d) (by simp [atomize]) (.str s) (by simp [atomize])
      simp [isNumeric, numRank] at this
  -- 6, 7. double × number
  · simp [cmp1, he, num1, cmpNum] at hv
    subst hv
    simp [atomize, compatLoop, compatLoopWith, ho, product, anyPairs, pyOp_dbl_dbl, liftPy]
    cases six numLt numEq op d e <;> rfl
  · have hx := exact_int (hex (.int j) (by simp [atomize]))
    simp [cmp1, he, num1, cmpNum, hx] at hv
    subst hv
    simp [atomize, compatLoop, compatLoopWith, ho, product, anyPairs, pyOp_dbl_int, liftPy]
    cases six numLt numEq op d (.fin j) <;> rfl
  -- 8. double × string
  · have := hmix (.dbl d) (by simp [atomize]) (.str t) (by simp [atomize])
    simp [isNumeric, numRank] at this
  -- 9. integer × node-set
  · cases tvs with
    | nil => simp [cmp1, he, anyOpt] at hv; subst hv; simp
    | cons s rest =>
      have := hmix (.int i) (by simp [atomize]) (.str s) (by simp [atomize])
      simp [isNumeric, numRank] at this
  -- 10, 11. integer × number
  · have hx := exact_int (hex (.int i) (by simp [atomize]))
    simp [cmp1, he, num1, cmpNum, hx] at hv
    subst hv
    simp [atomize, compatLoop, compatLoopWith, ho, product, anyPairs, pyOp_int_dbl, liftPy]
    cases six numLt numEq op (.fin i) e <;> rfl
  · have hx := exact_int (hex (.int i) (by simp [atomize]))
    have hy := exact_int (hex (.int j) (by simp [atomize]))
    simp [cmp1, he, num1, cmpNum, hx, hy] at hv
    subst hv
    simp [atomize, compatLoop, compatLoopWith, ho, product, anyPairs, pyOp_int_int, liftPy]
    cases six numLt numEq op (.fin i) (.fin j) <;> rfl
  -- 12. integer × string
  · have := hmix (.int i) (by simp [atomize]) (.str t) (by simp [atomize])
    simp [isNumeric, numRank] at this
  -- 13. string × node-set
  · rw [atomize_nodes, show [Item.atom (Atom.str s)].map (atomize .v1) = [s].map Atom.str from rfl,
      compat_eq_strs op [s] tvs ho]
    have e2 : (tvs.map fun t => some (six strLtS strEqS op s t)) =
        ([s].flatMap fun s => tvs.map fun t => some (six strLtS strEqS op s t)) := by simp
    simp only [cmp1, he, if_true, e2, anyOpt_flatMap_some, Option.some.injEq] at hv
    subst hv
    cases tvs <;> simp
  -- 14, 15. string × number
  · have := hmix (.str s) (by simp [atomize]) (.dbl e) (by simp [atomize])
    simp [isNumeric, numRank] at this
  · have := hmix (.str s) (by simp [atomize]) (.int j) (by simp [atomize])
    simp [isNumeric, numRank] at this
  -- 16. string × string
  · rw [show [Item.atom (Atom.str s)].map (atomize .v1) = [s].map Atom.str from rfl,
      show [Item.atom (Atom.str t)].map (atomize .v1) = [t].map Atom.str from rfl, compat_eq_strs op [s] [t] ho]
    simp [cmp1, he] at hv
    subst hv
    simp

def isNodesetObj : Obj1 → Bool | .nodeset _ => true | _ => false

theorem pyOp_bool_bool_eqne (m : Mode) (op : Op) (x y : Bool) (ho : op.isOrd = false) :
    liftPy (pyOp m op (.bool x) (.bool y)) = .ok (six (fun p q => !p && q) (fun p q => p == q) op x y) := by
  cases m <;> cases op <;> simp [Op.isOrd] at ho <;> cases x <;> cases y <;> decide +kernel

/-- XPath 1.0, `=` / `!=`, one operand a boolean and the other a single number / string / boolean:
the other operand is converted with boolean() -/
theorem compat_v1_bool (op : Op) (L Rr : List Item) (a b : Obj1) (v : Bool)
    (hL : obj1 L = some a) (hR : obj1 Rr = some b) (hab : isBoolObj a = true ∨ isBoolObj b = true)
    (hns : isNodesetObj a = false ∧ isNodesetObj b = false)
    (ho : op.isOrd = false) (hv : cmp1 op a b = some v)
    (hex : ∀ x ∈ L.map (atomize .v1) ++ Rr.map (atomize .v1), inexactDouble x = false) :
    generalCmp .v1 op L Rr = .ok v := by
  have he := isEqNe_of_not_ord ho
  rcases obj1_cases hL with ⟨svs, rfl, rfl⟩ | ⟨d, rfl, rfl⟩ | ⟨i, rfl, rfl⟩ | ⟨s, rfl, rfl⟩ | ⟨x, rfl, rfl⟩ <;>
  rcases obj1_cases hR with ⟨tvs, rfl, rfl⟩ | ⟨e, rfl, rfl⟩ | ⟨j, rfl, rfl⟩ | ⟨t, rfl, rfl⟩ | ⟨y, rfl, rfl⟩ <;>
  simp [isBoolObj, isNodesetObj] at hab hns
  all_goals
    simp [cmp1, he, bool1] at hv
    subst hv
    simp [generalCmp, generalCmpWith, Mode.compat, atomize, singleBool?, ebvList, ebvAtom, pyOp_bool_bool_eqne _ _ _ _ ho]
  · have hx := exact_int (hex (.int i) (by simp [atomize]))
    simp [hx, D.isNaN, D.isZero, D.rank, D.val]
  · have hx := exact_int (hex (.int j) (by simp [atomize]))
    simp [hx, D.isNaN, D.isZero, D.rank, D.val]

theorem singleBool_of_V1 (l : List Atom) (h : ∀ a ∈ l, V1Atom a = true) : singleBool l = false := by
  match l with
  | [] => rfl
  | [a] => cases a <;> simp_all [V1Atom, singleBool]
  | a :: _ :: _ => cases a <;> rfl

theorem bool_obj_atoms {L : List Item} {a : Obj1} (h : obj1 L = some a) (hb : isBoolObj a = true) :
    ∃ x, L = [.atom (.bool x)] ∧ a = .boolean x := by
  rcases obj1_cases h with ⟨svs, rfl, rfl⟩ | ⟨d, rfl, rfl⟩ | ⟨i, rfl, rfl⟩ | ⟨s, rfl, rfl⟩ | ⟨x, rfl, rfl⟩ <;>
    simp [isBoolObj] at hb
  exact ⟨x, rfl, rfl⟩

theorem nodeset_obj_items {L : List Item} {a : Obj1} (h : obj1 L = some a) (hn : isNodesetObj a = true) :
    (L.map (atomize .v1)).isEmpty = true ∨ L.any isNode = true := by
  rcases obj1_cases h with ⟨svs, rfl, rfl⟩ | ⟨d, rfl, rfl⟩ | ⟨i, rfl, rfl⟩ | ⟨s, rfl, rfl⟩ | ⟨x, rfl, rfl⟩ <;>
    simp [isNodesetObj] at hn
  cases svs with
  | nil => exact Or.inl rfl
  | cons s t => exact Or.inr (by simp [isNode])

theorem single_of_not_nodeset {L : List Item} {a : Obj1} (h : obj1 L = some a) (hn : isNodesetObj a = false) :
    (L.map (atomize .v1)).length = 1 := by
  rcases obj1_cases h with ⟨svs, rfl, rfl⟩ | ⟨d, rfl, rfl⟩ | ⟨i, rfl, rfl⟩ | ⟨s, rfl, rfl⟩ | ⟨x, rfl, rfl⟩ <;>
    simp [isNodesetObj] at hn <;> rfl

/-- XPath 1.0 PARSER vs XPath 1.0 §3.4.  For any two operands that are XPath 1.0 objects (a node-set
of any size, a number, a string, a boolean) and any of the six operators: outside the F07-compat
trigger the code returns exactly the boolean that §3.4 prescribes. -/
theorem compat_v1_conforms (op : Op) (L Rr : List Item) (a b : Obj1) (v : Bool)
    (hL : obj1 L = some a) (hR : obj1 Rr = some b) (hv : cmp1 op a b = some v)
    (ht : trigCompat .v1 op (L.map (atomize .v1)) (Rr.map (atomize .v1)) (L.any isNode) (Rr.any isNode) = false) :
    generalCmp .v1 op L Rr = .ok v := by
  simp only [trigCompat, Mode.compat, Bool.true_and, Bool.or_eq_false_iff, Bool.and_eq_false_iff, Bool.not_eq_false'] at ht
  obtain ⟨⟨⟨hex', hA⟩, hB⟩, hC⟩ := ht
  have hex : ∀ x ∈ L.map (atomize .v1) ++ Rr.map (atomize .v1), inexactDouble x = false := by
    intro x hx
    have := List.any_eq_false.mp hex' x hx
    simpa using this
  cases hba : isBoolObj a with
  | true =>
    obtain ⟨x, rfl, rfl⟩ := bool_obj_atoms hL hba
    have hA' := hA.resolve_left (by simp [singleBool, atomize])
    have hnb : isNodesetObj b = false := by
      cases hn : isNodesetObj b with
      | false => rfl
      | true =>
        rcases nodeset_obj_items hR hn with h | h
        · simp [h] at hA'
        · simp [h] at hA'
    have ho : op.isOrd = false := by simpa using hA'.2
    exact compat_v1_bool op _ _ _ _ v hL hR (Or.inl rfl) ⟨rfl, hnb⟩ ho hv hex
  | false =>
    obtain ⟨hl1, -, -⟩ := obj1_atoms hL hba
    have hsl := singleBool_of_V1 _ hl1
    cases hbb : isBoolObj b with
    | true =>
      obtain ⟨y, rfl, rfl⟩ := bool_obj_atoms hR hbb
      have hB' := hB.resolve_left (by rw [hsl]; simp [singleBool, atomize])
      have hna : isNodesetObj a = false := by
        cases hn : isNodesetObj a with
        | false => rfl
        | true =>
          rcases nodeset_obj_items hL hn with h | h
          · simp [h] at hB'
          · simp [h] at hB'
      have ho : op.isOrd = false := by simpa using hB'.2
      exact compat_v1_bool op _ _ _ _ v hL hR (Or.inr rfl) ⟨hna, rfl⟩ ho hv hex
    | false =>
      obtain ⟨hr1, -, -⟩ := obj1_atoms hR hbb
      have hsr := singleBool_of_V1 _ hr1
      have hC' := hC.resolve_left (by simp [hsl, hsr])
      cases ho : op.isOrd with
      | true =>
        simp only [ho, if_true] at hC'
        refine compat_v1_ord op L Rr a b v hL hR hba hbb ho hv ?_
        intro x hx
        have := List.any_eq_false.mp hC' x hx
        simpa [Bool.or_eq_false_iff] using this
      | false =>
        simp only [ho, Bool.false_eq_true, if_false] at hC'
        refine compat_v1_eq op L Rr a b v hL hR hba hbb ho hv ?_ hex
        intro x hx y hy
        have := List.any_eq_false.mp hC' (x, y) (mem_product.mpr ⟨hx, hy⟩)
        cases h1 : isNumeric x <;> cases h2 : isNumeric y <;> simp_all

end EPV.Cmp

/-
C15 — the key relations: `op:same-key` (spec) is an equivalence; the two relations of the code
(`dictEq`, `scanEq`) are equivalences too and, since the fixes of fix-c15-3, coincide with
`op:same-key` on every pair of keys (`key_identity_all`).
-/
import EPV.Spec.FOMaps
namespace EPV.MapArray
open Spec

/-- canonical representative of a key under `op:same-key` -/
inductive SpecRep where
  | num (v : Rat) | nan | inf (neg : Bool) | text (s : List Nat) | bool (b : Bool)
  | date (utc : Int) (aware : Bool)
  | opq (tag : Nat) (rep : List Int)
  deriving DecidableEq

def Key.specRep : Key → SpecRep
  | .int v => .num v
  | .dec v => .num v
  | .dbl v _ => .num v
  | .bool b => .bool b
  | .dnan => .nan
  | .dinf n => .inf n
  | .str s => .text s
  | .uri s => .text s
  | .unt s => .text s
  | .date _ u tz => .date u tz.isSome
  | .opq t r => .opq t r

theorem sameKey_iff_rep (a b : Key) : sameKey a b = true ↔ a.specRep = b.specRep := by
  cases a <;> cases b <;> simp [sameKey, Key.specRep, and_comm]

theorem sameKey_eq_decide (a b : Key) : sameKey a b = decide (a.specRep = b.specRep) := by
  rw [Bool.eq_iff_iff, sameKey_iff_rep]; simp

theorem sameKey_refl (a : Key) : sameKey a a = true := (sameKey_iff_rep a a).2 rfl

theorem sameKey_symm (a b : Key) : sameKey a b = sameKey b a := by
  rw [sameKey_eq_decide, sameKey_eq_decide]; exact decide_eq_decide.2 eq_comm

theorem sameKey_trans {a b c : Key} (h1 : sameKey a b = true) (h2 : sameKey b c = true) :
    sameKey a c = true :=
  (sameKey_iff_rep a c).2 (((sameKey_iff_rep a b).1 h1).trans ((sameKey_iff_rep b c).1 h2))

/-- `sameKey a ·` and `sameKey b ·` are the same test when `a`, `b` are the same key -/
theorem sameKey_congr_left {a b : Key} (h : sameKey a b = true) (c : Key) : sameKey a c = sameKey b c := by
  rw [sameKey_eq_decide, sameKey_eq_decide, (sameKey_iff_rep a b).1 h]

theorem sameKey_congr_right {a b : Key} (h : sameKey a b = true) (c : Key) : sameKey c a = sameKey c b := by
  rw [sameKey_symm c a, sameKey_symm c b]; exact sameKey_congr_left h c

/-! the code's relations -/

theorem dictEq_iff (a b : Key) : dictEq a b = true ↔ a.dictRep = b.dictRep := by simp [dictEq]
theorem scanEq_iff (a b : Key) : scanEq a b = true ↔ a.eqRep = b.eqRep := by simp [scanEq]

theorem dictEq_refl (a : Key) : dictEq a a = true := by simp [dictEq]
theorem dictEq_symm (a b : Key) : dictEq a b = dictEq b a := by
  unfold dictEq; exact decide_eq_decide.2 eq_comm
theorem dictEq_trans {a b c : Key} (h1 : dictEq a b = true) (h2 : dictEq b c = true) : dictEq a c = true := by
  simp only [dictEq_iff] at *; exact h1.trans h2
theorem dictEq_congr_left {a b : Key} (h : dictEq a b = true) (c : Key) : dictEq a c = dictEq b c := by
  unfold dictEq; rw [(dictEq_iff a b).1 h]

theorem scanEq_refl (a : Key) : scanEq a a = true := by simp [scanEq]
theorem scanEq_symm (a b : Key) : scanEq a b = scanEq b a := by
  unfold scanEq; exact decide_eq_decide.2 eq_comm
theorem scanEq_trans {a b c : Key} (h1 : scanEq a b = true) (h2 : scanEq b c = true) : scanEq a c = true := by
  simp only [scanEq_iff] at *; exact h1.trans h2

/-- two keys in the same dict slot are `==` -/
theorem scanEq_of_dictEq {a b : Key} (h : dictEq a b = true) : scanEq a b = true := by
  rw [dictEq_iff] at h; rw [scanEq_iff]
  cases a <;> cases b <;> simp_all [Key.dictRep, Key.eqRep]

/-- `compare.same_key` is the `==` scan relation on this key domain -/
theorem sameKeyPy_eq_scanEq (a b : Key) : sameKeyPy a b = scanEq a b := by
  cases a <;> cases b <;> simp [sameKeyPy, scanEq, Key.eqRep, Bool.beq_eq_decide_eq] <;>
    first | exact eq_comm | exact Bool.and_comm _ _

/-- the code's relations and `op:same-key` disagree on this pair of keys (kept as a definition so
that the driver can still report it; `keyClash_false` shows it never holds) -/
def keyClash (a b : Key) : Bool :=
  dictEq a b != sameKey a b || scanEq a b != sameKey a b

/-- **key identity**: for every pair of keys the dict relation and the scan relation of the code
are `op:same-key` -/
theorem key_identity_all (a b : Key) : dictEq a b = sameKey a b ∧ scanEq a b = sameKey a b := by
  cases a <;> cases b <;>
    simp [dictEq, scanEq, sameKey, Key.dictRep, Key.eqRep, Bool.beq_eq_decide_eq] <;>
    exact Bool.and_comm _ _

theorem keyClash_false (a b : Key) : keyClash a b = false := by
  simp [keyClash, (key_identity_all a b).1, (key_identity_all a b).2]

theorem dictEq_eq_sameKey_of_not_clash {a b : Key} (h : keyClash a b = false) : dictEq a b = sameKey a b := by
  simp [keyClash] at h; exact h.1
theorem scanEq_eq_sameKey_of_not_clash {a b : Key} (h : keyClash a b = false) : scanEq a b = sameKey a b := by
  simp [keyClash] at h; exact h.2

/-- no clash among a list of keys (decidable; computed by the driver for every step) -/
def noClash (ks : List Key) : Bool := ks.all fun a => ks.all fun b => !keyClash a b

theorem noClash_true (ks : List Key) : noClash ks = true := by
  simp [noClash, keyClash_false]

theorem noClash_spec {ks : List Key} (h : noClash ks = true) {a b : Key} (ha : a ∈ ks) (hb : b ∈ ks) :
    dictEq a b = sameKey a b ∧ scanEq a b = sameKey a b := by
  simp only [noClash, List.all_eq_true] at h
  have := h a ha b hb
  simp only [Bool.not_eq_eq_eq_not, Bool.not_true] at this
  exact ⟨dictEq_eq_sameKey_of_not_clash this, scanEq_eq_sameKey_of_not_clash this⟩

end EPV.MapArray

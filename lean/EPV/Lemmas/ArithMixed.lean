/-
C06: operands of mixed classes whose promoted type is xs:double (xs:double with xs:integer, xs:decimal,
xs:float): promotion (conversions are the `R`-rounded values) + operation against F&O.
-/
import EPV.Lemmas.ArithOps
open EPV.FOArith
namespace EPV.Arith

/-- the operand as the xs:double it is promoted to -/
def asD (R : Rounding) : Num → Dbl
  | .int n => ofInt R n
  | .dec n s => ofDec R n s
  | .dbl d => d
  | .flt d => d

theorem spec_promote_double (R : Rounding) (op : BinOp) (a b : Num) (h : isDbl a = true ∨ isDbl b = true) :
    specBin R op (absNum a) (absNum b) = specBin R op (.double (asD R a)) (.double (asD R b)) := by
  cases a <;> cases b <;> simp [isDbl] at h <;>
    simp [specBin, absNum, XVal.toRat?, promote, XVal.ty, Ty.rank, XVal.toDbl, asD, ofInt, ofDec]


/-- no integer operand overflows binary64 (Python raises OverflowError there; not generated) -/
def intsFinite (R : Rounding) (a b : Num) : Prop :=
  (∀ n, a = .int n → Dbl.isInf (ofInt R n) = false) ∧ (∀ n, b = .int n → Dbl.isInf (ofInt R n) = false)

theorem intOvf_of_finite (R : Rounding) (a b : Num) (hi : intsFinite R a b) :
    intOvf R a = false ∧ intOvf R b = false := by
  constructor
  · cases a <;> simp [intOvf]; exact hi.1 _ rfl
  · cases b <;> simp [intOvf]; exact hi.2 _ rfl

theorem addsubmul_promote_double (R : Rounding) (a b : Num) (h : isDbl a = true ∨ isDbl b = true)
    (hi : intsFinite R a b) :
    opAdd R a b = opAdd R (.dbl (asD R a)) (.dbl (asD R b)) ∧
    opSub R a b = opSub R (.dbl (asD R a)) (.dbl (asD R b)) ∧
    opMul R a b = opMul R (.dbl (asD R a)) (.dbl (asD R b)) := by
  obtain ⟨hA, hB⟩ := intOvf_of_finite R a b hi
  cases a <;> cases b <;> simp [isDbl] at h <;> simp [intOvf] at hA hB <;>
    simp [opAdd, opSub, opMul, coerce, mixedOverflow, intOvf, isFloat, promF, isFlt, isDbl, asDec, liftF, asD, hA, hB]

theorem isZero_ofInt (R : Rounding) (hF : Faithful R) (n : Int) :
    Dbl.isZero (ofInt R n) = (n == 0) := by
  unfold ofInt rnd
  by_cases hn : n = 0
  · simp [hn, Dbl.isZero]
  · have : ((n : Rat) = 0) = False := by simp [hn]
    have hnz := hF.intNonzero n hn
    simp only [this, if_false]
    cases hr : R.r64 n with
    | zero s => exact absurd hr (hnz s)
    | _ => simp [Dbl.isZero, hn]

theorem signOf_dbl_of (d : Dbl) (q : Rat) (hq : q ≠ 0) (h1 : d ≠ .nan) (h2 : d.isNeg = decide (q < 0)) (h3 : d.wf)
    (h4 : Dbl.isZero d = false) :
    signOf (.dbl d) = some (if q > 0 then 1 else -1) := by
  cases d with
  | nan => exact absurd rfl h1
  | zero n => simp [Dbl.isZero] at h4
  | inf n =>
    simp [Dbl.isNeg] at h2
    by_cases hn : q < 0
    · have : ¬ q > 0 := by linarith
      simp [signOf, h2, hn, this]
    · have : q > 0 := lt_of_le_of_ne (not_lt.1 hn) (Ne.symm hq)
      simp [signOf, h2, hn, this]
  | fin y =>
    simp [Dbl.isNeg] at h2
    have hy : y ≠ 0 := h3
    by_cases hn : q < 0
    · have h5 : ¬ q > 0 := by linarith
      have : y < 0 := by simpa [hn] using h2
      have h6 : ¬ y > 0 := by linarith
      simp [signOf, h5, h6]
    · have h5 : q > 0 := lt_of_le_of_ne (not_lt.1 hn) (Ne.symm hq)
      have : ¬ y < 0 := by simpa [hn] using h2
      have h6 : y > 0 := lt_of_le_of_ne (not_lt.1 this) (Ne.symm hy)
      simp [signOf, h5, h6]

theorem signOf_ofInt (R : Rounding) (hF : Faithful R) (n : Int) :
    signOf (.dbl (ofInt R n)) = signOf (.int n) := by
  by_cases hn : n = 0
  · subst hn; simp [ofInt, rnd, signOf]
  · have hq : (n : Rat) ≠ 0 := by exact_mod_cast hn
    obtain ⟨h1, h2, h3⟩ := hF.sign n hq
    have h4 : Dbl.isZero (R.r64 n) = false := by
      have hnz := hF.intNonzero n hn
      cases hr : R.r64 n with
      | zero s => exact absurd hr (hnz s)
      | _ => rfl
    have : ofInt R n = R.r64 n := by simp [ofInt, rnd, hq]
    rw [this, signOf_dbl_of _ _ hq h1 h2 h3 h4]
    simp only [signOf, hn, if_false]
    by_cases hp : n > 0
    · have : (n : Rat) > 0 := by exact_mod_cast hp
      simp [hp, this]
    · have : ¬ (n : Rat) > 0 := by intro h; exact hp (by exact_mod_cast h)
      simp [hp, this]


theorem zeroIsNeg_flt (d : Dbl) : zeroIsNeg (.flt d) = zeroIsNeg (.dbl d) := by cases d <;> rfl
theorem signOf_flt (d : Dbl) : signOf (.flt d) = signOf (.dbl d) := by cases d <;> rfl
theorem zeroIsNeg_ofInt_zero (R : Rounding) : zeroIsNeg (.dbl (ofInt R 0)) = false := by
  simp [ofInt, rnd, zeroIsNeg]

theorem div_promote_double (R : Rounding) (hF : Faithful R) (v : Ver) (a b : Num)
    (h : isDbl a = true ∨ isDbl b = true) (hi : intsFinite R a b) :
    opDiv R v a b = opDiv R v (.dbl (asD R a)) (.dbl (asD R b)) := by
  have hz := isZero_ofInt R hF
  have hs := signOf_ofInt R hF
  obtain ⟨hA, hB⟩ := intOvf_of_finite R a b hi
  cases a <;> cases b <;> simp [isDbl] at h <;> simp [intOvf] at hA hB <;>
    simp [opDiv, coerce, mixedOverflow, intOvf, isFloat, promF, isFlt, isDbl, asDec, liftF, asD, isZero, isFloat, hz, hs, zeroIsNeg_flt,
      signOf_flt, hA, hB]
  · rename_i d n
    by_cases hn : n = 0
    · subst hn; simp [zeroIsNeg, ofInt, rnd]
    · simp [hn]


theorem isNan_ofInt (R : Rounding) (hF : Faithful R) (n : Int) : Dbl.isNan (ofInt R n) = false := by
  unfold ofInt rnd
  by_cases hn : n = 0
  · simp [hn, Dbl.isNan]
  · have hq : (n : Rat) ≠ 0 := by exact_mod_cast hn
    have := (hF.sign n hq).1
    simp only [hq, if_false]
    cases h : R.r64 n <;> simp_all [Dbl.isNan]

theorem idiv_promote_double (R : Rounding) (hF : Faithful R) (a b : Num)
    (h : isDbl a = true ∨ isDbl b = true) (hi : intsFinite R a b) :
    opIdiv R a b = opIdiv R (.dbl (asD R a)) (.dbl (asD R b)) := by
  have hz := isZero_ofInt R hF
  have hn := isNan_ofInt R hF
  obtain ⟨hA, hB⟩ := intOvf_of_finite R a b hi
  cases a <;> cases b <;> simp [isDbl] at h <;> simp [intOvf] at hA hB <;>
    simp [opIdiv, coerce, mixedOverflow, intOvf, isFloat, promF, isFlt, isDbl, asDec, asD, isZero, numIsInf, numIsNan, hz, hn, hA, hB] <;>
    (try rfl)


theorem mod_promote_double (R : Rounding) (hF : Faithful R) (v : Ver) (a b : Num)
    (h : isDbl a = true ∨ isDbl b = true) (hi : intsFinite R a b) :
    opMod R v a b = opMod R v (.dbl (asD R a)) (.dbl (asD R b)) := by
  have hz := isZero_ofInt R hF
  have hn := isNan_ofInt R hF
  obtain ⟨hA, hB⟩ := intOvf_of_finite R a b hi
  cases a <;> cases b <;> simp [isDbl] at h <;> simp [intOvf] at hA hB <;>
    simp [opMod, coerce, mixedOverflow, intOvf, isFloat, promF, isFlt, isDbl, asDblOf, asDec, asD, isZero, isFloat,
      numIsInf, numIsNan, liftF, hz, hn, hA, hB] <;> (try rfl)

/-- the float payload of an operand is well-formed -/
def numWf : Num → Prop
  | .dbl d => d.wf
  | .flt d => d.wf
  | _ => True

theorem rnd_wf (R : Rounding) (hF : Faithful R) (q : Rat) : (rnd R.r64 q).wf := by
  unfold rnd
  by_cases hq : q = 0
  · simp [hq, Dbl.wf]
  · simp only [hq, if_false]; exact (hF.sign q hq).2.2

theorem asD_wf (R : Rounding) (hF : Faithful R) (a : Num) (h : numWf a) : (asD R a).wf := by
  cases a with
  | int n => exact rnd_wf R hF _
  | dec n s => exact rnd_wf R hF _
  | dbl d => exact h
  | flt d => exact h

theorem addsubmul_dbl_eq_spec (R : Rounding) (x y : Dbl) :
    (opAdd R (.dbl x) (.dbl y)).map absNum = specBin R .add (.double x) (.double y) ∧
    (opSub R (.dbl x) (.dbl y)).map absNum = specBin R .sub (.double x) (.double y) ∧
    (opMul R (.dbl x) (.dbl y)).map absNum = specBin R .mul (.double x) (.double y) := by
  refine ⟨?_, ?_, ?_⟩ <;>
    simp [opAdd, opSub, opMul, coerce, mixedOverflow, intOvf, isFloat, promF, isFlt, isDbl, asDec, liftF, fadd, fsub, fmul, specBin, promote, XVal.ty, Ty.rank,
      XVal.toRat?, floatBin, XVal.toDbl, mkFloating, absNum, Except.map, pure, Except.pure]

/-- every operator on operands whose promoted type is xs:double — one operand is an
xs:double, the other an xs:integer, xs:decimal, xs:float or xs:double — returns what F&O specifies for the
promoted operands: integer→double and decimal→double conversions are the `R`-rounded values, then the
IEEE/F&O dispatch. -/
theorem double_ops_eq_spec (R : Rounding) (hF : Faithful R) (v : Ver) (op : BinOp) (a b : Num)
    (h : isDbl a = true ∨ isDbl b = true) (hi : intsFinite R a b) (hwa : numWf a) (hwb : numWf b)
    : (modelBin R v op a b).map absNum = specBin R op (absNum a) (absNum b) := by
  rw [spec_promote_double R op a b h]
  have hw := asD_wf R hF a hwa
  cases op with
  | add => simp only [modelBin]; rw [(addsubmul_promote_double R a b h hi).1]; exact (addsubmul_dbl_eq_spec R _ _).1
  | sub => simp only [modelBin]; rw [(addsubmul_promote_double R a b h hi).2.1]; exact (addsubmul_dbl_eq_spec R _ _).2.1
  | mul => simp only [modelBin]; rw [(addsubmul_promote_double R a b h hi).2.2]; exact (addsubmul_dbl_eq_spec R _ _).2.2
  | div => simp only [modelBin]; rw [div_promote_double R hF v a b h hi]; exact div_dbl_eq_spec R v _ _ hw
  | idiv => simp only [modelBin]; rw [idiv_promote_double R hF a b h hi]; exact idiv_dbl_eq_spec R _ _
  | mod =>
    simp only [modelBin]; rw [mod_promote_double R hF v a b h hi]
    exact mod_dbl_eq_spec R v _ _

end EPV.Arith

/-
C02: the whole-call theorem — `iter (build i)` is the spec's item list placed at the root position.
-/
import EPV.Lemmas.BuilderSpec
namespace EPV.Builder
open EPV.XDM

/-- all namespace maps of the input are dicts -/
def inputWF (i : Input) : Bool :=
  match i.top with
  | none => true
  | some t => treeWF i.cfg t

theorem one_spec (c : Cfg) (b : Bool) (e : XTree) (hwf : treeWF c e = true) :
    (iter (buildOne c 1 e).1).map (blankIf b) = ((itemsOne c none 0 e).map (place 1)).map (blankIf b) := by
  have := (buildOne_spec c b 1 e 1 0 none rfl hwf).1
  simpa [iter] using this

theorem etDoc_spec (c : Cfg) (b : Bool) (d : Nat) (e : XTree)
    (he : e.isElem = true) (hwf : treeWF c e = true) :
    (iter (.doc d [(buildOne c (d + 1) e).1])).map (blankIf b)
      = ((documentItems c [] (some e) []).map (place d)).map (blankIf b) := by
  have := docNode_spec c b d [] e [] he hwf
  simpa [buildSiblings] using this

theorem emptyDoc_spec (c : Cfg) (b : Bool) :
    (iter (.doc 1 [])).map (blankIf b) = ((documentItems c [] none []).map (place 1)).map (blankIf b) := by
  simp [iter, iterNode, iterKids, documentItems, place, docStringValue, concat]

/-- FAITHFUL IMAGE (lemma form, `b` selects whether element/document string values are compared) -/
theorem iter_eq_spec_aux (b : Bool) (i : Input) (root : PNode) (h : build i = .ok root)
    (hwf : inputWF i = true) :
    ∃ items, specItems i = some items ∧
      (iter root).map (blankIf b) = (items.map (place root.pos)).map (blankIf b) := by
  obtain ⟨⟨lxml, namespaces, fragment⟩, isTree, prolog, top, epilog, path⟩ := i
  unfold build at h
  cases lxml with
  | false =>
    simp only [Bool.false_eq_true, if_false] at h
    unfold buildET at h
    simp only at h
    unfold specItems
    cases top with
    | none =>
      cases isTree with
      | false => simp at h
      | true =>
        simp only [Except.ok.injEq] at h; subst h
        exact ⟨documentItems ⟨false, namespaces, fragment⟩ [] none [], by simp, emptyDoc_spec _ b⟩
    | some e =>
      simp only [inputWF] at hwf
      cases he : e.isElem with
      | false => cases isTree <;> simp [he] at h
      | true =>
        cases isTree with
        | true =>
          simp only [he, Bool.not_true, Bool.false_eq_true, if_false] at h
          by_cases hf : fragment = some true
          · subst hf
            simp only [beq_self_eq_true, if_true, Except.ok.injEq] at h; subst h
            refine ⟨itemsOne ⟨false, namespaces, some true⟩ none 0 e, by simp, ?_⟩
            rw [buildOne_pos]; exact one_spec _ b e hwf
          · have : (fragment == some true) = false := by simpa using hf
            simp only [this, Bool.false_eq_true, if_false, Except.ok.injEq] at h; subst h
            refine ⟨documentItems ⟨false, namespaces, fragment⟩ [] (some e) [], by simp [hf], ?_⟩
            exact etDoc_spec _ b 1 e he hwf
        | false =>
          simp only [he, Bool.not_true, Bool.false_eq_true, if_false] at h
          by_cases hf : fragment = some false
          · subst hf
            simp only [beq_self_eq_true, if_true, Except.ok.injEq] at h; subst h
            refine ⟨documentItems ⟨false, namespaces, some false⟩ [] (some e) [], by simp, ?_⟩
            rw [buildOne_pos]
            exact etDoc_spec _ b 0 e he hwf
          · have : (fragment == some false) = false := by simpa using hf
            simp only [this, Bool.false_eq_true, if_false, Except.ok.injEq] at h; subst h
            refine ⟨itemsOne ⟨false, namespaces, fragment⟩ none 0 e, by simp [hf], ?_⟩
            rw [buildOne_pos]; exact one_spec _ b e hwf
  | true =>
    simp only [if_true] at h
    unfold buildLxml at h
    simp only at h
    unfold specItems
    cases top with
    | none =>
      cases isTree with
      | false => simp at h
      | true =>
        by_cases hf : fragment = some true
        · subst hf; simp at h; split at h <;> cases h
        · have hf' : (fragment == some true) = false := by simpa using hf
          by_cases hp : path = []
          · subst hp
            simp only [Option.any_none, Bool.false_eq_true, if_false, hf', bne_self_eq_false, Bool.and_false,
              if_true, Except.ok.injEq] at h
            subst h
            refine ⟨documentItems ⟨true, namespaces, fragment⟩ [] none [], by simp [hf], ?_⟩
            simp only [buildLxmlDoc]
            exact emptyDoc_spec _ b
          · simp [hp] at h
    | some top =>
      simp only [inputWF] at hwf
      cases htop : top.isElem with
      | false => simp [htop] at h
      | true =>
        simp only [Option.any_some, htop, Bool.not_true, Bool.false_eq_true, if_false] at h
        have hdoc : (iter (buildLxmlDoc ⟨⟨true, namespaces, fragment⟩, isTree, prolog, some top, epilog, path⟩)).map (blankIf b)
            = ((documentItems ⟨true, namespaces, fragment⟩ prolog (some top) epilog).map (place 1)).map (blankIf b) := by
          simp only [buildLxmlDoc]
          exact docNode_spec _ b 1 prolog top epilog htop hwf
        have hdocpos : (buildLxmlDoc ⟨⟨true, namespaces, fragment⟩, isTree, prolog, some top, epilog, path⟩).pos = 1 := rfl
        split at h
        · contradiction
        · rename_i hnt
          cases hsub : subtreeAt top path with
          | none => simp [hsub] at h
          | some e =>
            have hwfe := subtreeAt_wf ⟨true, namespaces, fragment⟩ path top e hsub hwf
            simp only [hsub] at h
            cases he : e.isElem with
            | false => simp [he] at h
            | true =>
              simp only [he, Bool.not_true, Bool.false_eq_true, if_false] at h
              by_cases hf : fragment = some true
              · subst hf
                simp only [beq_self_eq_true, if_true, Except.ok.injEq] at h; subst h
                refine ⟨itemsOne ⟨true, namespaces, some true⟩ none 0 e, by simp [hsub], ?_⟩
                rw [buildOne_pos]; exact one_spec _ b e hwfe
              · have hf' : (fragment == some true) = false := by simpa using hf
                simp only [hf', Bool.false_eq_true, if_false] at h
                cases isTree with
                | true =>
                  simp only [if_true, Except.ok.injEq] at h; subst h
                  refine ⟨documentItems ⟨true, namespaces, fragment⟩ prolog (some top) epilog, by simp [hf', hsub], ?_⟩
                  rw [hdocpos]; exact hdoc
                | false =>
                  simp only [Bool.false_eq_true, if_false] at h
                  split at h
                  · rename_i hc
                    simp only [Except.ok.injEq] at h; subst h
                    refine ⟨documentItems ⟨true, namespaces, fragment⟩ prolog (some top) epilog, ?_, ?_⟩
                    · simp only [Bool.not_true, Bool.false_eq_true, if_false, hf', Bool.false_or, hc, if_true, hsub]
                    · rw [hdocpos]; exact hdoc
                  · rename_i hc
                    simp only [Except.ok.injEq] at h; subst h
                    refine ⟨itemsOne ⟨true, namespaces, fragment⟩ none 0 e, ?_, ?_⟩
                    · simp only [Bool.not_true, Bool.false_eq_true, if_false, hf', Bool.false_or, hc, hsub]
                    · rw [buildOne_pos]; exact one_spec _ b e hwfe

end EPV.Builder

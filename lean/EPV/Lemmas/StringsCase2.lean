/- C09 helper lemmas, part 12: the two readings of Final_Sigma; codepoints-to-string on arbitrary items. -/
import EPV.Lemmas.StringsCase
import EPV.Lemmas.StringsCodepoints
namespace EPV.Strings
open EPV.FOStrings (Str CpItem CpErr)

/-- skip reading = literal reading when no character is both Cased and Case_Ignorable -/
theorem reachesCased_eq_skip (cased ign : Nat → Bool) (h : ∀ c, ¬ (cased c = true ∧ ign c = true))
    (xs : Str) :
    FOStrings.reachesCased cased ign xs =
      (match xs.dropWhile ign with
        | c :: _ => cased c
        | [] => false) := by
  induction xs with
  | nil => rfl
  | cons x rest ih =>
    simp only [FOStrings.reachesCased, List.dropWhile_cons]
    by_cases hi : ign x = true
    · have hc : cased x = false := by
        cases hcx : cased x
        · rfl
        · exact absurd ⟨hcx, hi⟩ (h x)
      simp only [hi, hc, if_true, Bool.false_or, Bool.true_and]
      exact ih
    · have hi' : ign x = false := by simpa using hi
      simp [hi']

theorem finalSigma_eq_literal (cased ign : Nat → Bool) (h : ∀ c, ¬ (cased c = true ∧ ign c = true))
    (rb after : Str) :
    FOStrings.finalSigma cased ign rb after = FOStrings.finalSigmaLiteral cased ign rb after := by
  unfold FOStrings.finalSigma FOStrings.finalSigmaLiteral
  rw [reachesCased_eq_skip cased ign h rb, reachesCased_eq_skip cased ign h after]
  rfl

theorem lowerCase_eq_literal (lo : Nat → Str) (cased ign : Nat → Bool)
    (h : ∀ c, ¬ (cased c = true ∧ ign c = true)) (s : Str) :
    lowerCase lo cased ign s = FOStrings.lowerCaseLiteral lo cased ign s := by
  rw [lowerCase_eq_spec]
  unfold FOStrings.lowerCase FOStrings.lowerCaseLiteral
  simp only [finalSigma_eq_literal cased ign h]

/-! codepoints-to-string on items -/

theorem cp_step (v : Int) (rest : List CpItem)
    (ih : codepointsToStringItems rest = FOStrings.codepointsToStringItems rest) :
    (if isXmlCodepoint v = true then
      (match codepointsToStringItems rest with
        | .ok r => (.ok (v.toNat :: r) : Except CpErr Str)
        | .error e => .error e)
     else .error .FOCH0001) =
    (if FOStrings.IsXmlChar v then
      (match FOStrings.codepointsToStringItems rest with
        | .ok r => (.ok (v.toNat :: r) : Except CpErr Str)
        | .error e => .error e)
     else .error .FOCH0001) := by
  by_cases hx : isXmlCodepoint v = true
  · have hx' := (isXmlCodepoint_iff v).mp hx
    simp only [hx, hx', if_true, ih]
  · have hx' : ¬ FOStrings.IsXmlChar v := fun hh => hx ((isXmlCodepoint_iff v).mpr hh)
    simp [hx, hx']

theorem codepointsToStringItems_eq_spec (l : List CpItem) (h : cpItemsTrigger l = false) :
    codepointsToStringItems l = FOStrings.codepointsToStringItems l := by
  induction l with
  | nil => rfl
  | cons it rest ih =>
    cases it with
    | other => simp [cpItemsTrigger] at h
    | bool => simp [codepointsToStringItems, FOStrings.codepointsToStringItems, FOStrings.cpItemValue]
    | str => simp [codepointsToStringItems, FOStrings.codepointsToStringItems, FOStrings.cpItemValue]
    | int v =>
      simp only [codepointsToStringItems, FOStrings.codepointsToStringItems, FOStrings.cpItemValue]
      by_cases hx : isXmlCodepoint v = true
      · simp only [cpItemsTrigger, hx, Bool.true_and] at h
        exact cp_step v rest (ih h)
      · have hx' : ¬ FOStrings.IsXmlChar v := fun hh => hx ((isXmlCodepoint_iff v).mpr hh)
        simp [hx, hx']
    | untyped o =>
      cases o with
      | none => simp [codepointsToStringItems, FOStrings.codepointsToStringItems, FOStrings.cpItemValue]
      | some v =>
        simp only [codepointsToStringItems, FOStrings.codepointsToStringItems, FOStrings.cpItemValue]
        by_cases hx : isXmlCodepoint v = true
        · simp only [cpItemsTrigger, hx, Bool.true_and] at h
          exact cp_step v rest (ih h)
        · have hx' : ¬ FOStrings.IsXmlChar v := fun hh => hx ((isXmlCodepoint_iff v).mpr hh)
          simp [hx, hx']

theorem codepointsToStringItems_ints (l : List Int) :
    codepointsToStringItems (l.map .int) = (codepointsToString l).mapError fun _ => .FOCH0001 := by
  induction l with
  | nil => rfl
  | cons v vs ih =>
    simp only [List.map_cons, codepointsToStringItems, codepointsToString, ih]
    by_cases hx : isXmlCodepoint v = true
    · simp only [hx, if_true]
      cases codepointsToString vs <;> rfl
    · simp [hx, Except.mapError]
end EPV.Strings

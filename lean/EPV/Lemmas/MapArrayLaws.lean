/-
C15 — the finite-map laws for the model's map functions, stated with the relations the code uses
(`dictEq` for lookups, `scanEq` for the scans), and their agreement with the F&O definitions on
keys outside the clash predicate.
-/
import EPV.Lemmas.MapArrayMaps
namespace EPV.MapArray
open Spec

/-- the entries of `map:put(es, k, v)` -/
def putList (es : Entries α) (k : Key) (v : α) : Entries α :=
  es.filter (fun e => !scanEq e.1 k) ++ [(k, v)]

theorem find_filter_none (es : Entries α) (k : Key) :
    (es.filter fun e => !scanEq e.1 k).find? (fun e => dictEq e.1 k) = none := by
  rw [List.find?_eq_none]
  intro e he
  simp only [List.mem_filter, Bool.not_eq_eq_eq_not, Bool.not_true] at he
  cases hd : dictEq e.1 k with
  | false => simp
  | true => rw [scanEq_of_dictEq hd] at he; exact absurd he.2 (by simp)

theorem mapGet_putList_same (es : Entries (List β)) (k : Key) (v : List β) :
    mapGet (putList es k v) k = v := by
  unfold mapGet dictGet putList
  rw [List.find?_append, find_filter_none]
  simp [dictEq_refl]

theorem mapGet_putList_other (es : Entries (List β)) (k k' : Key) (v : List β)
    (h : scanEq k k' = false) : mapGet (putList es k v) k' = mapGet es k' := by
  have hd : dictEq k k' = false := by
    cases hd : dictEq k k' with
    | false => rfl
    | true => rw [scanEq_of_dictEq hd] at h; exact absurd h (by simp)
  have hf : (es.filter fun e => !scanEq e.1 k).find? (fun e => dictEq e.1 k') = es.find? (fun e => dictEq e.1 k') := by
    rw [List.find?_filter]
    congr 1
    funext e
    cases he : dictEq e.1 k' with
    | false => simp
    | true =>
      have h1 : scanEq e.1 k' = true := scanEq_of_dictEq he
      cases h2 : scanEq e.1 k with
      | false => simp
      | true =>
        have : scanEq k k' = true := scanEq_trans (by rw [scanEq_symm]; exact h2) h1
        rw [this] at h; exact absurd h (by simp)
  unfold mapGet dictGet putList
  rw [List.find?_append, hf]
  simp [hd]

theorem mapContains_putList (es : Entries α) (k k' : Key) (v : α) :
    mapContains (putList es k v) k' = (mapContains es k' || scanEq k k') := by
  simp only [mapContains, putList, List.any_append, List.any_cons, List.any_nil, Bool.or_false]
  cases hk : scanEq k k' with
  | true => simp
  | false =>
    simp only [Bool.or_false, List.any_filter]
    congr 1
    funext e
    cases h1 : scanEq e.1 k' with
    | false => simp
    | true =>
      cases h2 : scanEq e.1 k with
      | false => simp
      | true =>
        have : scanEq k k' = true := scanEq_trans (by rw [scanEq_symm]; exact h2) h1
        rw [this] at hk; exact absurd hk (by simp)

/-- no two entries are `==` (stronger than `WF`; the same thing when the keys do not clash) -/
def ScanWF (es : Entries α) : Prop := es.Pairwise fun a b => scanEq a.1 b.1 = false

theorem countP_scan_le_one {es : Entries α} (h : ScanWF es) (k : Key) :
    es.countP (fun e => scanEq e.1 k) ≤ 1 := by
  induction es with
  | nil => simp
  | cons e rest ih =>
    have hr : ScanWF rest := (List.pairwise_cons.1 h).2
    have he := (List.pairwise_cons.1 h).1
    rw [List.countP_cons]
    cases hk : scanEq e.1 k with
    | false => simpa using ih hr
    | true =>
      have : rest.countP (fun e => scanEq e.1 k) = 0 := by
        rw [List.countP_eq_zero]
        intro x hx
        have h1 := he x hx
        cases h2 : scanEq x.1 k with
        | false => simp
        | true =>
          have : scanEq e.1 x.1 = true := scanEq_trans hk (by rw [scanEq_symm]; exact h2)
          rw [this] at h1; exact absurd h1 (by simp)
      simp [this]

theorem length_split (es : Entries α) (k : Key) :
    es.length = es.countP (fun e => scanEq e.1 k) + (es.filter fun e => !scanEq e.1 k).length := by
  induction es with
  | nil => rfl
  | cons e rest ih =>
    simp only [List.length_cons, List.countP_cons, List.filter_cons]
    cases scanEq e.1 k <;> simp <;> omega

theorem length_putList (es : Entries α) (h : ScanWF es) (k : Key) (v : α) :
    (putList es k v).length = if mapContains es k then es.length else es.length + 1 := by
  have hlen := length_split es k
  have hle := countP_scan_le_one h k
  simp only [putList, List.length_append, List.length_cons, List.length_nil]
  by_cases hc : mapContains es k = true
  · have : 0 < es.countP (fun e => scanEq e.1 k) := by
      rw [List.countP_pos_iff]
      obtain ⟨x, hx, hxk⟩ := List.any_eq_true.1 (by unfold mapContains at hc; exact hc)
      exact ⟨x, hx, hxk⟩
    rw [if_pos hc]; omega
  · have : es.countP (fun e => scanEq e.1 k) = 0 := by
      rw [List.countP_eq_zero]; intro x hx hxk
      exact hc (by unfold mapContains; exact List.any_eq_true.2 ⟨x, hx, hxk⟩)
    rw [if_neg hc]; omega

theorem mapContains_remove (es : Entries α) (ks : List Key) (k : Key) :
    mapContains (es.filter fun e => ks.all fun x => !scanEq e.1 x) k =
      (mapContains es k && !ks.any fun x => scanEq k x) := by
  simp only [mapContains, List.any_filter]
  induction es with
  | nil => simp
  | cons e rest ih =>
    simp only [List.any_cons, ih]
    cases hk : scanEq e.1 k with
    | false => simp
    | true =>
      have hcongr : (ks.all fun x => !scanEq e.1 x) = !ks.any fun x => scanEq k x := by
        rw [← List.not_any_eq_all_not]
        congr 2
        funext x
        unfold scanEq
        rw [(scanEq_iff e.1 k).1 hk]
      rw [hcongr]
      cases ks.any fun x => scanEq k x <;> simp

/-! agreement with the F&O definitions when the keys do not clash -/

theorem putList_eq_spec (es : Entries α) (k : Key) (v : α)
    (h : ∀ e ∈ es, scanEq e.1 k = sameKey e.1 k) : putList es k v = Spec.put es k v := by
  simp only [putList, Spec.put]
  congr 1
  apply List.filter_congr
  intro e he; rw [h e he]

theorem mapGet_eq_spec (es : Entries (List β)) (k : Key)
    (h : ∀ e ∈ es, dictEq e.1 k = sameKey e.1 k) : mapGet es k = Spec.get es k := by
  simp only [mapGet, dictGet, Spec.get]
  congr 2
  induction es with
  | nil => rfl
  | cons e rest ih =>
    simp only [List.find?_cons, h e (by simp)]
    cases sameKey e.1 k with
    | true => rfl
    | false => exact ih fun x hx => h x (List.mem_cons_of_mem _ hx)

theorem mapContains_eq_spec (es : Entries α) (k : Key)
    (h : ∀ e ∈ es, scanEq e.1 k = sameKey e.1 k) : mapContains es k = Spec.contains es k := by
  simp only [mapContains, Spec.contains]
  induction es with
  | nil => rfl
  | cons e rest ih =>
    simp only [List.any_cons, h e (by simp)]
    rw [ih fun x hx => h x (List.mem_cons_of_mem _ hx)]

theorem removeList_eq_spec (es : Entries α) (ks : List Key)
    (h : ∀ e ∈ es, ∀ x ∈ ks, scanEq e.1 x = sameKey e.1 x) :
    (es.filter fun e => ks.all fun x => !scanEq e.1 x) = Spec.remove es ks := by
  simp only [Spec.remove]
  apply List.filter_congr
  intro e he
  rw [← List.not_any_eq_all_not]
  congr 1
  induction ks with
  | nil => rfl
  | cons x rest ih =>
    simp only [List.any_cons, h e he x (by simp)]
    rw [ih fun e he y hy => h e he y (List.mem_cons_of_mem _ hy)]

/-- duplicate-freeness under `op:same-key` -/
theorem noDupKeys_iff (ks : List Key) :
    noDupKeys ks = true ↔ ks.Pairwise fun a b => sameKey a b = false := by
  induction ks with
  | nil => simp [noDupKeys]
  | cons k rest ih =>
    simp only [noDupKeys, Bool.and_eq_true, Bool.not_eq_eq_eq_not, Bool.not_true, List.any_eq_false,
      List.pairwise_cons, ih]
    constructor
    · rintro ⟨h1, h2⟩; exact ⟨fun x hx => by simpa using h1 x hx, h2⟩
    · rintro ⟨h1, h2⟩; exact ⟨fun x hx => by simpa using h1 x hx, h2⟩

theorem WF_iff_spec (l : Entries α)
    (h : ∀ a ∈ l, ∀ b ∈ l, dictEq a.1 b.1 = sameKey a.1 b.1) :
    WF l ↔ noDupKeys (l.map (·.1)) = true := by
  rw [noDupKeys_iff, List.pairwise_map]
  unfold WF
  constructor
  · intro hw
    exact hw.imp_of_mem fun {a b} ha hb hab => by rw [← h a ha b hb]; exact hab
  · intro hw
    exact hw.imp_of_mem fun {a b} ha hb hab => by rw [h a ha b hb]; exact hab

theorem mapCtor_eq_spec (l : Entries α)
    (h : ∀ a ∈ l, ∀ b ∈ l, dictEq a.1 b.1 = sameKey a.1 b.1) : mapCtor l = Spec.construct l := by
  rw [mapCtor_eq, Spec.construct]
  by_cases hw : WF l
  · simp [hw, (WF_iff_spec l h).1 hw]
  · have : ¬ noDupKeys (l.map (·.1)) = true := fun hn => hw ((WF_iff_spec l h).2 hn)
    simp [hw, this]

end EPV.MapArray

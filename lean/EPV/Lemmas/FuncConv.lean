/-
C18 — the modelled function conversion (`convertArg` / `convertParam`, Model/SeqType.lean) against the specification
of XPath 3.1 §3.1.5.2 (Spec/FuncConv.lean): the refinement proof.  (Phase 5 follow-up: the deviations F18y / F18z are
repaired in the code — branch fix-c18-8 — so there are no triggers any more: the only table fact is `NoCastDeviation`.)
-/
import EPV.Spec.FuncConv
import EPV.Lemmas.SeqTypeSpec
namespace EPV.SeqType

def Item.isAtom : Item → Bool
  | .atom _ => true | _ => false

def Item.isAtomOrNode : Item → Bool
  | .atom _ => true | .node _ _ _ _ => true | _ => false

/-- the configuration of the specification for given tables: the cast of an xs:untypedAtomic is the live cast table, the
class of a node's typed value the live one -/
def convCfg (tb : Tables) (clsOf : XsdT → Nat) : ConvCfg := ⟨tb.castCls, tb.nodeCls, clsOf⟩

/-- the code's `cast_value` treats this item differently from rules 2-4 of §3.1.5.2: another class than the rules give,
or — where the rules raise XPTY0117 — a value that is accepted -/
def castDeviates (tb : Tables) (st : SpecTables) (cfg : ConvCfg) (t : Nat) : Item → Bool
  | .atom c =>
    (match specConvCls st cfg t c with
     | some c' => tb.castCls c t != c'
     | none => specAtomic st (tb.castCls c t) t)
  | _ => false

/-- every atomic item has a class that has values (`live`): the cast table is the cast of one sample per class, a class
without instances of its own (`Float10`, whose constructor returns a `Float`) has no row -/
def atomsLive (live : Nat → Bool) (w : List Item) : Bool :=
  w.all fun x => match x with | .atom c => live c | _ => true

/-- the live `cast_to_primitive_type` is rules 2-4, on the classes that have values (checked for the generated table by
`decide +kernel`: `cast_table_is_rules_2_to_4`) -/
def NoCastDeviation (tb : Tables) (st : SpecTables) (cfg : ConvCfg) (live : Nat → Bool) : Prop :=
  ∀ c t, live c = true → castDeviates tb st cfg t (.atom c) = false

/-- the value after atomization as the code does it: arrays flattened, then nodes replaced by their typed values -/
def atomizedValue (tb : Tables) (v : List Item) : List Item := (atomizedSeq v).map (Item.typedValue tb)

/-! ### atomization: the specification's fn:data is item-wise on the flattened value -/

def data1 (cfg : ConvCfg) : Item → Option (List Item)
  | .atom c => some [.atom c]
  | .node k _ _ _ => some [.atom (cfg.nodeCls k)]
  | _ => none

def dataFlat (cfg : ConvCfg) : List Item → Option (List Item)
  | [] => some []
  | x :: xs => match data1 cfg x, dataFlat cfg xs with
    | some a, some b => some (a ++ b)
    | _, _ => none

theorem dataFlat_append (cfg : ConvCfg) (a b : List Item) :
    dataFlat cfg (a ++ b) = (match dataFlat cfg a, dataFlat cfg b with
      | some x, some y => some (x ++ y)
      | _, _ => none) := by
  induction a with
  | nil => simp only [List.nil_append, dataFlat]; cases dataFlat cfg b <;> simp
  | cons x xs ih =>
    simp only [List.cons_append, dataFlat, ih]
    cases data1 cfg x <;> cases dataFlat cfg xs <;> cases dataFlat cfg b <;> simp

mutual
theorem specData_flat (cfg : ConvCfg) : ∀ x : Item, specData cfg x = dataFlat cfg x.atomized
  | .atom c => by simp [specData, Item.atomized, dataFlat, data1]
  | .node k n kids r => by simp [specData, Item.atomized, dataFlat, data1]
  | .func a r => by simp [specData, Item.atomized, dataFlat, data1]
  | .map es => by simp [specData, Item.atomized, dataFlat, data1]
  | .array ms => by simp only [specData, Item.atomized]; exact specDataMs_flat cfg ms
theorem specDataMs_flat (cfg : ConvCfg) : ∀ ms : List (List Item), specDataMs cfg ms = dataFlat cfg (atomizedMs ms)
  | [] => by simp [specDataMs, atomizedMs, dataFlat]
  | m :: ms => by
    rw [specDataMs, atomizedMs, dataFlat_append, specDataSeq_flat cfg m, specDataMs_flat cfg ms]
    cases dataFlat cfg (atomizedSeq m) <;> cases dataFlat cfg (atomizedMs ms) <;> rfl
theorem specDataSeq_flat (cfg : ConvCfg) : ∀ v : List Item, specDataSeq cfg v = dataFlat cfg (atomizedSeq v)
  | [] => by simp [specDataSeq, atomizedSeq, dataFlat]
  | x :: xs => by
    rw [specDataSeq, atomizedSeq, dataFlat_append, specData_flat cfg x, specDataSeq_flat cfg xs]
    cases dataFlat cfg x.atomized <;> cases dataFlat cfg (atomizedSeq xs) <;> rfl
end

theorem atomizedSeq_noArray : ∀ v : List Item, v.any Item.isArray = false → atomizedSeq v = v
  | [], _ => by simp [atomizedSeq]
  | x :: xs, h => by
    simp only [List.any_cons, Bool.or_eq_false_iff] at h
    rw [atomizedSeq, atomizedSeq_noArray xs h.2]
    cases x <;> simp_all [Item.atomized, Item.isArray]

/-! ### the flat level: items after the flattening of arrays -/

theorem matchAtomic_eq_spec (tb : Tables) (st : SpecTables) (xsd11 : Bool) (ha : SpecAgree tb st xsd11)
    (sub : Ty → Ty → Bool) (t : Nat) (o : Occ) (w : List Item) :
    matchSt tb xsd11 true (.leaf (.atomic t) o) w = .ok (specMatch st sub (.leaf (.atomic t) o) w) := by
  simp only [matchSt, specMatch]
  apply seqMatch_eq_ok
  intro x _
  cases x <;> simp [matchLeaf, specLeaf, ha.atomic, matchLeafNode, specLeafNode]

/-- the model on the flattened value `w` -/
def flatModel (tb : Tables) (st : SpecTables) (sub : Ty → Ty → Bool) (t : Nat) (o : Occ) (w : List Item) :
    Except Err (List Item) :=
  if specMatch st sub (.leaf (.atomic t) o) w then .ok w
  else if specMatch st sub (.leaf (.atomic t) o) (castSeq tb t w) then .ok (castSeq tb t w)
  else .error .XPDY0050

theorem any_isArray_not_match (st : SpecTables) (sub : Ty → Ty → Bool) (t : Nat) (o : Occ) :
    ∀ v : List Item, v.any Item.isArray = true → specMatch st sub (.leaf (.atomic t) o) v = false := by
  intro v h
  simp only [specMatch, Bool.and_eq_false_iff]
  right
  rw [List.any_eq_true] at h
  obtain ⟨x, hx, hxa⟩ := h
  apply Bool.eq_false_iff.2
  intro hall
  have := (List.all_eq_true.1 hall) x hx
  cases x <;> simp_all [Item.isArray, specLeaf]

theorem map_typedValue_noNode (tb : Tables) : ∀ w : List Item, w.any Item.isNode = false →
    w.map (Item.typedValue tb) = w
  | [], _ => rfl
  | x :: xs, h => by
    simp only [List.any_cons, Bool.or_eq_false_iff] at h
    rw [List.map_cons, map_typedValue_noNode tb xs h.2]
    cases x <;> simp_all [Item.typedValue, Item.isNode]

theorem anyNode_not_match (st : SpecTables) (sub : Ty → Ty → Bool) (t : Nat) (o : Occ) :
    ∀ v : List Item, v.any Item.isNode = true → specMatch st sub (.leaf (.atomic t) o) v = false := by
  intro v h
  simp only [specMatch, Bool.and_eq_false_iff]
  right
  rw [List.any_eq_true] at h
  obtain ⟨x, hx, hxa⟩ := h
  apply Bool.eq_false_iff.2
  intro hall
  have := (List.all_eq_true.1 hall) x hx
  cases x <;> simp_all [Item.isNode, specLeaf, specLeafNode]

theorem convertArg_eq_flat (tb : Tables) (st : SpecTables) (xsd11 : Bool) (ha : SpecAgree tb st xsd11)
    (sub : Ty → Ty → Bool) (t : Nat) (o : Occ) (v : List Item) :
    convertArg tb xsd11 (.leaf (.atomic t) o) v = flatModel tb st sub t o (atomizedValue tb v) := by
  unfold convertArg atomizedValue flatModel
  simp only [matchAtomic_eq_spec tb st xsd11 ha sub, castFor, Ty.isXsName, Bool.true_and]
  cases hA : v.any Item.isArray with
  | false =>
    rw [atomizedSeq_noArray v hA]
    simp only [Bool.false_eq_true, if_false]
    cases hN : v.any Item.isNode with
    | false =>
      rw [map_typedValue_noNode tb v hN]
      cases h1 : specMatch st sub (.leaf (.atomic t) o) v <;> simp
      cases h2 : specMatch st sub (.leaf (.atomic t) o) (castSeq tb t v) <;> simp
    | true =>
      rw [anyNode_not_match st sub t o v hN]
      simp only [if_true]
      cases h1 : specMatch st sub (.leaf (.atomic t) o) (v.map (Item.typedValue tb)) <;> simp
      cases h2 : specMatch st sub (.leaf (.atomic t) o) (castSeq tb t (v.map (Item.typedValue tb))) <;> simp
  | true =>
    rw [any_isArray_not_match st sub t o v hA]
    simp only [if_true]
    cases hN : (atomizedSeq v).any Item.isNode with
    | false =>
      rw [map_typedValue_noNode tb _ hN]
      cases h1 : specMatch st sub (.leaf (.atomic t) o) (atomizedSeq v) <;> simp
      cases h2 : specMatch st sub (.leaf (.atomic t) o) (castSeq tb t (atomizedSeq v)) <;> simp
    | true =>
      rw [anyNode_not_match st sub t o _ hN]
      simp only [if_true]
      cases h1 : specMatch st sub (.leaf (.atomic t) o) ((atomizedSeq v).map (Item.typedValue tb)) <;> simp
      cases h2 : specMatch st sub (.leaf (.atomic t) o) (castSeq tb t ((atomizedSeq v).map (Item.typedValue tb))) <;> simp

/-- the specification on the flattened value -/
def flatSpec (st : SpecTables) (sub : Ty → Ty → Bool) (cfg : ConvCfg) (t : Nat) (o : Occ) (w : List Item) :
    Option (List Item) :=
  match dataFlat cfg w with
  | none => none
  | some d => match specConvItems st cfg t d with
    | none => none
    | some d' => if specMatch st sub (.leaf (.atomic t) o) d' then some d' else none

theorem specConvert_eq_flat (st : SpecTables) (sub : Ty → Ty → Bool) (cfg : ConvCfg) (t : Nat) (o : Occ) (v : List Item) :
    specConvert st sub cfg (.leaf (.atomic t) o) v = flatSpec st sub cfg t o (atomizedSeq v) := by
  simp only [specConvert, flatSpec, specDataSeq_flat]
  rfl

theorem dataFlat_noNode (cfg : ConvCfg) : ∀ w : List Item, w.any Item.isNode = false →
    dataFlat cfg w = if w.all Item.isAtom then some w else none
  | [], _ => by simp [dataFlat]
  | x :: xs, h => by
    simp only [List.any_cons, Bool.or_eq_false_iff] at h
    rw [dataFlat, dataFlat_noNode cfg xs h.2]
    cases hxs : xs.all Item.isAtom <;> cases x <;> simp_all [data1, Item.isNode, Item.isAtom]

theorem notAtoms_not_match (st : SpecTables) (sub : Ty → Ty → Bool) (t : Nat) (o : Occ) :
    ∀ w : List Item, w.all Item.isAtom = false → specMatch st sub (.leaf (.atomic t) o) w = false := by
  intro w h
  simp only [specMatch, Bool.and_eq_false_iff]
  right
  apply Bool.eq_false_iff.2
  intro hall
  apply Bool.eq_false_iff.1 h
  rw [List.all_eq_true] at hall ⊢
  intro x hx
  have := hall x hx
  cases x <;> simp_all [Item.isAtom, specLeaf, specLeafNode]

theorem castSeq_allAtom (tb : Tables) (t : Nat) : ∀ w : List Item,
    (castSeq tb t w).all Item.isAtom = w.all Item.isAtom
  | [] => by simp [castSeq]
  | x :: xs => by
    have ih := castSeq_allAtom tb t xs
    simp only [castSeq] at ih ⊢
    simp only [List.map_cons, List.all_cons, ih]
    cases x <;> simp [Item.isAtom]

/-- every item already matches the expected type: rules 2-4 change nothing -/
theorem specConvItems_of_match (st : SpecTables) (cfg : ConvCfg) (t : Nat) : ∀ w : List Item,
    w.all Item.isAtom = true → w.all (specLeaf st (.atomic t)) = true → specConvItems st cfg t w = some w
  | [], _, _ => by simp [specConvItems]
  | x :: xs, h1, h2 => by
    simp only [List.all_cons, Bool.and_eq_true] at h1 h2
    rw [specConvItems, specConvItems_of_match st cfg t xs h1.2 h2.2]
    cases x with
    | atom c =>
      have h := h2.1
      simp only [specLeaf, specAtomic] at h
      simp only [specConvItem, specConvCls]
      split at h <;> simp_all
    | _ => simp [Item.isAtom] at h1

/-- no item deviates: rules 2-4 give what `cast_to_primitive_type` gives, or they raise XPTY0117 and the value of the code
does not match -/
theorem specConvItems_of_agree (tb : Tables) (st : SpecTables) (cfg : ConvCfg) (t : Nat) : ∀ w : List Item,
    w.all Item.isAtom = true → w.any (castDeviates tb st cfg t) = false →
    specConvItems st cfg t w = some (castSeq tb t w) ∨
      (specConvItems st cfg t w = none ∧ (castSeq tb t w).all (specLeaf st (.atomic t)) = false)
  | [], _, _ => by simp [specConvItems, castSeq]
  | x :: xs, h1, h2 => by
    simp only [List.all_cons, Bool.and_eq_true] at h1
    simp only [List.any_cons, Bool.or_eq_false_iff] at h2
    have ih := specConvItems_of_agree tb st cfg t xs h1.2 h2.2
    cases x with
    | atom c =>
      have h := h2.1
      simp only [castDeviates] at h
      cases hs : specConvCls st cfg t c with
      | none =>
        right
        rw [hs] at h
        constructor
        · simp [specConvItems, specConvItem, hs]
        · simp [castSeq, specLeaf, h]
      | some c' =>
        rw [hs] at h
        have hc : tb.castCls c t = c' := by simpa using h
        rcases ih with ih | ih
        · left
          simp only [castSeq] at ih ⊢
          simp [specConvItems, specConvItem, hs, ih, hc]
        · right
          constructor
          · simp [specConvItems, ih.1]
          · have := ih.2
            simp only [castSeq] at this ⊢
            simp only [List.map_cons, List.all_cons, this, Bool.and_false]
    | _ => simp [Item.isAtom] at h1

theorem specConvItems_length (st : SpecTables) (cfg : ConvCfg) (t : Nat) : ∀ (w d : List Item),
    specConvItems st cfg t w = some d → d.length = w.length
  | [], d, h => by simp [specConvItems] at h; simp [← h]
  | x :: xs, d, h => by
    rw [specConvItems] at h
    cases hx : specConvItem st cfg t x with
    | none => simp [hx] at h
    | some a =>
      cases hxs : specConvItems st cfg t xs with
      | none => simp [hx, hxs] at h
      | some b =>
        simp [hx, hxs] at h
        rw [← h]; simp [specConvItems_length st cfg t xs b hxs]

theorem castSeq_length (tb : Tables) (t : Nat) (w : List Item) : (castSeq tb t w).length = w.length := by
  simp [castSeq]

theorem flat_refines_noNode (tb : Tables) (st : SpecTables) (sub : Ty → Ty → Bool) (cfg : ConvCfg) (t : Nat) (o : Occ)
    (w : List Item) (hn : w.any Item.isNode = false)
    (hc : occCard o w.length = true → w.all Item.isAtom = true → specMatch st sub (.leaf (.atomic t) o) w = false →
      w.any (castDeviates tb st cfg t) = false) :
    (flatModel tb st sub t o w).toOption = flatSpec st sub cfg t o w := by
  unfold flatModel flatSpec
  rw [dataFlat_noNode cfg w hn]
  cases hA : w.all Item.isAtom with
  | false =>
    have hA' : (castSeq tb t w).all Item.isAtom = false := by rw [castSeq_allAtom]; exact hA
    simp [notAtoms_not_match st sub t o w hA, notAtoms_not_match st sub t o _ hA', Except.toOption]
  | true =>
    cases hM : specMatch st sub (.leaf (.atomic t) o) w with
    | true =>
      have hall : w.all (specLeaf st (.atomic t)) = true := by
        simp only [specMatch, Bool.and_eq_true] at hM; exact hM.2
      simp [specConvItems_of_match st cfg t w hA hall, hM, Except.toOption]
    | false =>
      cases hO : occCard o w.length with
      | true =>
        have hc' := hc hO hA hM
        rcases specConvItems_of_agree tb st cfg t w hA hc' with hag | hag
        · simp only [hag, if_true]
          cases h2 : specMatch st sub (.leaf (.atomic t) o) (castSeq tb t w) <;> simp [Except.toOption]
        · have hm : specMatch st sub (.leaf (.atomic t) o) (castSeq tb t w) = false := by
            simp [specMatch, hag.2]
          simp [hag.1, hm, Except.toOption]
      | false =>
        -- wrong cardinality: no conversion changes the number of items
        have hm : specMatch st sub (.leaf (.atomic t) o) (castSeq tb t w) = false := by
          simp [specMatch, castSeq_length, hO]
        simp only [hm, if_true]
        cases hd : specConvItems st cfg t w with
        | none => simp [Except.toOption]
        | some d =>
          have hl := specConvItems_length st cfg t w d hd
          have hm' : specMatch st sub (.leaf (.atomic t) o) d = false := by simp [specMatch, hl, hO]
          simp [hm', Except.toOption]

theorem data1_typedValue (tb : Tables) (cfg : ConvCfg) (hcfg : cfg.nodeCls = tb.nodeCls) (x : Item) :
    data1 cfg (x.typedValue tb) = data1 cfg x := by
  cases x <;> simp [Item.typedValue, data1, hcfg]

theorem dataFlat_typedValue (tb : Tables) (cfg : ConvCfg) (hcfg : cfg.nodeCls = tb.nodeCls) : ∀ w : List Item,
    dataFlat cfg (w.map (Item.typedValue tb)) = dataFlat cfg w
  | [] => rfl
  | x :: xs => by
    rw [List.map_cons, dataFlat, dataFlat, data1_typedValue tb cfg hcfg x, dataFlat_typedValue tb cfg hcfg xs]

theorem typedValue_noNode (tb : Tables) : ∀ w : List Item, (w.map (Item.typedValue tb)).any Item.isNode = false
  | [] => rfl
  | x :: xs => by
    rw [List.map_cons, List.any_cons, typedValue_noNode tb xs]
    cases x <;> simp [Item.typedValue, Item.isNode]

/-- the refinement on the value after the code's atomization (no node is left) -/
theorem flat_refines (tb : Tables) (st : SpecTables) (sub : Ty → Ty → Bool) (cfg : ConvCfg)
    (hcfg : cfg.nodeCls = tb.nodeCls) (t : Nat) (o : Occ) (w : List Item)
    (hc : (w.map (Item.typedValue tb)).all Item.isAtom = true →
      (w.map (Item.typedValue tb)).any (castDeviates tb st cfg t) = false) :
    (flatModel tb st sub t o (w.map (Item.typedValue tb))).toOption = flatSpec st sub cfg t o w := by
  have hs : flatSpec st sub cfg t o w = flatSpec st sub cfg t o (w.map (Item.typedValue tb)) := by
    unfold flatSpec; rw [dataFlat_typedValue tb cfg hcfg w]
  rw [hs]
  exact flat_refines_noNode tb st sub cfg t o _ (typedValue_noNode tb w) (fun _ hA _ => hc hA)

end EPV.SeqType

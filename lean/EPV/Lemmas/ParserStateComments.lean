/-
Lemmas about comment skipping (EPV/Model/Lexer.lean: `untilLoop`, `advanceUntil`, `commentLoop`,
`advance2`): termination (no fuel exhaustion) and coded errors only.
-/
import EPV.Lemmas.ParserStateLexer
namespace EPV.Lexer
open EPV.PState

/-- the outcomes of the comment-aware lexer: XPST0003 / XPST0017 / FORG0006 -/
def LexErr (e : Err) : Prop := SyntaxErr e ∨ e = .coded "FORG0006"

theorem wrongSyntax_lexErr (t : Tok) : LexErr (.coded (wrongSyntaxCode t)) := by
  rcases wrongSyntaxCode_cases t with h | h <;> simp [LexErr, SyntaxErr, h]

/-- termination measure of the comment loop: pending matches, plus one while the look-ahead is
not yet `(end)` -/
def mu (c : Cursor Tok Match) : Nat := c.tokens.length + (if c.nextToken.symbol == "(end)" then 0 else 1)

theorem mk_symbol {tb : Table} {k v : String} {t : Tok} (h : mk tb k v = .ok t) : t.symbol = k := by
  unfold mk at h
  split at h
  · cases h; rfl
  · cases h

theorem untilLoop_spec (tb : Table) (stops : List String) (hs : Specials tb) (l : List Match) :
    ∀ c : Cursor Tok Match,
      ((untilLoop tb stops c l).1 = .ok () ∧
        (((untilLoop tb stops c l).2.tokens = [] ∧ (untilLoop tb stops c l).2.nextToken.symbol = "(end)") ∨
         ((untilLoop tb stops c l).2.tokens.length < l.length))) ∨
      (∃ e, (untilLoop tb stops c l).1 = .error e ∧ LexErr e ∧ (untilLoop tb stops c l).2.tokens.length ≤ l.length) := by
  induction l with
  | nil =>
    intro c
    obtain ⟨lab, _, hmk⟩ := mk_of_has "(end)" hs.end_
    simp [untilLoop, hmk]
  | cons m rest ih =>
    intro c
    unfold untilLoop
    simp only []
    split
    · rename_i s _
      split
      · rename_i hstop
        split
        · rename_i t hmk
          left; refine ⟨rfl, .inr ?_⟩
          simp
        · obtain ⟨lab, _, hmk⟩ := mk_of_has "(unknown)" hs.unk
          simp only [hmk]
          right; exact ⟨_, rfl, wrongSyntax_lexErr _, by simp⟩
      · rcases ih { c with nextMatch := some m, tokens := rest } with ⟨h1, h2⟩ | ⟨e, h1, h2, h3⟩
        · left; refine ⟨h1, ?_⟩
          rcases h2 with h2 | h2
          · exact .inl h2
          · exact .inr (by simp only [List.length_cons]; omega)
        · right; exact ⟨e, h1, h2, by simp only [List.length_cons]; omega⟩
    · rcases ih { c with nextMatch := some m, tokens := rest } with ⟨h1, h2⟩ | ⟨e, h1, h2, h3⟩
      · left; refine ⟨h1, ?_⟩
        rcases h2 with h2 | h2
        · exact .inl h2
        · exact .inr (by simp only [List.length_cons]; omega)
      · right; exact ⟨e, h1, h2, by simp only [List.length_cons]; omega⟩

/-- one `advance_until('(:', ':)')`: it raises a coded error, or returns having strictly decreased
the measure (and never lengthened the pending matches) -/
theorem advanceUntil_spec (tb : Table) (stops : List String) (hs : Specials tb) (c : Cursor Tok Match) :
    ((advanceUntil tb stops c).1 = .ok () ∧ mu (advanceUntil tb stops c).2 < mu c ∧
      (advanceUntil tb stops c).2.tokens.length ≤ c.tokens.length) ∨
    (∃ e, (advanceUntil tb stops c).1 = .error e ∧ LexErr e ∧
      (advanceUntil tb stops c).2.tokens.length ≤ c.tokens.length) := by
  unfold advanceUntil
  split
  · right; exact ⟨_, rfl, .inr rfl, Nat.le_refl _⟩
  · split
    · right; exact ⟨_, rfl, wrongSyntax_lexErr _, Nat.le_refl _⟩
    · rename_i _ hne
      have hmu : mu c = c.tokens.length + 1 := by simp [mu, hne]
      rcases untilLoop_spec tb stops hs c.tokens { c with token := c.nextToken } with
        ⟨h1, h2⟩ | ⟨e, h1, h2, h3⟩
      · left
        refine ⟨h1, ?_, ?_⟩
        · rcases h2 with ⟨h2, h3⟩ | h2
          · have h0 : mu (untilLoop tb stops { c with token := c.nextToken } c.tokens).2 = 0 := by
              simp [mu, h2, h3]
            omega
          · have hle : mu (untilLoop tb stops { c with token := c.nextToken } c.tokens).2 ≤
                (untilLoop tb stops { c with token := c.nextToken } c.tokens).2.tokens.length + 1 := by
              unfold mu; split <;> omega
            omega
        · rcases h2 with ⟨h2, _⟩ | h2
          · simp [h2]
          · omega
      · right; exact ⟨e, h1, h2, h3⟩

/-- **the comment loop terminates**: with fuel above the measure it never runs out of fuel; it
returns normally or raises a coded error; the pending matches never grow -/
theorem commentLoop_spec (tb : Table) (hs : Specials tb) :
    ∀ (fuel level : Nat) (c : Cursor Tok Match), mu c < fuel →
      ((commentLoop tb fuel level c).1 = .ok () ∨ ∃ e, (commentLoop tb fuel level c).1 = .error e ∧ LexErr e) ∧
      (commentLoop tb fuel level c).2.tokens.length ≤ c.tokens.length := by
  intro fuel
  induction fuel with
  | zero => intro level c h; omega
  | succ fuel ih =>
    intro level c h
    cases level with
    | zero => simp [commentLoop]
    | succ level =>
      unfold commentLoop
      rcases advanceUntil_spec tb ["(:", ":)"] hs c with ⟨h1, h2, h3⟩ | ⟨e, h1, h2, h3⟩
      · split
        · rename_i e' c' heq
          rw [heq] at h1; cases h1
        · rename_i c' heq
          rw [heq] at h2 h3
          simp only at h2 h3
          split
          · have := ih level c' (by omega)
            exact ⟨this.1, by omega⟩
          · have := ih (level + 2) c' (by omega)
            exact ⟨this.1, by omega⟩
      · split
        · rename_i e' c' heq
          rw [heq] at h1 h3
          simp only at h1 h3
          cases h1
          exact ⟨.inr ⟨_, rfl, h2⟩, h3⟩
        · rename_i c' heq
          rw [heq] at h1; cases h1

/-- a successful base `advance` whose look-ahead is not `(end)` consumed at least one match -/
theorem advance_strict (tb : Table) (o : Oracles) (symbols : List String) (c : Cursor Tok Match) :
    (advance tb o symbols c).1 = .ok () →
    (advance tb o symbols c).2.nextToken.symbol ≠ "(end)" →
    (advance tb o symbols c).2.tokens.length < c.tokens.length := by
  unfold advance
  split
  · intro h; cases h
  · split
    · intro h; cases h
    · simp only []
      rcases nextNonSpace_spec c.nextMatch c.tokens with ⟨g1, g2⟩ | ⟨m, g1, _, _, pre, g4⟩
      · split
        · rename_i nm rest heq
          split
          · rename_i t hmk
            intro _ hne
            exact absurd (mk_symbol hmk) hne
          · intro h; cases h
        · rename_i m' nm rest heq
          rw [heq] at g1; cases g1
      · split
        · rename_i nm rest heq
          rw [heq] at g1; cases g1
        · rename_i m' nm rest heq
          rw [heq] at g4
          simp only at g4
          have hlen : c.tokens.length = pre.length + 1 + rest.length := by
            rw [g4]; simp only [List.length_append, List.length_cons]; omega
          split <;> split <;> intro _ _ <;> simp only [] <;> omega

/-! ### the pending matches after each step are a suffix of those before -/

theorem untilLoop_suffix (tb : Table) (stops : List String) (l : List Match) :
    ∀ c : Cursor Tok Match, (untilLoop tb stops c l).2.tokens <:+ l := by
  induction l with
  | nil =>
    intro c
    unfold untilLoop
    split <;> exact List.suffix_refl _
  | cons m rest ih =>
    intro c
    unfold untilLoop
    simp only []
    split
    · split
      · split
        · exact List.suffix_cons _ _
        · split <;> exact List.suffix_cons _ _
      · exact (ih _).trans (List.suffix_cons _ _)
    · exact (ih _).trans (List.suffix_cons _ _)

theorem advanceUntil_suffix (tb : Table) (stops : List String) (c : Cursor Tok Match) :
    (advanceUntil tb stops c).2.tokens <:+ c.tokens := by
  unfold advanceUntil
  split
  · exact List.suffix_refl _
  · split
    · exact List.suffix_refl _
    · exact untilLoop_suffix tb stops c.tokens _

theorem commentLoop_suffix (tb : Table) :
    ∀ (fuel level : Nat) (c : Cursor Tok Match), (commentLoop tb fuel level c).2.tokens <:+ c.tokens := by
  intro fuel
  induction fuel with
  | zero =>
    intro level c
    cases level <;> simp [commentLoop]
  | succ fuel ih =>
    intro level c
    cases level with
    | zero => simp [commentLoop]
    | succ level =>
      unfold commentLoop
      have hs := advanceUntil_suffix tb ["(:", ":)"] c
      split
      · rename_i e c' heq
        rw [heq] at hs; exact hs
      · rename_i c' heq
        rw [heq] at hs
        split
        · exact (ih _ _).trans hs
        · exact (ih _ _).trans hs

theorem advance_suffix (tb : Table) (o : Oracles) (symbols : List String) (c : Cursor Tok Match) :
    (advance tb o symbols c).2.tokens <:+ c.tokens := by
  obtain ⟨pre, h⟩ := advance_consumes tb o symbols c
  exact ⟨pre, h.symm⟩

/-- **`XPath2Parser.advance` terminates and fails only with coded errors**: with fuel above the number
of pending matches the model never runs out of fuel (neither in the recursion on `advance(':)')` nor
in the comment loop); it returns normally or raises XPST0003 / XPST0017 / FORG0006; the pending matches
afterwards are a suffix of those before. -/
theorem advance2_spec (tb : Table) (o : Oracles) (hs : Specials tb) :
    ∀ (fuel : Nat) (symbols : List String) (c : Cursor Tok Match),
      (∀ m ∈ c.tokens, FromPattern m = true) → c.tokens.length < fuel →
      ((advance2 tb o fuel symbols c).1 = .ok () ∨
        ∃ e, (advance2 tb o fuel symbols c).1 = .error e ∧ LexErr e) ∧
      (advance2 tb o fuel symbols c).2.tokens <:+ c.tokens := by
  intro fuel
  induction fuel with
  | zero => intro symbols c _ h; omega
  | succ fuel ih =>
    intro symbols c hm hf
    unfold advance2
    have hsuf := advance_suffix tb o symbols c
    have htot := advance_total' tb o symbols c hs hm
    have hstrict := advance_strict tb o symbols c
    split
    · -- base advance failed
      rename_i e c1 heq
      rw [heq] at hsuf htot
      refine ⟨.inr ⟨e, rfl, ?_⟩, hsuf⟩
      rcases htot with ⟨h, _⟩ | ⟨e', h, he⟩
      · cases h
      · simp only at h; cases h; exact .inl he
    · rename_i c1 heq
      rw [heq] at hsuf hstrict
      simp only at hsuf hstrict
      split
      · exact ⟨.inl rfl, hsuf⟩
      · rename_i hcomment
        split
        · exact ⟨.inr ⟨_, rfl, wrongSyntax_lexErr _⟩, hsuf⟩
        · -- inside a comment
          have hne : c1.nextToken.symbol ≠ "(end)" := by
            intro h
            rw [h] at hcomment
            exact hcomment (by decide)
          have hlt : c1.tokens.length < c.tokens.length := hstrict trivial hne
          have hmu : mu c1 < c1.tokens.length + 2 := by unfold mu; split <;> omega
          have hcl := commentLoop_spec tb hs (c1.tokens.length + 2) 1 c1 hmu
          have hcs := commentLoop_suffix tb (c1.tokens.length + 2) 1 c1
          split
          · rename_i e c2 heq2
            rw [heq2] at hcl hcs
            refine ⟨.inr ⟨e, rfl, ?_⟩, hcs.trans hsuf⟩
            rcases hcl.1 with h | ⟨e', h, he⟩
            · cases h
            · simp only at h; cases h; exact he
          · rename_i c2 heq2
            rw [heq2] at hcl hcs
            simp only at hcl hcs
            have hsuf2 : c2.tokens <:+ c.tokens := hcs.trans hsuf
            have hm2 : ∀ m ∈ c2.tokens, FromPattern m = true := fun m h => hm m (hsuf2.subset h)
            have hf2 : c2.tokens.length < fuel := by
              have := hcl.2; omega
            have hrec := ih [":)"] c2 hm2 hf2
            split
            · rename_i e c3 heq3
              rw [heq3] at hrec
              refine ⟨.inr ⟨e, rfl, ?_⟩, hrec.2.trans hsuf2⟩
              rcases hrec.1 with h | ⟨e', h, he⟩
              · cases h
              · simp only at h; cases h; exact he
            · rename_i c3 heq3
              rw [heq3] at hrec
              split
              · exact ⟨.inr ⟨_, rfl, wrongSyntax_lexErr _⟩, hrec.2.trans hsuf2⟩
              · exact ⟨.inl rfl, hrec.2.trans hsuf2⟩

end EPV.Lexer

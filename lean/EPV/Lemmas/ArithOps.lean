/-
C06: operator-level lemmas — each operator of the model against the F&O specification, by operand class
(exact operands: xs:integer / xs:decimal;  xs:double operands: special-value dispatch up to `R`).
-/
import EPV.Lemmas.ArithRound
open EPV.FOArith
namespace EPV.Arith

theorem decVal_zero_scale (n : Int) : decVal n 0 = (n : Rat) := by simp [decVal, p10]

theorem absNum_dec (n : Int) (s : Nat) : absNum (.dec n s) = .decimal (decVal n s) := rfl

theorem floor_intCast' (n : Int) : ((n : Rat)).floor = n := Rat.floor_intCast n

theorem decAdd_exact (a : Int) (sa : Nat) (b : Int) (sb : Nat)
    (hfit : numDigits (a * p10 (max sa sb - sa) + b * p10 (max sa sb - sb)).natAbs ≤ 28) :
    decVal (decAdd a sa b sb).1 (decAdd a sa b sb).2 = decVal a sa + decVal b sb := by
  unfold decAdd
  simp only []
  rw [ctx28_of_fits _ _ hfit]
  simp only []
  rw [decVal_add, decVal_align a sa _ (by omega), decVal_align b sb _ (by omega)]

theorem decMul_exact (a : Int) (sa : Nat) (b : Int) (sb : Nat)
    (hfit : numDigits (a * b).natAbs ≤ 28) :
    decVal (decMul a sa b sb).1 (decMul a sa b sb).2 = decVal a sa * decVal b sb := by
  unfold decMul
  rw [ctx28_of_fits _ _ hfit]
  exact decVal_mul a b sa sb

theorem add_exact_eq_spec (R : Rounding) (a b : Num) (x : Int) (sx : Nat) (y : Int) (sy : Nat)
    (ha : asDec a = some (x, sx)) (hb : asDec b = some (y, sy))
    (hfit : trigIdef_bin .add a b = false) :
    (opAdd R a b).map absNum = specBin R .add (absNum a) (absNum b) := by
  cases a <;> cases b <;> simp [asDec] at ha hb
  all_goals (obtain ⟨rfl, rfl⟩ := ha; obtain ⟨rfl, rfl⟩ := hb)
  · simp [opAdd, coerce, mixedOverflow, intOvf, isFloat, promF, isFlt, isDbl, absNum, specBin, promote, XVal.ty, Ty.rank, XVal.toRat?, exactBin, Except.map, pure, Except.pure]
    rw [← Int.cast_add, floor_intCast']
  all_goals
    simp only [trigIdef_bin, asDec, decide_eq_false_iff_not, not_lt] at hfit
    have h := decAdd_exact _ _ _ _ hfit
    simp [opAdd, coerce, mixedOverflow, intOvf, isFloat, promF, isFlt, isDbl, asDec, mkDec, absNum_dec, specBin, promote, XVal.ty, Ty.rank, XVal.toRat?, exactBin,
      Except.map, pure, Except.pure, absNum, h, decVal_zero_scale]
    first | done | (simp only [decVal] at h; simpa [p10] using h)


theorem decVal_eq_zero_iff (n : Int) (s : Nat) : decVal n s = 0 ↔ n = 0 := by
  unfold decVal
  have := p10_castR_pos s
  constructor
  · intro h
    have : (n : Rat) = 0 := by
      rcases div_eq_zero_iff.1 h with h | h
      · exact h
      · linarith
    exact_mod_cast this
  · intro h; simp [h]

theorem decIdiv_of_fits (a : Int) (sa : Nat) (b : Int) (sb : Nat)
    (h : numDigits (decQuotMag a sa b sb) ≤ 28) :
    decIdiv a sa b sb = some (if (a < 0) = (b < 0) then (decQuotMag a sa b sb : Int)
                              else -(decQuotMag a sa b sb : Int)) := by
  unfold decIdiv
  simp only []
  rw [if_neg (by omega)]

theorem idiv_exact_eq_spec (R : Rounding) (a b : Num) (x : Int) (sx : Nat) (y : Int) (sy : Nat)
    (ha : asDec a = some (x, sx)) (hb : asDec b = some (y, sy))
    (hfit : trigIdef_bin .idiv a b = false) :
    (opIdiv R a b).map absNum = specBin R .idiv (absNum a) (absNum b) := by
  cases a <;> cases b <;> simp [asDec] at ha hb
  all_goals (obtain ⟨h1, h2⟩ := ha; obtain ⟨h3, h4⟩ := hb; have h1 := h1.symm; have h2 := h2.symm
             have h3 := h3.symm; have h4 := h4.symm; subst h1 h2 h3 h4)
  · -- int, int
    by_cases hy : y = 0
    · simp [opIdiv, coerce, mixedOverflow, intOvf, isFloat, promF, isFlt, isDbl, numIsInf, numIsNan, isZero, hy, absNum, specBin, XVal.toRat?, exactBin,
        Except.map, throw, throwThe, MonadExceptOf.throw]
    · have hyq : (y : Rat) ≠ 0 := by exact_mod_cast hy
      simp [opIdiv, coerce, mixedOverflow, intOvf, isFloat, promF, isFlt, isDbl, numIsInf, numIsNan, isZero, hy, hyq, absNum, specBin, XVal.toRat?, exactBin,
        Except.map, pure, Except.pure, idivInt_eq_tdiv, trunc_div_int _ _ hy]
  all_goals
    by_cases hy : y = 0
    · simp [opIdiv, coerce, mixedOverflow, intOvf, isFloat, promF, isFlt, isDbl, numIsInf, numIsNan, isZero, hy, absNum, specBin, XVal.toRat?, exactBin,
        Except.map, throw, throwThe, MonadExceptOf.throw, p10]
    · simp [trigIdef_bin, asDec, hy] at hfit
      have hd := decIdiv_of_fits _ _ _ _ hfit
      have hq := decIdiv_eq_trunc _ _ y _ hy _ hd
      have hyq : (y : Rat) ≠ 0 := by exact_mod_cast hy
      simp [opIdiv, coerce, mixedOverflow, intOvf, isFloat, promF, isFlt, isDbl, numIsInf, numIsNan, isZero, hy, hyq, absNum, specBin, XVal.toRat?, exactBin,
        Except.map, pure, Except.pure, asDec, hd, p10_castR_pos]
      first
        | exact hq
        | (simp only [decVal] at hq; simpa [p10] using hq)

theorem decMod_of_fits (a : Int) (sa : Nat) (b : Int) (sb : Nat)
    (h : numDigits (decQuotMag a sa b sb) ≤ 28) :
    ∃ r, decMod a sa b sb = some r := by
  unfold decMod
  simp only []
  rw [if_neg (by omega)]
  exact ⟨_, rfl⟩

theorem mod_exact_eq_spec (R : Rounding) (v : Ver) (a b : Num) (x : Int) (sx : Nat) (y : Int) (sy : Nat)
    (ha : asDec a = some (x, sx)) (hb : asDec b = some (y, sy))
    (hfit : trigIdef_bin .mod a b = false) :
    (opMod R v a b).map absNum = specBin R .mod (absNum a) (absNum b) := by
  cases a <;> cases b <;> simp [asDec] at ha hb
  all_goals (obtain ⟨h1, h2⟩ := ha; obtain ⟨h3, h4⟩ := hb; have h1 := h1.symm; have h2 := h2.symm
             have h3 := h3.symm; have h4 := h4.symm; subst h1 h2 h3 h4)
  · -- int, int
    by_cases hy : y = 0
    · simp [opMod, coerce, mixedOverflow, intOvf, isFloat, promF, isFlt, isDbl, numIsInf, isZero, isFloat, hy, absNum, specBin, XVal.toRat?, exactBin,
        Except.map, throw, throwThe, MonadExceptOf.throw]
    · have hyq : (y : Rat) ≠ 0 := by exact_mod_cast hy
      have hm : ((x : Rat) - (y : Rat) * ((x.tdiv y : Int) : Rat)) = ((x.tmod y : Int) : Rat) := by
        have := Int.mul_tdiv_add_tmod x y
        have e : x.tmod y = x - y * x.tdiv y := by omega
        rw [e]; push_cast; ring
      simp [opMod, coerce, mixedOverflow, intOvf, isFloat, promF, isFlt, isDbl, numIsInf, isZero, isFloat, hy, hyq, absNum, specBin, XVal.toRat?, exactBin, promote,
        XVal.ty, Ty.rank, Except.map, pure, Except.pure, modInt_eq_tmod, trunc_div_int _ _ hy, hm, floor_intCast']
  all_goals
    by_cases hy : y = 0
    · simp [opMod, coerce, mixedOverflow, intOvf, isFloat, promF, isFlt, isDbl, numIsInf, isZero, isFloat, hy, absNum, specBin, XVal.toRat?, exactBin, asDec,
        Except.map, throw, throwThe, MonadExceptOf.throw, p10]
    · simp only [trigIdef_bin, asDec] at hfit
      have hne : (y != 0) = true := by simpa using hy
      rw [hne, Bool.true_and, Bool.or_eq_false_iff] at hfit
      have hfit : _ ∧ _ := ⟨Nat.le_of_not_lt (of_decide_eq_false hfit.1), Nat.le_of_not_lt (of_decide_eq_false hfit.2)⟩
      obtain ⟨r, hr⟩ := decMod_of_fits _ _ _ _ hfit.1
      have hq := decMod_eq_spec _ _ y _ hy r hr hfit.2
      have hyq : (y : Rat) ≠ 0 := by exact_mod_cast hy
      simp [opMod, coerce, mixedOverflow, intOvf, isFloat, promF, isFlt, isDbl, numIsInf, isZero, isFloat, hy, hyq, absNum, specBin, XVal.toRat?, exactBin, promote,
        XVal.ty, Ty.rank, Except.map, pure, Except.pure, asDec, hr, mkDec, p10_castR_pos]
      first
        | exact hq
        | (simp only [decVal] at hq; simpa [p10] using hq)

theorem div_dbl_eq_spec (R : Rounding) (v : Ver) (x y : Dbl) (hx : x.wf) :
    (opDiv R v (.dbl x) (.dbl y)).map absNum = specBin R .div (.double x) (.double y) := by
  cases x <;> cases y <;>
    simp [opDiv, coerce, mixedOverflow, intOvf, isFloat, promF, isFlt, isDbl, isZero, Dbl.isZero, asDec, liftF, ftruediv, ieeeDiv, specBin, promote, XVal.ty, Ty.rank,
      XVal.toRat?, floatBin, XVal.toDbl, mkFloating, absNum, isFloat, signOf, zeroIsNeg, Dbl.isNeg, Except.map, pure, Except.pure]
  · rename_i a b; cases a <;> simp
  · rename_i q b
    have hq : q ≠ 0 := hx
    by_cases h : 0 < q
    · have : ¬ q < 0 := by linarith
      simp [h, this]
    · have : q < 0 := lt_of_le_of_ne (not_lt.1 h) hq
      simp [h, this]


theorem mod_dbl_eq_spec (R : Rounding) (v : Ver) (x y : Dbl) :
    (opMod R v (.dbl x) (.dbl y)).map absNum = specBin R .mod (.double x) (.double y) := by
  cases x <;> cases y <;> cases v <;>
    simp_all [opMod, coerce, mixedOverflow, intOvf, isFloat, promF, isFlt, isDbl, asDblOf, isZero, Dbl.isZero, asDec, liftF,
      fmod, ieeeMod, specBin, promote, XVal.ty, Ty.rank,
      XVal.toRat?, floatBin, XVal.toDbl, mkFloating, absNum, isFloat, numIsInf, numIsNan, Dbl.isInf, Dbl.isNan,
      pyFloatModIsNan, Except.map, pure, Except.pure]

/-- truncation from floor and the exactness test, as `idiv` does it on floats -/
theorem floor_corr_eq_trunc (q : Rat) :
    (if q.floor ≥ 0 ∨ (q.floor : Rat) = q then q.floor else q.floor + 1) = trunc q := by
  unfold trunc
  have hfl : (q.floor : Rat) ≤ q := Int.floor_le q
  by_cases h0 : 0 ≤ q
  · have : 0 ≤ q.floor := Int.floor_nonneg.2 h0
    simp [h0, this]
  · have hneg : q < 0 := not_le.1 h0
    have hf : q.floor < 0 := by
      have : (q.floor : Rat) < 0 := lt_of_le_of_lt hfl hneg
      exact_mod_cast this
    have : ¬ q.floor ≥ 0 := by omega
    simp only [h0, if_false, this, false_or]
    rw [Rat.ceil_eq_neg_floor_neg]
    by_cases hi : (q.floor : Rat) = q
    · simp only [hi, if_true]
      have : (-q).floor = -q.floor := by
        show ⌊-q⌋ = -q.floor
        rw [← hi, ← Int.cast_neg, Int.floor_intCast]
        congr 1
      omega
    · simp only [hi, if_false]
      have hlt : (q.floor : Rat) < q := lt_of_le_of_ne hfl hi
      have hlt2 : q < (q.floor : Rat) + 1 := Int.lt_floor_add_one q
      have : (-q).floor = -q.floor - 1 := by
        show ⌊-q⌋ = -q.floor - 1
        rw [Int.floor_eq_iff]; push_cast; constructor <;> linarith
      omega

theorem idiv_dbl_eq_spec (R : Rounding) (x y : Dbl) :
    (opIdiv R (.dbl x) (.dbl y)).map absNum = specBin R .idiv (.double x) (.double y) := by
  cases x <;> cases y <;>
    simp [opIdiv, coerce, mixedOverflow, intOvf, isFloat, promF, isFlt, isDbl, isZero, Dbl.isZero, asDec, idivFloat, dblIdiv, specBin, promote, XVal.ty, Ty.rank,
      XVal.toRat?, floatBin, XVal.toDbl, absNum, numIsInf, numIsNan, Dbl.isInf, Dbl.isNan,
      Except.map, pure, Except.pure, bind, Except.bind, throw, throwThe, MonadExceptOf.throw]


theorem quantMag_zero (m : Mode) (p : Int) : quantMag m 0 p = 0 := by
  unfold quantMag
  have h10 := p10_pos (-p).toNat
  by_cases hp : 0 ≤ p <;> simp [hp, roundMag] <;> omega

theorem unscale_zero (neg : Bool) (p : Int) : unscale neg 0 p = 0 := by
  rw [unscale_eq]; cases neg <;> simp

theorem intCast_eq_zero_iff (i : Int) : ((i : Rat) = 0) ↔ i = 0 := by
  constructor
  · intro h; exact_mod_cast h
  · intro h; rw [h]; rfl

theorem floorceil_dbl_eq_spec (R : Rounding) (ceil : Bool) (d : Dbl) :
    fnFloorCeil.go R ceil d = floatUn R.r64 (if ceil then .ceiling else .floor) d := by
  cases d <;> cases ceil <;> simp [fnFloorCeil.go, floatUn, backTo, exactUn, ofInt, rnd, intCast_eq_zero_iff] <;>
    (split <;> simp_all)

theorem round_dbl_eq_spec (R : Rounding) (d : Dbl) (p : Int)
    (hk : trigF06p (.round p) (.dbl d) = false) :
    roundCore R (.dbl d) p = .dbl (floatUn R.r64 (.round p) d) := by
  cases d with
  | nan => simp [roundCore, exactOf, floatUn]
  | inf n => simp [roundCore, exactOf, floatUn]
  | zero n =>
    simp [roundCore, exactOf, floatUn, quantMag_zero, numDigits, numDigits10, roundCtxDigits, retype, unscale_zero, argNeg, Dbl.isNeg]
  | fin x =>
    have hd : ¬ numDigits (quantMag (if x > 0 then Mode.halfUp else Mode.halfDown) x p) > roundCtxDigits := by
      simpa [trigF06p, exactOf] using hk
    simp only [roundCore, exactOf, hd, if_false, retype, argNeg, Dbl.isNeg, floatUn, backTo, exactUn]
    simp only [quantize_round_eq]
    by_cases h : roundHalfUp x p = 0 <;> simp [h]

theorem rhe_dbl_eq_spec (R : Rounding) (d : Dbl) (p : Int) :
    fnRhe R (.dbl d) p = .dbl (floatUn R.r64 (.rhe p) d) := by
  cases d with
  | nan => simp [fnRhe, exactOf, floatUn]
  | inf n => simp [fnRhe, exactOf, floatUn]
  | zero n =>
    simp [fnRhe, exactOf, floatUn, quantMag_zero, retype, unscale_zero, argNeg, Dbl.isNeg]
  | fin x =>
    simp only [fnRhe, exactOf, retype, argNeg, Dbl.isNeg, floatUn, backTo, exactUn]
    simp only [quantize_rhe_eq]
    by_cases h : roundHalfEven x p = 0 <;> simp [h]


theorem sub_exact_eq_spec (R : Rounding) (a b : Num) (x : Int) (sx : Nat) (y : Int) (sy : Nat)
    (ha : asDec a = some (x, sx)) (hb : asDec b = some (y, sy))
    (hfit : trigIdef_bin .sub a b = false) :
    (opSub R a b).map absNum = specBin R .sub (absNum a) (absNum b) := by
  cases a <;> cases b <;> simp [asDec] at ha hb
  all_goals (obtain ⟨h1, h2⟩ := ha; obtain ⟨h3, h4⟩ := hb; have h1 := h1.symm; have h2 := h2.symm
             have h3 := h3.symm; have h4 := h4.symm; subst h1 h2 h3 h4)
  · simp [opSub, coerce, mixedOverflow, intOvf, isFloat, promF, isFlt, isDbl, absNum, specBin, promote, XVal.ty, Ty.rank, XVal.toRat?, exactBin, Except.map, pure, Except.pure]
    rw [← Int.cast_sub, floor_intCast']
  all_goals
    simp only [trigIdef_bin, asDec, decide_eq_false_iff_not, not_lt] at hfit
    rw [Int.sub_eq_add_neg, ← Int.neg_mul] at hfit
    have h := decAdd_exact _ _ _ _ hfit
    rw [decVal_neg] at h
    simp [opSub, coerce, mixedOverflow, intOvf, isFloat, promF, isFlt, isDbl, asDec, mkDec, absNum_dec, specBin, promote, XVal.ty, Ty.rank, XVal.toRat?, exactBin,
      Except.map, pure, Except.pure, absNum, h, decVal_zero_scale, sub_eq_add_neg]
    first | done | (simp only [decVal] at h; simpa [p10, sub_eq_add_neg] using h)

theorem mul_exact_eq_spec (R : Rounding) (a b : Num) (x : Int) (sx : Nat) (y : Int) (sy : Nat)
    (ha : asDec a = some (x, sx)) (hb : asDec b = some (y, sy))
    (hfit : trigIdef_bin .mul a b = false) :
    (opMul R a b).map absNum = specBin R .mul (absNum a) (absNum b) := by
  cases a <;> cases b <;> simp [asDec] at ha hb
  all_goals (obtain ⟨h1, h2⟩ := ha; obtain ⟨h3, h4⟩ := hb; have h1 := h1.symm; have h2 := h2.symm
             have h3 := h3.symm; have h4 := h4.symm; subst h1 h2 h3 h4)
  · simp [opMul, coerce, mixedOverflow, intOvf, isFloat, promF, isFlt, isDbl, absNum, specBin, promote, XVal.ty, Ty.rank, XVal.toRat?, exactBin, Except.map, pure, Except.pure]
    rw [← Int.cast_mul, floor_intCast']
  all_goals
    simp only [trigIdef_bin, asDec, decide_eq_false_iff_not, not_lt] at hfit
    have h := fun sa sb => decMul_exact x sa y sb hfit
    simp [opMul, coerce, mixedOverflow, intOvf, isFloat, promF, isFlt, isDbl, asDec, mkDec, absNum_dec, specBin, promote, XVal.ty, Ty.rank, XVal.toRat?, exactBin,
      Except.map, pure, Except.pure, absNum, decVal_zero_scale]
    first
      | done
      | (have h' := h 0 sy; simp only [decVal] at h'; simpa [p10] using h')
      | (have h' := h sx 0; simp only [decVal] at h'; simpa [p10] using h')
      | (have h' := h sx sy; simp only [decVal] at h'; simpa [p10] using h')

/-- division by an integer or decimal zero raises FOAR0001 (XPath 2.0+), whatever the dividend -/
theorem div_zero_exact (R : Rounding) (v : Ver) (hv : v ≠ .v10) (a b : Num)
    (ha : isFloat a = false) (hb : isFloat b = false) (hz : isZero b = true) :
    opDiv R v a b = .error .FOAR0001 ∧ opIdiv R a b = .error .FOAR0001 ∧ opMod R v a b = .error .FOAR0001 := by
  cases a <;> cases b <;> simp [isFloat] at ha hb <;> simp [isZero] at hz <;> subst hz <;> cases v <;>
    simp_all [opDiv, opIdiv, opMod, coerce, mixedOverflow, intOvf, isFloat, promF, isFlt, isDbl, isZero, isFloat, numIsInf, numIsNan, asDec, throw, throwThe,
      MonadExceptOf.throw]


theorem decVal_neg_iff (n : Int) (s : Nat) : decVal n s < 0 ↔ n < 0 := by
  unfold decVal
  have h := p10_castR_pos s
  rw [div_neg_iff]
  constructor
  · rintro (⟨_, h2⟩ | ⟨h1, _⟩)
    · linarith
    · exact_mod_cast h1
  · intro hn; right; exact ⟨by exact_mod_cast hn, h⟩

theorem absNum_decOfUnscaled (neg : Bool) (c : Nat) (p : Int) :
    absNum (decOfUnscaled neg c p) = .decimal (unscale neg c p) := by
  unfold decOfUnscaled unscale
  by_cases hp : 0 ≤ p
  · cases neg <;> simp [hp, absNum, neg_div]
  · cases neg <;> simp [hp, absNum, p10]

theorem round_dec_eq_spec (R : Rounding) (n : Int) (s : Nat) (p : Int)
    (hk : trigF06p (.round p) (.dec n s) = false) :
    absNum (roundCore R (.dec n s) p) = .decimal (roundHalfUp (decVal n s) p) := by
  have hx : ((n : Rat) / ((p10 s : Nat) : Rat)) = decVal n s := rfl
  have hd : ¬ numDigits (quantMag (if decVal n s > 0 then Mode.halfUp else Mode.halfDown) (decVal n s) p) > roundCtxDigits := by
    simpa [trigF06p, exactOf, hx] using hk
  have hneg : argNeg (.dec n s) = decide (decVal n s < 0) := by
    simp [argNeg, decVal_neg_iff]
  simp only [roundCore, exactOf, hx, hd, if_false, hneg, absNum_decOfUnscaled, quantize_round_eq]

theorem rhe_dec_eq_spec (R : Rounding) (n : Int) (s : Nat) (p : Int)
    (hk : trigF06p (.rhe p) (.dec n s) = false) :
    absNum (fnRhe R (.dec n s) p) = .decimal (roundHalfEven (decVal n s) p) := by
  have hx : ((n : Rat) / ((p10 s : Nat) : Rat)) = decVal n s := rfl
  have hd : ¬ numDigits (quantMag Mode.halfEven (decVal n s) p) > roundCtxDigits := by
    simpa [trigF06p, exactOf, rheDecOverflow, hx] using hk
  have hneg : argNeg (.dec n s) = decide (decVal n s < 0) := by
    simp [argNeg, decVal_neg_iff]
  simp only [fnRhe, exactOf, hx, hd, if_false, hneg, absNum_decOfUnscaled, quantize_rhe_eq]

theorem intCast_neg_iff (n : Int) : ((n : Rat) < 0) ↔ n < 0 := by
  constructor <;> intro h <;> exact_mod_cast h

theorem round_int_eq_spec (R : Rounding) (n : Int) (p : Int)
    (hk : trigF06p (.round p) (.int n) = false) :
    absNum (roundCore R (.int n) p) = .integer (roundHalfUp (n : Rat) p).floor := by
  have hd : ¬ numDigits (quantMag (if (n : Rat) > 0 then Mode.halfUp else Mode.halfDown) (n : Rat) p) > roundCtxDigits := by
    simpa [trigF06p, exactOf] using hk
  have hneg : argNeg (.int n) = decide ((n : Rat) < 0) := by
    simp [argNeg, intCast_neg_iff]
  simp only [roundCore, exactOf, hd, if_false, hneg, absNum, quantize_round_eq]

theorem nearestEven_intCast (m : Int) : nearestEven (m : Rat) = m :=
  nearestEven_lo (m : Rat) m (Rat.floor_intCast m) (by simp)

theorem rhe_int_nonneg (n p : Int) (hp : 0 ≤ p) : (roundHalfEven (n : Rat) p).floor = n := by
  unfold roundHalfEven
  rw [pow10_nonneg_eq p hp]
  have e : (n : Rat) * ((p10 p.toNat : Nat) : Rat) = ((n * (p10 p.toNat : Nat) : Int) : Rat) := by push_cast; rfl
  rw [e, nearestEven_intCast]
  have h := p10_castR_pos p.toNat
  have e2 : (((n * (p10 p.toNat : Nat) : Int)) : Rat) / ((p10 p.toNat : Nat) : Rat) = (n : Rat) := by
    push_cast; field_simp
  rw [e2, floor_intCast']

theorem rhe_int_eq_spec (R : Rounding) (n : Int) (p : Int) :
    absNum (fnRhe R (.int n) p) = .integer (roundHalfEven (n : Rat) p).floor := by
  have hneg : argNeg (.int n) = decide ((n : Rat) < 0) := by
    simp [argNeg, intCast_neg_iff]
  by_cases hp : 0 ≤ p
  · -- non-negative precision: an integer is returned unchanged; the spec value is the integer itself
    simp only [fnRhe, exactOf, hp, if_true, absNum]
    congr 1
    exact (rhe_int_nonneg n p hp).symm
  · simp only [fnRhe, exactOf, hp, if_false, hneg, absNum, quantize_rhe_eq]


theorem liftF_ty (R : Rounding) (f : Dbl → Dbl → Dbl) (a b : Num) (h : isFloat a = true ∨ isFloat b = true)
    (ha : ∀ n s, a ≠ .dec n s) (hb : ∀ n s, b ≠ .dec n s) :
    numTy (liftF R f a b) = promote (numTy a) (numTy b) := by
  cases a <;> cases b <;> simp_all [liftF, numTy, promote, Ty.rank, isFloat]

theorem type_promotion_addsubmul (R : Rounding) (a b r : Num) :
    (opAdd R a b = .ok r → numTy r = promote (numTy a) (numTy b)) ∧
    (opSub R a b = .ok r → numTy r = promote (numTy a) (numTy b)) ∧
    (opMul R a b = .ok r → numTy r = promote (numTy a) (numTy b)) := by
  refine ⟨?_, ?_, ?_⟩ <;> intro h <;>
  cases a <;> cases b <;>
    simp [opAdd, opSub, opMul, coerce, mixedOverflow, intOvf, isFloat, promF, isFlt, isDbl, asDec, liftF, mkDec, pure, Except.pure,
      throw, throwThe, MonadExceptOf.throw] at h <;>
    (try split at h) <;> (try cases h) <;> (try subst h) <;> simp_all [numTy, promote, Ty.rank]


theorem type_idiv (R : Rounding) (a b r : Num) (h : opIdiv R a b = .ok r) : numTy r = .integer := by
  unfold opIdiv at h
  simp only [pure, Except.pure, throw, throwThe, MonadExceptOf.throw] at h
  repeat' split at h
  all_goals (cases h; try rfl)

theorem type_div (R : Rounding) (v : Ver) (hv : v ≠ .v10) (a b r : Num) (h : opDiv R v a b = .ok r) :
    numTy r = resultTy .div (numTy a) (numTy b) := by
  cases a <;> cases b <;>
    simp [opDiv, coerce, mixedOverflow, intOvf, isFloat, promF, isFlt, isDbl, asDec, liftF, mkDec, pure, Except.pure,
      throw, throwThe, MonadExceptOf.throw] at h <;>
    (repeat' split at h) <;> (try cases h) <;> simp_all [numTy, resultTy, promote, Ty.rank, isZero, isFloat]

theorem type_mod (R : Rounding) (v : Ver) (a b r : Num) (h : opMod R v a b = .ok r) :
    numTy r = resultTy .mod (numTy a) (numTy b) := by
  cases a <;> cases b <;>
    simp [opMod, coerce, mixedOverflow, intOvf, isFloat, promF, isFlt, isDbl, asDec, liftF, mkDec, pure, Except.pure,
      throw, throwThe, MonadExceptOf.throw, numIsInf, numIsNan, isFloat] at h <;>
    (repeat' split at h) <;> (try cases h) <;> simp_all [numTy, resultTy, promote, Ty.rank, isZero, isFloat]

/-- `idiv` on two xs:integer operands, all integers (no digit limit: Python ints are unbounded) -/
theorem idiv_int_int_eq_spec (R : Rounding) (x y : Int) :
    (opIdiv R (.int x) (.int y)).map absNum = specBin R .idiv (.integer x) (.integer y) := by
  by_cases hy : y = 0
  · simp [opIdiv, coerce, mixedOverflow, intOvf, isFloat, promF, isFlt, isDbl, numIsInf, numIsNan, isZero, hy, absNum, specBin, XVal.toRat?, exactBin,
      Except.map, throw, throwThe, MonadExceptOf.throw]
  · have hyq : (y : Rat) ≠ 0 := by exact_mod_cast hy
    simp [opIdiv, coerce, mixedOverflow, intOvf, isFloat, promF, isFlt, isDbl, numIsInf, numIsNan, isZero, hy, hyq, absNum, specBin, XVal.toRat?, exactBin,
      Except.map, pure, Except.pure, idivInt_eq_tdiv, trunc_div_int _ _ hy]

theorem mod_int_int_eq_spec (R : Rounding) (v : Ver) (x y : Int) :
    (opMod R v (.int x) (.int y)).map absNum = specBin R .mod (.integer x) (.integer y) := by
  by_cases hy : y = 0
  · simp [opMod, coerce, mixedOverflow, intOvf, isFloat, promF, isFlt, isDbl, numIsInf, isZero, isFloat, hy, absNum, specBin, XVal.toRat?, exactBin,
      Except.map, throw, throwThe, MonadExceptOf.throw]
  · have hyq : (y : Rat) ≠ 0 := by exact_mod_cast hy
    have hm : ((x : Rat) - (y : Rat) * ((x.tdiv y : Int) : Rat)) = ((x.tmod y : Int) : Rat) := by
      have := Int.mul_tdiv_add_tmod x y
      have e : x.tmod y = x - y * x.tdiv y := by omega
      rw [e]; push_cast; ring
    simp [opMod, coerce, mixedOverflow, intOvf, isFloat, promF, isFlt, isDbl, numIsInf, isZero, isFloat, hy, hyq, absNum, specBin, XVal.toRat?, exactBin, promote,
      XVal.ty, Ty.rank, Except.map, pure, Except.pure, modInt_eq_tmod, trunc_div_int _ _ hy, hm, floor_intCast']

end EPV.Arith

import EPV.Lemmas.USet
namespace EPV.USet

/-- the state carried by the `add` loop: either nothing has been rewritten yet
(`s`,`e` are `v`'s own bounds) or the loop has executed `start_cp = higher_bound; continue`
and the next entry starts exactly at `s`. -/
def AddSt (v : CP) (s e : Nat) (l : List CP) : Prop :=
  (s = v.lo ∧ e = v.hi) ∨ (∃ c tl, l = c :: tl ∧ c.lo = s)

theorem addAux_mem (v : CP) : ∀ (l : List CP) (s e : Nat), s < e → WInv l → AddSt v s e l →
    ∀ x, memL x (addAux v s e l) ↔ (memL x l ∨ (s ≤ x ∧ x < e)) := by
  intro l
  induction l with
  | nil =>
    intro s e hse _ hv x
    rcases hv with ⟨rfl, rfl⟩ | ⟨c, tl, h, _⟩
    · simp [addAux, memL, CP.mem]
    · cases h
  | cons c rest ih =>
    intro s e hse hw hv x
    have hc := winv_head hw
    have hlb := winv_lb hw x
    simp only [addAux]
    split
    · rename_i h1
      rcases hv with ⟨rfl, rfl⟩ | ⟨c', tl, h, hs⟩
      · simp only [memL, CP.mem]; grind
      · cases h; omega
    · split
      · rename_i h1 h2
        have hv' : AddSt v s e rest := by
          rcases hv with h | ⟨c', tl, h, hs⟩
          · exact Or.inl h
          · cases h; omega
        have := ih s e hse (winv_tail hw) hv' x
        simp only [memL, this]
        grind
      · split
        · rename_i h1 h2 h3
          cases rest with
          | nil =>
            simp only [memL, CP.mem, CP.lo_rng, CP.hi_rng]; grind
          | cons n tl =>
            simp only []
            have hn := hw.2.1
            have hnn := winv_head hw.2.2
            split
            · rename_i h4
              simp only [memL, CP.mem, CP.lo_rng, CP.hi_rng] at hlb ⊢
              grind
            · rename_i h4
              have := ih n.lo e (by omega) hw.2.2 (Or.inr ⟨n, tl, rfl, rfl⟩) x
              simp only [memL] at this hlb ⊢
              rw [this]
              simp only [CP.mem, CP.lo_rng, CP.hi_rng] at hlb ⊢
              grind
        · split
          · rename_i h1 h2 h3 h4
            simp only [memL, CP.mem, CP.lo_rng, CP.hi_rng] at hlb ⊢; grind
          · rename_i h1 h2 h3 h4
            simp only [memL, CP.mem] at hlb ⊢; grind

theorem addAux_head (v : CP) : ∀ (l : List CP) (s e b : Nat), s < e → headLoGe b l → b ≤ s →
    (b ≤ v.lo ∨ ∃ c tl, l = c :: tl ∧ c.lo = s) → headLoGe b (addAux v s e l) := by
  intro l
  induction l with
  | nil =>
    intro s e b _ _ hs hv
    rcases hv with hv | ⟨c, tl, h, _⟩
    · simpa [addAux, headLoGe] using hv
    · cases h
  | cons c rest ih =>
    intro s e b hse hb hs hv
    have hb' : b ≤ c.lo := hb
    simp only [addAux]
    split
    · rcases hv with hv | ⟨c', tl, h, hs'⟩
      · exact hv
      · cases h; simp only [headLoGe]; omega
    · split
      · exact hb'
      · split
        · cases rest with
          | nil => simp only [headLoGe, CP.lo_rng]; omega
          | cons n tl =>
            simp only []
            split <;> (simp only [headLoGe, CP.lo_rng]; omega)
        · split
          · simp only [headLoGe, CP.lo_rng]; omega
          · exact hb'

theorem addAux_winv (v : CP) (hvv : v.lo < v.hi) : ∀ (l : List CP) (s e : Nat), s < e → WInv l →
    AddSt v s e l → WInv (addAux v s e l) := by
  intro l
  induction l with
  | nil =>
    intro s e _ _ _
    simpa [addAux, WInv] using hvv
  | cons c rest ih =>
    intro s e hse hw hv
    have hc := winv_head hw
    obtain ⟨_, hhead, hwr⟩ := winv_cons.mp hw
    simp only [addAux]
    split
    · rename_i h1
      rcases hv with ⟨rfl, rfl⟩ | ⟨c', tl, h, hs⟩
      · exact winv_cons.mpr ⟨hvv, (by simpa [headLoGe] using Nat.le_of_lt h1), hw⟩
      · cases h; omega
    · split
      · rename_i h1 h2
        have hv' : AddSt v s e rest := by
          rcases hv with h | ⟨c', tl, h, hs⟩
          · exact Or.inl h
          · cases h; omega
        refine winv_cons.mpr ⟨hc, ?_, ih s e hse hwr hv'⟩
        apply addAux_head v rest s e c.hi hse hhead (by omega)
        rcases hv with ⟨h, _⟩ | ⟨c', tl, h, hs⟩
        · left; omega
        · cases h; omega
      · split
        · rename_i h1 h2 h3
          cases rest with
          | nil => simp only [WInv, CP.lo_rng, CP.hi_rng]; omega
          | cons n tl =>
            simp only []
            have hn : c.hi ≤ n.lo := hhead
            have hnn := winv_head hwr
            split
            · rename_i h4
              refine winv_cons.mpr ⟨by simp only [CP.lo_rng, CP.hi_rng]; omega, ?_, hwr⟩
              simpa [headLoGe] using h4
            · rename_i h4
              refine winv_cons.mpr ⟨by simp only [CP.lo_rng, CP.hi_rng]; omega, ?_,
                ih n.lo e (by omega) hwr (Or.inr ⟨n, tl, rfl, rfl⟩)⟩
              apply addAux_head v (n :: tl) n.lo e _ (by omega) (by simp [headLoGe]) (by simp)
              exact Or.inr ⟨n, tl, rfl, rfl⟩
        · split
          · rename_i h1 h2 h3 h4
            refine winv_cons.mpr ⟨by simp only [CP.lo_rng, CP.hi_rng]; omega, ?_, hwr⟩
            simpa using hhead
          · exact hw

end EPV.USet

namespace EPV.USet
open EPV.USet

theorem canon_cons' {c : CP} {l : List CP} :
    Canon (c :: l) ↔ c.canon ∧ headLoGe (c.hi + 1) l ∧ Canon l := by
  cases l with
  | nil => simp [Canon, headLoGe]
  | cons d ds => simp [Canon, headLoGe, Nat.lt_iff_add_one_le]

theorem CP.canon_lt' {c : CP} (h : c.canon) : c.lo < c.hi := by
  cases c with
  | one n => simp
  | rng a b => simp only [CP.canon] at h; simp only [CP.lo_rng, CP.hi_rng]; omega

/-- `add` keeps a canonical list canonical whenever the trigger predicate of F13 is off -/
theorem addAux_canon_safe (v : CP) (hv : v.canon) : ∀ (l : List CP), Canon l →
    addSafeAux v v.lo v.hi l = true → Canon (addAux v v.lo v.hi l) := by
  have hvlt := CP.canon_lt' hv
  intro l
  induction l with
  | nil => intro _ _; simpa [addAux, Canon] using hv
  | cons c rest ih =>
    intro hcn hsafe
    obtain ⟨hc, hhead, hcr⟩ := canon_cons'.mp hcn
    have hclt := CP.canon_lt' hc
    simp only [addSafeAux] at hsafe
    simp only [addAux]
    split
    · rename_i h1
      exact canon_cons'.mpr ⟨hv, by simp only [headLoGe]; omega, hcn⟩
    · rename_i h1
      rw [if_neg h1] at hsafe
      split
      · rename_i h2
        rw [if_pos h2] at hsafe
        refine canon_cons'.mpr ⟨hc, ?_, ih hcr hsafe⟩
        exact addAux_head v rest v.lo v.hi (c.hi + 1) hvlt hhead (by omega) (Or.inl (by omega))
      · rename_i h2
        rw [if_neg h2] at hsafe
        split
        · rename_i h3
          rw [if_pos h3] at hsafe
          cases rest with
          | nil => simp only [Canon, CP.canon]; omega
          | cons n tl =>
            simp only [] at hsafe ⊢
            have hn : v.hi < n.lo := by simpa using hsafe
            rw [if_pos (Nat.le_of_lt hn)]
            refine canon_cons'.mpr ⟨by simp only [CP.canon]; omega, ?_, hcr⟩
            simp only [headLoGe, CP.hi_rng]; omega
        · split
          · rename_i h3 h4
            refine canon_cons'.mpr ⟨by simp only [CP.canon]; omega, ?_, hcr⟩
            simpa using hhead
          · exact hcn

end EPV.USet

/-
C10 helper lemmas: boolean.
-/
import EPV.Lemmas.LexicalInt
namespace EPV.LexLemmas
open EPV

theorem mem_dropWhile_of_not {α} (p : α → Bool) (l : List α) (c : α) (hc : c ∈ l) (hp : p c = false) :
    c ∈ l.dropWhile p := by
  induction l with
  | nil => cases hc
  | cons a t ih =>
    by_cases ha : p a = true
    · rw [List.dropWhile_cons_of_pos ha]
      rcases List.mem_cons.mp hc with h | h
      · subst h; rw [hp] at ha; cases ha
      · exact ih h
    · rw [List.dropWhile_cons_of_neg ha]; exact hc

theorem mem_subWhite_of_mem (b : Bool) (s : List Char) (c : Char) (hc : c ∈ s)
    (hw : Lex.isPyWhite c = false) : c ∈ Lex.subWhite b s := by
  induction s generalizing b with
  | nil => cases hc
  | cons d ds ih =>
    unfold Lex.subWhite
    rcases List.mem_cons.mp hc with h | h
    · subst h; simp [hw]
    · split
      · split
        · exact ih _ h
        · exact List.mem_cons_of_mem _ (ih _ h)
      · exact List.mem_cons_of_mem _ (ih _ h)

/-- non-white characters survive the collapse -/
theorem mem_collapse_of_mem (s : List Char) (c : Char) (hc : c ∈ s) (hw : Lex.isPyWhite c = false) :
    c ∈ Lex.collapse s := by
  have hsp : (c == ' ') = false := by
    rw [beq_eq_false_iff_ne]; intro e; subst e; exact absurd hw (by decide)
  unfold Lex.collapse Lex.stripSp
  apply List.mem_reverse.mpr
  refine mem_dropWhile_of_not (fun x => x == ' ') _ c ?_ hsp
  apply List.mem_reverse.mpr
  refine mem_dropWhile_of_not (fun x => x == ' ') _ c ?_ hsp
  exact mem_subWhite_of_mem _ _ _ hc hw

/-- non-white characters of the collapse come from the input -/
theorem mem_of_mem_collapse (s : List Char) (c : Char) (hc : c ∈ Lex.collapse s) (hsp : c ≠ ' ') : c ∈ s := by
  rcases mem_subWhite _ _ _ (mem_stripSp _ _ hc) with h | h
  · exact absurd h hsp
  · exact h.1

/-- `BooleanProxy(s)` = (collapsed string is one of the four literals, value by the XSD mapping) -/
theorem boolCtor_eq (s : List Char) :
    Lex.boolCtor s =
      if XSD.booleanLex (Lex.collapse s) then .ok (XSD.booleanVal (Lex.collapse s)) else .error .value := by
  unfold Lex.boolCtor XSD.booleanLex XSD.booleanVal
  simp only
  have memT : ∀ x : Char, x ∈ Lex.collapse s → x ≠ ' ' → x ∈ s := fun x hx hne => mem_of_mem_collapse s x hx hne
  have memC : ∀ x : Char, x ∈ s → Lex.isPyWhite x = false → x ∈ Lex.collapse s :=
    fun x hx hw => mem_collapse_of_mem s x hx hw
  by_cases h1 : Lex.collapse s = ['t', 'r', 'u', 'e']
  · have : 't' ∈ s := memT 't' (by rw [h1]; decide) (by decide)
    simp [h1, this]
  by_cases h2 : Lex.collapse s = ['f', 'a', 'l', 's', 'e']
  · have ht : 't' ∉ s := fun hm => by have := memC 't' hm (by decide); rw [h2] at this; revert this; decide
    have h1' : '1' ∉ s := fun hm => by have := memC '1' hm (by decide); rw [h2] at this; revert this; decide
    simp [h2, ht, h1']
  by_cases h3 : Lex.collapse s = ['1']
  · have : '1' ∈ s := memT '1' (by rw [h3]; decide) (by decide)
    simp [h3, this]
  by_cases h4 : Lex.collapse s = ['0']
  · have ht : 't' ∉ s := fun hm => by have := memC 't' hm (by decide); rw [h4] at this; revert this; decide
    have h1' : '1' ∉ s := fun hm => by have := memC '1' hm (by decide); rw [h4] at this; revert this; decide
    simp [h4, ht, h1']
  simp [h1, h2, h3, h4]

/-- `^(?:true|false|1|0)$` on a newline-free string is membership in the four literals -/
theorem matchBoolean_eq (s : List Char) (h : '\n' ∉ s) : Lex.matchBoolean s = XSD.booleanLex s := by
  unfold Lex.matchBoolean XSD.booleanLex
  split
  · rename_i r
    have hr : '\n' ∉ r := fun hm => h (by simp [hm])
    rw [atEnd_of_no_nl r hr]; cases r <;> simp
  · rename_i r
    have hr : '\n' ∉ r := fun hm => h (by simp [hm])
    rw [atEnd_of_no_nl r hr]; cases r <;> simp
  · rename_i r
    have hr : '\n' ∉ r := fun hm => h (by simp [hm])
    rw [atEnd_of_no_nl r hr]; cases r <;> simp
  · rename_i r
    have hr : '\n' ∉ r := fun hm => h (by simp [hm])
    rw [atEnd_of_no_nl r hr]; cases r <;> simp
  · rename_i h1 h2 h3 h4
    symm
    simp only [Bool.or_eq_false_iff, beq_eq_false_iff_ne, ne_eq]
    refine ⟨⟨⟨?_, ?_⟩, ?_⟩, ?_⟩
    · intro e; exact h1 [] (by simpa using e)
    · intro e; exact h2 [] (by simpa using e)
    · intro e; exact h3 [] (by simpa using e)
    · intro e; exact h4 [] (by simpa using e)

end EPV.LexLemmas

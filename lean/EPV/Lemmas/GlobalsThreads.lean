/-
C19 — lemmas for the N-thread interleaving semantics (EPV.Globals.Thr): the inductive
invariant over the step relation.
-/
import EPV.Lemmas.Globals
namespace EPV.Globals.Thr

/-- per-thread part of the invariant, relative to the initial locale `L`: what a thread at this
program point knows about the shared state.  Points outside the critical section know nothing. -/
def TInv (L : Loc) (s : Shared) (t : Thread) : Prop :=
  match t.pc with
  | .idle => True
  | .acquire _ _ => True
  | .query _ _ => s.lc = L
  | .setReq _ _ saved => saved = L ∧ s.lc = L
  | .setFb saved => saved = L ∧ s.lc = L
  | .failRelease => s.lc = L
  | .body none none _ => True
  | .body none (some _) _ => False
  | .body (some _) none _ => False
  | .body (some saved) (some tg) _ => saved = L ∧ s.lc = tg
  | .restore saved => saved = L
  | .release => s.lc = L

/-- every recorded `strcoll` saw the locale its own scope installed -/
def SeenOK (t : Thread) : Prop := ∀ p ∈ t.seen, p.2 = p.1

/-- how one step of a thread can affect the lock -/
inductive Effect (s s' : Shared) (t t' : Thread) : Prop where
  | outside : t.pc.holds = false → t'.pc.holds = false → s' = s → Effect s s' t t'
  | acquire : t.pc.holds = false → t'.pc.holds = true → s.lock = false →
      s'.lock = true → s'.lc = s.lc → Effect s s' t t'
  | inside : t.pc.holds = true → t'.pc.holds = true → s'.lock = s.lock → Effect s s' t t'
  | release : t.pc.holds = true → t'.pc.holds = false → s'.lock = false → s'.lc = s.lc →
      Effect s s' t t'

set_option linter.unnecessarySimpa false in
/-- local preservation: one step of one thread -/
theorem step_local (w : World) (L : Loc) (hL : w.avail L = true) (s s' : Shared) (t t' : Thread)
    (h : step w s t = some (s', t')) (hT : TInv L s t) (hS : SeenOK t)
    (hlk : t.pc.holds = true → s.lock = true) (hfree : s.lock = false → s.lc = L) :
    TInv L s' t' ∧ SeenOK t' ∧ (s'.lock = false → s'.lc = L) ∧ Effect s s' t t' := by
  unfold step at h
  cases hpc : t.pc with
  | idle =>
    simp only [hpc] at h
    cases htd : t.todo with
    | nil => simp [htd] at h
    | cons j js =>
      simp only [htd] at h
      cases hj : j.mgr.lc with
      | none =>
        simp only [hj, Option.some.injEq, Prod.mk.injEq] at h
        obtain ⟨rfl, rfl⟩ := h
        exact ⟨by simp [TInv], hS, hfree, .outside (by simp [hpc, Pc.holds]) (by simp [Pc.holds]) rfl⟩
      | some req =>
        simp only [hj, Option.some.injEq, Prod.mk.injEq] at h
        obtain ⟨rfl, rfl⟩ := h
        exact ⟨by simp [TInv], hS, hfree, .outside (by simp [hpc, Pc.holds]) (by simp [Pc.holds]) rfl⟩
  | acquire req fb =>
    simp only [hpc] at h
    cases hl : s.lock with
    | true => simp [hl] at h
    | false =>
      simp only [hl, Bool.false_eq_true, ↓reduceIte, Option.some.injEq, Prod.mk.injEq] at h
      obtain ⟨rfl, rfl⟩ := h
      exact ⟨by simp [TInv, hfree hl], hS, by simp,
        .acquire (by simp [hpc, Pc.holds]) (by simp [Pc.holds]) hl rfl rfl⟩
  | query req fb =>
    simp only [hpc, Option.some.injEq, Prod.mk.injEq] at h
    obtain ⟨rfl, rfl⟩ := h
    have : s.lc = L := by simpa [TInv, hpc] using hT
    exact ⟨by simp [TInv, this], hS, hfree,
      .inside (by simp [hpc, Pc.holds]) (by simp [Pc.holds]) rfl⟩
  | setReq req fb saved =>
    simp only [hpc] at h
    have hT' : saved = L ∧ s.lc = L := by simpa [TInv, hpc] using hT
    have hlock : s.lock = true := hlk (by simp [hpc, Pc.holds])
    by_cases ha : w.avail (w.norm req) = true
    · simp only [ha, ↓reduceIte, Option.some.injEq, Prod.mk.injEq] at h
      obtain ⟨rfl, rfl⟩ := h
      exact ⟨by simp [TInv, hT'.1], hS, by simp [hlock],
        .inside (by simp [hpc, Pc.holds]) (by simp [Pc.holds]) rfl⟩
    · simp only [ha, Bool.false_eq_true, ↓reduceIte] at h
      cases fb with
      | true =>
        simp only [↓reduceIte, Option.some.injEq, Prod.mk.injEq] at h
        obtain ⟨rfl, rfl⟩ := h
        exact ⟨by simp [TInv, hT'], hS, hfree,
          .inside (by simp [hpc, Pc.holds]) (by simp [Pc.holds]) rfl⟩
      | false =>
        simp only [Bool.false_eq_true, ↓reduceIte, Option.some.injEq, Prod.mk.injEq] at h
        obtain ⟨rfl, rfl⟩ := h
        exact ⟨by simp [TInv, hT'], hS, hfree,
          .inside (by simp [hpc, Pc.holds]) (by simp [Pc.holds]) rfl⟩
  | setFb saved =>
    simp only [hpc] at h
    have hT' : saved = L ∧ s.lc = L := by simpa [TInv, hpc] using hT
    have hlock : s.lock = true := hlk (by simp [hpc, Pc.holds])
    by_cases ha : w.avail enUS = true
    · simp only [ha, ↓reduceIte, Option.some.injEq, Prod.mk.injEq] at h
      obtain ⟨rfl, rfl⟩ := h
      exact ⟨by simp [TInv, hT'.1], hS, by simp [hlock],
        .inside (by simp [hpc, Pc.holds]) (by simp [Pc.holds]) rfl⟩
    · simp only [ha, Bool.false_eq_true, ↓reduceIte, Option.some.injEq, Prod.mk.injEq] at h
      obtain ⟨rfl, rfl⟩ := h
      exact ⟨by simp [TInv, hT'], hS, hfree,
        .inside (by simp [hpc, Pc.holds]) (by simp [Pc.holds]) rfl⟩
  | failRelease =>
    simp only [hpc, Option.some.injEq, Prod.mk.injEq] at h
    obtain ⟨rfl, rfl⟩ := h
    have : s.lc = L := by simpa [TInv, hpc] using hT
    exact ⟨by simp [TInv], hS, fun _ => this,
      .release (by simp [hpc, Pc.holds]) (by simp [Pc.holds]) rfl rfl⟩
  | body saved target n =>
    simp only [hpc] at h
    cases n with
    | succ n =>
      simp only [Option.some.injEq, Prod.mk.injEq] at h
      obtain ⟨rfl, rfl⟩ := h
      refine ⟨?_, ?_, hfree, ?_⟩
      · cases saved <;> cases target <;> simpa [TInv, hpc] using hT
      · cases target with
        | none => exact hS
        | some tg =>
          intro p hp
          simp only [List.mem_append, List.mem_singleton] at hp
          rcases hp with hp | rfl
          · exact hS p hp
          · cases saved with
            | none => simp [TInv, hpc] at hT
            | some sv =>
              have : sv = L ∧ s.lc = tg := by simpa [TInv, hpc] using hT
              exact this.2
      · cases saved with
        | none => exact .outside (by simp [hpc, Pc.holds]) (by simp [Pc.holds]) rfl
        | some sv => exact .inside (by simp [hpc, Pc.holds]) (by simp [Pc.holds]) rfl
    | zero =>
      cases saved with
      | none =>
        simp only [Option.some.injEq, Prod.mk.injEq] at h
        obtain ⟨rfl, rfl⟩ := h
        exact ⟨by simp [TInv], hS, hfree,
          .outside (by simp [hpc, Pc.holds]) (by simp [Pc.holds]) rfl⟩
      | some sv =>
        simp only [Option.some.injEq, Prod.mk.injEq] at h
        obtain ⟨rfl, rfl⟩ := h
        cases target with
        | none => simp [TInv, hpc] at hT
        | some tg =>
          have : sv = L ∧ s.lc = tg := by simpa [TInv, hpc] using hT
          exact ⟨by simp [TInv, this.1], hS, hfree,
            .inside (by simp [hpc, Pc.holds]) (by simp [Pc.holds]) rfl⟩
  | restore sv =>
    simp only [hpc] at h
    have hsv : sv = L := by simpa [TInv, hpc] using hT
    have hlock : s.lock = true := hlk (by simp [hpc, Pc.holds])
    subst hsv
    simp only [hL, ↓reduceIte, Option.some.injEq, Prod.mk.injEq] at h
    obtain ⟨rfl, rfl⟩ := h
    exact ⟨by simp [TInv], hS, by simp [hlock],
      .inside (by simp [hpc, Pc.holds]) (by simp [Pc.holds]) rfl⟩
  | release =>
    simp only [hpc, Option.some.injEq, Prod.mk.injEq] at h
    obtain ⟨rfl, rfl⟩ := h
    have : s.lc = L := by simpa [TInv, hpc] using hT
    exact ⟨by simp [TInv], hS, fun _ => this,
      .release (by simp [hpc, Pc.holds]) (by simp [Pc.holds]) rfl rfl⟩

/-- a thread outside the critical section keeps its (empty) knowledge whatever happens to the
shared state -/
theorem TInv_outside (L : Loc) (s s' : Shared) (u : Thread) (hu : u.pc.holds = false)
    (h : TInv L s u) : TInv L s' u := by
  unfold TInv at *
  cases hpc : u.pc with
  | body saved target n =>
    cases saved <;> cases target <;> simp_all [Pc.holds]
  | _ => simp_all [Pc.holds]

/-- the per-thread knowledge only concerns `lc` -/
theorem TInv_lc (L : Loc) (s s' : Shared) (u : Thread) (hlc : s'.lc = s.lc)
    (h : TInv L s u) : TInv L s' u := by
  unfold TInv at *
  rw [hlc]; exact h

/-! ### the global invariant -/

/-- number of threads inside the critical section -/
def holders (ts : List Thread) : Nat := ts.countP (·.pc.holds)

/-- The inductive invariant: the lock bit counts the holders (so at most one), a free lock means
the initial locale is in place, every thread's local knowledge is right, every observation made
by a body was of its own locale. -/
structure Inv (L : Loc) (c : Config) : Prop where
  count : holders c.ts = if c.sh.lock then 1 else 0
  free : c.sh.lock = false → c.sh.lc = L
  local_ : ∀ t ∈ c.ts, TInv L c.sh t
  seen : ∀ t ∈ c.ts, SeenOK t

theorem holders_split (pre post : List Thread) (t : Thread) :
    holders (pre ++ t :: post) = holders pre + (if t.pc.holds then 1 else 0) + holders post := by
  simp [holders, List.countP_append, List.countP_cons]; omega

theorem holders_zero {ts : List Thread} (h : holders ts = 0) : ∀ u ∈ ts, u.pc.holds = false := by
  intro u hu
  have := List.countP_eq_zero.mp h u hu
  simpa using this

theorem inv_step (w : World) (L : Loc) (hL : w.avail L = true) (c c' : Config)
    (hi : Inv L c) (hs : Step w c c') : Inv L c' := by
  cases hs with
  | mk s s' pre post t t' h =>
    have hmem : t ∈ pre ++ t :: post := by simp
    have hcount := hi.count
    simp only [holders_split] at hcount
    have hlk : t.pc.holds = true → s.lock = true := by
      intro ht
      cases hl : s.lock with
      | true => rfl
      | false => simp [ht, hl] at hcount
    obtain ⟨hT', hS', hfree', eff⟩ :=
      step_local w L hL s s' t t' h (hi.local_ t hmem) (hi.seen t hmem) hlk hi.free
    have others : ∀ u, u ∈ pre ∨ u ∈ post → u ∈ pre ++ t :: post := by
      intro u hu; rcases hu with hu | hu <;> simp [hu]
    refine ⟨?_, hfree', ?_, ?_⟩
    · -- counting
      simp only [holders_split]
      cases eff with
      | outside h1 h2 h3 => subst h3; simp only [h1, h2] at hcount ⊢; exact hcount
      | acquire h1 h2 h3 h4 h5 =>
        simp only [h1, h3] at hcount
        simp only [h2, h4]; simp at hcount ⊢; omega
      | inside h1 h2 h3 => simp only [h1, h2, h3] at hcount ⊢; exact hcount
      | release h1 h2 h3 h4 =>
        have hl := hlk h1
        simp only [h1, hl] at hcount
        simp only [h2, h3]; simp at hcount ⊢; omega
    · -- local knowledge
      intro u hu
      simp only [List.mem_append, List.mem_cons] at hu
      have keep : (u ∈ pre ∨ u ∈ post) → TInv L s' u := by
        intro hu'
        have hTu := hi.local_ u (others u hu')
        cases eff with
        | outside h1 h2 h3 => subst h3; exact hTu
        | acquire h1 h2 h3 h4 h5 => exact TInv_lc L s s' u h5 hTu
        | inside h1 h2 h3 =>
          -- t holds, the lock is taken, so nobody else is inside
          have hl := hlk h1
          simp only [h1, hl] at hcount
          have hz : holders pre = 0 ∧ holders post = 0 := by simp at hcount; omega
          have : u.pc.holds = false := by
            rcases hu' with hu' | hu'
            · exact holders_zero hz.1 u hu'
            · exact holders_zero hz.2 u hu'
          exact TInv_outside L s s' u this hTu
        | release h1 h2 h3 h4 => exact TInv_lc L s s' u h4 hTu
      rcases hu with hu | rfl | hu
      · exact keep (Or.inl hu)
      · exact hT'
      · exact keep (Or.inr hu)
    · intro u hu
      simp only [List.mem_append, List.mem_cons] at hu
      rcases hu with hu | rfl | hu
      · exact hi.seen u (others u (Or.inl hu))
      · exact hS'
      · exact hi.seen u (others u (Or.inr hu))

theorem inv_reach (w : World) (L : Loc) (hL : w.avail L = true) (c c' : Config)
    (hi : Inv L c) (hr : Reach w c c') : Inv L c' := by
  induction hr with
  | refl => exact hi
  | tail _ hs ih => exact inv_step w L hL _ _ ih hs

/-- the initial configuration: lock free, locale `L`, every thread at the start of its program -/
def Config.start (L : Loc) (progs : List (List Job)) : Config :=
  ⟨⟨false, L⟩, progs.map Thread.init⟩

theorem inv_start (L : Loc) (progs : List (List Job)) : Inv L (Config.start L progs) := by
  refine ⟨?_, fun _ => rfl, ?_, ?_⟩
  · simp only [Config.start, holders, Bool.false_eq_true, ↓reduceIte]
    apply List.countP_eq_zero.mpr
    intro t ht
    simp only [List.mem_map] at ht
    obtain ⟨p, _, rfl⟩ := ht
    simp [Thread.init, Pc.holds]
  · intro t ht
    simp only [Config.start, List.mem_map] at ht
    obtain ⟨p, _, rfl⟩ := ht
    simp [Thread.init, TInv]
  · intro t ht
    simp only [Config.start, List.mem_map] at ht
    obtain ⟨p, _, rfl⟩ := ht
    intro q hq
    simp [Thread.init] at hq

/-! ### progress -/

/-- a thread inside the critical section can always move -/
theorem holder_enabled (w : World) (s : Shared) (t : Thread) (h : t.pc.holds = true) :
    ∃ r, step w s t = some r := by
  unfold step
  cases hpc : t.pc with
  | idle => simp [hpc, Pc.holds] at h
  | acquire _ _ => simp [hpc, Pc.holds] at h
  | query _ _ => exact ⟨_, rfl⟩
  | setReq req fb saved =>
    simp only
    by_cases ha : w.avail (w.norm req) = true
    · simp [ha]
    · cases fb <;> simp [ha]
  | setFb saved => simp only; by_cases ha : w.avail enUS = true <;> simp [ha]
  | failRelease => exact ⟨_, rfl⟩
  | body saved target n => cases n <;> cases saved <;> simp
  | restore sv => simp only; by_cases ha : w.avail sv = true <;> simp [ha]
  | release => exact ⟨_, rfl⟩

/-- with the lock free, every unfinished thread can move -/
theorem free_enabled (w : World) (s : Shared) (t : Thread) (hl : s.lock = false)
    (hd : t.done = false) : ∃ r, step w s t = some r := by
  unfold step
  cases hpc : t.pc with
  | idle =>
    cases htd : t.todo with
    | nil => simp [Thread.done, hpc, htd] at hd
    | cons j js => simp only; cases j.mgr.lc <;> simp
  | acquire _ _ => simp [hl]
  | query _ _ => exact ⟨_, rfl⟩
  | setReq req fb saved =>
    simp only
    by_cases ha : w.avail (w.norm req) = true
    · simp [ha]
    · cases fb <;> simp [ha]
  | setFb saved => simp only; by_cases ha : w.avail enUS = true <;> simp [ha]
  | failRelease => exact ⟨_, rfl⟩
  | body saved target n => cases n <;> cases saved <;> simp
  | restore sv => simp only; by_cases ha : w.avail sv = true <;> simp [ha]
  | release => exact ⟨_, rfl⟩

/-! ### at most one holder, index form -/

theorem countP_le_one_index {α : Type} (p : α → Bool) :
    ∀ (l : List α), l.countP p ≤ 1 → ∀ (i j : Nat) (hi : i < l.length) (hj : j < l.length),
      p l[i] = true → p l[j] = true → i = j
  | [], _, i, _, hi, _, _, _ => by simp at hi
  | x :: xs, h, i, j, hi, hj, pi, pj => by
    rw [List.countP_cons] at h
    cases i with
    | zero =>
      cases j with
      | zero => rfl
      | succ j =>
        simp only [List.getElem_cons_zero] at pi
        simp only [List.getElem_cons_succ] at pj
        simp only [pi, ↓reduceIte] at h
        have hz : xs.countP p = 0 := by omega
        have hj' : j < xs.length := by simpa using hj
        have := List.countP_eq_zero.mp hz xs[j] (List.getElem_mem hj')
        simp [pj] at this
    | succ i =>
      cases j with
      | zero =>
        simp only [List.getElem_cons_zero] at pj
        simp only [List.getElem_cons_succ] at pi
        simp only [pj, ↓reduceIte] at h
        have hz : xs.countP p = 0 := by omega
        have hi' : i < xs.length := by simpa using hi
        have := List.countP_eq_zero.mp hz xs[i] (List.getElem_mem hi')
        simp [pi] at this
      | succ j =>
        simp only [List.getElem_cons_succ] at pi pj
        have h' : xs.countP p ≤ 1 := by omega
        have := countP_le_one_index p xs h' i j (by simpa using hi) (by simpa using hj) pi pj
        omega

/-! ### termination: every step consumes work -/

/-- work left at a program point of a job with `uses` body steps -/
def Pc.weight (uses : Nat) : Pc → Nat
  | .idle => 0
  | .acquire _ _ => uses + 9
  | .query _ _ => uses + 8
  | .setReq _ _ _ => uses + 7
  | .setFb _ => uses + 6
  | .failRelease => 1
  | .body _ _ n => n + 4
  | .restore _ => 3
  | .release => 2

def Thread.weight (t : Thread) : Nat :=
  t.pc.weight t.cur.uses + (t.todo.map fun j => j.uses + 10).sum

/-- total work left in a configuration -/
def Config.weight (c : Config) : Nat := (c.ts.map Thread.weight).sum

theorem step_weight (w : World) (s s' : Shared) (t t' : Thread)
    (h : step w s t = some (s', t')) : t'.weight < t.weight := by
  unfold step at h
  cases hpc : t.pc with
  | idle =>
    simp only [hpc] at h
    cases htd : t.todo with
    | nil => simp [htd] at h
    | cons j js =>
      simp only [htd] at h
      cases hj : j.mgr.lc with
      | none =>
        simp only [hj, Option.some.injEq, Prod.mk.injEq] at h
        obtain ⟨rfl, rfl⟩ := h
        simp [Thread.weight, Pc.weight, hpc, htd]
      | some req =>
        simp only [hj, Option.some.injEq, Prod.mk.injEq] at h
        obtain ⟨rfl, rfl⟩ := h
        simp [Thread.weight, Pc.weight, hpc, htd]
  | acquire req fb =>
    simp only [hpc] at h
    cases hl : s.lock <;> simp [hl] at h
    obtain ⟨rfl, rfl⟩ := h
    simp [Thread.weight, Pc.weight, hpc]
  | query req fb =>
    simp only [hpc, Option.some.injEq, Prod.mk.injEq] at h
    obtain ⟨rfl, rfl⟩ := h
    simp [Thread.weight, Pc.weight, hpc]
  | setReq req fb saved =>
    simp only [hpc] at h
    by_cases ha : w.avail (w.norm req) = true
    · simp only [ha, ↓reduceIte, Option.some.injEq, Prod.mk.injEq] at h
      obtain ⟨rfl, rfl⟩ := h
      simp [Thread.weight, Pc.weight, hpc]
    · cases fb <;> simp [ha] at h <;> obtain ⟨rfl, rfl⟩ := h <;>
        simp [Thread.weight, Pc.weight, hpc] <;> omega
  | setFb saved =>
    simp only [hpc] at h
    by_cases ha : w.avail enUS = true
    · simp only [ha, ↓reduceIte, Option.some.injEq, Prod.mk.injEq] at h
      obtain ⟨rfl, rfl⟩ := h
      simp [Thread.weight, Pc.weight, hpc]
    · simp [ha] at h
      obtain ⟨rfl, rfl⟩ := h
      simp [Thread.weight, Pc.weight, hpc]
  | failRelease =>
    simp only [hpc, Option.some.injEq, Prod.mk.injEq] at h
    obtain ⟨rfl, rfl⟩ := h
    simp [Thread.weight, Pc.weight, hpc]
  | body saved target n =>
    simp only [hpc] at h
    cases n with
    | succ n =>
      simp only [Option.some.injEq, Prod.mk.injEq] at h
      obtain ⟨rfl, rfl⟩ := h
      simp [Thread.weight, Pc.weight, hpc]
    | zero =>
      cases saved <;> simp at h <;> obtain ⟨rfl, rfl⟩ := h <;>
        simp [Thread.weight, Pc.weight, hpc]
  | restore sv =>
    simp only [hpc] at h
    by_cases ha : w.avail sv = true <;> simp [ha] at h <;> obtain ⟨rfl, rfl⟩ := h <;>
      simp [Thread.weight, Pc.weight, hpc]
  | release =>
    simp only [hpc, Option.some.injEq, Prod.mk.injEq] at h
    obtain ⟨rfl, rfl⟩ := h
    simp [Thread.weight, Pc.weight, hpc]

theorem Step.weight_lt {w : World} {c c' : Config} (hs : Step w c c') : c'.weight < c.weight := by
  cases hs with
  | mk s s' pre post t t' h =>
    have := step_weight w s s' t t' h
    simp only [Config.weight, List.map_append, List.map_cons, List.sum_append, List.sum_cons]
    omega

/-- `ReachN w c c' n`: `c'` is reached from `c` by exactly `n` steps -/
inductive ReachN (w : World) : Config → Config → Nat → Prop where
  | refl (c : Config) : ReachN w c c 0
  | tail {a b c : Config} {n : Nat} : ReachN w a b n → Step w b c → ReachN w a c (n + 1)

theorem ReachN.toReach {w : World} {c c' : Config} {n : Nat} (h : ReachN w c c' n) :
    Reach w c c' := by
  induction h with
  | refl => exact .refl _
  | tail _ hs ih => exact .tail ih hs

theorem ReachN.weight {w : World} {c c' : Config} {n : Nat} (h : ReachN w c c' n) :
    n + c'.weight ≤ c.weight := by
  induction h with
  | refl => omega
  | tail _ hs ih => have := hs.weight_lt; omega

/-! ### outcomes do not depend on the schedule -/

/-- is the outcome of the current job still to be delivered? -/
def owesCur (t : Thread) : Bool :=
  match t.pc with
  | .idle => false
  | .restore _ => false
  | .release => false
  | _ => true

/-- the outcomes the thread has not delivered yet -/
def pending (w : World) (t : Thread) : List Out :=
  (if owesCur t then [t.cur.expected w] else []) ++ t.todo.map (Job.expected w)

/-- what the program point records about the job being run -/
def Link (w : World) (t : Thread) : Prop :=
  match t.pc with
  | .acquire req fb => t.cur.mgr.lc = some req ∧ t.cur.mgr.fallback = fb
  | .query req fb => t.cur.mgr.lc = some req ∧ t.cur.mgr.fallback = fb
  | .setReq req fb _ => t.cur.mgr.lc = some req ∧ t.cur.mgr.fallback = fb
  | .setFb _ => ∃ req, t.cur.mgr.lc = some req ∧ t.cur.mgr.fallback = true ∧
      w.avail (w.norm req) = false
  | .failRelease => t.cur.expected w = .err .FOCH0002
  | .body _ _ _ => t.cur.expected w = t.cur.bodyOut
  | _ => True

/-- delivered ++ owed = the outcomes of the whole program, each computed from the job and the
installed locales alone -/
def OutInv (w : World) (t : Thread) : Prop :=
  Link w t ∧ t.outs ++ pending w t = t.prog.map (Job.expected w)

theorem step_out (w : World) (s s' : Shared) (t t' : Thread)
    (h : step w s t = some (s', t')) (hO : OutInv w t)
    (hr : ∀ sv, t.pc = .restore sv → w.avail sv = true) :
    OutInv w t' ∧ t'.prog = t.prog := by
  obtain ⟨hlink, hout⟩ := hO
  unfold step at h
  cases hpc : t.pc with
  | idle =>
    simp only [hpc] at h
    cases htd : t.todo with
    | nil => simp [htd] at h
    | cons j js =>
      simp only [htd] at h
      cases hj : j.mgr.lc with
      | none =>
        simp only [hj, Option.some.injEq, Prod.mk.injEq] at h
        obtain ⟨rfl, rfl⟩ := h
        refine ⟨⟨?_, ?_⟩, rfl⟩
        · simp [Link, Job.expected, hj]
        · simpa [pending, owesCur, hpc, htd] using hout
      | some req =>
        simp only [hj, Option.some.injEq, Prod.mk.injEq] at h
        obtain ⟨rfl, rfl⟩ := h
        refine ⟨⟨?_, ?_⟩, rfl⟩
        · simp [Link, hj]
        · simpa [pending, owesCur, hpc, htd] using hout
  | acquire req fb =>
    simp only [hpc] at h
    cases hl : s.lock <;> simp [hl] at h
    obtain ⟨rfl, rfl⟩ := h
    refine ⟨⟨?_, ?_⟩, rfl⟩
    · simpa [Link, hpc] using hlink
    · simpa [pending, owesCur, hpc] using hout
  | query req fb =>
    simp only [hpc, Option.some.injEq, Prod.mk.injEq] at h
    obtain ⟨rfl, rfl⟩ := h
    refine ⟨⟨?_, ?_⟩, rfl⟩
    · simpa [Link, hpc] using hlink
    · simpa [pending, owesCur, hpc] using hout
  | setReq req fb saved =>
    simp only [hpc] at h
    have hl : t.cur.mgr.lc = some req ∧ t.cur.mgr.fallback = fb := by simpa [Link, hpc] using hlink
    by_cases ha : w.avail (w.norm req) = true
    · simp only [ha, ↓reduceIte, Option.some.injEq, Prod.mk.injEq] at h
      obtain ⟨rfl, rfl⟩ := h
      refine ⟨⟨?_, ?_⟩, rfl⟩
      · simp [Link, Job.expected, hl.1, ha]
      · simpa [pending, owesCur, hpc] using hout
    · cases fb with
      | true =>
        simp [ha] at h
        obtain ⟨rfl, rfl⟩ := h
        refine ⟨⟨?_, ?_⟩, rfl⟩
        · exact ⟨req, hl.1, hl.2, by simpa using ha⟩
        · simpa [pending, owesCur, hpc] using hout
      | false =>
        simp [ha] at h
        obtain ⟨rfl, rfl⟩ := h
        refine ⟨⟨?_, ?_⟩, rfl⟩
        · simp [Link, Job.expected, hl.1, hl.2, ha]
        · simpa [pending, owesCur, hpc] using hout
  | setFb saved =>
    simp only [hpc] at h
    obtain ⟨req, h1, h2, h3⟩ : ∃ req, t.cur.mgr.lc = some req ∧ t.cur.mgr.fallback = true ∧
      w.avail (w.norm req) = false := by simpa [Link, hpc] using hlink
    by_cases ha : w.avail enUS = true
    · simp only [ha, ↓reduceIte, Option.some.injEq, Prod.mk.injEq] at h
      obtain ⟨rfl, rfl⟩ := h
      refine ⟨⟨?_, ?_⟩, rfl⟩
      · simp [Link, Job.expected, h1, h2, h3, ha]
      · simpa [pending, owesCur, hpc] using hout
    · simp [ha] at h
      obtain ⟨rfl, rfl⟩ := h
      refine ⟨⟨?_, ?_⟩, rfl⟩
      · simp [Link, Job.expected, h1, h2, h3, ha]
      · simpa [pending, owesCur, hpc] using hout
  | failRelease =>
    simp only [hpc, Option.some.injEq, Prod.mk.injEq] at h
    obtain ⟨rfl, rfl⟩ := h
    have hl : t.cur.expected w = .err .FOCH0002 := by simpa [Link, hpc] using hlink
    refine ⟨⟨by simp [Link], ?_⟩, rfl⟩
    simpa [pending, owesCur, hpc, hl] using hout
  | body saved target n =>
    simp only [hpc] at h
    have hl : t.cur.expected w = t.cur.bodyOut := by simpa [Link, hpc] using hlink
    cases n with
    | succ n =>
      simp only [Option.some.injEq, Prod.mk.injEq] at h
      obtain ⟨rfl, rfl⟩ := h
      refine ⟨⟨by simpa [Link] using hl, ?_⟩, rfl⟩
      simpa [pending, owesCur, hpc] using hout
    | zero =>
      cases saved with
      | none =>
        simp at h
        obtain ⟨rfl, rfl⟩ := h
        refine ⟨⟨by simp [Link], ?_⟩, rfl⟩
        simpa [pending, owesCur, hpc, hl] using hout
      | some sv =>
        simp at h
        obtain ⟨rfl, rfl⟩ := h
        refine ⟨⟨by simp [Link], ?_⟩, rfl⟩
        simpa [pending, owesCur, hpc, hl] using hout
  | restore sv =>
    simp only [hpc] at h
    have ha := hr sv hpc
    simp [ha] at h
    obtain ⟨rfl, rfl⟩ := h
    refine ⟨⟨by simp [Link], ?_⟩, rfl⟩
    simpa [pending, owesCur, hpc] using hout
  | release =>
    simp only [hpc, Option.some.injEq, Prod.mk.injEq] at h
    obtain ⟨rfl, rfl⟩ := h
    refine ⟨⟨by simp [Link], ?_⟩, rfl⟩
    simpa [pending, owesCur, hpc] using hout

/-- threads keep their programs, in place -/
def Progs (c : Config) : List (List Job) := c.ts.map (·.prog)

theorem out_step (w : World) (L : Loc) (hL : w.avail L = true) (c c' : Config)
    (hi : Inv L c) (ho : ∀ t ∈ c.ts, OutInv w t) (hs : Step w c c') :
    (∀ t ∈ c'.ts, OutInv w t) ∧ Progs c' = Progs c := by
  cases hs with
  | mk s s' pre post t t' h =>
    have hmem : t ∈ pre ++ t :: post := by simp
    have hr : ∀ sv, t.pc = .restore sv → w.avail sv = true := by
      intro sv hpc
      have := hi.local_ t hmem
      simp only [TInv, hpc] at this
      rw [this]; exact hL
    obtain ⟨h1, h2⟩ := step_out w s s' t t' h (ho t hmem) hr
    refine ⟨?_, by simp [Progs, h2]⟩
    intro u hu
    simp only [List.mem_append, List.mem_cons] at hu
    rcases hu with hu | rfl | hu
    · exact ho u (by simp [hu])
    · exact h1
    · exact ho u (by simp [hu])

theorem out_reach (w : World) (L : Loc) (hL : w.avail L = true) (c c' : Config)
    (hi : Inv L c) (ho : ∀ t ∈ c.ts, OutInv w t) (hr : Reach w c c') :
    (∀ t ∈ c'.ts, OutInv w t) ∧ Progs c' = Progs c := by
  induction hr with
  | refl => exact ⟨ho, rfl⟩
  | tail hr' hs ih =>
    have hi' := inv_reach w L hL _ _ hi hr'
    obtain ⟨h1, h2⟩ := out_step w L hL _ _ hi' ih.1 hs
    exact ⟨h1, h2.trans ih.2⟩

theorem out_start (w : World) (L : Loc) (progs : List (List Job)) :
    (∀ t ∈ (Config.start L progs).ts, OutInv w t) ∧ Progs (Config.start L progs) = progs := by
  refine ⟨?_, ?_⟩
  · intro t ht
    simp only [Config.start, List.mem_map] at ht
    obtain ⟨p, _, rfl⟩ := ht
    simp [OutInv, Link, Thread.init, pending, owesCur]
  · simp [Progs, Config.start, Thread.init, Function.comp_def]

/-! ### the schedule-independent outcome is the sequential one -/

/-- the flat evaluation tree of a job -/
def Job.toEv (j : Job) : Ev := .call (.ok j.mgr) [] (if j.raises then some 0 else none)

/-- `Job.expected` is what the sequential model (`evalEv`) returns for the job, started with
the lock free in an installed locale -/
theorem evalEv_flat_expected (w : World) (j : Job) (σ : State) (hl : σ.lock = false)
    (ha : w.avail σ.lc = true) : ∃ σ', evalEv w j.toEv σ = .ok (j.expected w) σ' := by
  unfold Job.toEv Job.expected
  cases hm : j.mgr.lc with
  | none =>
    cases hr : j.raises <;>
      simp [evalEv, evalEvs, enter_noLocale w j.mgr σ hm, finish_none, Job.bodyOut, hr]
  | some req =>
    rcases enter_free w j.mgr σ req hm hl with ⟨σ1, he, _, hav, htg, _, _⟩ | ⟨σ1, he, _, hna, hfb⟩
    · have hcond : (w.avail (w.norm req) || (j.mgr.fallback && w.avail enUS)) = true := by
        rcases htg with h | ⟨h1, _, h3⟩
        · rw [h] at hav; simp [hav]
        · rw [h3] at hav; simp [h1, hav]
      cases hr : j.raises with
      | false =>
        obtain ⟨σ', hf, _⟩ := finish_some w .ok σ1 σ.lc ha
        exact ⟨σ', by simp [evalEv, evalEvs, he, hf, hcond, Job.bodyOut, hr]⟩
      | true =>
        obtain ⟨σ', hf, _⟩ := finish_some w (.err (.body 0)) σ1 σ.lc ha
        exact ⟨σ', by simp [evalEv, evalEvs, he, hf, hcond, Job.bodyOut, hr]⟩
    · have hcond : (w.avail (w.norm req) || (j.mgr.fallback && w.avail enUS)) = false := by
        cases hf : j.mgr.fallback with
        | false => simp [hna]
        | true => simp [hna, hfb hf]
      exact ⟨σ1, by simp [evalEv, he, hcond]⟩

end EPV.Globals.Thr

/-
C19 — lemmas for the N-thread interleaving semantics (EPV.Globals.Thr): the inductive
invariant over the step relation, progress, termination measure, schedule independence.
-/
import EPV.Lemmas.Globals
namespace EPV.Globals.Thr

/-- per-thread part of the invariant, relative to the initial locale `L`: what a thread at this
program point knows about the shared state.  Points outside the critical section know nothing. -/
def TInv (L : Loc) (s : Shared) (t : Thread) : Prop :=
  match t.pc with
  | .idle => True
  | .acquire _ => True
  | .query _ => s.lc = L
  | .trySet _ saved => saved = L ∧ s.lc = L
  | .tryFb saved => saved = L ∧ s.lc = L
  | .call eff saved => saved = L ∧ s.lc = eff
  | .restore saved _ => saved = L
  | .release _ => s.lc = L

/-- every recorded `strcoll`/`strxfrm` ran under the locale its manager wanted -/
def SeenOK (t : Thread) : Prop := ∀ p ∈ t.seen, p.2 = p.1

/-- how one step of a thread can affect the lock -/
inductive Effect (s s' : Shared) (t t' : Thread) : Prop where
  | outside : t.pc.holds = false → t'.pc.holds = false → s' = s → Effect s s' t t'
  | acquire : t.pc.holds = false → t'.pc.holds = true → s.lock = false →
      s'.lock = true → s'.lc = s.lc → Effect s s' t t'
  | inside : t.pc.holds = true → t'.pc.holds = true → s'.lock = s.lock → Effect s s' t t'
  | release : t.pc.holds = true → t'.pc.holds = false → s'.lock = false → s'.lc = s.lc →
      Effect s s' t t'

/-- local preservation: one step of one thread -/
theorem step_local (w : World) (L : Loc) (hL : w.avail L = true) (s s' : Shared) (t t' : Thread)
    (h : step w s t = some (s', t')) (hT : TInv L s t) (hS : SeenOK t)
    (hlk : t.pc.holds = true → s.lock = true) (hfree : s.lock = false → s.lc = L) :
    TInv L s' t' ∧ SeenOK t' ∧ (s'.lock = false → s'.lc = L) ∧ Effect s s' t t' := by
  unfold step at h
  cases hpc : t.pc with
  | idle =>
    simp only [hpc] at h
    cases htd : t.todo with
    | nil => simp [htd] at h
    | cons b bs =>
      simp only [htd, Option.some.injEq, Prod.mk.injEq] at h
      obtain ⟨rfl, rfl⟩ := h
      exact ⟨by simp [TInv], hS, hfree, .outside (by simp [hpc, Pc.holds]) (by simp [Pc.holds]) rfl⟩
  | acquire b =>
    simp only [hpc] at h
    cases hl : s.lock with
    | true => simp [hl] at h
    | false =>
      simp only [hl, Bool.false_eq_true, ↓reduceIte, Option.some.injEq, Prod.mk.injEq] at h
      obtain ⟨rfl, rfl⟩ := h
      exact ⟨by simp [TInv, hfree hl], hS, by simp,
        .acquire (by simp [hpc, Pc.holds]) (by simp [Pc.holds]) hl rfl rfl⟩
  | query b =>
    simp only [hpc, Option.some.injEq, Prod.mk.injEq] at h
    obtain ⟨rfl, rfl⟩ := h
    have : s.lc = L := by simpa [TInv, hpc] using hT
    exact ⟨by simp [TInv, this], hS, hfree,
      .inside (by simp [hpc, Pc.holds]) (by simp [Pc.holds]) rfl⟩
  | trySet b saved =>
    simp only [hpc] at h
    have hT' : saved = L ∧ s.lc = L := by simpa [TInv, hpc] using hT
    have hlock : s.lock = true := hlk (by simp [hpc, Pc.holds])
    cases b with
    | probe req fb =>
      simp only at h
      by_cases ha : w.avail (w.norm req) = true
      · simp only [ha, ↓reduceIte, Option.some.injEq, Prod.mk.injEq] at h
        obtain ⟨rfl, rfl⟩ := h
        exact ⟨by simp [TInv, hT'.1], hS, by simp [hlock],
          .inside (by simp [hpc, Pc.holds]) (by simp [Pc.holds]) rfl⟩
      · simp only [ha, Bool.false_eq_true, ↓reduceIte] at h
        cases fb with
        | true =>
          simp only [↓reduceIte, Option.some.injEq, Prod.mk.injEq] at h
          obtain ⟨rfl, rfl⟩ := h
          exact ⟨by simp [TInv, hT'], hS, hfree,
            .inside (by simp [hpc, Pc.holds]) (by simp [Pc.holds]) rfl⟩
        | false =>
          simp only [Bool.false_eq_true, ↓reduceIte, Option.some.injEq, Prod.mk.injEq] at h
          obtain ⟨rfl, rfl⟩ := h
          exact ⟨by simp [TInv, hT'], hS, hfree,
            .inside (by simp [hpc, Pc.holds]) (by simp [Pc.holds]) rfl⟩
    | use eff =>
      simp only at h
      by_cases ha : w.avail eff = true
      · simp only [ha, ↓reduceIte, Option.some.injEq, Prod.mk.injEq] at h
        obtain ⟨rfl, rfl⟩ := h
        exact ⟨by simp [TInv, hT'.1], hS, by simp [hlock],
          .inside (by simp [hpc, Pc.holds]) (by simp [Pc.holds]) rfl⟩
      · simp only [ha, Bool.false_eq_true, ↓reduceIte, Option.some.injEq, Prod.mk.injEq] at h
        obtain ⟨rfl, rfl⟩ := h
        exact ⟨by simp [TInv, hT'], hS, hfree,
          .inside (by simp [hpc, Pc.holds]) (by simp [Pc.holds]) rfl⟩
  | tryFb saved =>
    simp only [hpc] at h
    have hT' : saved = L ∧ s.lc = L := by simpa [TInv, hpc] using hT
    have hlock : s.lock = true := hlk (by simp [hpc, Pc.holds])
    by_cases ha : w.avail enUS = true
    · simp only [ha, ↓reduceIte, Option.some.injEq, Prod.mk.injEq] at h
      obtain ⟨rfl, rfl⟩ := h
      exact ⟨by simp [TInv, hT'.1], hS, by simp [hlock],
        .inside (by simp [hpc, Pc.holds]) (by simp [Pc.holds]) rfl⟩
    · simp only [ha, Bool.false_eq_true, ↓reduceIte, Option.some.injEq, Prod.mk.injEq] at h
      obtain ⟨rfl, rfl⟩ := h
      exact ⟨by simp [TInv, hT'], hS, hfree,
        .inside (by simp [hpc, Pc.holds]) (by simp [Pc.holds]) rfl⟩
  | call eff saved =>
    simp only [hpc, Option.some.injEq, Prod.mk.injEq] at h
    obtain ⟨rfl, rfl⟩ := h
    have hT' : saved = L ∧ s.lc = eff := by simpa [TInv, hpc] using hT
    refine ⟨by simp [TInv, hT'.1], ?_, hfree,
      .inside (by simp [hpc, Pc.holds]) (by simp [Pc.holds]) rfl⟩
    intro p hp
    simp only [List.mem_append, List.mem_singleton] at hp
    rcases hp with hp | rfl
    · exact hS p hp
    · exact hT'.2
  | restore sv out =>
    simp only [hpc] at h
    have hsv : sv = L := by simpa [TInv, hpc] using hT
    have hlock : s.lock = true := hlk (by simp [hpc, Pc.holds])
    subst hsv
    simp only [hL, ↓reduceIte, Option.some.injEq, Prod.mk.injEq] at h
    obtain ⟨rfl, rfl⟩ := h
    exact ⟨by simp [TInv], hS, by simp [hlock],
      .inside (by simp [hpc, Pc.holds]) (by simp [Pc.holds]) rfl⟩
  | release out =>
    simp only [hpc, Option.some.injEq, Prod.mk.injEq] at h
    obtain ⟨rfl, rfl⟩ := h
    have : s.lc = L := by simpa [TInv, hpc] using hT
    exact ⟨by simp [TInv], hS, fun _ => this,
      .release (by simp [hpc, Pc.holds]) (by simp [Pc.holds]) rfl rfl⟩

/-- a thread outside the critical section keeps its (empty) knowledge whatever happens to the
shared state -/
theorem TInv_outside (L : Loc) (s s' : Shared) (u : Thread) (hu : u.pc.holds = false)
    (h : TInv L s u) : TInv L s' u := by
  unfold TInv at *
  cases hpc : u.pc <;> simp_all [Pc.holds]

/-- the per-thread knowledge only concerns `lc` -/
theorem TInv_lc (L : Loc) (s s' : Shared) (u : Thread) (hlc : s'.lc = s.lc)
    (h : TInv L s u) : TInv L s' u := by
  unfold TInv at *
  rw [hlc]; exact h

/-! ### the global invariant -/

/-- number of threads inside the critical section -/
def holders (ts : List Thread) : Nat := ts.countP (·.pc.holds)

/-- The inductive invariant: the lock bit counts the holders (so at most one), a free lock means
the initial locale is in place, every thread's local knowledge is right, every comparison made
so far ran under the locale its manager wanted. -/
structure Inv (L : Loc) (c : Config) : Prop where
  count : holders c.ts = if c.sh.lock then 1 else 0
  free : c.sh.lock = false → c.sh.lc = L
  local_ : ∀ t ∈ c.ts, TInv L c.sh t
  seen : ∀ t ∈ c.ts, SeenOK t

theorem holders_split (pre post : List Thread) (t : Thread) :
    holders (pre ++ t :: post) = holders pre + (if t.pc.holds then 1 else 0) + holders post := by
  simp [holders, List.countP_append, List.countP_cons]; omega

theorem holders_zero {ts : List Thread} (h : holders ts = 0) : ∀ u ∈ ts, u.pc.holds = false := by
  intro u hu
  have := List.countP_eq_zero.mp h u hu
  simpa using this

theorem inv_step (w : World) (L : Loc) (hL : w.avail L = true) (c c' : Config)
    (hi : Inv L c) (hs : Step w c c') : Inv L c' := by
  cases hs with
  | mk s s' pre post t t' h =>
    have hmem : t ∈ pre ++ t :: post := by simp
    have hcount := hi.count
    simp only [holders_split] at hcount
    have hlk : t.pc.holds = true → s.lock = true := by
      intro ht
      cases hl : s.lock with
      | true => rfl
      | false => simp [ht, hl] at hcount
    obtain ⟨hT', hS', hfree', eff⟩ :=
      step_local w L hL s s' t t' h (hi.local_ t hmem) (hi.seen t hmem) hlk hi.free
    have others : ∀ u, u ∈ pre ∨ u ∈ post → u ∈ pre ++ t :: post := by
      intro u hu; rcases hu with hu | hu <;> simp [hu]
    refine ⟨?_, hfree', ?_, ?_⟩
    · simp only [holders_split]
      cases eff with
      | outside h1 h2 h3 => subst h3; simp only [h1, h2] at hcount ⊢; exact hcount
      | acquire h1 h2 h3 h4 h5 =>
        simp only [h1, h3] at hcount
        simp only [h2, h4]; simp at hcount ⊢; omega
      | inside h1 h2 h3 => simp only [h1, h2, h3] at hcount ⊢; exact hcount
      | release h1 h2 h3 h4 =>
        have hl := hlk h1
        simp only [h1, hl] at hcount
        simp only [h2, h3]; simp at hcount ⊢; omega
    · intro u hu
      simp only [List.mem_append, List.mem_cons] at hu
      have keep : (u ∈ pre ∨ u ∈ post) → TInv L s' u := by
        intro hu'
        have hTu := hi.local_ u (others u hu')
        cases eff with
        | outside h1 h2 h3 => subst h3; exact hTu
        | acquire h1 h2 h3 h4 h5 => exact TInv_lc L s s' u h5 hTu
        | inside h1 h2 h3 =>
          have hl := hlk h1
          simp only [h1, hl] at hcount
          have hz : holders pre = 0 ∧ holders post = 0 := by simp at hcount; omega
          have : u.pc.holds = false := by
            rcases hu' with hu' | hu'
            · exact holders_zero hz.1 u hu'
            · exact holders_zero hz.2 u hu'
          exact TInv_outside L s s' u this hTu
        | release h1 h2 h3 h4 => exact TInv_lc L s s' u h4 hTu
      rcases hu with hu | rfl | hu
      · exact keep (Or.inl hu)
      · exact hT'
      · exact keep (Or.inr hu)
    · intro u hu
      simp only [List.mem_append, List.mem_cons] at hu
      rcases hu with hu | rfl | hu
      · exact hi.seen u (others u (Or.inl hu))
      · exact hS'
      · exact hi.seen u (others u (Or.inr hu))

theorem inv_reach (w : World) (L : Loc) (hL : w.avail L = true) (c c' : Config)
    (hi : Inv L c) (hr : Reach w c c') : Inv L c' := by
  induction hr with
  | refl => exact hi
  | tail _ hs ih => exact inv_step w L hL _ _ ih hs

/-- the initial configuration: lock free, locale `L`, every thread at the start of its program -/
def Config.start (L : Loc) (progs : List (List Br)) : Config :=
  ⟨⟨false, L⟩, progs.map Thread.init⟩

theorem inv_start (L : Loc) (progs : List (List Br)) : Inv L (Config.start L progs) := by
  refine ⟨?_, fun _ => rfl, ?_, ?_⟩
  · simp only [Config.start, holders, Bool.false_eq_true, ↓reduceIte]
    apply List.countP_eq_zero.mpr
    intro t ht
    simp only [List.mem_map] at ht
    obtain ⟨p, _, rfl⟩ := ht
    simp [Thread.init, Pc.holds]
  · intro t ht
    simp only [Config.start, List.mem_map] at ht
    obtain ⟨p, _, rfl⟩ := ht
    simp [Thread.init, TInv]
  · intro t ht
    simp only [Config.start, List.mem_map] at ht
    obtain ⟨p, _, rfl⟩ := ht
    intro q hq
    simp [Thread.init] at hq

/-! ### progress -/

/-- a thread inside the critical section can always move -/
theorem holder_enabled (w : World) (s : Shared) (t : Thread) (h : t.pc.holds = true) :
    ∃ r, step w s t = some r := by
  unfold step
  cases hpc : t.pc with
  | idle => simp [hpc, Pc.holds] at h
  | acquire _ => simp [hpc, Pc.holds] at h
  | query _ => exact ⟨_, rfl⟩
  | trySet b saved =>
    cases b with
    | probe req fb =>
      simp only
      by_cases ha : w.avail (w.norm req) = true
      · simp [ha]
      · cases fb <;> simp [ha]
    | use eff => simp only; by_cases ha : w.avail eff = true <;> simp [ha]
  | tryFb saved => simp only; by_cases ha : w.avail enUS = true <;> simp [ha]
  | call _ _ => exact ⟨_, rfl⟩
  | restore sv out => simp only; by_cases ha : w.avail sv = true <;> simp [ha]
  | release _ => exact ⟨_, rfl⟩

/-- with the lock free, every unfinished thread can move -/
theorem free_enabled (w : World) (s : Shared) (t : Thread) (hl : s.lock = false)
    (hd : t.done = false) : ∃ r, step w s t = some r := by
  by_cases hh : t.pc.holds = true
  · exact holder_enabled w s t hh
  · unfold step
    cases hpc : t.pc with
    | idle =>
      cases htd : t.todo with
      | nil => simp [Thread.done, hpc, htd] at hd
      | cons b bs => simp
    | acquire _ => simp [hl]
    | _ => simp [hpc, Pc.holds] at hh

/-! ### at most one holder, index form -/

theorem countP_le_one_index {α : Type} (p : α → Bool) :
    ∀ (l : List α), l.countP p ≤ 1 → ∀ (i j : Nat) (hi : i < l.length) (hj : j < l.length),
      p l[i] = true → p l[j] = true → i = j
  | [], _, i, _, hi, _, _, _ => by simp at hi
  | x :: xs, h, i, j, hi, hj, pi, pj => by
    rw [List.countP_cons] at h
    cases i with
    | zero =>
      cases j with
      | zero => rfl
      | succ j =>
        simp only [List.getElem_cons_zero] at pi
        simp only [List.getElem_cons_succ] at pj
        simp only [pi, ↓reduceIte] at h
        have hz : xs.countP p = 0 := by omega
        have hj' : j < xs.length := by simpa using hj
        have := List.countP_eq_zero.mp hz xs[j] (List.getElem_mem hj')
        simp [pj] at this
    | succ i =>
      cases j with
      | zero =>
        simp only [List.getElem_cons_zero] at pj
        simp only [List.getElem_cons_succ] at pi
        simp only [pj, ↓reduceIte] at h
        have hz : xs.countP p = 0 := by omega
        have hi' : i < xs.length := by simpa using hi
        have := List.countP_eq_zero.mp hz xs[i] (List.getElem_mem hi')
        simp [pi] at this
      | succ j =>
        simp only [List.getElem_cons_succ] at pi pj
        have h' : xs.countP p ≤ 1 := by omega
        have := countP_le_one_index p xs h' i j (by simpa using hi) (by simpa using hj) pi pj
        omega

/-! ### termination: every step consumes work -/

/-- work left at a program point -/
def Pc.weight : Pc → Nat
  | .idle => 0
  | .acquire _ => 7
  | .query _ => 6
  | .trySet _ _ => 5
  | .tryFb _ => 4
  | .call _ _ => 4
  | .restore _ _ => 3
  | .release _ => 2

def Thread.weight (t : Thread) : Nat := t.pc.weight + 8 * t.todo.length

/-- total work left in a configuration -/
def Config.weight (c : Config) : Nat := (c.ts.map Thread.weight).sum

theorem step_weight (w : World) (s s' : Shared) (t t' : Thread)
    (h : step w s t = some (s', t')) : t'.weight < t.weight := by
  unfold step at h
  cases hpc : t.pc with
  | idle =>
    simp only [hpc] at h
    cases htd : t.todo with
    | nil => simp [htd] at h
    | cons b bs =>
      simp only [htd, Option.some.injEq, Prod.mk.injEq] at h
      obtain ⟨rfl, rfl⟩ := h
      simp [Thread.weight, Pc.weight, hpc, htd]; omega
  | acquire b =>
    simp only [hpc] at h
    cases hl : s.lock <;> simp [hl] at h
    obtain ⟨rfl, rfl⟩ := h
    simp [Thread.weight, Pc.weight, hpc]
  | query b =>
    simp only [hpc, Option.some.injEq, Prod.mk.injEq] at h
    obtain ⟨rfl, rfl⟩ := h
    simp [Thread.weight, Pc.weight, hpc]
  | trySet b saved =>
    simp only [hpc] at h
    cases b with
    | probe req fb =>
      simp only at h
      by_cases ha : w.avail (w.norm req) = true
      · simp only [ha, ↓reduceIte, Option.some.injEq, Prod.mk.injEq] at h
        obtain ⟨rfl, rfl⟩ := h
        simp [Thread.weight, Pc.weight, hpc]
      · cases fb <;> simp [ha] at h <;> obtain ⟨rfl, rfl⟩ := h <;>
          simp [Thread.weight, Pc.weight, hpc]
    | use eff =>
      simp only at h
      by_cases ha : w.avail eff = true <;> simp [ha] at h <;> obtain ⟨rfl, rfl⟩ := h <;>
        simp [Thread.weight, Pc.weight, hpc]
  | tryFb saved =>
    simp only [hpc] at h
    by_cases ha : w.avail enUS = true <;> simp [ha] at h <;> obtain ⟨rfl, rfl⟩ := h <;>
      simp [Thread.weight, Pc.weight, hpc]
  | call eff saved =>
    simp only [hpc, Option.some.injEq, Prod.mk.injEq] at h
    obtain ⟨rfl, rfl⟩ := h
    simp [Thread.weight, Pc.weight, hpc]
  | restore sv out =>
    simp only [hpc] at h
    by_cases ha : w.avail sv = true <;> simp [ha] at h <;> obtain ⟨rfl, rfl⟩ := h <;>
      simp [Thread.weight, Pc.weight, hpc]
  | release out =>
    simp only [hpc, Option.some.injEq, Prod.mk.injEq] at h
    obtain ⟨rfl, rfl⟩ := h
    simp [Thread.weight, Pc.weight, hpc]

theorem Step.weight_lt {w : World} {c c' : Config} (hs : Step w c c') : c'.weight < c.weight := by
  cases hs with
  | mk s s' pre post t t' h =>
    have := step_weight w s s' t t' h
    simp only [Config.weight, List.map_append, List.map_cons, List.sum_append, List.sum_cons]
    omega

/-- `ReachN w c c' n`: `c'` is reached from `c` by exactly `n` steps -/
inductive ReachN (w : World) : Config → Config → Nat → Prop where
  | refl (c : Config) : ReachN w c c 0
  | tail {a b c : Config} {n : Nat} : ReachN w a b n → Step w b c → ReachN w a c (n + 1)

theorem ReachN.toReach {w : World} {c c' : Config} {n : Nat} (h : ReachN w c c' n) :
    Reach w c c' := by
  induction h with
  | refl => exact .refl _
  | tail _ hs ih => exact .tail ih hs

theorem ReachN.weight {w : World} {c c' : Config} {n : Nat} (h : ReachN w c c' n) :
    n + c'.weight ≤ c.weight := by
  induction h with
  | refl => omega
  | tail _ hs ih => have := hs.weight_lt; omega

/-! ### results do not depend on the schedule -/

/-- the result the bracket in progress will deliver -/
def owed (w : World) : Pc → List Out
  | .idle => []
  | .acquire b => [b.expected w]
  | .query b => [b.expected w]
  | .trySet b _ => [b.expected w]
  | .tryFb _ => [if w.avail enUS then .ok else .err .FOCH0002]
  | .call _ _ => [.ok]
  | .restore _ out => [out]
  | .release out => [out]

/-- delivered ++ owed ++ still to run = the results of the whole program, each computed from the
bracket and the installed locales alone -/
def OutInv (w : World) (t : Thread) : Prop :=
  t.outs ++ owed w t.pc ++ t.todo.map (Br.expected w) = t.prog.map (Br.expected w)

theorem step_out (w : World) (s s' : Shared) (t t' : Thread)
    (h : step w s t = some (s', t')) (hO : OutInv w t)
    (hr : ∀ sv out, t.pc = .restore sv out → w.avail sv = true) :
    OutInv w t' ∧ t'.prog = t.prog := by
  unfold OutInv at *
  unfold step at h
  cases hpc : t.pc with
  | idle =>
    simp only [hpc] at h
    cases htd : t.todo with
    | nil => simp [htd] at h
    | cons b bs =>
      simp only [htd, Option.some.injEq, Prod.mk.injEq] at h
      obtain ⟨rfl, rfl⟩ := h
      exact ⟨by simpa [owed, hpc, htd] using hO, rfl⟩
  | acquire b =>
    simp only [hpc] at h
    cases hl : s.lock <;> simp [hl] at h
    obtain ⟨rfl, rfl⟩ := h
    exact ⟨by simpa [owed, hpc] using hO, rfl⟩
  | query b =>
    simp only [hpc, Option.some.injEq, Prod.mk.injEq] at h
    obtain ⟨rfl, rfl⟩ := h
    exact ⟨by simpa [owed, hpc] using hO, rfl⟩
  | trySet b saved =>
    simp only [hpc] at h
    cases b with
    | probe req fb =>
      simp only at h
      by_cases ha : w.avail (w.norm req) = true
      · simp only [ha, ↓reduceIte, Option.some.injEq, Prod.mk.injEq] at h
        obtain ⟨rfl, rfl⟩ := h
        exact ⟨by simpa [owed, hpc, Br.expected, Mgr.effective, ha] using hO, rfl⟩
      · cases fb with
        | true =>
          simp [ha] at h
          obtain ⟨rfl, rfl⟩ := h
          refine ⟨?_, rfl⟩
          by_cases h2 : w.avail enUS = true <;>
            simpa [owed, hpc, Br.expected, Mgr.effective, ha, h2] using hO
        | false =>
          simp [ha] at h
          obtain ⟨rfl, rfl⟩ := h
          exact ⟨by simpa [owed, hpc, Br.expected, Mgr.effective, ha] using hO, rfl⟩
    | use eff =>
      simp only at h
      by_cases ha : w.avail eff = true <;> simp [ha] at h <;> obtain ⟨rfl, rfl⟩ := h <;>
        exact ⟨by simpa [owed, hpc, Br.expected, ha] using hO, rfl⟩
  | tryFb saved =>
    simp only [hpc] at h
    by_cases ha : w.avail enUS = true <;> simp [ha] at h <;> obtain ⟨rfl, rfl⟩ := h <;>
      exact ⟨by simpa [owed, hpc, ha] using hO, rfl⟩
  | call eff saved =>
    simp only [hpc, Option.some.injEq, Prod.mk.injEq] at h
    obtain ⟨rfl, rfl⟩ := h
    exact ⟨by simpa [owed, hpc] using hO, rfl⟩
  | restore sv out =>
    simp only [hpc] at h
    have ha := hr sv out hpc
    simp [ha] at h
    obtain ⟨rfl, rfl⟩ := h
    exact ⟨by simpa [owed, hpc] using hO, rfl⟩
  | release out =>
    simp only [hpc, Option.some.injEq, Prod.mk.injEq] at h
    obtain ⟨rfl, rfl⟩ := h
    exact ⟨by simpa [owed, hpc] using hO, rfl⟩

/-- threads keep their programs, in place -/
def Progs (c : Config) : List (List Br) := c.ts.map (·.prog)

theorem out_step (w : World) (L : Loc) (hL : w.avail L = true) (c c' : Config)
    (hi : Inv L c) (ho : ∀ t ∈ c.ts, OutInv w t) (hs : Step w c c') :
    (∀ t ∈ c'.ts, OutInv w t) ∧ Progs c' = Progs c := by
  cases hs with
  | mk s s' pre post t t' h =>
    have hmem : t ∈ pre ++ t :: post := by simp
    have hr : ∀ sv out, t.pc = .restore sv out → w.avail sv = true := by
      intro sv out hpc
      have := hi.local_ t hmem
      simp only [TInv, hpc] at this
      rw [this]; exact hL
    obtain ⟨h1, h2⟩ := step_out w s s' t t' h (ho t hmem) hr
    refine ⟨?_, by simp [Progs, h2]⟩
    intro u hu
    simp only [List.mem_append, List.mem_cons] at hu
    rcases hu with hu | rfl | hu
    · exact ho u (by simp [hu])
    · exact h1
    · exact ho u (by simp [hu])

theorem out_reach (w : World) (L : Loc) (hL : w.avail L = true) (c c' : Config)
    (hi : Inv L c) (ho : ∀ t ∈ c.ts, OutInv w t) (hr : Reach w c c') :
    (∀ t ∈ c'.ts, OutInv w t) ∧ Progs c' = Progs c := by
  induction hr with
  | refl => exact ⟨ho, rfl⟩
  | tail hr' hs ih =>
    have hi' := inv_reach w L hL _ _ hi hr'
    obtain ⟨h1, h2⟩ := out_step w L hL _ _ hi' ih.1 hs
    exact ⟨h1, h2.trans ih.2⟩

theorem out_start (w : World) (L : Loc) (progs : List (List Br)) :
    (∀ t ∈ (Config.start L progs).ts, OutInv w t) ∧ Progs (Config.start L progs) = progs := by
  refine ⟨?_, ?_⟩
  · intro t ht
    simp only [Config.start, List.mem_map] at ht
    obtain ⟨p, _, rfl⟩ := ht
    simp [OutInv, Thread.init, owed]
  · simp [Progs, Config.start, Thread.init, Function.comp_def]

/-- a bracket run alone from a clean state returns `Br.expected` and restores the state: the
schedule-independent result is the sequential one -/
theorem runBr_expected (w : World) (b : Br) (σ : State) (hl : σ.lock = false)
    (ha : w.avail σ.lc = true) :
    ∃ σ', Restored σ σ' ∧
      runBr w b σ = (match b.expected w with | .ok => .ok () σ' | .err e => .err e σ') := by
  cases b with
  | probe req fb =>
    obtain ⟨σ', hr, hp⟩ := probe_clean w ⟨some req, fb⟩ σ hl ha
    refine ⟨σ', hr, ?_⟩
    simp only [runBr, hp, Br.expected, Mgr.supported, Option.isNone_some, Bool.false_or]
    cases h : (Mgr.effective w ⟨some req, fb⟩).isSome <;> simp
  | use eff =>
    obtain ⟨σ', hr, hu⟩ := useLoc_clean w eff σ hl ha
    refine ⟨σ', hr, ?_⟩
    simp only [runBr, hu, Br.expected]
    cases h : w.avail eff <;> simp

end EPV.Globals.Thr

/-
C19 — lemmas for the N-thread interleaving semantics (EPV.Globals.Thr).
-/
import EPV.Model.Globals
namespace EPV.Globals.Thr

end EPV.Globals.Thr

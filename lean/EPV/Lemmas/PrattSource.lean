/-
C04 helper: the lexeme-boundary model recovers the pieces of a rendered `source` text whenever adjacent
pieces are separable (`chainOK`, a decidable check on the piece list).
-/
import EPV.Model.PrattSource
namespace EPV.Source
open EPV.Syn EPV.Lexer

/-- a piece is a well-formed lexeme of its class -/
def wfPiece (X : TextTbl) (p : Piece) : Bool :=
  match p.cls, p.txt with
  | .word, c :: cs =>
      c != 32 && c != 39 && !inRanges X.digit c && inRanges X.wordStart c && inRanges X.wordChar c && cs.all (inRanges X.wordChar)
  | .num, c :: cs => c != 32 && c != 39 && inRanges X.digit c && cs.all (inRanges X.digit)
  | .str, c :: cs =>
      c == 39 && (match cs.reverse with
        | q :: body => q == 39 && !body.contains 39
        | [] => false)
  | .sym, [c] => c != 39 && c != 32 && !inRanges X.digit c && !inRanges X.wordStart c
  | .sym, [c, d] => c != 39 && c != 32 && !inRanges X.digit c && !inRanges X.wordStart c && X.syms2.contains (c, d)
  | _, _ => false

/-- the lexeme `p` ends in front of the character `d` -/
def stopOK (X : TextTbl) (p : Piece) (d : Ch) : Bool :=
  match p.cls with
  | .word => !inRanges X.wordChar d
  | .num => !inRanges X.digit d
  | .str => true
  | .sym => match p.txt with
    | [c] => !X.syms2.contains (c, d)
    | _ => true

/-- first character of the text that a piece contributes -/
def nextCh (q : Piece) : Ch := if q.glue then q.txt.headD 0 else 32

/-- every piece is a lexeme and stops in front of what follows it -/
def chainOK (X : TextTbl) : List Piece → Bool
  | [] => true
  | [p] => wfPiece X p
  | p :: q :: rest => wfPiece X p && stopOK X p (nextCh q) && chainOK X (q :: rest)

theorem takeRun_append (r : Ranges) : ∀ (a rest : List Ch), a.all (inRanges r) = true →
    (∀ d tl, rest = d :: tl → inRanges r d = false) → takeRun r (a ++ rest) = (a, rest)
  | [], rest, _, h => by
    cases rest with
    | nil => simp [takeRun]
    | cons d tl => simp [takeRun, h d tl rfl]
  | c :: cs, rest, ha, h => by
    simp only [List.all_cons, Bool.and_eq_true] at ha
    simp [takeRun, ha.1, takeRun_append r cs rest ha.2 h]

theorem takeQuoted_append : ∀ (body rest : List Ch), body.contains 39 = false →
    takeQuoted (body ++ 39 :: rest) = some (body ++ [39], rest)
  | [], rest, _ => by simp [takeQuoted]
  | c :: cs, rest, h => by
    have h' : (39 == c) = false ∧ cs.contains 39 = false := by
      rw [List.contains_cons, Bool.or_eq_false_iff] at h; exact h
    have hc : (c == 39) = false := by
      rw [beq_eq_false_iff_ne]; intro e
      have := h'.1; rw [beq_eq_false_iff_ne] at this; exact this e.symm
    rw [List.cons_append, takeQuoted, if_neg (by rw [hc]; exact Bool.false_ne_true), takeQuoted_append cs rest h'.2]
    rfl

/-- a well-formed lexeme followed by a text it stops in front of is split off by `lexOne` -/
theorem lexOne_piece (X : TextTbl) (p : Piece) (rest : List Ch) (hw : wfPiece X p = true)
    (hs : ∀ d tl, rest = d :: tl → stopOK X p d = true) : lexOne X (p.txt ++ rest) = some (p.txt, rest) := by
  obtain ⟨g, cls, txt⟩ := p
  cases cls with
  | word =>
    cases txt with
    | nil => simp [wfPiece] at hw
    | cons c cs =>
      simp only [wfPiece, Bool.and_eq_true, bne_iff_ne, ne_eq, Bool.not_eq_true'] at hw
      obtain ⟨⟨⟨⟨⟨-, h1⟩, h2⟩, h3⟩, h4⟩, h5⟩ := hw
      have hq : (c == 39) = false := by simpa using h1
      simp only [List.cons_append, lexOne, hq, h2, h3, Bool.false_eq_true, if_false, if_true]
      have := takeRun_append X.wordChar (c :: cs) rest (by simp [h4, h5]) (by
        intro d tl hd
        have := hs d tl hd
        simpa [stopOK] using this)
      simpa using congrArg some this
  | num =>
    cases txt with
    | nil => simp [wfPiece] at hw
    | cons c cs =>
      simp only [wfPiece, Bool.and_eq_true, bne_iff_ne, ne_eq] at hw
      obtain ⟨⟨⟨-, h1⟩, h2⟩, h3⟩ := hw
      have hq : (c == 39) = false := by simpa using h1
      simp only [List.cons_append, lexOne, hq, h2, Bool.false_eq_true, if_false, if_true]
      have := takeRun_append X.digit (c :: cs) rest (by simp [h2, h3]) (by
        intro d tl hd
        have := hs d tl hd
        simpa [stopOK] using this)
      simpa using congrArg some this
  | str =>
    cases txt with
    | nil => simp [wfPiece] at hw
    | cons c cs =>
      simp only [wfPiece, Bool.and_eq_true, beq_iff_eq] at hw
      obtain ⟨rfl, h2⟩ := hw
      cases hr : cs.reverse with
      | nil => simp [hr] at h2
      | cons q body =>
        simp only [hr, Bool.and_eq_true, beq_iff_eq, Bool.not_eq_true'] at h2
        obtain ⟨rfl, hb⟩ := h2
        have hcs : cs = body.reverse ++ [39] := by
          have := congrArg List.reverse hr
          simpa using this
        have hb' : body.reverse.contains 39 = false := by
          simpa [List.contains_iff_mem] using hb
        subst hcs
        simp only [List.cons_append, lexOne, beq_self_eq_true, if_true, List.append_assoc]
        have := takeQuoted_append body.reverse rest hb'
        simp only [List.cons_append, List.nil_append] at this ⊢
        simp [this]
  | sym =>
    cases txt with
    | nil => simp [wfPiece] at hw
    | cons c cs =>
      cases cs with
      | nil =>
        simp only [wfPiece, Bool.and_eq_true, bne_iff_ne, ne_eq, Bool.not_eq_true'] at hw
        obtain ⟨⟨⟨h1, -⟩, h3⟩, h4⟩ := hw
        have hq : (c == 39) = false := by simpa using h1
        cases rest with
        | nil => simp [lexOne, hq, h3, h4]
        | cons d tl =>
          have := hs d tl rfl
          simp only [stopOK, Bool.not_eq_true'] at this
          simp only [List.cons_append, List.nil_append, lexOne, hq, h3, h4, this, Bool.false_eq_true, if_false]
      | cons d ds =>
        cases ds with
        | nil =>
          simp only [wfPiece, Bool.and_eq_true, bne_iff_ne, ne_eq, Bool.not_eq_true'] at hw
          obtain ⟨⟨⟨⟨h1, -⟩, h3⟩, h4⟩, h5⟩ := hw
          have hq : (c == 39) = false := by simpa using h1
          simp only [List.cons_append, List.nil_append, lexOne, hq, h3, h4, h5, Bool.false_eq_true, if_false, if_true]
        | cons e es => simp [wfPiece] at hw

theorem wfPiece_head (X : TextTbl) (p : Piece) (hw : wfPiece X p = true) :
    ∃ c cs, p.txt = c :: cs ∧ (c == 32) = false := by
  obtain ⟨g, cls, txt⟩ := p
  cases txt with
  | nil => cases cls <;> simp [wfPiece] at hw
  | cons c cs =>
    refine ⟨c, cs, rfl, ?_⟩
    cases cls with
    | word => simp only [wfPiece, Bool.and_eq_true, bne_iff_ne, ne_eq] at hw; simpa using hw.1.1.1.1.1
    | num => simp only [wfPiece, Bool.and_eq_true, bne_iff_ne, ne_eq] at hw; simpa using hw.1.1.1
    | str =>
      simp only [wfPiece, Bool.and_eq_true, beq_iff_eq] at hw
      rw [hw.1]; decide
    | sym =>
      cases cs with
      | nil => simp only [wfPiece, Bool.and_eq_true, bne_iff_ne, ne_eq] at hw; simpa using hw.1.1.2
      | cons d ds =>
        cases ds with
        | nil => simp only [wfPiece, Bool.and_eq_true, bne_iff_ne, ne_eq] at hw; simpa using hw.1.1.1.2
        | cons e es => simp [wfPiece] at hw

theorem chainOK_head (X : TextTbl) (p : Piece) (ps : List Piece) (h : chainOK X (p :: ps) = true) :
    wfPiece X p = true ∧ chainOK X ps = true ∧
      (∀ d tl, textOf ps = d :: tl → stopOK X p d = true) := by
  cases ps with
  | nil => simp [chainOK] at h; exact ⟨h, by simp [chainOK], by intro d tl hd; simp [textOf] at hd⟩
  | cons q rest =>
    simp only [chainOK, Bool.and_eq_true] at h
    refine ⟨h.1.1, h.2, ?_⟩
    intro d tl hd
    have hq : wfPiece X q = true := by
      cases rest with
      | nil => simpa [chainOK] using h.2
      | cons r rs => simp only [chainOK, Bool.and_eq_true] at h; exact h.2.1.1
    obtain ⟨c, cs, hc, -⟩ := wfPiece_head X q hq
    have : d = nextCh q := by
      unfold nextCh
      by_cases hg : q.glue = true
      · simp [textOf, hg, hc] at hd; simp [hg, hc, hd.1]
      · simp only [Bool.not_eq_true] at hg
        simp [textOf, hg] at hd; simp [hg, hd.1]
    rw [this]; exact h.1.2

/-- **the lexeme model recovers the pieces**: a separable piece list is exactly what the text lexes into -/
theorem lexAll_pieces (X : TextTbl) : ∀ ps, chainOK X ps = true → ∀ f, (textOf ps).length ≤ f →
    lexAll X f (textOf ps) = some (ps.map (·.txt)) := by
  intro ps
  induction ps with
  | nil => intro _ f _; cases f <;> simp [textOf, lexAll]
  | cons p ps ih =>
    intro h f hf
    obtain ⟨hw, hrest, hstop⟩ := chainOK_head X p ps h
    obtain ⟨c, cs, hc, hc32⟩ := wfPiece_head X p hw
    have hone := lexOne_piece X p (textOf ps) hw hstop
    have hlen : (textOf (p :: ps)).length = (if p.glue then 0 else 1) + p.txt.length + (textOf ps).length := by
      simp only [textOf, List.length_append]
      split <;> simp
    -- the part after the optional blank
    have core : ∀ f', p.txt.length + (textOf ps).length ≤ f' →
        lexAll X f' (p.txt ++ textOf ps) = some (p.txt :: ps.map (·.txt)) := by
      intro f' hf'
      obtain ⟨f2, rfl⟩ : ∃ f2, f' = f2 + 1 := ⟨f' - 1, by rw [hc] at hf'; simp at hf'; omega⟩
      have hih := ih hrest f2 (by rw [hc] at hf'; simp at hf'; omega)
      rw [hc] at hone ⊢
      simp only [List.cons_append, lexAll, hc32, Bool.false_eq_true, if_false]
      simp only [List.cons_append] at hone
      rw [hone]; simp only [hih]; rfl
    by_cases hg : p.glue = true
    · have : textOf (p :: ps) = p.txt ++ textOf ps := by simp [textOf, hg]
      rw [this]
      simpa using core f (by rw [hlen] at hf; simp [hg] at hf; omega)
    · simp only [Bool.not_eq_true] at hg
      have : textOf (p :: ps) = 32 :: (p.txt ++ textOf ps) := by simp [textOf, hg]
      rw [this]
      obtain ⟨f1, rfl⟩ : ∃ f1, f = f1 + 1 := ⟨f - 1, by rw [hlen] at hf; simp [hg] at hf; omega⟩
      simp only [lexAll, beq_self_eq_true, if_true]
      simpa using core f1 (by rw [hlen] at hf; simp [hg] at hf; omega)

theorem map_txt_glued (l : List (Cls × List Ch)) : (glued l).map (·.txt) = l.map (·.2) := by
  simp [glued, List.map_map, Function.comp_def]

theorem map_txt_spacedWords (l : List (Cls × List Ch)) : (spacedWords l).map (·.txt) = l.map (·.2) := by
  cases l <;> simp [spacedWords, List.map_map, Function.comp_def]

theorem map_txt_sp (ps : List Piece) : (sp ps).map (·.txt) = ps.map (·.txt) := by
  cases ps <;> simp [sp]

/-- the pieces of the rendered text are the lexemes of the tree's tokens, in order -/
theorem render_lexemes (X : TextTbl) : ∀ t, (render X t).map (·.txt) = t.yield.flatMap (tokLex X) := by
  intro t
  induction t with
  | nil => simp [render, Tree.yield]
  | atom k n => simp [render, Tree.yield, tokLex, map_txt_glued]
  | group g c e ih => simp [render, Tree.yield, tokLex, map_txt_glued, ih, List.flatMap_append]
  | pre p x ih => simp [render, Tree.yield, tokLex, map_txt_glued, ih]
  | bin o l r ihl ihr =>
    simp only [render]
    split <;>
      simp [Tree.yield, tokLex, map_txt_glued, map_txt_spacedWords, map_txt_sp, ihl, ihr, List.flatMap_append]
  | typed o l n ih =>
    simp [render, Tree.yield, tokLex, map_txt_glued, map_txt_spacedWords, map_txt_sp, ih, List.flatMap_append]
  | post o c l e ihl ihe =>
    simp [render, Tree.yield, tokLex, map_txt_glued, ihl, ihe, List.flatMap_append]
  | arrow o l f a ihl ihf iha =>
    simp [render, Tree.yield, tokLex, map_txt_glued, map_txt_spacedWords, map_txt_sp, ihl, ihf, iha, List.flatMap_append]

/-- the text of a tree whose rendering is separable lexes into the lexemes of its tokens -/
theorem lex_render (X : TextTbl) (t : Tree) (h : chainOK X (render X t) = true) (f : Nat)
    (hf : (textOf (render X t)).length ≤ f) :
    lexAll X f (textOf (render X t)) = some (t.yield.flatMap (tokLex X)) := by
  rw [lexAll_pieces X _ h f hf, render_lexemes]

end EPV.Source

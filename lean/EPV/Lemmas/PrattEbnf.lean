/-
C04 helper: soundness of the executable reference parser `ebnf` (EPV/Spec/EBNF.lean) with respect to the
derivation predicate: whatever it returns is a strict EBNF derivation with the right yield.
-/
import EPV.Spec.EBNF
namespace EPV.Syn

/-- coherence of a grammar given as functions: levels below `top` have a kind, operator symbols sit at levels
of the matching kind -/
structure GramOK (G : Gram) : Prop where
  lkind_lt : ∀ k lk, G.lkind k = some lk → k < G.top
  pre_not_ulk : ∀ p j, G.pre p = some j → G.ulk p = false
  lkind_top : ∀ k, G.top ≤ k → G.lkind k = none
  lkind_some : ∀ k, k < G.top → ∃ lk, G.lkind k = some lk
  pre_kind : ∀ p j, G.pre p = some j → G.lkind j = some .prefix
  led_kind : ∀ o j kd, G.led o = some (j, kd) →
    (kd = .left → G.lkind j = some .left) ∧ (kd = .none → G.lkind j = some .none) ∧
    (kd = .typed → G.lkind j = some .typed) ∧ ((∃ c e, kd = .bracket c e) → G.lkind j = some .postfix) ∧
    (kd = .key → G.lkind j = some .postfix) ∧ (kd = .arrow → G.lkind j = some .left)

/-- what the accumulated left operand of `ebnfTail` satisfies at level `k` -/
def TailInv (G : Gram) (k : Nat) (l : Tree) : Prop :=
  k + 1 ≤ lvl G l ∨ (k ≤ lvl G l ∧ (G.lkind k = some .left ∨ G.lkind k = some .postfix))

theorem ebnf_sound_aux (G : Gram) (hG : GramOK G) : ∀ f,
    (∀ k toks t rest, k ≤ G.top → ebnf G f k toks = some (t, rest) →
        wf true G t = true ∧ k ≤ lvl G t ∧ t.yield ++ rest = toks) ∧
    (∀ k lk l toks t rest, k < G.top → G.lkind k = some lk → ebnfTail G f k lk l toks = some (t, rest) →
        wf true G l = true → TailInv G k l →
        wf true G t = true ∧ k ≤ lvl G t ∧ t.yield ++ rest = l.yield ++ toks) := by
  intro f
  induction f with
  | zero => constructor <;> intros <;> simp [ebnf, ebnfTail] at *
  | succ f ih =>
    obtain ⟨ihe, iht⟩ := ih
    constructor
    · intro k toks t rest hk h
      simp only [ebnf] at h
      split at h
      · -- primary
        split at h
        · rename_i a n rest0
          simp at h; obtain ⟨rfl, rfl⟩ := h
          simp [wf, lvl, Tree.yield, hk]
        · rename_i g rest0
          split at h
          · -- unary lookup
            rename_i hu
            split at h
            · rename_i x rest' hx
              split at h
              · rename_i hks
                simp at h; obtain ⟨rfl, rfl⟩ := h
                have := ihe k _ _ _ hk hx
                refine ⟨by simp [wf, hu, hks, this.1], by simp [lvl, hu, hk], ?_⟩
                rw [← this.2.2]; simp [Tree.yield]
              · simp at h
            · simp at h
          · rename_i hu
            split at h
            · rename_i c eo hg
              split at h
              · rename_i c' rest'
                split at h
                · rename_i hc
                  simp only [Bool.and_eq_true, beq_iff_eq] at hc
                  simp at h; obtain ⟨rfl, rfl⟩ := h
                  obtain ⟨heo, rfl⟩ := hc
                  simp [wf, hg, lvl, Tree.yield, Tree.isNil, heo, hk]
                · simp at h
              · split at h
                · rename_i e c' rest' he
                  split at h
                  · rename_i hc
                    simp only [beq_iff_eq] at hc
                    subst hc
                    simp at h; obtain ⟨rfl, rfl⟩ := h
                    have := ihe 0 _ _ _ (Nat.zero_le _) he
                    refine ⟨by simp [wf, hg, this.1], by simp [lvl, hk], ?_⟩
                    rw [← this.2.2]; simp [Tree.yield]
                  · simp at h
                · simp at h
            · simp at h
        · simp at h
      · -- prefix level
        rename_i hlk
        have hkt := hG.lkind_lt k _ hlk
        split at h
        · rename_i p rest0
          split at h
          · rename_i hp
            simp only [beq_iff_eq] at hp
            split at h
            · rename_i x rest' hx
              simp at h; obtain ⟨rfl, rfl⟩ := h
              have := ihe k _ _ _ hk hx
              have hnu := hG.pre_not_ulk p k hp
              refine ⟨by simp [wf, hnu, hp, this.1, this.2.1], by simp [lvl, hnu, hp], ?_⟩
              rw [← this.2.2]; simp [Tree.yield]
            · simp at h
          · have := ihe (k + 1) _ _ _ (by omega) h
            exact ⟨this.1, by omega, this.2.2⟩
        · have := ihe (k + 1) _ _ _ (by omega) h
          exact ⟨this.1, by omega, this.2.2⟩
      · -- binary / typed / postfix level
        rename_i lk hnp hlk
        have hkt := hG.lkind_lt k _ hlk
        split at h
        · rename_i l rest0 hl
          have h1 := ihe (k + 1) _ _ _ (by omega) hl
          have h2 := iht k lk l rest0 t rest hkt hlk h h1.1 (Or.inl h1.2.1)
          refine ⟨h2.1, h2.2.1, ?_⟩
          rw [h2.2.2, h1.2.2]
        · simp at h
    · intro k lk l toks t rest hkt hlk h hwl hinv
      have hlvl : k ≤ lvl G l := by rcases hinv with h1 | h1 <;> omega
      simp only [ebnfTail] at h
      split at h
      · rename_i o rest0
        split at h
        · rename_i j kind hg
          split at h
          · rename_i hjk
            simp only [beq_iff_eq] at hjk
            subst hjk
            have hkinds := hG.led_kind o j kind hg
            split at h
            · -- left
              split at h
              · rename_i r rest' hr
                have h1 := ihe (j + 1) _ _ _ (by omega) hr
                have hw : wf true G (.bin o l r) = true := by simp [wf, hg, hlvl, h1.1, h1.2.1, hwl]
                have hi : TailInv G j (.bin o l r) := Or.inr ⟨by simp [lvl, hg], Or.inl (hkinds.1 rfl)⟩
                have h2 := iht j lk _ _ _ _ hkt hlk h hw hi
                refine ⟨h2.1, h2.2.1, ?_⟩
                rw [h2.2.2, ← h1.2.2]; simp [Tree.yield]
              · simp at h
            · -- none
              split at h
              · rename_i r rest' hr
                simp at h; obtain ⟨rfl, rfl⟩ := h
                have h1 := ihe (j + 1) _ _ _ (by omega) hr
                have hl1 : j + 1 ≤ lvl G l := by
                  rcases hinv with h3 | ⟨-, h3⟩
                  · exact h3
                  · have := hkinds.2.1 rfl; rcases h3 with h3 | h3 <;> rw [this] at h3 <;> simp at h3
                refine ⟨by simp [wf, hg, hl1, h1.1, h1.2.1, hwl], by simp [lvl, hg], ?_⟩
                rw [← h1.2.2]; simp [Tree.yield]
              · simp at h
            · -- typed
              split at h
              · rename_i n rest'
                simp at h; obtain ⟨rfl, rfl⟩ := h
                have hl1 : j + 1 ≤ lvl G l := by
                  rcases hinv with h3 | ⟨-, h3⟩
                  · exact h3
                  · have := hkinds.2.2.1 rfl; rcases h3 with h3 | h3 <;> rw [this] at h3 <;> simp at h3
                exact ⟨by simp [wf, hg, hl1, hwl], by simp [lvl, hg], by simp [Tree.yield]⟩
              · simp at h
            · -- bracket
              rename_i c eo
              have hpk := hkinds.2.2.2.1 ⟨c, eo, rfl⟩
              split at h
              · rename_i c' rest'
                split at h
                · rename_i hc
                  simp only [Bool.and_eq_true, beq_iff_eq] at hc
                  obtain ⟨heo, rfl⟩ := hc
                  have hw : wf true G (.post o c' l .nil) = true := by simp [wf, hg, hlvl, hwl, Tree.isNil, heo]
                  have hi : TailInv G j (.post o c' l .nil) := Or.inr ⟨by simp [lvl, hg], Or.inr hpk⟩
                  have h2 := iht j lk _ _ _ _ hkt hlk h hw hi
                  refine ⟨h2.1, h2.2.1, ?_⟩
                  rw [h2.2.2]; simp [Tree.yield]
                · simp at h
              · split at h
                · rename_i e c' rest' he
                  split at h
                  · rename_i hc
                    simp only [beq_iff_eq] at hc
                    subst hc
                    have h1 := ihe 0 _ _ _ (Nat.zero_le _) he
                    have hw : wf true G (.post o c' l e) = true := by simp [wf, hg, hlvl, hwl, h1.1]
                    have hi : TailInv G j (.post o c' l e) := Or.inr ⟨by simp [lvl, hg], Or.inr hpk⟩
                    have h2 := iht j lk _ _ _ _ hkt hlk h hw hi
                    refine ⟨h2.1, h2.2.1, ?_⟩
                    rw [h2.2.2, ← h1.2.2]; simp [Tree.yield]
                  · simp at h
                · simp at h
            · -- key
              have hpk := hkinds.2.2.2.2.1 rfl
              split at h
              · rename_i r rest' hr
                split at h
                · rename_i hks
                  have h1 := ihe G.top _ _ _ (Nat.le_refl _) hr
                  have hw : wf true G (.bin o l r) = true := by simp [wf, hg, hlvl, hwl, h1.1, hks]
                  have hi : TailInv G j (.bin o l r) := Or.inr ⟨by simp [lvl, hg], Or.inr hpk⟩
                  have h2 := iht j lk _ _ _ _ hkt hlk h hw hi
                  refine ⟨h2.1, h2.2.1, ?_⟩
                  rw [h2.2.2, ← h1.2.2]; simp [Tree.yield]
                · simp at h
              · simp at h
            · -- arrow
              have hlk' := hkinds.2.2.2.2.2 rfl
              split at h
              · rename_i s rest1 hs
                split at h
                · rename_i hspec
                  split at h
                  · rename_i a rest2 ha
                    split at h
                    · rename_i hgrp
                      have h1 := ihe G.top _ _ _ (Nat.le_refl _) hs
                      have h1' := ihe G.top _ _ _ (Nat.le_refl _) ha
                      have hw : wf true G (.arrow o l s a) = true := by
                        simp [wf, hg, hlvl, hwl, h1.1, h1'.1, hspec, hgrp]
                      have hi : TailInv G j (.arrow o l s a) := Or.inr ⟨by simp [lvl, hg], Or.inl hlk'⟩
                      have h2 := iht j lk _ _ _ _ hkt hlk h hw hi
                      refine ⟨h2.1, h2.2.1, ?_⟩
                      rw [h2.2.2, ← h1.2.2, ← h1'.2.2]; simp [Tree.yield]
                    · simp at h
                  · simp at h
                · simp at h
              · simp at h
          · simp at h; obtain ⟨rfl, rfl⟩ := h; exact ⟨hwl, hlvl, rfl⟩
        · simp at h; obtain ⟨rfl, rfl⟩ := h; exact ⟨hwl, hlvl, rfl⟩
      · simp at h; obtain ⟨rfl, rfl⟩ := h; exact ⟨hwl, hlvl, rfl⟩

/-- **soundness of the reference parser**: a tree it returns is an EBNF derivation from the start symbol
whose tokens are the input -/
theorem ebnfParse_sound (G : Gram) (hG : GramOK G) (toks : List Tok) (t : Tree)
    (h : ebnfParse G toks = some t) : derivable G 0 t = true ∧ t.yield = toks := by
  unfold ebnfParse at h
  split at h
  · rename_i t' heq
    simp at h; subst h
    have := (ebnf_sound_aux G hG _).1 0 toks t' [] (Nat.zero_le _) heq
    exact ⟨by simp [derivable, this.1], by simpa using this.2.2⟩
  · simp at h

theorem findLevel_spec (pfx : Bool) (s : String) : ∀ (levels : List Level) (i j : Nat) (lk : LKind),
    findLevel pfx s levels i = some (j, lk) →
      i ≤ j ∧ ∃ L, levels[j - i]? = some L ∧ L.kind = lk ∧ (L.kind == .prefix) = pfx := by
  intro levels
  induction levels with
  | nil => intro i j lk h; simp [findLevel] at h
  | cons L ls ih =>
    intro i j lk h
    simp only [findLevel] at h
    split at h
    · rename_i hc
      simp only [Bool.and_eq_true, beq_iff_eq] at hc
      simp at h; obtain ⟨rfl, rfl⟩ := h
      exact ⟨Nat.le_refl _, L, by simp, rfl, hc.1⟩
    · obtain ⟨h1, L', h2, h3, h4⟩ := ih (i + 1) j lk h
      refine ⟨by omega, L', ?_, h3, h4⟩
      have : j - i = (j - (i + 1)) + 1 := by omega
      rw [this]; simpa using h2

/-- the grammar built from a level list is coherent -/
theorem gramOf_ok (levels : List Level) (ep : Bool) (syms : List String) : GramOK (gramOf levels ep syms) := by
  constructor
  · intro k lk h
    simp only [gramOf, Option.map_eq_some_iff] at h
    obtain ⟨L, hL, -⟩ := h
    have := List.getElem?_eq_some_iff.1 hL
    exact this.1
  · intro p j h
    simp only [gramOf] at h ⊢
    split at h
    · rename_i s hs
      cases hu : (syms[p]? == some "?") with
      | false => simp
      | true =>
        have hs' : s = "?" := by
          rw [hs] at hu; simpa using hu
        subst hs'
        cases hf : findLevel true "?" levels 0 with
        | none => rw [hf] at h; simp at h
        | some v => simp
    · simp at h
  · intro k hk
    simp only [gramOf] at hk ⊢
    simp [List.getElem?_eq_none hk]
  · intro k hk
    simp only [gramOf] at hk ⊢
    exact ⟨levels[k].kind, by simp [List.getElem?_eq_getElem hk]⟩
  · intro p j h
    simp only [gramOf] at h
    split at h
    · rename_i s hs
      simp only [Option.map_eq_some_iff] at h
      obtain ⟨⟨j', lk⟩, hf, rfl⟩ := h
      obtain ⟨-, L, hL, hk, hp⟩ := findLevel_spec true s levels 0 j' lk hf
      simp only [gramOf, Nat.sub_zero] at hL ⊢
      have : L.kind = .prefix := by simpa using hp
      simp [hL, this]
    · simp at h
  · intro o j kd h
    simp only [gramOf] at h
    split at h
    · rename_i s hs
      split at h
      · rename_i j' lk hf
        obtain ⟨-, L, hL, hk, hp⟩ := findLevel_spec false s levels 0 j' lk hf
        simp only [Option.map_eq_some_iff, Prod.mk.injEq] at h
        obtain ⟨kd', hkd, rfl, rfl⟩ := h
        have hlk : (gramOf levels ep syms).lkind j' = some lk := by
          simp only [gramOf, Nat.sub_zero] at hL ⊢
          simp [hL, hk]
        rw [hlk]
        cases lk <;> simp [kindOf] at hkd
        · split at hkd
          · simp at hkd; subst hkd; simp
          · simp at hkd; subst hkd; simp
        · subst hkd; simp
        · subst hkd; simp
        · split at hkd
          · simp at hkd; subst hkd; simp
          · simp at hkd; subst hkd; simp
      · simp at h
    · simp at h

end EPV.Syn

/-
C15 — the interpreter built from the Python transcriptions (`pyDialect false`) and the one built
from the F&O definitions (`specDialect`) compute the same thing on every operation sequence whose
literal keys do not clash (`Agree K`) and that has no boolean `?` key: `run_refine`.
Invariant: every map object in the store is well-formed with keys in `K` (`MapsOK`).
-/
import EPV.Lemmas.MapArrayMergeRefine
import EPV.Lemmas.MapArrayArrays
import EPV.Lemmas.MapArrayHeap
import EPV.Lemmas.MapArrayHof
namespace EPV.MapArray
open Spec

/-- every map object of the store is well-formed and has its keys in `K` -/
def MapsOK (K : List Key) (s : Store) : Prop :=
  ∀ (a : Nat) (es : Entries Seq), s[a]? = some (Obj.map es) → WF es ∧ ∀ e ∈ es, e.1 ∈ K

theorem asMap_ok {s : Store} {v : Seq} {es : Entries Seq} (h : asMap s v = .ok es) :
    ∃ a : Nat, s[a]? = some (Obj.map es) := by
  unfold asMap at h
  split at h
  · rename_i a
    split at h
    · rename_i es' heq
      injection h with h; subst h; exact ⟨a, heq⟩
    · cases h
  · cases h

theorem mapM_asMap_ok {s : Store} (v : Seq) {maps : List (Entries Seq)}
    (h : v.mapM (fun it => asMap s [it]) = .ok maps) : ∀ es ∈ maps, ∃ a : Nat, s[a]? = some (Obj.map es) := by
  induction v generalizing maps with
  | nil =>
    simp only [List.mapM_nil, pure, Except.pure] at h
    injection h with h; subst h; simp
  | cons it rest ih =>
    rw [List.mapM_cons] at h
    obtain ⟨es0, h0, h⟩ := bind_ok h
    obtain ⟨rest', h1, h⟩ := bind_ok h
    simp only [pure, Except.pure] at h
    injection h with h; subst h
    intro es hes
    rcases List.mem_cons.1 hes with rfl | hes
    · exact asMap_ok h0
    · exact ih h1 es hes

theorem MapsOK_alloc_arr {K : List Key} {s : Store} (h : MapsOK K s) (ms : List Seq) :
    MapsOK K (alloc s (.arr ms)).1 := by
  intro a es ha
  simp only [alloc] at ha
  by_cases hlt : a < s.length
  · rw [List.getElem?_append_left hlt] at ha; exact h a es ha
  · rw [List.getElem?_append_right (by omega)] at ha
    by_cases h0 : a - s.length = 0
    · rw [h0] at ha; simp at ha
    · have : ([Obj.arr ms] : List Obj)[a - s.length]? = none := by
        apply List.getElem?_eq_none; simp; omega
      rw [this] at ha; cases ha

theorem MapsOK_alloc_map {K : List Key} {s : Store} (h : MapsOK K s) (es : Entries Seq)
    (hes : WF es ∧ ∀ e ∈ es, e.1 ∈ K) : MapsOK K (alloc s (.map es)).1 := by
  intro a es' ha
  simp only [alloc] at ha
  by_cases hlt : a < s.length
  · rw [List.getElem?_append_left hlt] at ha; exact h a es' ha
  · rw [List.getElem?_append_right (by omega)] at ha
    by_cases h0 : a - s.length = 0
    · rw [h0] at ha; simp at ha; subst ha; exact hes
    · have : ([Obj.map es] : List Obj)[a - s.length]? = none := by
        apply List.getElem?_eq_none; simp; omega
      rw [this] at ha; cases ha

theorem MapsOK_allocMany_arr {K : List Key} {s : Store} (h : MapsOK K s) (l : List (List Seq)) :
    MapsOK K (allocMany s (l.map Obj.arr)).1 := by
  induction l generalizing s with
  | nil => exact h
  | cons ms rest ih =>
    simp only [List.map_cons, allocMany]
    exact ih (MapsOK_alloc_arr h ms)


section
variable {K : List Key} (hA : Agree K)
include hA

theorem py_ctor_eq (l : List (Key × Seq)) (hl : ∀ e ∈ l, e.1 ∈ K) : mapCtor l = Spec.construct l :=
  mapCtor_eq_spec l fun a ha b hb => (hA a.1 (hl a ha) b.1 (hl b hb)).1

theorem py_put_eq {es : Entries Seq} (hes : WF es) (hsub : ∀ e ∈ es, e.1 ∈ K) {k : Key} (hk : k ∈ K)
    (v : Seq) : mapPut es k v = .ok (Spec.put es k v) := by
  rw [mapPut_of_WF hes, ← putList_eq_spec es k v fun e he => (hA e.1 (hsub e he) k hk).2]; rfl

theorem py_remove_eq {es : Entries Seq} (hes : WF es) (hsub : ∀ e ∈ es, e.1 ∈ K) {ks : List Key}
    (hks : ∀ x ∈ ks, x ∈ K) : mapRemove es ks = .ok (Spec.remove es ks) := by
  rw [mapRemove_of_WF hes, removeList_eq_spec es ks fun e he x hx => (hA e.1 (hsub e he) x (hks x hx)).2]

theorem py_get_eq {es : Entries Seq} (hsub : ∀ e ∈ es, e.1 ∈ K) {k : Key} (hk : k ∈ K) :
    mapGet es k = Spec.get es k :=
  mapGet_eq_spec es k fun e he => (hA e.1 (hsub e he) k hk).1

theorem py_contains_eq {es : Entries Seq} (hsub : ∀ e ∈ es, e.1 ∈ K) {k : Key} (hk : k ∈ K) :
    mapContains es k = Spec.contains es k :=
  mapContains_eq_spec es k fun e he => (hA e.1 (hsub e he) k hk).2

theorem py_merge_eq (maps : List (Entries Seq)) (hall : ∀ es ∈ maps, ∀ e ∈ es, e.1 ∈ K) (p : Policy) :
    mapMerge maps p = Spec.merge maps p := by
  apply mapMerge_eq_spec
  apply Agree_mono hA
  intro k hk
  obtain ⟨e, he, rfl⟩ := List.mem_map.1 hk
  obtain ⟨es, hes, hee⟩ := List.mem_flatten.1 he
  exact hall es hes e hee

theorem findItems_eq {s : Store} (hM : MapsOK K s) {key : Key} (hk : key ∈ K) (fuel : Nat) (v : Seq) :
    findItems sameKeyPy s key fuel v = findItems (fun a b => sameKey a b) s key fuel v := by
  induction fuel generalizing v with
  | zero => rfl
  | succ n ih =>
    simp only [findItems]
    congr 1
    funext it
    cases it with
    | atom k => rfl
    | ref a =>
      simp only
      cases hs : s[a]? with
      | none => rfl
      | some o =>
        cases o with
        | arr ms => simp only [ih]
        | map es =>
          simp only
          obtain ⟨_, hsub⟩ := hM a es hs
          rw [List.flatMap_def, List.flatMap_def]
          congr 1
          apply List.map_congr_left
          intro e he
          rw [ih, sameKeyPy_eq_scanEq, (hA e.1 (hsub e he) key hk).2]


omit hA in
theorem mapM_congr_mem {α β : Type} {l : List α} {f g : α → Except Err β} (h : ∀ x ∈ l, f x = g x) :
    l.mapM f = l.mapM g := by
  induction l with
  | nil => rfl
  | cons x rest ih =>
    rw [List.mapM_cons, List.mapM_cons, h x (by simp), ih fun y hy => h y (List.mem_cons_of_mem _ hy)]

omit hA in
theorem arrIndex_eq (k : Key) : pyArrIndex k = Spec.arrIndex k := by
  cases k <;> rfl

theorem lookupItem_eq {s : Store} (hM : MapsOK K s) (ks : Option (List Key))
    (hks : ∀ l, ks = some l → (∀ k ∈ l, k ∈ K)) (it : Item) :
    lookupItem (pyDialect false) s ks it = lookupItem specDialect s ks it := by
  cases it with
  | atom k => rfl
  | ref a =>
    simp only [lookupItem]
    cases hs : s[a]? with
    | none => rfl
    | some o =>
      cases o with
      | map es =>
        obtain ⟨_, hsub⟩ := hM a es hs
        cases ks with
        | none => rfl
        | some l =>
          simp only [pyDialect, specDialect]
          have hl := hks l rfl
          congr 1
          rw [List.flatMap_def, List.flatMap_def]
          congr 1
          apply List.map_congr_left
          intro k hk
          exact py_get_eq hA hsub (hl k hk)
      | arr ms =>
        cases ks with
        | none => rfl
        | some l =>
          simp only [pyDialect, specDialect]
          congr 1
          apply mapM_congr_mem
          intro k hk
          rw [arrIndex_eq k]
          cases Spec.arrIndex k with
          | error e => rfl
          | ok p => simp only [bind, Except.bind]; exact arrGet_eq ms p


omit hA in
/-- a map or array called as a function: the Python transcriptions and the F&O definitions agree,
whatever the (computed) key is — by `key_identity_all` -/
theorem callFn_eq (s : Store) (f arg : Seq) :
    callFn (pyDialect false) s f arg = callFn specDialect s f arg := by
  unfold callFn
  split
  · rename_i key
    split
    · rename_i a
      cases hs : s[a]? with
      | none => rfl
      | some o =>
        cases o with
        | map es =>
          simp only [pyDialect, specDialect]
          rw [mapGet_eq_spec es key fun e _ => (key_identity_all e.1 key).1]
        | arr ms =>
          simp only [pyDialect, specDialect, arrIndex_eq, arrGet_eq]
    · rfl
  · rfl

omit hA in
/-- `deepEqSeq` depends on the dialect only through `atomEq`, `mapHas`, `mapGet` -/
theorem deepEq_congr (d1 d2 : Dialect) (h1 : d1.atomEq = d2.atomEq) (h2 : d1.mapHas = d2.mapHas)
    (h3 : d1.mapGet = d2.mapGet) (s : Store) (fuel : Nat) :
    (∀ v1 v2, deepEqSeq d1 s fuel v1 v2 = deepEqSeq d2 s fuel v1 v2) ∧
    (∀ i1 i2, deepEqItem d1 s fuel i1 i2 = deepEqItem d2 s fuel i1 i2) := by
  induction fuel with
  | zero =>
    refine ⟨fun _ _ => rfl, fun i1 i2 => ?_⟩
    cases i1 <;> cases i2 <;> simp [deepEqItem, h1]
  | succ n ih =>
    constructor
    · intro v1 v2
      simp only [deepEqSeq]
      congr 2
      funext p
      exact ih.2 p.1 p.2
    · intro i1 i2
      cases i1 <;> cases i2 <;> simp only [deepEqItem, h1]
      rename_i a b
      cases s[a]? with
      | none => rfl
      | some o1 =>
        cases s[b]? with
        | none => cases o1 <;> rfl
        | some o2 =>
          cases o1 <;> cases o2 <;> simp only
          · congr 2; funext p; exact ih.1 p.1 p.2
          · rw [h2, h3]; congr 2; funext e; rw [ih.1]

omit hA in
/-- deep-equal of the Python transcriptions = deep-equal of the F&O definitions, for all values -/
theorem deepEq_py_eq_spec (s : Store) (fuel : Nat) (v1 v2 : Seq) :
    deepEqSeq (pyDialect false) s fuel v1 v2 = deepEqSeq specDialect s fuel v1 v2 := by
  refine (deepEq_congr _ _ ?_ ?_ ?_ s fuel).1 v1 v2
  · funext a b; exact pyAtomEq_eq_spec a b
  · funext es k; exact dictHas_eq_contains fun x _ => (key_identity_all x.1 k).1
  · funext es k; exact mapGet_eq_spec es k fun e _ => (key_identity_all e.1 k).1

/-- the literal keys of the operation are in `K`, and no `?` lookup has a boolean key -/
def OpOK (K : List Key) (op : Op) : Prop :=
  ∀ k ∈ opKeys op, k ∈ K

theorem evalOp_refine (st : St) (hM : MapsOK K st.store) (op : Op) (hop : OpOK K op) :
    evalOp (pyDialect false) st op = evalOp specDialect st op := by
  have hkeys := hop
  cases op with
  | seq parts => rfl
  | mCtor es =>
    simp only [evalOp, pyDialect, specDialect]
    rw [py_ctor_eq hA]
    intro e he
    obtain ⟨x, hx, rfl⟩ := List.mem_map.1 he
    exact hkeys x.1 (List.mem_map.2 ⟨x, hx, rfl⟩)
  | mPut m k v =>
    simp only [evalOp, pyDialect, specDialect]
    cases h : asMap st.store (st.var m) with
    | error e => rfl
    | ok es =>
      obtain ⟨a, ha⟩ := asMap_ok h
      obtain ⟨hwf, hsub⟩ := hM a es ha
      simp only [bind, Except.bind]
      rw [py_put_eq hA hwf hsub (hkeys k (by simp [opKeys]))]
  | mRemove m ks =>
    simp only [evalOp, pyDialect, specDialect]
    cases h : asMap st.store (st.var m) with
    | error e => rfl
    | ok es =>
      obtain ⟨a, ha⟩ := asMap_ok h
      obtain ⟨hwf, hsub⟩ := hM a es ha
      simp only [bind, Except.bind]
      rw [py_remove_eq hA hwf hsub (fun x hx => hkeys x (by simpa [opKeys] using hx))]
  | mGet m k =>
    simp only [evalOp, pyDialect, specDialect]
    cases h : asMap st.store (st.var m) with
    | error e => rfl
    | ok es =>
      obtain ⟨a, ha⟩ := asMap_ok h
      obtain ⟨hwf, hsub⟩ := hM a es ha
      simp only [bind, Except.bind]
      rw [py_get_eq hA hsub (hkeys k (by simp [opKeys]))]
  | mContains m k =>
    simp only [evalOp, pyDialect, specDialect]
    cases h : asMap st.store (st.var m) with
    | error e => rfl
    | ok es =>
      obtain ⟨a, ha⟩ := asMap_ok h
      obtain ⟨hwf, hsub⟩ := hM a es ha
      simp only [bind, Except.bind]
      rw [py_contains_eq hA hsub (hkeys k (by simp [opKeys]))]
  | mSize m => rfl
  | mKeys m => rfl
  | mEntry k v =>
    simp only [evalOp, pyDialect, specDialect]
    rw [py_ctor_eq hA]
    intro e he
    simp at he; subst he
    exact hkeys k (by simp [opKeys])
  | mMerge ms pol =>
    cases pol with
    | none => rfl
    | some p =>
      simp only [evalOp, pyDialect, specDialect]
      cases h : (st.var ms).mapM (fun it => asMap st.store [it]) with
      | error e => rfl
      | ok maps =>
        simp only [bind, Except.bind]
        rw [py_merge_eq hA maps (fun es hes => by
          obtain ⟨a, ha⟩ := mapM_asMap_ok _ h es hes
          exact (hM a es ha).2)]
  | mFind input k =>
    simp only [evalOp, pyDialect, specDialect]
    rw [findItems_eq hA hM (hkeys k (by simp [opKeys]))]
  | mForEach m => rfl
  | lookup v ks =>
    simp only [evalOp]
    rw [mapM_congr_mem fun it _ => lookupItem_eq hA hM ks (fun l hl => by
      subst hl
      exact fun k hk => hkeys k (by simpa [opKeys] using hk)) it]
  | aSquare ms => rfl
  | aCurly v => rfl
  | aGet a p => simp only [evalOp, pyDialect, specDialect, arrGet_eq]
  | aPut a p v => simp only [evalOp, pyDialect, specDialect, arrPut_eq, writeBack, Bool.false_eq_true, ↓reduceIte]
  | aInsert a p v => simp only [evalOp, pyDialect, specDialect, arrInsertBefore_eq, writeBack, Bool.false_eq_true, ↓reduceIte]
  | aAppend a v => simp only [evalOp, pyDialect, specDialect, arrAppend_eq, writeBack, Bool.false_eq_true, ↓reduceIte]
  | aRemove a ps => simp only [evalOp, pyDialect, specDialect, arrRemove_eq]
  | aSub a start len => simp only [evalOp, pyDialect, specDialect, arrSubarray_eq]
  | aHead a => simp only [evalOp, pyDialect, specDialect, arrHead_eq]
  | aTail a => simp only [evalOp, pyDialect, specDialect, arrTail_eq]
  | aReverse a => simp only [evalOp, pyDialect, specDialect, arrReverse_eq]
  | aJoin v => rfl
  | aFlatten v => rfl
  | aSize a => rfl
  | aForEach a f => rfl
  | aFilter a p => rfl
  | aFoldL a z f => rfl
  | aFoldR a z f => rfl
  | aForEachPair a b f => rfl
  | mForEachF m f => rfl
  | deq a b => simp only [evalOp, deepEq_py_eq_spec]
  | aSort a => rfl
  | call f k first => simp only [evalOp, callFn_eq]
  | call2 t k1 k2 =>
    simp only [evalOp, callFn_eq]


omit hA in
theorem spec_mergeLoop_keys (pol : Policy) (acc : Entries (List β)) (l : List (Key × List β))
    (m : Entries (List β)) (h : Spec.mergeLoop pol acc l = .ok m) :
    ∀ x ∈ m, x.1 ∈ keysOf acc ++ keysOf l := by
  induction l generalizing acc with
  | nil =>
    simp only [Spec.mergeLoop] at h; injection h with h; subst h
    intro x hx; simpa [keysOf] using mem_keysOf hx
  | cons e rest ih =>
    simp only [Spec.mergeLoop] at h
    cases hs : Spec.mergeStep pol acc e with
    | error x => rw [hs] at h; simp at h
    | ok acc' =>
      rw [hs] at h
      intro x hx
      rcases List.mem_append.1 (ih acc' h x hx) with hx' | hx'
      · obtain ⟨y, hy, hyx⟩ := List.mem_map.1 hx'
        rcases spec_mergeStep_keys pol acc acc' e hs y hy with h1 | h1
        · rw [← hyx]; exact List.mem_append_left _ h1
        · rw [← hyx, h1]; exact List.mem_append_right _ (by simp [keysOf])
      · exact List.mem_append_right _ (by simp only [keysOf, List.map_cons, List.mem_cons]; exact Or.inr hx')

theorem spec_put_ok {es : Entries Seq} (hes : WF es) (hsub : ∀ e ∈ es, e.1 ∈ K) {k : Key} (hk : k ∈ K)
    (v : Seq) : WF (Spec.put es k v) ∧ ∀ e ∈ Spec.put es k v, e.1 ∈ K := by
  constructor
  · have := mapPut_WF hes (py_put_eq hA hes hsub hk v)
    exact this
  · intro e he
    simp only [Spec.put, List.mem_append, List.mem_filter, List.mem_singleton] at he
    rcases he with ⟨he, _⟩ | rfl
    · exact hsub e he
    · exact hk

theorem spec_construct_ok {l es : Entries Seq} (hl : ∀ e ∈ l, e.1 ∈ K) (h : Spec.construct l = .ok es) :
    WF es ∧ ∀ e ∈ es, e.1 ∈ K := by
  rw [← py_ctor_eq hA l hl] at h
  obtain ⟨rfl, hwf⟩ := mapCtor_ok h
  exact ⟨hwf, hl⟩

theorem spec_merge_ok {maps : List (Entries Seq)} (hall : ∀ es ∈ maps, ∀ e ∈ es, e.1 ∈ K) {p : Policy}
    {m : Entries Seq} (h : Spec.merge maps p = .ok m) : WF m ∧ ∀ e ∈ m, e.1 ∈ K := by
  have hsub : ∀ k ∈ keysOf maps.flatten, k ∈ K := by
    intro k hk
    obtain ⟨e, he, rfl⟩ := List.mem_map.1 hk
    obtain ⟨es, hes, hee⟩ := List.mem_flatten.1 he
    exact hall es hes e hee
  have hloop := mergeLoop_eq_spec p [] maps.flatten (by simp [WF])
    (by simpa [keysOf] using Agree_mono hA hsub)
  refine ⟨hloop.2 m h, fun e he => ?_⟩
  have := spec_mergeLoop_keys p [] maps.flatten m h e he
  exact hsub e.1 (by simpa [keysOf] using this)

omit hA in
theorem liftAlloc_arr_ok {s s' : Store} {v : Seq} (hM : MapsOK K s) {r : Except Err (List Seq)}
    (h : liftAlloc s (r.map Obj.arr) = .ok (s', v)) : MapsOK K s' := by
  cases r with
  | error e => simp [liftAlloc, Except.map] at h
  | ok ms =>
    simp only [liftAlloc, Except.map, Except.ok.injEq] at h
    have := MapsOK_alloc_arr hM ms
    rw [h] at this; exact this

omit hA in
theorem liftAlloc_map_ok {s s' : Store} {v : Seq} (hM : MapsOK K s) {r : Except Err (Entries Seq)}
    (hr : ∀ es, r = .ok es → WF es ∧ ∀ e ∈ es, e.1 ∈ K)
    (h : liftAlloc s (r.map Obj.map) = .ok (s', v)) : MapsOK K s' := by
  cases r with
  | error e => simp [liftAlloc, Except.map] at h
  | ok es =>
    simp only [liftAlloc, Except.map, Except.ok.injEq] at h
    have := MapsOK_alloc_map hM es (hr es rfl)
    rw [h] at this; exact this

omit hA in
theorem ok_store_same {s s' : Store} {v v' : Seq} (hM : MapsOK K s)
    (h : (Except.ok (s, v) : Except Err (Store × Seq)) = .ok (s', v')) : MapsOK K s' := by
  injection h with h; injection h with h1 h2; subst h1; exact hM

omit hA in
theorem ok_alloc_arr {s s' : Store} {ms : List Seq} {v' : Seq} (hM : MapsOK K s)
    (h : (Except.ok (alloc s (Obj.arr ms)) : Except Err (Store × Seq)) = .ok (s', v')) : MapsOK K s' := by
  injection h with h; have := MapsOK_alloc_arr hM ms; rw [h] at this; exact this

theorem evalOp_spec_MapsOK (st : St) (hM : MapsOK K st.store) (op : Op) (hop : OpOK K op)
    (s' : Store) (v : Seq) (h : evalOp specDialect st op = .ok (s', v)) : MapsOK K s' := by
  have hkeys := hop
  cases op <;> simp only [evalOp, specDialect, writeBack, Bool.false_eq_true, ↓reduceIte] at h
  case mCtor es =>
    refine liftAlloc_map_ok hM (fun es' hes' => spec_construct_ok hA (fun e he => ?_) hes') h
    obtain ⟨x, hx, rfl⟩ := List.mem_map.1 he
    exact hkeys x.1 (List.mem_map.2 ⟨x, hx, rfl⟩)
  case mEntry k vv =>
    refine liftAlloc_map_ok hM (fun es' hes' => spec_construct_ok hA (fun e he => ?_) hes') h
    simp at he; subst he; exact hkeys k (by simp [opKeys])
  case mPut m k vv =>
    obtain ⟨es, hes, h⟩ := bind_ok h
    obtain ⟨a, ha⟩ := asMap_ok hes
    obtain ⟨hwf, hsub⟩ := hM a es ha
    exact liftAlloc_map_ok hM (fun es' hes' => by
      injection hes' with hes'; subst hes'
      exact spec_put_ok hA hwf hsub (hkeys k (by simp [opKeys])) _) h
  case mRemove m ks =>
    obtain ⟨es, hes, h⟩ := bind_ok h
    obtain ⟨a, ha⟩ := asMap_ok hes
    obtain ⟨hwf, hsub⟩ := hM a es ha
    exact liftAlloc_map_ok hM (fun es' hes' => by
      injection hes' with hes'; subst hes'
      exact ⟨WF_filter _ hwf, fun e he => hsub e (List.mem_filter.1 he).1⟩) h
  case mMerge ms pol =>
    cases pol with
    | none => simp at h
    | some p =>
      simp only at h
      obtain ⟨maps, hmaps, h⟩ := bind_ok h
      exact liftAlloc_map_ok hM (fun m hm => spec_merge_ok hA (fun es hes => by
        obtain ⟨a, ha⟩ := mapM_asMap_ok _ hmaps es hes
        exact (hM a es ha).2) hm) h
  case mForEach m =>
    obtain ⟨es, _, h⟩ := bind_ok h
    injection h with h
    have := MapsOK_allocMany_arr hM (es.map fun e => [[Item.atom e.1], e.2])
    rw [List.map_map] at this
    rw [show (es.map fun e => Obj.arr [[Item.atom e.1], e.2]) = es.map (Obj.arr ∘ fun e => [[Item.atom e.1], e.2]) from rfl] at h
    rw [h] at this; exact this
  all_goals
    first
    | exact ok_store_same hM h
    | exact ok_alloc_arr hM h
    | exact liftAlloc_arr_ok hM h
    | (obtain ⟨_, _, h⟩ := bind_ok h
       first
       | exact ok_store_same hM h
       | exact ok_alloc_arr hM h
       | exact liftAlloc_arr_ok hM h
       | (obtain ⟨_, _, h⟩ := bind_ok h
          first
          | exact ok_store_same hM h
          | exact ok_alloc_arr hM h
          | exact liftAlloc_arr_ok hM h))


theorem step_refine (st : St) (hM : MapsOK K st.store) (op : Op) (hop : OpOK K op) :
    step (pyDialect false) st op = step specDialect st op ∧ MapsOK K (step specDialect st op).1.store := by
  unfold step
  rw [evalOp_refine hA st hM op hop]
  refine ⟨rfl, ?_⟩
  cases h : evalOp specDialect st op with
  | error e => exact hM
  | ok r =>
    obtain ⟨s', v⟩ := r
    exact evalOp_spec_MapsOK hA st hM op hop s' v h

theorem run_refine (st : St) (hM : MapsOK K st.store) (ops : List Op) (hops : ∀ op ∈ ops, OpOK K op) :
    run (pyDialect false) st ops = run specDialect st ops := by
  induction ops generalizing st with
  | nil => rfl
  | cons op rest ih =>
    obtain ⟨h1, h2⟩ := step_refine hA st hM op (hops op (by simp))
    simp only [run, List.foldl_cons, h1]
    exact ih _ h2 fun o ho => hops o (List.mem_cons_of_mem _ ho)

end

end EPV.MapArray

/-
Helper lemmas for C13 (UnicodeSubset model).  Property theorems are in EPV/Props/C13.lean.
-/
import EPV.Spec.SetSpec
namespace EPV.USet

theorem winv_tail {c : CP} {cs : List CP} (h : WInv (c :: cs)) : WInv cs := by
  cases cs with
  | nil => trivial
  | cons d ds => exact h.2.2

theorem winv_head {c : CP} {cs : List CP} (h : WInv (c :: cs)) : c.lo < c.hi := by
  cases cs with
  | nil => exact h
  | cons d ds => exact h.1

/-- lower bound on the first entry -/
def headLoGe (b : Nat) : List CP → Prop
  | [] => True
  | c :: _ => b ≤ c.lo

theorem winv_cons {c : CP} {l : List CP} :
    WInv (c :: l) ↔ c.lo < c.hi ∧ headLoGe c.hi l ∧ WInv l := by
  cases l with
  | nil => simp [WInv, headLoGe]
  | cons d ds => simp [WInv, headLoGe]

theorem winv_lb {c : CP} {cs : List CP} (h : WInv (c :: cs)) : ∀ x, memL x cs → c.hi ≤ x := by
  induction cs generalizing c with
  | nil => intro x hx; exact hx.elim
  | cons d ds ih =>
    intro x hx
    have h1 := h.2.1
    rcases hx with hx | hx
    · unfold CP.mem at hx; omega
    · have := ih h.2.2 x hx
      have := winv_head h.2.2
      omega

theorem headLoGe_lb {b : Nat} {l : List CP} (hw : WInv l) (h : headLoGe b l) :
    ∀ x, memL x l → b ≤ x := by
  cases l with
  | nil => intro x hx; exact hx.elim
  | cons c cs =>
    intro x hx
    have hb : b ≤ c.lo := h
    rcases hx with hx | hx
    · unfold CP.mem at hx; omega
    · have := winv_lb hw x hx
      have := winv_head hw
      omega

theorem headLoGe_mono {a b : Nat} {l : List CP} (hab : a ≤ b) (h : headLoGe b l) : headLoGe a l := by
  cases l with
  | nil => trivial
  | cons c cs => exact Nat.le_trans hab h

end EPV.USet

namespace EPV.USet

theorem memL_append (x : Nat) (a b : List CP) : memL x (a ++ b) ↔ memL x a ∨ memL x b := by
  induction a with
  | nil => simp [memL]
  | cons c cs ih => simp only [List.cons_append, memL, ih]; grind

theorem winv_append_right : ∀ (a b : List CP), WInv (a ++ b) → WInv b
  | [], _, h => h
  | _ :: cs, b, h => winv_append_right cs b (winv_tail h)

theorem winv_append_left : ∀ (a b : List CP), WInv (a ++ b) → WInv a
  | [], _, _ => trivial
  | [c], b, h => by
    have := winv_head (c := c) (cs := b) h
    simpa [WInv] using this
  | c :: d :: cs, b, h => by
    have h' : WInv (c :: d :: (cs ++ b)) := h
    exact ⟨h'.1, h'.2.1, winv_append_left (d :: cs) b h'.2.2⟩

/-- in a list satisfying `WInv`, an earlier segment and a later segment denote disjoint sets -/
theorem winv_append_disjoint (a b : List CP) (h : WInv (a ++ b)) (x : Nat) :
    ¬ (memL x a ∧ memL x b) := by
  induction a with
  | nil => simp [memL]
  | cons c cs ih =>
    intro ⟨ha, hb⟩
    have hlb := winv_lb (c := c) (cs := cs ++ b) h x
    rcases ha with ha | ha
    · have := hlb ((memL_append x cs b).mpr (Or.inr hb))
      unfold CP.mem at ha; omega
    · exact ih (winv_tail h) ⟨ha, hb⟩

/-- lists of entry lists whose concatenation satisfies `WInv` denote pairwise disjoint sets -/
theorem winv_flatten_pairwise (ls : List (List CP)) (h : WInv ls.flatten) :
    ls.Pairwise (fun p q => ∀ x, ¬ (memL x p ∧ memL x q)) := by
  induction ls with
  | nil => exact List.Pairwise.nil
  | cons p ps ih =>
    rw [List.flatten_cons] at h
    refine List.Pairwise.cons ?_ (ih (winv_append_right _ _ h))
    intro q hq x ⟨hp, hqx⟩
    have : memL x ps.flatten := by
      clear ih h hp
      induction ps with
      | nil => cases hq
      | cons r rs ihr =>
        rw [List.flatten_cons, memL_append]
        rcases List.mem_cons.mp hq with rfl | hq'
        · exact Or.inl hqx
        · exact Or.inr (ihr hq')
    exact winv_append_disjoint p ps.flatten h x ⟨hp, this⟩

end EPV.USet

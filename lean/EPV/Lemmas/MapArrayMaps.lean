/-
C15 — lemmas about the dict-style functions of the model (EPV/Model/MapArray.lean §2).
`WF es`: no two entries of `es` fall in the same dict slot — the invariant of every `XPathMap._map`.
-/
import EPV.Lemmas.MapArrayKeys
namespace EPV.MapArray

def WF (es : Entries α) : Prop := es.Pairwise fun a b => dictEq a.1 b.1 = false

instance (es : Entries α) : Decidable (WF es) := by unfold WF; infer_instance

theorem dictHas_eq_false_iff (es : Entries α) (k : Key) :
    dictHas es k = false ↔ ∀ e ∈ es, dictEq e.1 k = false := by
  simp [dictHas]

theorem WF_append_singleton {es : Entries α} {k : Key} {v : α} :
    WF (es ++ [(k, v)]) ↔ WF es ∧ dictHas es k = false := by
  simp only [WF, List.pairwise_append, dictHas_eq_false_iff]
  constructor
  · rintro ⟨h1, _, h3⟩
    exact ⟨h1, fun e he => h3 e he (k, v) (by simp)⟩
  · rintro ⟨h1, h3⟩
    refine ⟨h1, by simp, ?_⟩
    intro a ha b hb
    simp at hb; subst hb; exact h3 a ha

/-- the constructor loop succeeds exactly on duplicate-free input and then returns it unchanged -/
theorem ctorAux_ok (acc l : Entries α) (h : WF (acc ++ l)) : ctorAux acc l = .ok (acc ++ l) := by
  induction l generalizing acc with
  | nil => simp [ctorAux]
  | cons e rest ih =>
    obtain ⟨k, v⟩ := e
    have h' : WF ((acc ++ [(k, v)]) ++ rest) := by simpa [List.append_assoc] using h
    have hacc : WF (acc ++ [(k, v)]) := by
      unfold WF at h' ⊢; exact (List.pairwise_append.1 h').1
    have hk : dictHas acc k = false := (WF_append_singleton.1 hacc).2
    simp only [ctorAux, hk]
    simpa [List.append_assoc] using ih (acc ++ [(k, v)]) h'

theorem ctorAux_err (acc l : Entries α) (hacc : WF acc) (h : ¬ WF (acc ++ l)) :
    ctorAux acc l = .error .XQDY0137 := by
  induction l generalizing acc with
  | nil => simp at h; exact absurd hacc h
  | cons e rest ih =>
    obtain ⟨k, v⟩ := e
    simp only [ctorAux]
    by_cases hk : dictHas acc k = true
    · simp [hk]
    · have hk' : dictHas acc k = false := by simpa using hk
      simp only [hk', Bool.false_eq_true, ↓reduceIte]
      apply ih
      · exact WF_append_singleton.2 ⟨hacc, hk'⟩
      · simpa [List.append_assoc] using h

theorem mapCtor_of_WF {l : Entries α} (h : WF l) : mapCtor l = .ok l := by
  simpa [mapCtor] using ctorAux_ok [] l (by simpa using h)

theorem mapCtor_of_not_WF {l : Entries α} (h : ¬ WF l) : mapCtor l = .error .XQDY0137 := by
  simpa [mapCtor] using ctorAux_err [] l (by simp [WF]) (by simpa using h)

theorem mapCtor_eq (l : Entries α) : mapCtor l = if WF l then .ok l else .error .XQDY0137 := by
  split
  · exact mapCtor_of_WF ‹_›
  · exact mapCtor_of_not_WF ‹_›

theorem mapCtor_ok {l es : Entries α} (h : mapCtor l = .ok es) : es = l ∧ WF l := by
  rw [mapCtor_eq] at h
  split at h
  · exact ⟨by injection h with h; exact h.symm, ‹_›⟩
  · cases h

/-! `d[k] = v` -/

theorem dictSet_of_not_has {es : Entries α} {k : Key} (v : α) (h : dictHas es k = false) :
    dictSet es k v = es ++ [(k, v)] := by
  induction es with
  | nil => rfl
  | cons e rest ih =>
    obtain ⟨k', v'⟩ := e
    simp only [dictHas, List.any_cons, Bool.or_eq_false_iff] at h
    simp only [dictSet, h.1, Bool.false_eq_true, ↓reduceIte, List.cons_append, List.cons.injEq, true_and]
    exact ih (by simpa [dictHas] using h.2)

theorem dictOfList_aux (acc l : Entries α) (h : WF (acc ++ l)) :
    l.foldl (fun d e => dictSet d e.1 e.2) acc = acc ++ l := by
  induction l generalizing acc with
  | nil => simp
  | cons e rest ih =>
    have h' : WF ((acc ++ [e]) ++ rest) := by simpa [List.append_assoc] using h
    have hacc : WF (acc ++ [(e.1, e.2)]) := by
      unfold WF at h' ⊢; exact (List.pairwise_append.1 h').1
    have hk : dictHas acc e.1 = false := (WF_append_singleton.1 hacc).2
    simp only [List.foldl_cons, dictSet_of_not_has e.2 hk]
    simpa [List.append_assoc] using ih (acc ++ [e]) h'

/-- a dict comprehension over duplicate-free pairs is the list itself -/
theorem dictOfList_of_WF {l : Entries α} (h : WF l) : dictOfList l = l := by
  simpa [dictOfList] using dictOfList_aux [] l (by simpa using h)

theorem WF_filter {es : Entries α} (p : Key × α → Bool) (h : WF es) : WF (es.filter p) :=
  List.Pairwise.sublist List.filter_sublist h

/-- `map:put` on a well-formed map never fails and is "drop the `==` keys, append the new entry" -/
theorem mapPut_of_WF {es : Entries α} (h : WF es) (k : Key) (v : α) :
    mapPut es k v = .ok (es.filter (fun e => !scanEq e.1 k) ++ [(k, v)]) := by
  have hf : WF (es.filter fun e => !scanEq e.1 k) := WF_filter _ h
  have hk : dictHas (es.filter fun e => !scanEq e.1 k) k = false := by
    rw [dictHas_eq_false_iff]
    intro e he
    simp only [List.mem_filter, Bool.not_eq_eq_eq_not, Bool.not_true] at he
    cases hd : dictEq e.1 k with
    | false => rfl
    | true => rw [scanEq_of_dictEq hd] at he; exact absurd he.2 (by simp)
  unfold mapPut
  exact mapCtor_of_WF (WF_append_singleton.2 ⟨hf, hk⟩)

theorem mapPut_WF {es es' : Entries α} (h : WF es) {k : Key} {v : α} (h' : mapPut es k v = .ok es') : WF es' := by
  unfold mapPut at h'
  exact (mapCtor_ok h').1 ▸ (mapCtor_ok h').2

theorem mapRemove_of_WF {es : Entries α} (h : WF es) (ks : List Key) :
    mapRemove es ks = .ok (es.filter fun e => ks.all fun x => !scanEq e.1 x) :=
  mapCtor_of_WF (WF_filter _ h)

end EPV.MapArray

/- C09 helper lemmas, part 5: normalize-space = collapse ∘ trim = join of the words; idempotence. -/
import EPV.Model.Strings
namespace EPV.Strings
open EPV.FOStrings (Str Num Err isWs)

/-- split at every whitespace character, empty pieces kept -/
def splitWs : Str → List Str
  | [] => [[]]
  | c :: cs =>
    match splitWs cs with
    | [] => [[]]
    | w :: ws => if isWs c then [] :: w :: ws else (c :: w) :: ws

/-- the maximal runs of non-whitespace characters -/
def words (s : Str) : List Str := (splitWs s).filter fun x => !x.isEmpty

theorem splitWs_ne_nil (s : Str) : splitWs s ≠ [] := by
  cases s with
  | nil => simp [splitWs]
  | cons c cs =>
    simp only [splitWs]
    cases splitWs cs with
    | nil => simp
    | cons w ws => by_cases h : isWs c = true <;> simp [h]

theorem isWs_iff (c : Nat) : isWs c = true ↔ (c = 0x20 ∨ c = 0x9 ∨ c = 0xD ∨ c = 0xA) := by
  simp [isWs, or_assoc]

theorem pySplitSp_map (s : Str) :
    pySplitSp (s.map fun c => if c = 0x9 ∨ c = 0xA ∨ c = 0xD then 0x20 else c) = splitWs s := by
  induction s with
  | nil => rfl
  | cons c cs ih =>
    simp only [List.map_cons, pySplitSp, splitWs, ih]
    cases splitWs cs with
    | nil => rfl
    | cons w ws =>
      simp only
      by_cases h : isWs c = true
      · have h' := (isWs_iff c).mp h
        have : (if c = 0x9 ∨ c = 0xA ∨ c = 0xD then 0x20 else c) = 0x20 := by
          split <;> omega
        simp [this, h]
      · have h' : ¬ (c = 0x20 ∨ c = 0x9 ∨ c = 0xD ∨ c = 0xA) := fun hh => h ((isWs_iff c).mpr hh)
        have : (if c = 0x9 ∨ c = 0xA ∨ c = 0xD then 0x20 else c) = c := by
          split <;> omega
        have h2 : ¬ c = 0x20 := by omega
        simp [this, h, h2]

theorem normalizeSpace_eq_words (s : Str) : normalizeSpace s = pyJoinSp (words s) := by
  unfold normalizeSpace words
  simp only [pySplitSp_map]

/-! ### `words` under cons -/

theorem words_cons_ws (c : Nat) (r : Str) (h : isWs c = true) : words (c :: r) = words r := by
  unfold words
  simp only [splitWs]
  cases hs : splitWs r with
  | nil => exact absurd hs (splitWs_ne_nil r)
  | cons w ws => simp [h]

theorem words_nil : words [] = [] := by simp [words, splitWs]

theorem words_single (c : Nat) (h : isWs c = false) : words [c] = [[c]] := by
  simp [words, splitWs, h]

theorem words_cons_nonws_ws (c d : Nat) (r : Str) (hc : isWs c = false) (hd : isWs d = true) :
    words (c :: d :: r) = [c] :: words (d :: r) := by
  unfold words
  simp only [splitWs]
  cases hs : splitWs r with
  | nil => exact absurd hs (splitWs_ne_nil r)
  | cons w ws => simp [hc, hd]

theorem words_cons_nonws_nonws (c d : Nat) (r : Str) (hc : isWs c = false) (hd : isWs d = false) :
    ∃ w ws, words (d :: r) = (d :: w) :: ws ∧ words (c :: d :: r) = (c :: d :: w) :: ws := by
  unfold words
  simp only [splitWs]
  cases hs : splitWs r with
  | nil => exact absurd hs (splitWs_ne_nil r)
  | cons w ws => exact ⟨w, ws.filter fun x => !x.isEmpty, by simp [hd], by simp [hc, hd]⟩

theorem pyJoinSp_cons_cons (c : Nat) (w : Str) (ws : List Str) :
    pyJoinSp ((c :: w) :: ws) = c :: pyJoinSp (w :: ws) := by
  cases ws <;> simp [pyJoinSp]

/-! ### the spec: `collapse (trim s)` -/

/-- `t` does not end in a whitespace character -/
def NoTrailWs (t : Str) : Prop := ∀ c, t.getLast? = some c → isWs c = false

theorem noTrailWs_tail (c d : Nat) (r : Str) (h : NoTrailWs (c :: d :: r)) : NoTrailWs (d :: r) := by
  intro x hx
  apply h x
  simpa [List.getLast?_cons_cons] using hx

theorem words_ne_nil_of_noTrail (t : Str) (hne : t ≠ []) (h : NoTrailWs t) : words t ≠ [] := by
  induction t with
  | nil => exact absurd rfl hne
  | cons c r ih =>
    cases r with
    | nil =>
      have : isWs c = false := h c (by simp)
      simp [words_single c this]
    | cons d r' =>
      have ih' := ih (by simp) (noTrailWs_tail c d r' h)
      by_cases hc : isWs c = true
      · rw [words_cons_ws c _ hc]; exact ih'
      · have hc' : isWs c = false := by simpa using hc
        by_cases hd : isWs d = true
        · rw [words_cons_nonws_ws c d r' hc' hd]; simp
        · have hd' : isWs d = false := by simpa using hd
          obtain ⟨w, ws, _, h2⟩ := words_cons_nonws_nonws c d r' hc' hd'
          rw [h2]; simp

/-- the single space `collapse` leaves for leading whitespace -/
def leadSp : Str → Str
  | c :: _ => if isWs c then [0x20] else []
  | [] => []

theorem collapse_eq (t : Str) (h : NoTrailWs t) :
    FOStrings.collapse t = leadSp t ++ pyJoinSp (words t) := by
  induction t with
  | nil => simp [FOStrings.collapse, words_nil, pyJoinSp, leadSp]
  | cons c r ih =>
    cases r with
    | nil =>
      have hc : isWs c = false := h c (by simp)
      simp [FOStrings.collapse, hc, words_single c hc, pyJoinSp, leadSp]
    | cons d r' =>
      have hr := noTrailWs_tail c d r' h
      have ih' := ih hr
      simp only [FOStrings.collapse, leadSp] at ih' ⊢
      by_cases hc : isWs c = true
      · simp only [hc, if_true]
        rw [words_cons_ws c _ hc]
        by_cases hd : isWs d = true
        · simp only [hd, if_true] at ih' ⊢
          exact ih'
        · have hd' : isWs d = false := by simpa using hd
          simp only [hd', Bool.false_eq_true, if_false, List.nil_append] at ih' ⊢
          rw [ih']
          rfl
      · have hc' : isWs c = false := by simpa using hc
        simp only [hc', Bool.false_eq_true, if_false, List.nil_append]
        rw [ih']
        by_cases hd : isWs d = true
        · simp only [hd, if_true]
          rw [words_cons_nonws_ws c d r' hc' hd]
          have hne := words_ne_nil_of_noTrail (d :: r') (by simp) hr
          cases hw : words (d :: r') with
          | nil => exact absurd hw hne
          | cons w ws => simp [pyJoinSp]
        · have hd' : isWs d = false := by simpa using hd
          simp only [hd', Bool.false_eq_true, if_false, List.nil_append]
          obtain ⟨w, ws, h1, h2⟩ := words_cons_nonws_nonws c d r' hc' hd'
          rw [h1, h2]; simp only [pyJoinSp_cons_cons]

/-! ### trimming does not change the words -/

theorem words_dropWhile (s : Str) : words (s.dropWhile isWs) = words s := by
  induction s with
  | nil => rfl
  | cons c cs ih =>
    by_cases hc : isWs c = true
    · simp only [List.dropWhile_cons, hc, if_true, ih, words_cons_ws c cs hc]
    · simp [hc]

theorem splitWs_append_ws (t : Str) (c : Nat) (hc : isWs c = true) :
    splitWs (t ++ [c]) = splitWs t ++ [[]] := by
  induction t with
  | nil => simp [splitWs, hc]
  | cons x t' ih =>
    simp only [List.cons_append, splitWs, ih]
    cases hs : splitWs t' with
    | nil => exact absurd hs (splitWs_ne_nil t')
    | cons w ws => simp only [List.cons_append]; split <;> simp

theorem words_append_ws (t : Str) (c : Nat) (hc : isWs c = true) : words (t ++ [c]) = words t := by
  unfold words
  rw [splitWs_append_ws t c hc]
  simp

theorem words_dropTrailing (r : Str) : words (r.dropWhile isWs).reverse = words r.reverse := by
  induction r with
  | nil => rfl
  | cons c r' ih =>
    by_cases hc : isWs c = true
    · simp only [List.dropWhile_cons, hc, if_true, ih, List.reverse_cons, words_append_ws _ c hc]
    · simp [hc]

theorem words_trim (s : Str) : words (FOStrings.trim s) = words s := by
  unfold FOStrings.trim
  rw [words_dropTrailing, List.reverse_reverse, words_dropWhile]

theorem head_dropWhile_not (p : Nat → Bool) (l : Str) (c : Nat) (h : (l.dropWhile p).head? = some c) :
    p c = false := by
  induction l with
  | nil => simp at h
  | cons x xs ih =>
    by_cases hx : p x = true
    · simp only [List.dropWhile_cons, hx, if_true] at h; exact ih h
    · simp only [List.dropWhile_cons, hx, Bool.false_eq_true, if_false, List.head?_cons,
        Option.some.injEq] at h
      subst h; simpa using hx

theorem trim_noTrail (s : Str) : NoTrailWs (FOStrings.trim s) := by
  intro c hc
  unfold FOStrings.trim at hc
  rw [List.getLast?_reverse] at hc
  exact head_dropWhile_not isWs _ c hc

theorem trim_head (s : Str) : leadSp (FOStrings.trim s) = [] := by
  cases ht : FOStrings.trim s with
  | nil => rfl
  | cons c r =>
    -- the head of trim s is the head of dropWhile isWs s (if the latter is not all whitespace)
    have : isWs c = false := by
      unfold FOStrings.trim at ht
      -- c is the head of reverse (dropWhile isWs (reverse s1)); it is an element of s1 = dropWhile isWs s
      -- whose head is non-ws; if c were ws, c would not be the head of s1, so s1 = c' :: ... with c' ≠ ws
      -- and reverse(dropWhile(reverse s1)) keeps the head of s1 whenever it is non-empty.
      generalize hs1 : s.dropWhile isWs = s1 at ht
      cases s1 with
      | nil => simp at ht
      | cons x xs =>
        have hx : isWs x = false := head_dropWhile_not isWs s x (by rw [hs1]; rfl)
        -- reverse (x :: xs) = reverse xs ++ [x]; dropWhile stops at latest at x
        have hsuf : ∃ pre, (List.dropWhile isWs (x :: xs).reverse) = pre ++ [x] := by
          rw [List.reverse_cons]
          generalize xs.reverse = ys
          induction ys with
          | nil => exact ⟨[], by simp [hx]⟩
          | cons y ys ih =>
            by_cases hy : isWs y = true
            · simp only [List.cons_append, List.dropWhile_cons, hy, if_true]; exact ih
            · exact ⟨y :: ys, by simp [hy]⟩
        obtain ⟨pre, hpre⟩ := hsuf
        rw [hpre] at ht
        simp at ht
        rw [← ht.1]; exact hx
    simp [leadSp, this]

theorem normalizeSpace_eq_spec (s : Str) : normalizeSpace s = FOStrings.normalizeSpace s := by
  unfold FOStrings.normalizeSpace
  rw [collapse_eq _ (trim_noTrail s), trim_head, List.nil_append, words_trim, normalizeSpace_eq_words]

/-! ### idempotence -/

theorem splitWs_clean (w : Str) (hw : ∀ c ∈ w, isWs c = false) : splitWs w = [w] := by
  induction w with
  | nil => rfl
  | cons c w' ih =>
    have := ih (fun x hx => hw x (by simp [hx]))
    simp [splitWs, this, hw c (by simp)]

theorem splitWs_clean_append (w : Str) (hw : ∀ c ∈ w, isWs c = false) (r : Str) :
    splitWs (w ++ 0x20 :: r) = w :: splitWs r := by
  induction w with
  | nil =>
    simp only [List.nil_append, splitWs]
    cases hs : splitWs r with
    | nil => exact absurd hs (splitWs_ne_nil r)
    | cons x xs => simp [isWs]
  | cons c w' ih =>
    have := ih (fun x hx => hw x (by simp [hx]))
    simp [splitWs, this, hw c (by simp)]

theorem splitWs_pieces_clean (s : Str) : ∀ w ∈ splitWs s, ∀ c ∈ w, isWs c = false := by
  induction s with
  | nil => simp [splitWs]
  | cons x xs ih =>
    simp only [splitWs]
    cases hs : splitWs xs with
    | nil => simp
    | cons w ws =>
      rw [hs] at ih
      by_cases hx : isWs x = true
      · simp only [hx, if_true]
        intro w' hw'
        simp only [List.mem_cons] at hw'
        rcases hw' with rfl | hw'
        · simp
        · exact ih w' (by simpa using hw')
      · simp only [hx, Bool.false_eq_true, if_false]
        intro w' hw'
        simp only [List.mem_cons] at hw'
        rcases hw' with rfl | hw'
        · intro c hc
          simp only [List.mem_cons] at hc
          rcases hc with rfl | hc
          · simpa using hx
          · exact ih w (by simp) c hc
        · exact ih w' (by simp [hw'])

theorem words_join_clean (L : List Str) (h1 : ∀ w ∈ L, w ≠ []) (h2 : ∀ w ∈ L, ∀ c ∈ w, isWs c = false) :
    words (pyJoinSp L) = L := by
  have hf : ∀ M : List Str, (∀ w ∈ M, w ≠ []) → M.filter (fun x => !x.isEmpty) = M := by
    intro M hM
    rw [List.filter_eq_self]
    intro w hw
    have := hM w hw
    cases w with
    | nil => exact absurd rfl this
    | cons _ _ => rfl
  cases L with
  | nil => simp [pyJoinSp, words, splitWs]
  | cons w ws =>
    have key : splitWs (pyJoinSp (w :: ws)) = w :: ws := by
      induction ws generalizing w with
      | nil => simp only [pyJoinSp]; exact splitWs_clean w (h2 w (by simp))
      | cons w' ws' ih =>
        simp only [pyJoinSp]
        rw [splitWs_clean_append w (h2 w (by simp))]
        congr 1
        exact ih w' (fun x hx => h1 x (List.mem_cons_of_mem _ hx))
          (fun x hx => h2 x (List.mem_cons_of_mem _ hx))
    unfold words
    rw [key]
    exact hf _ h1

theorem normalizeSpace_idempotent (s : Str) : normalizeSpace (normalizeSpace s) = normalizeSpace s := by
  rw [normalizeSpace_eq_words (normalizeSpace s), normalizeSpace_eq_words s]
  congr 1
  apply words_join_clean
  · intro w hw
    unfold words at hw
    simp only [List.mem_filter] at hw
    intro h
    simp [h] at hw
  · intro w hw
    unfold words at hw
    simp only [List.mem_filter] at hw
    exact splitWs_pieces_clean s w hw.1
end EPV.Strings

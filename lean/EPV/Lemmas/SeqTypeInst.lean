/-
C18 — `instance of` / `treat as`: the loops, and agreement with `match_sequence_type`.
-/
import EPV.Lemmas.SeqTypeSound
set_option linter.unusedSimpArgs false
namespace EPV.SeqType

/-! ### the loops -/

theorem instLoop_true_aux (occ : Occ) (f : Item → Res) : ∀ (v : List Item) (pos : Nat),
    ((occ = .one ∨ occ = .opt) → pos ≤ 1) →
    (instLoop occ f pos v = .ok true ↔ (cardOK occ (pos + v.length) = true ∧ ∀ x ∈ v, f x = .ok true))
  | [], pos, hp => by
    cases occ with
    | one => have := hp (Or.inl rfl); simp [instLoop, cardOK]; omega
    | opt => have := hp (Or.inr rfl); simp [instLoop, cardOK]; omega
    | star => simp [instLoop, cardOK]
    | plus => simp [instLoop, cardOK]; omega
  | x :: xs, pos, hp => by
    simp only [instLoop, List.mem_cons, forall_eq_or_imp, List.length_cons]
    cases h : f x with
    | error e => simp
    | ok b =>
      cases b
      · simp
      · simp only [true_and]
        split
        · rename_i hc
          simp only [Bool.and_eq_true, bne_iff_ne, ne_eq, Bool.or_eq_true, beq_iff_eq] at hc
          have : cardOK occ (pos + (xs.length + 1)) = false := by
            rcases hc.2 with rfl | rfl <;> simp [cardOK] <;> omega
          simp [this]
        · rename_i hc
          rw [instLoop_true_aux occ f xs (pos + 1) (by
            intro ho
            simp only [Bool.and_eq_true, bne_iff_ne, ne_eq, Bool.or_eq_true, beq_iff_eq, not_and, not_or] at hc
            by_cases hz : pos = 0
            · omega
            · exact absurd ho (by have := hc hz; intro h'; rcases h' with h' | h' <;> simp [h'] at this))]
          rw [show pos + 1 + xs.length = pos + (xs.length + 1) by omega]

/-- the `for .. else` loop of `instance of` answers true exactly when every item passes the item test and
the number of items fits the occurrence indicator -/
theorem instLoop_true (occ : Occ) (f : Item → Res) (v : List Item) :
    instLoop occ f 0 v = .ok true ↔ (cardOK occ v.length = true ∧ ∀ x ∈ v, f x = .ok true) := by
  simpa using instLoop_true_aux occ f v 0 (by intro _; omega)

/-- `treat as` and `instance of` are the same loop: the operand comes back unchanged exactly when
`instance of` is true, XPDY0050 exactly when it is false, and other errors are the same -/
theorem treatLoop_eq (occ : Occ) (f : Item → Res) : ∀ (v : List Item) (pos : Nat) (acc : List Item),
    treatLoop occ f pos v acc =
      (match instLoop occ f pos v with
       | .ok true => .ok (acc ++ v)
       | .ok false => .error .XPDY0050
       | .error e => .error e)
  | [], pos, acc => by
    simp only [treatLoop, instLoop, List.append_nil]
    cases occ <;> cases pos <;> rfl
  | x :: xs, pos, acc => by
    simp only [treatLoop, instLoop]
    cases h : f x with
    | error e => rfl
    | ok b =>
      cases b
      · rfl
      · simp only []
        split
        · rfl
        · rw [treatLoop_eq occ f xs (pos + 1) (acc ++ [x])]
          simp

/-! ### item tests of `instance of` against those of `match_sequence_type` -/

theorem instLeafNode_eq (k : Kind) (name : Nat) (kids : List Nat) (root : Bool) (l : Leaf)
    (hw : k = .document → kids.length ≤ 1) :
    instLeafNode k name kids root l = matchLeafNode k name kids l := by
  cases l with
  | kind k' nt =>
    cases k' <;> cases nt <;> cases k <;> simp_all [instLeafNode, matchLeafNode, nameOK]
    all_goals (try (constructor <;> intro h <;> simp_all))
  | docElem nt =>
    cases k <;> simp [instLeafNode, matchLeafNode]
    have := hw rfl
    match kids, this with
    | [], _ => simp
    | [e], _ => cases h : nameOK nt e <;> simp [h]
  | anyNode => cases k <;> simp_all [instLeafNode, matchLeafNode]
  | _ => simp [instLeafNode, matchLeafNode]

def itemDocOK : Item → Bool
  | .node .document _ kids _ => kids.length ≤ 1
  | _ => true

/-- per item: the test applied by `instance of` / `treat as` is true exactly when the one of
`match_sequence_type` is -/
theorem instItem_iff (tb : Tables) (xsd11 : Bool) (t : Ty) (x : Item)
    (hd : itemDocOK x = true) (hk : t.hasTypeArg = false) :
    instItem tb xsd11 t x = .ok true ↔ itemFn tb xsd11 true t x = .ok true := by
  cases t with
  | empty => simp [instItem, instItemTok, itemFn]
  | func a r =>
    simp only [instItem, instItemTok]
    split
    · rw [matchSt_eq_seqMatch _ _ _ _ _ (by simp)]; simp [seqMatch]
    · rename_i h; cases x <;> simp [Item.isFunctionLike] at h <;> simp [itemFn]
  | map k v o =>
    simp only [instItem, instItemTok]
    rw [matchSt_eq_seqMatch _ _ _ _ _ (by simp)]; simp [seqMatch, itemFn]
  | array m o =>
    simp only [instItem, instItemTok]
    rw [matchSt_eq_seqMatch _ _ _ _ _ (by simp)]; simp [seqMatch, itemFn]
  | leaf l o =>
    cases l with
    | kindT k' nt ta o' => simp [Ty.hasTypeArg, Leaf.hasTypeArg] at hk
    | item => cases x <;> simp [instItem, Leaf.isName, instItemTok, itemFn, matchLeaf]
    | funcAny => cases x <;> simp [instItem, Leaf.isName, instItemTok, itemFn, matchLeaf, Item.isFunctionLike, matchLeafNode]
    | mapAny =>
      simp only [instItem, Leaf.isName, instItemTok, Bool.false_eq_true, if_false]
      rw [matchSt_eq_seqMatch _ _ _ _ _ (by simp)]; simp [seqMatch, itemFn]
    | arrayAny =>
      simp only [instItem, Leaf.isName, instItemTok, Bool.false_eq_true, if_false]
      rw [matchSt_eq_seqMatch _ _ _ _ _ (by simp)]; simp [seqMatch, itemFn]
    | atomic a => cases x <;> simp [instItem, Leaf.isName, instItemName, itemFn, matchLeaf, matchLeafNode]
    | numeric => cases x <;> simp [instItem, Leaf.isName, instItemName, itemFn, matchLeaf, matchLeafNode]
    | listT l' => cases x <;> simp [instItem, Leaf.isName, instItemName, itemFn, matchLeaf, matchLeafNode]
    | anyType => cases x <;> simp [instItem, Leaf.isName, instItemName, itemFn, matchLeaf, matchLeafNode]
    | anySimpleType => cases x <;> simp [instItem, Leaf.isName, instItemName, itemFn, matchLeaf, matchLeafNode]
    | anyNode =>
      cases x with
      | node k n kids root =>
        have := instLeafNode_eq k n kids root .anyNode (by intro e; subst e; simpa [itemDocOK] using hd)
        simp [instItem, Leaf.isName, instItemTok, itemFn, matchLeaf, this]
      | _ => simp [instItem, Leaf.isName, instItemTok, itemFn, matchLeaf]
    | kind k' nt =>
      cases x with
      | node k n kids root =>
        have := instLeafNode_eq k n kids root (.kind k' nt) (by intro e; subst e; simpa [itemDocOK] using hd)
        simp [instItem, Leaf.isName, instItemTok, itemFn, matchLeaf, this]
      | _ => simp [instItem, Leaf.isName, instItemTok, itemFn, matchLeaf]
    | docElem nt =>
      cases x with
      | node k n kids root =>
        have := instLeafNode_eq k n kids root (.docElem nt) (by intro e; subst e; simpa [itemDocOK] using hd)
        simp [instItem, Leaf.isName, instItemTok, itemFn, matchLeaf, this]
      | _ => simp [instItem, Leaf.isName, instItemTok, itemFn, matchLeaf]

end EPV.SeqType

/-
C14, string level: the recogniser of `Spec/NodePathSpec.lean` reads the text produced by the
renderer of `Model/NodePath.lean` back to the steps (`parse ∘ render = id`), for all step lists
whose names are NCName-like (`Step.ok`).
-/
import EPV.Lemmas.NodePath
namespace EPV.NodePath

/-! ### list helpers -/

theorem stripPrefix_append : ∀ (p r : List Char), stripPrefix p (p ++ r) = some r := by
  intro p
  induction p with
  | nil => intro r; cases r <;> rfl
  | cons a as ih => intro r; simp [stripPrefix, ih]

theorem stripPrefix_append_left : ∀ (a b c : List Char), stripPrefix (a ++ b) (a ++ c) = stripPrefix b c := by
  intro a
  induction a with
  | nil => intros; rfl
  | cons x xs ih => intro b c; simp [stripPrefix, ih]

/-- `rest` is empty or starts with `c` -/
def EndsAt (c : Char) (rest : List Char) : Prop := rest = [] ∨ ∃ r, rest = c :: r

theorem upTo_append (c : Char) : ∀ (a rest : List Char), c ∉ a → EndsAt c rest → upTo c (a ++ rest) = (a, rest) := by
  intro a
  induction a with
  | nil =>
    intro rest _ hr
    rcases hr with rfl | ⟨r, rfl⟩
    · rfl
    · simp [upTo]
  | cons x xs ih =>
    intro rest hc hr
    have hx : ¬ x = c := fun e => hc (by simp [e])
    have hxs : c ∉ xs := fun h => hc (List.mem_cons_of_mem _ h)
    simp only [List.cons_append, upTo, hx, if_false, ih rest hxs hr]

theorem upTo_append_cons (c : Char) (a r : List Char) (h : c ∉ a) : upTo c (a ++ c :: r) = (a, c :: r) :=
  upTo_append c a (c :: r) h (Or.inr ⟨r, rfl⟩)

/-! ### decimal numerals -/

theorem digitVal_digitChar : ∀ d, d < 10 → digitVal (digitChar d) = d := by decide

theorem digitChar_ne_close : ∀ d, d < 10 → digitChar d ≠ ']' := by decide

theorem foldl_natDecAux : ∀ (f n : Nat) (acc : List Char), n < f →
    (natDecAux f n acc).foldl (fun a c => a * 10 + digitVal c) 0
      = acc.foldl (fun a c => a * 10 + digitVal c) n := by
  intro f
  induction f with
  | zero => intro n acc h; omega
  | succ f ih =>
    intro n acc h
    simp only [natDecAux]
    split
    · rename_i hn
      simp [List.foldl_cons, digitVal_digitChar n hn]
    · rename_i hn
      rw [ih (n / 10) _ (by omega)]
      simp only [List.foldl_cons, digitVal_digitChar (n % 10) (Nat.mod_lt _ (by omega))]
      congr 1
      omega

theorem natDecAux_no_close : ∀ (f n : Nat) (acc : List Char), ']' ∉ acc → ']' ∉ natDecAux f n acc := by
  intro f
  induction f with
  | zero => intro n acc h; exact h
  | succ f ih =>
    intro n acc h
    simp only [natDecAux]
    split
    · rename_i hn
      intro hm
      rcases List.mem_cons.1 hm with e | e
      · exact digitChar_ne_close n hn e.symm
      · exact h e
    · apply ih
      intro hm
      rcases List.mem_cons.1 hm with e | e
      · exact digitChar_ne_close (n % 10) (Nat.mod_lt _ (by omega)) e.symm
      · exact h e

theorem parseNat_natDec (n : Nat) : parseNat (natDec n) = some n := by
  have h : (natDec n).foldl (fun a c => a * 10 + digitVal c) 0 = n := by
    unfold natDec
    rw [foldl_natDecAux (n + 1) n [] (by omega)]
    rfl
  simp only [parseNat, h, if_true]

theorem parsePos_natDec (n : Nat) (r : List Char) : parsePos (natDec n ++ ']' :: r) = some (n, r) := by
  have hno : ']' ∉ natDec n := natDecAux_no_close _ _ [] (by simp)
  simp only [parsePos, upTo_append_cons ']' (natDec n) r hno, parseNat_natDec, Option.map_some]

/-! ### names -/

theorem okName_not_mem (s : String) (h : okName s = true) (c : Char)
    (hc : c = '/' ∨ c = '[' ∨ c = ')' ∨ c = '{' ∨ c = '}' ∨ c = '*') : c ∉ s.toList := by
  intro hm
  simp only [okName, List.all_eq_true] at h
  have := h c hm
  rcases hc with rfl | rfl | rfl | rfl | rfl | rfl <;> simp at this

theorem okUri_not_mem (s : String) (h : okUri s = true) : '}' ∉ s.toList := by
  intro hm
  simp only [okUri, List.all_eq_true] at h
  have := h '}' hm
  simp at this

theorem toList_ne_nil (s : String) (h : s ≠ "") : s.toList ≠ [] := by
  intro e
  apply h
  have := String.ofList_toList (s := s)
  rw [e] at this
  exact this.symm

/-- a name without `{` followed by the end or a `/` does not start with `Q{` -/
theorem stripPrefix_Qbrace_name (l rest : List Char) (h : '{' ∉ l) (hr : EndsAt '/' rest) :
    stripPrefix ['Q', '{'] (l ++ rest) = none := by
  have hrest : ∀ p, stripPrefix ('{' :: p) rest = none := by
    intro p
    rcases hr with rfl | ⟨r, rfl⟩ <;> simp [stripPrefix]
  have hrest2 : stripPrefix ['Q', '{'] rest = none := by
    rcases hr with rfl | ⟨r, rfl⟩ <;> simp [stripPrefix]
  cases l with
  | nil => simpa using hrest2
  | cons x l =>
    simp only [List.cons_append, stripPrefix]
    split
    · cases l with
      | nil => simpa using hrest []
      | cons y l =>
        have hy : ¬ '{' = y := fun e => h (by simp [← e])
        simp [stripPrefix, hy]
    · rfl

/-! ### one step -/

theorem renderStepC_ne_nil (s : Step) : renderStepC s ≠ [] := by
  cases s <;> simp [renderStepC, litText, litComment, litPI, litNs]
  split <;> simp

theorem name_eta (nm : Name) (h : nm.ns = "") : (⟨"", nm.loc⟩ : Name) = nm := by
  cases nm; simp_all

theorem parseStep_render (s : Step) (rest : List Char) (hok : s.ok = true) (hr : EndsAt '/' rest) :
    parseStep (renderStepC s ++ rest) = some (s, rest) := by
  cases s with
  | child nm p =>
    simp only [Step.ok, Bool.and_eq_true] at hok
    have h1 := okUri_not_mem nm.ns hok.1
    have h2 := okName_not_mem nm.loc hok.2 '[' (by simp)
    simp only [renderStepC, parseStep, List.cons_append, List.append_assoc, stripPrefix, if_true]
    simp only [parseChild, upTo_append_cons '}' _ _ h1, upTo_append_cons '[' _ _ h2, parsePos_natDec,
      Option.map_some, String.ofList_toList]
    simp
  | text p =>
    simp only [renderStepC, parseStep, litText, List.cons_append, List.append_assoc, List.nil_append]
    simp [stripPrefix, parsePos_natDec]
  | comment p =>
    simp only [renderStepC, parseStep, litText, litComment, List.cons_append, List.append_assoc, List.nil_append]
    simp [stripPrefix, parsePos_natDec]
  | pi t p =>
    simp only [Step.ok] at hok
    have h1 := okName_not_mem t hok ')' (by simp)
    simp only [renderStepC, parseStep, litText, litComment, litPI, List.cons_append, List.append_assoc,
      List.nil_append]
    simp [stripPrefix, parsePI, upTo_append_cons ')' _ _ h1, parsePos_natDec, String.ofList_toList]
  | attr nm =>
    simp only [Step.ok, Bool.and_eq_true] at hok
    have h1 := okUri_not_mem nm.ns hok.1
    have h2 := okName_not_mem nm.loc hok.2 '/' (by simp)
    have h3 := okName_not_mem nm.loc hok.2 '{' (by simp)
    by_cases hns : nm.ns = ""
    · simp only [renderStepC, hns, if_true, parseStep, litText, litComment, litPI, List.cons_append]
      have hq := stripPrefix_Qbrace_name nm.loc.toList rest h3 hr
      simp [stripPrefix, hq, upTo_append '/' _ _ h2 hr, String.ofList_toList, name_eta nm hns]
    · simp only [renderStepC, hns, if_false, parseStep, litText, litComment, litPI, List.cons_append,
        List.append_assoc]
      simp [stripPrefix, parseAttrQ, upTo_append_cons '}' _ _ h1, upTo_append '/' _ _ h2 hr,
        String.ofList_toList]
  | ns p =>
    simp only [Step.ok] at hok
    have h2 := okName_not_mem p hok '/' (by simp)
    have h3 := okName_not_mem p hok '*' (by simp)
    by_cases hp : p = ""
    · subst hp
      have e : renderStepC (.ns "") ++ rest = (litNs ++ emptyNamePathC) ++ rest := by
        simp [renderStepC, List.append_assoc]
      have e2 : litNs ++ emptyNamePathC ++ rest = 'n' :: (litNs.tail ++ emptyNamePathC ++ rest) := by
        simp [litNs]
      rw [e]
      simp only [parseStep]
      rw [stripPrefix_append]
      rw [e2]
      simp [stripPrefix, litText, litComment, litPI]
    · have hne := toList_ne_nil p hp
      have e : renderStepC (.ns p) ++ rest = litNs ++ (p.toList ++ rest) := by
        simp [renderStepC, hp, List.append_assoc]
      have e2 : litNs ++ (p.toList ++ rest) = 'n' :: (litNs.tail ++ (p.toList ++ rest)) := by
        simp [litNs]
      have hstar : stripPrefix (litNs ++ emptyNamePathC) (litNs ++ (p.toList ++ rest)) = none := by
        rw [stripPrefix_append_left]
        cases hl : p.toList with
        | nil => exact absurd hl hne
        | cons x l =>
          have hx : ¬ '*' = x := fun e => h3 (by rw [hl]; simp [← e])
          simp [emptyNamePathC, stripPrefix, hx]
      rw [e]
      simp only [parseStep]
      rw [hstar, stripPrefix_append]
      rw [e2]
      simp [stripPrefix, litText, litComment, litPI, upTo_append '/' _ _ h2 hr, String.ofList_toList]

/-! ### a whole path -/

theorem endsAt_renderSteps (ss : List Step) : EndsAt '/' (renderSteps ss) := by
  cases ss with
  | nil => exact Or.inl rfl
  | cons s ss => exact Or.inr ⟨_, rfl⟩

theorem parseSteps_render : ∀ (steps : List Step) (f : Nat), steps.all Step.ok = true → steps.length ≤ f →
    parseSteps f (renderSteps steps) = some steps := by
  intro steps
  induction steps with
  | nil => intro f _ _; cases f <;> rfl
  | cons s ss ih =>
    intro f hok hf
    simp only [List.all_cons, Bool.and_eq_true] at hok
    cases f with
    | zero => simp at hf
    | succ f =>
      simp only [renderSteps, parseSteps, if_true]
      rw [parseStep_render s _ hok.1 (endsAt_renderSteps ss)]
      simp only [ih f hok.2 (by simpa using hf), Option.map_some]

theorem length_renderSteps : ∀ (steps : List Step), steps.length ≤ (renderSteps steps).length := by
  intro steps
  induction steps with
  | nil => simp [renderSteps]
  | cons s ss ih => simp only [renderSteps, List.length_cons, List.length_append]; omega

theorem parsePath_renderAbs (steps : List Step) (hok : steps.all Step.ok = true) :
    parsePath (renderAbsC steps) = some (.abs, steps) := by
  cases steps with
  | nil => simp [renderAbsC, parsePath]
  | cons s ss =>
    have hne : renderStepC s ++ renderSteps ss ≠ [] := by
      intro e; exact renderStepC_ne_nil s (List.append_eq_nil_iff.1 e).1
    have h1 : renderAbsC (s :: ss) = '/' :: (renderStepC s ++ renderSteps ss) := rfl
    have h2 : ¬ ('/' :: (renderStepC s ++ renderSteps ss)) = ['/'] := by
      intro e; exact hne (List.cons.inj e).2
    have h3 : stripPrefix litRoot ('/' :: (renderStepC s ++ renderSteps ss)) = none := by
      simp [litRoot, stripPrefix]
    have h4 := parseSteps_render (s :: ss) (renderSteps (s :: ss)).length hok (length_renderSteps _)
    rw [h1]
    simp only [parsePath, h2, if_false, h3]
    simp only [renderSteps] at h4
    rw [h4]; rfl

theorem parsePath_renderFn (steps : List Step) (hok : steps.all Step.ok = true) :
    parsePath (renderFnPathC steps) = some (.fromRoot, steps) := by
  simp only [parsePath, renderFnPathC, stripPrefix_append]
  rw [parseSteps_render steps _ hok (length_renderSteps _)]; rfl

/-! ### the names of a tree's steps are the names of the tree -/

theorem namesOKList_get : ∀ (l : List Node) (i : Nat) (c : Node), namesOKList l = true → l[i]? = some c →
    c.namesOK = true := by
  intro l
  induction l with
  | nil => intro i c _ h; simp at h
  | cons a as ih =>
    intro i c hw h
    simp only [namesOKList, Bool.and_eq_true] at hw
    cases i with
    | zero => simp only [List.getElem?_cons_zero, Option.some.injEq] at h; subst h; exact hw.1
    | succ i => simp only [List.getElem?_cons_succ] at h; exact ih i c hw.2 h

theorem namesOK_kids (n c : Node) (i : Nat) (hw : n.namesOK = true) (h : n.kids[i]? = some c) :
    c.namesOK = true := by
  cases n with
  | elem nm nss attrs kids =>
    simp only [Node.namesOK, Bool.and_eq_true] at hw
    exact namesOKList_get kids i c hw.2 h
  | text => simp [Node.kids] at h
  | comment => simp [Node.kids] at h
  | pi t => simp [Node.kids] at h

theorem childStep_ok (c : Node) (p : Nat) (h : c.namesOK = true) : (childStep c p).ok = true := by
  cases c with
  | elem nm nss attrs kids =>
    simp only [Node.namesOK, Bool.and_eq_true] at h
    simp [childStep, Step.ok, h.1.1.1.1, h.1.1.1.2]
  | text => rfl
  | comment => rfl
  | pi t => simpa [childStep, Step.ok, Node.namesOK] using h

theorem pathToWith_ok (cnt : Node → Node → Bool) : ∀ (is : List Nat) (n : Node) (steps : List Step),
    n.namesOK = true → pathToWith cnt n is = some steps → steps.all Step.ok = true := by
  intro is
  induction is with
  | nil => intro n steps _ h; simp only [pathToWith, Option.some.injEq] at h; subst h; rfl
  | cons i is ih =>
    intro n steps hn h
    simp only [pathToWith] at h
    cases hc : n.kids[i]? with
    | none => simp [hc] at h
    | some c =>
      simp only [hc] at h
      have hcn := namesOK_kids n c i hn hc
      cases hr : pathToWith cnt c is with
      | none => simp [hr] at h
      | some rest =>
        simp only [hr, Option.some.injEq] at h
        subst h
        simp only [List.all_cons, Bool.and_eq_true]
        exact ⟨childStep_ok c _ hcn, ih c rest hcn hr⟩

theorem namesOK_descend : ∀ (is : List Nat) (top n : Node), top.namesOK = true → descend top is = some n →
    n.namesOK = true := by
  intro is
  induction is with
  | nil => intro top n hw h; simp only [descend, Option.some.injEq] at h; subst h; exact hw
  | cons i is ih =>
    intro top n hw h
    simp only [descend] at h
    cases hc : top.kids[i]? with
    | none => simp [hc] at h
    | some c => simp only [hc] at h; exact ih c n (namesOK_kids top c i hw hc) h

theorem mem_of_getElem? {α : Type} {l : List α} {i : Nat} {a : α} (h : l[i]? = some a) : a ∈ l := by
  have hi := lt_length_of_getElem? h
  have := List.getElem?_eq_getElem hi
  rw [this] at h
  exact Option.some.inj h ▸ List.getElem_mem hi

theorem pathOfWith_ok (cnt : Node → Node → Bool) (top : Node) (r : Ref) (steps : List Step)
    (hn : top.namesOK = true) (hp : pathOfWith cnt top r = some steps) : steps.all Step.ok = true := by
  obtain ⟨path, sel⟩ := r
  unfold pathOfWith at hp
  simp only at hp
  cases hpt : pathToWith cnt top path with
  | none => simp [hpt] at hp
  | some st =>
    cases hd : descend top path with
    | none => simp [hpt, hd] at hp
    | some n =>
      simp only [hpt, hd] at hp
      have hst := pathToWith_ok cnt path top st hn hpt
      have hnn := namesOK_descend path top n hn hd
      cases sel with
      | self => simp only [Option.some.injEq] at hp; subst hp; exact hst
      | attr j =>
        cases ha : n.attrs[j]? with
        | none => simp [ha] at hp
        | some a =>
          simp only [ha, Option.map_some, Option.some.injEq] at hp
          subst hp
          have hmem := mem_of_getElem? ha
          cases n with
          | elem nm nss attrs kids =>
            simp only [Node.namesOK, Bool.and_eq_true, List.all_eq_true] at hnn
            have := hnn.1.2 a hmem
            simp [List.all_append, hst, Step.ok, this.1, this.2]
          | text => simp [Node.attrs] at hmem
          | comment => simp [Node.attrs] at hmem
          | pi t => simp [Node.attrs] at hmem
      | ns j =>
        cases ha : n.nss[j]? with
        | none => simp [ha] at hp
        | some a =>
          simp only [ha, Option.map_some, Option.some.injEq] at hp
          subst hp
          have hmem := mem_of_getElem? ha
          cases n with
          | elem nm nss attrs kids =>
            simp only [Node.namesOK, Bool.and_eq_true, List.all_eq_true] at hnn
            have := hnn.1.1.2 a hmem
            simp [List.all_append, hst, Step.ok, this]
          | text => simp [Node.nss] at hmem
          | comment => simp [Node.nss] at hmem
          | pi t => simp [Node.nss] at hmem

end EPV.NodePath

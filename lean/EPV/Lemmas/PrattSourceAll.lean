/-
C04 helper: the rendered `source` text of *every* tree returned by the parser model is separable
(`chainOK`), given decidable conditions on the lexical table (`TextOK`).
-/
import EPV.Lemmas.PrattSource
import EPV.Lemmas.PrattInv
namespace EPV.Source
open EPV.Syn EPV.Lexer EPV.Pratt

/-! ### boundary predicates on piece lists -/

/-- the last piece stops in front of every character of `F` -/
def endsOK (X : TextTbl) (F : List Ch) (ps : List Piece) : Bool :=
  match ps.getLast? with
  | some p => F.all (stopOK X p)
  | none => false

/-- the list starts with a glued piece whose first character is in `S` -/
def startsIn (S : List Ch) (ps : List Piece) : Bool :=
  match ps with
  | p :: _ => p.glue && S.contains (p.txt.headD 0)
  | [] => false

theorem stopOK_glue (X : TextTbl) (p : Piece) (g : Bool) (d : Ch) :
    stopOK X { p with glue := g } d = stopOK X p d := by
  simp [stopOK]

theorem wfPiece_glue (X : TextTbl) (p : Piece) (g : Bool) : wfPiece X { p with glue := g } = wfPiece X p := by
  simp [wfPiece]

theorem chainOK_sp (X : TextTbl) (ps : List Piece) : chainOK X (sp ps) = chainOK X ps := by
  cases ps with
  | nil => rfl
  | cons p rest =>
    cases rest with
    | nil => simp [sp, chainOK, wfPiece_glue]
    | cons q r => simp [sp, chainOK, wfPiece_glue, stopOK_glue]

theorem endsOK_sp (X : TextTbl) (F : List Ch) (ps : List Piece) : endsOK X F (sp ps) = endsOK X F ps := by
  cases ps with
  | nil => rfl
  | cons p rest =>
    cases rest with
    | nil =>
      have : ∀ d, stopOK X { p with glue := false } d = stopOK X p d := fun d => stopOK_glue X p false d
      simp only [sp, endsOK, List.getLast?_singleton]
      congr 1
    | cons q r => simp [sp, endsOK, List.getLast?_cons_cons]

theorem endsOK_append (X : TextTbl) (F : List Ch) (a b : List Piece) (hb : b ≠ []) :
    endsOK X F (a ++ b) = endsOK X F b := by
  have : (a ++ b).getLast? = b.getLast? := by
    cases hbl : b.getLast? with
    | none => simp [List.getLast?_eq_none_iff] at hbl; exact absurd hbl hb
    | some x => simp [List.getLast?_append, hbl]
  simp [endsOK, this]

theorem startsIn_append (S : List Ch) (a b : List Piece) (ha : startsIn S a = true) :
    startsIn S (a ++ b) = true := by
  cases a with
  | nil => simp [startsIn] at ha
  | cons p r => simpa [startsIn] using ha

theorem startsIn_ne_nil (S : List Ch) (a : List Piece) (ha : startsIn S a = true) : a ≠ [] := by
  cases a with
  | nil => simp [startsIn] at ha
  | cons p r => simp

/-- every well-formed piece stops in front of a blank -/
def blankOK (X : TextTbl) : Bool :=
  !inRanges X.wordChar 32 && !inRanges X.digit 32 && X.syms2.all (fun p => p.2 != 32)

theorem stop_blank (X : TextTbl) (hb : blankOK X = true) (p : Piece) : stopOK X p 32 = true := by
  simp only [blankOK, Bool.and_eq_true, Bool.not_eq_true', List.all_eq_true, bne_iff_ne, ne_eq] at hb
  obtain ⟨⟨h1, h2⟩, h3⟩ := hb
  unfold stopOK
  cases p.cls with
  | word => simp [h1]
  | num => simp [h2]
  | str => rfl
  | sym =>
    simp only
    split
    · rename_i c _
      simp only [Bool.not_eq_true']
      cases hc : X.syms2.contains (c, 32) with
      | false => rfl
      | true =>
        have := h3 (c, 32) (by simpa using hc)
        simp at this
    · rfl

theorem chainOK_tail (X : TextTbl) (p : Piece) (ps : List Piece) (h : chainOK X (p :: ps) = true) :
    chainOK X ps = true := (chainOK_head X p ps h).2.1

theorem chainOK_last_wf (X : TextTbl) : ∀ (ps : List Piece) (p : Piece), chainOK X ps = true →
    ps.getLast? = some p → wfPiece X p = true := by
  intro ps
  induction ps with
  | nil => intro p _ h; simp at h
  | cons q rest ih =>
    intro p h hl
    cases rest with
    | nil => simp at hl; subst hl; simpa [chainOK] using h
    | cons r rs =>
      rw [List.getLast?_cons_cons] at hl
      exact ih p (chainOK_tail X q _ h) hl

/-- joining two separable lists: the last piece of the first must stop in front of the second -/
theorem chainOK_append (X : TextTbl) : ∀ (a b : List Piece), chainOK X a = true → chainOK X b = true →
    (∀ p q, a.getLast? = some p → b.head? = some q → stopOK X p (nextCh q) = true) →
    chainOK X (a ++ b) = true := by
  intro a
  induction a with
  | nil => intro b _ hb _; simpa using hb
  | cons p rest ih =>
    intro b ha hb hj
    cases rest with
    | nil =>
      cases b with
      | nil => simpa using ha
      | cons q bs =>
        have hw : wfPiece X p = true := by simpa [chainOK] using ha
        simp only [List.cons_append, List.nil_append, chainOK, Bool.and_eq_true]
        exact ⟨⟨hw, hj p q (by simp) (by simp)⟩, hb⟩
    | cons r rs =>
      simp only [chainOK, Bool.and_eq_true] at ha
      have := ih b ha.2 hb (by
        intro p' q' h1 h2
        exact hj p' q' (by rw [List.getLast?_cons_cons]; exact h1) h2)
      simp only [List.cons_append, chainOK, Bool.and_eq_true]
      exact ⟨ha.1, by simpa using this⟩

/-- join with a blank in between -/
theorem chainOK_append_sp (X : TextTbl) (hb : blankOK X = true) (a b : List Piece)
    (ha : chainOK X a = true) (hbb : chainOK X b = true) : chainOK X (a ++ sp b) = true := by
  refine chainOK_append X a (sp b) ha (by rw [chainOK_sp]; exact hbb) ?_
  intro p q _ hq
  cases b with
  | nil => simp [sp] at hq
  | cons q0 r =>
    simp [sp] at hq
    subst hq
    simpa [nextCh] using stop_blank X hb p

/-- tight join: the first list ends in front of every character of `F`, the second starts (glued) with one -/
theorem chainOK_append_tight (X : TextTbl) (F : List Ch) (a b : List Piece)
    (ha : chainOK X a = true) (hb : chainOK X b = true) (he : endsOK X F a = true) (hs : startsIn F b = true) :
    chainOK X (a ++ b) = true := by
  refine chainOK_append X a b ha hb ?_
  intro p q hp hq
  cases b with
  | nil => simp at hq
  | cons q0 r =>
    simp at hq; subst hq
    simp only [startsIn, Bool.and_eq_true, List.contains_iff_mem] at hs
    simp only [endsOK, hp, List.all_eq_true] at he
    simpa [nextCh, hs.1] using he _ (by simpa using hs.2)

theorem startsIn_weaken (S S' : List Ch) (a : List Piece) (h : startsIn S a = true) : startsIn (S ++ S') a = true := by
  cases a with
  | nil => simp [startsIn] at h
  | cons p r =>
    simp only [startsIn, Bool.and_eq_true, List.contains_iff_mem] at h ⊢
    exact ⟨h.1, List.mem_append_left _ h.2⟩

/-! ### decidable conditions on the lexical table -/

/-- first character of the closing symbol `c` -/
def closeFirst (X : TextTbl) (c : Nat) : List Ch :=
  match X.close c with
  | p :: _ => [p.2.headD 0]
  | [] => []

def closeOK (X : TextTbl) (F : List Ch) (c : Nat) : Bool :=
  chainOK X (glued (X.close c)) && startsIn F (glued (X.close c)) && endsOK X F (glued (X.close c))

/-- symbol usable without blanks: its lexemes are glued and separable -/
def symGlued (X : TextTbl) (o : Nat) : Bool := chainOK X (glued (X.sym o)) && !(X.sym o).isEmpty

/-- symbol written with blanks around it (`instance of`): its words are separable -/
def symSpaced (X : TextTbl) (o : Nat) : Bool := chainOK X (spacedWords (X.sym o)) && !(X.sym o).isEmpty

/-- per symbol: what its role in the operator table needs from its text -/
def rowTextOK (T : Tbl) (X : TextTbl) (F S : List Ch) (o : Nat) : Bool :=
  (match T.nud o with
   | .prefix _ _ => symGlued X o && endsOK X S (glued (X.sym o)) && startsIn S (glued (X.sym o))
   | .group c _ =>
       symGlued X o && endsOK X (S ++ closeFirst X c) (glued (X.sym o)) && startsIn S (glued (X.sym o)) &&
         closeOK X F c && startsIn (S ++ closeFirst X c) (glued (X.close c))
   | _ => true) &&
  (match T.led o with
   | .infix _ _ _ =>
       (match X.style o with
        | 0 => symSpaced X o
        | 1 => symGlued X o && startsIn F (glued (X.sym o)) && endsOK X S (glued (X.sym o))
        | _ => symGlued X o && startsIn F (glued (X.sym o)))
   | .typed _ => symSpaced X o
   | .bracket c _ _ =>
       symGlued X o && startsIn F (glued (X.sym o)) && endsOK X (S ++ closeFirst X c) (glued (X.sym o)) &&
         closeOK X F c && startsIn (S ++ closeFirst X c) (glued (X.close c))
   | .arrow _ _ _ g => symSpaced X o && startsIn F (glued (X.sym g))
   | _ => true)

def tyOK (X : TextTbl) (F : List Ch) (n : Nat) : Bool :=
  chainOK X (glued (X.ty n)) && !(X.ty n).isEmpty && endsOK X F (glued (X.ty n))

def atomOK (X : TextTbl) (F S : List Ch) (k n : Nat) : Bool :=
  chainOK X (glued (atomLex k n)) && startsIn S (glued (atomLex k n)) && endsOK X F (glued (atomLex k n))

/-- the lexical table fits the operator table: every symbol's text can be written the way `source` writes it
(glued or with blanks) and be found again by the lexeme model.  `F`: characters that may directly follow an
operand (first characters of `/ [ ( ) ] , ?`), `S`: characters an operand may start with. -/
structure TextOK (T : Tbl) (X : TextTbl) (F S : List Ch) : Prop where
  blank : blankOK X = true
  rows : ∀ o, rowTextOK T X F S o = true
  tys : ∀ n, tyOK X F n = true
  atoms : ∀ k n, atomOK X F S k n = true

theorem glued_ne_nil {l : List (Cls × List Ch)} (h : l.isEmpty = false) : glued l ≠ [] := by
  cases l <;> simp [glued] at h ⊢

theorem spacedWords_ne_nil {l : List (Cls × List Ch)} (h : l.isEmpty = false) : spacedWords l ≠ [] := by
  cases l <;> simp [spacedWords] at h ⊢

/-- what the induction carries for a rendered sub-expression -/
structure Rendered (X : TextTbl) (F S : List Ch) (ps : List Piece) : Prop where
  chain : chainOK X ps = true
  starts : startsIn S ps = true
  ends : endsOK X F ps = true

/-- bracket content followed by the closer, after an opening symbol whose text is `op` -/
theorem bracket_tail (X : TextTbl) (F S : List Ch) (c : Nat) (op body : List Piece)
    (hop : chainOK X op = true) (hopne : op ≠ [])
    (hend : endsOK X (S ++ closeFirst X c) op = true)
    (hclose : closeOK X F c = true) (hcs : startsIn (S ++ closeFirst X c) (glued (X.close c)) = true)
    (hbody : body = [] ∨ Rendered X F S body) :
    chainOK X (op ++ body ++ glued (X.close c)) = true ∧ endsOK X F (op ++ body ++ glued (X.close c)) = true := by
  simp only [closeOK, Bool.and_eq_true] at hclose
  obtain ⟨⟨hcc, hcst⟩, hce⟩ := hclose
  have hcne := startsIn_ne_nil _ _ hcst
  rcases hbody with rfl | hb
  · refine ⟨?_, ?_⟩
    · simpa using chainOK_append_tight X _ op _ hop hcc hend hcs
    · simpa using (endsOK_append X F op _ hcne).trans hce
  · have h1 : chainOK X (op ++ body) = true :=
      chainOK_append_tight X _ op body hop hb.chain hend (startsIn_weaken _ _ _ hb.starts)
    have hbne := startsIn_ne_nil _ _ hb.starts
    have h2 : endsOK X F (op ++ body) = true := (endsOK_append X F op body hbne).trans hb.ends
    exact ⟨chainOK_append_tight X F _ _ h1 hcc h2 hcst, (endsOK_append X F _ _ hcne).trans hce⟩

theorem head?_append_ne {a b : List Tok} (h : a ≠ []) : (a ++ b).head? = a.head? := by
  cases a with
  | nil => exact absurd rfl h
  | cons x xs => rfl

/-- a tree whose first token is the symbol `g` is written starting with the text of `g` -/
theorem render_head (T : Tbl) (X : TextTbl) : ∀ t, WFr T t → ∀ g, t.yield.head? = some (.op g) →
    ∃ rest, render X t = glued (X.sym g) ++ rest := by
  intro t
  induction t with
  | nil => intro h; simp [WFr] at h
  | atom k n => intro _ g hy; simp [Tree.yield] at hy
  | group g' c e _ =>
    intro _ g hy
    simp only [Tree.yield, List.head?_cons, Option.some.injEq, Tok.op.injEq] at hy
    subst hy
    exact ⟨render X e ++ glued (X.close c), by simp [render, List.append_assoc]⟩
  | pre p x _ =>
    intro _ g hy
    simp only [Tree.yield, List.head?_cons, Option.some.injEq, Tok.op.injEq] at hy
    subst hy
    exact ⟨render X x, by simp [render]⟩
  | bin o l r ihl _ =>
    intro h g hy
    cases hl : T.led o <;> simp only [WFr, hl] at h
    have hne := wfr_yield_ne_nil T l h.1
    simp only [Tree.yield] at hy
    rw [head?_append_ne hne] at hy
    obtain ⟨rest, hr⟩ := ihl h.1 g hy
    simp only [render]
    split
    · exact ⟨rest ++ sp (spacedWords (X.sym o)) ++ sp (render X r), by simp [hr, List.append_assoc]⟩
    · exact ⟨rest ++ glued (X.sym o) ++ render X r, by simp [hr, List.append_assoc]⟩
    · exact ⟨rest ++ glued (X.sym o) ++ sp (render X r), by simp [hr, List.append_assoc]⟩
  | typed o l n ihl =>
    intro h g hy
    cases hl : T.led o <;> simp only [WFr, hl] at h
    have hne := wfr_yield_ne_nil T l h.1
    simp only [Tree.yield] at hy
    rw [head?_append_ne hne] at hy
    obtain ⟨rest, hr⟩ := ihl h.1 g hy
    exact ⟨rest ++ sp (spacedWords (X.sym o)) ++ sp (glued (X.ty n)), by simp [render, hr, List.append_assoc]⟩
  | post o c l e ihl _ =>
    intro h g hy
    cases hl : T.led o <;> simp only [WFr, hl] at h
    have hne := wfr_yield_ne_nil T l h.2.1
    simp only [Tree.yield] at hy
    rw [head?_append_ne hne] at hy
    obtain ⟨rest, hr⟩ := ihl h.2.1 g hy
    exact ⟨rest ++ glued (X.sym o) ++ render X e ++ glued (X.close c), by simp [render, hr, List.append_assoc]⟩
  | arrow o l f a ihl _ _ =>
    intro h g hy
    cases hl : T.led o <;> simp only [WFr, hl] at h
    have hne := wfr_yield_ne_nil T l h.1
    simp only [Tree.yield] at hy
    rw [head?_append_ne hne] at hy
    obtain ⟨rest, hr⟩ := ihl h.1 g hy
    exact ⟨rest ++ sp (spacedWords (X.sym o)) ++ sp (render X f) ++ render X a, by simp [render, hr, List.append_assoc]⟩

/-- **every tree returned by the parser renders to a separable piece list** (`argsOpen`: the argument list of an
arrow starts with its parenthesis) -/
theorem render_rendered (T : Tbl) (X : TextTbl) (F S : List Ch) (hok : TextOK T X F S) :
    ∀ t, WFr T t → argsOpen t = true → Rendered X F S (render X t) := by
  intro t
  induction t with
  | nil => intro h; simp [WFr] at h
  | atom k n =>
    intro _ _
    have := hok.atoms k n
    simp only [atomOK, Bool.and_eq_true] at this
    exact ⟨this.1.1, this.1.2, this.2⟩
  | group g c e ih =>
    intro h hao
    simp only [argsOpen] at hao
    cases hn : T.nud g <;> simp only [WFr, hn] at h
    rename_i c' eo
    obtain ⟨rfl, he⟩ := h
    have hr := hok.rows g
    simp only [rowTextOK, hn, Bool.and_eq_true, symGlued, Bool.not_eq_true'] at hr
    obtain ⟨⟨⟨⟨⟨hch, hne⟩, hend⟩, hst⟩, hcl⟩, hcs⟩ := hr.1
    have hbody : render X e = [] ∨ Rendered X F S (render X e) := by
      rcases he with ⟨rfl, -⟩ | he
      · left; rfl
      · right; exact ih he hao
    have := bracket_tail X F S c _ _ hch (glued_ne_nil hne) hend hcl hcs hbody
    refine ⟨by simpa [render] using this.1, ?_, by simpa [render] using this.2⟩
    simpa [render, List.append_assoc] using startsIn_append S _ _ hst
  | pre p x ih =>
    intro h hao
    simp only [argsOpen] at hao
    cases hn : T.nud p <;> simp only [WFr, hn] at h
    have hr := hok.rows p
    simp only [rowTextOK, hn, Bool.and_eq_true, symGlued, Bool.not_eq_true'] at hr
    obtain ⟨⟨⟨hch, hne⟩, hend⟩, hst⟩ := hr.1
    have hx := ih h.1 hao
    have hxne := startsIn_ne_nil _ _ hx.starts
    exact ⟨chainOK_append_tight X S _ _ hch hx.chain hend hx.starts,
      startsIn_append S _ _ hst, (endsOK_append X F _ _ hxne).trans hx.ends⟩
  | bin o l r ihl ihr =>
    intro h hao
    simp only [argsOpen, Bool.and_eq_true] at hao
    cases hl : T.led o <;> simp only [WFr, hl] at h
    have hL := ihl h.1 hao.1
    have hR := ihr h.2.1 hao.2
    have hRne := startsIn_ne_nil _ _ hR.starts
    have hr := hok.rows o
    simp only [rowTextOK, hl, Bool.and_eq_true] at hr
    have hrow := hr.2
    simp only [render]
    split
    · -- blanks on both sides
      rename_i hs
      simp only [hs, symSpaced, Bool.and_eq_true, Bool.not_eq_true'] at hrow
      have h1 := chainOK_append_sp X hok.blank _ _ hL.chain hrow.1
      have h2 := chainOK_append_sp X hok.blank _ _ h1 hR.chain
      have hne : sp (render X r) ≠ [] := by cases hrr : render X r <;> simp_all [sp]
      refine ⟨h2, ?_, ?_⟩
      · simpa [List.append_assoc] using startsIn_append S _ _ hL.starts
      · rw [endsOK_append X F _ _ hne, endsOK_sp]; exact hR.ends
    · -- no blanks
      rename_i hs
      simp only [hs, symGlued, Bool.and_eq_true, Bool.not_eq_true'] at hrow
      obtain ⟨⟨⟨hch, hne⟩, hst⟩, hend⟩ := hrow
      have h1 := chainOK_append_tight X F _ _ hL.chain hch hL.ends hst
      have h1e : endsOK X S (render X l ++ glued (X.sym o)) = true :=
        (endsOK_append X S _ _ (glued_ne_nil hne)).trans hend
      refine ⟨chainOK_append_tight X S _ _ h1 hR.chain h1e hR.starts, ?_, ?_⟩
      · simpa [List.append_assoc] using startsIn_append S _ _ hL.starts
      · rw [endsOK_append X F _ _ hRne]; exact hR.ends
    · -- glued to the left operand, blank before the right one
      rename_i hs0 hs1
      have hrow' : (symGlued X o && startsIn F (glued (X.sym o))) = true := by
        revert hrow
        split
        · rename_i h0; exact absurd h0 hs0
        · rename_i h1; exact absurd h1 hs1
        · exact id
      simp only [symGlued, Bool.and_eq_true, Bool.not_eq_true'] at hrow'
      obtain ⟨⟨hch, hne⟩, hst⟩ := hrow'
      have h1 := chainOK_append_tight X F _ _ hL.chain hch hL.ends hst
      have h2 := chainOK_append_sp X hok.blank _ _ h1 hR.chain
      have hne' : sp (render X r) ≠ [] := by cases hrr : render X r <;> simp_all [sp]
      refine ⟨h2, ?_, ?_⟩
      · simpa [List.append_assoc] using startsIn_append S _ _ hL.starts
      · rw [endsOK_append X F _ _ hne', endsOK_sp]; exact hR.ends
  | typed o l n ih =>
    intro h hao
    simp only [argsOpen] at hao
    cases hl : T.led o <;> simp only [WFr, hl] at h
    have hL := ih h.1 hao
    have hr := hok.rows o
    simp only [rowTextOK, hl, Bool.and_eq_true, symSpaced, Bool.not_eq_true'] at hr
    have hty := hok.tys n
    simp only [tyOK, Bool.and_eq_true, Bool.not_eq_true'] at hty
    obtain ⟨⟨htc, htne⟩, hte⟩ := hty
    have h1 := chainOK_append_sp X hok.blank _ _ hL.chain hr.2.1
    have h2 := chainOK_append_sp X hok.blank _ _ h1 htc
    have hne : sp (glued (X.ty n)) ≠ [] := by
      have := glued_ne_nil htne
      cases hg : glued (X.ty n) <;> simp_all [sp]
    refine ⟨by simpa [render] using h2, ?_, ?_⟩
    · simpa [render, List.append_assoc] using startsIn_append S _ _ hL.starts
    · simp only [render]; rw [endsOK_append X F _ _ hne, endsOK_sp]; exact hte
  | post o c l e ihl ihe =>
    intro h hao
    simp only [argsOpen, Bool.and_eq_true] at hao
    cases hl : T.led o <;> simp only [WFr, hl] at h
    rename_i c' eo deny
    obtain ⟨rfl, hwl, -, -, he⟩ := h
    have hL := ihl hwl hao.1
    have hr := hok.rows o
    simp only [rowTextOK, hl, Bool.and_eq_true, symGlued, Bool.not_eq_true'] at hr
    obtain ⟨⟨⟨⟨⟨hch, hne⟩, hst⟩, hend⟩, hcl⟩, hcs⟩ := hr.2
    have hbody : render X e = [] ∨ Rendered X F S (render X e) := by
      rcases he with ⟨rfl, -⟩ | he
      · left; rfl
      · right; exact ihe he hao.2
    -- the opening symbol after the left operand
    have hop : chainOK X (render X l ++ glued (X.sym o)) = true :=
      chainOK_append_tight X F _ _ hL.chain hch hL.ends hst
    have hopne : render X l ++ glued (X.sym o) ≠ [] := by
      have := glued_ne_nil hne; simp [this]
    have hopend : endsOK X (S ++ closeFirst X c) (render X l ++ glued (X.sym o)) = true :=
      (endsOK_append X _ _ _ (glued_ne_nil hne)).trans hend
    have := bracket_tail X F S c _ _ hop hopne hopend hcl hcs hbody
    refine ⟨by simpa [render, List.append_assoc] using this.1, ?_, by simpa [render, List.append_assoc] using this.2⟩
    simpa [render, List.append_assoc] using startsIn_append S _ _ hL.starts
  | arrow o l f a ihl ihf iha =>
    intro h hao
    simp only [argsOpen, Bool.and_eq_true, beq_iff_eq] at hao
    obtain ⟨⟨⟨hhd, hal⟩, haf⟩, haa⟩ := hao
    cases hl : T.led o <;> simp only [WFr, hl] at h
    rename_i sr ar start g
    obtain ⟨hwl, hwf, hwa, -, -, -, -, hhead⟩ := h
    have hL := ihl hwl hal
    have hF := ihf hwf haf
    have hA := iha hwa haa
    have hr := hok.rows o
    simp only [rowTextOK, hl, Bool.and_eq_true, symSpaced, Bool.not_eq_true'] at hr
    obtain ⟨⟨hch, hne⟩, hgst⟩ := hr.2
    have hg : (a.head - 1) / 2 = g := by rw [hhead]; omega
    rw [hg] at hhd
    obtain ⟨rest, hra⟩ := render_head T X a hwa g hhd
    have hast : startsIn F (render X a) = true := by rw [hra]; exact startsIn_append F _ _ hgst
    have hAne := startsIn_ne_nil _ _ hA.starts
    have h1 := chainOK_append_sp X hok.blank _ _ hL.chain hch
    have h2 := chainOK_append_sp X hok.blank _ _ h1 hF.chain
    have hne' : sp (render X f) ≠ [] := by
      have := startsIn_ne_nil _ _ hF.starts
      cases hrr : render X f <;> simp_all [sp]
    have h2e : endsOK X F (render X l ++ sp (spacedWords (X.sym o)) ++ sp (render X f)) = true := by
      rw [endsOK_append X F _ _ hne', endsOK_sp]; exact hF.ends
    refine ⟨?_, ?_, ?_⟩
    · simpa [render] using chainOK_append_tight X F _ _ h2 hA.chain h2e hast
    · simpa [render, List.append_assoc] using startsIn_append S _ _ hL.starts
    · simp only [render]; rw [endsOK_append X F _ _ hAne]; exact hA.ends

/-- without an arrow symbol in the table no tree has an arrow node -/
theorem argsOpen_of_noArrow (T : Tbl) (hno : ∀ o sr ar start g, T.led o ≠ .arrow sr ar start g) :
    ∀ t, WFr T t → argsOpen t = true := by
  intro t
  induction t with
  | nil => intro h; simp [WFr] at h
  | atom => intro _; rfl
  | group g c e ih =>
    intro h
    cases hn : T.nud g <;> simp only [WFr, hn] at h
    rcases h.2 with ⟨rfl, -⟩ | h2
    · rfl
    · simpa [argsOpen] using ih h2
  | pre p x ih =>
    intro h
    cases hn : T.nud p <;> simp only [WFr, hn] at h
    simpa [argsOpen] using ih h.1
  | bin o l r ihl ihr =>
    intro h
    cases hl : T.led o <;> simp only [WFr, hl] at h
    simp [argsOpen, ihl h.1, ihr h.2.1]
  | typed o l n ih =>
    intro h
    cases hl : T.led o <;> simp only [WFr, hl] at h
    simpa [argsOpen] using ih h.1
  | post o c l e ihl ihe =>
    intro h
    cases hl : T.led o <;> simp only [WFr, hl] at h
    obtain ⟨-, hwl, -, -, he⟩ := h
    rcases he with ⟨rfl, -⟩ | he
    · simp [argsOpen, ihl hwl]
    · simp [argsOpen, ihl hwl, ihe he]
  | arrow o l f a _ _ _ =>
    intro h
    cases hl : T.led o <;> simp only [WFr, hl] at h
    exact absurd hl (hno o _ _ _ _)

/-- decidable form of "the table has no arrow symbol" -/
def noArrowB (rows : List Row) : Bool := rows.all fun r => match r.led with | .arrow .. => false | _ => true

theorem noArrow_of_check (rows : List Row) (h : noArrowB rows = true) :
    ∀ o sr ar start g, (tableOf rows).led o ≠ .arrow sr ar start g := by
  intro o sr ar start g hl
  simp only [noArrowB, List.all_eq_true] at h
  by_cases ho : o < rows.length
  · have := h rows[o] (List.getElem_mem ho)
    simp only [tableOf, List.getElem?_eq_getElem ho, Option.map_some, Option.getD_some] at hl
    rw [hl] at this
    simp at this
  · have : rows[o]? = none := List.getElem?_eq_none (by omega)
    simp [tableOf, this] at hl

/-! ### discharging `TextOK` for a concrete table -/

theorem digits_spec : ∀ n : Nat, (digits n : List Nat) ≠ [] ∧ ∀ c : Nat, c ∈ (digits n : List Nat) → 48 ≤ c ∧ c ≤ 57 := by
  intro n
  induction n using Nat.strongRecOn with
  | _ n ih =>
    rw [digits]
    by_cases h : n < 10
    · simp only [h, dite_true]
      refine ⟨by simp, ?_⟩
      intro c hc
      simp only [List.mem_singleton] at hc
      subst hc
      constructor
      · exact Nat.le_add_right 48 n
      · show 48 + n ≤ 57; omega
    · simp only [h, dite_false]
      have := ih (n / 10) (by omega)
      refine ⟨by simp, ?_⟩
      intro c hc
      simp only [List.mem_append, List.mem_singleton] at hc
      rcases hc with hc | hc
      · exact this.2 c hc
      · subst hc
        constructor
        · exact Nat.le_add_right 48 _
        · show 48 + n % 10 ≤ 57; omega

/-- facts about the character classes that make every operand text well formed -/
def classOK (X : TextTbl) (F S : List Ch) : Bool :=
  (List.range 10).all (fun i => inRanges X.wordChar (48 + i) && inRanges X.digit (48 + i) && S.contains (48 + i) &&
    !X.syms2.contains (63, 48 + i)) &&
  !inRanges X.digit 110 && inRanges X.wordStart 110 && inRanges X.wordChar 110 &&
  !inRanges X.digit 118 && inRanges X.wordStart 118 && inRanges X.wordChar 118 &&
  !inRanges X.digit 36 && !inRanges X.wordStart 36 && !inRanges X.digit 63 && !inRanges X.wordStart 63 &&
  !inRanges X.digit 42 && !inRanges X.wordStart 42 &&
  !X.syms2.contains (36, 118) && !X.syms2.contains (63, 110) && !X.syms2.contains (63, 42) &&
  S.contains 110 && S.contains 36 && S.contains 39 && S.contains 63 && S.contains 42 &&
  F.all (fun d => !inRanges X.wordChar d && !inRanges X.digit d && !X.syms2.contains (42, d))

theorem wf_word (X : TextTbl) (g : Bool) (c : Nat) (cs : List Nat) (h1 : c ≠ 32) (h2 : c ≠ 39)
    (h3 : inRanges X.digit c = false) (h4 : inRanges X.wordStart c = true) (h5 : inRanges X.wordChar c = true)
    (h6 : cs.all (inRanges X.wordChar) = true) : wfPiece X ⟨g, .word, c :: cs⟩ = true := by
  simp [wfPiece, h1, h2, h3, h4, h5, h6]

theorem wf_num (X : TextTbl) (g : Bool) (c : Nat) (cs : List Nat) (h1 : c ≠ 32) (h2 : c ≠ 39)
    (h3 : inRanges X.digit c = true) (h6 : cs.all (inRanges X.digit) = true) : wfPiece X ⟨g, .num, c :: cs⟩ = true := by
  simp [wfPiece, h1, h2, h3, h6]

theorem wf_sym1 (X : TextTbl) (g : Bool) (c : Nat) (h1 : c ≠ 39) (h2 : c ≠ 32)
    (h3 : inRanges X.digit c = false) (h4 : inRanges X.wordStart c = false) : wfPiece X ⟨g, .sym, [c]⟩ = true := by
  simp [wfPiece, h1, h2, h3, h4]

theorem wf_str (X : TextTbl) (g : Bool) (body : List Nat) (h : ¬ (39 : Nat) ∈ body) :
    wfPiece X ⟨g, .str, 39 :: (body ++ [39])⟩ = true := by
  have : (body ++ [39]).reverse = 39 :: body.reverse := by simp
  simp only [wfPiece, beq_self_eq_true, Bool.true_and, this, Bool.not_eq_true']
  cases hc : body.reverse.contains 39 with
  | false => rfl
  | true => exact absurd (by simpa using hc) h

theorem stop_sym1 (X : TextTbl) (g : Bool) (c d : Nat) (h : X.syms2.contains (c, d) = false) :
    stopOK X ⟨g, .sym, [c]⟩ d = true := by
  simp only [stopOK, h, Bool.not_false]

theorem one_piece (X : TextTbl) (F S : List Ch) (p : Piece) (hg : p.glue = true) (hw : wfPiece X p = true)
    (hs : S.contains (p.txt.headD 0) = true) (he : F.all (stopOK X p) = true) :
    (chainOK X [p] && startsIn S [p] && endsOK X F [p]) = true := by
  simp only [chainOK, startsIn, endsOK, List.getLast?_singleton, hg, hw, hs, he, Bool.and_self]

theorem two_pieces (X : TextTbl) (F S : List Ch) (p q : Piece) (hg : p.glue = true) (hgq : q.glue = true)
    (hw : wfPiece X p = true) (hwq : wfPiece X q = true) (hst : stopOK X p (q.txt.headD 0) = true)
    (hs : S.contains (p.txt.headD 0) = true) (he : F.all (stopOK X q) = true) :
    (chainOK X [p, q] && startsIn S [p, q] && endsOK X F [p, q]) = true := by
  simp only [chainOK, startsIn, endsOK, nextCh, List.getLast?_cons_cons, List.getLast?_singleton, hg, hgq, hw, hwq,
    hst, hs, he, Bool.and_self, if_true]

theorem atoms_of_classOK (X : TextTbl) (F S : List Ch) (h : classOK X F S = true) :
    ∀ k n, atomOK X F S k n = true := by
  simp only [classOK, Bool.and_eq_true, Bool.not_eq_true', List.all_eq_true, List.mem_range] at h
  obtain ⟨⟨⟨⟨⟨⟨⟨⟨⟨⟨⟨⟨⟨⟨⟨⟨⟨⟨⟨⟨⟨hd, n1⟩, n2⟩, n3⟩, v1⟩, v2⟩, v3⟩, d1⟩, d2⟩, q1⟩, q2⟩, a1⟩, a2⟩, p1⟩, p2⟩, p3⟩, s1⟩, s2⟩, s3⟩, s4⟩, s5⟩, hF⟩ := h
  intro k n
  obtain ⟨hne, hdig⟩ := digits_spec n
  have hD : ∀ c : Nat, c ∈ (digits n : List Nat) → inRanges X.wordChar c = true ∧ inRanges X.digit c = true ∧
      S.contains c = true ∧ X.syms2.contains ((63 : Nat), c) = false := by
    intro c hc
    obtain ⟨h1, h2⟩ := hdig c hc
    have := hd (c - 48) (by omega)
    have e : 48 + (c - 48) = c := by omega
    rw [e] at this
    exact ⟨this.1.1.1, this.1.1.2, this.1.2, this.2⟩
  have hW : (digits n : List Nat).all (inRanges X.wordChar) = true := by
    simp only [List.all_eq_true]; intro c hc; exact (hD c hc).1
  have hFw : ∀ p : Piece, p.cls = .word → F.all (stopOK X p) = true := by
    intro p hp
    simp only [List.all_eq_true]; intro d hdF
    have := hF d hdF
    simp [stopOK, hp, this.1.1]
  have hFd : ∀ p : Piece, p.cls = .num → F.all (stopOK X p) = true := by
    intro p hp
    simp only [List.all_eq_true]; intro d hdF
    have := hF d hdF
    simp [stopOK, hp, this.1.2]
  obtain ⟨c0, cs0, hc0⟩ : ∃ (c0 : Nat) (cs0 : List Nat), (digits n : List Nat) = c0 :: cs0 := by
    cases hdn : digits n with
    | nil => exact absurd hdn hne
    | cons a b => exact ⟨a, b, rfl⟩
  have hc0m : c0 ∈ (digits n : List Nat) := by rw [hc0]; simp
  have hc0r := hdig c0 hc0m
  have hc0D := hD c0 hc0m
  have hcsG : cs0.all (inRanges X.digit) = true := by
    simp only [List.all_eq_true]; intro c hc
    exact (hD c (by rw [hc0]; exact List.mem_cons_of_mem _ hc)).2.1
  have hnum : ∀ g, wfPiece X ⟨g, .num, digits n⟩ = true := by
    intro g; rw [hc0]; exact wf_num X g c0 cs0 (by omega) (by omega) hc0D.2.1 hcsG
  have hwn : ∀ g, wfPiece X ⟨g, .word, 110 :: digits n⟩ = true :=
    fun g => wf_word X g 110 _ (by decide) (by decide) n1 n2 n3 hW
  have hq : wfPiece X ⟨true, .sym, [63]⟩ = true := wf_sym1 X true 63 (by decide) (by decide) q1 q2
  unfold atomOK
  match k with
  | 0 =>
    exact one_piece X F S ⟨true, .word, 110 :: digits n⟩ rfl (hwn true) (by simpa using s1) (hFw _ rfl)
  | 1 =>
    exact one_piece X F S ⟨true, .num, digits n⟩ rfl (hnum true)
      (by show S.contains ((digits n : List Nat).headD 0) = true; rw [hc0]; simpa using hc0D.2.2.1) (hFd _ rfl)
  | 2 =>
    exact two_pieces X F S ⟨true, .sym, [36]⟩ ⟨true, .word, 118 :: digits n⟩ rfl rfl
      (wf_sym1 X true 36 (by decide) (by decide) d1 d2)
      (wf_word X true 118 _ (by decide) (by decide) v1 v2 v3 hW)
      (stop_sym1 X true 36 118 p1) (by simpa using s2) (hFw _ rfl)
  | 3 =>
    refine one_piece X F S ⟨true, .str, 39 :: 115 :: digits n ++ [39]⟩ rfl ?_ (by simpa using s3) (by simp [stopOK])
    have := wf_str X true (115 :: digits n) (by
      intro hm
      simp only [List.mem_cons] at hm
      rcases hm with hm | hm
      · exact absurd hm (by decide)
      · have := hdig 39 hm; omega)
    simpa using this
  | 4 =>
    exact two_pieces X F S ⟨true, .sym, [63]⟩ ⟨true, .word, 110 :: digits n⟩ rfl rfl hq (hwn true)
      (stop_sym1 X true 63 110 p2) (by simpa using s4) (hFw _ rfl)
  | 5 =>
    exact two_pieces X F S ⟨true, .sym, [63]⟩ ⟨true, .num, digits n⟩ rfl rfl hq (hnum true)
      (by show stopOK X ⟨true, .sym, [63]⟩ ((digits n : List Nat).headD 0) = true; rw [hc0]; exact stop_sym1 X true 63 c0 hc0D.2.2.2)
      (by simpa using s4) (hFd _ rfl)
  | 6 =>
    refine one_piece X F S ⟨true, .sym, [42]⟩ rfl (wf_sym1 X true 42 (by decide) (by decide) a1 a2) (by simpa using s5) ?_
    simp only [List.all_eq_true]; intro d hdF
    exact stop_sym1 X true 42 d (hF d hdF).2
  | k + 7 =>
    refine two_pieces X F S ⟨true, .sym, [63]⟩ ⟨true, .sym, [42]⟩ rfl rfl hq
      (wf_sym1 X true 42 (by decide) (by decide) a1 a2) (stop_sym1 X true 63 42 p3) (by simpa using s4) ?_
    simp only [List.all_eq_true]; intro d hdF
    exact stop_sym1 X true 42 d (hF d hdF).2

/-- the executable check over a generated operator table and lexical table -/
def textCheckB (rows : List Row) (X : TextTbl) (F S : List Ch) (ntys : Nat) : Bool :=
  blankOK X && (List.range rows.length).all (rowTextOK (tableOf rows) X F S) && classOK X F S &&
    decide (0 < ntys) && (List.range ntys).all (tyOK X F)

theorem textOK_of_check (rows : List Row) (X : TextTbl) (F S : List Ch) (ntys : Nat)
    (hper : ∀ n, X.ty n = X.ty (n % ntys)) (h : textCheckB rows X F S ntys = true) :
    TextOK (tableOf rows) X F S := by
  simp only [textCheckB, Bool.and_eq_true, List.all_eq_true, List.mem_range, decide_eq_true_eq] at h
  obtain ⟨⟨⟨⟨hb, hr⟩, hc⟩, hpos⟩, ht⟩ := h
  refine ⟨hb, ?_, ?_, atoms_of_classOK X F S hc⟩
  · intro o
    by_cases ho : o < rows.length
    · exact hr o ho
    · have : rows[o]? = none := List.getElem?_eq_none (by omega)
      simp [rowTextOK, tableOf, this]
  · intro n
    have := ht (n % ntys) (Nat.mod_lt _ hpos)
    simp only [tyOK] at this ⊢
    rw [hper n]; exact this

/-- **the `source` text of every parse result lexes back to the lexemes of the input** -/
theorem source_lexes_back (rows : List Row) (X : TextTbl) (F S : List Ch) (hok : TextOK (tableOf rows) X F S)
    (t : Tree) (hw : WFr (tableOf rows) t) (ha : argsOpen t = true) :
    lexAll X (textOf (render X t)).length (textOf (render X t)) = some (t.yield.flatMap (tokLex X)) :=
  lex_render X t (render_rendered _ X F S hok t hw ha).chain _ (Nat.le_refl _)

end EPV.Source

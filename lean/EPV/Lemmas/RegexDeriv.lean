/-
C12 helper lemmas: the Brzozowski-derivative matcher of `Spec/XsdRegex.lean` decides the
denotational language `Matches` (with one character of context on each side for `^`/`$`).
-/
import EPV.Spec.XsdRegex
namespace EPV.Regex

/-! lemmas -/
@[simp] theorem ctxL_nil (p : Option Ch) : ctxL p [] = p := rfl
@[simp] theorem ctxR_nil (n : Option Ch) : ctxR [] n = n := rfl
@[simp] theorem ctxR_cons (c : Ch) (w : List Ch) (n : Option Ch) : ctxR (c :: w) n = some c := rfl
theorem ctxL_cons (p : Option Ch) (c : Ch) (w : List Ch) : ctxL p (c :: w) = ctxL (some c) w := by
  unfold ctxL
  cases w with
  | nil => simp
  | cons d w =>
    cases h : (d :: w).getLast? with
    | none => simp at h
    | some e => simp [List.getLast?_cons_cons, h]

theorem nullable_iff (r : RE) (p n : Option Ch) : nullable r p n = true ↔ Matches r p [] n := by
  induction r with
  | empty => simp [nullable]; intro h; cases h
  | eps => simp [nullable]; exact .eps
  | cls f => simp [nullable]; intro h; cases h
  | anchor k =>
    simp only [nullable]
    constructor
    · exact fun h => .anchor h
    · intro h; cases h; assumption
  | cat a b iha ihb =>
    simp only [nullable, Bool.and_eq_true, iha, ihb]
    constructor
    · rintro ⟨h1, h2⟩
      have := Matches.cat (w1 := []) (w2 := []) (n := n) h1 h2
      simpa using this
    · intro h
      generalize hw : ([] : List Ch) = w at h
      cases h with
      | cat h1 h2 =>
        rename_i w1 w2
        have : w1 = [] ∧ w2 = [] := by simpa using hw.symm
        obtain ⟨rfl, rfl⟩ := this
        exact ⟨by simpa using h1, by simpa using h2⟩
  | alt a b iha ihb =>
    simp only [nullable, Bool.or_eq_true, iha, ihb]
    constructor
    · rintro (h | h)
      · exact .altL h
      · exact .altR h
    · intro h
      cases h with
      | altL h => exact .inl h
      | altR h => exact .inr h
  | star a _ => simp [nullable]; exact .starNil

theorem matches_empty {p w n} : ¬ Matches .empty p w n := by intro h; cases h

theorem mkCat_iff (a b : RE) (p : Option Ch) (w : List Ch) (n : Option Ch) :
    Matches (mkCat a b) p w n ↔ Matches (.cat a b) p w n := by
  unfold mkCat
  split
  · constructor
    · intro h; cases h
    · intro h; cases h with | cat h1 _ => cases h1
  · constructor
    · intro h; cases h
    · intro h; cases h with | cat _ h2 => cases h2
  · constructor
    · intro h
      have := Matches.cat (a := .eps) (w1 := []) (p := p) (n := n) (w2 := w) .eps (by simpa using h)
      simpa using this
    · intro h
      generalize hr : RE.cat .eps b = r at h
      cases h with
      | cat h1 h2 =>
        cases hr
        cases h1
        simpa using h2
      | _ => cases hr
  · rfl

theorem mkAlt_iff (a b : RE) (p : Option Ch) (w : List Ch) (n : Option Ch) :
    Matches (mkAlt a b) p w n ↔ Matches (.alt a b) p w n := by
  unfold mkAlt
  split
  · constructor
    · exact fun h => .altR h
    · intro h; cases h with
      | altL h => cases h
      | altR h => exact h
  · constructor
    · exact fun h => .altL h
    · intro h; cases h with
      | altL h => exact h
      | altR h => cases h
  · rfl

/-- inversion of a star match on a non-empty word: the first non-empty iteration -/
theorem star_cons_inv {a : RE} {p : Option Ch} {c : Ch} {w : List Ch} {n : Option Ch}
    (h : Matches (.star a) p (c :: w) n) :
    ∃ w1 w2, w = w1 ++ w2 ∧ Matches a p (c :: w1) (ctxR w2 n) ∧ Matches (.star a) (ctxL p (c :: w1)) w2 n := by
  generalize hr : RE.star a = r at h
  generalize hx : c :: w = x at h
  induction h generalizing w with
  | @starCons a' p' w1 w2 n' h1 h2 _ ih2 =>
    cases hr
    cases w1 with
    | nil =>
      simp at hx
      exact ih2 rfl (by simpa using hx)
    | cons d w1' =>
      simp at hx
      obtain ⟨rfl, rfl⟩ := hx
      exact ⟨w1', w2, rfl, h1, h2⟩
  | starNil => cases hx
  | _ => cases hr

theorem deriv_iff (r : RE) (p : Option Ch) (c : Ch) (w : List Ch) (n : Option Ch) :
    Matches (deriv p c r) (some c) w n ↔ Matches r p (c :: w) n := by
  induction r generalizing w n with
  | empty => simp [deriv]; constructor <;> (intro h; cases h)
  | eps => simp [deriv]; constructor <;> (intro h; cases h)
  | anchor k => simp [deriv]; constructor <;> (intro h; cases h)
  | cls f =>
    simp only [deriv]
    constructor
    · intro h
      split at h
      · cases h; exact .cls (by assumption)
      · cases h
    · intro h
      cases h with
      | cls hf => simp [hf]; exact .eps
  | alt a b iha ihb =>
    simp only [deriv, mkAlt_iff]
    constructor
    · intro h
      cases h with
      | altL h => exact .altL ((iha w n).1 h)
      | altR h => exact .altR ((ihb w n).1 h)
    · intro h
      cases h with
      | altL h => exact .altL ((iha w n).2 h)
      | altR h => exact .altR ((ihb w n).2 h)
  | cat a b iha ihb =>
    simp only [deriv, mkAlt_iff]
    constructor
    · intro h
      cases h with
      | altL h =>
        rw [mkCat_iff] at h
        cases h with
        | cat h1 h2 =>
          rename_i w1 w2
          have h1' := (iha w1 _).1 h1
          have := Matches.cat (b := b) h1' (by rw [ctxL_cons]; exact h2)
          simpa using this
      | altR h =>
        split at h
        · rename_i hn
          have h0 := (nullable_iff a p (some c)).1 hn
          have h2 := (ihb w n).1 h
          have := Matches.cat (w1 := []) (w2 := c :: w) (n := n) (by simpa using h0) (by simpa using h2)
          simpa using this
        · cases h
    · intro h
      generalize hx : c :: w = x at h
      cases h with
      | cat h1 h2 =>
        rename_i w1 w2
        cases w1 with
        | nil =>
          simp at hx
          subst hx
          apply Matches.altR
          have hn : nullable a p (some c) = true := (nullable_iff a p (some c)).2 (by simpa using h1)
          simp only [hn, if_true]
          exact (ihb w n).2 (by simpa using h2)
        | cons d w1' =>
          simp at hx
          obtain ⟨rfl, rfl⟩ := hx
          apply Matches.altL
          rw [mkCat_iff]
          exact Matches.cat ((iha w1' _).2 h1) (by rw [← ctxL_cons]; exact h2)
  | star a iha =>
    simp only [deriv, mkCat_iff]
    constructor
    · intro h
      cases h with
      | cat h1 h2 =>
        rename_i w1 w2
        have h1' := (iha w1 _).1 h1
        have := Matches.starCons h1' (by rw [ctxL_cons]; exact h2)
        simpa using this
    · intro h
      obtain ⟨w1, w2, rfl, h1, h2⟩ := star_cons_inv h
      exact Matches.cat ((iha w1 _).2 h1) (by rw [← ctxL_cons]; exact h2)

theorem derivMatch_iff (r : RE) (p : Option Ch) (w : List Ch) (n : Option Ch) :
    derivMatch r p w n = true ↔ Matches r p w n := by
  induction w generalizing r p with
  | nil => simp [derivMatch, nullable_iff]
  | cons c w ih => simp only [derivMatch, ih, deriv_iff]



/-! ### unanchored search -/

theorem star_any (p : Option Ch) (w : List Ch) (n : Option Ch) : Matches (.star anyCh) p w n := by
  induction w generalizing p with
  | nil => exact .starNil
  | cons c w ih =>
    have h1 : Matches anyCh p [c] (ctxR w n) := .cls rfl
    have := Matches.starCons h1 (ih (ctxL p [c]))
    simpa using this

theorem ctxL_getLast (pre : List Ch) : ctxL none pre = pre.getLast? := by
  unfold ctxL; cases pre.getLast? <;> rfl

theorem ctxR_head (post : List Ch) : ctxR post none = post.head? := by
  unfold ctxR; cases post.head? <;> rfl

theorem searchRE_iff (r : RE) (s : List Ch) : Matches (searchRE r) none s none ↔ Search r s := by
  unfold searchRE Search
  constructor
  · intro h
    cases h with
    | cat h1 h2 =>
      rename_i pre rest
      cases h2 with
      | cat h3 h4 =>
        rename_i w post
        refine ⟨pre, w, post, rfl, ?_⟩
        rw [ctxL_getLast, ctxR_head] at h3
        exact h3
  · rintro ⟨pre, w, post, rfl, h⟩
    refine Matches.cat (star_any _ _ _) (Matches.cat ?_ (star_any _ _ _))
    rw [ctxL_getLast, ctxR_head]
    exact h

/-! ### counted repetition -/

theorem ctxL_append (p : Option Ch) (u v : List Ch) : ctxL p (u ++ v) = ctxL (ctxL p u) v := by
  unfold ctxL
  cases v with
  | nil => simp
  | cons c v =>
    have : (u ++ c :: v).getLast? = (c :: v).getLast? := by
      rw [List.getLast?_append]; cases h : (c :: v).getLast? with
      | none => simp at h
      | some e => simp
    rw [this]
    cases h : (c :: v).getLast? with
    | none => simp at h
    | some e => rfl

theorem ctxR_append (u v : List Ch) (n : Option Ch) : ctxR (u ++ v) n = ctxR u (ctxR v n) := by
  unfold ctxR
  cases u with
  | nil => simp
  | cons c u => simp

theorem cat_iff (a b : RE) (p : Option Ch) (w : List Ch) (n : Option Ch) :
    Matches (.cat a b) p w n ↔
      ∃ w1 w2, w = w1 ++ w2 ∧ Matches a p w1 (ctxR w2 n) ∧ Matches b (ctxL p w1) w2 n := by
  constructor
  · intro h
    cases h with
    | cat h1 h2 => exact ⟨_, _, rfl, h1, h2⟩
  · rintro ⟨w1, w2, rfl, h1, h2⟩
    exact .cat h1 h2

theorem eps_iff (p : Option Ch) (w : List Ch) (n : Option Ch) : Matches .eps p w n ↔ w = [] := by
  constructor
  · intro h; cases h; rfl
  · rintro rfl; exact .eps

theorem repN_iff (r : RE) (k : Nat) (p : Option Ch) (w : List Ch) (n : Option Ch) :
    Matches (repN r k) p w n ↔ Pow r k p w n := by
  induction k generalizing p w with
  | zero => simp [repN, Pow, eps_iff]
  | succ k ih =>
    simp only [repN, Pow, cat_iff]
    constructor
    · rintro ⟨w1, w2, rfl, h1, h2⟩; exact ⟨w1, w2, rfl, h1, (ih _ _).1 h2⟩
    · rintro ⟨w1, w2, rfl, h1, h2⟩; exact ⟨w1, w2, rfl, h1, (ih _ _).2 h2⟩

theorem repOpt_iff (r : RE) (k : Nat) (p : Option Ch) (w : List Ch) (n : Option Ch) :
    Matches (repOpt r k) p w n ↔ ∃ j, j ≤ k ∧ Pow r j p w n := by
  induction k generalizing p w with
  | zero =>
    simp only [repOpt, eps_iff]
    constructor
    · intro h; exact ⟨0, Nat.le_refl _, h⟩
    · rintro ⟨j, hj, h⟩
      have : j = 0 := by omega
      subst this; exact h
  | succ k ih =>
    simp only [repOpt]
    constructor
    · intro h
      cases h with
      | altL h => exact ⟨0, Nat.zero_le _, (eps_iff _ _ _).1 h⟩
      | altR h =>
        obtain ⟨w1, w2, rfl, h1, h2⟩ := (cat_iff _ _ _ _ _).1 h
        obtain ⟨j, hj, hp⟩ := (ih _ _).1 h2
        exact ⟨j + 1, by omega, w1, w2, rfl, h1, hp⟩
    · rintro ⟨j, hj, h⟩
      cases j with
      | zero => exact .altL ((eps_iff _ _ _).2 h)
      | succ j =>
        obtain ⟨w1, w2, rfl, h1, hp⟩ := h
        exact .altR ((cat_iff _ _ _ _ _).2 ⟨w1, w2, rfl, h1, (ih _ _).2 ⟨j, by omega, hp⟩⟩)

theorem star_of_pow (r : RE) (j : Nat) (p : Option Ch) (w : List Ch) (n : Option Ch)
    (h : Pow r j p w n) : Matches (.star r) p w n := by
  induction j generalizing p w with
  | zero => cases h; exact .starNil
  | succ j ih =>
    obtain ⟨w1, w2, rfl, h1, hp⟩ := h
    exact .starCons h1 (ih _ _ hp)

theorem pow_of_star (r : RE) (p : Option Ch) (w : List Ch) (n : Option Ch)
    (h : Matches (.star r) p w n) : ∃ j, Pow r j p w n := by
  generalize hs : RE.star r = s at h
  induction h with
  | starNil => exact ⟨0, rfl⟩
  | @starCons a p' w1 w2 n' h1 _ _ ih2 =>
    cases hs
    obtain ⟨j, hj⟩ := ih2 rfl
    exact ⟨j + 1, w1, w2, rfl, h1, hj⟩
  | _ => cases hs

theorem pow_add (r : RE) (i j : Nat) (p : Option Ch) (w1 w2 : List Ch) (n : Option Ch)
    (h1 : Pow r i p w1 (ctxR w2 n)) (h2 : Pow r j (ctxL p w1) w2 n) : Pow r (i + j) p (w1 ++ w2) n := by
  induction i generalizing p w1 with
  | zero =>
    cases h1
    simpa using h2
  | succ i ih =>
    obtain ⟨u, v, rfl, hu, hv⟩ := h1
    rw [Nat.succ_add]
    refine ⟨u, v ++ w2, by simp, ?_, ?_⟩
    · rw [ctxR_append]; exact hu
    · exact ih _ _ hv (by rw [← ctxL_append]; exact h2)

theorem pow_split (r : RE) (i j : Nat) (p : Option Ch) (w : List Ch) (n : Option Ch)
    (h : Pow r (i + j) p w n) :
    ∃ w1 w2, w = w1 ++ w2 ∧ Pow r i p w1 (ctxR w2 n) ∧ Pow r j (ctxL p w1) w2 n := by
  induction i generalizing p w with
  | zero => exact ⟨[], w, by simp, rfl, by simpa using h⟩
  | succ i ih =>
    rw [Nat.succ_add] at h
    obtain ⟨u, v, rfl, hu, hv⟩ := h
    obtain ⟨v1, v2, rfl, h1, h2⟩ := ih _ _ hv
    refine ⟨u ++ v1, v2, by simp, ⟨u, v1, rfl, ?_, h1⟩, ?_⟩
    · rw [← ctxR_append]; exact hu
    · rw [ctxL_append]; exact h2

/-- [67]-[71]: `r{lo,hi}` / `r{lo,}` matches exactly the words made of `k` consecutive matches
of `r` for some `lo ≤ k (≤ hi)` -/
theorem rep_iff (r : RE) (lo : Nat) (hi : Option Nat) (hle : ∀ m, hi = some m → lo ≤ m)
    (p : Option Ch) (w : List Ch) (n : Option Ch) :
    Matches (rep r lo hi) p w n ↔ ∃ k, lo ≤ k ∧ (∀ m, hi = some m → k ≤ m) ∧ Pow r k p w n := by
  cases hi with
  | none =>
    simp only [rep, cat_iff]
    constructor
    · rintro ⟨w1, w2, rfl, h1, h2⟩
      obtain ⟨j, hj⟩ := pow_of_star _ _ _ _ h2
      exact ⟨lo + j, by omega, by simp, pow_add _ _ _ _ _ _ _ ((repN_iff _ _ _ _ _).1 h1) hj⟩
    · rintro ⟨k, hk, _, h⟩
      obtain ⟨j, rfl⟩ : ∃ j, k = lo + j := ⟨k - lo, by omega⟩
      obtain ⟨w1, w2, rfl, h1, h2⟩ := pow_split _ _ _ _ _ _ h
      exact ⟨w1, w2, rfl, (repN_iff _ _ _ _ _).2 h1, star_of_pow _ _ _ _ _ h2⟩
  | some m =>
    have hlm := hle m rfl
    simp only [rep, cat_iff]
    constructor
    · rintro ⟨w1, w2, rfl, h1, h2⟩
      obtain ⟨j, hjm, hj⟩ := (repOpt_iff _ _ _ _ _).1 h2
      refine ⟨lo + j, by omega, ?_, pow_add _ _ _ _ _ _ _ ((repN_iff _ _ _ _ _).1 h1) hj⟩
      intro m' hm'; cases hm'; omega
    · rintro ⟨k, hk, hkm, h⟩
      have := hkm m rfl
      obtain ⟨j, rfl⟩ : ∃ j, k = lo + j := ⟨k - lo, by omega⟩
      obtain ⟨w1, w2, rfl, h1, h2⟩ := pow_split _ _ _ _ _ _ h
      exact ⟨w1, w2, rfl, (repN_iff _ _ _ _ _).2 h1, (repOpt_iff _ _ _ _ _).2 ⟨j, by omega, h2⟩⟩


/-! ### prefix matches (leftmost start) -/

theorem prefixMatch_iff (r : RE) (p : Option Ch) (w : List Ch) (n : Option Ch) :
    prefixMatch r p w n = true ↔ ∃ u v, w = u ++ v ∧ Matches r p u (ctxR v n) := by
  induction w generalizing r p with
  | nil =>
    simp only [prefixMatch, nullable_iff]
    constructor
    · intro h; exact ⟨[], [], rfl, h⟩
    · rintro ⟨u, v, h, hm⟩
      have : u = [] ∧ v = [] := by simpa using h.symm
      obtain ⟨rfl, rfl⟩ := this
      exact hm
  | cons c w ih =>
    simp only [prefixMatch, Bool.or_eq_true, nullable_iff, ih, deriv_iff]
    constructor
    · rintro (h | ⟨u, v, rfl, hm⟩)
      · exact ⟨[], c :: w, rfl, h⟩
      · exact ⟨c :: u, v, rfl, hm⟩
    · rintro ⟨u, v, h, hm⟩
      cases u with
      | nil =>
        simp at h; subst h
        exact .inl hm
      | cons d u =>
        simp at h
        obtain ⟨rfl, rfl⟩ := h
        exact .inr ⟨u, v, rfl, hm⟩


/-- `lmsGo` finds a position where a match starts, and no match starts before it -/
theorem lmsGo_some (r : RE) (w : List Ch) (p : Option Ch) (i j : Nat) (h : lmsGo r p w i = some j) :
    ∃ u v, w = u ++ v ∧ j = i + u.length ∧ prefixMatch r (ctxL p u) v none = true ∧
      ∀ u' v', w = u' ++ v' → u'.length < u.length → prefixMatch r (ctxL p u') v' none = false := by
  induction w generalizing p i with
  | nil =>
    simp only [lmsGo] at h
    split at h
    · rename_i hn
      cases h
      refine ⟨[], [], rfl, rfl, by simpa [prefixMatch] using hn, ?_⟩
      intro u' v' _ hl; simp at hl
    · cases h
  | cons c w ih =>
    simp only [lmsGo] at h
    split at h
    · rename_i hm
      cases h
      refine ⟨[], c :: w, rfl, rfl, by simpa using hm, ?_⟩
      intro u' v' _ hl; simp at hl
    · rename_i hm
      obtain ⟨u, v, rfl, hj, hpm, hmin⟩ := ih (some c) (i + 1) h
      refine ⟨c :: u, v, rfl, by simp [hj]; omega, by rw [ctxL_cons]; exact hpm, ?_⟩
      intro u' v' heq hl
      cases u' with
      | nil =>
        simp at heq; subst heq
        simpa using hm
      | cons d u'' =>
        simp at heq
        obtain ⟨rfl, heq⟩ := heq
        rw [ctxL_cons]
        exact hmin u'' v' heq (by simpa using hl)

/-- `lmsGo` answers `none` only if no match starts anywhere -/
theorem lmsGo_none (r : RE) (w : List Ch) (p : Option Ch) (i : Nat) (h : lmsGo r p w i = none) :
    ∀ u v, w = u ++ v → prefixMatch r (ctxL p u) v none = false := by
  induction w generalizing p i with
  | nil =>
    intro u v heq
    have : u = [] ∧ v = [] := by simpa using heq.symm
    obtain ⟨rfl, rfl⟩ := this
    simp only [lmsGo] at h
    split at h
    · cases h
    · rename_i hn; simpa [prefixMatch] using hn
  | cons c w ih =>
    simp only [lmsGo] at h
    split at h
    · cases h
    · rename_i hm
      intro u v heq
      cases u with
      | nil => simp at heq; subst heq; simpa using hm
      | cons d u' =>
        simp at heq
        obtain ⟨rfl, heq⟩ := heq
        rw [ctxL_cons]
        exact ih _ (i + 1) h u' v heq


/-! ### back-reference resolution -/

theorem digitsVal_append_single (l : List Nat) (d : Nat) : digitsVal (l ++ [d]) = digitsVal l * 10 + d := by
  simp [digitsVal, List.foldl_append]

theorem take_succ_eq (l : List Nat) (k : Nat) (h : k < l.length) : l.take (k + 1) = l.take k ++ [l[k]] := by
  rw [List.take_add_one]
  simp [h]

theorem digitsVal_take_mono (l : List Nat) (j : Nat) : digitsVal (l.take j) ≤ digitsVal (l.take (j + 1)) := by
  by_cases h : j < l.length
  · rw [take_succ_eq l j h, digitsVal_append_single]; omega
  · have h1 : l.take j = l := List.take_of_length_le (by omega)
    have h2 : l.take (j + 1) = l := List.take_of_length_le (by omega)
    rw [h1, h2]; exact Nat.le_refl _

theorem digitsVal_take_mono' (l : List Nat) {i j : Nat} (h : i ≤ j) : digitsVal (l.take i) ≤ digitsVal (l.take j) := by
  induction j with
  | zero => have : i = 0 := by omega
            subst this; exact Nat.le_refl _
  | succ j ih =>
    by_cases hij : i ≤ j
    · exact Nat.le_trans (ih hij) (digitsVal_take_mono l j)
    · have : i = j + 1 := by omega
      subst this; exact Nat.le_refl _

/-- what the loop computes: every prefix up to the result is within the group count, the next one is not -/
theorem brLoop_spec (g : Nat) (digits : List Nat) :
    ∀ (rest : List Nat) (k : Nat), k ≤ digits.length → digits.drop k = rest →
      let k' := brLoop g (digitsVal (digits.take k)) k rest
      k ≤ k' ∧ k' ≤ digits.length ∧
      (∀ j, k < j → j ≤ k' → digitsVal (digits.take j) ≤ g) ∧
      (k' < digits.length → g < digitsVal (digits.take (k' + 1))) := by
  intro rest
  induction rest with
  | nil =>
    intro k hk hd
    have : k = digits.length := by
      have := congrArg List.length hd
      simp at this; omega
    simp only [brLoop]
    exact ⟨Nat.le_refl _, hk, fun j h1 h2 => by omega, fun h => by omega⟩
  | cons d r ih =>
    intro k hk hd
    have hlt : k < digits.length := by
      have := congrArg List.length hd
      simp at this; omega
    have hdk : digits[k] = d := by
      have := List.drop_eq_getElem_cons hlt
      rw [this] at hd
      exact (List.cons.inj hd).1
    have hdr : digits.drop (k + 1) = r := by
      have := List.drop_eq_getElem_cons hlt
      rw [this] at hd
      exact (List.cons.inj hd).2
    have hval : digitsVal (digits.take (k + 1)) = digitsVal (digits.take k) * 10 + d := by
      rw [take_succ_eq digits k hlt, digitsVal_append_single, hdk]
    simp only [brLoop]
    split
    · rename_i hg
      refine ⟨Nat.le_refl _, hk, fun j h1 h2 => by omega, fun _ => ?_⟩
      rw [hval]; exact hg
    · rename_i hg
      have ih' := ih (k + 1) (by omega) hdr
      rw [hval] at ih'
      obtain ⟨h1, h2, h3, h4⟩ := ih'
      refine ⟨by omega, h2, ?_, h4⟩
      intro j hj1 hj2
      by_cases hj : j = k + 1
      · subst hj; rw [hval]; omega
      · exact h3 j (by omega) hj2

theorem bestPrefix_eq (g : Nat) (digits : List Nat) (k' n : Nat) (hk1 : 1 ≤ k')
    (hin : ∀ j, 1 < j → j ≤ k' → digitsVal (digits.take j) ≤ g)
    (hout : ∀ j, k' < j → j ≤ n → g < digitsVal (digits.take j)) :
    ∀ j, k' ≤ j → j ≤ n → bestPrefix g digits j = k' := by
  intro j
  induction j with
  | zero => intro h; omega
  | succ j ih =>
    intro hj hjn
    cases j with
    | zero =>
      have : k' = 1 := by omega
      subst this; rfl
    | succ j =>
      simp only [bestPrefix]
      by_cases hk : k' = j + 2
      · subst hk
        have := hin (j + 2) (by omega) (Nat.le_refl _)
        simp [this]
      · have := hout (j + 2) (by omega) hjn
        have hn : ¬ digitsVal (digits.take (j + 2)) ≤ g := by omega
        simp only [hn, if_false]
        exact ih (by omega) (by omega)

/-- the implementation's resolution loop computes the F&O resolution, for every digit string and
every number of groups opened so far -/
theorem resolveM_eq_resolveS (digits : List Nat) (g : Nat) (hne : digits ≠ []) :
    resolveM digits g = resolveS digits g := by
  cases digits with
  | nil => exact absurd rfl hne
  | cons d1 ds =>
    have hs := brLoop_spec g (d1 :: ds) ds 1 (by simp) (by simp)
    have hv : digitsVal ((d1 :: ds).take 1) = d1 := by simp [digitsVal]
    rw [hv] at hs
    obtain ⟨h1, h2, h3, h4⟩ := hs
    have hout : ∀ j, brLoop g d1 1 ds < j → j ≤ (d1 :: ds).length → g < digitsVal ((d1 :: ds).take j) := by
      intro j hj hjl
      exact Nat.lt_of_lt_of_le (h4 (by omega)) (digitsVal_take_mono' _ (by omega))
    have hb := bestPrefix_eq g (d1 :: ds) (brLoop g d1 1 ds) (d1 :: ds).length h1
      (fun j hj1 hj2 => h3 j hj1 hj2) hout (d1 :: ds).length h2 (Nat.le_refl _)
    simp only [resolveM, resolveS, hb, digitsVal]


end EPV.Regex

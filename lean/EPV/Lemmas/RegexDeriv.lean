/-
C12 helper lemmas: the Brzozowski-derivative matcher of `Spec/XsdRegex.lean` decides the
denotational language `Matches` (with one character of context on each side for `^`/`$`).
-/
import EPV.Spec.XsdRegex
namespace EPV.Regex

/-! lemmas -/
@[simp] theorem ctxL_nil (p : Option Ch) : ctxL p [] = p := rfl
@[simp] theorem ctxR_nil (n : Option Ch) : ctxR [] n = n := rfl
@[simp] theorem ctxR_cons (c : Ch) (w : List Ch) (n : Option Ch) : ctxR (c :: w) n = some c := rfl
theorem ctxL_cons (p : Option Ch) (c : Ch) (w : List Ch) : ctxL p (c :: w) = ctxL (some c) w := by
  unfold ctxL
  cases w with
  | nil => simp
  | cons d w =>
    cases h : (d :: w).getLast? with
    | none => simp at h
    | some e => simp [List.getLast?_cons_cons, h]

theorem nullable_iff (r : RE) (p n : Option Ch) : nullable r p n = true ↔ Matches r p [] n := by
  induction r with
  | empty => simp [nullable]; intro h; cases h
  | eps => simp [nullable]; exact .eps
  | cls f => simp [nullable]; intro h; cases h
  | anchor k =>
    simp only [nullable]
    constructor
    · exact fun h => .anchor h
    · intro h; cases h; assumption
  | cat a b iha ihb =>
    simp only [nullable, Bool.and_eq_true, iha, ihb]
    constructor
    · rintro ⟨h1, h2⟩
      have := Matches.cat (w1 := []) (w2 := []) (n := n) h1 h2
      simpa using this
    · intro h
      generalize hw : ([] : List Ch) = w at h
      cases h with
      | cat h1 h2 =>
        rename_i w1 w2
        have : w1 = [] ∧ w2 = [] := by simpa using hw.symm
        obtain ⟨rfl, rfl⟩ := this
        exact ⟨by simpa using h1, by simpa using h2⟩
  | alt a b iha ihb =>
    simp only [nullable, Bool.or_eq_true, iha, ihb]
    constructor
    · rintro (h | h)
      · exact .altL h
      · exact .altR h
    · intro h
      cases h with
      | altL h => exact .inl h
      | altR h => exact .inr h
  | star a _ => simp [nullable]; exact .starNil

theorem matches_empty {p w n} : ¬ Matches .empty p w n := by intro h; cases h

theorem mkCat_iff (a b : RE) (p : Option Ch) (w : List Ch) (n : Option Ch) :
    Matches (mkCat a b) p w n ↔ Matches (.cat a b) p w n := by
  unfold mkCat
  split
  · constructor
    · intro h; cases h
    · intro h; cases h with | cat h1 _ => cases h1
  · constructor
    · intro h; cases h
    · intro h; cases h with | cat _ h2 => cases h2
  · constructor
    · intro h
      have := Matches.cat (a := .eps) (w1 := []) (p := p) (n := n) (w2 := w) .eps (by simpa using h)
      simpa using this
    · intro h
      generalize hr : RE.cat .eps b = r at h
      cases h with
      | cat h1 h2 =>
        cases hr
        cases h1
        simpa using h2
      | _ => cases hr
  · rfl

theorem mkAlt_iff (a b : RE) (p : Option Ch) (w : List Ch) (n : Option Ch) :
    Matches (mkAlt a b) p w n ↔ Matches (.alt a b) p w n := by
  unfold mkAlt
  split
  · constructor
    · exact fun h => .altR h
    · intro h; cases h with
      | altL h => cases h
      | altR h => exact h
  · constructor
    · exact fun h => .altL h
    · intro h; cases h with
      | altL h => exact h
      | altR h => cases h
  · rfl

/-- inversion of a star match on a non-empty word: the first non-empty iteration -/
theorem star_cons_inv {a : RE} {p : Option Ch} {c : Ch} {w : List Ch} {n : Option Ch}
    (h : Matches (.star a) p (c :: w) n) :
    ∃ w1 w2, w = w1 ++ w2 ∧ Matches a p (c :: w1) (ctxR w2 n) ∧ Matches (.star a) (ctxL p (c :: w1)) w2 n := by
  generalize hr : RE.star a = r at h
  generalize hx : c :: w = x at h
  induction h generalizing w with
  | @starCons a' p' w1 w2 n' h1 h2 _ ih2 =>
    cases hr
    cases w1 with
    | nil =>
      simp at hx
      exact ih2 rfl (by simpa using hx)
    | cons d w1' =>
      simp at hx
      obtain ⟨rfl, rfl⟩ := hx
      exact ⟨w1', w2, rfl, h1, h2⟩
  | starNil => cases hx
  | _ => cases hr

theorem deriv_iff (r : RE) (p : Option Ch) (c : Ch) (w : List Ch) (n : Option Ch) :
    Matches (deriv p c r) (some c) w n ↔ Matches r p (c :: w) n := by
  induction r generalizing w n with
  | empty => simp [deriv]; constructor <;> (intro h; cases h)
  | eps => simp [deriv]; constructor <;> (intro h; cases h)
  | anchor k => simp [deriv]; constructor <;> (intro h; cases h)
  | cls f =>
    simp only [deriv]
    constructor
    · intro h
      split at h
      · cases h; exact .cls (by assumption)
      · cases h
    · intro h
      cases h with
      | cls hf => simp [hf]; exact .eps
  | alt a b iha ihb =>
    simp only [deriv, mkAlt_iff]
    constructor
    · intro h
      cases h with
      | altL h => exact .altL ((iha w n).1 h)
      | altR h => exact .altR ((ihb w n).1 h)
    · intro h
      cases h with
      | altL h => exact .altL ((iha w n).2 h)
      | altR h => exact .altR ((ihb w n).2 h)
  | cat a b iha ihb =>
    simp only [deriv, mkAlt_iff]
    constructor
    · intro h
      cases h with
      | altL h =>
        rw [mkCat_iff] at h
        cases h with
        | cat h1 h2 =>
          rename_i w1 w2
          have h1' := (iha w1 _).1 h1
          have := Matches.cat (b := b) h1' (by rw [ctxL_cons]; exact h2)
          simpa using this
      | altR h =>
        split at h
        · rename_i hn
          have h0 := (nullable_iff a p (some c)).1 hn
          have h2 := (ihb w n).1 h
          have := Matches.cat (w1 := []) (w2 := c :: w) (n := n) (by simpa using h0) (by simpa using h2)
          simpa using this
        · cases h
    · intro h
      generalize hx : c :: w = x at h
      cases h with
      | cat h1 h2 =>
        rename_i w1 w2
        cases w1 with
        | nil =>
          simp at hx
          subst hx
          apply Matches.altR
          have hn : nullable a p (some c) = true := (nullable_iff a p (some c)).2 (by simpa using h1)
          simp only [hn, if_true]
          exact (ihb w n).2 (by simpa using h2)
        | cons d w1' =>
          simp at hx
          obtain ⟨rfl, rfl⟩ := hx
          apply Matches.altL
          rw [mkCat_iff]
          exact Matches.cat ((iha w1' _).2 h1) (by rw [← ctxL_cons]; exact h2)
  | star a iha =>
    simp only [deriv, mkCat_iff]
    constructor
    · intro h
      cases h with
      | cat h1 h2 =>
        rename_i w1 w2
        have h1' := (iha w1 _).1 h1
        have := Matches.starCons h1' (by rw [ctxL_cons]; exact h2)
        simpa using this
    · intro h
      obtain ⟨w1, w2, rfl, h1, h2⟩ := star_cons_inv h
      exact Matches.cat ((iha w1 _).2 h1) (by rw [← ctxL_cons]; exact h2)

theorem derivMatch_iff (r : RE) (p : Option Ch) (w : List Ch) (n : Option Ch) :
    derivMatch r p w n = true ↔ Matches r p w n := by
  induction w generalizing r p with
  | nil => simp [derivMatch, nullable_iff]
  | cons c w ih => simp only [derivMatch, ih, deriv_iff]



/-! ### unanchored search -/

theorem star_any (p : Option Ch) (w : List Ch) (n : Option Ch) : Matches (.star anyCh) p w n := by
  induction w generalizing p with
  | nil => exact .starNil
  | cons c w ih =>
    have h1 : Matches anyCh p [c] (ctxR w n) := .cls rfl
    have := Matches.starCons h1 (ih (ctxL p [c]))
    simpa using this

theorem ctxL_getLast (pre : List Ch) : ctxL none pre = pre.getLast? := by
  unfold ctxL; cases pre.getLast? <;> rfl

theorem ctxR_head (post : List Ch) : ctxR post none = post.head? := by
  unfold ctxR; cases post.head? <;> rfl

theorem searchRE_iff (r : RE) (s : List Ch) : Matches (searchRE r) none s none ↔ Search r s := by
  unfold searchRE Search
  constructor
  · intro h
    cases h with
    | cat h1 h2 =>
      rename_i pre rest
      cases h2 with
      | cat h3 h4 =>
        rename_i w post
        refine ⟨pre, w, post, rfl, ?_⟩
        rw [ctxL_getLast, ctxR_head] at h3
        exact h3
  · rintro ⟨pre, w, post, rfl, h⟩
    refine Matches.cat (star_any _ _ _) (Matches.cat ?_ (star_any _ _ _))
    rw [ctxL_getLast, ctxR_head]
    exact h

/-! ### counted repetition -/

theorem ctxL_append (p : Option Ch) (u v : List Ch) : ctxL p (u ++ v) = ctxL (ctxL p u) v := by
  unfold ctxL
  cases v with
  | nil => simp
  | cons c v =>
    have : (u ++ c :: v).getLast? = (c :: v).getLast? := by
      rw [List.getLast?_append]; cases h : (c :: v).getLast? with
      | none => simp at h
      | some e => simp
    rw [this]
    cases h : (c :: v).getLast? with
    | none => simp at h
    | some e => rfl

theorem ctxR_append (u v : List Ch) (n : Option Ch) : ctxR (u ++ v) n = ctxR u (ctxR v n) := by
  unfold ctxR
  cases u with
  | nil => simp
  | cons c u => simp

theorem cat_iff (a b : RE) (p : Option Ch) (w : List Ch) (n : Option Ch) :
    Matches (.cat a b) p w n ↔
      ∃ w1 w2, w = w1 ++ w2 ∧ Matches a p w1 (ctxR w2 n) ∧ Matches b (ctxL p w1) w2 n := by
  constructor
  · intro h
    cases h with
    | cat h1 h2 => exact ⟨_, _, rfl, h1, h2⟩
  · rintro ⟨w1, w2, rfl, h1, h2⟩
    exact .cat h1 h2

theorem eps_iff (p : Option Ch) (w : List Ch) (n : Option Ch) : Matches .eps p w n ↔ w = [] := by
  constructor
  · intro h; cases h; rfl
  · rintro rfl; exact .eps

theorem repN_iff (r : RE) (k : Nat) (p : Option Ch) (w : List Ch) (n : Option Ch) :
    Matches (repN r k) p w n ↔ Pow r k p w n := by
  induction k generalizing p w with
  | zero => simp [repN, Pow, eps_iff]
  | succ k ih =>
    simp only [repN, Pow, cat_iff]
    constructor
    · rintro ⟨w1, w2, rfl, h1, h2⟩; exact ⟨w1, w2, rfl, h1, (ih _ _).1 h2⟩
    · rintro ⟨w1, w2, rfl, h1, h2⟩; exact ⟨w1, w2, rfl, h1, (ih _ _).2 h2⟩

theorem repOpt_iff (r : RE) (k : Nat) (p : Option Ch) (w : List Ch) (n : Option Ch) :
    Matches (repOpt r k) p w n ↔ ∃ j, j ≤ k ∧ Pow r j p w n := by
  induction k generalizing p w with
  | zero =>
    simp only [repOpt, eps_iff]
    constructor
    · intro h; exact ⟨0, Nat.le_refl _, h⟩
    · rintro ⟨j, hj, h⟩
      have : j = 0 := by omega
      subst this; exact h
  | succ k ih =>
    simp only [repOpt]
    constructor
    · intro h
      cases h with
      | altL h => exact ⟨0, Nat.zero_le _, (eps_iff _ _ _).1 h⟩
      | altR h =>
        obtain ⟨w1, w2, rfl, h1, h2⟩ := (cat_iff _ _ _ _ _).1 h
        obtain ⟨j, hj, hp⟩ := (ih _ _).1 h2
        exact ⟨j + 1, by omega, w1, w2, rfl, h1, hp⟩
    · rintro ⟨j, hj, h⟩
      cases j with
      | zero => exact .altL ((eps_iff _ _ _).2 h)
      | succ j =>
        obtain ⟨w1, w2, rfl, h1, hp⟩ := h
        exact .altR ((cat_iff _ _ _ _ _).2 ⟨w1, w2, rfl, h1, (ih _ _).2 ⟨j, by omega, hp⟩⟩)

theorem star_of_pow (r : RE) (j : Nat) (p : Option Ch) (w : List Ch) (n : Option Ch)
    (h : Pow r j p w n) : Matches (.star r) p w n := by
  induction j generalizing p w with
  | zero => cases h; exact .starNil
  | succ j ih =>
    obtain ⟨w1, w2, rfl, h1, hp⟩ := h
    exact .starCons h1 (ih _ _ hp)

theorem pow_of_star (r : RE) (p : Option Ch) (w : List Ch) (n : Option Ch)
    (h : Matches (.star r) p w n) : ∃ j, Pow r j p w n := by
  generalize hs : RE.star r = s at h
  induction h with
  | starNil => exact ⟨0, rfl⟩
  | @starCons a p' w1 w2 n' h1 _ _ ih2 =>
    cases hs
    obtain ⟨j, hj⟩ := ih2 rfl
    exact ⟨j + 1, w1, w2, rfl, h1, hj⟩
  | _ => cases hs

theorem pow_add (r : RE) (i j : Nat) (p : Option Ch) (w1 w2 : List Ch) (n : Option Ch)
    (h1 : Pow r i p w1 (ctxR w2 n)) (h2 : Pow r j (ctxL p w1) w2 n) : Pow r (i + j) p (w1 ++ w2) n := by
  induction i generalizing p w1 with
  | zero =>
    cases h1
    simpa using h2
  | succ i ih =>
    obtain ⟨u, v, rfl, hu, hv⟩ := h1
    rw [Nat.succ_add]
    refine ⟨u, v ++ w2, by simp, ?_, ?_⟩
    · rw [ctxR_append]; exact hu
    · exact ih _ _ hv (by rw [← ctxL_append]; exact h2)

theorem pow_split (r : RE) (i j : Nat) (p : Option Ch) (w : List Ch) (n : Option Ch)
    (h : Pow r (i + j) p w n) :
    ∃ w1 w2, w = w1 ++ w2 ∧ Pow r i p w1 (ctxR w2 n) ∧ Pow r j (ctxL p w1) w2 n := by
  induction i generalizing p w with
  | zero => exact ⟨[], w, by simp, rfl, by simpa using h⟩
  | succ i ih =>
    rw [Nat.succ_add] at h
    obtain ⟨u, v, rfl, hu, hv⟩ := h
    obtain ⟨v1, v2, rfl, h1, h2⟩ := ih _ _ hv
    refine ⟨u ++ v1, v2, by simp, ⟨u, v1, rfl, ?_, h1⟩, ?_⟩
    · rw [← ctxR_append]; exact hu
    · rw [ctxL_append]; exact h2

/-- [67]-[71]: `r{lo,hi}` / `r{lo,}` matches exactly the words made of `k` consecutive matches
of `r` for some `lo ≤ k (≤ hi)` -/
theorem rep_iff (r : RE) (lo : Nat) (hi : Option Nat) (hle : ∀ m, hi = some m → lo ≤ m)
    (p : Option Ch) (w : List Ch) (n : Option Ch) :
    Matches (rep r lo hi) p w n ↔ ∃ k, lo ≤ k ∧ (∀ m, hi = some m → k ≤ m) ∧ Pow r k p w n := by
  cases hi with
  | none =>
    simp only [rep, cat_iff]
    constructor
    · rintro ⟨w1, w2, rfl, h1, h2⟩
      obtain ⟨j, hj⟩ := pow_of_star _ _ _ _ h2
      exact ⟨lo + j, by omega, by simp, pow_add _ _ _ _ _ _ _ ((repN_iff _ _ _ _ _).1 h1) hj⟩
    · rintro ⟨k, hk, _, h⟩
      obtain ⟨j, rfl⟩ : ∃ j, k = lo + j := ⟨k - lo, by omega⟩
      obtain ⟨w1, w2, rfl, h1, h2⟩ := pow_split _ _ _ _ _ _ h
      exact ⟨w1, w2, rfl, (repN_iff _ _ _ _ _).2 h1, star_of_pow _ _ _ _ _ h2⟩
  | some m =>
    have hlm := hle m rfl
    simp only [rep, cat_iff]
    constructor
    · rintro ⟨w1, w2, rfl, h1, h2⟩
      obtain ⟨j, hjm, hj⟩ := (repOpt_iff _ _ _ _ _).1 h2
      refine ⟨lo + j, by omega, ?_, pow_add _ _ _ _ _ _ _ ((repN_iff _ _ _ _ _).1 h1) hj⟩
      intro m' hm'; cases hm'; omega
    · rintro ⟨k, hk, hkm, h⟩
      have := hkm m rfl
      obtain ⟨j, rfl⟩ : ∃ j, k = lo + j := ⟨k - lo, by omega⟩
      obtain ⟨w1, w2, rfl, h1, h2⟩ := pow_split _ _ _ _ _ _ h
      exact ⟨w1, w2, rfl, (repN_iff _ _ _ _ _).2 h1, (repOpt_iff _ _ _ _ _).2 ⟨j, by omega, h2⟩⟩


end EPV.Regex

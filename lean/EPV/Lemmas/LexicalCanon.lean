/-
C10 helper lemmas: canonical string of decimals (`string_value(Decimal)`): re-parses to an equal value
and is a fixed point.
-/
import EPV.Lemmas.LexicalDbl
namespace EPV.LexLemmas
open EPV

/-- a Decimal as the constructor builds it from a literal: digit strings, not both empty -/
def WFDec (d : Lex.PyDec) : Prop :=
  (∀ c ∈ d.ip, Lex.isDigit c = true) ∧ (∀ c ∈ d.fp, Lex.isDigit c = true) ∧ (d.ip ≠ [] ∨ d.fp ≠ [])

/-- integer part of the canonical form -/
def canonI (d : Lex.PyDec) : List Char :=
  if (Lex.stripLead0 d.ip).isEmpty then ['0'] else Lex.stripLead0 d.ip
/-- fraction part of the canonical form -/
def canonF (d : Lex.PyDec) : List Char := Lex.stripTrail0 d.fp
def canonBody (d : Lex.PyDec) : List Char :=
  if (canonF d).isEmpty then canonI d else canonI d ++ '.' :: canonF d

theorem decCanon_eq (d : Lex.PyDec) :
    Lex.decCanon d = if d.neg && !(canonBody d == ['0']) then '-' :: canonBody d else canonBody d := by
  unfold Lex.decCanon canonBody canonI canonF
  rfl

theorem canonI_digits (d : Lex.PyDec) (h : WFDec d) : canonI d ≠ [] ∧ ∀ c ∈ canonI d, Lex.isDigit c = true := by
  unfold canonI
  split
  · exact ⟨by simp, by intro c hc; simp at hc; subst hc; decide⟩
  · rename_i hne
    refine ⟨by simpa using hne, ?_⟩
    intro c hc
    exact h.1 c ((List.dropWhile_sublist _).mem hc)

theorem canonF_digits (d : Lex.PyDec) (h : WFDec d) : ∀ c ∈ canonF d, Lex.isDigit c = true := by
  intro c hc
  unfold canonF Lex.stripTrail0 at hc
  have := (List.dropWhile_sublist _).mem (List.mem_reverse.mp hc)
  exact h.2.1 c (List.mem_reverse.mp this)

theorem canonBody_valid (d : Lex.PyDec) (h : WFDec d) : validMant (canonBody d) = true := by
  obtain ⟨hne, hi⟩ := canonI_digits d h
  unfold canonBody
  split
  · exact validMant_of_digits _ hne hi
  · exact validMant_of_point _ _ hi (canonF_digits d h) (Or.inl hne)

theorem canonBody_head_digit (d : Lex.PyDec) (h : WFDec d) :
    ∃ c r, canonBody d = c :: r ∧ Lex.isDigit c = true := by
  obtain ⟨hne, hi⟩ := canonI_digits d h
  cases hI : canonI d with
  | nil => exact absurd hI hne
  | cons c r =>
    have hc : Lex.isDigit c = true := hi c (by rw [hI]; simp)
    unfold canonBody
    split
    · exact ⟨c, r, hI, hc⟩
    · exact ⟨c, r ++ '.' :: canonF d, by rw [hI]; simp, hc⟩

theorem canonBody_chars (d : Lex.PyDec) (h : WFDec d) :
    ∀ c ∈ canonBody d, Lex.isDigit c = true ∨ c = '.' := validMant_chars _ (canonBody_valid d h)

theorem decCanon_no_white (d : Lex.PyDec) (h : WFDec d) : ∀ c ∈ Lex.decCanon d, Lex.isPyWhite c = false := by
  intro c hc
  have hb : ∀ c ∈ canonBody d, Lex.isPyWhite c = false := by
    intro c hc
    rcases canonBody_chars d h c hc with h | h
    · exact digit_not_white c h
    · subst h; decide
  rw [decCanon_eq] at hc
  split at hc
  · rcases List.mem_cons.mp hc with h | h
    · subst h; decide
    · exact hb c h
  · exact hb c hc

theorem optSign_of_digit_head (s : List Char) (h : ∃ c r, s = c :: r ∧ Lex.isDigit c = true) :
    Lex.optSign s = s ∧ Lex.signSplit s = (false, s) := by
  obtain ⟨c, r, hs, hc⟩ := h
  subst hs
  have := digit_ne_sign c hc
  unfold Lex.optSign Lex.signSplit
  constructor
  · split
    · rename_i heq; cases heq; exact absurd rfl this.1
    · rename_i heq; cases heq; exact absurd rfl this.2.1
    · rfl
  · split
    · rename_i heq; cases heq; exact absurd rfl this.2.1
    · rename_i heq; cases heq; exact absurd rfl this.1
    · rfl

theorem optSign_decCanon (d : Lex.PyDec) (h : WFDec d) : Lex.optSign (Lex.decCanon d) = canonBody d := by
  rw [decCanon_eq]
  split
  · rfl
  · exact (optSign_of_digit_head _ (canonBody_head_digit d h)).1

theorem signSplit_decCanon (d : Lex.PyDec) (h : WFDec d) :
    Lex.signSplit (Lex.decCanon d) = (d.neg && !(canonBody d == ['0']), canonBody d) := by
  rw [decCanon_eq]
  split
  · rename_i hc; simp [Lex.signSplit, hc]
  · rename_i hc
    rw [(optSign_of_digit_head _ (canonBody_head_digit d h)).2]
    simp only [Bool.not_eq_true] at hc
    rw [hc]

theorem decParts_canonBody (d : Lex.PyDec) (h : WFDec d) :
    Lex.decParts (canonBody d) = (canonI d, canonF d) := by
  obtain ⟨_, hi⟩ := canonI_digits d h
  have hf := canonF_digits d h
  by_cases he : (canonF d).isEmpty = true
  · have h1 := takeWhile_digits_append (canonI d) [] hi (Or.inl rfl)
    simp only [List.append_nil] at h1
    have : canonF d = [] := by simpa using he
    have hb : canonBody d = canonI d := by simp [canonBody, he]
    rw [hb, this]
    simp only [Lex.decParts, h1.1, h1.2]
  · have h1 := takeWhile_digits_append (canonI d) ('.' :: canonF d) hi (Or.inr ⟨'.', _, rfl, by decide⟩)
    have h2 := takeWhile_digits_append (canonF d) [] hf (Or.inl rfl)
    simp only [List.append_nil] at h2
    have hb : canonBody d = canonI d ++ '.' :: canonF d := by simp [canonBody, he]
    rw [hb]
    simp only [Lex.decParts, h1.1, h1.2, h2.1]

/-- the re-parsed canonical string -/
def reparsed (d : Lex.PyDec) : Lex.PyDec := ⟨d.neg && !(canonBody d == ['0']), canonI d, canonF d⟩

theorem decOfLex_decCanon (d : Lex.PyDec) (h : WFDec d) : Lex.decOfLex (Lex.decCanon d) = reparsed d := by
  unfold Lex.decOfLex reparsed
  rw [signSplit_decCanon d h, decParts_canonBody d h]

theorem decCtor_decCanon (d : Lex.PyDec) (h : WFDec d) : Lex.decCtor (Lex.decCanon d) = .ok (reparsed d) := by
  unfold Lex.decCtor
  simp only [collapse_of_no_white _ (decCanon_no_white d h)]
  have hm : Lex.matchDecimal (Lex.decCanon d) = true := by
    unfold Lex.matchDecimal
    rw [optSign_decCanon d h]
    have hnl : '\n' ∉ canonBody d := by
      intro hm
      rcases canonBody_chars d h _ hm with h | h
      · exact absurd h (by decide)
      · exact absurd h (by decide)
    rw [scanDec_atEnd _ hnl]
    exact canonBody_valid d h
  rw [hm, decOfLex_decCanon d h]
  rfl

/-! idempotence of the strips -/

theorem dropWhile_idem {α} (p : α → Bool) (l : List α) : (l.dropWhile p).dropWhile p = l.dropWhile p := by
  cases hl : l.dropWhile p with
  | nil => rfl
  | cons a t =>
    have := List.head_dropWhile_not p (l := l) (by rw [hl]; simp)
    simp only [hl, List.head_cons] at this
    rw [List.dropWhile_cons_of_neg (by simpa using this)]

theorem stripLead0_canonI (d : Lex.PyDec) :
    (if (Lex.stripLead0 (canonI d)).isEmpty then ['0'] else Lex.stripLead0 (canonI d)) = canonI d := by
  unfold canonI
  split
  · decide
  · rename_i hne
    unfold Lex.stripLead0 at hne ⊢
    rw [dropWhile_idem]
    simp only [hne, Bool.false_eq_true, ↓reduceIte]

theorem stripTrail0_canonF (d : Lex.PyDec) : Lex.stripTrail0 (canonF d) = canonF d := by
  unfold canonF Lex.stripTrail0
  rw [List.reverse_reverse, dropWhile_idem]

theorem canonBody_reparsed (d : Lex.PyDec) : canonBody (reparsed d) = canonBody d := by
  have h1 : canonI (reparsed d) = canonI d := by
    have := stripLead0_canonI d
    unfold canonI at this ⊢
    exact this
  have h2 : canonF (reparsed d) = canonF d := stripTrail0_canonF d
  unfold canonBody
  rw [h1, h2]

/-- the canonical string is a fixed point of parse-then-print -/
theorem decCanon_reparsed (d : Lex.PyDec) : Lex.decCanon (reparsed d) = Lex.decCanon d := by
  rw [decCanon_eq, decCanon_eq, canonBody_reparsed]
  show (if ((d.neg && !(canonBody d == ['0'])) && !(canonBody d == ['0'])) = true then _ else _) = _
  cases d.neg <;> cases (canonBody d == ['0']) <;> rfl

/-! value preservation -/

theorem digitsVal_lead_zeros (z x : List Char) (hz : ∀ c ∈ z, c = '0') :
    Lex.digitsVal (z ++ x) = Lex.digitsVal x := by
  unfold Lex.digitsVal
  induction z with
  | nil => rfl
  | cons c r ih =>
    have hc : c = '0' := hz c List.mem_cons_self
    subst hc
    simp only [List.cons_append, Nat.ofDigitChars_cons]
    exact ih (fun c hc => hz c (List.mem_cons_of_mem _ hc))

theorem digitsVal_zeros (z : List Char) (hz : ∀ c ∈ z, c = '0') : Lex.digitsVal z = 0 := by
  have := digitsVal_lead_zeros z [] hz
  simpa [Lex.digitsVal] using this

theorem digitsVal_trail_zeros (x z : List Char) (hz : ∀ c ∈ z, c = '0') :
    Lex.digitsVal (x ++ z) = Lex.digitsVal x * 10 ^ z.length := by
  unfold Lex.digitsVal
  rw [Nat.ofDigitChars_append, Nat.ofDigitChars_eq_ofDigitChars_zero]
  have := digitsVal_zeros z hz
  unfold Lex.digitsVal at this
  rw [this, Nat.mul_comm]; simp

theorem takeWhile_eq0 (l : List Char) : ∀ c ∈ l.takeWhile (· == '0'), c = '0' := by
  intro c hc
  have := List.all_takeWhile (l := l) (p := (· == '0'))
  rw [List.all_eq_true] at this
  simpa using this c hc

/-- value of the integer part is not changed by stripping leading zeros (or writing "0" for nothing) -/
theorem digitsVal_canonI (d : Lex.PyDec) (x : List Char) :
    Lex.digitsVal (canonI d ++ x) = Lex.digitsVal (d.ip ++ x) := by
  have hsplit : d.ip.takeWhile (· == '0') ++ d.ip.dropWhile (· == '0') = d.ip := List.takeWhile_append_dropWhile
  have h2 : Lex.digitsVal (d.ip ++ x) = Lex.digitsVal (Lex.stripLead0 d.ip ++ x) := by
    conv => lhs; rw [← hsplit, List.append_assoc]
    exact digitsVal_lead_zeros _ _ (takeWhile_eq0 _)
  rw [h2]
  unfold canonI
  split
  · rename_i he
    have : Lex.stripLead0 d.ip = [] := by simpa using he
    rw [this]
    exact digitsVal_lead_zeros ['0'] x (by simp)
  · rfl

theorem fp_split (d : Lex.PyDec) :
    ∃ z, d.fp = canonF d ++ z ∧ ∀ c ∈ z, c = '0' := by
  refine ⟨(d.fp.reverse.takeWhile (· == '0')).reverse, ?_, ?_⟩
  · have h := List.takeWhile_append_dropWhile (p := (· == '0')) (l := d.fp.reverse)
    have := congrArg List.reverse h
    simp only [List.reverse_append, List.reverse_reverse] at this
    unfold canonF Lex.stripTrail0
    exact this.symm
  · intro c hc
    exact takeWhile_eq0 _ c (List.mem_reverse.mp hc)

/-- **value preservation**: the re-parsed canonical string denotes the same number -/
theorem reparsed_same (d : Lex.PyDec) : (pyDecVal (reparsed d)).same (pyDecVal d) := by
  obtain ⟨z, hz, hz0⟩ := fp_split d
  have hcoef : d.coef = (reparsed d).coef * 10 ^ z.length := by
    unfold Lex.PyDec.coef reparsed
    simp only
    rw [digitsVal_canonI d (canonF d)]
    conv => lhs; rw [hz, ← List.append_assoc]
    exact digitsVal_trail_zeros _ _ hz0
  have hscale : d.scale = (reparsed d).scale + z.length := by
    unfold Lex.PyDec.scale reparsed
    simp only
    conv => lhs; rw [hz]
    simp
  -- sign: differs only when the canonical body is "0", i.e. the coefficient is zero
  have hzero : (canonBody d == ['0']) = true → (reparsed d).coef = 0 := by
    intro hb
    have hb' : canonBody d = ['0'] := by simpa using hb
    unfold canonBody at hb'
    split at hb'
    · rename_i hf
      have hf' : canonF d = [] := by simpa using hf
      unfold Lex.PyDec.coef reparsed
      simp only [hf', List.append_nil, hb']
      decide
    · have := congrArg List.length hb'
      simp at this
      have hne := List.length_pos_iff.mpr (show canonI d ≠ [] by
        unfold canonI; split <;> simp_all)
      omega
  unfold XSD.DecVal.same pyDecVal
  simp only
  rw [hscale, hcoef]
  have hrn : (reparsed d).neg = (d.neg && !(canonBody d == ['0'])) := rfl
  rw [hrn]
  cases hneg : d.neg <;> cases hb : (canonBody d == ['0'])
  all_goals simp only [Bool.false_and, Bool.true_and, Bool.not_false, Bool.not_true, Bool.false_eq_true,
    ↓reduceIte]
  all_goals try (rw [hzero hb]; simp)
  all_goals (push_cast; rw [Int.pow_add]; grind)

end EPV.LexLemmas

namespace EPV.LexLemmas
open EPV

/-- what the constructor builds from a literal of the lexical space is well formed -/
theorem decOfLex_wf (t : List Char) (h : XSD.decimalLex t = true) : WFDec (Lex.decOfLex t) := by
  have hv : validMant (Lex.optSign t) = true := by
    have := h
    unfold XSD.decimalLex XSD.decimalPtNumeral XSD.noDecimalPtNumeral at this
    rw [← signed_or, signed_eq] at this
    unfold validMant; rw [Bool.or_comm]; exact this
  obtain ⟨hs, hu⟩ := signSplit_eq t
  have hbody : (Lex.signSplit t).2 = Lex.optSign t := by rw [hs, hu]
  unfold WFDec Lex.decOfLex
  simp only [hbody]
  generalize Lex.optSign t = body at hv
  rcases validMant_shape body hv with ⟨hne, hd⟩ | ⟨a, f, hb, ha, hf, hne⟩
  · have h1 := takeWhile_digits_append body [] hd (Or.inl rfl)
    simp only [List.append_nil] at h1
    simp only [Lex.decParts, h1.1, h1.2]
    exact ⟨hd, by simp, Or.inl hne⟩
  · subst hb
    have h1 := takeWhile_digits_append a ('.' :: f) ha (Or.inr ⟨'.', f, rfl, by decide⟩)
    have h2 := takeWhile_digits_append f [] hf (Or.inl rfl)
    simp only [List.append_nil] at h2
    simp only [Lex.decParts, h1.1, h1.2, h2.1]
    exact ⟨ha, hf, hne⟩

end EPV.LexLemmas

namespace EPV.LexLemmas
open EPV

/-! ### the canonical string is syntactically canonical (XSD 1.1 §3.3.3.2) -/

theorem canonI_shape (d : Lex.PyDec) : canonI d = ['0'] ∨ (∃ c r, canonI d = c :: r ∧ c ≠ '0') := by
  unfold canonI
  split
  · exact Or.inl rfl
  · rename_i hne
    right
    cases hs : Lex.stripLead0 d.ip with
    | nil => rw [hs] at hne; simp at hne
    | cons c r =>
      refine ⟨c, r, rfl, ?_⟩
      have := List.head_dropWhile_not (· == '0') (l := d.ip) (by
        unfold Lex.stripLead0 at hs; rw [hs]; simp)
      unfold Lex.stripLead0 at hs
      simp only [hs, List.head_cons] at this
      simpa using this

theorem canonF_last (d : Lex.PyDec) : (canonF d).getLast? ≠ some '0' := by
  unfold canonF Lex.stripTrail0
  rw [List.getLast?_reverse]
  intro h
  have := head?_dropWhile_false' _ _ _ h
  simp at this
where
  head?_dropWhile_false' (p : Char → Bool) (l : List Char) (c : Char)
      (h : (l.dropWhile p).head? = some c) : p c = false := by
    cases hl : l.dropWhile p with
    | nil => rw [hl] at h; cases h
    | cons a t =>
      rw [hl] at h
      simp only [List.head?_cons, Option.some.injEq] at h
      subst h
      have := List.head_dropWhile_not p (l := l) (by rw [hl]; simp)
      simp only [hl, List.head_cons] at this
      simpa using this

theorem intOk_canonI (d : Lex.PyDec) (h : WFDec d) : XSD.canonIntPart (canonI d) = true := by
  obtain ⟨hne, hi⟩ := canonI_digits d h
  unfold XSD.canonIntPart
  rw [unsignedNoDecimalPt_of _ hne hi]
  rcases canonI_shape d with h0 | ⟨c, r, hc, hc0⟩
  · rw [h0]; rfl
  · rw [hc]
    have : (some c != some '0') = true := by simpa using hc0
    simp [this]

theorem canonUnsigned_body (d : Lex.PyDec) (h : WFDec d) : XSD.canonUnsigned (canonBody d) = true := by
  obtain ⟨_, hI⟩ := canonI_digits d h
  have hF := canonF_digits d h
  have hIok := intOk_canonI d h
  unfold XSD.canonUnsigned
  by_cases hfe : (canonF d).isEmpty = true
  · have hb : canonBody d = canonI d := by simp [canonBody, hfe]
    rw [hb, splitAt_none _ _ (digits_no_dot _ hI)]
    exact hIok
  · have hb : canonBody d = canonI d ++ '.' :: canonF d := by simp [canonBody, hfe]
    rw [hb, splitAt_some _ _ '.' _ (digits_no_dot _ hI) (by decide)]
    have hfne : canonF d ≠ [] := by simpa using hfe
    have hff : XSD.fracFrag (canonF d) = true := by
      unfold XSD.fracFrag
      rw [(allDigits_iff _).mpr hF]
      cases hc : canonF d with
      | nil => exact absurd hc hfne
      | cons _ _ => rfl
    have hl : ((canonF d).getLast? != some '0') = true := by
      have := canonF_last d
      simpa using this
    simp [hIok, hff, hl]

/-- `string_value(Decimal)` produces a literal in XSD canonical form: no '+', no leading zero but a
single one before the point, no trailing fractional zero, no point for integers, "0" for zero -/
theorem decCanon_isCanonical (d : Lex.PyDec) (h : WFDec d) :
    XSD.isCanonicalDecimal (Lex.decCanon d) = true := by
  obtain ⟨_, hI⟩ := canonI_digits d h
  have hF := canonF_digits d h
  have hbodyOk := canonUnsigned_body d h
  obtain ⟨c, r, hb, hcd⟩ := canonBody_head_digit d h
  have hcm : c ≠ '-' := (digit_ne_sign c hcd).2.1
  rw [decCanon_eq]
  unfold XSD.isCanonicalDecimal
  split
  · rename_i hneg
    -- '-' :: body with body ≠ "0": a non-zero digit occurs
    have hnz : (canonBody d).any (fun c => XSD.isDigit c && c != '0') = true := by
      simp only [Bool.and_eq_true, Bool.not_eq_true'] at hneg
      have hb0 : canonBody d ≠ ['0'] := by simpa using hneg.2
      rw [List.any_eq_true]
      rcases canonI_shape d with h0 | ⟨c', r', hc', hc0⟩
      · have hfne : canonF d ≠ [] := by
          intro hfe
          apply hb0
          unfold canonBody; simp [hfe, h0]
        cases hg : (canonF d).getLast? with
        | none => simp at hg; exact absurd hg hfne
        | some y =>
          have hy : y ∈ canonF d := List.mem_of_getLast? hg
          refine ⟨y, ?_, ?_⟩
          · unfold canonBody; simp [hfne, hy]
          · have hy0 : y ≠ '0' := by intro e; subst e; exact canonF_last d hg
            rw [← isDigit_eq, hF y hy]; simpa using hy0
      · refine ⟨c', ?_, ?_⟩
        · unfold canonBody; split <;> simp [hc']
        · rw [← isDigit_eq, hI c' (by rw [hc']; simp)]; simpa using hc0
    simp only [XSD.minusOk, XSD.stripMinus, hnz, Bool.true_and]
    exact hbodyOk
  · have h1 : XSD.stripMinus (canonBody d) = canonBody d := by
      rw [hb]; unfold XSD.stripMinus
      split
      · rename_i heq; cases heq; exact absurd rfl hcm
      · rfl
    have h2 : XSD.minusOk (canonBody d) = true := by
      rw [hb]; unfold XSD.minusOk
      split
      · rename_i heq; cases heq; exact absurd rfl hcm
      · rfl
    rw [h1, h2, hbodyOk]; rfl

end EPV.LexLemmas

/-
C17 helper lemmas: xml-to-json ∘ json-to-xml on the value type.
-/
import EPV.Lemmas.JsonXmlNum
set_option linter.unusedSimpArgs false
namespace EPV.Json

mutual
/-- domain of the exact json-to-xml / xml-to-json round trip: strings and keys of XML characters,
distinct keys in every object, integers below 10^16 in absolute value, doubles in normal form whose
`repr` is not of the form `ddd.0` -/
def JValue.x2jOK : JValue → Bool
  | .str s => s.all isXmlCodepoint
  | .int n => decide (n.natAbs < 10 ^ 16)
  | .dbl d => stableDbl d
  | .arr l => x2jOKL l
  | .obj m => x2jOKM [] m
  | _ => true
def x2jOKL : List JValue → Bool
  | [] => true
  | v :: t => v.x2jOK && x2jOKL t
def x2jOKM (seen : List Str) : List (Str × JValue) → Bool
  | [] => true
  | (k, v) :: t => k.all isXmlCodepoint && !(seen.contains k) && v.x2jOK && x2jOKM (k :: seen) t
end

theorem xmlFallback_id (s : Str) (h : s.all isXmlCodepoint = true) : xmlFallback s = s := by
  unfold xmlFallback
  induction s with
  | nil => rfl
  | cons a t ih =>
    simp only [List.all_cons, Bool.and_eq_true] at h
    simp [h.1, ih h.2]

theorem xml_ne_zero (s : Str) (h : s.all isXmlCodepoint = true) : ∀ c ∈ s, c ≠ 0 := by
  intro c hc h0
  have := List.all_eq_true.mp h c hc
  subst h0
  simp [isXmlCodepoint] at this

theorem joinComma_renderL (esc : Nat → Str) : ∀ l : List JValue,
    joinComma (l.map (render esc)) ++ [93] = renderL esc l
  | [] => rfl
  | [v] => by simp [joinComma, renderL]
  | v :: w :: t => by
    have := joinComma_renderL esc (w :: t)
    simp only [List.map_cons] at this
    rw [renderL_cons2]
    simp only [List.map_cons, joinComma, List.append_assoc, List.cons_append]
    rw [this]

def memberText (esc : Nat → Str) (kv : Str × JValue) : Str :=
  34 :: (kv.1.flatMap esc ++ [34, 58]) ++ render esc kv.2

theorem joinComma_renderM (esc : Nat → Str) : ∀ m : List (Str × JValue),
    joinComma (m.map (memberText esc)) ++ [125] = renderM esc m
  | [] => rfl
  | [(k, v)] => by simp [joinComma, renderM, memberText]
  | (k, v) :: w :: t => by
    have := joinComma_renderM esc (w :: t)
    simp only [List.map_cons] at this
    rw [renderM_cons2]
    simp only [List.map_cons, joinComma, List.append_assoc, List.cons_append, memberText]
    rw [← this]
    simp [memberText]

mutual
theorem x2j_value : ∀ (v : JValue), v.x2jOK = true → ∀ key : Option Str,
    ∃ tag text ch, toElem .retain key v = .ok (.mk tag key text ch) ∧
      elemToJson (.mk tag key text ch) = .ok (render escChar v)
  | .null, _, key => ⟨.null, none, [], rfl, rfl⟩
  | .bool true, _, key => ⟨.boolean, _, [], rfl, by simp [elemToJson, render]⟩
  | .bool false, _, key => ⟨.boolean, _, [], rfl, by simp [elemToJson, render]⟩
  | .int n, h, key => by
    refine ⟨.number, some (renderInt n), [], rfl, ?_⟩
    simp only [elemToJson, Option.getD_some, render]
    exact numberOfText_int n (by simpa [JValue.x2jOK] using h)
  | .dbl d, h, key => by
    refine ⟨.number, some (reprDouble d), [], rfl, ?_⟩
    simp only [elemToJson, Option.getD_some, render]
    exact numberOfText_dbl d (by simpa [JValue.x2jOK] using h)
  | .str s, h, key => by
    have hx : s.all isXmlCodepoint = true := by simpa [JValue.x2jOK] using h
    refine ⟨.string, some s, [], by simp [toElem, xmlFallback_id s hx], ?_⟩
    simp [elemToJson, render, escape_flatMap]
  | .arr l, h, key => by
    obtain ⟨es, h1, h2⟩ := x2j_list l (by simpa [JValue.x2jOK] using h)
    refine ⟨.array, none, es, by simp [toElem, h1, Except.map], ?_⟩
    simp only [elemToJson, h2, bind, Except.bind, pure, Except.pure, render]
    rw [← joinComma_renderL]
  | .obj m, h, key => by
    obtain ⟨es, h1, h2⟩ := x2j_members m [] (by simpa [JValue.x2jOK] using h)
    refine ⟨.map, none, es, by simp [toElem, h1, Except.map], ?_⟩
    simp only [elemToJson, h2, bind, Except.bind, pure, Except.pure, render]
    rw [← joinComma_renderM]
theorem x2j_list : ∀ (l : List JValue), x2jOKL l = true →
    ∃ es, toElemL .retain l = .ok es ∧ elemsToJson es = .ok (l.map (render escChar))
  | [], _ => ⟨[], rfl, rfl⟩
  | v :: t, h => by
    have hh : v.x2jOK = true ∧ x2jOKL t = true := by simpa [x2jOKL] using h
    obtain ⟨tag, text, ch, h1, h2⟩ := x2j_value v hh.1 none
    obtain ⟨es, h3, h4⟩ := x2j_list t hh.2
    refine ⟨.mk tag none text ch :: es, by simp [toElemL, h1, h3, bind, Except.bind, pure, Except.pure], ?_⟩
    simp [elemsToJson, h2, h4, bind, Except.bind, pure, Except.pure]
theorem x2j_members : ∀ (m : List (Str × JValue)) (seen : List Str), x2jOKM seen m = true →
    ∃ es, toElemM .retain seen m = .ok es ∧ membersToJson seen es = .ok (m.map (memberText escChar))
  | [], _, _ => ⟨[], rfl, rfl⟩
  | (k, v) :: t, seen, h => by
    have hh : ((k.all isXmlCodepoint = true ∧ seen.contains k = false) ∧ v.x2jOK = true) ∧
        x2jOKM (k :: seen) t = true := by simpa [x2jOKM] using h
    obtain ⟨⟨⟨hk, hs⟩, hv⟩, ht⟩ := hh
    have hks : k ∉ seen := by simpa using hs
    obtain ⟨tag, text, ch, h1, h2⟩ := x2j_value v hv (some k)
    obtain ⟨es, h3, h4⟩ := x2j_members t (k :: seen) ht
    have hun : unescapeJsonString (escapeJsonString k) = some k := by
      unfold unescapeJsonString
      rw [escape_flatMap]
      exact unescapeF_escape k _ (Nat.le_refl _)
    refine ⟨.mk tag (some k) text ch :: es, ?_, ?_⟩
    · simp [toElemM, hks, xmlFallback_id k hk, h1, h3, bind, Except.bind, pure, Except.pure]
    · rw [escape_flatMap] at hun
      simp only [membersToJson, h2, bind, Except.bind, pure, Except.pure,
        List.map_cons, memberText, escape_flatMap]
      simp only [hun, hks, if_false, h4]
end

/-- xml-to-json(json-to-xml(v)) is the rendering of `v` with `escape_json_string` as string encoder -/
theorem x2j_render (v : JValue) (h : v.x2jOK = true) :
    (jsonToXml v).bind xmlToJson = .ok (render escChar v) := by
  obtain ⟨tag, text, ch, h1, h2⟩ := x2j_value v h none
  simp [jsonToXml, xmlToJson, h1, h2, Except.bind]

mutual
theorem x2jOK_valid : ∀ v : JValue, v.x2jOK = true → v.validWith isXmlCodepoint stableDbl = true
  | .null, _ => rfl
  | .bool _, _ => rfl
  | .int _, _ => rfl
  | .dbl d, h => by simpa [JValue.x2jOK, JValue.validWith] using h
  | .str s, h => by simpa [JValue.x2jOK, JValue.validWith] using h
  | .arr l, h => by
    simp only [JValue.validWith]
    exact x2jOKL_valid l (by simpa [JValue.x2jOK] using h)
  | .obj m, h => by
    simp only [JValue.validWith]
    exact x2jOKM_valid m [] (by simpa [JValue.x2jOK] using h)
theorem x2jOKL_valid : ∀ l : List JValue, x2jOKL l = true → validL isXmlCodepoint stableDbl l = true
  | [], _ => rfl
  | v :: t, h => by
    have hh : v.x2jOK = true ∧ x2jOKL t = true := by simpa [x2jOKL] using h
    simp [validL, x2jOK_valid v hh.1, x2jOKL_valid t hh.2]
theorem x2jOKM_valid : ∀ (m : List (Str × JValue)) (seen : List Str), x2jOKM seen m = true →
    validM isXmlCodepoint stableDbl m = true
  | [], _, _ => rfl
  | (k, v) :: t, seen, h => by
    have hh : ((k.all isXmlCodepoint = true ∧ seen.contains k = false) ∧ v.x2jOK = true) ∧
        x2jOKM (k :: seen) t = true := by simpa [x2jOKM] using h
    simp only [validM, Bool.and_eq_true]
    exact ⟨⟨hh.1.1.1, x2jOK_valid v hh.1.2⟩, x2jOKM_valid t (k :: seen) hh.2⟩
end

theorem escOK_escChar_xml (c : Nat) (h : isXmlCodepoint c = true) : EscOK escChar c := by
  apply escOK_escChar
  intro h0; subst h0; simp [isXmlCodepoint] at h

theorem numOK_stable (d : Dec) (h : stableDbl d = true) : NumOK (reprDouble d) (.dbl d) := by
  apply numOK_reprDouble
  simp only [stableDbl, Bool.and_eq_true] at h
  exact h.1

end EPV.Json

/-
C17 helper lemmas: xml-to-json ∘ json-to-xml on the value type, with the numeric VALUE semantics of
number literals (`numVal`: mantissa × 10^exponent, compared as rationals by `sameNum`).
-/
import EPV.Lemmas.JsonXmlNum
set_option linter.unusedSimpArgs false
set_option linter.unusedVariables false
namespace EPV.Json

/-! ### value semantics of numbers -/

/-- the exact value of a number as `mantissa × 10^exponent` -/
def numVal : JValue → Option (Int × Int)
  | .int n => some (n, 0)
  | .dbl d => some ((if d.neg then -(digitsVal d.digits : Int) else (digitsVal d.digits : Int)),
                    d.decpt - (d.digits.length : Int))
  | _ => none

/-- `m₁ × 10^e₁ = m₂ × 10^e₂` as rational numbers (both sides scaled by `10^-min(e₁,e₂)`) -/
def sameNum (a b : Int × Int) : Prop :=
  a.1 * 10 ^ (a.2 - min a.2 b.2).toNat = b.1 * 10 ^ (b.2 - min a.2 b.2).toNat

theorem sameNum_refl (a : Int × Int) : sameNum a a := rfl

mutual
/-- same JSON value: same structure, same strings and keys, numbers equal as numbers -/
inductive SameValue : JValue → JValue → Prop
  | null : SameValue .null .null
  | bool (b : Bool) : SameValue (.bool b) (.bool b)
  | str (s : Str) : SameValue (.str s) (.str s)
  | num {v w : JValue} {a b : Int × Int} : numVal v = some a → numVal w = some b → sameNum a b → SameValue v w
  | arr {l l' : List JValue} : SameL l l' → SameValue (.arr l) (.arr l')
  | obj {m m' : List (Str × JValue)} : SameM m m' → SameValue (.obj m) (.obj m')
inductive SameL : List JValue → List JValue → Prop
  | nil : SameL [] []
  | cons {v w : JValue} {t t' : List JValue} : SameValue v w → SameL t t' → SameL (v :: t) (w :: t')
inductive SameM : List (Str × JValue) → List (Str × JValue) → Prop
  | nil : SameM [] []
  | cons {k : Str} {v w : JValue} {t t' : List (Str × JValue)} :
      SameValue v w → SameM t t' → SameM ((k, v) :: t) ((k, w) :: t')
end

theorem digitsVal_append_zeros (l : List Nat) (m : Nat) :
    digitsVal (l ++ List.replicate m 0) = digitsVal l * 10 ^ m := by
  induction m with
  | zero => simp
  | succ m ih =>
    rw [List.replicate_succ', ← List.append_assoc, digitsVal_append_single, ih, Nat.pow_succ]
    simp [Nat.mul_assoc, Nat.mul_comm]

/-! ### what xml-to-json writes for a number and what the reader makes of it -/

def x2jI (rnd : Dec → Dec) (n : Int) : Str := reprStripped (rnd (denInt n))
def x2jD (rnd : Dec → Dec) (d : Dec) : Str := reprStripped (rnd d)

/-- the digits `ddd000` of a decimal whose repr is `ddd000.0` -/
def intDigitsOf (d : Dec) : List Nat := d.digits ++ List.replicate (d.decpt - (d.digits.length : Int)).toNat 0

/-- the value the RFC reader assigns to `reprStripped d` -/
def x2jVal (d : Dec) : JValue :=
  if stableDbl d then .dbl d
  else .int (if d.neg then -(digitsVal (intDigitsOf d) : Int) else (digitsVal (intDigitsOf d) : Int))

/-- RFC 8259 reader on an optional minus sign followed by digits without leading zero -/
theorem parseNum_intDigits (neg : Bool) (L : List Nat) (hne : L ≠ []) (hd : ∀ x ∈ L, x < 10)
    (hlz : ¬ (1 < L.length ∧ L.head? = some 0)) (rest : Str) (h : numEnd rest) :
    parseNum ((if neg then [45] else []) ++ digitChars L ++ rest) =
      some (.int (if neg then -(digitsVal L : Int) else (digitsVal L : Int)), rest) := by
  have hspan : spanDigits (digitChars L ++ rest) = (L, rest) :=
    spanDigits_digitChars _ hd rest (headNotDigit_of_numEnd rest h)
  obtain ⟨d, t, hdt⟩ : ∃ d t, L = d :: t := by
    cases L with
    | nil => exact absurd rfl hne
    | cons d t => exact ⟨d, t, rfl⟩
  unfold parseNum
  cases neg
  · have hs : parseSign (digitChars L ++ rest) = (false, digitChars L ++ rest) := by
      rw [hdt]
      simp only [digitChars, List.map_cons, List.cons_append]
      unfold parseSign
      split
      · rename_i heq; simp at heq; omega
      · rfl
    simp only [Bool.false_eq_true, if_false, List.nil_append, hs]
    rw [hspan]
    simp only [hne, if_false, hlz, parseFrac_end rest h, parseExp_end rest h]
  · simp only [if_true, List.cons_append, List.nil_append, List.append_assoc, parseSign]
    rw [hspan]
    simp only [hne, if_false, hlz, parseFrac_end rest h, parseExp_end rest h]

theorem numOK_reprStripped (d : Dec) (hwf : wfDec d = true) : NumOK (reprStripped d) (x2jVal d) := by
  by_cases hst : stableDbl d = true
  · rw [reprStripped_stable d hst]
    simp only [x2jVal, hst, if_true]
    exact numOK_reprDouble d hwf
  · obtain ⟨neg, ds, pt⟩ := d
    have hwf' := hwf
    simp only [wfDec, Bool.and_eq_true, Bool.not_eq_true', List.isEmpty_eq_false_iff, List.all_eq_true,
      decide_eq_true_eq, Bool.or_eq_true, beq_iff_eq, bne_iff_ne, ne_eq] at hwf'
    obtain ⟨⟨hne, hd⟩, hz⟩ := hwf'
    have hns : ¬ (pt ≤ -4 ∨ pt > 16 ∨ pt < (ds.length : Int)) := by
      intro h
      apply hst
      simp only [stableDbl, hwf, Bool.true_and, Bool.or_eq_true, decide_eq_true_eq]
      rcases h with h | h | h
      · exact Or.inl (Or.inl h)
      · exact Or.inl (Or.inr h)
      · exact Or.inr h
    have hk : (ds.length : Int) ≤ pt := by omega
    have h16 : pt ≤ 16 := by omega
    have hrs := reprStripped_integral neg ds pt hne hd hk h16
    have hLne : ds ++ List.replicate (pt - (ds.length : Int)).toNat 0 ≠ [] := by simp [hne]
    have hLd : ∀ x ∈ ds ++ List.replicate (pt - (ds.length : Int)).toNat 0, x < 10 :=
      mem_append_lt10 hd (replicate_lt10 _)
    have hlz : ¬ (1 < (ds ++ List.replicate (pt - (ds.length : Int)).toNat 0).length ∧
        (ds ++ List.replicate (pt - (ds.length : Int)).toNat 0).head? = some 0) := by
      rcases hz with ⟨h1, h2⟩ | ⟨h1, _⟩
      · subst h1; subst h2; simp
      · intro ⟨_, h⟩
        apply h1
        cases ds with
        | nil => exact absurd rfl hne
        | cons a r => simpa using h
    have hval : x2jVal ⟨neg, ds, pt⟩ = .int (if neg then
        -(digitsVal (ds ++ List.replicate (pt - (ds.length : Int)).toNat 0) : Int)
        else (digitsVal (ds ++ List.replicate (pt - (ds.length : Int)).toNat 0) : Int)) := by
      have : stableDbl ⟨neg, ds, pt⟩ = false := by simpa using hst
      simp [x2jVal, this, intDigitsOf]
    rw [hrs, hval]
    constructor
    · cases hds : ds ++ List.replicate (pt - (ds.length : Int)).toNat 0 with
      | nil => exact absurd hds hLne
      | cons a r =>
        have ha : a < 10 := hLd a (by rw [hds]; simp)
        cases neg
        · exact numStart_head _ (48 + a) (by simp [digitChars]) (Or.inr (by simp [isDigit]; omega))
        · exact numStart_head _ 45 (by simp) (Or.inl rfl)
    · intro rest hr
      exact parseNum_intDigits neg _ hLne hLd hlz rest hr

/-! ### domain and the structural part -/

mutual
/-- JSON values as json-to-xml sees them: strings and keys of XML characters, distinct keys in every
object, doubles in normal form (any integers, any doubles) -/
def JValue.x2jDom : JValue → Bool
  | .str s => s.all isXmlCodepoint
  | .dbl d => wfDec d
  | .arr l => x2jDomL l
  | .obj m => x2jDomM [] m
  | _ => true
def x2jDomL : List JValue → Bool
  | [] => true
  | v :: t => v.x2jDom && x2jDomL t
def x2jDomM (seen : List Str) : List (Str × JValue) → Bool
  | [] => true
  | (k, v) :: t => k.all isXmlCodepoint && !(seen.contains k) && v.x2jDom && x2jDomM (k :: seen) t
end

mutual
/-- `float()` leaves every number of the value alone: each is (the shortest repr of) a double -/
def JValue.numsFixed (rnd : Dec → Dec) : JValue → Prop
  | .int n => rnd (denInt n) = denInt n
  | .dbl d => rnd d = d
  | .arr l => numsFixedL rnd l
  | .obj m => numsFixedM rnd m
  | _ => True
def numsFixedL (rnd : Dec → Dec) : List JValue → Prop
  | [] => True
  | v :: t => v.numsFixed rnd ∧ numsFixedL rnd t
def numsFixedM (rnd : Dec → Dec) : List (Str × JValue) → Prop
  | [] => True
  | (_, v) :: t => v.numsFixed rnd ∧ numsFixedM rnd t
end

theorem xmlFallback_id (s : Str) (h : s.all isXmlCodepoint = true) : xmlFallback s = s := by
  unfold xmlFallback
  induction s with
  | nil => rfl
  | cons a t ih =>
    simp only [List.all_cons, Bool.and_eq_true] at h
    simp [h.1, ih h.2]

theorem renderGL_cons2 (esc : Nat → Str) (nI : Int → Str) (nD : Dec → Str) (v w : JValue) (t : List JValue) :
    renderGL esc nI nD (v :: w :: t) = renderG esc nI nD v ++ 44 :: renderGL esc nI nD (w :: t) := rfl

theorem renderGM_cons2 (esc : Nat → Str) (nI : Int → Str) (nD : Dec → Str) (k : Str) (v : JValue)
    (w : Str × JValue) (t : List (Str × JValue)) :
    renderGM esc nI nD ((k, v) :: w :: t) =
      34 :: (k.flatMap esc ++ [34, 58]) ++ renderG esc nI nD v ++ 44 :: renderGM esc nI nD (w :: t) := rfl

theorem joinComma_renderGL (esc : Nat → Str) (nI : Int → Str) (nD : Dec → Str) : ∀ l : List JValue,
    joinComma (l.map (renderG esc nI nD)) ++ [93] = renderGL esc nI nD l
  | [] => rfl
  | [v] => by simp [joinComma, renderGL]
  | v :: w :: t => by
    have := joinComma_renderGL esc nI nD (w :: t)
    simp only [List.map_cons] at this
    rw [renderGL_cons2]
    simp only [List.map_cons, joinComma, List.append_assoc, List.cons_append]
    rw [this]

def memberTextG (esc : Nat → Str) (nI : Int → Str) (nD : Dec → Str) (kv : Str × JValue) : Str :=
  34 :: (kv.1.flatMap esc ++ [34, 58]) ++ renderG esc nI nD kv.2

theorem joinComma_renderGM (esc : Nat → Str) (nI : Int → Str) (nD : Dec → Str) : ∀ m : List (Str × JValue),
    joinComma (m.map (memberTextG esc nI nD)) ++ [125] = renderGM esc nI nD m
  | [] => rfl
  | [(k, v)] => by simp [joinComma, renderGM, memberTextG]
  | (k, v) :: w :: t => by
    have := joinComma_renderGM esc nI nD (w :: t)
    simp only [List.map_cons] at this
    rw [renderGM_cons2]
    simp only [List.map_cons, joinComma, List.append_assoc, List.cons_append, memberTextG]
    rw [← this]
    simp [memberTextG]

section
variable (rnd : Dec → Dec)

mutual
theorem x2j_value : ∀ (v : JValue), v.x2jDom = true → ∀ key : Option Str,
    ∃ tag text ch, toElem .retain key v = .ok (.mk tag key text ch) ∧
      elemToJson rnd (.mk tag key text ch) = .ok (renderG escChar (x2jI rnd) (x2jD rnd) v)
  | .null, _, key => ⟨.null, none, [], rfl, rfl⟩
  | .bool true, _, key => ⟨.boolean, _, [], rfl, by simp [elemToJson, renderG]⟩
  | .bool false, _, key => ⟨.boolean, _, [], rfl, by simp [elemToJson, renderG]⟩
  | .int n, h, key => by
    refine ⟨.number, some (renderInt n), [], rfl, ?_⟩
    have hp : parseNum (renderInt n) = some (.int n, []) := by
      have := parseNum_renderInt n [] trivial
      simpa using this
    simp only [elemToJson, Option.getD_some, renderG, numberOfText, hp, x2jI]
  | .dbl d, h, key => by
    refine ⟨.number, some (reprDouble d), [], rfl, ?_⟩
    have hp : parseNum (reprDouble d) = some (.dbl d, []) := by
      have := (numOK_reprDouble d (by simpa [JValue.x2jDom] using h)).2 [] trivial
      simpa using this
    simp only [elemToJson, Option.getD_some, renderG, numberOfText, hp, x2jD]
  | .str s, h, key => by
    have hx : s.all isXmlCodepoint = true := by simpa [JValue.x2jDom] using h
    refine ⟨.string, some s, [], by simp [toElem, xmlFallback_id s hx], ?_⟩
    simp [elemToJson, renderG, escape_flatMap]
  | .arr l, h, key => by
    obtain ⟨es, h1, h2⟩ := x2j_list l (by simpa [JValue.x2jDom] using h)
    refine ⟨.array, none, es, by simp [toElem, h1, Except.map], ?_⟩
    simp only [elemToJson, h2, bind, Except.bind, pure, Except.pure, renderG]
    rw [← joinComma_renderGL]
  | .obj m, h, key => by
    obtain ⟨es, h1, h2⟩ := x2j_members m [] (by simpa [JValue.x2jDom] using h)
    refine ⟨.map, none, es, by simp [toElem, h1, Except.map], ?_⟩
    simp only [elemToJson, h2, bind, Except.bind, pure, Except.pure, renderG]
    rw [← joinComma_renderGM]
theorem x2j_list : ∀ (l : List JValue), x2jDomL l = true →
    ∃ es, toElemL .retain l = .ok es ∧
      elemsToJson rnd es = .ok (l.map (renderG escChar (x2jI rnd) (x2jD rnd)))
  | [], _ => ⟨[], rfl, rfl⟩
  | v :: t, h => by
    have hh : v.x2jDom = true ∧ x2jDomL t = true := by simpa [x2jDomL] using h
    obtain ⟨tag, text, ch, h1, h2⟩ := x2j_value v hh.1 none
    obtain ⟨es, h3, h4⟩ := x2j_list t hh.2
    refine ⟨.mk tag none text ch :: es, by simp [toElemL, h1, h3, bind, Except.bind, pure, Except.pure], ?_⟩
    simp [elemsToJson, h2, h4, bind, Except.bind, pure, Except.pure]
theorem x2j_members : ∀ (m : List (Str × JValue)) (seen : List Str), x2jDomM seen m = true →
    ∃ es, toElemM .retain seen m = .ok es ∧
      membersToJson rnd seen es = .ok (m.map (memberTextG escChar (x2jI rnd) (x2jD rnd)))
  | [], _, _ => ⟨[], rfl, rfl⟩
  | (k, v) :: t, seen, h => by
    have hh : ((k.all isXmlCodepoint = true ∧ seen.contains k = false) ∧ v.x2jDom = true) ∧
        x2jDomM (k :: seen) t = true := by simpa [x2jDomM] using h
    obtain ⟨⟨⟨hk, hs⟩, hv⟩, ht⟩ := hh
    have hks : k ∉ seen := by simpa using hs
    obtain ⟨tag, text, ch, h1, h2⟩ := x2j_value v hv (some k)
    obtain ⟨es, h3, h4⟩ := x2j_members t (k :: seen) ht
    have hun : unescapeJsonString (escapeJsonString k) = some k := by
      unfold unescapeJsonString
      rw [escape_flatMap]
      exact unescapeF_escape k _ (Nat.le_refl _)
    refine ⟨.mk tag (some k) text ch :: es, ?_, ?_⟩
    · simp [toElemM, hks, xmlFallback_id k hk, h1, h3, bind, Except.bind, pure, Except.pure]
    · rw [escape_flatMap] at hun
      simp only [membersToJson, h2, bind, Except.bind, pure, Except.pure,
        List.map_cons, memberTextG, escape_flatMap]
      simp only [hun, hks, if_false, h4]
end

/-- xml-to-json(json-to-xml(v)) is the rendering of `v` with `escape_json_string` as string encoder and the
stripped `str(float(·))` texts as number tokens -/
theorem x2j_render (v : JValue) (h : v.x2jDom = true) :
    (jsonToXml v).bind (xmlToJson rnd) = .ok (renderG escChar (x2jI rnd) (x2jD rnd) v) := by
  obtain ⟨tag, text, ch, h1, h2⟩ := x2j_value rnd v h none
  simp [jsonToXml, xmlToJson, h1, h2, Except.bind]

mutual
theorem renderG_fixed : ∀ v : JValue, v.numsFixed rnd →
    renderG escChar (x2jI rnd) (x2jD rnd) v = renderG escChar (x2jI id) (x2jD id) v
  | .null, _ => rfl
  | .bool true, _ => rfl
  | .bool false, _ => rfl
  | .int n, h => by
    have h' : rnd (denInt n) = denInt n := h
    simp only [renderG, x2jI, h', id]
  | .dbl d, h => by
    have h' : rnd d = d := h
    simp only [renderG, x2jD, h', id]
  | .str _, _ => rfl
  | .arr l, h => by
    simp only [renderG]
    rw [renderGL_fixed l h]
  | .obj m, h => by
    simp only [renderG]
    rw [renderGM_fixed m h]
theorem renderGL_fixed : ∀ l : List JValue, numsFixedL rnd l →
    renderGL escChar (x2jI rnd) (x2jD rnd) l = renderGL escChar (x2jI id) (x2jD id) l
  | [], _ => rfl
  | [v], h => by
    simp only [renderGL]
    rw [renderG_fixed v h.1]
  | v :: w :: t, h => by
    have := renderGL_fixed (w :: t) h.2
    simp only [renderGL] at this ⊢
    rw [renderG_fixed v h.1, this]
theorem renderGM_fixed : ∀ m : List (Str × JValue), numsFixedM rnd m →
    renderGM escChar (x2jI rnd) (x2jD rnd) m = renderGM escChar (x2jI id) (x2jD id) m
  | [], _ => rfl
  | [(k, v)], h => by
    simp only [renderGM]
    rw [renderG_fixed v h.1]
  | (k, v) :: w :: t, h => by
    have := renderGM_fixed (w :: t) h.2
    simp only [renderGM] at this ⊢
    rw [renderG_fixed v h.1, this]
end

end

/-! ### validity for the reader, and value preservation -/

mutual
theorem x2jDom_valid : ∀ v : JValue, v.x2jDom = true → v.validWith isXmlCodepoint wfDec = true
  | .null, _ => rfl
  | .bool _, _ => rfl
  | .int _, _ => rfl
  | .dbl d, h => by simpa [JValue.x2jDom, JValue.validWith] using h
  | .str s, h => by simpa [JValue.x2jDom, JValue.validWith] using h
  | .arr l, h => by
    simp only [JValue.validWith]
    exact x2jDomL_valid l (by simpa [JValue.x2jDom] using h)
  | .obj m, h => by
    simp only [JValue.validWith]
    exact x2jDomM_valid m [] (by simpa [JValue.x2jDom] using h)
theorem x2jDomL_valid : ∀ l : List JValue, x2jDomL l = true → validL isXmlCodepoint wfDec l = true
  | [], _ => rfl
  | v :: t, h => by
    have hh : v.x2jDom = true ∧ x2jDomL t = true := by simpa [x2jDomL] using h
    simp [validL, x2jDom_valid v hh.1, x2jDomL_valid t hh.2]
theorem x2jDomM_valid : ∀ (m : List (Str × JValue)) (seen : List Str), x2jDomM seen m = true →
    validM isXmlCodepoint wfDec m = true
  | [], _, _ => rfl
  | (k, v) :: t, seen, h => by
    have hh : ((k.all isXmlCodepoint = true ∧ seen.contains k = false) ∧ v.x2jDom = true) ∧
        x2jDomM (k :: seen) t = true := by simpa [x2jDomM] using h
    simp only [validM, Bool.and_eq_true]
    exact ⟨⟨hh.1.1.1, x2jDom_valid v hh.1.2⟩, x2jDomM_valid t (k :: seen) hh.2⟩
end

theorem escOK_escChar_xml (c : Nat) (h : isXmlCodepoint c = true) : EscOK escChar c := by
  apply escOK_escChar
  intro h0; subst h0; simp [isXmlCodepoint] at h

/-- an integral decimal and the integer it is written as have the same value -/
theorem sameNum_x2jVal (d : Dec) (hwf : wfDec d = true) :
    ∃ a b, numVal (.dbl d) = some a ∧ numVal (x2jVal d) = some b ∧ sameNum a b := by
  by_cases hst : stableDbl d = true
  · exact ⟨_, _, rfl, by simp [x2jVal, hst, numVal], sameNum_refl _⟩
  · have hst' : stableDbl d = false := by simpa using hst
    obtain ⟨neg, ds, pt⟩ := d
    have hk : (ds.length : Int) ≤ pt := by
      simp only [stableDbl, hwf, Bool.true_and, Bool.or_eq_false_iff, decide_eq_false_iff_not] at hst'
      omega
    refine ⟨((if neg then -(digitsVal ds : Int) else (digitsVal ds : Int)), pt - (ds.length : Int)),
      ((if neg then -(digitsVal (intDigitsOf ⟨neg, ds, pt⟩) : Int) else (digitsVal (intDigitsOf ⟨neg, ds, pt⟩) : Int)), 0),
      rfl, by simp [x2jVal, hst', numVal], ?_⟩
    simp only [sameNum, intDigitsOf]
    have hmin : min (pt - (ds.length : Int)) 0 = 0 := by omega
    rw [hmin, digitsVal_append_zeros]
    simp only [Int.sub_zero, Int.toNat_zero, Int.pow_zero, Int.mul_one]
    cases neg <;> simp [Int.natCast_mul, Int.natCast_pow, Int.neg_mul]

/-- an integer and what its `float()`-`str()` text is read as have the same value -/
theorem sameNum_int (n : Int) :
    ∃ b, numVal (x2jVal (denInt n)) = some b ∧ sameNum (n, 0) b := by
  obtain ⟨ds, hne, hd, hform, hzero, hnz⟩ := denInt_form n
  have hval := natDigits_val n.natAbs
  have hsign : (if decide (n < 0) = true then -((n.natAbs : Nat) : Int) else ((n.natAbs : Nat) : Int)) = n := by
    by_cases h : n < 0 <;> simp [h] <;> omega
  rw [hform]
  by_cases hz : ds = [0]
  · -- zero
    have hn : n.natAbs = 0 := by
      have := hzero hz
      rw [this] at hval
      simpa [digitsVal] using hval.symm
    have hn0 : n = 0 := by omega
    subst hz; subst hn0
    exact ⟨(0, 0), by decide, rfl⟩
  · obtain ⟨happ, hle, hh, hl⟩ := hnz hz
    simp only [hz, if_false]
    by_cases hst : stableDbl ⟨decide (n < 0), ds, ((natDigits n.natAbs).length : Int)⟩ = true
    · refine ⟨((if decide (n < 0) then -(digitsVal ds : Int) else (digitsVal ds : Int)),
          ((natDigits n.natAbs).length : Int) - (ds.length : Int)), by simp [x2jVal, hst, numVal], ?_⟩
      simp only [sameNum]
      have hmin : min (0 : Int) (((natDigits n.natAbs).length : Int) - (ds.length : Int)) = 0 := by omega
      rw [hmin]
      simp only [Int.sub_zero, Int.toNat_zero, Int.pow_zero, Int.mul_one]
      rw [show (((natDigits n.natAbs).length : Int) - (ds.length : Int)).toNat =
        (natDigits n.natAbs).length - ds.length by omega]
      have hv : digitsVal ds * 10 ^ ((natDigits n.natAbs).length - ds.length) = n.natAbs := by
        rw [← digitsVal_append_zeros, happ, hval]
      generalize (natDigits n.natAbs).length - ds.length = e at hv ⊢
      have hv' : (digitsVal ds : Int) * 10 ^ e = (n.natAbs : Int) := by
        rw [← hv]; simp [Int.natCast_mul, Int.natCast_pow]
      by_cases h : n < 0
      · simp only [h, decide_true, if_true, Int.neg_mul, hv']; omega
      · simp only [h, decide_false, Bool.false_eq_true, if_false, hv']; omega
    · have hst' : stableDbl ⟨decide (n < 0), ds, ((natDigits n.natAbs).length : Int)⟩ = false := by simpa using hst
      refine ⟨(n, 0), ?_, sameNum_refl _⟩
      simp only [x2jVal, hst', Bool.false_eq_true, if_false, numVal, intDigitsOf]
      rw [show (((natDigits n.natAbs).length : Int) - (ds.length : Int)).toNat =
        (natDigits n.natAbs).length - ds.length by omega, happ, hval, hsign]

mutual
theorem same_mapNum : ∀ v : JValue, v.x2jDom = true →
    SameValue v (mapNum (fun n => x2jVal (denInt n)) x2jVal v)
  | .null, _ => .null
  | .bool b, _ => .bool b
  | .str s, _ => .str s
  | .int n, _ => by
    obtain ⟨b, hb, hs⟩ := sameNum_int n
    exact .num (v := .int n) rfl (by simpa [mapNum] using hb) hs
  | .dbl d, h => by
    obtain ⟨a, b, ha, hb, hs⟩ := sameNum_x2jVal d (by simpa [JValue.x2jDom] using h)
    exact .num ha (by simpa [mapNum] using hb) hs
  | .arr l, h => by
    simp only [mapNum]
    exact .arr (same_mapNumL l (by simpa [JValue.x2jDom] using h))
  | .obj m, h => by
    simp only [mapNum]
    exact .obj (same_mapNumM m [] (by simpa [JValue.x2jDom] using h))
theorem same_mapNumL : ∀ l : List JValue, x2jDomL l = true →
    SameL l (mapNumL (fun n => x2jVal (denInt n)) x2jVal l)
  | [], _ => .nil
  | v :: t, h => by
    have hh : v.x2jDom = true ∧ x2jDomL t = true := by simpa [x2jDomL] using h
    simp only [mapNumL]
    exact .cons (same_mapNum v hh.1) (same_mapNumL t hh.2)
theorem same_mapNumM : ∀ (m : List (Str × JValue)) (seen : List Str), x2jDomM seen m = true →
    SameM m (mapNumM (fun n => x2jVal (denInt n)) x2jVal m)
  | [], _, _ => .nil
  | (k, v) :: t, seen, h => by
    have hh : ((k.all isXmlCodepoint = true ∧ seen.contains k = false) ∧ v.x2jDom = true) ∧
        x2jDomM (k :: seen) t = true := by simpa [x2jDomM] using h
    simp only [mapNumM]
    exact .cons (same_mapNum v hh.1.2) (same_mapNumM t (k :: seen) hh.2)
end

end EPV.Json

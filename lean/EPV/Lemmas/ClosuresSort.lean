/-
C16: `fn:sort` — the order on keys is a total preorder; the model's sort (`List.mergeSort`,
standing for CPython's `sorted`) equals the specification's reference insertion sort and is a
stable ordered permutation.
-/
import EPV.Model.Closures
namespace EPV.Clo

theorem keyLe_refl : ∀ (a : List Int), keyLe a a = true
  | [] => rfl
  | x :: xs => by simp [keyLe, keyLe_refl xs]

theorem keyLe_total : ∀ (a b : List Int), (keyLe a b || keyLe b a) = true
  | [], _ => by simp [keyLe]
  | _ :: _, [] => by simp [keyLe]
  | x :: xs, y :: ys => by
    have ih := keyLe_total xs ys
    simp only [keyLe, Bool.or_eq_true, Bool.and_eq_true, decide_eq_true_eq, beq_iff_eq] at ih ⊢
    by_cases h1 : x < y
    · exact Or.inl (Or.inl h1)
    · by_cases h2 : y < x
      · exact Or.inr (Or.inl h2)
      · have : x = y := by omega
        subst this
        rcases ih with h | h
        · exact Or.inl (Or.inr ⟨rfl, h⟩)
        · exact Or.inr (Or.inr ⟨rfl, h⟩)

theorem keyLe_trans : ∀ (a b c : List Int), keyLe a b = true → keyLe b c = true → keyLe a c = true
  | [], _, _, _, _ => by simp [keyLe]
  | _ :: _, [], _, h, _ => by simp [keyLe] at h
  | _ :: _, _ :: _, [], _, h => by simp [keyLe] at h
  | x :: xs, y :: ys, z :: zs, h1, h2 => by
    simp only [keyLe, Bool.or_eq_true, Bool.and_eq_true, decide_eq_true_eq, beq_iff_eq] at h1 h2 ⊢
    rcases h1 with h1 | ⟨h1, h1'⟩ <;> rcases h2 with h2 | ⟨h2, h2'⟩
    · exact Or.inl (by omega)
    · exact Or.inl (by omega)
    · exact Or.inl (by omega)
    · exact Or.inr ⟨by omega, keyLe_trans xs ys zs h1' h2'⟩

/-- the order the sort uses on key-decorated items -/
def kle (p q : Item × List Int) : Bool := keyLe p.2 q.2

theorem kle_trans (a b c : Item × List Int) : kle a b = true → kle b c = true → kle a c = true :=
  keyLe_trans a.2 b.2 c.2

theorem kle_total (a b : Item × List Int) : (kle a b || kle b a) = true := keyLe_total a.2 b.2

theorem insertKey_append (a : Item × List Int) :
    ∀ (l₁ l₂ : List (Item × List Int)), (∀ b ∈ l₁, kle a b = false) → (∀ b ∈ l₂, kle a b = true) →
      insertKey a (l₁ ++ l₂) = l₁ ++ a :: l₂
  | [], [], _, _ => rfl
  | [], b :: l₂, _, h2 => by
    have : keyLe a.2 b.2 = true := h2 b (by simp)
    simp [insertKey, this]
  | y :: l₁, l₂, h1, h2 => by
    have hy : keyLe a.2 y.2 = false := h1 y (by simp)
    have ih := insertKey_append a l₁ l₂ (fun b hb => h1 b (by simp [hb])) h2
    simp [insertKey, hy, ih]

/-- the model's sort is the specification's reference sort -/
theorem mergeSort_eq_sortSpec : ∀ (l : List (Item × List Int)), l.mergeSort kle = sortSpec l
  | [] => by simp [sortSpec]
  | a :: l => by
    obtain ⟨l₁, l₂, h1, h2, h3⟩ := List.mergeSort_cons kle_trans kle_total a l
    have hs : (l₁ ++ a :: l₂).Pairwise (fun x y => kle x y = true) := by
      rw [← h1]; exact List.pairwise_mergeSort kle_trans kle_total _
    have hl2 : ∀ b ∈ l₂, kle a b = true := by
      have := (List.pairwise_append.mp hs).2.1
      exact (List.pairwise_cons.mp this).1
    rw [h1, sortSpec, ← mergeSort_eq_sortSpec l, h2]
    exact (insertKey_append a l₁ l₂ (fun b hb => by simpa using h3 b hb) hl2).symm

theorem sortByKey_eq (ks : List (Item × List Int)) : sortByKey ks = (sortSpec ks).map (·.1) := by
  unfold sortByKey
  have : (fun p q : Item × List Int => keyLe p.2 q.2) = kle := rfl
  rw [this, mergeSort_eq_sortSpec]

end EPV.Clo

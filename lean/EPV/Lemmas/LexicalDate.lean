/-
C10 — the year-bearing date/time constructors (C11's model `Cal.dateOfLex`, `Cal.dateTimeOfLex`, `Cal.gOfLex`,
imported read-only) against the lexical productions of EPV/Spec/XSDDateLex.lean.
-/
import EPV.Model.LexicalDate
import EPV.Spec.XSDDateLex
import EPV.Lemmas.LexicalGreg
import EPV.Lemmas.LexicalInt
import EPV.Lemmas.CalendarMk
import EPV.Lemmas.LexicalCanon
import EPV.Lemmas.LexicalStrip
namespace EPV.LexLemmas
open EPV EPV.Cal

/-! ### the constructor on fields that are no date or no time of day -/

def dateOk (a m d : Int) : Prop := 1 ≤ m ∧ m ≤ 12 ∧ 1 ≤ d ∧ d ≤ Timeline.monthLen a m
def timeOk (h mi s us : Int) : Prop :=
  (0 ≤ h ∧ h ≤ 23 ∧ 0 ≤ mi ∧ mi ≤ 59 ∧ 0 ≤ s ∧ s ≤ 59 ∧ 0 ≤ us ∧ us ≤ 999999) ∨ (h = 24 ∧ mi = 0 ∧ s = 0 ∧ us = 0)

theorem fields_bad (y m d h mi s us : Int) (hy : y ≠ 0) (L : Bool) (hL : L = proxyLeap y)
    (hbad : ¬ (dateOk (astro y) m d ∧ (0 ≤ h ∧ h ≤ 23 ∧ 0 ≤ mi ∧ mi ≤ 59 ∧ 0 ≤ s ∧ s ≤ 59 ∧ 0 ≤ us ∧ us ≤ 999999))) :
    pyFieldsOk L m d h mi s us = false := by
  unfold pyFieldsOk
  rw [decide_eq_false_iff_not]
  intro hc
  apply hbad
  refine ⟨⟨hc.1, hc.2.1, hc.2.2.1, ?_⟩, hc.2.2.2.2⟩
  rw [← monthDays_eq _ _ hc.1 hc.2.1, ← proxyLeap_eq y hy, ← hL]; exact hc.2.2.2.1

/-- anything that is not a date of the year with a time of day (or `24:00:00`) is an error -/
theorem mk_error (y m d h mi s us : Int) (tz : Option Int) (hy : y ≠ 0)
    (hbad : ¬ (dateOk (astro y) m d ∧ timeOk h mi s us)) : ∃ e, mk y m d h mi s us tz = .error e := by
  have core : ∀ (h' : Int) (add : Bool),
      ¬ (dateOk (astro y) m d ∧ (0 ≤ h' ∧ h' ≤ 23 ∧ 0 ≤ mi ∧ mi ≤ 59 ∧ 0 ≤ s ∧ s ≤ 59 ∧ 0 ≤ us ∧ us ≤ 999999)) →
      ∃ e, mkCore y m d h' mi s us add tz = .error e := by
    intro h' add hb
    unfold mkCore
    by_cases hr : 1 ≤ y ∧ y ≤ 9999
    · have hL : isleap y = proxyLeap y := by unfold proxyLeap; rw [if_neg (by omega)]
      rw [if_pos hr, fields_bad y m d h' mi s us hy _ hL hb]; exact ⟨_, rfl⟩
    · rw [if_neg hr, if_neg hy]
      by_cases hbig : y.natAbs > 2 ^ 31
      · rw [if_pos hbig]; exact ⟨_, rfl⟩
      · rw [if_neg hbig]
        simp only []
        rw [fields_bad y m d h' mi s us hy _ rfl hb]; exact ⟨_, rfl⟩
  unfold mk
  by_cases h24 : (h == 24 && mi == 0 && s == 0 && us == 0) = true
  · have e24 : h = 24 ∧ mi = 0 ∧ s = 0 ∧ us = 0 := by
      simp only [Bool.and_eq_true, beq_iff_eq] at h24
      exact ⟨h24.1.1.1, h24.1.1.2, h24.1.2, h24.2⟩
    have hd : ¬ dateOk (astro y) m d := fun hd => hbad ⟨hd, Or.inr e24⟩
    have hroll : (m == 12 && d == 31) = false := by
      apply Bool.eq_false_iff.2
      intro hc
      have : m = 12 ∧ d = 31 := by simpa using hc
      apply hd
      rw [this.1, this.2]
      exact ⟨by decide, by decide, by decide, by simp [Timeline.monthLen]⟩
    simp only [h24, if_true, Bool.true_and, hroll, Bool.false_and, Bool.false_eq_true, if_false]
    exact core 0 true (fun hc => hd hc.1)
  · have h24' : (h == 24 && mi == 0 && s == 0 && us == 0) = false := by simpa using h24
    simp only [h24', Bool.false_and, Bool.false_eq_true, if_false]
    apply core h false
    intro hc
    exact hbad ⟨hc.1, Or.inl hc.2⟩

/-! ### the year -/

theorem isDigit_fun : Char.isDigit = XSD.isDigit := by
  funext c; exact isDigit_eq c

theorem splitYear_eq (t : List Char) : splitYear t =
    (t.head? == some '-', (XSD.stripMinus t).takeWhile XSD.isDigit, (XSD.stripMinus t).dropWhile XSD.isDigit) := by
  by_cases h : ∃ r, t = '-' :: r
  · obtain ⟨r, rfl⟩ := h
    rw [splitYear.eq_1, isDigit_fun]; rfl
  · have hno : ∀ r, t = '-' :: r → False := fun r e => h ⟨r, e⟩
    rw [splitYear.eq_2 t hno, isDigit_fun]
    have hs : XSD.stripMinus t = t := by
      unfold XSD.stripMinus; split
      · exact absurd rfl (hno _)
      · rfl
    have hh : (t.head? == some '-') = false := by
      cases t with
      | nil => rfl
      | cons c r =>
        have : c ≠ '-' := fun e => hno r (by rw [e])
        simp [this]
    rw [hs, hh]

/-- the year number of the lexical form in the numbering of the XSD version: the checks of `fromstring` (no leading zero
beyond four digits, no year 0000 in XSD 1.0) and the stored year, against the astronomical year of the specification -/
def yearSpec (v11 : Bool) (neg : Bool) (yd : List Char) : Option Int :=
  if yd.length > 4 && yd.head? == some '0' then none
  else XSD.astroOfLex v11 (if neg then -(XSD.digitSeqVal yd 0 : Int) else (XSD.digitSeqVal yd 0 : Int))

theorem year_eq (v11 neg : Bool) (yd : List Char) :
    match yearSpec v11 neg yd with
    | some a => ∃ y, yearOfLex v11 neg yd = .ok y ∧ y ≠ 0 ∧ astro y = a
    | none => yearOfLex v11 neg yd = .error .value := by
  unfold yearSpec yearOfLex
  by_cases hz : yd.head? = some '0' ∧ yd.length > 4
  · have : (decide (yd.length > 4) && (yd.head? == some '0')) = true := by simp [hz.1, hz.2]
    rw [if_pos this, if_pos hz]
  · have : (decide (yd.length > 4) && (yd.head? == some '0')) = false := by
      apply Bool.eq_false_iff.2
      intro hc
      simp only [Bool.and_eq_true, decide_eq_true_eq, beq_iff_eq] at hc
      exact hz ⟨hc.2, hc.1⟩
    rw [if_neg (by simp [this]), if_neg hz]
    have hv : (XSD.digitSeqVal yd 0 : Int) = (digitsVal yd : Int) := by rw [digitSeqVal_eq]; rfl
    rw [hv]
    generalize (if neg = true then -(digitsVal yd : Int) else (digitsVal yd : Int)) = n
    unfold XSD.astroOfLex lexYear Timeline.astroOfLex11 Timeline.astroOfLex10 astro
    cases v11
    · simp only [Bool.false_eq_true, if_false]
      by_cases hn : n = 0
      · simp [hn]
      · simp only [hn, if_false]
        refine ⟨n, rfl, hn, ?_⟩
        split <;> split <;> omega
    · simp only [if_true]
      refine ⟨_, rfl, ?_, ?_⟩
      · split <;> omega
      · split <;> split <;> omega

/-! ### xs:date -/

theorem dateLex_unfold (v11 : Bool) (t : List Char) : XSD.dateLex v11 t =
    if ((XSD.stripMinus t).takeWhile XSD.isDigit).length < 4 then none else
    match (XSD.stripMinus t).dropWhile XSD.isDigit with
    | '-' :: a :: b :: '-' :: c :: d :: tail =>
      match yearSpec v11 (t.head? == some '-') ((XSD.stripMinus t).takeWhile XSD.isDigit), XSD.tzSuffix? tail with
      | some y, some tz =>
        if XSD.monthFragOk a b && XSD.dayFragOk c d && decide ((XSD.fragVal c d : Int) ≤ Timeline.monthLen y (XSD.fragVal a b)) then
          some { year := y, month := XSD.fragVal a b, day := XSD.fragVal c d, tz := tz }
        else none
      | _, _ => none
    | _ => none := by
  unfold XSD.dateLex XSD.yearFrag? yearSpec
  simp only []
  by_cases h4 : ((XSD.stripMinus t).takeWhile XSD.isDigit).length < 4
  · simp only [h4, if_true]
  · simp only [h4, if_false]
    by_cases hz : (decide (((XSD.stripMinus t).takeWhile XSD.isDigit).length > 4) && (((XSD.stripMinus t).takeWhile XSD.isDigit).head? == some '0')) = true
    · simp only [hz, if_true]
      split <;> rfl
    · have hz' : (decide (((XSD.stripMinus t).takeWhile XSD.isDigit).length > 4) && (((XSD.stripMinus t).takeWhile XSD.isDigit).head? == some '0')) = false := by
        simpa using hz
      simp only [hz', Bool.false_eq_true, if_false]
      generalize (XSD.stripMinus t).dropWhile XSD.isDigit = rest
      by_cases hshape : ∃ a b c d tail, rest = '-' :: a :: b :: '-' :: c :: d :: tail
      · obtain ⟨a, b, c, d, tail, rfl⟩ := hshape
        rfl
      · split
        · rename_i heq
          simp only [Option.some.injEq, Prod.mk.injEq] at heq
          exact absurd ⟨_, _, _, _, _, heq.2⟩ hshape
        · split
          · exact absurd ⟨_, _, _, _, _, rfl⟩ hshape
          · rfl

/-- C11 keeps its own transcription of `strip`, of the timezone group and of its rendering (`EPV.CalLex`, so that the builds
of the two properties are independent); they are the definitions of C10's `EPV.Lex` -/
theorem calPyStrip_eq : CalLex.pyStrip = Lex.pyStrip := rfl
theorem calTzParse_eq : CalLex.tzParse = Lex.tzParse := rfl
theorem calTzCanon_eq : CalLex.tzCanon = Lex.tzCanon := rfl

theorem parseTzTail_eq (t : List Char) : parseTzTail t = XSD.tzSuffix? t := by
  unfold parseTzTail XSD.tzSuffix?
  rw [calTzParse_eq]
  cases t with
  | nil => rfl
  | cons c r => simp [tzParse_eq_lookup]

theorem two_eq (a b : Char) : Cal.two a b = Lex.twoVal a b := rfl

theorem monthLen_le (a m : Int) : Timeline.monthLen a m ≤ 31 := by
  unfold Timeline.monthLen; split <;> split <;> omega

/-- the month and day fragments with the day-of-month constraint say that the fields are a date of the year -/
theorem dateCond_iff (a b c d : Char) (y : Int)
    (hm : ∀ lo hi, inRange a b lo hi = (decide (lo ≤ XSD.fragVal a b) && decide (XSD.fragVal a b ≤ hi)))
    (hd : ∀ lo hi, inRange c d lo hi = (decide (lo ≤ XSD.fragVal c d) && decide (XSD.fragVal c d ≤ hi))) :
    (XSD.monthFragOk a b && XSD.dayFragOk c d &&
      decide ((XSD.fragVal c d : Int) ≤ Timeline.monthLen y (XSD.fragVal a b))) = true ↔
    dateOk y (XSD.fragVal a b) (XSD.fragVal c d) := by
  rw [← month_ok, ← day_ok, hm, hd]
  unfold dateOk
  have := monthLen_le y (XSD.fragVal a b)
  simp only [Bool.and_eq_true, decide_eq_true_eq]
  omega

theorem internal_astro (y : Int) (hy : y ≠ 0) : internal (astro y) = y := by
  unfold internal astro
  by_cases h : y > 0
  · rw [if_pos h, if_pos h]
  · rw [if_neg h, if_neg (by omega)]; omega

theorem dateOfLex_unfold (v11 : Bool) (s : List Char) : dateOfLex v11 s =
    if ((XSD.stripMinus (Lex.pyStrip s)).takeWhile XSD.isDigit).length < 4 then .error .value else
    match (XSD.stripMinus (Lex.pyStrip s)).dropWhile XSD.isDigit with
    | '-' :: a :: b :: '-' :: c :: d :: tail =>
      match Lex.twoVal a b, Lex.twoVal c d with
      | some mo, some dd =>
        match XSD.tzSuffix? tail with
        | some tz => do
          let y ← yearOfLex v11 ((Lex.pyStrip s).head? == some '-') ((XSD.stripMinus (Lex.pyStrip s)).takeWhile XSD.isDigit)
          mk y mo dd 0 0 0 0 tz
        | none => .error .value
      | _, _ => .error .value
    | _ => .error .value := by
  unfold dateOfLex parseDateBody
  have e : pyStripAll s = Lex.pyStrip s := rfl
  rw [e, splitYear_eq]
  simp only []
  by_cases h4 : ((XSD.stripMinus (Lex.pyStrip s)).takeWhile XSD.isDigit).length < 4
  · simp only [h4, if_true]
  · simp only [h4, if_false]
    generalize (XSD.stripMinus (Lex.pyStrip s)).dropWhile XSD.isDigit = rest
    by_cases hshape : ∃ a b c d tail, rest = '-' :: a :: b :: '-' :: c :: d :: tail
    · obtain ⟨a, b, c, d, tail, rfl⟩ := hshape
      simp only [two_eq, parseTzTail_eq]
      cases Lex.twoVal a b <;> cases Lex.twoVal c d <;> simp only []
      rfl
    · split
      · rename_i heq
        split at heq
        · exact absurd ⟨_, _, _, _, _, rfl⟩ hshape
        · cases heq
      · split
        · exact absurd ⟨_, _, _, _, _, rfl⟩ hshape
        · rfl

theorem mkCore_tz (y m d h mi s us : Int) (add : Bool) (tz : Option Int) (w : DT)
    (hw : mkCore y m d h mi s us add tz = .ok w) : w.tz = tz := by
  unfold mkCore at hw
  repeat' (first | split at hw | (simp only [] at hw; split at hw))
  all_goals first
    | (cases hw; done)
    | (cases hw; rfl)
    | (simp only [Except.ok.injEq] at hw; rw [← hw])

theorem mk_tz (y m d h mi s us : Int) (tz : Option Int) (w : DT)
    (hw : mk y m d h mi s us tz = .ok w) : w.tz = tz := by
  unfold mk at hw
  simp only [] at hw
  split at hw
  · exact mkCore_tz _ _ _ _ _ _ _ _ _ _ hw
  · exact mkCore_tz _ _ _ _ _ _ _ _ _ _ hw
/-- the result the specification assigns to a literal with the given fields: the value of the fields on the timeline; nothing
is claimed beyond the implementation's limit of 2^31 years, and a string outside the lexical space is an error -/
def Agrees (r : Except Err DT) (us : Int) : Option XSD.DateFields → Prop
  | some f => (∀ w, r = .ok w → w.tz = f.tz) ∧ ((internal f.year).natAbs < 2 ^ 31 →
      ∃ w, r = .ok w ∧ w.year ≠ 0 ∧
        absV w = Timeline.ofFields f.year f.month f.day f.hour f.minute f.second us f.tz)
  | none => ∃ e, r = .error e

/-- the common last step: year and constructor -/
theorem year_then_mk (v11 neg : Bool) (yd : List Char) (mo dd h mi sec : Nat) (us : Int) (tz : Option Int) :
    match yearSpec v11 neg yd with
    | some a =>
      (dateOk a mo dd ∧ timeOk h mi sec us → (internal a).natAbs < 2 ^ 31 →
        ∃ w, (do let y ← yearOfLex v11 neg yd; mk y mo dd h mi sec us tz) = .ok w ∧ w.year ≠ 0 ∧
          absV w = Timeline.ofFields a mo dd h mi sec us tz) ∧
      (¬ (dateOk a mo dd ∧ timeOk h mi sec us) →
        ∃ e, (do let y ← yearOfLex v11 neg yd; mk y mo dd h mi sec us tz) = .error e) ∧
      (∀ w, (do let y ← yearOfLex v11 neg yd; mk y mo dd h mi sec us tz) = .ok w → w.tz = tz)
    | none => ∃ e, (do let y ← yearOfLex v11 neg yd; mk y mo dd h mi sec us tz) = .error e := by
  have hy := year_eq v11 neg yd
  cases hs : yearSpec v11 neg yd with
  | none =>
    rw [hs] at hy
    simp only [] at hy ⊢
    rw [hy]; exact ⟨_, rfl⟩
  | some a =>
    rw [hs] at hy
    simp only [] at hy ⊢
    obtain ⟨y, hy1, hy0, hya⟩ := hy
    rw [hy1]
    subst hya
    refine ⟨?_, ?_, ?_⟩
    · intro hok hb
      rw [internal_astro y hy0] at hb
      exact mk_spec y mo dd h mi sec us tz hy0 (by omega) (fun _ => by omega) ⟨hok.1.1, hok.1.2.1⟩ ⟨hok.1.2.2.1, hok.1.2.2.2⟩ hok.2
    · intro hbad
      exact mk_error y mo dd h mi sec us tz hy0 hbad
    · intro w hw
      exact mk_tz _ _ _ _ _ _ _ _ _ hw

theorem timeOk_zero : timeOk (0 : Nat) (0 : Nat) (0 : Nat) 0 := Or.inl (by simp)

theorem match6_none {α : Type} (rest : List Char) (f : Char → Char → Char → Char → List Char → α) (z : α) :
    (∀ a b c d tail, rest ≠ '-' :: a :: b :: '-' :: c :: d :: tail) →
    (match rest with | '-' :: a :: b :: '-' :: c :: d :: tail => f a b c d tail | _ => z) = z := by
  intro hno
  split
  · exact absurd rfl (hno _ _ _ _ _)
  · rfl

/-- **xs:date**: `Date.fromstring` / `Date10.fromstring` against dateLexicalRep -/
theorem date_agrees (v11 : Bool) (s : List Char) :
    Agrees (dateOfLex v11 s) 0 (XSD.dateLex v11 (Lex.pyStrip s)) := by
  rw [dateOfLex_unfold, dateLex_unfold]
  by_cases h4 : ((XSD.stripMinus (Lex.pyStrip s)).takeWhile XSD.isDigit).length < 4
  · simp only [h4, if_true]; exact ⟨_, rfl⟩
  · simp only [h4, if_false]
    generalize (XSD.stripMinus (Lex.pyStrip s)).dropWhile XSD.isDigit = rest
    generalize (XSD.stripMinus (Lex.pyStrip s)).takeWhile XSD.isDigit = yd
    generalize ((Lex.pyStrip s).head? == some '-') = neg
    by_cases hshape : ∃ a b c d tail, rest = '-' :: a :: b :: '-' :: c :: d :: tail
    · obtain ⟨a, b, c, d, tail, rfl⟩ := hshape
      simp only []
      rcases twoVal_cases a b with ⟨ha1, ha2⟩ | ⟨ha1, ha2⟩
      · have hm : XSD.monthFragOk a b = false := by rw [← month_ok]; exact ha2 1 12
        rw [ha1]
        simp only [hm, Bool.false_and, Bool.false_eq_true, if_false]
        have : (match yearSpec v11 neg yd, XSD.tzSuffix? tail with
            | some _, some _ => (none : Option XSD.DateFields) | _, _ => none) = none := by
          split <;> rfl
        rw [this]; exact ⟨_, rfl⟩
      · rcases twoVal_cases c d with ⟨hc1, hc2⟩ | ⟨hc1, hc2⟩
        · have hd : XSD.dayFragOk c d = false := by rw [← day_ok]; exact hc2 1 31
          rw [ha1, hc1]
          simp only [hd, Bool.and_false, Bool.false_and, Bool.false_eq_true, if_false]
          have : (match yearSpec v11 neg yd, XSD.tzSuffix? tail with
              | some _, some _ => (none : Option XSD.DateFields) | _, _ => none) = none := by
            split <;> rfl
          rw [this]; exact ⟨_, rfl⟩
        · rw [ha1, hc1]
          simp only []
          cases htz : XSD.tzSuffix? tail with
          | none =>
            have : (match yearSpec v11 neg yd, (none : Option (Option Int)) with
                | some y, some tz => (if XSD.monthFragOk a b && XSD.dayFragOk c d &&
                    decide ((XSD.fragVal c d : Int) ≤ Timeline.monthLen y (XSD.fragVal a b)) then
                    some ({ year := y, month := XSD.fragVal a b, day := XSD.fragVal c d, tz := tz } : XSD.DateFields)
                    else none)
                | _, _ => none) = none := by
              split
              · rename_i h; cases h
              · rfl
            rw [this]; exact ⟨_, rfl⟩
          | some tz =>
            have hym := year_then_mk v11 neg yd (XSD.fragVal a b) (XSD.fragVal c d) 0 0 0 0 tz
            cases hs : yearSpec v11 neg yd with
            | none =>
              rw [hs] at hym
              simp only [] at hym ⊢
              exact hym
            | some y =>
              rw [hs] at hym
              simp only [] at hym ⊢
              by_cases hc : dateOk y (XSD.fragVal a b) (XSD.fragVal c d)
              · rw [if_pos ((dateCond_iff a b c d y ha2 hc2).2 hc)]
                exact ⟨hym.2.2, fun hb => hym.1 ⟨hc, timeOk_zero⟩ hb⟩
              · rw [if_neg (fun h => hc ((dateCond_iff a b c d y ha2 hc2).1 h))]
                exact hym.2.1 (fun h => hc h.1)
    · have hno : ∀ a b c d tail, rest ≠ '-' :: a :: b :: '-' :: c :: d :: tail :=
        fun a b c d tail e => hshape ⟨a, b, c, d, tail, e⟩
      rw [match6_none rest _ _ hno, match6_none rest _ _ hno]; exact ⟨_, rfl⟩

/-! ### xs:gYear, xs:gYearMonth -/

theorem monthLen_ge (a m : Int) : 28 ≤ Timeline.monthLen a m := by
  unfold Timeline.monthLen; split <;> split <;> omega

theorem gYearLex_unfold (v11 : Bool) (t : List Char) : XSD.gYearLex v11 t =
    if ((XSD.stripMinus t).takeWhile XSD.isDigit).length < 4 then none else
    match yearSpec v11 (t.head? == some '-') ((XSD.stripMinus t).takeWhile XSD.isDigit),
      XSD.tzSuffix? ((XSD.stripMinus t).dropWhile XSD.isDigit) with
    | some y, some tz => some { year := y, tz := tz }
    | _, _ => none := by
  unfold XSD.gYearLex XSD.yearFrag? yearSpec
  simp only []
  by_cases h4 : ((XSD.stripMinus t).takeWhile XSD.isDigit).length < 4
  · simp only [h4, if_true]
  · simp only [h4, if_false]
    by_cases hz : (decide (((XSD.stripMinus t).takeWhile XSD.isDigit).length > 4) && (((XSD.stripMinus t).takeWhile XSD.isDigit).head? == some '0')) = true
    · simp only [hz, if_true]
    · have hz' : (decide (((XSD.stripMinus t).takeWhile XSD.isDigit).length > 4) && (((XSD.stripMinus t).takeWhile XSD.isDigit).head? == some '0')) = false := by
        simpa using hz
      simp only [hz', Bool.false_eq_true, if_false]
      rfl

theorem gYearOfLex_unfold (v11 : Bool) (s : List Char) : gOfLex .gYear v11 s =
    if ((XSD.stripMinus (Lex.pyStrip s)).takeWhile XSD.isDigit).length < 4 then .error .value else
    match XSD.tzSuffix? ((XSD.stripMinus (Lex.pyStrip s)).dropWhile XSD.isDigit) with
    | some tz => do
      let y ← yearOfLex v11 ((Lex.pyStrip s).head? == some '-') ((XSD.stripMinus (Lex.pyStrip s)).takeWhile XSD.isDigit)
      mk y (1 : Nat) (1 : Nat) (0 : Nat) (0 : Nat) (0 : Nat) 0 tz
    | none => .error .value := by
  unfold gOfLex
  have e : pyStripAll s = Lex.pyStrip s := rfl
  simp only [e, splitYear_eq, parseTzTail_eq]
  rfl

theorem dateOk_first (a : Int) : dateOk a (1 : Nat) (1 : Nat) := by
  have := monthLen_ge a (1 : Nat)
  unfold dateOk; omega

/-- **xs:gYear** -/
theorem gYear_agrees (v11 : Bool) (s : List Char) :
    Agrees (gOfLex .gYear v11 s) 0 (XSD.gYearLex v11 (Lex.pyStrip s)) := by
  rw [gYearOfLex_unfold, gYearLex_unfold]
  by_cases h4 : ((XSD.stripMinus (Lex.pyStrip s)).takeWhile XSD.isDigit).length < 4
  · simp only [h4, if_true]; exact ⟨_, rfl⟩
  · simp only [h4, if_false]
    generalize (XSD.stripMinus (Lex.pyStrip s)).dropWhile XSD.isDigit = rest
    generalize (XSD.stripMinus (Lex.pyStrip s)).takeWhile XSD.isDigit = yd
    generalize ((Lex.pyStrip s).head? == some '-') = neg
    cases htz : XSD.tzSuffix? rest with
    | none =>
      have : (match yearSpec v11 neg yd, (none : Option (Option Int)) with
          | some y, some tz => some ({ year := y, tz := tz } : XSD.DateFields) | _, _ => none) = none := by
        split
        · rename_i h; cases h
        · rfl
      rw [this]; exact ⟨_, rfl⟩
    | some tz =>
      have hym := year_then_mk v11 neg yd 1 1 0 0 0 0 tz
      cases hs : yearSpec v11 neg yd with
      | none => rw [hs] at hym; simp only [] at hym ⊢; exact hym
      | some y =>
        rw [hs] at hym
        simp only [] at hym ⊢
        exact ⟨hym.2.2, fun hb => hym.1 ⟨dateOk_first y, timeOk_zero⟩ hb⟩

theorem match3_none {α : Type} (rest : List Char) (f : Char → Char → List Char → α) (z : α) :
    (∀ a b tail, rest ≠ '-' :: a :: b :: tail) →
    (match rest with | '-' :: a :: b :: tail => f a b tail | _ => z) = z := by
  intro hno
  split
  · exact absurd rfl (hno _ _ _)
  · rfl

theorem gYearMonthLex_unfold (v11 : Bool) (t : List Char) : XSD.gYearMonthLex v11 t =
    if ((XSD.stripMinus t).takeWhile XSD.isDigit).length < 4 then none else
    match (XSD.stripMinus t).dropWhile XSD.isDigit with
    | '-' :: a :: b :: tail =>
      match yearSpec v11 (t.head? == some '-') ((XSD.stripMinus t).takeWhile XSD.isDigit), XSD.tzSuffix? tail with
      | some y, some tz => if XSD.monthFragOk a b then some { year := y, month := XSD.fragVal a b, tz := tz } else none
      | _, _ => none
    | _ => none := by
  unfold XSD.gYearMonthLex XSD.yearFrag? yearSpec
  simp only []
  by_cases h4 : ((XSD.stripMinus t).takeWhile XSD.isDigit).length < 4
  · simp only [h4, if_true]
  · simp only [h4, if_false]
    by_cases hz : (decide (((XSD.stripMinus t).takeWhile XSD.isDigit).length > 4) && (((XSD.stripMinus t).takeWhile XSD.isDigit).head? == some '0')) = true
    · simp only [hz, if_true]
      split <;> rfl
    · have hz' : (decide (((XSD.stripMinus t).takeWhile XSD.isDigit).length > 4) && (((XSD.stripMinus t).takeWhile XSD.isDigit).head? == some '0')) = false := by
        simpa using hz
      simp only [hz', Bool.false_eq_true, if_false]
      generalize (XSD.stripMinus t).dropWhile XSD.isDigit = rest
      by_cases hshape : ∃ a b tail, rest = '-' :: a :: b :: tail
      · obtain ⟨a, b, tail, rfl⟩ := hshape
        rfl
      · split
        · rename_i heq
          simp only [Option.some.injEq, Prod.mk.injEq] at heq
          exact absurd ⟨_, _, _, heq.2⟩ hshape
        · split
          · exact absurd ⟨_, _, _, rfl⟩ hshape
          · rfl

theorem gYearMonthOfLex_unfold (v11 : Bool) (s : List Char) : gOfLex .gYearMonth v11 s =
    if ((XSD.stripMinus (Lex.pyStrip s)).takeWhile XSD.isDigit).length < 4 then .error .value else
    match (XSD.stripMinus (Lex.pyStrip s)).dropWhile XSD.isDigit with
    | '-' :: a :: b :: tail =>
      match Lex.twoVal a b, XSD.tzSuffix? tail with
      | some mo, some tz => do
        let y ← yearOfLex v11 ((Lex.pyStrip s).head? == some '-') ((XSD.stripMinus (Lex.pyStrip s)).takeWhile XSD.isDigit)
        mk y mo (1 : Nat) (0 : Nat) (0 : Nat) (0 : Nat) 0 tz
      | _, _ => .error .value
    | _ => .error .value := by
  unfold gOfLex
  have e : pyStripAll s = Lex.pyStrip s := rfl
  simp only [e, splitYear_eq, parseTzTail_eq]
  by_cases h4 : ((XSD.stripMinus (Lex.pyStrip s)).takeWhile XSD.isDigit).length < 4
  · simp only [h4, if_true]
  · simp only [h4, if_false]
    generalize (XSD.stripMinus (Lex.pyStrip s)).dropWhile XSD.isDigit = rest
    by_cases hshape : ∃ a b tail, rest = '-' :: a :: b :: tail
    · obtain ⟨a, b, tail, rfl⟩ := hshape
      simp only [two_eq]
      rfl
    · have hno : ∀ a b tail, rest ≠ '-' :: a :: b :: tail := fun a b tail e => hshape ⟨a, b, tail, e⟩
      rw [match3_none rest _ _ hno]
      split
      · exact absurd rfl (hno _ _ _)
      · rfl

/-- **xs:gYearMonth** -/
theorem gYearMonth_agrees (v11 : Bool) (s : List Char) :
    Agrees (gOfLex .gYearMonth v11 s) 0 (XSD.gYearMonthLex v11 (Lex.pyStrip s)) := by
  rw [gYearMonthOfLex_unfold, gYearMonthLex_unfold]
  by_cases h4 : ((XSD.stripMinus (Lex.pyStrip s)).takeWhile XSD.isDigit).length < 4
  · simp only [h4, if_true]; exact ⟨_, rfl⟩
  · simp only [h4, if_false]
    generalize (XSD.stripMinus (Lex.pyStrip s)).dropWhile XSD.isDigit = rest
    generalize (XSD.stripMinus (Lex.pyStrip s)).takeWhile XSD.isDigit = yd
    generalize ((Lex.pyStrip s).head? == some '-') = neg
    by_cases hshape : ∃ a b tail, rest = '-' :: a :: b :: tail
    · obtain ⟨a, b, tail, rfl⟩ := hshape
      simp only []
      rcases twoVal_cases a b with ⟨ha1, ha2⟩ | ⟨ha1, ha2⟩
      · have hm : XSD.monthFragOk a b = false := by rw [← month_ok]; exact ha2 1 12
        rw [ha1]
        simp only [hm, Bool.false_eq_true, if_false]
        have : (match yearSpec v11 neg yd, XSD.tzSuffix? tail with
            | some _, some _ => (none : Option XSD.DateFields) | _, _ => none) = none := by
          split <;> rfl
        rw [this]; exact ⟨_, rfl⟩
      · rw [ha1]
        cases htz : XSD.tzSuffix? tail with
        | none =>
          simp only []
          have : (match yearSpec v11 neg yd, (none : Option (Option Int)) with
              | some y, some tz => (if XSD.monthFragOk a b then
                  some ({ year := y, month := XSD.fragVal a b, tz := tz } : XSD.DateFields) else none)
              | _, _ => none) = none := by
            split
            · rename_i h; cases h
            · rfl
          rw [this]; exact ⟨_, rfl⟩
        | some tz =>
          have hym := year_then_mk v11 neg yd (XSD.fragVal a b) 1 0 0 0 0 tz
          cases hs : yearSpec v11 neg yd with
          | none => rw [hs] at hym; simp only [] at hym ⊢; exact hym
          | some y =>
            rw [hs] at hym
            simp only [] at hym ⊢
            have hmo : XSD.monthFragOk a b = (decide (1 ≤ XSD.fragVal a b) && decide (XSD.fragVal a b ≤ 12)) := by
              rw [← month_ok]; exact ha2 1 12
            have hge := monthLen_ge y (XSD.fragVal a b)
            by_cases hc : 1 ≤ XSD.fragVal a b ∧ XSD.fragVal a b ≤ 12
            · have : XSD.monthFragOk a b = true := by rw [hmo]; simp [hc.1, hc.2]
              rw [if_pos this]
              refine ⟨hym.2.2, fun hb => hym.1 ⟨?_, timeOk_zero⟩ hb⟩
              unfold dateOk; omega
            · have : XSD.monthFragOk a b = false := by
                rw [hmo]; simp only [Bool.and_eq_false_iff, decide_eq_false_iff_not]; omega
              rw [if_neg (by simp [this])]
              refine hym.2.1 (fun h => hc ?_)
              have := h.1; unfold dateOk at this; omega
    · have hno : ∀ a b tail, rest ≠ '-' :: a :: b :: tail := fun a b tail e => hshape ⟨a, b, tail, e⟩
      rw [match3_none rest _ _ hno, match3_none rest _ _ hno]; exact ⟨_, rfl⟩

/-! ### the time of day of xs:dateTime -/

theorem ofDigitChars_lt : (l : List Char) → (∀ c ∈ l, c.isDigit = true) → (acc : Nat) →
    Nat.ofDigitChars 10 l acc < (acc + 1) * 10 ^ l.length
  | [], _, acc => by simp
  | c :: l, h, acc => by
    have hc := (isDigit_iff c).1 (h c (List.mem_cons_self ..))
    have ih := ofDigitChars_lt l (fun x hx => h x (List.mem_cons_of_mem _ hx)) (10 * acc + (c.toNat - '0'.toNat))
    rw [Nat.ofDigitChars_cons]
    have e : '0'.toNat = 48 := rfl
    rw [e] at ih ⊢
    have : (10 * acc + (c.toNat - 48) + 1) * 10 ^ l.length ≤ (acc + 1) * 10 ^ (c :: l).length := by
      rw [List.length_cons, Nat.pow_succ]
      have h1 : 10 * acc + (c.toNat - 48) + 1 ≤ 10 * (acc + 1) := by omega
      calc (10 * acc + (c.toNat - 48) + 1) * 10 ^ l.length
          ≤ (10 * (acc + 1)) * 10 ^ l.length := Nat.mul_le_mul_right _ h1
        _ = (acc + 1) * (10 ^ l.length * 10) := by ac_rfl
    omega


theorem pad_take (ds : List Char) :
    (ds ++ List.replicate (6 - ds.length) '0').take 6 = (ds ++ List.replicate 6 '0').take 6 := by
  by_cases h : 6 ≤ ds.length
  · have : 6 - ds.length = 0 := by omega
    rw [this, List.replicate_zero, List.append_nil, List.take_append_of_le_length h]
  · rw [List.take_append, List.take_append, List.take_replicate, List.take_replicate]
    congr 2
    omega

theorem fracUs_some (fs : List Char) : fracUs (some fs) = (Lex.microOf fs : Nat) := by
  unfold fracUs Lex.microOf
  simp only [pad_take]
  rfl

theorem fracUs_none : fracUs none = (Lex.microOf [] : Nat) := by rw [microOf_nil]; rfl

theorem microOf_lt (fs : List Char) (h : ∀ c ∈ fs, c.isDigit = true) : Lex.microOf fs < 1000000 := by
  unfold Lex.microOf Lex.digitsVal
  have hd : ∀ c ∈ (fs ++ List.replicate 6 '0').take 6, c.isDigit = true := by
    intro c hc
    rcases List.mem_append.1 (List.mem_of_mem_take hc) with hc | hc
    · exact h c hc
    · rw [(List.mem_replicate.1 hc).2]; rfl
  have hl : ((fs ++ List.replicate 6 '0').take 6).length = 6 := by
    rw [List.length_take, List.length_append, List.length_replicate]; omega
  have := ofDigitChars_lt _ hd 0
  rw [hl] at this
  simpa using this

theorem microOf_zeros (fs : List Char) (h : fs.all (· == '0') = true) : Lex.microOf fs = 0 := by
  unfold Lex.microOf
  apply digitsVal_zeros
  intro c hc
  rcases List.mem_append.1 (List.mem_of_mem_take hc) with hc | hc
  · have := List.all_eq_true.1 h c hc
    simpa using this
  · exact (List.mem_replicate.1 hc).2

/-- what C11's time path reads from the text after the `T`: hour, minute, second, microseconds, timezone -/
def timePart (r : List Char) : Option (Nat × Nat × Nat × Int × Option Int) :=
  match parseTimeBody r with
  | some (h, mi, sec, fd, tail) =>
    match parseTzTail tail with
    | some tz => if endOfDayBad h fd then none else some (h, mi, sec, fracUs fd, tz)
    | none => none
  | none => none

/-- the acceptance test of C10's model of `Time.fromstring` on the fields read by C11's -/
def timeView : Option (Nat × Nat × Nat × Int × Option Int) → Option Lex.DTVal
  | some (h, mi, sec, us, tz) =>
    if h == 24 then (if mi == 0 && sec == 0 && us == 0 then some { tz := tz } else none)
    else if h ≤ 23 ∧ mi ≤ 59 ∧ sec ≤ 59 then some { hour := h, minute := mi, second := sec, micro := us.toNat, tz := tz }
    else none
  | none => none

theorem parseTimeBody_eq (a b c d e f : Char) (rest : List Char) :
    parseTimeBody (a :: b :: ':' :: c :: d :: ':' :: e :: f :: rest) =
    match Lex.twoVal a b, Lex.twoVal c d, Lex.twoVal e f, Lex.readFraction rest with
    | some h, some mi, some sec, some (fs, r') => some (h, mi, sec, (if fs.isEmpty then none else some fs), r')
    | _, _, _, _ => none := by
  unfold parseTimeBody
  simp only [two_eq]
  cases Lex.twoVal a b with
  | none => rfl
  | some h =>
  cases Lex.twoVal c d with
  | none => rfl
  | some mi =>
  cases Lex.twoVal e f with
  | none => rfl
  | some sec =>
  simp only []
  by_cases hdot : ∃ q, rest = '.' :: q
  · obtain ⟨q, rfl⟩ := hdot
    simp only [Lex.readFraction]
    have e : Lex.isDigit = Char.isDigit := rfl
    rw [e]
    by_cases he : (q.takeWhile Char.isDigit).isEmpty = true
    · simp [he]
    · simp [he]
  · have hno : ∀ q, rest ≠ '.' :: q := fun q e => hdot ⟨q, e⟩
    have e1 : Lex.readFraction rest = some ([], rest) := by
      unfold Lex.readFraction
      split
      · exact absurd rfl (hno _)
      · rfl
    rw [e1]
    split
    · exact absurd rfl (hno _)
    · rfl

theorem fd_facts (fs : List Char) :
    fracUs (if fs.isEmpty then none else some fs) = (Lex.microOf fs : Nat) ∧
    fracNonZero (if fs.isEmpty then none else some fs) = !fs.all (· == '0') := by
  cases fs with
  | nil => exact ⟨fracUs_none, rfl⟩
  | cons x q =>
    refine ⟨fracUs_some _, ?_⟩
    show (List.any (x :: q) fun c => c != '0') = _
    rw [List.any_eq_not_all_not]
    congr 1
    apply List.all_congr rfl
    intro c; cases h : (c == '0') <;> simp [bne, h]

theorem parseTime_timePart (r : List Char) : Lex.parseTime r = timeView (timePart r) := by
  by_cases hsh : ∃ a b c d e f rest, r = a :: b :: ':' :: c :: d :: ':' :: e :: f :: rest
  · obtain ⟨a, b, c, d, e, f, rest, rfl⟩ := hsh
    rw [Lex.parseTime.eq_1]
    unfold timePart
    rw [parseTimeBody_eq]
    cases Lex.twoVal a b with
    | none => rfl
    | some h =>
    cases Lex.twoVal c d with
    | none => rfl
    | some mi =>
    cases Lex.twoVal e f with
    | none => rfl
    | some sec =>
    cases Lex.readFraction rest with
    | none => rfl
    | some p =>
    obtain ⟨fs, r'⟩ := p
    simp only [tzOpt_eq, parseTzTail_eq]
    cases XSD.tzSuffix? r' with
    | none => rfl
    | some tz =>
      simp only [timeView, endOfDayBad, (fd_facts fs).1, (fd_facts fs).2]
      by_cases h24 : h = 24
      · subst h24
        cases hz : fs.all (· == '0') with
        | true => simp [microOf_zeros fs hz]
        | false => simp
      · have : (h == 24) = false := by simpa using h24
        simp [this]
  · have hno : ∀ a b c d e f rest, r = a :: b :: ':' :: c :: d :: ':' :: e :: f :: rest → False :=
      fun a b c d e f rest e' => hsh ⟨a, b, c, d, e, f, rest, e'⟩
    rw [Lex.parseTime.eq_2 r hno]
    have : parseTimeBody r = none := by
      unfold parseTimeBody
      split
      · exact absurd rfl (hno _ _ _ _ _ _ _)
      · rfl
    unfold timePart
    rw [this]; rfl

theorem readFraction_digits (rest fs r' : List Char) (h : Lex.readFraction rest = some (fs, r')) :
    ∀ c ∈ fs, c.isDigit = true := by
  unfold Lex.readFraction at h
  split at h
  · simp only [] at h
    split at h
    · cases h
    · simp only [Option.some.injEq, Prod.mk.injEq] at h
      intro c hc
      rw [← h.1] at hc
      exact mem_takeWhile_pred _ _ _ hc
  · simp only [Option.some.injEq, Prod.mk.injEq] at h
    intro c hc; rw [← h.1] at hc; cases hc

theorem timePart_facts (r : List Char) (h mi sec : Nat) (us : Int) (tz : Option Int)
    (hp : timePart r = some (h, mi, sec, us, tz)) :
    0 ≤ us ∧ us ≤ 999999 ∧ (h = 24 ↔ ∃ q, r = '2' :: '4' :: q) := by
  by_cases hsh : ∃ a b c d e f rest, r = a :: b :: ':' :: c :: d :: ':' :: e :: f :: rest
  · obtain ⟨a, b, c, d, e, f, rest, rfl⟩ := hsh
    unfold timePart at hp
    rw [parseTimeBody_eq] at hp
    rcases twoVal_cases a b with ⟨h1, _⟩ | ⟨h1, _⟩
    · rw [h1] at hp; cases hp
    · rw [h1] at hp
      cases h3 : Lex.twoVal c d with
      | none => rw [h3] at hp; cases hp
      | some mi' =>
      cases h5 : Lex.twoVal e f with
      | none => rw [h3, h5] at hp; cases hp
      | some sec' =>
      cases hf : Lex.readFraction rest with
      | none => rw [h3, h5, hf] at hp; cases hp
      | some p =>
      obtain ⟨fs, r'⟩ := p
      rw [h3, h5, hf] at hp
      simp only [] at hp
      cases htz : parseTzTail r' with
      | none => rw [htz] at hp; cases hp
      | some tz' =>
        rw [htz] at hp
        simp only [] at hp
        have hfd := (fd_facts fs).1
        generalize (if fs.isEmpty then none else some fs) = fd at hp hfd
        by_cases hb : endOfDayBad (XSD.fragVal a b) fd = true
        · rw [if_pos hb] at hp; cases hp
        · rw [if_neg hb] at hp
          simp only [Option.some.injEq, Prod.mk.injEq] at hp
          obtain ⟨e1, _, _, e4, _⟩ := hp
          have hlt := microOf_lt fs (readFraction_digits rest fs r' hf)
          rw [hfd] at e4
          refine ⟨by omega, by omega, ?_⟩
          have hd : (Lex.isDigit a && Lex.isDigit b) = true := by
            rw [twoVal_eq] at h1
            cases hh : (Lex.isDigit a && Lex.isDigit b) with
            | true => rfl
            | false => rw [hh] at h1; cases h1
          have h24 := is24 a b
          rw [hd, Bool.true_and] at h24
          rw [← e1]
          constructor
          · intro hv
            have : (a == '2' && b == '4') = true := by rw [h24]; simpa using hv
            simp only [Bool.and_eq_true, beq_iff_eq] at this
            exact ⟨_, by rw [this.1, this.2]⟩
          · rintro ⟨q, hq⟩
            simp only [List.cons.injEq] at hq
            have : (a == '2' && b == '4') = true := by simp [hq.1, hq.2.1]
            rw [h24] at this
            simpa using this
  · have hno : ∀ a b c d e f rest, r = a :: b :: ':' :: c :: d :: ':' :: e :: f :: rest → False :=
      fun a b c d e f rest e' => hsh ⟨a, b, c, d, e, f, rest, e'⟩
    have : parseTimeBody r = none := by
      unfold parseTimeBody
      split
      · exact absurd rfl (hno _ _ _ _ _ _ _)
      · rfl
    unfold timePart at hp
    rw [this] at hp; cases hp

/-- the time of day of the literal: C11's reading against `XSD.timeLex` (through C10's `time_eq`) -/
theorem timePart_of_timeLex (r : List Char) :
    match XSD.timeLex r with
    | some g => ∃ h mi sec us, timePart r = some (h, mi, sec, us, g.tz) ∧ timeOk h mi sec us ∧
        h = XSD.hourOf r g ∧ mi = g.minute ∧ sec = g.second ∧
        us = (Lex.microOf g.frac : Nat)
    | none => timePart r = none ∨
        ∃ h mi sec us tz, timePart r = some (h, mi, sec, us, tz) ∧ ¬ timeOk (h : Nat) (mi : Nat) (sec : Nat) us := by
  have hv := time_eq r
  rw [parseTime_timePart] at hv
  cases hp : timePart r with
  | none =>
    rw [hp] at hv
    cases hg : XSD.timeLex r with
    | none => exact Or.inl rfl
    | some g => rw [hg] at hv; cases hv
  | some p =>
    obtain ⟨h, mi, sec, us, tz⟩ := p
    obtain ⟨hu0, hu1, h24⟩ := timePart_facts r h mi sec us tz hp
    rw [hp] at hv
    unfold timeView at hv
    cases hg : XSD.timeLex r with
    | none =>
      rw [hg] at hv
      refine Or.inr ⟨h, mi, sec, us, tz, rfl, ?_⟩
      simp only [Option.map_none] at hv
      by_cases e24 : h = 24
      · subst e24
        simp only [beq_self_eq_true, if_true] at hv
        split at hv
        · cases hv
        · rename_i hc
          intro hok
          apply hc
          rcases hok with hok | hok
          · omega
          · simp only [Bool.and_eq_true, beq_iff_eq]
            omega
      · have : (h == 24) = false := by simpa using e24
        simp only [this, Bool.false_eq_true, if_false] at hv
        split at hv
        · cases hv
        · rename_i hc
          intro hok
          apply hc
          rcases hok with hok | hok
          · omega
          · omega
    | some g =>
      rw [hg] at hv
      simp only [Option.map_some] at hv
      by_cases e24 : h = 24
      · subst e24
        simp only [beq_self_eq_true, if_true] at hv
        split at hv
        · rename_i hc
          simp only [Bool.and_eq_true, beq_iff_eq] at hc
          simp only [Option.some.injEq] at hv
          have hq := h24.1 rfl
          obtain ⟨q, rfl⟩ := hq
          have e1 : g.minute = 0 := by have := congrArg Lex.DTVal.minute hv; simpa [toDT] using this.symm
          have e2 : g.second = 0 := by have := congrArg Lex.DTVal.second hv; simpa [toDT] using this.symm
          have e3 : Lex.microOf g.frac = 0 := by have := congrArg Lex.DTVal.micro hv; simpa [toDT] using this.symm
          have e4 : g.tz = tz := by have := congrArg Lex.DTVal.tz hv; simpa [toDT] using this.symm
          refine ⟨24, mi, sec, us, by rw [e4], Or.inr ⟨rfl, by omega, by omega, hc.2⟩, rfl, by omega, by omega, ?_⟩
          rw [e3, hc.2]; rfl
        · cases hv
      · have hne : (h == 24) = false := by simpa using e24
        simp only [hne, Bool.false_eq_true, if_false] at hv
        split at hv
        · rename_i hc
          simp only [Option.some.injEq] at hv
          have e0 : g.hour = h := by have := congrArg Lex.DTVal.hour hv; simpa [toDT] using this.symm
          have e1 : g.minute = mi := by have := congrArg Lex.DTVal.minute hv; simpa [toDT] using this.symm
          have e2 : g.second = sec := by have := congrArg Lex.DTVal.second hv; simpa [toDT] using this.symm
          have e3 : Lex.microOf g.frac = us.toNat := by have := congrArg Lex.DTVal.micro hv; simpa [toDT] using this.symm
          have e4 : g.tz = tz := by have := congrArg Lex.DTVal.tz hv; simpa [toDT] using this.symm
          refine ⟨h, mi, sec, us, by rw [e4], Or.inl (by omega), ?_, e1.symm, e2.symm, by omega⟩
          have hnq : ∀ q, r ≠ '2' :: '4' :: q := fun q hq => e24 (h24.2 ⟨q, hq⟩)
          unfold XSD.hourOf
          split
          · exact absurd rfl (hnq _)
          · exact e0.symm
        · cases hv

/-! ### xs:dateTime -/

theorem match7_none {α : Type} (rest : List Char) (f : Char → Char → Char → Char → List Char → α) (z : α) :
    (∀ a b c d r, rest ≠ '-' :: a :: b :: '-' :: c :: d :: 'T' :: r) →
    (match rest with | '-' :: a :: b :: '-' :: c :: d :: 'T' :: r => f a b c d r | _ => z) = z := by
  intro hno
  split
  · exact absurd rfl (hno _ _ _ _ _)
  · rfl

theorem dateTimeLex_unfold (v11 : Bool) (t : List Char) : XSD.dateTimeLex v11 t =
    if ((XSD.stripMinus t).takeWhile XSD.isDigit).length < 4 then none else
    match (XSD.stripMinus t).dropWhile XSD.isDigit with
    | '-' :: a :: b :: '-' :: c :: d :: 'T' :: r =>
      match yearSpec v11 (t.head? == some '-') ((XSD.stripMinus t).takeWhile XSD.isDigit), XSD.timeLex r with
      | some y, some g =>
        if XSD.monthFragOk a b && XSD.dayFragOk c d && decide ((XSD.fragVal c d : Int) ≤ Timeline.monthLen y (XSD.fragVal a b)) then
          some { year := y, month := XSD.fragVal a b, day := XSD.fragVal c d,
                 hour := XSD.hourOf r g, minute := g.minute, second := g.second,
                 frac := g.frac, tz := g.tz }
        else none
      | _, _ => none
    | _ => none := by
  unfold XSD.dateTimeLex XSD.yearFrag? yearSpec
  simp only []
  by_cases h4 : ((XSD.stripMinus t).takeWhile XSD.isDigit).length < 4
  · simp only [h4, if_true]
  · simp only [h4, if_false]
    by_cases hz : (decide (((XSD.stripMinus t).takeWhile XSD.isDigit).length > 4) && (((XSD.stripMinus t).takeWhile XSD.isDigit).head? == some '0')) = true
    · simp only [hz, if_true]
      split <;> rfl
    · have hz' : (decide (((XSD.stripMinus t).takeWhile XSD.isDigit).length > 4) && (((XSD.stripMinus t).takeWhile XSD.isDigit).head? == some '0')) = false := by
        simpa using hz
      simp only [hz', Bool.false_eq_true, if_false]
      generalize (XSD.stripMinus t).dropWhile XSD.isDigit = rest
      by_cases hshape : ∃ a b c d r, rest = '-' :: a :: b :: '-' :: c :: d :: 'T' :: r
      · obtain ⟨a, b, c, d, r, rfl⟩ := hshape
        rfl
      · split
        · rename_i heq
          simp only [Option.some.injEq, Prod.mk.injEq] at heq
          exact absurd ⟨_, _, _, _, _, heq.2⟩ hshape
        · split
          · exact absurd ⟨_, _, _, _, _, rfl⟩ hshape
          · rfl

theorem dateTimeOfLex_unfold (v11 : Bool) (s : List Char) : dateTimeOfLex v11 s =
    if ((XSD.stripMinus (Lex.pyStrip s)).takeWhile XSD.isDigit).length < 4 then .error .value else
    match (XSD.stripMinus (Lex.pyStrip s)).dropWhile XSD.isDigit with
    | '-' :: a :: b :: '-' :: c :: d :: 'T' :: r =>
      match Lex.twoVal a b, Lex.twoVal c d with
      | some mo, some dd =>
        match timePart r with
        | some (h, mi, sec, us, tz) => do
          let y ← yearOfLex v11 ((Lex.pyStrip s).head? == some '-') ((XSD.stripMinus (Lex.pyStrip s)).takeWhile XSD.isDigit)
          mk y mo dd h mi sec us tz
        | none => .error .value
      | _, _ => .error .value
    | _ => .error .value := by
  unfold dateTimeOfLex parseDateBody
  have e : pyStripAll s = Lex.pyStrip s := rfl
  rw [e, splitYear_eq]
  simp only []
  by_cases h4 : ((XSD.stripMinus (Lex.pyStrip s)).takeWhile XSD.isDigit).length < 4
  · simp only [h4, if_true]
  · simp only [h4, if_false]
    generalize (XSD.stripMinus (Lex.pyStrip s)).dropWhile XSD.isDigit = rest
    by_cases hshape : ∃ a b c d r, rest = '-' :: a :: b :: '-' :: c :: d :: 'T' :: r
    · obtain ⟨a, b, c, d, r, rfl⟩ := hshape
      simp only [two_eq]
      cases Lex.twoVal a b <;> cases Lex.twoVal c d <;> simp only []
      unfold timePart
      cases parseTimeBody r with
      | none => rfl
      | some p =>
        obtain ⟨h, mi, sec, fd, tail⟩ := p
        simp only []
        cases parseTzTail tail with
        | none => rfl
        | some tz =>
          simp only []
          by_cases hb : endOfDayBad h fd = true
          · simp only [hb, if_true]
          · simp only [hb, if_false]; rfl
    · have hno : ∀ a b c d r, rest ≠ '-' :: a :: b :: '-' :: c :: d :: 'T' :: r := fun a b c d r e => hshape ⟨a, b, c, d, r, e⟩
      rw [match7_none rest _ _ hno]
      split
      · rename_i heq
        split at heq
        · rename_i m1 m2 d1 d2 tail
          split at heq
          · simp only [Option.some.injEq, Prod.mk.injEq] at heq
            exact absurd (by rw [heq.2.2.2.2]) (hno m1 m2 d1 d2 _)
          · cases heq
        · cases heq
      · rfl

theorem microOf_eq (fs : List Char) : Lex.microOf fs = XSD.microTrunc fs := by
  unfold Lex.microOf XSD.microTrunc Lex.digitsVal
  rw [digitSeqVal_eq]

/-- the microseconds the specification assigns to the literal -/
def usOf : Option XSD.DateFields → Int
  | some f => (XSD.microTrunc f.frac : Nat)
  | none => 0

/-- **xs:dateTime**: `DateTime.fromstring` / `DateTime10.fromstring` against dateTimeLexicalRep -/
theorem dateTime_agrees (v11 : Bool) (s : List Char) :
    Agrees (dateTimeOfLex v11 s) (usOf (XSD.dateTimeLex v11 (Lex.pyStrip s))) (XSD.dateTimeLex v11 (Lex.pyStrip s)) := by
  rw [dateTimeOfLex_unfold, dateTimeLex_unfold]
  by_cases h4 : ((XSD.stripMinus (Lex.pyStrip s)).takeWhile XSD.isDigit).length < 4
  · simp only [h4, if_true]; exact ⟨_, rfl⟩
  · simp only [h4, if_false]
    generalize (XSD.stripMinus (Lex.pyStrip s)).dropWhile XSD.isDigit = rest
    generalize (XSD.stripMinus (Lex.pyStrip s)).takeWhile XSD.isDigit = yd
    generalize ((Lex.pyStrip s).head? == some '-') = neg
    by_cases hshape : ∃ a b c d r, rest = '-' :: a :: b :: '-' :: c :: d :: 'T' :: r
    · obtain ⟨a, b, c, d, r, rfl⟩ := hshape
      simp only []
      have hnone : ∀ (F : Int → XSD.GVal → Option XSD.DateFields), (∀ y g, F y g = none) →
          (match yearSpec v11 neg yd, XSD.timeLex r with | some y, some g => F y g | _, _ => none) = none := by
        intro F hF
        split
        · exact hF _ _
        · rfl
      rcases twoVal_cases a b with ⟨ha1, ha2⟩ | ⟨ha1, ha2⟩
      · have hm : XSD.monthFragOk a b = false := by rw [← month_ok]; exact ha2 1 12
        rw [ha1, hnone _ (fun y g => by simp only [hm, Bool.false_and, Bool.false_eq_true, if_false])]
        exact ⟨_, rfl⟩
      · rcases twoVal_cases c d with ⟨hc1, hc2⟩ | ⟨hc1, hc2⟩
        · have hd : XSD.dayFragOk c d = false := by rw [← day_ok]; exact hc2 1 31
          rw [ha1, hc1, hnone _ (fun y g => by simp only [hd, Bool.and_false, Bool.false_and, Bool.false_eq_true, if_false])]
          exact ⟨_, rfl⟩
        · rw [ha1, hc1]
          simp only []
          have htp := timePart_of_timeLex r
          cases hg : XSD.timeLex r with
          | none =>
            rw [hg] at htp
            simp only [] at htp
            have hn2 : ∀ (F : Int → XSD.GVal → Option XSD.DateFields),
                (match yearSpec v11 neg yd, (none : Option XSD.GVal) with | some y, some g => F y g | _, _ => none) = none := by
              intro F
              split
              · rename_i h; cases h
              · rfl
            rw [hn2]
            rcases htp with htp | ⟨h, mi, sec, us, tz, htp, hbad⟩
            · rw [htp]; exact ⟨_, rfl⟩
            · rw [htp]
              simp only []
              have hym := year_then_mk v11 neg yd (XSD.fragVal a b) (XSD.fragVal c d) h mi sec us tz
              cases hs : yearSpec v11 neg yd with
              | none => rw [hs] at hym; exact hym
              | some y => rw [hs] at hym; exact hym.2.1 (fun hh => hbad hh.2)
          | some g =>
            rw [hg] at htp
            simp only [] at htp
            obtain ⟨h, mi, sec, us, htp, hok, eh, emi, esec, eus⟩ := htp
            rw [htp]
            simp only []
            have hym := year_then_mk v11 neg yd (XSD.fragVal a b) (XSD.fragVal c d) h mi sec us g.tz
            cases hs : yearSpec v11 neg yd with
            | none => rw [hs] at hym; simp only [] at hym ⊢; exact hym
            | some y =>
              rw [hs] at hym
              simp only [] at hym ⊢
              by_cases hc : dateOk y (XSD.fragVal a b) (XSD.fragVal c d)
              · rw [if_pos ((dateCond_iff a b c d y ha2 hc2).2 hc)]
                refine ⟨hym.2.2, fun hb => ?_⟩
                obtain ⟨w, hw1, hw2, hw3⟩ := hym.1 ⟨hc, hok⟩ hb
                refine ⟨w, hw1, hw2, ?_⟩
                simp only [usOf, ← microOf_eq, ← emi, ← esec, ← eus]
                rw [hw3, ← eh]
              · rw [if_neg (fun h => hc ((dateCond_iff a b c d y ha2 hc2).1 h))]
                exact hym.2.1 (fun h => hc h.1)
    · have hno : ∀ a b c d r, rest ≠ '-' :: a :: b :: '-' :: c :: d :: 'T' :: r := fun a b c d r e => hshape ⟨a, b, c, d, r, e⟩
      rw [match7_none rest _ _ hno, match7_none rest _ _ hno]; exact ⟨_, rfl⟩

/-! ### xs:dateTimeStamp -/

/-- an accepted xs:dateTime carries a timezone exactly when the text after the seconds is not empty -/
theorem stamp_tz (s : List Char) (w : DT) (h : dateTimeOfLex true s = .ok w) :
    w.tz.isSome = !Lex.stampTzAbsent s := by
  unfold dateTimeOfLex at h
  unfold Lex.stampTzAbsent
  split at h
  · rename_i heq
    rw [heq]
    simp only []
    split at h
    · rename_i heq2
      rw [heq2]
      simp only []
      rename_i tail
      unfold parseTzTail at h
      by_cases he : tail.isEmpty = true
      · rw [if_pos he] at h
        simp only [] at h
        split at h
        · cases h
        · cases hy : yearOfLex true _ _ with
          | error e => rw [hy] at h; cases h
          | ok y =>
            rw [hy] at h
            have := mk_tz _ _ _ _ _ _ _ _ _ h
            rw [this, he]; rfl
      · rw [if_neg he] at h
        have he' : tail.isEmpty = false := by simpa using he
        rw [he']
        rw [calTzParse_eq] at h
        cases hz : Lex.tzParse tail with
        | none => rw [hz] at h; cases h
        | some z =>
          rw [hz] at h
          simp only [Option.map_some] at h
          split at h
          · cases h
          · cases hy : yearOfLex true _ _ with
            | error e => rw [hy] at h; cases h
            | ok y =>
              rw [hy] at h
              have := mk_tz _ _ _ _ _ _ _ _ _ h
              rw [this]; rfl
    · cases h
  · cases h

theorem dateTimeStamp_agrees (t : List Char) :
    Agrees (Lex.dateTimeStampOfLex t) (usOf (XSD.dateTimeStampLex true (Lex.pyStrip t))) (XSD.dateTimeStampLex true (Lex.pyStrip t)) := by
  have h := dateTime_agrees true t
  unfold Lex.dateTimeStampOfLex XSD.dateTimeStampLex
  cases hf : XSD.dateTimeLex true (Lex.pyStrip t) with
  | none =>
    rw [hf] at h
    obtain ⟨e, he⟩ := h
    rw [he]
    simp only []
    split <;> exact ⟨_, rfl⟩
  | some f =>
    rw [hf] at h
    obtain ⟨htz, hok⟩ := h
    simp only []
    cases hz : f.tz with
    | none =>
      simp only [Option.isSome_none, Bool.false_eq_true, if_false]
      by_cases ha : Lex.stampTzAbsent t = true
      · rw [if_pos ha]; exact ⟨_, rfl⟩
      · rw [if_neg ha]
        cases hr : dateTimeOfLex true t with
        | error e => exact ⟨_, rfl⟩
        | ok w =>
          have h1 := htz w hr
          have h2 := stamp_tz t w hr
          rw [h1, hz] at h2
          have ha' : Lex.stampTzAbsent t = false := by simpa using ha
          rw [ha'] at h2; cases h2
    | some z =>
      simp only [Option.isSome_some, if_true]
      refine ⟨?_, fun hb => ?_⟩
      · intro w hw
        split at hw
        · cases hw
        · rw [htz w hw, hz]
      · obtain ⟨w, hw1, hw2, hw3⟩ := hok hb
        have h1 := htz w hw1
        have h2 := stamp_tz t w hw1
        rw [h1, hz] at h2
        have ha : Lex.stampTzAbsent t = false := by simpa using h2.symm
        rw [ha]
        simp only [Bool.false_eq_true, if_false]
        exact ⟨w, hw1, hw2, by simpa [usOf, hz] using hw3⟩

end EPV.LexLemmas

/-
C12 helper lemmas: the transcribed scanner of `translate_pattern` outside bracket expressions
(Model/RegexFuns.lean: `scanStep`, `scanLoop`, `translateM`) against the lexeme-level grammar of
the specification (`lexStepS`, `lexS`), lexeme by lexeme, with the meaning of the emitted fragments
under Python's `re` as the parameter `PySem`.
-/
import EPV.Lemmas.RegexClass
namespace EPV.Regex

/-- the XPath flavour on the specification side -/
def xo : Opts := { xpath := true }

/-- the matching options of `translate_pattern` (defaults of the XPath functions, flags `s`/`m` only) -/
def soOf (fl : Flags) (v10 : Bool) : ScanOpts :=
  { dotAll := fl.dotAll, multi := fl.multi, verbose := false, v10 := v10, backrefs := true, lazy := true, anchors := true }

/-- What Python's `re` is assumed to make of each fragment `translate_pattern` emits — the only
statement about CPython the translation theorem rests on.  (`den` of a back-reference, `[d]`, `\\s \\w`
and of a lone backslash is left unconstrained: those are outside the theorem.) -/
structure PySem (T : Tables) (fl : Flags) where
  den : PyAtom → RE
  chr : ∀ c, den (.chr c) = .cls (· == c)
  escSingle : ∀ e c, singleEsc xo e = some c → den (.esc e) = .cls (· == c)
  escD : ∀ e neg, multiEsc e = some (.d, neg) → den (.esc e) = XAtom.den T fl (.cls (.mk false [.esc .d neg] none) [92, e])
  dotAll : den .dotAll = anyCh
  dotNoNL : den .dotNoNL = .cls fun c => c != 10 && c != 13
  bol : den .bol = .anchor .bol
  bolM : den .bolM = .anchor .bolM
  eol : den .eol = .anchor .eol
  eolM : den .eolM = .anchor .eolM
  cls : ∀ cc, den (.cls cc) = .cls fun x => decide (x < maxCP1) && cc.strDenote x
  nameEsc : ∀ start neg src, den (.nameEsc start neg) =
    XAtom.den T fl (.cls (.mk false [.esc (if start then .i else .c) neg] none) src)
  prop : ∀ name s neg src, T.prop name = some s →
    den (.prop s neg) = XAtom.den T fl (.cls (.mk false [.prop name neg] none) src)

/-- the emitted fragments denote, token for token, what the lexemes denote -/
def Rel {T : Tables} {fl : Flags} (sem : PySem T fl) (xs : List (Tok XAtom)) (ps : List (Tok PyAtom)) : Prop :=
  ps.map (Tok.map sem.den) = xs.map (Tok.map (XAtom.den T fl))

def isQuantStart (c : Ch) : Bool := c == 63 || c == 42 || c == 43 || c == 123

/-- group depth after the tokens of one step -/
def depthAfter (nested : Nat) : List (Tok XAtom) → Nat
  | [] => nested
  | .lpar _ :: ts => depthAfter (nested + 1) ts
  | .rpar :: ts => depthAfter (nested - 1) ts
  | _ :: ts => depthAfter nested ts

/-- side conditions of the translation theorem at one lexeme (`inp` = the text at that lexeme):
* `\\s \\S \\w \\W` outside brackets (finding F12w) and back-references are outside the theorem;
* a `\\p{..}` names a subset known to both table sets, identically;
* a bracket expression is one on which the class scanner agrees with the XSD reading
  (`charclass_scan_plain_partial` and the CLS correspondence say where that holds; F12, F12s, F12u where not);
* structural facts every valid pattern has: `)` closes an open group, a quantifier is neither the
  first lexeme nor directly followed by another quantifier. -/
def StepOK (Tm : MTables) (T : Tables) (v10 : Bool) (atStart : Bool) (nested : Nat) (inp : List Ch) : Prop :=
  match inp with
  | 92 :: e :: rest =>
    ¬ (e == 115 || e == 83 || e == 119 || e == 87) ∧ isDigit e = false ∧
    ((e == 112 || e == 80) = true → ∀ name rest', pPropName rest = some (name, rest') →
        Tm.prop name = T.prop name ∧ (T.prop name).isSome ∧ ¬ rest.head? = none)
  | 91 :: rest =>
    ∀ c rest' st, pClass xo (3 * rest.length + 4) rest {} = some (c, rest', st) →
      ∃ cc e, parseClassM Tm v10 (rest.length + 1) rest = some (cc, rest') ∧ c.toClassE T = some e ∧
        ∀ x, x < maxCP1 → cc.contains x = specClass e x
  | 41 :: _ => 0 < nested
  | 40 :: rest => startsWith1 63 rest = true → startsWith2 63 58 rest = true
  | c :: rest =>
    isQuantStart c = true → atStart = false ∧
      ∀ q rest', pQuant xo (c :: rest) = some (some q, rest') → (match rest' with | c2 :: _ => isQuantStart c2 = false | [] => True)
  | [] => True


theorem rel_single {T : Tables} {fl : Flags} (sem : PySem T fl) (xa : XAtom) (pa : PyAtom)
    (h : sem.den pa = XAtom.den T fl xa) : Rel sem [.atom xa] [.atom pa] := by
  simp [Rel, Tok.map, h]

theorem rel_struct {T : Tables} {fl : Flags} (sem : PySem T fl) (t : Tok XAtom) (t' : Tok PyAtom)
    (h : Tok.map sem.den t' = Tok.map (XAtom.den T fl) t) : Rel sem [t] [t'] := by
  simp [Rel, h]

theorem singleEsc_mem {e c : Ch} (h : singleEsc xo e = some c) :
    e ∈ [110, 114, 116, 92, 124, 46, 63, 42, 43, 40, 41, 123, 125, 45, 91, 93, 94, 36] := by
  unfold singleEsc at h
  by_cases h1 : e = 110
  · subst h1; decide
  by_cases h2 : e = 114
  · subst h2; decide
  by_cases h3 : e = 116
  · subst h3; decide
  simp only [beq_iff_eq, h1, h2, h3, if_false] at h
  split at h
  · rename_i hc
    have := List.contains_iff_mem.1 hc
    simp only [List.mem_cons, List.not_mem_nil, or_false] at this
    rcases this with h|h|h|h|h|h|h|h|h|h|h|h|h|h <;> (subst h; decide)
  · split at h
    · rename_i hc
      simp only [xo, Bool.true_and, beq_iff_eq] at hc
      subst hc; decide
    · cases h


section step
variable {T : Tables} {fl : Flags} (sem : PySem T fl) (Tm : MTables) (v10 : Bool)

/-- the conclusion of the step lemma -/
def StepGoal (atStart : Bool) (opened nested : Nat) (inp : List Ch) (xt : List (Tok XAtom)) (rest : List Ch) (opened' : Nat) : Prop :=
  ∃ pt, scanStep Tm (soOf fl v10) atStart opened nested inp = some (pt, rest, opened', depthAfter nested xt) ∧ Rel sem xt pt

theorem step_rpar (atStart : Bool) (opened nested : Nat) (rest0 : List Ch) (xt rest opened' u)
    (h : lexStepS xo opened (41 :: rest0) = some (xt, rest, opened', u))
    (hok : StepOK Tm T v10 atStart nested (41 :: rest0)) :
    StepGoal sem Tm v10 atStart opened nested (41 :: rest0) xt rest opened' := by
  simp only [lexStepS, Option.some.injEq, Prod.mk.injEq] at h
  obtain ⟨rfl, rfl, rfl, _⟩ := h
  have hn : 0 < nested := hok
  have hne : (nested == 0) = false := by simp; omega
  refine ⟨[.rpar], ?_, rel_struct sem _ _ rfl⟩
  simp [scanStep, hne, depthAfter]

theorem step_bar (atStart : Bool) (opened nested : Nat) (rest0 : List Ch) (xt rest opened' u)
    (h : lexStepS xo opened (124 :: rest0) = some (xt, rest, opened', u)) :
    StepGoal sem Tm v10 atStart opened nested (124 :: rest0) xt rest opened' := by
  simp only [lexStepS, Option.some.injEq, Prod.mk.injEq] at h
  obtain ⟨rfl, rfl, rfl, _⟩ := h
  refine ⟨[.bar], ?_, rel_struct sem _ _ rfl⟩
  simp [scanStep, depthAfter]

theorem step_dot (atStart : Bool) (opened nested : Nat) (rest0 : List Ch) (xt rest opened' u)
    (h : lexStepS xo opened (46 :: rest0) = some (xt, rest, opened', u)) :
    StepGoal sem Tm v10 atStart opened nested (46 :: rest0) xt rest opened' := by
  simp only [lexStepS, Option.some.injEq, Prod.mk.injEq] at h
  obtain ⟨rfl, rfl, rfl, _⟩ := h
  cases hd : fl.dotAll
  · refine ⟨[.atom .dotNoNL], ?_, ?_⟩
    · simp [scanStep, depthAfter, soOf, hd]
    · apply rel_single; simp [XAtom.den, hd, sem.dotNoNL]
  · refine ⟨[.atom .dotAll], ?_, ?_⟩
    · simp [scanStep, depthAfter, soOf, hd]
    · apply rel_single; simp [XAtom.den, hd, sem.dotAll]

theorem step_lpar (atStart : Bool) (opened nested : Nat) (rest0 : List Ch) (xt rest opened' u)
    (h : lexStepS xo opened (40 :: rest0) = some (xt, rest, opened', u))
    (hok : StepOK Tm T v10 atStart nested (40 :: rest0)) :
    StepGoal sem Tm v10 atStart opened nested (40 :: rest0) xt rest opened' := by
  simp only [StepOK] at hok
  simp only [lexStepS, xo, Bool.true_and] at h
  unfold StepGoal
  simp only [scanStep, soOf]
  by_cases hnc : startsWith2 63 58 rest0 = true
  · -- `(?:`
    have htake : (rest0.take 2 == [63, 58]) = true := by
      match rest0, hnc with
      | c :: d :: r, hnc =>
        simp only [startsWith2, Bool.and_eq_true, beq_iff_eq] at hnc
        obtain ⟨rfl, rfl⟩ := hnc
        simp
    simp only [htake, if_true, Option.some.injEq, Prod.mk.injEq] at h
    obtain ⟨rfl, rfl, rfl, _⟩ := h
    refine ⟨[.lpar false], ?_, rel_struct sem _ _ rfl⟩
    simp [hnc, depthAfter]
  · have hext : startsWith1 63 rest0 = false := by
      cases hh : startsWith1 63 rest0 with
      | false => rfl
      | true => exact absurd (hok hh) hnc
    have htake : (rest0.take 2 == [63, 58]) = false := by
      match rest0, hext with
      | [], _ => simp
      | [c], hext =>
        simp
      | c :: d :: r, hext =>
        simp only [startsWith1, beq_eq_false_iff_ne, ne_eq] at hext
        simp [hext]
    simp only [htake, Bool.false_eq_true, if_false, Option.some.injEq, Prod.mk.injEq] at h
    obtain ⟨rfl, rfl, rfl, _⟩ := h
    refine ⟨[.lpar true], ?_, rel_struct sem _ _ rfl⟩
    have hnc' : startsWith2 63 58 rest0 = false := by simpa using hnc
    simp [hnc', hext, depthAfter]

theorem strDenote_eq_contains (c : CC) (x : Nat) : c.strDenote x = c.contains x := by
  unfold CC.strDenote CC.contains
  cases hn : c.neg.isEmpty <;> cases hp : c.pos.isEmpty <;> simp
  intro h; rw [(isEmpty_iff _).1 hp x] at h; cases h

theorem step_class (atStart : Bool) (opened nested : Nat) (rest0 : List Ch) (xt rest opened' u)
    (h : lexStepS xo opened (91 :: rest0) = some (xt, rest, opened', u))
    (hok : StepOK Tm T v10 atStart nested (91 :: rest0)) :
    StepGoal sem Tm v10 atStart opened nested (91 :: rest0) xt rest opened' := by
  simp only [StepOK] at hok
  simp only [lexStepS] at h
  split at h
  · rename_i c rest' st hpc
    simp only [Option.some.injEq, Prod.mk.injEq] at h
    obtain ⟨rfl, rfl, rfl, _⟩ := h
    obtain ⟨cc, e, hm, he, hag⟩ := hok c rest' st hpc
    refine ⟨[.atom (.cls cc)], ?_, ?_⟩
    · simp [scanStep, soOf, hm, depthAfter]
    · apply rel_single
      rw [sem.cls]
      simp only [XAtom.den, he]
      congr 1
      funext x
      by_cases hx : x < maxCP1
      · simp [hx, strDenote_eq_contains, hag x hx]
      · simp [hx]
  · cases h

theorem multiEsc_cases {e : Ch} {k : EscKind} {neg : Bool} (h : multiEsc e = some (k, neg)) :
    (e = 115 ∧ k = .s ∧ neg = false) ∨ (e = 83 ∧ k = .s ∧ neg = true) ∨
    (e = 100 ∧ k = .d ∧ neg = false) ∨ (e = 68 ∧ k = .d ∧ neg = true) ∨
    (e = 119 ∧ k = .w ∧ neg = false) ∨ (e = 87 ∧ k = .w ∧ neg = true) ∨
    (e = 105 ∧ k = .i ∧ neg = false) ∨ (e = 73 ∧ k = .i ∧ neg = true) ∨
    (e = 99 ∧ k = .c ∧ neg = false) ∨ (e = 67 ∧ k = .c ∧ neg = true) := by
  unfold multiEsc at h
  repeat' split at h
  all_goals first
    | (rename_i heq; simp only [beq_iff_eq] at heq; simp only [Option.some.injEq, Prod.mk.injEq] at h; obtain ⟨rfl, rfl⟩ := h; subst heq; simp)
    | cases h

theorem isNameCh_ne_close {c : Ch} (hc : isNameCh c = true) : (c != 125) = true := by
  have : c ≠ 125 := by
    intro h125; subst h125; simp [isNameCh, isDigit] at hc
  simpa using this

theorem name_scan (r rest' : List Ch) (hd : r.dropWhile isNameCh = 125 :: rest') :
    r.takeWhile (· != 125) = r.takeWhile isNameCh ∧ r.dropWhile (· != 125) = 125 :: rest' := by
  induction r with
  | nil => simp at hd
  | cons c r ih =>
    by_cases hc : isNameCh c = true
    · have hne := isNameCh_ne_close hc
      rw [List.dropWhile_cons_of_pos hc] at hd
      have ⟨i1, i2⟩ := ih hd
      simp only [List.takeWhile_cons, List.dropWhile_cons, hne, hc, if_true, i1, i2, and_self]
    · rw [List.dropWhile_cons_of_neg hc] at hd
      simp only [List.cons.injEq] at hd
      obtain ⟨rfl, rfl⟩ := hd
      simp [hc]

theorem pPropName_model {rest : List Ch} {name rest2 : List Ch} (h : pPropName rest = some (name, rest2)) :
    ∃ r, rest = 123 :: r ∧ r.takeWhile (· != 125) = name ∧ r.dropWhile (· != 125) = 125 :: rest2 := by
  unfold pPropName at h
  split at h
  · rename_i r
    simp only at h
    split at h
    · rename_i rest' hd
      split at h
      · cases h
      · simp only [Option.some.injEq, Prod.mk.injEq] at h
        obtain ⟨rfl, rfl⟩ := h
        have ⟨i1, i2⟩ := name_scan r _ hd
        exact ⟨r, rfl, i1, i2⟩
    · cases h
  · cases h

theorem step_esc (atStart : Bool) (opened nested : Nat) (e : Ch) (r0 : List Ch) (xt rest opened' u)
    (h : lexStepS xo opened (92 :: e :: r0) = some (xt, rest, opened', u))
    (hok : StepOK Tm T v10 atStart nested (92 :: e :: r0)) :
    StepGoal sem Tm v10 atStart opened nested (92 :: e :: r0) xt rest opened' := by
  simp only [StepOK] at hok
  obtain ⟨hsw, hdig, hprop⟩ := hok
  simp only [lexStepS] at h
  unfold StepGoal
  cases hs : singleEsc xo e with
  | some ch =>
    simp only [hs, Option.some.injEq, Prod.mk.injEq] at h
    obtain ⟨rfl, rfl, rfl, _⟩ := h
    refine ⟨[.atom (.esc e)], ?_, rel_single sem _ _ (by rw [sem.escSingle e ch hs]; rfl)⟩
    have hm := singleEsc_mem hs
    simp only [List.mem_cons, List.not_mem_nil, or_false] at hm
    rcases hm with h|h|h|h|h|h|h|h|h|h|h|h|h|h|h|h|h|h <;> subst h <;> simp [scanStep, soOf, isDig, depthAfter]
  | none =>
    simp only [hs] at h
    cases hm : multiEsc e with
    | some kn =>
      obtain ⟨k, neg⟩ := kn
      simp only [hm, Option.some.injEq, Prod.mk.injEq] at h
      obtain ⟨rfl, rfl, rfl, _⟩ := h
      rcases multiEsc_cases hm with ⟨rfl, rfl, rfl⟩ | ⟨rfl, rfl, rfl⟩ | ⟨rfl, rfl, rfl⟩ | ⟨rfl, rfl, rfl⟩ |
        ⟨rfl, rfl, rfl⟩ | ⟨rfl, rfl, rfl⟩ | ⟨rfl, rfl, rfl⟩ | ⟨rfl, rfl, rfl⟩ | ⟨rfl, rfl, rfl⟩ | ⟨rfl, rfl, rfl⟩
      · simp at hsw
      · simp at hsw
      · exact ⟨[.atom (.esc 100)], by simp [scanStep, soOf, isDig, depthAfter], rel_single sem _ _ (sem.escD 100 false hm)⟩
      · exact ⟨[.atom (.esc 68)], by simp [scanStep, soOf, isDig, depthAfter], rel_single sem _ _ (sem.escD 68 true hm)⟩
      · simp at hsw
      · simp at hsw
      · exact ⟨[.atom (.nameEsc true false)], by simp [scanStep, soOf, isDig, depthAfter], rel_single sem _ _ (sem.nameEsc true false _)⟩
      · exact ⟨[.atom (.nameEsc true true)], by simp [scanStep, soOf, isDig, depthAfter], rel_single sem _ _ (sem.nameEsc true true _)⟩
      · exact ⟨[.atom (.nameEsc false false)], by simp [scanStep, soOf, isDig, depthAfter], rel_single sem _ _ (sem.nameEsc false false _)⟩
      · exact ⟨[.atom (.nameEsc false true)], by simp [scanStep, soOf, isDig, depthAfter], rel_single sem _ _ (sem.nameEsc false true _)⟩
    | none =>
      simp only [hm] at h
      by_cases hp : (e == 112 || e == 80) = true
      · simp only [hp, if_true, Option.map_eq_some_iff] at h
        obtain ⟨⟨name, rest2⟩, hpn, h⟩ := h
        simp only [Option.some.injEq, Prod.mk.injEq] at h
        obtain ⟨rfl, rfl, rfl, _⟩ := h
        obtain ⟨htm, hsome, _⟩ := hprop hp name rest2 hpn
        obtain ⟨r, rfl, hn, hdrop⟩ := pPropName_model hpn
        obtain ⟨st, hst⟩ := Option.isSome_iff_exists.1 hsome
        refine ⟨[.atom (.prop st (e == 80))], ?_, rel_single sem _ _ (sem.prop name st (e == 80) [] hst)⟩
        have hp' : e = 112 ∨ e = 80 := by simpa using hp
        rcases hp' with h1 | h1 <;>
          (subst h1
           simp [scanStep, soOf, isDig, depthAfter, hn, hdrop, htm, hst])
      · simp only [hp, Bool.false_eq_true, if_false] at h
        have hdig' : (xo.xpath && isDigit e && e != 48) = false := by simp [hdig]
        simp [hdig'] at h

theorem lex_plain (opened : Nat) (c : Nat) (r : List Ch)
    (h1 : c ≠ 40) (h2 : c ≠ 41) (h3 : c ≠ 124) (h4 : c ≠ 91) (h5 : c ≠ 92) (h6 : c ≠ 46) (h7 : c ≠ 94) (h8 : c ≠ 36)
    (h9 : c ≠ 63) (h10 : c ≠ 42) (h11 : c ≠ 43) (h12 : c ≠ 123) (h13 : c ≠ 125) (h14 : c ≠ 93) :
    lexStepS xo opened (c :: r) = some ([.atom (.chr c)], r, opened, false) := by
  rw [lexStepS.eq_def]
  split
  all_goals (first
    | (rename_i heq; simp only [List.cons.injEq, reduceCtorEq] at heq; obtain ⟨hh, _⟩ := heq
       first | exact absurd hh h1 | exact absurd hh h2 | exact absurd hh h3 | exact absurd hh h4 | exact absurd hh h5 | exact absurd hh h6)
    | skip)
  · rename_i heq; cases heq
  · rename_i heq
    simp only [List.cons.injEq] at heq
    obtain ⟨rfl, rfl⟩ := heq
    simp [h7, h8, h9, h10, h11, h12, h13, h14]

theorem scan_plain (so : ScanOpts) (atStart : Bool) (total nested : Nat) (c : Nat) (r : List Ch)
    (h1 : c ≠ 40) (h2 : c ≠ 41) (h3 : c ≠ 124) (h4 : c ≠ 91) (h5 : c ≠ 92) (h6 : c ≠ 46) (h7 : c ≠ 94) (h8 : c ≠ 36)
    (h9 : c ≠ 63) (h10 : c ≠ 42) (h11 : c ≠ 43) (h12 : c ≠ 123) (h14 : c ≠ 93) :
    scanStep Tm so atStart total nested (c :: r) = some ([.atom (.chr c)], r, total, nested) := by
  rw [scanStep.eq_def]
  split
  all_goals (first
    | (rename_i heq; simp only [List.cons.injEq, reduceCtorEq] at heq; obtain ⟨hh, _⟩ := heq
       first | exact absurd hh h1 | exact absurd hh h2 | exact absurd hh h4 | exact absurd hh h5 | exact absurd hh h6
             | exact absurd hh h7 | exact absurd hh h8 | exact absurd hh h12 | exact absurd hh h14)
    | skip)
  · rename_i heq; cases heq
  · rename_i heq
    simp only [List.cons.injEq] at heq
    obtain ⟨rfl, rfl⟩ := heq
    simp [h3, h9, h10, h11]

theorem isDigit_eq_isDig : isDigit = isDig := rfl

theorem scanLazy_eq (so : ScanOpts) (hl : so.lazy = true) (afterBrace : Bool) (rest : List Ch)
    (hnext : match (lazyOf xo rest).2 with | c2 :: _ => isQuantStart c2 = false | [] => True) :
    scanLazy so afterBrace rest = some (lazyOf xo rest) := by
  cases rest with
  | nil => rfl
  | cons c r =>
    by_cases hc : c = 63
    · subst hc
      simp only [lazyOf, xo, if_true] at hnext ⊢
      simp only [scanLazy, hl, Bool.true_and, beq_self_eq_true, Bool.true_or, Bool.not_true, Bool.false_eq_true,
        if_false, Bool.not_true]
      cases r with
      | nil => rfl
      | cons c2 r2 =>
        simp only [isQuantStart] at hnext
        have hb : (c2 == 63 || c2 == 43 || c2 == 42 || c2 == 123) = false := by
          have := hnext
          simp only [Bool.or_eq_false_iff] at this ⊢
          exact ⟨⟨⟨this.1.1.1, this.1.2⟩, this.1.1.2⟩, this.2⟩
        simp [hb]
    · have hl2 : lazyOf xo (c :: r) = (false, c :: r) := by
        unfold lazyOf
        split
        · rename_i heq; simp only [List.cons.injEq] at heq; exact absurd heq.1 hc
        · rfl
      rw [hl2] at hnext ⊢
      simp only [isQuantStart] at hnext
      have hb : (c == 63 || c == 43 || c == 42 || (!afterBrace && c == 123)) = false := by
        simp only [Bool.or_eq_false_iff] at hnext ⊢
        refine ⟨⟨⟨hnext.1.1.1, hnext.1.2⟩, hnext.1.1.2⟩, ?_⟩
        simp [hnext.2]
      simp [scanLazy, hb]

theorem readNat_some {l : List Ch} {n : Nat} {r : List Ch} (h : readNat l = some (n, r)) :
    (l.takeWhile isDig).isEmpty = false ∧ n = (l.takeWhile isDig).foldl (fun n c => n * 10 + (c - 48)) 0 ∧ r = l.dropWhile isDig := by
  unfold readNat at h
  simp only [isDigit_eq_isDig] at h
  by_cases hne : (l.takeWhile isDig).isEmpty = true
  · simp [hne] at h
  · simp only [hne, Bool.false_eq_true, if_false, Option.some.injEq, Prod.mk.injEq] at h
    exact ⟨by simpa using hne, h.1.symm, h.2.symm⟩

theorem scanBrace_eq {rest : List Ch} {lo : Nat} {hi : Option Nat} {r : List Ch}
    (h : pQuantity rest = some (lo, hi, r)) : scanBrace rest = some (lo, hi, r) := by
  unfold pQuantity at h
  split at h
  · cases h
  · rename_i lo' r' hr
    simp only [Option.some.injEq, Prod.mk.injEq] at h
    obtain ⟨rfl, rfl, rfl⟩ := h
    obtain ⟨h1, h2, h3⟩ := readNat_some hr
    simp [scanBrace, h1, ← h3, ← h2]
  · rename_i lo' r' hr
    simp only [Option.some.injEq, Prod.mk.injEq] at h
    obtain ⟨rfl, rfl, rfl⟩ := h
    obtain ⟨h1, h2, h3⟩ := readNat_some hr
    simp [scanBrace, h1, ← h3, ← h2, isDig]
  · rename_i lo' r1 hnot hr
    obtain ⟨h1, h2, h3⟩ := readNat_some hr
    split at h
    · rename_i hi' r'' hr2
      obtain ⟨g1, g2, g3⟩ := readNat_some hr2
      split at h
      · simp only [Option.some.injEq, Prod.mk.injEq] at h
        obtain ⟨rfl, rfl, rfl⟩ := h
        simp [scanBrace, h1, ← h3, ← h2, g1, ← g3, ← g2]
      · cases h
    · cases h
  · cases h

theorem step_anchor (atStart : Bool) (opened nested : Nat) (c : Ch) (hc : c = 94 ∨ c = 36) (rest0 : List Ch) (xt rest opened' u)
    (h : lexStepS xo opened (c :: rest0) = some (xt, rest, opened', u)) :
    StepGoal sem Tm v10 atStart opened nested (c :: rest0) xt rest opened' := by
  unfold StepGoal
  rcases hc with rfl | rfl
  · simp only [lexStepS, xo, Bool.true_and, beq_self_eq_true, if_true, Option.some.injEq, Prod.mk.injEq] at h
    obtain ⟨rfl, rfl, rfl, _⟩ := h
    cases hm : fl.multi
    · exact ⟨[.atom .bol], by simp [scanStep, soOf, hm, depthAfter], rel_single sem _ _ (by simp [XAtom.den, hm, sem.bol])⟩
    · exact ⟨[.atom .bolM], by simp [scanStep, soOf, hm, depthAfter], rel_single sem _ _ (by simp [XAtom.den, hm, sem.bolM])⟩
  · simp only [lexStepS, xo, Bool.true_and, beq_self_eq_true, if_true, Option.some.injEq, Prod.mk.injEq] at h
    simp at h
    obtain ⟨rfl, rfl, rfl, _⟩ := h
    cases hm : fl.multi
    · exact ⟨[.atom .eol], by simp [scanStep, soOf, hm, depthAfter], rel_single sem _ _ (by simp [XAtom.den, hm, sem.eol])⟩
    · exact ⟨[.atom .eolM], by simp [scanStep, soOf, hm, depthAfter], rel_single sem _ _ (by simp [XAtom.den, hm, sem.eolM])⟩

theorem step_qchar (atStart : Bool) (opened nested : Nat) (c : Ch) (hc : c = 63 ∨ c = 42 ∨ c = 43) (rest0 : List Ch) (xt rest opened' u)
    (h : lexStepS xo opened (c :: rest0) = some (xt, rest, opened', u))
    (hok : StepOK Tm T v10 atStart nested (c :: rest0)) :
    StepGoal sem Tm v10 atStart opened nested (c :: rest0) xt rest opened' := by
  unfold StepGoal
  rcases hc with rfl | rfl | rfl
  · simp only [StepOK, isQuantStart] at hok
    obtain ⟨hst, hnext⟩ := hok (by decide)
    have hq : pQuant xo (63 :: rest0) = some (some (0, some 1, (lazyOf xo rest0).1), (lazyOf xo rest0).2) := by
      simp [pQuant]
    have hn := hnext _ _ hq
    have hl := scanLazy_eq (soOf fl v10) rfl false rest0 hn
    simp only [lexStepS, xo, Bool.true_and] at h
    simp only [xo] at hq
    simp [hq] at h
    obtain ⟨rfl, rfl, rfl, _⟩ := h
    refine ⟨[.quant 0 (some 1) (lazyOf xo rest0).1], ?_, rel_struct sem _ _ rfl⟩
    simp [scanStep, hst, hl, depthAfter, xo]
  · simp only [StepOK, isQuantStart] at hok
    obtain ⟨hst, hnext⟩ := hok (by decide)
    have hq : pQuant xo (42 :: rest0) = some (some (0, none, (lazyOf xo rest0).1), (lazyOf xo rest0).2) := by
      simp [pQuant]
    have hn := hnext _ _ hq
    have hl := scanLazy_eq (soOf fl v10) rfl false rest0 hn
    simp only [lexStepS, xo, Bool.true_and] at h
    simp only [xo] at hq
    simp [hq] at h
    obtain ⟨rfl, rfl, rfl, _⟩ := h
    refine ⟨[.quant 0 (none) (lazyOf xo rest0).1], ?_, rel_struct sem _ _ rfl⟩
    simp [scanStep, hst, hl, depthAfter, xo]
  · simp only [StepOK, isQuantStart] at hok
    obtain ⟨hst, hnext⟩ := hok (by decide)
    have hq : pQuant xo (43 :: rest0) = some (some (1, none, (lazyOf xo rest0).1), (lazyOf xo rest0).2) := by
      simp [pQuant]
    have hn := hnext _ _ hq
    have hl := scanLazy_eq (soOf fl v10) rfl false rest0 hn
    simp only [lexStepS, xo, Bool.true_and] at h
    simp only [xo] at hq
    simp [hq] at h
    obtain ⟨rfl, rfl, rfl, _⟩ := h
    refine ⟨[.quant 1 (none) (lazyOf xo rest0).1], ?_, rel_struct sem _ _ rfl⟩
    simp [scanStep, hst, hl, depthAfter, xo]

theorem step_brace (atStart : Bool) (opened nested : Nat) (rest0 : List Ch) (xt rest opened' u)
    (h : lexStepS xo opened (123 :: rest0) = some (xt, rest, opened', u))
    (hok : StepOK Tm T v10 atStart nested (123 :: rest0)) :
    StepGoal sem Tm v10 atStart opened nested (123 :: rest0) xt rest opened' := by
  unfold StepGoal
  simp only [StepOK, isQuantStart] at hok
  obtain ⟨hst, hnext⟩ := hok (by decide)
  simp only [lexStepS, xo, Bool.true_and] at h
  simp at h
  split at h
  · rename_i lo hi l rest' hq
    simp only [Option.some.injEq, Prod.mk.injEq] at h
    obtain ⟨rfl, rfl, rfl, _⟩ := h
    have hn := hnext _ _ hq
    -- unfold the spec quantifier
    simp only [pQuant] at hq
    split at hq
    · cases hq
    · rename_i lo' hi' r hqty
      simp only [Option.some.injEq, Prod.mk.injEq] at hq
      obtain ⟨⟨rfl, rfl, rfl⟩, rfl⟩ := hq
      have hb := scanBrace_eq hqty
      have hl := scanLazy_eq (soOf fl v10) rfl true r hn
      refine ⟨[.quant lo' hi' (lazyOf xo r).1], ?_, rel_struct sem _ _ rfl⟩
      simp [scanStep, hst, hb, hl, depthAfter, xo]
  · cases h

/-- one lexeme: under the side conditions the scanner appends fragments that denote what the lexeme
denotes, consumes the same text and keeps the counters in step -/
theorem scan_step (atStart : Bool) (opened nested : Nat) (inp : List Ch) (xt rest opened' u)
    (h : lexStepS xo opened inp = some (xt, rest, opened', u))
    (hok : StepOK Tm T v10 atStart nested inp) :
    StepGoal sem Tm v10 atStart opened nested inp xt rest opened' := by
  cases inp with
  | nil => simp [lexStepS] at h
  | cons c rest0 =>
    by_cases h40 : c = 40
    · subst h40; exact step_lpar sem Tm v10 atStart opened nested rest0 xt rest opened' u h hok
    by_cases h41 : c = 41
    · subst h41; exact step_rpar sem Tm v10 atStart opened nested rest0 xt rest opened' u h hok
    by_cases h124 : c = 124
    · subst h124; exact step_bar sem Tm v10 atStart opened nested rest0 xt rest opened' u h
    by_cases h91 : c = 91
    · subst h91; exact step_class sem Tm v10 atStart opened nested rest0 xt rest opened' u h hok
    by_cases h92 : c = 92
    · subst h92
      cases rest0 with
      | nil => simp [lexStepS] at h
      | cons e r0 => exact step_esc sem Tm v10 atStart opened nested e r0 xt rest opened' u h hok
    by_cases h46 : c = 46
    · subst h46; exact step_dot sem Tm v10 atStart opened nested rest0 xt rest opened' u h
    by_cases h94 : c = 94
    · exact step_anchor sem Tm v10 atStart opened nested c (.inl h94) rest0 xt rest opened' u h
    by_cases h36 : c = 36
    · exact step_anchor sem Tm v10 atStart opened nested c (.inr h36) rest0 xt rest opened' u h
    by_cases h63 : c = 63
    · exact step_qchar sem Tm v10 atStart opened nested c (.inl h63) rest0 xt rest opened' u h hok
    by_cases h42 : c = 42
    · exact step_qchar sem Tm v10 atStart opened nested c (.inr (.inl h42)) rest0 xt rest opened' u h hok
    by_cases h43 : c = 43
    · exact step_qchar sem Tm v10 atStart opened nested c (.inr (.inr h43)) rest0 xt rest opened' u h hok
    by_cases h123 : c = 123
    · subst h123; exact step_brace sem Tm v10 atStart opened nested rest0 xt rest opened' u h hok
    by_cases h125 : c = 125
    · subst h125; simp [lexStepS, xo] at h
    by_cases h93 : c = 93
    · subst h93; simp [lexStepS, xo] at h
    · rw [lex_plain opened c rest0 h40 h41 h124 h91 h92 h46 h94 h36 h63 h42 h43 h123 h125 h93] at h
      simp only [Option.some.injEq, Prod.mk.injEq] at h
      obtain ⟨rfl, rfl, rfl, _⟩ := h
      exact ⟨[.atom (.chr c)],
        by simpa [depthAfter] using scan_plain Tm (soOf fl v10) atStart opened nested c rest0 h40 h41 h124 h91 h92 h46 h94 h36 h63 h42 h43 h123 h93,
        rel_single sem _ _ (by rw [sem.chr]; rfl)⟩

/-- the side conditions along the whole run of the lexer (see `StepOK`); at the end of the text
every group is closed -/
def RunOK : Nat → Bool → Nat → List Ch → Nat → Prop
  | 0, _, _, _, _ => True
  | _ + 1, _, nested, [], _ => nested = 0
  | fuel + 1, atStart, nested, c :: r, opened =>
    StepOK Tm T v10 atStart nested (c :: r) ∧
    ∀ xt rest opened' u, lexStepS xo opened (c :: r) = some (xt, rest, opened', u) →
      RunOK fuel false (depthAfter nested xt) rest opened'

theorem scan_loop : ∀ (fuel : Nat) (atStart : Bool) (nested : Nat) (inp : List Ch) (opened : Nat) (xtoks : List (Tok XAtom)) (u : Bool),
    lexS xo fuel inp opened = some (xtoks, u) → RunOK (T := T) Tm v10 fuel atStart nested inp opened →
    ∃ ptoks, scanLoop Tm (soOf fl v10) fuel atStart opened nested inp = some ptoks ∧ Rel sem xtoks ptoks := by
  intro fuel
  induction fuel with
  | zero => intro _ _ _ _ _ _ h; simp [lexS] at h
  | succ fuel ih =>
    intro atStart nested inp opened xtoks u h hrun
    cases inp with
    | nil =>
      simp only [lexS, Option.some.injEq, Prod.mk.injEq] at h
      obtain ⟨rfl, _⟩ := h
      have hn : nested = 0 := hrun
      subst hn
      exact ⟨[], by simp [scanLoop], rfl⟩
    | cons c r =>
      simp only [lexS] at h
      split at h
      · cases h
      · rename_i xt rest opened' u1 hstep
        simp only [Option.map_eq_some_iff] at h
        obtain ⟨⟨xs', u2⟩, hrest, h⟩ := h
        simp only [Option.some.injEq, Prod.mk.injEq] at h
        obtain ⟨rfl, _⟩ := h
        obtain ⟨hok, hnext⟩ := hrun
        obtain ⟨pt, hscan, hrel⟩ := scan_step sem Tm v10 atStart opened nested (c :: r) xt rest opened' u1 hstep hok
        obtain ⟨ps', hloop, hrel'⟩ := ih false (depthAfter nested xt) rest opened' xs' u2 hrest (hnext xt rest opened' u1 hstep)
        refine ⟨pt ++ ps', ?_, ?_⟩
        · simp only [scanLoop, hscan, hloop, Option.map_some]
        · simp only [Rel, List.map_append] at hrel hrel' ⊢
          rw [hrel, hrel']

end step

/-- what Python's `re` makes of the emitted token list, given the reading `sem` of the fragments and
the grammar `parseT` -/
def pyRE {T : Tables} {fl : Flags} (sem : PySem T fl) (ptoks : List (Tok PyAtom)) : Option RE :=
  (parseT (ptoks.map (Tok.map sem.den))).map Ast.den

/-- `translate_pattern` (XPath flavour, flags `s`/`m`): for a pattern that lexes under the XSD/F&O
grammar and meets the side conditions, the scanner does not raise, and the fragments it emits denote,
token for token, what the lexemes denote — hence the translated pattern and the source pattern have
the same syntax tree and the same language (or are both syntactically invalid). -/
theorem translate_eq_spec {T : Tables} {fl : Flags} (sem : PySem T fl) (Tm : MTables) (v10 : Bool) (P : List Ch)
    (xtoks : List (Tok XAtom)) (u : Bool)
    (hfe : forbiddenEscape true none P = false)
    (hlex : specLex xo P = some (xtoks, u))
    (hrun : RunOK (T := T) Tm v10 (P.length + 1) true 0 P 0) :
    ∃ ptoks, translateM Tm (soOf fl v10) P = some ptoks ∧
      ptoks.map (Tok.map sem.den) = xtoks.map (Tok.map (XAtom.den T fl)) ∧
      pyRE sem ptoks = specRE T fl xtoks := by
  obtain ⟨ptoks, hloop, hrel⟩ := scan_loop sem Tm v10 (P.length + 1) true 0 P 0 xtoks u hlex hrun
  refine ⟨ptoks, ?_, hrel, ?_⟩
  · simp [translateM, soOf, hfe] at hloop ⊢
    simp [hloop]
  · unfold pyRE specRE
    rw [hrel]




/-! ### the assumptions are consistent: a canonical reading of the fragments -/

/-- the reading of the fragments that the driver executes (`pyDen`), as a function of the spec tables -/
def canonDen (T : Tables) (fl : Flags) : PyAtom → RE
  | .chr c => .cls (· == c)
  | .esc e =>
    match singleEsc xo e with
    | some c => .cls (· == c)
    | none =>
      match multiEsc e with
      | some (k, neg) => XAtom.den T fl (.cls (.mk false [.esc k neg] none) [92, e])
      | none => .cls (· == e)
  | .dotAll => anyCh
  | .dotNoNL => .cls fun c => c != 10 && c != 13
  | .bol => .anchor .bol
  | .bolM => .anchor .bolM
  | .eol => .anchor .eol
  | .eolM => .anchor .eolM
  | .litAnchor c => .cls (· == c)
  | .cls cc => .cls fun x => decide (x < maxCP1) && cc.strDenote x
  | .nameEsc start neg => XAtom.den T fl (.cls (.mk false [.esc (if start then .i else .c) neg] none) [])
  | .prop st neg => .cls fun x => decide (x < maxCP1) && specClass (.plain false [⟨neg, st⟩]) x
  | .propAll => .cls fun x => decide (x < maxCP1 - 1)
  | .backref _ => .empty
  | .bracketDigit d => .cls (· == d + 48)
  | .bslash => .empty

/-- a `PySem` exists for every table set and flag set (so `translate_eq_spec` is not vacuous) -/
def PySem.canonical (T : Tables) (fl : Flags) : PySem T fl where
  den := canonDen T fl
  chr := fun _ => rfl
  escSingle := fun e c h => by simp [canonDen, h]
  escD := fun e neg h => by
    rcases multiEsc_cases h with ⟨rfl, hk, _⟩ | ⟨rfl, hk, _⟩ | ⟨rfl, _, rfl⟩ | ⟨rfl, _, rfl⟩ | ⟨rfl, hk, _⟩ | ⟨rfl, hk, _⟩ |
      ⟨rfl, hk, _⟩ | ⟨rfl, hk, _⟩ | ⟨rfl, hk, _⟩ | ⟨rfl, hk, _⟩
    all_goals first
      | cases hk
      | (simp [canonDen, singleEsc, multiEsc, xo])
  dotAll := rfl
  dotNoNL := rfl
  bol := rfl
  bolM := rfl
  eol := rfl
  eolM := rfl
  cls := fun _ => rfl
  nameEsc := fun start neg src => by simp [canonDen, XAtom.den]
  prop := fun name st neg src h => by
    simp [canonDen, XAtom.den, CClass.toClassE, CItem.toItem, h]

end EPV.Regex

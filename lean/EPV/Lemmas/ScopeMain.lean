/-
C05 helper lemma: the fundamental lemma — at every depth the model and the lexical
specification are `Related lex` (same error, or related values and an untouched caller).
-/
import EPV.Lemmas.ScopeSem
namespace EPV.Scope

variable {lex : Bool}

theorem eval_sem_related (c : Cfg) (hq1 : c.q.callCopies = true) (hq2 : c.q.operandCopied = true)
    (hq4 : c.q.adjustCopied = true) (hlex : c.q.calleeLexical = lex) (h : Heap) :
    ∀ n, Related lex (eval c n) (sem c.tz h n) h := by
  intro n
  induction n with
  | zero => intro e exact S ρ1 ρ2 _ _; exact RRel.err .fuel
  | succ n ih =>
    intro e exact S ρ1 ρ2 hw hi
    cases e with
    | int k => exact RRel.ok (.cons (.int k) .nil)
    | var x =>
      simp only [eval, sem]
      simp only [WS, Bool.or_eq_true] at hw
      by_cases hx : x ∈ S
      · obtain ⟨d1, d2⟩ := hi.1 x hx (by simp)
        obtain ⟨v1, e1⟩ := Option.isSome_iff_exists.mp d1
        obtain ⟨v2, e2⟩ := Option.isSome_iff_exists.mp d2
        simp only [e1, e2]
        exact RRel.ok (hi.2.1 x v1 v2 hx (by simp) e1 e2)
      · have hex : exact = true := by
          rcases hw with hw | hw
          · exact hw
          · exact absurd (by simpa using hw) hx
        obtain ⟨n1, n2⟩ := hi.2.2 hex x hx (by simp)
        simp only [n1, n2]
        exact RRel.err .unbound
    | empty => exact RRel.ok .nil
    | paren e => simp only [eval, sem]; exact ih e exact S ρ1 ρ2 (by simpa [WS] using hw) hi
    | seq a b =>
      simp only [WS, Bool.and_eq_true] at hw
      simp only [eval, sem]
      rcases (ih a exact S ρ1 ρ2 hw.1 hi).cases with ⟨e, _, _, h1, h2⟩ | ⟨v1, v2, h1, h2, hv⟩
      · simp only [h1, h2]; exact RRel.err e
      · simp only [h1, h2]
        rcases (ih b exact S ρ1 ρ2 hw.2 hi).cases with ⟨e, _, _, h3, h4⟩ | ⟨w1, w2, h3, h4, hw2⟩
        · simp only [h3, h4]; exact RRel.err e
        · simp only [h3, h4]; exact RRel.ok (hv.append hw2)
    | add a b =>
      simp only [WS, Bool.and_eq_true] at hw
      simp only [eval, sem]
      rcases operands_rel ih hw.1 hw.2 hi with ⟨e, _, _, h1, h2⟩ | ⟨h1, h2⟩ | ⟨x1, y1, x2, y2, h1, h2, hx, hy⟩
      · simp only [h1, h2]; exact RRel.err e
      · simp only [h1, h2]; exact RRel.ok .nil
      · simp only [h1, h2, addItems_rel hx hy]
        cases hr : addItems x2 y2 with
        | none => exact RRel.err .type
        | some r => exact RRel.ok (.cons (addItems_notFn hr) .nil)
    | sub a b =>
      simp only [WS, Bool.and_eq_true] at hw
      simp only [eval, sem]
      rcases operands_rel ih hw.1 hw.2 hi with ⟨e, _, _, h1, h2⟩ | ⟨h1, h2⟩ | ⟨x1, y1, x2, y2, h1, h2, hx, hy⟩
      · simp only [h1, h2]; exact RRel.err e
      · simp only [h1, h2]; exact RRel.ok .nil
      · simp only [h1, h2, subItems_fixed hq2, subPure_rel hx hy]
        cases hr : subPure c.tz h x2 y2 with
        | none => exact RRel.err .type
        | some r => exact RRel.ok (.cons (subPure_notFn hr) .nil)
    | eq a b =>
      simp only [WS, Bool.and_eq_true] at hw
      simp only [eval, sem]
      rcases (ih a exact S ρ1 ρ2 hw.1 hi).cases with ⟨e, _, _, h1, h2⟩ | ⟨v1, v2, h1, h2, hv⟩
      · simp only [h1, h2]; exact RRel.err e
      · simp only [h1, h2]
        rcases (ih b exact S ρ1 ρ2 hw.2 hi).cases with ⟨e, _, _, h3, h4⟩ | ⟨w1, w2, h3, h4, hw2⟩
        · simp only [h3, h4]; exact RRel.err e
        · simp only [h3, h4, genEq_rel hv hw2]
          cases genEq v2 w2 with
          | error e => exact RRel.err e
          | ok r => exact RRel.ok (.cons (.bool r) .nil)
    | dt l z => exact RRel.ok (.cons (.dtv l z) .nil)
    | tzOf e =>
      simp only [eval, sem]
      rcases (ih e exact S ρ1 ρ2 (by simpa [WS] using hw) hi).cases with ⟨e, _, _, h1, h2⟩ | ⟨v1, v2, h1, h2, hv⟩
      · simp only [h1, h2]; exact RRel.err e
      · simp only [h1, h2, tzItem_rel hv]
        cases hr : tzItem h v2 with
        | error e => exact RRel.err e
        | ok r => exact RRel.ok (tzItem_notFn hr)
    | letE x e body =>
      simp only [WS, Bool.and_eq_true] at hw
      simp only [eval, sem]
      rcases (ih e exact S ρ1 ρ2 hw.1 hi).cases with ⟨e, _, _, h1, h2⟩ | ⟨v1, v2, h1, h2, hv⟩
      · simp only [h1, h2]; exact RRel.err e
      · simp only [h1, h2]
        rcases (ih body exact (x :: S) _ _ hw.2 ((hi.weaken x).bind hv)).cases with ⟨e, _, _, h3, h4⟩ | ⟨w1, w2, h3, h4, hw2⟩
        · simp only [h3, h4]; exact RRel.err e
        · simp only [h3, h4]; exact RRel.ok hw2
    | forE x r body =>
      simp only [WS, Bool.and_eq_true] at hw
      simp only [eval, sem]
      rcases (ih r exact S ρ1 ρ2 hw.1 hi).cases with ⟨e, _, _, h1, h2⟩ | ⟨v1, v2, h1, h2, hv⟩
      · simp only [h1, h2]; exact RRel.err e
      · simp only [h1, h2]
        rcases forLoop_rel ih hw.2 v1 v2 hv ρ1 (hi.weaken x) with ⟨e, _, _, h3, h4⟩ | ⟨w1, w2, ρ', h3, h4, hw2⟩
        · simp only [h3, h4]; exact RRel.err e
        · simp only [h3, h4]; exact RRel.ok hw2
    | someE x r body =>
      simp only [WS, Bool.and_eq_true] at hw
      simp only [eval, sem]
      rcases (ih r exact S ρ1 ρ2 hw.1 hi).cases with ⟨e, _, _, h1, h2⟩ | ⟨v1, v2, h1, h2, hv⟩
      · simp only [h1, h2]; exact RRel.err e
      · simp only [h1, h2]
        rcases quantLoop_rel (q := true) ih hw.2 v1 v2 hv ρ1 (hi.weaken x) with ⟨e, _, _, h3, h4⟩ | ⟨b, ρ', h3, h4⟩
        · simp only [h3, h4]; exact RRel.err e
        · simp only [h3, h4]; exact RRel.ok (.cons (.bool b) .nil)
    | everyE x r body =>
      simp only [WS, Bool.and_eq_true] at hw
      simp only [eval, sem]
      rcases (ih r exact S ρ1 ρ2 hw.1 hi).cases with ⟨e, _, _, h1, h2⟩ | ⟨v1, v2, h1, h2, hv⟩
      · simp only [h1, h2]; exact RRel.err e
      · simp only [h1, h2]
        rcases quantLoop_rel (q := false) ih hw.2 v1 v2 hv ρ1 (hi.weaken x) with ⟨e, _, _, h3, h4⟩ | ⟨b, ρ', h3, h4⟩
        · simp only [h3, h4]; exact RRel.err e
        · simp only [h3, h4]; exact RRel.ok (.cons (.bool b) .nil)
    | fn ps body =>
      simp only [WS] at hw
      have he := hi.toERel
      refine RRel.ok (.cons (.fn ps body ρ1 ρ2 S (exact && lex) ?_ hw he.1 he.2 ?_) .nil)
      · intro hb; simp only [Bool.and_eq_true] at hb; exact hb.2
      · intro hb x hx
        simp only [Bool.and_eq_true] at hb
        exact hi.2.2 hb.1 x hx (by simp)
    | call0 f =>
      simp only [eval, sem]
      rcases (ih f exact S ρ1 ρ2 (by simpa [WS] using hw) hi).cases with ⟨e, _, _, h1, h2⟩ | ⟨v1, v2, h1, h2, hv⟩
      · simp only [h1, h2]; exact RRel.err e
      · simp only [h1, h2]
        cases hv with
        | nil => exact RRel.err .type
        | cons hf t =>
          cases t with
          | cons _ _ => cases hf <;> exact RRel.err .type
          | nil =>
            cases hf with
            | fn ps b c1 c2 S' ex hex hws hdom hrel hout =>
              exact applyFn_rel ih hq1 hlex (.fn ps b c1 c2 S' ex hex hws hdom hrel hout) .nil
            | _ => exact RRel.err .type
    | call f a =>
      simp only [WS, Bool.and_eq_true] at hw
      simp only [eval, sem]
      rcases (ih f exact S ρ1 ρ2 hw.1 hi).cases with ⟨e, _, _, h1, h2⟩ | ⟨v1, v2, h1, h2, hv⟩
      · simp only [h1, h2]; exact RRel.err e
      · simp only [h1, h2]
        cases hv with
        | nil => exact RRel.err .type
        | cons hf t =>
          cases t with
          | cons _ _ => cases hf <;> exact RRel.err .type
          | nil =>
            cases hf with
            | fn ps b c1 c2 S' ex hex hws hdom hrel hout =>
              simp only
              rcases evalArgs_rel ih hi (argToks a) (argToks_ws a hw.2) with ⟨e, _, _, h3, h4⟩ | ⟨vs1, vs2, h3, h4, hvs⟩
              · simp only [h3, h4]; exact RRel.err e
              · simp only [h3, h4]
                exact applyFn_rel ih hq1 hlex (.fn ps b c1 c2 S' ex hex hws hdom hrel hout) hvs
            | _ => exact RRel.err .type
    | durLit s => exact RRel.ok (.cons (.dur s) .nil)
    | adjust1 e =>
      simp only [eval, sem]
      rcases (ih e exact S ρ1 ρ2 (by simpa [WS] using hw) hi).cases with ⟨e, _, _, h1, h2⟩ | ⟨v1, v2, h1, h2, hv⟩
      · simp only [h1, h2]; exact RRel.err e
      · simp only [h1, h2]
        cases hv with
        | nil => exact RRel.ok .nil
        | cons hx t =>
          cases t with
          | cons _ _ => exact RRel.err .type
          | nil =>
            simp only [adjustItem_fixed hq4, deref_rel hx]
            cases deref h _ with
            | none => exact RRel.err .type
            | some d => exact RRel.ok (.cons (.dtv _ _) .nil)
    | adjust2 e z =>
      simp only [WS, Bool.and_eq_true] at hw
      simp only [eval, sem]
      rcases (ih e exact S ρ1 ρ2 hw.1 hi).cases with ⟨e, _, _, h1, h2⟩ | ⟨v1, v2, h1, h2, hv⟩
      · simp only [h1, h2]; exact RRel.err e
      · simp only [h1, h2, hv.length_eq]
        by_cases hlen : v2.length > 1
        · simp only [if_pos hlen]; exact RRel.err .type
        · simp only [if_neg hlen]
          rcases (ih z exact S ρ1 ρ2 hw.2 hi).cases with ⟨e, _, _, h3, h4⟩ | ⟨w1, w2, h3, h4, hw2⟩
          · simp only [h3, h4]; exact RRel.err e
          · simp only [h3, h4, targetOf_rel hw2]
            cases targetOf w2 with
            | error e => exact RRel.err e
            | ok target =>
              simp only
              cases hv with
              | nil => exact RRel.ok .nil
              | cons hx t =>
                cases t with
                | cons _ _ => simp at hlen
                | nil =>
                  simp only [adjustItem_fixed hq4, deref_rel hx]
                  cases deref h _ with
                  | none => exact RRel.err .type
                  | some d => exact RRel.ok (.cons (.dtv _ _) .nil)

/-! ### the top level: caller's dict on both sides -/

def Item.isFn : Item → Bool
  | .fn _ _ _ => true
  | _ => false

/-- the caller's variables hold atomic values only (no function items) -/
def groundEnv (ρ : Env) : Bool := ρ.all fun kv => kv.2.all fun i => !i.isFn

theorem IRel.refl_ground : ∀ (i : Item), i.isFn = false → IRel lex i i
  | .int n, _ => .int n
  | .bool b, _ => .bool b
  | .dtv l z, _ => .dtv l z
  | .dtref r, _ => .dtref r
  | .dur s, _ => .dur s
  | .fn _ _ _, h => by simp [Item.isFn] at h

theorem VRel.refl_ground : ∀ (v : Val), (v.all fun i => !i.isFn) = true → VRel lex v v
  | [], _ => .nil
  | i :: r, h => by
    simp only [List.all_cons, Bool.and_eq_true, Bool.not_eq_true'] at h
    exact .cons (IRel.refl_ground i h.1) (VRel.refl_ground r h.2)

theorem lookup_isSome_iff (ρ : Env) (x : Name) : (ρ.lookup x).isSome = true ↔ x ∈ dom ρ := by
  induction ρ with
  | nil => simp [dom]
  | cons kv rest ih =>
    obtain ⟨k, v⟩ := kv
    by_cases hx : x = k
    · subst hx; simp [dom]
    · rw [lookup_cons_ne hx, ih]; simp [dom, hx]

theorem lookup_ground {ρ : Env} (hg : groundEnv ρ = true) {x : Name} {v : Val} (hl : ρ.lookup x = some v) :
    (v.all fun i => !i.isFn) = true := by
  induction ρ with
  | nil => simp at hl
  | cons kv rest ih =>
    obtain ⟨k, w⟩ := kv
    simp only [groundEnv, List.all_cons, Bool.and_eq_true] at hg
    by_cases hx : x = k
    · subst hx; rw [lookup_cons_eq] at hl; cases hl; exact hg.1
    · rw [lookup_cons_ne hx] at hl; exact ih hg.2 hl

theorem Inv.top {ρ : Env} (hg : groundEnv ρ = true) : Inv lex none true (dom ρ) ρ ρ := by
  refine ⟨?_, ?_, ?_⟩
  · intro x hx _; exact ⟨(lookup_isSome_iff ρ x).2 hx, (lookup_isSome_iff ρ x).2 hx⟩
  · intro x v1 v2 _ _ h1 h2
    rw [h1] at h2; cases h2
    exact VRel.refl_ground v1 (lookup_ground hg h1)
  · intro _ x hx _
    have : ¬ (ρ.lookup x).isSome = true := fun h => hx ((lookup_isSome_iff ρ x).1 h)
    have hn : ρ.lookup x = none := by
      cases hl : ρ.lookup x with
      | none => rfl
      | some v => simp [hl] at this
    exact ⟨hn, hn⟩

theorem obsItem_rel (h : Heap) {a b : Item} (hr : IRel lex a b) : obsItem h a = obsItem h b := by
  cases hr <;> rfl

theorem obs_rel (h : Heap) {v1 v2 : Val} (hr : VRel lex v1 v2) : obs h v1 = obs h v2 := by
  induction hr with
  | nil => rfl
  | cons hi _ ih => simp only [obs, List.map_cons] at ih ⊢; rw [obsItem_rel h hi, ih]

/-- without inline function expressions every program is outside the F05c trigger -/
theorem ws_of_noFn (lex : Bool) : ∀ (e : Expr) (S : List Name), noFn e = true → WS lex true S e = true := by
  intro e
  induction e with
  | fn ps b _ => intro S h; simp [noFn] at h
  | int _ | var _ | empty | dt _ _ | durLit _ => intro S _; simp [WS]
  | paren e ih | tzOf e ih | call0 e ih | adjust1 e ih => intro S h; simp only [noFn] at h; simpa [WS] using ih S h
  | seq a b iha ihb | add a b iha ihb | sub a b iha ihb | eq a b iha ihb | call a b iha ihb | adjust2 a b iha ihb =>
    intro S h
    simp only [noFn, Bool.and_eq_true] at h
    simp only [WS, Bool.and_eq_true]; exact ⟨iha S h.1, ihb S h.2⟩
  | letE x a b iha ihb | forE x a b iha ihb | someE x a b iha ihb | everyE x a b iha ihb =>
    intro S h
    simp only [noFn, Bool.and_eq_true] at h
    simp only [WS, Bool.and_eq_true]; exact ⟨iha S h.1, ihb (x :: S) h.2⟩

/-- with F05c repaired every program is outside the trigger: nothing is required of references
at all, because a function body runs in exactly the dict the specification gives it -/
theorem ws_lexical : ∀ (e : Expr) (S : List Name), WS true true S e = true := by
  intro e
  induction e with
  | int _ | var _ | empty | dt _ _ | durLit _ => intro S; simp [WS]
  | fn ps b ih => intro S; simp only [WS, Bool.and_self]; exact ih _
  | paren e ih | tzOf e ih | call0 e ih | adjust1 e ih => intro S; simpa [WS] using ih S
  | seq a b iha ihb | add a b iha ihb | sub a b iha ihb | eq a b iha ihb | call a b iha ihb | adjust2 a b iha ihb =>
    intro S; simp only [WS, Bool.and_eq_true]; exact ⟨iha S, ihb S⟩
  | letE x a b iha ihb | forE x a b iha ihb | someE x a b iha ihb | everyE x a b iha ihb =>
    intro S; simp only [WS, Bool.and_eq_true]; exact ⟨iha S, ihb (x :: S)⟩

end EPV.Scope

/-
C04 helper: agreement of the custom tokenizer alternatives (`EPV/Model/PrattLexer.lean`).
-/
import EPV.Model.PrattLexer
namespace EPV.Lexer

theorem nameRun_le (C : Classes) : ∀ s, nameRun C s ≤ s.length
  | [] => by simp [nameRun]
  | c :: cs => by
    simp only [nameRun]
    split
    · have := nameRun_le C cs; simp; omega
    · simp

/-- a run of name characters followed by a non-name character -/
theorem nameRun_append_stop (C : Classes) : ∀ (w : List Ch) (c : Ch) (rest : List Ch),
    w.all (inRanges C.nameChar) = true → inRanges C.nameChar c = false → nameRun C (w ++ c :: rest) = w.length
  | [], c, rest, _, hc => by simp [nameRun, hc]
  | x :: xs, c, rest, hw, hc => by
    simp only [List.all_cons, Bool.and_eq_true] at hw
    simp [nameRun, hw.1, nameRun_append_stop C xs c rest hw.2 hc]

/-- if the run inside `L` stops before the end of `L`, appending text does not change it, and the
character at the stop is not a name character -/
theorem nameRun_append_of_lt (C : Classes) : ∀ (L r : List Ch), nameRun C L < L.length →
    nameRun C (L ++ r) = nameRun C L ∧ (L ++ r).drop (nameRun C L) = L.drop (nameRun C L) ++ r ∧
      ∃ c tl, L.drop (nameRun C L) = c :: tl ∧ L.getD (nameRun C L) 0 = c
  | [], r, h => by simp [nameRun] at h
  | x :: xs, r, h => by
    by_cases hx : inRanges C.nameChar x = true
    · simp only [nameRun, hx, if_true, List.length_cons] at h ⊢
      have ih := nameRun_append_of_lt C xs r (by omega)
      obtain ⟨h1, h2, c, tl, h3, h4⟩ := ih
      refine ⟨by simp [nameRun, hx, h1], by simpa [nameRun, hx, h1] using h2, c, tl, by simpa using h3, ?_⟩
      simpa [List.getD] using h4
    · simp only [Bool.not_eq_true] at hx
      simp [nameRun, hx]

theorem laHolds_some_cons {F : List Ch} {rest : List Ch} (h : laHolds (some F) rest = true) :
    ∃ c tl, rest = c :: tl ∧ F.contains c = true := by
  cases rest with
  | nil => simp [laHolds] at h
  | cons c tl => exact ⟨c, tl, rfl, by simpa [laHolds] using h⟩

/-- run-bounded alternatives match exactly the maximal name run -/
theorem rb_len (C : Classes) (A : Alt) (hrb : runBounded C A = true) (s : List Ch) (n : Nat)
    (h : matchLen C A s = some n) : n = nameRun C s := by
  unfold runBounded at hrb
  cases hla : A.la with
  | none => simp [hla] at hrb
  | some F =>
    simp only [hla, Bool.and_eq_true, List.all_eq_true, Bool.not_eq_true'] at hrb
    obtain ⟨hF, hhead⟩ := hrb
    unfold matchLen at h
    cases hh : A.head with
    | none =>
      simp only [hh] at h
      cases s with
      | nil => simp at h
      | cons c cs =>
        simp only at h
        split at h
        · simp at h; exact h.symm
        · simp at h
    | some w =>
      simp only [hh, hla] at h hhead
      split at h
      · rename_i hc
        simp only [Bool.and_eq_true, List.isPrefixOf_iff_prefix] at hc
        obtain ⟨hp, hl⟩ := hc
        obtain ⟨c, tl, hrest, hcF⟩ := laHolds_some_cons hl
        have hs : s = w ++ c :: tl := by
          have := List.prefix_iff_eq_append.1 hp
          rw [hrest] at this; exact this.symm
        have hcn : inRanges C.nameChar c = false := hF c (by simpa using hcF)
        simp only [Option.some.injEq] at h
        rw [hs, nameRun_append_stop C w c tl (by simpa [List.all_eq_true] using hhead) hcn]
        exact h.symm
      · simp at h

/-- a literal alternative that is `apart` from `B` never matches the same text as `B` with another length -/
theorem apart_agree (C : Classes) (A B : Alt) (L : List Ch) (hA : A.head = some L)
    (hap : apart C L B = true) (s : List Ch) (n m : Nat)
    (h1 : matchLen C A s = some n) (h2 : matchLen C B s = some m) : n = m := by
  -- A matches: L is a prefix of s and n = |L|
  have hpre : L <+: s ∧ n = L.length := by
    unfold matchLen at h1
    simp only [hA] at h1
    split at h1
    · rename_i hc
      simp only [Bool.and_eq_true, List.isPrefixOf_iff_prefix] at hc
      exact ⟨hc.1, by simpa using h1.symm⟩
    · simp at h1
  obtain ⟨hp, rfl⟩ := hpre
  unfold apart at hap
  unfold matchLen at h2
  cases hB : B.head with
  | some w =>
    simp only [hB] at hap h2
    split at h2
    · rename_i hc
      simp only [Bool.and_eq_true, List.isPrefixOf_iff_prefix] at hc
      simp only [Option.some.injEq] at h2
      subst h2
      simp only [Bool.or_eq_true, beq_iff_eq, Bool.and_eq_true, Bool.not_eq_true'] at hap
      rcases hap with rfl | ⟨h3, h4⟩
      · rfl
      · rcases List.prefix_or_prefix_of_prefix hp hc.1 with h | h
        · have : L.isPrefixOf w = true := List.isPrefixOf_iff_prefix.2 h
          rw [h4] at this; exact absurd this (by simp)
        · have : w.isPrefixOf L = true := List.isPrefixOf_iff_prefix.2 h
          rw [h3] at this; exact absurd this (by simp)
    · simp at h2
  | none =>
    simp only [hB, Bool.and_eq_true, decide_eq_true_eq] at hap h2
    obtain ⟨hk, hF⟩ := hap
    obtain ⟨r, rfl⟩ := hp
    obtain ⟨hrun, hdrop, c, tl, hc1, hc2⟩ := nameRun_append_of_lt C L r hk
    cases hs : L ++ r with
    | nil => simp [hs] at h2
    | cons c0 cs =>
      rw [hs] at h2
      simp only at h2
      split at h2
      · rename_i hcond
        obtain ⟨-, hl⟩ := hcond
        rw [← hs, hrun, hdrop, hc1] at hl
        cases hla : B.la with
        | none => simp [hla] at hF
        | some F =>
          simp only [hla, Bool.not_eq_true'] at hF
          rw [hla] at hl
          simp only [laHolds, List.cons_append] at hl
          rw [hc2] at hF
          rw [hF] at hl; simp at hl
      · simp at h2

/-- **custom_alt_agree**: any two alternatives of a checked list that match at the same place match the
same lexeme -/
theorem alt_agree (C : Classes) (alts : List Alt) (hok : altsOK C alts = true) (A B : Alt)
    (hA : A ∈ alts) (hB : B ∈ alts) (s : List Ch) (n m : Nat)
    (h1 : matchLen C A s = some n) (h2 : matchLen C B s = some m) : n = m := by
  simp only [altsOK, List.all_eq_true] at hok
  have hp := hok A hA B hB
  simp only [pairOK, Bool.or_eq_true, Bool.and_eq_true] at hp
  rcases hp with (⟨ra, rb⟩ | hp) | hp
  · rw [rb_len C A ra s n h1, rb_len C B rb s m h2]
  · cases hh : A.head with
    | none => simp [hh] at hp
    | some w =>
      simp only [hh, Bool.and_eq_true] at hp
      exact apart_agree C A B w hh hp.2 s n m h1 h2
  · cases hh : B.head with
    | none => simp [hh] at hp
    | some w =>
      simp only [hh, Bool.and_eq_true] at hp
      exact (apart_agree C B A w hh hp.2 s m n h2 h1).symm

/-- hence the ordered choice does not depend on the order of the alternatives -/
theorem choose_perm (C : Classes) (l₁ l₂ : List Alt) (hperm : l₁.Perm l₂) (hok : altsOK C l₁ = true)
    (s : List Ch) : choose C l₁ s = choose C l₂ s := by
  unfold choose
  cases h1 : l₁.findSome? (matchLen C · s) with
  | none =>
    rw [List.findSome?_eq_none_iff] at h1
    symm
    rw [List.findSome?_eq_none_iff]
    intro x hx
    exact h1 x (hperm.mem_iff.2 hx)
  | some n =>
    obtain ⟨a, ha, han⟩ := List.exists_of_findSome?_eq_some h1
    cases h2 : l₂.findSome? (matchLen C · s) with
    | none =>
      rw [List.findSome?_eq_none_iff] at h2
      have := h2 a (hperm.mem_iff.1 ha)
      rw [han] at this; simp at this
    | some m =>
      obtain ⟨b, hb, hbm⟩ := List.exists_of_findSome?_eq_some h2
      have := alt_agree C l₁ hok a b ha (hperm.mem_iff.2 hb) s n m han hbm
      rw [this]

end EPV.Lexer

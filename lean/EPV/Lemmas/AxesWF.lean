/-
C01 — well-formedness of the pre-order array as propositions (extracted from the decidable check
`wfArr`), and the bridge between the parent chain and the subtree intervals:
an index `q` is on the parent chain of `i`  iff  `q < i ≤ q + size q`.
-/
import EPV.Lemmas.AxesList
import EPV.Spec.XPath1Paths
namespace EPV.XP

/-- what `wfArr m a = true` means -/
structure WF (m : Mode) (a : Arr) : Prop where
  pos : 0 < a.length
  bound : ∀ i, i < a.length → i + sz a i < a.length
  rootNone : ∀ i, i < a.length → isRoot m i = true → par a i = none
  parSome : ∀ i, i < a.length → isRoot m i = false → ∃ p, par a i = some p
  parLt : ∀ i p, i < a.length → par a i = some p → p < i ∧ i ≤ p + sz a p
  nearest : ∀ i p q, i < a.length → par a i = some p → p < q → q < i → q + sz a q < i
  nest : ∀ i q, i < a.length → q < i → i ≤ q + sz a q → i + sz a i ≤ q + sz a q
  owner : ∀ i p, i < a.length → par a i = some p → isAN a i = true → kd a p = .elem
  anFirst : ∀ i p q, i < a.length → par a i = some p → isAN a i = true → p < q → q < i → isAN a q = true
  leaf : ∀ i, i < a.length → isED a i = false → sz a i = 0
  docZero : ∀ i, i < a.length → kd a i = .doc → i = 0
  shape : match m with
    | .doc => kd a 0 = .doc ∧ sz a 0 + 1 = a.length
    | .frag => kd a 0 = .elem ∧ sz a 0 + 1 = a.length
    | .dummy => kd a 0 = .doc ∧ sz a 0 = 0 ∧ 2 ≤ a.length ∧ kd a 1 = .elem ∧ sz a 1 + 2 = a.length

theorem wf_of_wfArr {m : Mode} {a : Arr} (h : wfArr m a = true) : WF m a := by
  unfold wfArr at h
  simp only [Bool.and_eq_true, decide_eq_true_eq, List.all_eq_true, List.mem_range] at h
  obtain ⟨⟨hpos, hrec⟩, hshape⟩ := h
  have hrec2 : ∀ i, i < a.length → wfRec m a i = true := hrec
  have recp : ∀ i, i < a.length →
      (i + sz a i < a.length) ∧
      (match par a i with
        | none => isRoot m i = true
        | some p => isRoot m i = false ∧ p < i ∧ i ≤ p + sz a p ∧
            (∀ q, q < i → p < q → q + sz a q < i) ∧ (isAN a i = true → kd a p = .elem) ∧
            (isAN a i = true → ∀ q, q < i → p < q → isAN a q = true)) ∧
      (∀ q, q < i → i ≤ q + sz a q → i + sz a i ≤ q + sz a q) ∧
      (isED a i = false → sz a i = 0) ∧ (kd a i = .doc → i = 0) := by
    intro i hi
    have := hrec2 i hi
    unfold wfRec at this
    simp only [Bool.and_eq_true, decide_eq_true_eq, List.all_eq_true, List.mem_range,
      Bool.or_eq_true, Bool.not_eq_true', decide_eq_false_iff_not, beq_iff_eq] at this
    obtain ⟨⟨⟨⟨h1, h2⟩, h3⟩, h4⟩, h5⟩ := this
    refine ⟨h1, ?_, ?_, ?_, ?_⟩
    · cases hp : par a i with
      | none => rw [hp] at h2; simpa using h2
      | some p =>
        rw [hp] at h2
        simp only [Bool.and_eq_true, decide_eq_true_eq, List.all_eq_true, List.mem_range,
          Bool.or_eq_true, Bool.not_eq_true', decide_eq_false_iff_not, beq_iff_eq] at h2
        obtain ⟨⟨⟨⟨⟨a1, a2⟩, a3⟩, a4⟩, a5⟩, a6⟩ := h2
        refine ⟨a1, a2, a3, ?_, ?_, ?_⟩
        · intro q hq hpq
          rcases a4 q hq with e | e
          · exact absurd hpq e
          · exact e
        · intro han
          rcases a5 with e | e
          · rw [han] at e; cases e
          · exact e
        · intro han q hq hpq
          rcases a6 with e | e
          · rw [han] at e; cases e
          · rcases e q hq with e | e
            · exact absurd hpq e
            · exact e
    · intro q hq hle
      rcases h3 q hq with e | e
      · exact absurd hle e
      · exact e
    · intro hed
      rcases h4 with e | e
      · rw [hed] at e; cases e
      · exact e
    · intro hd
      rcases h5 with e | e
      · rw [hd] at e; cases e
      · exact e
  refine ⟨hpos, fun i hi => (recp i hi).1, ?_, ?_, ?_, ?_, fun i q hi hq hle => (recp i hi).2.2.1 q hq hle,
    ?_, ?_, fun i hi => (recp i hi).2.2.2.1, fun i hi => (recp i hi).2.2.2.2, ?_⟩
  · intro i hi hr
    have := (recp i hi).2.1
    cases hp : par a i with
    | none => rfl
    | some p => rw [hp] at this; rw [hr] at this; cases this.1
  · intro i hi hr
    have := (recp i hi).2.1
    cases hp : par a i with
    | none => rw [hp] at this; rw [hr] at this; cases this
    | some p => exact ⟨p, rfl⟩
  · intro i p hi hp
    have := (recp i hi).2.1
    rw [hp] at this
    exact ⟨this.2.1, this.2.2.1⟩
  · intro i p q hi hp hpq hqi
    have := (recp i hi).2.1
    rw [hp] at this
    exact this.2.2.2.1 q hqi hpq
  · intro i p hi hp han
    have := (recp i hi).2.1
    rw [hp] at this
    exact this.2.2.2.2.1 han
  · intro i p q hi hp han hpq hqi
    have := (recp i hi).2.1
    rw [hp] at this
    exact this.2.2.2.2.2 han q hqi hpq
  · cases m <;> simp only [Bool.and_eq_true, beq_iff_eq, decide_eq_true_eq] at hshape ⊢
    · exact hshape
    · obtain ⟨⟨⟨⟨h1, h2⟩, h3⟩, h4⟩, h5⟩ := hshape
      exact ⟨h1, h2, h3, h4, h5⟩
    · exact hshape

namespace WF
variable {m : Mode} {a : Arr}

/-- no interval encloses a root -/
theorem root_not_enclosed (w : WF m a) {i q : Nat} (hi : i < a.length) (hr : isRoot m i = true)
    (hq : q < i) : ¬ i ≤ q + sz a q := by
  intro hle
  unfold isRoot at hr
  simp only [Bool.or_eq_true, beq_iff_eq, Bool.and_eq_true] at hr
  rcases hr with rfl | ⟨rfl, rfl⟩
  · omega
  · have := w.shape
    simp only at this
    have hq0 : q = 0 := by omega
    subst hq0
    omega

theorem par_lt (w : WF m a) {i p : Nat} (hi : i < a.length) (hp : par a i = some p) : p < i :=
  (w.parLt i p hi hp).1

theorem par_lt_len (w : WF m a) {i p : Nat} (hi : i < a.length) (hp : par a i = some p) :
    p < a.length := by have := w.par_lt hi hp; omega

end WF

/-- **the bridge**: membership in the spec's parent chain = interval containment -/
theorem mem_ancUp (w : WF m a) : ∀ (fuel i q : Nat), i ≤ fuel → i < a.length →
    (q ∈ Spec.ancUp a fuel i ↔ q < i ∧ i ≤ q + sz a q)
  | 0, i, q, h, _ => by
    have : i = 0 := by omega
    subst this
    simp [Spec.ancUp]
  | fuel + 1, i, q, h, hi => by
    unfold Spec.ancUp
    cases hp : par a i with
    | none =>
      simp only [List.not_mem_nil, false_iff, not_and]
      intro hq
      have hr : isRoot m i = true := by
        cases hr : isRoot m i with
        | true => rfl
        | false => obtain ⟨p, hp'⟩ := w.parSome i hi hr; rw [hp] at hp'; cases hp'
      exact w.root_not_enclosed hi hr hq
    | some p =>
      have ⟨hpi, hip⟩ := w.parLt i p hi hp
      have hpl : p < a.length := by omega
      have ih := mem_ancUp w fuel p q (by omega) hpl
      simp only [List.mem_cons, ih]
      constructor
      · rintro (rfl | ⟨h1, h2⟩)
        · exact ⟨hpi, hip⟩
        · have := w.nest p q hpl h1 h2
          exact ⟨by omega, by omega⟩
      · rintro ⟨h1, h2⟩
        by_cases hqp : q = p
        · exact Or.inl hqp
        · right
          by_cases hlt : q < p
          · exact ⟨hlt, by omega⟩
          · have := w.nearest i p q hi hp (by omega) h1
            omega

theorem isAnc_iff (w : WF m a) {q i : Nat} (hi : i < a.length) :
    Spec.isAnc a q i = true ↔ q < i ∧ i ≤ q + sz a q := by
  unfold Spec.isAnc Spec.ancOf
  rw [List.contains_iff_mem]
  exact mem_ancUp w i i q (Nat.le_refl _) hi

/-- the model's chain (`iter_ancestors`, with its fragment stop rule) is the spec's chain -/
theorem ancChain_eq (w : WF m a) : ∀ (fuel i : Nat), i < a.length →
    ancChain m a fuel i = Spec.ancUp a fuel i
  | 0, _, _ => rfl
  | fuel + 1, i, hi => by
    unfold ancChain Spec.ancUp
    cases hp : par a i with
    | none => rfl
    | some p =>
      have hpl := w.par_lt_len hi hp
      simp only
      split
      · rename_i hc
        simp only [Bool.and_eq_true, beq_iff_eq, Bool.not_eq_true'] at hc
        -- fragment mode, p is the root: its own chain is empty
        have hm : m = .frag := by cases m <;> simp [hasDoc] at hc ⊢
        subst hm
        have hp0 : p = 0 := by simpa [rootIdx] using hc.1
        subst hp0
        have : par a 0 = none := w.rootNone 0 hpl (by simp [isRoot])
        cases fuel with
        | zero => rfl
        | succ f => simp [Spec.ancUp, this]
      · rw [ancChain_eq w fuel p hpl]

/-- the chain is strictly decreasing -/
theorem ancUp_sorted (w : WF m a) : ∀ (fuel i : Nat), i < a.length →
    (Spec.ancUp a fuel i).Pairwise (· > ·) ∧ ∀ q ∈ Spec.ancUp a fuel i, q < i
  | 0, _, _ => by simp [Spec.ancUp]
  | fuel + 1, i, hi => by
    unfold Spec.ancUp
    cases hp : par a i with
    | none => simp
    | some p =>
      have hpi := w.par_lt hi hp
      have ⟨ih1, ih2⟩ := ancUp_sorted w fuel p (w.par_lt_len hi hp)
      simp only [List.pairwise_cons, List.mem_cons]
      refine ⟨⟨fun q hq => ih2 q hq, ih1⟩, ?_⟩
      rintro q (rfl | hq)
      · exact hpi
      · have := ih2 q hq; omega

end EPV.XP

/-
Helper lemmas for C06, integer part: Python's floor division / modulo (`Int.fdiv`/`Int.fmod`)
against truncating division (`Int.tdiv`/`Int.tmod`).  Core Lean only.
-/
import EPV.Model.Arith
namespace EPV.Arith

theorem fmod_zero_iff (a b : Int) : Int.fmod a b = 0 ↔ b ∣ a := by
  constructor
  · intro h
    have := Int.fmod_add_fdiv_mul a b
    rw [h] at this
    exact ⟨a.fdiv b, by rw [Int.mul_comm]; omega⟩
  · intro h
    rw [Int.fmod_eq_emod]
    simp [h, Int.emod_eq_zero_of_dvd h]

theorem tdiv_nonpos_of_nonpos_of_nonneg {a b : Int} (ha : a ≤ 0) (hb : 0 ≤ b) : a.tdiv b ≤ 0 := by
  have := Int.tdiv_nonneg (a := -a) (b := b) (by omega) hb
  rw [Int.neg_tdiv] at this
  omega

/-- Python floor division followed by the `+1` correction of `idiv` is truncating division -/
theorem idivInt_eq_tdiv (a b : Int) : idivInt a b = Int.tdiv a b := by
  have hz := fmod_zero_iff a b
  have h := @Int.fdiv_eq_tdiv a b
  simp only [idivInt, pyFloorDiv, pyMod]
  by_cases hd : b ∣ a
  · have : a.fmod b = 0 := hz.2 hd
    simp [hd] at h
    simp [this, h]
  · have hm : a.fmod b ≠ 0 := fun e => hd (hz.1 e)
    simp only [hd, if_false] at h
    simp only [hm, or_false]
    have hs1 : 0 < b → b.sign = 1 := Int.sign_eq_one_of_pos
    have hs2 : b < 0 → b.sign = -1 := Int.sign_eq_neg_one_of_neg
    have hs0 : b = 0 → b.sign = 0 := fun e => by simp [e]
    by_cases ha : 0 ≤ a <;> by_cases hb' : 0 ≤ b <;> simp only [ha, hb', if_true, if_false] at h
    · have := Int.tdiv_nonneg ha hb'
      split <;> omega
    · have := Int.tdiv_nonpos_of_nonneg_of_nonpos ha (by omega : b ≤ 0)
      split <;> omega
    · have := tdiv_nonpos_of_nonpos_of_nonneg (by omega : a ≤ 0) hb'
      have hb0 : b = 0 → a.tdiv b = 0 := fun e => by simp [e]
      split <;> omega
    · have := Int.tdiv_nonneg_of_nonpos_of_nonpos (by omega : a ≤ 0) (by omega : b ≤ 0)
      split <;> omega

theorem fmod_natAbs (a b : Int) : Int.fmod (a.natAbs : Int) (b.natAbs : Int) = Int.tmod (a.natAbs : Int) (b.natAbs : Int) := by
  rw [← Int.ofNat_fmod, ← Int.ofNat_tmod]

theorem tmod_natAbs_right (a b : Int) : Int.tmod a (b.natAbs : Int) = Int.tmod a b := by
  rcases Int.natAbs_eq b with h | h
  · rw [← h]
  · conv => rhs; rw [h]
    rw [Int.tmod_neg]

theorem modInt_eq_tmod (a b : Int) : modInt a b = Int.tmod a b := by
  unfold modInt pyMod
  rw [fmod_natAbs, tmod_natAbs_right]
  split
  · rename_i h
    rw [Int.natAbs_of_nonneg h]
  · rename_i h
    have : (a.natAbs : Int) = -a := by omega
    rw [this, Int.neg_tmod]; omega

theorem idiv_mod_identity_int (a b : Int) : a = idivInt a b * b + modInt a b := by
  rw [idivInt_eq_tdiv, modInt_eq_tmod]
  have := Int.tmod_add_tdiv_mul a b
  omega

end EPV.Arith

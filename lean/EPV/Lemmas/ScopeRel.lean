/-
C05 helper lemmas: the relation between what the model computes (callee sees the caller's
variables below the closure's, `ps.zip args ++ (cap ++ ρ)`) and what the lexical specification
computes (`ps.zip args ++ cap`).  Function items of the two sides carry different captured
dicts, so results are compared up to `IRel`: equal atomic values, and function items with the same
parameters and body whose captured dicts agree (recursively) on a set `S` of names that scopes
the body (`WS false (ps ++ S) body`).
-/
import EPV.Lemmas.ScopeFrame
import EPV.Spec.LexicalSem
namespace EPV.Scope

variable {lex : Bool}

inductive All2 {α β : Type} (R : α → β → Prop) : List α → List β → Prop
  | nil : All2 R [] []
  | cons {a b as bs} : R a b → All2 R as bs → All2 R (a :: as) (b :: bs)

inductive IRel (lex : Bool) : Item → Item → Prop
  | int (n : Int) : IRel lex (.int n) (.int n)
  | bool (b : Bool) : IRel lex (.bool b) (.bool b)
  | dtv (l : Int) (z : Option Int) : IRel lex (.dtv l z) (.dtv l z)
  | dtref (r : Nat) : IRel lex (.dtref r) (.dtref r)
  | dur (s : Int) : IRel lex (.dur s) (.dur s)
  | fn (ps : List Name) (b : Expr) (ρ1 ρ2 : Env) (S : List Name) (ex : Bool)
      (hex : ex = true → lex = true)
      (hws : WS lex ex (ps ++ S) b = true)
      (hdom : ∀ x, x ∈ S → (ρ1.lookup x).isSome = true ∧ (ρ2.lookup x).isSome = true)
      (hrel : ∀ x v1 v2, x ∈ S → ρ1.lookup x = some v1 → ρ2.lookup x = some v2 → All2 (IRel lex) v1 v2)
      (hout : ex = true → ∀ x, x ∉ S → ρ1.lookup x = none ∧ ρ2.lookup x = none) :
      IRel lex (.fn ps b ρ1) (.fn ps b ρ2)

abbrev VRel (lex : Bool) : Val → Val → Prop := All2 (IRel lex)

theorem All2.append {α β : Type} {R : α → β → Prop} {a1 a2 : List α} {b1 b2 : List β}
    (h1 : All2 R a1 b1) (h2 : All2 R a2 b2) : All2 R (a1 ++ a2) (b1 ++ b2) := by
  induction h1 with
  | nil => exact h2
  | cons h _ ih => exact .cons h ih

theorem All2.length_eq {α β : Type} {R : α → β → Prop} {a : List α} {b : List β}
    (h : All2 R a b) : a.length = b.length := by
  induction h with
  | nil => rfl
  | cons _ _ ih => simp [ih]

/-- both dicts bind every name of `S`, to related values -/
def ERel (lex : Bool) (S : List Name) (ρ1 ρ2 : Env) : Prop :=
  (∀ x, x ∈ S → (ρ1.lookup x).isSome = true ∧ (ρ2.lookup x).isSome = true) ∧
  (∀ x v1 v2, x ∈ S → ρ1.lookup x = some v1 → ρ2.lookup x = some v2 → VRel lex v1 v2)

/-- `ERel lex` on `S`; in exact mode nothing else is bound on either side.  `off` exempts one name
(the loop variable, which the `for` loop leaves bound in its own dict between iterations). -/
def Inv (lex : Bool) (off : Option Name) (exact : Bool) (S : List Name) (ρ1 ρ2 : Env) : Prop :=
  (∀ x, x ∈ S → some x ≠ off → (ρ1.lookup x).isSome = true ∧ (ρ2.lookup x).isSome = true) ∧
  (∀ x v1 v2, x ∈ S → some x ≠ off → ρ1.lookup x = some v1 → ρ2.lookup x = some v2 → VRel lex v1 v2) ∧
  (exact = true → ∀ x, x ∉ S → some x ≠ off → ρ1.lookup x = none ∧ ρ2.lookup x = none)

theorem Inv.weaken {exact S ρ1 ρ2} (x : Name) (h : Inv lex none exact S ρ1 ρ2) : Inv lex (some x) exact S ρ1 ρ2 :=
  ⟨fun y hy _ => h.1 y hy (by simp), fun y v1 v2 hy _ => h.2.1 y v1 v2 hy (by simp),
   fun he y hy _ => h.2.2 he y hy (by simp)⟩

theorem lookup_cons_eq {x : Name} {v : Val} {ρ : Env} : List.lookup x ((x, v) :: ρ) = some v := by
  simp [List.lookup]

theorem lookup_cons_ne {x y : Name} {v : Val} {ρ : Env} (h : y ≠ x) :
    List.lookup y ((x, v) :: ρ) = List.lookup y ρ := by
  have : (y == x) = false := by simpa using h
  simp [List.lookup, this]

/-- binding the exempted name on both sides to related values gives the full invariant for `x :: S` -/
theorem Inv.bind {exact S ρ1 ρ2} {x : Name} {v1 v2 : Val} (h : Inv lex (some x) exact S ρ1 ρ2) (hv : VRel lex v1 v2) :
    Inv lex none exact (x :: S) ((x, v1) :: ρ1) ((x, v2) :: ρ2) := by
  refine ⟨?_, ?_, ?_⟩
  · intro y hy _
    by_cases hyx : y = x
    · subst hyx; simp
    · rw [lookup_cons_ne hyx, lookup_cons_ne hyx]
      have : y ∈ S := by simpa [hyx] using hy
      exact h.1 y this (by simpa using hyx)
  · intro y w1 w2 hy _ h1 h2
    by_cases hyx : y = x
    · subst hyx
      rw [lookup_cons_eq] at h1 h2
      cases h1; cases h2; exact hv
    · rw [lookup_cons_ne hyx] at h1 h2
      have : y ∈ S := by simpa [hyx] using hy
      exact h.2.1 y w1 w2 this (by simpa using hyx) h1 h2
  · intro he y hy _
    have hyx : y ≠ x := by intro e; subst e; simp at hy
    rw [lookup_cons_ne hyx, lookup_cons_ne hyx]
    have : y ∉ S := by intro hm; exact hy (by simp [hm])
    exact h.2.2 he y this (by simpa using hyx)

/-- the loop dict after an iteration: the exempted name is bound to something, the rest is as before -/
theorem Inv.step {exact S ρ1 ρ2} {x : Name} {v : Val} (h : Inv lex (some x) exact S ρ1 ρ2) :
    Inv lex (some x) exact S ((x, v) :: ρ1) ρ2 := by
  refine ⟨?_, ?_, ?_⟩
  · intro y hy hne
    have hyx : y ≠ x := by simpa using hne
    rw [lookup_cons_ne hyx]; exact h.1 y hy hne
  · intro y w1 w2 hy hne h1 h2
    have hyx : y ≠ x := by simpa using hne
    rw [lookup_cons_ne hyx] at h1; exact h.2.1 y w1 w2 hy hne h1 h2
  · intro he y hy hne
    have hyx : y ≠ x := by simpa using hne
    rw [lookup_cons_ne hyx]; exact h.2.2 he y hy hne

theorem Inv.toERel {exact S ρ1 ρ2} (h : Inv lex none exact S ρ1 ρ2) : ERel lex S ρ1 ρ2 :=
  ⟨fun x hx => h.1 x hx (by simp), fun x v1 v2 hx => h.2.1 x v1 v2 hx (by simp)⟩

/-! ### primitives agree on related values -/

theorem IRel.refl_of_notFn : ∀ (x : Item), (∀ ps b c, x ≠ .fn ps b c) → IRel lex x x
  | .int n, _ => .int n
  | .bool b, _ => .bool b
  | .dtv l z, _ => .dtv l z
  | .dtref r, _ => .dtref r
  | .dur s, _ => .dur s
  | .fn ps b c, h => absurd rfl (h ps b c)

theorem deref_rel {h : Heap} {x1 x2 : Item} (hx : IRel lex x1 x2) : deref h x1 = deref h x2 := by
  cases hx <;> rfl

theorem addItems_rel {x1 x2 y1 y2 : Item} (hx : IRel lex x1 x2) (hy : IRel lex y1 y2) :
    addItems x1 y1 = addItems x2 y2 := by
  cases hx <;> cases hy <;> rfl

theorem addItems_notFn {x y r : Item} (h : addItems x y = some r) : IRel lex r r := by
  unfold addItems at h
  split at h
  · cases h; exact .int _
  · cases h

theorem subPure_rel {tz : Option Int} {h : Heap} {x1 x2 y1 y2 : Item} (hx : IRel lex x1 x2) (hy : IRel lex y1 y2) :
    subPure tz h x1 y1 = subPure tz h x2 y2 := by
  cases hx <;> cases hy <;> rfl

theorem subPure_notFn {tz : Option Int} {h : Heap} {x y r : Item} (he : subPure tz h x y = some r) : IRel lex r r := by
  unfold subPure at he
  split at he
  · cases he; exact .int _
  · split at he
    · cases he; exact .dur _
    · cases he

theorem subItems_fixed {c : Cfg} (hq : c.q.operandCopied = true) (h : Heap) (x y : Item) :
    subItems c h x y = (subPure c.tz h x y).map fun r => (r, h) := by
  unfold subItems
  cases subPure c.tz h x y with
  | none => rfl
  | some r => simp [hq]

theorem ebv_rel {v1 v2 : Val} (hv : VRel lex v1 v2) : ebv v1 = ebv v2 := by
  cases hv with
  | nil => rfl
  | cons h1 t =>
    cases t with
    | nil => cases h1 <;> rfl
    | cons h2 t2 => cases h1 <;> rfl

theorem allInts_rel {v1 v2 : Val} (hv : VRel lex v1 v2) : allInts v1 = allInts v2 := by
  induction hv with
  | nil => rfl
  | cons h _ ih => cases h <;> simp [allInts, ih]

theorem genEq_rel {a1 a2 b1 b2 : Val} (ha : VRel lex a1 a2) (hb : VRel lex b1 b2) : genEq a1 b1 = genEq a2 b2 := by
  unfold genEq
  rw [allInts_rel ha, allInts_rel hb]

theorem tzItem_rel {h : Heap} {v1 v2 : Val} (hv : VRel lex v1 v2) : tzItem h v1 = tzItem h v2 := by
  cases hv with
  | nil => rfl
  | cons h1 t =>
    cases t with
    | nil => simp [tzItem, deref_rel h1]
    | cons h2 t2 => rfl

theorem tzItem_notFn {h : Heap} {v r : Val} (he : tzItem h v = .ok r) : VRel lex r r := by
  unfold tzItem at he
  split at he
  · cases he; exact .nil
  · split at he
    · cases he; exact .cons (.dur _) .nil
    · cases he; exact .nil
    · cases he
  · cases he

theorem adjustItem_fixed {c : Cfg} (hq : c.q.adjustCopied = true) (h : Heap) (x : Item) (t : Option Int) :
    adjustItem c h x t = (deref h x).map fun d => (.dtv (adjustPure d t).1 (adjustPure d t).2, h) := by
  unfold adjustItem
  cases deref h x with
  | none => rfl
  | some d => simp [hq]

theorem targetOf_rel {v1 v2 : Val} (hv : VRel lex v1 v2) : targetOf v1 = targetOf v2 := by
  cases hv with
  | nil => rfl
  | cons h1 t =>
    cases t with
    | nil => cases h1 <;> rfl
    | cons h2 t2 => cases h1 <;> rfl

end EPV.Scope

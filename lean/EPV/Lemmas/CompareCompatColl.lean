/-
C07 (phase 5, second item) — XPath2Parser(compatibility_mode=True) under ANY default collation against
XPath 2.0 §3.5.2 compatibility rules with the string comparisons under the collation
(`generalAllowedCompatC`, EPV/Spec/FOCompareCompatC.lean).
-/
import EPV.Lemmas.CompareCompat2
import EPV.Lemmas.CompareCollation
import EPV.Spec.FOCompareCompatC
set_option linter.unusedSimpArgs false
set_option linter.unusedVariables false
namespace EPV.Cmp
open EPV.CmpSpec EPV.CmpFind

theorem isSingleBoolS_eq (L : List Item) : isSingleBoolS L = isSingleBoolItems L := by
  match L with
  | [] => rfl
  | [.node s] => rfl
  | [.atom a] => cases a <;> rfl
  | x :: y :: rest =>
    cases x with
    | node s => rfl
    | atom a => cases a <;> rfl

/-! ### the pair rule -/

/-- outside the string-like pairs, and where rule 3b does not apply, the collation changes nothing -/
theorem pairCompatC_nonstr (c : Coll) (m : Mode) (op : Op) (a b : Atom)
    (hn : (isStrLike3 a && isStrLike3 b) = false) (h4 : isNumeric a = false → isStr a = isStr b)
    (h1 : isNumeric a = isNumeric b) :
    pairCompatC c m op a b = pairCompat m op a b := by
  unfold pairCompatC pairCompat
  by_cases hnum : (isNumeric a || isNumeric b) = true
  · simp only [hnum, if_true]
    generalize fnNumber a = u
    generalize fnNumber b = v
    cases u <;> cases v <;> rfl
  · have hna : isNumeric a = false := by simp at hnum; exact hnum.1
    have h4' := h4 hna
    have hcond : (isXsString a || isXsString b || (isXsUntyped a && isXsUntyped b)) = false := by
      cases a <;> cases b <;> simp [isStrLike3] at hn <;> simp [isStr] at h4' <;> rfl
    simp only [hnum, Bool.false_eq_true, if_false, hcond]
    rw [pairSpecC_nonstr c m op a b hn]
    cases a <;> cases b <;> simp [isStrLike3] at hn <;> simp [isStr] at h4' <;> simp

/-- rule 3 under a collation coincides with the non-compatibility pair rule under that collation on the
pairs outside the F07-compat trigger (two exact numerics, two strings, two non-numeric non-strings) -/
theorem pairCompatC_eq_pairSpecC (c : Coll) (m : Mode) (op : Op) (a b : Atom)
    (h1 : isNumeric a = isNumeric b) (h2 : inexactDouble a = false) (h3 : inexactDouble b = false)
    (h4 : isNumeric a = false → isStr a = isStr b) (h5 : trigPromotion a b = false) :
    pairCompatC c m op a b = pairSpecC c m op a b := by
  by_cases hs : (isStrLike3 a && isStrLike3 b) = true
  · cases a <;> cases b <;> simp [isStrLike3] at hs <;> simp [isNumeric, numRank, isStr] at h4 <;>
      simp [pairCompatC, isNumeric, numRank, isXsString, isXsUntyped, castString, pairSpecC, valueOpC, pairSpec]
  · have hn : (isStrLike3 a && isStrLike3 b) = false := by simpa using hs
    rw [pairCompatC_nonstr c m op a b hn h4 h1, pairCompat_eq_pairSpec m op a b h1 h2 h3 h4 h5,
      pairSpecC_nonstr c m op a b hn]

/-! ### the evaluator: which part of it sees the pair function -/

/-- a single-boolean operand or an ordering operator: the pair function is never called -/
theorem generalCmpWith_v2c_indep (pg pg' : Atom → Atom → R) (op : Op) (L Rr : List Item)
    (h : (singleBool? (L.map (atomize .v2c))).isSome = true ∨ (singleBool? (Rr.map (atomize .v2c))).isSome = true ∨
      op.isOrd = true) :
    generalCmpWith pg .v2c op L Rr = generalCmpWith pg' .v2c op L Rr := by
  simp only [generalCmpWith, Mode.compat, if_true]
  cases hl : singleBool? (L.map (atomize .v2c)) with
  | some x => rfl
  | none =>
    cases hr : singleBool? (Rr.map (atomize .v2c)) with
    | some y => rfl
    | none =>
      have ho : op.isOrd = true := by simpa [hl, hr] using h
      simp [compatLoopWith, ho]

theorem product_nil_right (l : List Atom) : product l [] = [] := by
  induction l with
  | nil => rfl
  | cons a l ih => simp [product]

/-- no single-boolean operand, `=` / `!=`: the `any` loop over the product with the pair function -/
theorem generalCmpWith_v2c_eq (pg : Atom → Atom → R) (op : Op) (L Rr : List Item)
    (hl : singleBool? (L.map (atomize .v2c)) = none) (hr : singleBool? (Rr.map (atomize .v2c)) = none)
    (ho : op.isOrd = false) :
    generalCmpWith pg .v2c op L Rr = anyPairs pg (product (L.map (atomize .v2c)) (Rr.map (atomize .v2c))) := by
  simp only [generalCmpWith, Mode.compat, if_true, hl, hr, compatLoopWith, ho, Bool.false_eq_true, if_false,
    reduceCtorEq]
  by_cases h1 : (L.map (atomize .v2c)).isEmpty = true
  · have : L.map (atomize .v2c) = [] := by simpa using h1
    simp [this, product, anyPairs]
  · by_cases h2 : (Rr.map (atomize .v2c)).isEmpty = true
    · have : Rr.map (atomize .v2c) = [] := by simpa using h2
      simp [h1, this, product_nil_right, anyPairs]
    · simp [h1, h2]

/-- CONTEXT REDUCTION under a collation (compatibility mode): as `generalCmpCtx_eq_filled_v2c` -/
theorem generalCmpC_eq_filled_v2c (c : Coll) (itz : Option Int) (op : Op) (L Rr : List Item) :
    generalCmpC c itz .v2c op L Rr =
      generalCmpWith (pairGeneralWith (pyOpC c .v2c op) .v2c op) .v2c op
        (L.map (withImplicitTz itz)) (Rr.map (withImplicitTz itz)) := by
  have hl : ∀ X : List Item, (X.map (withImplicitTz itz)).map (atomize .v2c) =
      (X.map (atomize .v2c)).map (Atom.fillTz itz) := by
    intro X
    simp only [List.map_map]
    apply List.map_congr_left
    intro x _
    simpa using atomize_withImplicitTz itz .v2c x
  have hloop : ∀ l r : List Atom,
      compatLoopWith (pairGeneralC c itz .v2c op) .v2c op l r =
        compatLoopWith (pairGeneralWith (pyOpC c .v2c op) .v2c op) .v2c op (l.map (Atom.fillTz itz))
          (r.map (Atom.fillTz itz)) := by
    intro l r
    unfold compatLoopWith
    by_cases ho : op.isOrd = true
    · simp [ho, mapFloat_fillTz]
    · simp only [ho, Bool.false_eq_true, if_false, reduceCtorEq]
      rw [product_map, anyPairs_map]
      congr 1
      funext a b
      exact pairGeneralC_fill c itz .v2c op a b
  simp only [generalCmpC, generalCmpWith, Mode.compat, if_true, hl, List.isEmpty_map,
    singleBool?_fillTz, ebvList_fillTz, hloop]

/-! ### conformity -/

/-- the evaluator with the collation-aware pair function on operands already given the implicit timezone -/
theorem compat_v2c_coll_core (c : Coll) (op : Op) (L Rr : List Item)
    (ht : trigCompat .v2c op (L.map (atomize .v2c)) (Rr.map (atomize .v2c)) (L.any isNode) (Rr.any isNode) = false)
    (hclean : ∀ a ∈ L.map (atomize .v2c), ∀ b ∈ Rr.map (atomize .v2c), PairClean .v2c op a b) :
    ∃ allowed, compatAllowedC c op L Rr = some allowed ∧
      outOfR (generalCmpWith (pairGeneralWith (pyOpC c .v2c op) .v2c op) .v2c op L Rr) ∈ allowed := by
  rcases singleBool?_items L with ⟨x, hL, hsl⟩ | ⟨hnl, hsl, hsl'⟩
  · have h1 : compatAllowedC c op L Rr = generalAllowed .v2c op L Rr := by
      simp [compatAllowedC, hL, isSingleBoolS]
    rw [h1, generalCmpWith_v2c_indep _ (pairGeneral .v2c op) op L Rr (Or.inl (by simp [hsl]))]
    exact compat_v2c_conforms op L Rr ht hclean
  · rcases singleBool?_items Rr with ⟨y, hR, hsr⟩ | ⟨hnr, hsr, hsr'⟩
    · have h1 : compatAllowedC c op L Rr = generalAllowed .v2c op L Rr := by
        simp [compatAllowedC, hR, isSingleBoolS]
      rw [h1, generalCmpWith_v2c_indep _ (pairGeneral .v2c op) op L Rr (Or.inr (Or.inl (by simp [hsr])))]
      exact compat_v2c_conforms op L Rr ht hclean
    · cases ho : op.isOrd with
      | true =>
        have h1 : compatAllowedC c op L Rr = generalAllowed .v2c op L Rr := by
          simp [compatAllowedC, ho]
        rw [h1, generalCmpWith_v2c_indep _ (pairGeneral .v2c op) op L Rr (Or.inr (Or.inr ho))]
        exact compat_v2c_conforms op L Rr ht hclean
      | false =>
        simp only [trigCompat, Mode.compat, Bool.true_and, Bool.or_eq_false_iff, Bool.and_eq_false_iff,
          Bool.not_eq_false'] at ht
        obtain ⟨⟨⟨hex', hA⟩, hB⟩, hC⟩ := ht
        have hC' := hC.resolve_left (by simp [hsl', hsr'])
        simp only [ho, Bool.false_eq_true, if_false] at hC'
        have hx : ∀ d ∈ L.map (atomize .v2c) ++ Rr.map (atomize .v2c), inexactDouble d = false := by
          intro d hd; have := List.any_eq_false.mp hex' d hd; simpa using this
        have hpairs : ∀ p ∈ product (L.map (atomize .v2c)) (Rr.map (atomize .v2c)),
            pairCond p.1 p.2 ∧ PairClean .v2c op p.1 p.2 := by
          intro ⟨a, b⟩ hp
          obtain ⟨ha, hb⟩ := mem_product.mp hp
          have := List.any_eq_false.mp hC' (a, b) hp
          refine ⟨⟨?_, hx a (by simp [ha]), hx b (by simp [hb]), ?_⟩, hclean a ha b hb⟩
          · cases h1 : isNumeric a <;> cases h2 : isNumeric b <;> simp_all
          · intro hn
            cases h2 : isNumeric b <;> cases h3 : isStr a <;> cases h4 : isStr b <;> simp_all
        have hspec : compatAllowedC c op L Rr =
            allowedOfPairs ((product (L.map (atomize .v2c)) (Rr.map (atomize .v2c))).map
              fun p => pairGeneralWith (pyOpC c .v2c op) .v2c op p.1 p.2) := by
          have hsb : (isSingleBoolS L || isSingleBoolS Rr || op.isOrd) = false := by
            simp [isSingleBoolS_eq, hnl, hnr, ho]
          simp only [compatAllowedC, hsb, Bool.false_eq_true, if_false, atomizeS_eq]
          congr 1
          apply List.map_congr_left
          intro ⟨a, b⟩ hq
          obtain ⟨⟨c1, c2, c3, c4⟩, hc⟩ := hpairs (a, b) hq
          simp only
          rw [pairCompatC_eq_pairSpecC c .v2c op a b c1 c2 c3 c4 hc.2.1,
            pairGeneralC_conforms c .v2c op a b (pairGeneral_conforms_clean .v2c op a b hc) hc.2.2.2.1]
        rw [hspec, generalCmpWith_v2c_eq _ op L Rr hsl hsr ho]
        exact anyPairs_in_allowed (pairGeneralWith (pyOpC c .v2c op) .v2c op) _
          (fun p hq => pgC_ne_unsupported c .v2c op p.1 p.2 (hpairs p hq).2.2.2.2.1)

/-! ### the codepoint collation: the specification of the other theorems -/

theorem pairCompatC_codepoint (m : Mode) (op : Op) (a b : Atom) :
    pairCompatC .codepoint m op a b = pairCompat m op a b := by
  unfold pairCompatC pairCompat
  by_cases hnum : (isNumeric a || isNumeric b) = true
  · simp only [hnum, if_true]
    generalize fnNumber a = u
    generalize fnNumber b = v
    cases u <;> cases v <;> rfl
  · simp only [hnum, Bool.false_eq_true, if_false, pairSpecC_codepoint]
    cases a <;> cases b <;> simp [isXsString, isXsUntyped, castString] <;> rfl

theorem compatAllowedC_codepoint (op : Op) (L Rr : List Item) :
    compatAllowedC .codepoint op L Rr = generalAllowed .v2c op L Rr := by
  unfold compatAllowedC
  by_cases hb : (isSingleBoolS L || isSingleBoolS Rr || op.isOrd) = true
  · simp [hb]
  · have hb' : (isSingleBoolS L || isSingleBoolS Rr || op.isOrd) = false := by simpa using hb
    simp only [hb', Bool.false_eq_true, if_false]
    simp only [Bool.or_eq_false_iff] at hb'
    obtain ⟨⟨hl, hr⟩, ho⟩ := hb'
    have hfun : (fun p : Atom × Atom => pairCompatC .codepoint .v2c op p.1 p.2) = fun p => pairCompat .v2c op p.1 p.2 := by
      funext p; exact pairCompatC_codepoint _ _ _ _
    rw [hfun]
    match L, hl, Rr, hr with
    | [], _, [], _ => simp [generalAllowed, rules24, ho]
    | [], _, [.node _], _ => simp [generalAllowed, rules24, ho]
    | [], _, [.atom b], h => cases b <;> simp [isSingleBoolS] at h <;> simp [generalAllowed, rules24, ho]
    | [], _, _ :: _ :: _, _ => simp [generalAllowed, rules24, ho]
    | [.node _], _, [], _ => simp [generalAllowed, rules24, ho]
    | [.node _], _, [.node _], _ => simp [generalAllowed, rules24, ho]
    | [.node _], _, [.atom b], h => cases b <;> simp [isSingleBoolS] at h <;> simp [generalAllowed, rules24, ho]
    | [.node _], _, _ :: _ :: _, _ => simp [generalAllowed, rules24, ho]
    | [.atom a], h, [], _ => cases a <;> simp [isSingleBoolS] at h <;> simp [generalAllowed, rules24, ho]
    | [.atom a], h, [.node _], _ => cases a <;> simp [isSingleBoolS] at h <;> simp [generalAllowed, rules24, ho]
    | [.atom a], h, [.atom b], h' =>
      cases a <;> simp [isSingleBoolS] at h <;> cases b <;> simp [isSingleBoolS] at h' <;>
        simp [generalAllowed, rules24, ho]
    | [.atom a], h, _ :: _ :: _, _ => cases a <;> simp [isSingleBoolS] at h <;> simp [generalAllowed, rules24, ho]
    | _ :: _ :: _, _, [], _ => simp [generalAllowed, rules24, ho]
    | _ :: _ :: _, _, [.node _], _ => simp [generalAllowed, rules24, ho]
    | _ :: _ :: _, _, [.atom b], h => cases b <;> simp [isSingleBoolS] at h <;> simp [generalAllowed, rules24, ho]
    | _ :: _ :: _, _, _ :: _ :: _, _ => simp [generalAllowed, rules24, ho]

end EPV.Cmp

/-
C10 helper lemmas: xs:language — the scanner of the pattern against "split at the hyphens".
-/
import EPV.Lemmas.LexicalInt
namespace EPV.LexLemmas
open EPV

def notDash (c : Char) : Bool := c != '-'

theorem splitDash_eq (s : List Char) :
    XSD.splitDash s = s.takeWhile notDash ::
      (match s.dropWhile notDash with | [] => [] | _ :: r => XSD.splitDash r) := by
  induction s with
  | nil => rfl
  | cons c r ih =>
    rw [show XSD.splitDash (c :: r) = (if c == '-' then [] :: XSD.splitDash r else
        match XSD.splitDash r with | p :: ps => (c :: p) :: ps | [] => [[c]]) from rfl]
    by_cases hc : (c == '-') = true
    · have : notDash c = false := by simp [notDash, bne, hc]
      simp [hc, List.takeWhile_cons, List.dropWhile_cons, this]
    · have hnd : notDash c = true := by simp only [notDash, bne]; simpa using hc
      have hc' : (c == '-') = false := by simpa using hc
      rw [ih]
      simp [hc', List.takeWhile_cons, List.dropWhile_cons, hnd]

/-- scanning with a predicate `p` that implies `q`, seen from `q` -/
theorem scan_two (p q : Char → Bool) (hpq : ∀ c, p c = true → q c = true) (s : List Char) :
    (s.dropWhile p = [] → s.takeWhile q = s ∧ s.dropWhile q = []) ∧
    (∀ c r2, s.dropWhile p = c :: r2 → q c = false →
        s.takeWhile q = s.takeWhile p ∧ s.dropWhile q = c :: r2) ∧
    (∀ c r2, s.dropWhile p = c :: r2 → q c = true → c ∈ s.takeWhile q) := by
  induction s with
  | nil => simp
  | cons a t ih =>
    by_cases ha : p a = true
    · have hqa := hpq a ha
      rw [List.dropWhile_cons_of_pos ha, List.takeWhile_cons_of_pos ha, List.takeWhile_cons_of_pos hqa,
        List.dropWhile_cons_of_pos hqa]
      obtain ⟨i1, i2, i3⟩ := ih
      refine ⟨fun h => ?_, fun c r2 h hq => ?_, fun c r2 h hq => ?_⟩
      · have := i1 h; exact ⟨by rw [this.1], this.2⟩
      · have := i2 c r2 h hq; exact ⟨by rw [this.1], this.2⟩
      · exact List.mem_cons_of_mem _ (i3 c r2 h hq)
    · rw [List.dropWhile_cons_of_neg ha, List.takeWhile_cons_of_neg ha]
      refine ⟨fun h => by simp at h, fun c r2 h hq => ?_, fun c r2 h hq => ?_⟩
      · cases h
        have : ¬ (q a = true) := by simp [hq]
        rw [List.takeWhile_cons_of_neg this, List.dropWhile_cons_of_neg this]
        exact ⟨rfl, rfl⟩
      · cases h
        rw [List.takeWhile_cons_of_pos hq]; exact List.mem_cons_self

theorem alpha_eq (c : Char) : Lex.isAlpha c = XSD.isLetter c := rfl
theorem alnum_eq (c : Char) : Lex.isAlnum c = (XSD.isLetter c || XSD.isDigit c) := by
  unfold Lex.isAlnum; rw [alpha_eq, isDigit_eq]

theorem alnum_notDash (c : Char) (h : Lex.isAlnum c = true) : notDash c = true := by
  simp only [notDash, bne_iff_ne]
  intro e; subst e; revert h; decide

theorem alpha_notDash (c : Char) (h : Lex.isAlpha c = true) : notDash c = true :=
  alnum_notDash c (by simp [Lex.isAlnum, h])

theorem dash_iff (c : Char) : notDash c = false ↔ c = '-' := by
  simp [notDash, bne]

/-- length test of the scanner -/
def lenOk (p : List Char) : Bool := decide (1 ≤ p.length) && decide (p.length ≤ 8)

theorem subTag_eq (p : List Char) : XSD.subTag p = (lenOk p && p.all Lex.isAlnum) := by
  unfold XSD.subTag lenOk
  congr 1

theorem primaryTag_eq (p : List Char) : XSD.primaryTag p = (lenOk p && p.all Lex.isAlpha) := by
  unfold XSD.primaryTag lenOk
  rfl

theorem all_takeWhile' (p : Char → Bool) (l : List Char) : (l.takeWhile p).all p = true := List.all_takeWhile

/-- `(-[a-zA-Z0-9]{1,8})*$` = "every piece after a hyphen is a sub-tag" -/
theorem langTail_eq (t : List Char) :
    Lex.langTail t = (match t with
      | [] => true
      | c :: r => c == '-' && (XSD.splitDash r).all XSD.subTag) := by
  induction hn : t.length using Nat.strongRecOn generalizing t with
  | _ n ih =>
    cases t with
    | nil => rw [Lex.langTail]
    | cons c r =>
      rw [Lex.langTail]
      by_cases hc : (c == '-') = true
      · simp only [hc, ↓reduceIte, Bool.true_and]
        have hlen : (r.dropWhile Lex.isAlnum).length < n := by
          have := (List.dropWhile_sublist (l := r) Lex.isAlnum).length_le
          simp only [List.length_cons] at hn; omega
        have ihr := ih _ hlen (r.dropWhile Lex.isAlnum) rfl
        obtain ⟨s1, s2, s3⟩ := scan_two Lex.isAlnum notDash alnum_notDash r
        rw [splitDash_eq r, ihr]
        change (lenOk (r.takeWhile Lex.isAlnum) && _) = _
        cases hd : r.dropWhile Lex.isAlnum with
        | nil =>
          obtain ⟨e1, e2⟩ := s1 hd
          have hall : r.all Lex.isAlnum = true := by
            have := (dropWhile_eq_nil_iff Lex.isAlnum r).mp hd
            rw [List.all_eq_true]; exact this
          have htw : r.takeWhile Lex.isAlnum = r := by
            have := List.takeWhile_append_dropWhile (p := Lex.isAlnum) (l := r)
            rw [hd, List.append_nil] at this; exact this
          rw [e1, e2, htw]
          simp [subTag_eq, hall]
        | cons d r2 =>
          by_cases hdd : notDash d = false
          · obtain ⟨e1, e2⟩ := s2 d r2 hd hdd
            have hd' : d = '-' := (dash_iff d).mp hdd
            subst hd'
            rw [e1, e2]
            simp [subTag_eq, all_takeWhile']
          · have hdd' : notDash d = true := by simpa using hdd
            have hmem := s3 d r2 hd hdd'
            have hdna : Lex.isAlnum d = false := by
              have := List.head_dropWhile_not Lex.isAlnum (l := r) (by rw [hd]; simp)
              simp only [hd, List.head_cons] at this
              simpa using this
            have hne : (d == '-') = false := by
              simp only [notDash, bne_iff_ne] at hdd'; simpa using hdd'
            have hsub : XSD.subTag (r.takeWhile notDash) = false := by
              rw [subTag_eq]
              have : (r.takeWhile notDash).all Lex.isAlnum = false := by
                rw [Bool.eq_false_iff]; intro hall
                rw [List.all_eq_true] at hall
                have := hall d hmem
                rw [hdna] at this; cases this
              simp [this]
            simp [hne, hsub]
      · have hc' : (c == '-') = false := by simpa using hc
        simp [hc']

/-- **the xs:language pattern = the XSD lexical space** (every string) -/
theorem matchLanguage_eq (s : List Char) : Lex.matchLanguage s = XSD.languageLex s := by
  unfold Lex.matchLanguage XSD.languageLex
  simp only
  change (lenOk (s.takeWhile Lex.isAlpha) && _) = _
  obtain ⟨s1, s2, s3⟩ := scan_two Lex.isAlpha notDash alpha_notDash s
  rw [splitDash_eq s, langTail_eq]
  cases hd : s.dropWhile Lex.isAlpha with
  | nil =>
    obtain ⟨e1, e2⟩ := s1 hd
    have hall : s.all Lex.isAlpha = true := by
      have := (dropWhile_eq_nil_iff Lex.isAlpha s).mp hd
      rw [List.all_eq_true]; exact this
    have htw : s.takeWhile Lex.isAlpha = s := by
      have := List.takeWhile_append_dropWhile (p := Lex.isAlpha) (l := s)
      rw [hd, List.append_nil] at this; exact this
    rw [e1, e2, htw]
    simp [primaryTag_eq, hall]
  | cons d r2 =>
    by_cases hdd : notDash d = false
    · obtain ⟨e1, e2⟩ := s2 d r2 hd hdd
      have hd' : d = '-' := (dash_iff d).mp hdd
      subst hd'
      rw [e1, e2]
      simp [primaryTag_eq, all_takeWhile']
    · have hdd' : notDash d = true := by simpa using hdd
      have hmem := s3 d r2 hd hdd'
      have hdna : Lex.isAlpha d = false := by
        have := List.head_dropWhile_not Lex.isAlpha (l := s) (by rw [hd]; simp)
        simp only [hd, List.head_cons] at this
        simpa using this
      have hne : (d == '-') = false := by
        simp only [notDash, bne_iff_ne] at hdd'; simpa using hdd'
      have hprim : XSD.primaryTag (s.takeWhile notDash) = false := by
        rw [primaryTag_eq]
        have : (s.takeWhile notDash).all Lex.isAlpha = false := by
          rw [Bool.eq_false_iff]; intro hall
          rw [List.all_eq_true] at hall
          have := hall d hmem
          rw [hdna] at this; cases this
        simp [this]
      simp [hne, hprim]

end EPV.LexLemmas

/-
C10 — the date/time productions contain no white space, hence the specification cannot tell `strip` (what `fromstring`
applies) from whiteSpace=collapse (what XSD prescribes): `spec (pyStrip s) = spec (wsCollapse s)` for every string.
-/
import EPV.Lemmas.LexicalDate
import EPV.Lemmas.LexicalTz
namespace EPV.LexLemmas
open EPV

def noWhite (t : List Char) : Prop := ∀ c ∈ t, Lex.isPyWhite c = false

theorem noWhite_nil : noWhite [] := fun _ h => by cases h
theorem noWhite_cons {c : Char} {t : List Char} (hc : Lex.isPyWhite c = false) (ht : noWhite t) : noWhite (c :: t) := by
  intro x hx
  rcases List.mem_cons.1 hx with h | h
  · rw [h]; exact hc
  · exact ht x h
theorem noWhite_append {a b : List Char} (ha : noWhite a) (hb : noWhite b) : noWhite (a ++ b) := by
  intro x hx
  rcases List.mem_append.1 hx with h | h
  · exact ha x h
  · exact hb x h

theorem digit_nonwhite (c : Char) (h : Lex.isDigit c = true) : Lex.isPyWhite c = false := by
  have := (isDigit_iff c).1 h
  unfold Lex.isPyWhite Lex.pyWhiteCPs
  simp only [List.contains_cons, List.contains_nil, Bool.or_false, Bool.or_eq_false_iff, beq_eq_false_iff_ne, ne_eq]
  omega

theorem xdigit_nonwhite (c : Char) (h : XSD.isDigit c = true) : Lex.isPyWhite c = false :=
  digit_nonwhite c (by rw [isDigit_eq]; exact h)

theorem tzLiterals_nonwhite : XSD.timezoneLiterals.all (fun p => p.1.all fun c => !Lex.isPyWhite c) = true := by
  decide +kernel

theorem tzSuffix_nonwhite (r : List Char) (tz : Option Int) (h : XSD.tzSuffix? r = some tz) : noWhite r := by
  cases r with
  | nil => exact noWhite_nil
  | cons c r =>
    simp only [XSD.tzSuffix?] at h
    rw [← tzParse_eq_lookup] at h
    unfold Lex.tzParse at h
    split at h
    · rename_i hm
      obtain ⟨p, hp, hps⟩ := matchTz_mem_literals _ hm
      have := List.all_eq_true.1 tzLiterals_nonwhite p hp
      rw [hps] at this
      intro x hx
      have := List.all_eq_true.1 this x hx
      simpa using this
    · cases h

theorem frag_nonwhite (a b : Char) (lo hi : Nat) (h : inRange a b lo hi = true) :
    Lex.isPyWhite a = false ∧ Lex.isPyWhite b = false := by
  unfold inRange at h
  simp only [Bool.and_eq_true] at h
  exact ⟨digit_nonwhite a h.1.1.1, digit_nonwhite b h.1.1.2⟩

theorem colon_nw : Lex.isPyWhite ':' = false := by decide
theorem dash_nw : Lex.isPyWhite '-' = false := by decide
theorem dot_nw : Lex.isPyWhite '.' = false := by decide
theorem T_nw : Lex.isPyWhite 'T' = false := by decide

theorem fraction_nonwhite (r fs r' : List Char) (h : XSD.fraction? r = some (fs, r')) (hr : noWhite r') : noWhite r := by
  unfold XSD.fraction? at h
  split at h
  · rename_i rest
    simp only [] at h
    split at h
    · cases h
    · simp only [Option.some.injEq, Prod.mk.injEq] at h
      have e : rest = rest.takeWhile XSD.isDigit ++ rest.dropWhile XSD.isDigit := (List.takeWhile_append_dropWhile ..).symm
      rw [e]
      refine noWhite_cons dot_nw (noWhite_append ?_ (by rw [h.2]; exact hr))
      intro c hc
      exact xdigit_nonwhite c (mem_takeWhile_pred _ _ _ hc)
  · simp only [Option.some.injEq, Prod.mk.injEq] at h
    rw [h.2]; exact hr

theorem timeLex_nonwhite (r : List Char) (g : XSD.GVal) (h : XSD.timeLex r = some g) : noWhite r := by
  by_cases hsh : ∃ a b c d e f rest, r = a :: b :: ':' :: c :: d :: ':' :: e :: f :: rest
  · obtain ⟨a, b, c, d, e, f, rest, rfl⟩ := hsh
    rw [XSD.timeLex.eq_1] at h
    cases hfr : XSD.fraction? rest with
    | none => rw [hfr] at h; cases h
    | some p =>
      obtain ⟨fs, r'⟩ := p
      rw [hfr] at h
      simp only [] at h
      have key : ∀ tz, XSD.tzSuffix? r' = some tz →
          (Lex.isPyWhite a = false ∧ Lex.isPyWhite b = false) → (Lex.isPyWhite c = false ∧ Lex.isPyWhite d = false) →
          (Lex.isPyWhite e = false ∧ Lex.isPyWhite f = false) →
          noWhite (a :: b :: ':' :: c :: d :: ':' :: e :: f :: rest) := by
        intro tz htz h1 h2 h3
        have hrest := fraction_nonwhite rest fs r' hfr (tzSuffix_nonwhite r' tz htz)
        exact noWhite_cons h1.1 (noWhite_cons h1.2 (noWhite_cons colon_nw (noWhite_cons h2.1 (noWhite_cons h2.2
          (noWhite_cons colon_nw (noWhite_cons h3.1 (noWhite_cons h3.2 hrest)))))))
      split at h
      · rename_i h24
        split at h
        · rename_i h00
          cases htz : XSD.tzSuffix? r' with
          | none => rw [htz] at h; cases h
          | some tz =>
            simp only [Bool.and_eq_true, beq_iff_eq] at h24 h00
            refine key tz htz ?_ ?_ ?_
            · rw [h24.1, h24.2]; exact ⟨by decide, by decide⟩
            · rw [h00.1.1.1.1, h00.1.1.1.2]; exact ⟨by decide, by decide⟩
            · rw [h00.1.1.2, h00.1.2]; exact ⟨by decide, by decide⟩
        · cases h
      · split at h
        · rename_i hok
          cases htz : XSD.tzSuffix? r' with
          | none => rw [htz] at h; cases h
          | some tz =>
            simp only [Bool.and_eq_true] at hok
            rw [← hour_ok, ← minute_ok, ← minute_ok] at hok
            exact key tz htz (frag_nonwhite _ _ _ _ hok.1.1) (frag_nonwhite _ _ _ _ hok.1.2) (frag_nonwhite _ _ _ _ hok.2)
        · cases h
  · have hno : ∀ a b c d e f rest, r = a :: b :: ':' :: c :: d :: ':' :: e :: f :: rest → False :=
      fun a b c d e f rest e' => hsh ⟨a, b, c, d, e, f, rest, e'⟩
    rw [XSD.timeLex.eq_2 r hno] at h; cases h

/-- the text consumed by yearFrag has no white space -/
theorem yearFrag_nonwhite (t : List Char) (n : Int) (rest : List Char) (h : XSD.yearFrag? t = some (n, rest))
    (hr : noWhite rest) : noWhite t := by
  unfold XSD.yearFrag? at h
  simp only [] at h
  split at h
  · cases h
  · split at h
    · cases h
    · simp only [Option.some.injEq, Prod.mk.injEq] at h
      have hbody : noWhite (XSD.stripMinus t) := by
        have e : XSD.stripMinus t = (XSD.stripMinus t).takeWhile XSD.isDigit ++ (XSD.stripMinus t).dropWhile XSD.isDigit :=
          (List.takeWhile_append_dropWhile ..).symm
        rw [e]
        refine noWhite_append ?_ (by rw [h.2]; exact hr)
        intro c hc
        exact xdigit_nonwhite c (mem_takeWhile_pred _ _ _ hc)
      unfold XSD.stripMinus at hbody
      split at hbody
      · exact noWhite_cons dash_nw hbody
      · exact hbody

theorem month_nw (a b : Char) (h : XSD.monthFragOk a b = true) : Lex.isPyWhite a = false ∧ Lex.isPyWhite b = false := by
  rw [← month_ok] at h; exact frag_nonwhite _ _ _ _ h
theorem day_nw (a b : Char) (h : XSD.dayFragOk a b = true) : Lex.isPyWhite a = false ∧ Lex.isPyWhite b = false := by
  rw [← day_ok] at h; exact frag_nonwhite _ _ _ _ h

theorem gYearLex_nonwhite (v11 : Bool) (t : List Char) (f : XSD.DateFields) (h : XSD.gYearLex v11 t = some f) : noWhite t := by
  unfold XSD.gYearLex at h
  split at h
  · rename_i n r hy
    split at h
    · rename_i y tz _ htz
      exact yearFrag_nonwhite t n r hy (tzSuffix_nonwhite r tz htz)
    · cases h
  · cases h

theorem gYearMonthLex_nonwhite (v11 : Bool) (t : List Char) (f : XSD.DateFields) (h : XSD.gYearMonthLex v11 t = some f) :
    noWhite t := by
  unfold XSD.gYearMonthLex at h
  split at h
  · rename_i n a b r hy
    split at h
    · rename_i y tz _ htz
      split at h
      · rename_i hm
        have := month_nw a b hm
        exact yearFrag_nonwhite t n _ hy (noWhite_cons dash_nw (noWhite_cons this.1 (noWhite_cons this.2
          (tzSuffix_nonwhite r tz htz))))
      · cases h
    · cases h
  · cases h

theorem dateLex_nonwhite (v11 : Bool) (t : List Char) (f : XSD.DateFields) (h : XSD.dateLex v11 t = some f) : noWhite t := by
  unfold XSD.dateLex at h
  split at h
  · rename_i n a b c d r hy
    split at h
    · rename_i y tz _ htz
      split at h
      · rename_i hm
        simp only [Bool.and_eq_true] at hm
        have h1 := month_nw a b hm.1.1
        have h2 := day_nw c d hm.1.2
        exact yearFrag_nonwhite t n _ hy (noWhite_cons dash_nw (noWhite_cons h1.1 (noWhite_cons h1.2 (noWhite_cons dash_nw
          (noWhite_cons h2.1 (noWhite_cons h2.2 (tzSuffix_nonwhite r tz htz)))))))
      · cases h
    · cases h
  · cases h

theorem dateTimeLex_nonwhite (v11 : Bool) (t : List Char) (f : XSD.DateFields) (h : XSD.dateTimeLex v11 t = some f) :
    noWhite t := by
  unfold XSD.dateTimeLex at h
  split at h
  · rename_i n a b c d r hy
    split at h
    · rename_i y g _ hg
      split at h
      · rename_i hm
        simp only [Bool.and_eq_true] at hm
        have h1 := month_nw a b hm.1.1
        have h2 := day_nw c d hm.1.2
        exact yearFrag_nonwhite t n _ hy (noWhite_cons dash_nw (noWhite_cons h1.1 (noWhite_cons h1.2 (noWhite_cons dash_nw
          (noWhite_cons h2.1 (noWhite_cons h2.2 (noWhite_cons T_nw (timeLex_nonwhite r g hg))))))))
      · cases h
    · cases h
  · cases h

/-- a function that is `none` on every string with a white character takes the same value after `strip` and after `collapse` -/
theorem strip_vs_collapse_opt {α : Type} (F : List Char → Option α) (hF : ∀ x v, F x = some v → noWhite x) (s : List Char) :
    F (Lex.pyStrip s) = F (XSD.wsCollapse s) := by
  rw [← collapse_eq_wsCollapse_all]
  rcases pyStrip_or_white s with h | ⟨⟨w, hw, hww⟩, h2⟩
  · rw [h]
  · have e1 : F (Lex.pyStrip s) = none := by
      cases hv : F (Lex.pyStrip s) with
      | none => rfl
      | some v => have := hF _ v hv w hw; rw [this] at hww; cases hww
    have e2 : F (Lex.collapse s) = none := by
      cases hv : F (Lex.collapse s) with
      | none => rfl
      | some v => have := hF _ v hv ' ' h2; exact absurd this (by decide)
    rw [e1, e2]

theorem dateLex_strip (v11 : Bool) (s : List Char) : XSD.dateLex v11 (Lex.pyStrip s) = XSD.dateLex v11 (XSD.wsCollapse s) :=
  strip_vs_collapse_opt _ (dateLex_nonwhite v11) s
theorem dateTimeLex_strip (v11 : Bool) (s : List Char) :
    XSD.dateTimeLex v11 (Lex.pyStrip s) = XSD.dateTimeLex v11 (XSD.wsCollapse s) :=
  strip_vs_collapse_opt _ (dateTimeLex_nonwhite v11) s
theorem gYearLex_strip (v11 : Bool) (s : List Char) : XSD.gYearLex v11 (Lex.pyStrip s) = XSD.gYearLex v11 (XSD.wsCollapse s) :=
  strip_vs_collapse_opt _ (gYearLex_nonwhite v11) s
theorem gYearMonthLex_strip (v11 : Bool) (s : List Char) :
    XSD.gYearMonthLex v11 (Lex.pyStrip s) = XSD.gYearMonthLex v11 (XSD.wsCollapse s) :=
  strip_vs_collapse_opt _ (gYearMonthLex_nonwhite v11) s
theorem dateTimeStampLex_strip (s : List Char) :
    XSD.dateTimeStampLex true (Lex.pyStrip s) = XSD.dateTimeStampLex true (XSD.wsCollapse s) := by
  unfold XSD.dateTimeStampLex; rw [dateTimeLex_strip]

/-! ### xs:time and the year-free gregorian types -/

theorem gDayLex_nonwhite (t : List Char) (g : XSD.GVal) (h : XSD.gDayLex t = some g) : noWhite t := by
  unfold XSD.gDayLex at h
  split at h
  · rename_i a b r
    split at h
    · rename_i hd
      cases htz : XSD.tzSuffix? r with
      | none => rw [htz] at h; cases h
      | some tz =>
        have := day_nw a b hd
        exact noWhite_cons dash_nw (noWhite_cons dash_nw (noWhite_cons dash_nw (noWhite_cons this.1 (noWhite_cons this.2
          (tzSuffix_nonwhite r tz htz)))))
    · cases h
  · cases h

theorem gMonthLex_nonwhite (t : List Char) (g : XSD.GVal) (h : XSD.gMonthLex t = some g) : noWhite t := by
  unfold XSD.gMonthLex at h
  split at h
  · rename_i a b r
    split at h
    · rename_i hd
      cases htz : XSD.tzSuffix? r with
      | none => rw [htz] at h; cases h
      | some tz =>
        have := month_nw a b hd
        exact noWhite_cons dash_nw (noWhite_cons dash_nw (noWhite_cons this.1 (noWhite_cons this.2
          (tzSuffix_nonwhite r tz htz))))
    · cases h
  · cases h

theorem gMonthDayLex_nonwhite (t : List Char) (g : XSD.GVal) (h : XSD.gMonthDayLex t = some g) : noWhite t := by
  unfold XSD.gMonthDayLex at h
  split at h
  · rename_i a b c d r
    split at h
    · rename_i hd
      simp only [Bool.and_eq_true] at hd
      cases htz : XSD.tzSuffix? r with
      | none => rw [htz] at h; cases h
      | some tz =>
        have h1 := month_nw a b hd.1.1
        have h2 := day_nw c d hd.1.2
        exact noWhite_cons dash_nw (noWhite_cons dash_nw (noWhite_cons h1.1 (noWhite_cons h1.2 (noWhite_cons dash_nw
          (noWhite_cons h2.1 (noWhite_cons h2.2 (tzSuffix_nonwhite r tz htz)))))))
    · cases h
  · cases h

theorem specOf_strip (k : Lex.GKind) (s : List Char) : specOf k (Lex.pyStrip s) = specOf k (XSD.wsCollapse s) := by
  cases k
  · exact strip_vs_collapse_opt _ gDayLex_nonwhite s
  · exact strip_vs_collapse_opt _ gMonthLex_nonwhite s
  · exact strip_vs_collapse_opt _ gMonthDayLex_nonwhite s
  · exact strip_vs_collapse_opt _ timeLex_nonwhite s

/-! ### durations -/

theorem digits_nonwhite (ds : List Char) (h : XSD.unsignedNoDecimalPt ds = true) : noWhite ds := by
  unfold XSD.unsignedNoDecimalPt at h
  simp only [Bool.and_eq_true] at h
  intro c hc
  exact xdigit_nonwhite c (List.all_eq_true.1 h.2 c hc)

theorem frac_nonwhite (ds : List Char) (h : XSD.fracFrag ds = true) : noWhite ds := by
  unfold XSD.fracFrag at h
  simp only [Bool.and_eq_true] at h
  intro c hc
  exact xdigit_nonwhite c (List.all_eq_true.1 h.2 c hc)

theorem renderItems_nonwhite : (des : List Char) → (vs : List (Option (List Char))) → noWhite des →
    vs.all XSD.numeralOk = true → noWhite (XSD.renderItems des vs)
  | [], _, _, _ => by unfold XSD.renderItems; exact noWhite_nil
  | _ :: _, [], _, _ => by unfold XSD.renderItems; exact noWhite_nil
  | d :: more, v :: vs, hd, hv => by
    unfold XSD.renderItems
    simp only [List.all_cons, Bool.and_eq_true] at hv
    refine noWhite_append ?_ (renderItems_nonwhite more vs (fun c hc => hd c (List.mem_cons_of_mem _ hc)) hv.2)
    cases v with
    | none => exact noWhite_nil
    | some ds =>
      exact noWhite_append (digits_nonwhite ds hv.1) (noWhite_cons (hd d (List.mem_cons_self ..)) noWhite_nil)

theorem durationLex_nonwhite (x : List Char) (h : XSD.DurationLex x) : noWhite x := by
  obtain ⟨neg, date, time, sec, hwf, rfl⟩ := h
  unfold XSD.durationWF at hwf
  simp only [Bool.and_eq_true] at hwf
  obtain ⟨⟨⟨⟨⟨_, _⟩, hd⟩, ht⟩, hs⟩, _⟩ := hwf
  unfold XSD.durationRender
  have hsec : noWhite (XSD.renderSec sec) := by
    cases sec with
    | none => exact noWhite_nil
    | some p =>
      obtain ⟨a, fo⟩ := p
      cases fo with
      | none =>
        simp only [XSD.secOk] at hs
        exact noWhite_append (digits_nonwhite a hs) (noWhite_cons (by decide) noWhite_nil)
      | some f =>
        simp only [XSD.secOk, Bool.and_eq_true] at hs
        exact noWhite_append (digits_nonwhite a hs.1) (noWhite_cons dot_nw (noWhite_append (frac_nonwhite f hs.2)
          (noWhite_cons (by decide) noWhite_nil)))
  refine noWhite_append (by split; exact noWhite_cons dash_nw noWhite_nil; exact noWhite_nil) (noWhite_cons (by decide) ?_)
  refine noWhite_append (renderItems_nonwhite _ _ (by intro c hc; simp at hc; rcases hc with h | h | h <;> subst h <;> decide) hd) ?_
  split
  · exact noWhite_cons T_nw (noWhite_append
      (renderItems_nonwhite _ _ (by intro c hc; simp at hc; rcases hc with h | h <;> subst h <;> decide) ht) hsec)
  · exact noWhite_nil

/-- the lexical space of xs:duration cannot tell `strip` from whiteSpace=collapse -/
theorem durationLex_strip (s : List Char) : XSD.DurationLex (Lex.pyStrip s) ↔ XSD.DurationLex (XSD.wsCollapse s) := by
  rw [← collapse_eq_wsCollapse_all]
  rcases pyStrip_or_white s with h | ⟨⟨w, hw, hww⟩, h2⟩
  · rw [h]
  · constructor
    · intro hl
      have := durationLex_nonwhite _ hl w hw
      rw [this] at hww; cases hww
    · intro hl
      have := durationLex_nonwhite _ hl ' ' h2
      exact absurd this (by decide)

end EPV.LexLemmas

/-
Sanity lemmas about the specification itself (EPV/Spec/XDMTree.lean): the items of a tree are
numbered consecutively, i.e. `Item.idx` really is the index in document order.
-/
import EPV.Spec.XDMTree
namespace EPV.XDM
open EPV.Builder

def idxs (l : List Item) : List Nat := l.map (·.idx)

@[simp] theorem idxs_nil : idxs [] = [] := rfl
@[simp] theorem idxs_cons (a : Item) (l : List Item) : idxs (a :: l) = a.idx :: idxs l := rfl
@[simp] theorem idxs_append (a b : List Item) : idxs (a ++ b) = idxs a ++ idxs b := by simp [idxs]
@[simp] theorem idxs_length (l : List Item) : (idxs l).length = l.length := by simp [idxs]

theorem number_idxs {α : Type} (g : Nat → α → Item) (hg : ∀ j a, (g j a).idx = j) (j : Nat) (l : List α) :
    idxs (number g j l) = List.range' j (number g j l).length := by
  induction l generalizing j with
  | nil => rfl
  | cons a l ih => simp [number, hg, ih, List.range'_succ]

theorem range'_append_len (i a b : Nat) :
    List.range' i a ++ List.range' (i + a) b = List.range' i (a + b) := by
  rw [List.range'_append_1]

theorem range'_append_len' {i j a b : Nat} (h : j = i + a) :
    List.range' i a ++ List.range' j b = List.range' i (a + b) := by
  subst h; exact range'_append_len i a b

theorem cons_range' (i n : Nat) : i :: List.range' (i + 1) n = List.range' i (n + 1) := rfl

theorem nsItems_idxs (e i : Nat) (m : NsMap) : idxs (nsItems e i m) = List.range' i (nsItems e i m).length := by
  unfold nsItems
  simp only [idxs_cons, List.length_cons]
  rw [number_idxs _ (by intros; rfl)]
  exact cons_range' _ _

theorem attrItems_idxs (e i : Nat) (a : Attrib) : idxs (attrItems e i a) = List.range' i (attrItems e i a).length := by
  unfold attrItems
  exact number_idxs _ (by intros; rfl) _ _

theorem textItem_idxs (par : Option Nat) (i : Nat) (o : Option String) :
    idxs (textItem par i o) = List.range' i (textItem par i o).length := by
  cases o <;> simp [textItem, List.range'_succ]

mutual
theorem itemsOne_idxs (c : Cfg) : ∀ (t : XTree) (par : Option Nat) (i : Nat),
    idxs (itemsOne c par i t) = List.range' i (itemsOne c par i t).length
  | .elem name nsmap attrib text kids tail, par, i => by
    have h1 := nsItems_idxs i (i + 1) (inScope c nsmap)
    have h2 := attrItems_idxs i (i + 1 + (nsItems i (i + 1) (inScope c nsmap)).length) attrib
    have h3 := textItem_idxs (some i) (i + 1 + (nsItems i (i + 1) (inScope c nsmap)).length +
      (attrItems i (i + 1 + (nsItems i (i + 1) (inScope c nsmap)).length) attrib).length) text
    have h4 := itemsKids_idxs c kids i (i + 1 + (nsItems i (i + 1) (inScope c nsmap)).length +
      (attrItems i (i + 1 + (nsItems i (i + 1) (inScope c nsmap)).length) attrib).length +
      (textItem (some i) (i + 1 + (nsItems i (i + 1) (inScope c nsmap)).length +
        (attrItems i (i + 1 + (nsItems i (i + 1) (inScope c nsmap)).length) attrib).length) text).length)
    simp only [itemsOne, idxs_cons, idxs_append, List.length_cons, List.length_append, h1, h2, h3, h4]
    rw [range'_append_len', range'_append_len', range'_append_len']
    · exact cons_range' _ _
    all_goals omega
  | .comment s tl, par, i => by simp [itemsOne, List.range'_succ]
  | .pi t s tl, par, i => by simp [itemsOne, List.range'_succ]
theorem itemsKids_idxs (c : Cfg) : ∀ (ts : List XTree) (par i : Nat),
    idxs (itemsKids c par i ts) = List.range' i (itemsKids c par i ts).length
  | [], par, i => by simp [itemsKids]
  | t :: ts, par, i => by
    have h1 := itemsOne_idxs c t (some par) i
    have h2 := textItem_idxs (some par) (i + (itemsOne c (some par) i t).length) t.tail
    have h3 := itemsKids_idxs c ts par (i + (itemsOne c (some par) i t).length +
      (textItem (some par) (i + (itemsOne c (some par) i t).length) t.tail).length)
    simp only [itemsKids, idxs_append, List.length_append, h1, h2, h3]
    rw [range'_append_len', range'_append_len']
    all_goals omega
end

theorem siblingItems_idxs : ∀ (ts : List XTree) (i : Nat),
    idxs (siblingItems i ts) = List.range' i (siblingItems i ts).length
  | [], i => by simp [siblingItems]
  | .comment s tl :: ts, i => by
    simp only [siblingItems, idxs_cons, List.length_cons, siblingItems_idxs ts (i + 1)]
    exact cons_range' _ _
  | .pi t s tl :: ts, i => by
    simp only [siblingItems, idxs_cons, List.length_cons, siblingItems_idxs ts (i + 1)]
    exact cons_range' _ _
  | .elem .. :: ts, i => by simpa only [siblingItems] using siblingItems_idxs ts i

theorem documentItems_idxs (c : Cfg) (pro : List XTree) (top : Option XTree) (epi : List XTree) :
    idxs (documentItems c pro top epi) = List.range' 0 (documentItems c pro top epi).length := by
  cases top with
  | none => simp [documentItems, List.range'_succ]
  | some e =>
    have h1 := siblingItems_idxs pro 1
    have h2 := itemsOne_idxs c e (some 0) (1 + (siblingItems 1 pro).length)
    have h3 := siblingItems_idxs epi (1 + (siblingItems 1 pro).length +
      (itemsOne c (some 0) (1 + (siblingItems 1 pro).length) e).length)
    simp only [documentItems, idxs_cons, idxs_append, List.length_cons, List.length_append, h1, h2, h3]
    rw [range'_append_len', range'_append_len']
    · exact cons_range' 0 _
    all_goals omega

/-- the spec numbers its items 0, 1, 2, … : `Item.idx` is the index in document order -/
theorem specItems_idxs (i : Input) (items : List Item) (h : specItems i = some items) :
    idxs items = List.range' 0 items.length := by
  unfold specItems at h
  repeat' split at h
  all_goals first
    | contradiction
    | (injection h with h; subst h
       first
        | exact documentItems_idxs _ _ _ _
        | exact itemsOne_idxs _ _ _ _)

end EPV.XDM

/-
C12 helper lemmas for the span-list model of fn:analyze-string / fn:tokenize / fn:replace.
-/
import EPV.Spec.XsdRegex
namespace EPV.Regex

theorem slice_drop (s : List Ch) {a b : Nat} (h : a ≤ b) : slice s a b ++ s.drop b = s.drop a := by
  unfold slice
  have : s.drop b = (s.drop a).drop (b - a) := by
    rw [List.drop_drop]; congr 1; omega
  rw [this, List.take_append_drop]

theorem slice_to_end (s : List Ch) (k : Nat) : slice s k s.length = s.drop k := by
  unfold slice
  apply List.take_of_length_le
  simp

theorem slice_length (s : List Ch) {a b : Nat} (h2 : b ≤ s.length) : (slice s a b).length = b - a := by
  unfold slice
  simp only [List.length_take, List.length_drop]
  omega

theorem slice_ne_nil (s : List Ch) {a b : Nat} (h1 : a < b) (h2 : b ≤ s.length) : slice s a b ≠ [] := by
  intro h
  have := slice_length s (a := a) h2
  rw [h] at this
  simp at this
  omega

theorem slice_self (s : List Ch) (a : Nat) : slice s a a = [] := by
  unfold slice; simp

/-! ### analyze-string -/

theorem analyze_concat (s : List Ch) (spans : List Span) (k : Nat) (h : SpansOk k s.length spans) :
    (analyzeM s k spans).flatMap (·.2) = s.drop k := by
  induction spans generalizing k with
  | nil =>
    unfold analyzeM
    split
    · simp [slice_to_end]
    · rename_i hk
      simp only [SpansOk] at h
      have : k = s.length := by omega
      subst this
      simp
  | cons m rest ih =>
    obtain ⟨a, b⟩ := m
    simp only [SpansOk] at h
    obtain ⟨h1, h2, h3, h4⟩ := h
    have hk : k < s.length := by omega
    unfold analyzeM
    simp only [hk, if_true]
    by_cases hak : a > k
    · simp only [hak, if_true, List.flatMap_append, List.flatMap_cons, List.flatMap_nil, List.append_nil,
        ih b h4]
      rw [slice_drop s (Nat.le_of_lt h2), slice_drop s h1]
    · have : a = k := by omega
      subst this
      simp only [Nat.lt_irrefl, if_false, List.nil_append, List.flatMap_cons, ih b h4]
      rw [slice_drop s (Nat.le_of_lt h2)]

theorem analyze_parts_nonempty (s : List Ch) (spans : List Span) (k : Nat) (h : SpansOk k s.length spans) :
    ∀ p ∈ analyzeM s k spans, p.2 ≠ [] := by
  induction spans generalizing k with
  | nil =>
    unfold analyzeM
    intro p hp
    split at hp
    · rename_i hk
      simp at hp
      subst hp
      exact slice_ne_nil s hk (Nat.le_refl _)
    · simp at hp
  | cons m rest ih =>
    obtain ⟨a, b⟩ := m
    simp only [SpansOk] at h
    obtain ⟨h1, h2, h3, h4⟩ := h
    have hk : k < s.length := by omega
    unfold analyzeM
    simp only [hk, if_true]
    intro p hp
    rcases List.mem_append.1 hp with hp | hp
    · split at hp
      · rename_i hak
        simp at hp; subst hp
        exact slice_ne_nil s hak (by omega)
      · simp at hp
    · rcases List.mem_cons.1 hp with hp | hp
      · subst hp
        exact slice_ne_nil s h2 h3
      · exact ih b h4 p hp

/-- no two adjacent `non-match` parts -/
def Alternates : List (Bool × List Ch) → Prop
  | [] => True
  | [_] => True
  | p :: q :: rest => (p.1 = true ∨ q.1 = true) ∧ Alternates (q :: rest)

theorem analyze_head_match (s : List Ch) (rest : List Span) (a b k : Nat) (hk : k < s.length) (hak : ¬ a > k) :
    analyzeM s k ((a, b) :: rest) = (true, slice s a b) :: analyzeM s b rest := by
  simp [analyzeM, hk, hak]

theorem analyze_alternates (s : List Ch) (spans : List Span) (k : Nat) (h : SpansOk k s.length spans) :
    Alternates (analyzeM s k spans) := by
  induction spans generalizing k with
  | nil => unfold analyzeM; split <;> trivial
  | cons m rest ih =>
    obtain ⟨a, b⟩ := m
    simp only [SpansOk] at h
    obtain ⟨h1, h2, h3, h4⟩ := h
    have hk : k < s.length := by omega
    have hrest := ih b h4
    have hcons : Alternates ((true, slice s a b) :: analyzeM s b rest) := by
      cases hr : analyzeM s b rest with
      | nil => trivial
      | cons q qs => rw [hr] at hrest; exact ⟨.inl rfl, hrest⟩
    unfold analyzeM
    simp only [hk, if_true]
    by_cases hak : a > k
    · simp only [hak, if_true, List.cons_append, List.nil_append]
      exact ⟨.inr rfl, hcons⟩
    · simp only [hak, if_false, List.nil_append]
      exact hcons

theorem analyze_matches (s : List Ch) (spans : List Span) (k : Nat) (h : SpansOk k s.length spans) :
    ((analyzeM s k spans).filter (·.1)).map (·.2) = spans.map fun m => slice s m.1 m.2 := by
  induction spans generalizing k with
  | nil => unfold analyzeM; split <;> simp
  | cons m rest ih =>
    obtain ⟨a, b⟩ := m
    simp only [SpansOk] at h
    obtain ⟨h1, h2, h3, h4⟩ := h
    have hk : k < s.length := by omega
    unfold analyzeM
    simp only [hk, if_true]
    by_cases hak : a > k <;> simp [hak, ih b h4]

theorem analyze_eq_spec (s : List Ch) (spans : List Span) (k : Nat) (h : SpansOk k s.length spans) :
    analyzeM s k spans = specAnalyze s k spans := by
  induction spans generalizing k with
  | nil => rfl
  | cons m rest ih =>
    obtain ⟨a, b⟩ := m
    simp only [SpansOk] at h
    obtain ⟨h1, h2, h3, h4⟩ := h
    have hk : k < s.length := by omega
    unfold analyzeM specAnalyze
    simp only [hk, if_true, ih b h4]

/-! ### tokenize -/

theorem tok_foldl (s : List Ch) (spans : List Span) (k : Nat) (acc : List (List Ch)) :
    (spans.foldl (tokStep s) (k, acc)).2 ++ [slice s (spans.foldl (tokStep s) (k, acc)).1 s.length]
      = acc ++ specTokenize.go s k spans := by
  induction spans generalizing k acc with
  | nil => simp [specTokenize.go]
  | cons m rest ih =>
    obtain ⟨a, b⟩ := m
    simp only [List.foldl_cons, tokStep, specTokenize.go]
    rw [ih]
    simp

theorem tokenize_eq_spec' (s : List Ch) (spans : List Span) : tokenizeM s spans = specTokenize s spans := by
  unfold tokenizeM specTokenize
  split
  · rfl
  · have := tok_foldl s spans 0 []
    simpa using this

theorem tok_nonmatch (s : List Ch) (spans : List Span) (k : Nat) (h : SpansOk k s.length spans) :
    (specTokenize.go s k spans).filter (fun t => !t.isEmpty)
      = ((analyzeM s k spans).filter (fun p => !p.1)).map (·.2) := by
  induction spans generalizing k with
  | nil =>
    simp only [SpansOk] at h
    unfold analyzeM specTokenize.go
    by_cases hk : k < s.length
    · have := slice_ne_nil s hk (Nat.le_refl _)
      simp [hk, this]
    · have : k = s.length := by omega
      subst this
      simp [slice_self]
  | cons m rest ih =>
    obtain ⟨a, b⟩ := m
    simp only [SpansOk] at h
    obtain ⟨h1, h2, h3, h4⟩ := h
    have hk : k < s.length := by omega
    unfold analyzeM specTokenize.go
    simp only [hk, if_true]
    by_cases hak : a > k
    · have := slice_ne_nil s hak (show a ≤ s.length by omega)
      simp [hak, this, ih b h4]
    · have : a = k := by omega
      subst this
      simp [slice_self, ih b h4]

/-! ### replace -/

theorem sub_whole (s : List Ch) (spans : List Span) (k : Nat) (h : SpansOk k s.length spans) :
    subM s [.whole] k spans = s.drop k := by
  induction spans generalizing k with
  | nil => simp [subM, slice_to_end]
  | cons m rest ih =>
    obtain ⟨a, b⟩ := m
    simp only [SpansOk] at h
    obtain ⟨h1, h2, h3, h4⟩ := h
    simp only [subM, List.flatMap_cons, List.flatMap_nil, List.append_nil, RPart.expand, ih b h4]
    rw [List.append_assoc, slice_drop s (Nat.le_of_lt h2), slice_drop s h1]

theorem unescDollar_id (s : List Ch) (h : hasBackslashDollar s = false) : unescDollar s = s := by
  induction s using unescDollar.induct with
  | case1 rest _ => simp [hasBackslashDollar] at h
  | case2 c rest hne ih =>
    have h' : hasBackslashDollar rest = false := by
      unfold hasBackslashDollar at h
      split at h
      · cases h
      · rename_i heq; cases heq; exact h
      · rename_i heq; cases heq
    rw [unescDollar]
    · rw [ih h']
    · exact hne
  | case3 => rfl

theorem sub_eq_spec (s : List Ch) (parts : List RPart) (spans : List Span) (k : Nat) :
    subM s parts k spans = specReplace s parts k spans := by
  induction spans generalizing k with
  | nil => rfl
  | cons m rest ih => obtain ⟨a, b⟩ := m; simp only [subM, specReplace, ih]

end EPV.Regex

/- C09 helper lemmas for the one-argument `fn:tokenize` -/
import EPV.Model.StringsTokenize1
import EPV.Spec.FOTokenize1
import EPV.Lemmas.StringsToken
namespace EPV.Strings
open EPV.FOStrings (Str isWs)

/-! ## The code BEFORE fix F09o (six characters `' \t\n\r\f\v'`), kept on the proof side only, to state
what was wrong (`Props/C09Tokenize1.lean: tokenize1_six_char_reading_wrong`). Not driven. -/

def isPyWs6 (c : Nat) : Bool :=
  c == 0x20 || c == 0x9 || c == 0xA || c == 0xD || c == 0xC || c == 0xB

def pyStrip6 (s : Str) : Str :=
  ((s.dropWhile isPyWs6).reverse.dropWhile isPyWs6).reverse

def reSplit6 : Str → List Str
  | [] => [[]]
  | [c] => if isPyWs6 c then [[], []] else [[c]]
  | c :: d :: cs =>
    if isPyWs6 c then
      (if isPyWs6 d then reSplit6 (d :: cs) else [] :: reSplit6 (d :: cs))
    else
      match reSplit6 (d :: cs) with
      | [] => [[c]]
      | w :: ws => (c :: w) :: ws

/-- `evaluate__tokenize` one-argument form as it was before the fix -/
def fnTokenize1Six : Option Str → List Str
  | none => []
  | some inputString =>
    let inputString := pyJoinSp (reSplit6 (pyStrip6 inputString))
    match inputString with
    | [] => []
    | ns => pySplitSp ns

/-- FF / VT read as a space -/
def foldFfVt (c : Nat) : Nat := if c = 0xC ∨ c = 0xB then 0x20 else c

theorem isPyWs6_eq (c : Nat) : isPyWs6 c = isWs (foldFfVt c) := by
  unfold isPyWs6 isWs foldFfVt
  by_cases h1 : c = 0xC
  · subst h1; decide
  · by_cases h2 : c = 0xB
    · subst h2; decide
    · simp [h1, h2]
      grind

theorem foldFfVt_of_not_ws (c : Nat) (h : isPyWs6 c = false) : foldFfVt c = c := by
  unfold isPyWs6 at h
  unfold foldFfVt
  simp at h
  simp [h.1.2, h.2]

theorem isWs_of_not6 (c : Nat) (h : isPyWs6 c = false) : isWs c = false := by
  rw [← foldFfVt_of_not_ws c h, ← isPyWs6_eq]; exact h

theorem isPyWs6_comp : (isWs ∘ foldFfVt) = isPyWs6 := by
  funext c; simp [isPyWs6_eq]

theorem pyStrip6_map (s : Str) : (pyStrip6 s).map foldFfVt = pyStripWs (s.map foldFfVt) := by
  unfold pyStrip6 pyStripWs
  rw [List.dropWhile_map, ← List.map_reverse, List.dropWhile_map, isPyWs6_comp, List.map_reverse]

theorem reSplit6_ne_nil (s : Str) : reSplit6 s ≠ [] := by
  fun_induction reSplit6 s <;> simp_all

theorem reSplit6_eq (s : Str) : reSplit6 s = reSplitWs (s.map foldFfVt) := by
  fun_induction reSplit6 s with
  | case1 => simp [reSplitWs]
  | case2 c h => simp [reSplitWs, ← isPyWs6_eq, h]
  | case3 c h =>
    have h' : isPyWs6 c = false := by simpa using h
    simp [reSplitWs, foldFfVt_of_not_ws c h', isWs_of_not6 c h']
  | case4 c d cs hc hd ih => simp [reSplitWs, ← isPyWs6_eq, hc, hd] ; simpa using ih
  | case5 c d cs hc hd ih => simp [reSplitWs, ← isPyWs6_eq, hc, hd] ; simpa using ih
  | case6 c d cs hc h ih => exact absurd h (reSplit6_ne_nil _)
  | case7 c d cs hc w ws h ih =>
    have hc' : isPyWs6 c = false := by simpa using hc
    simp only [List.map_cons] at ih ⊢
    simp [reSplitWs, foldFfVt_of_not_ws c hc', isWs_of_not6 c hc', ← ih, h]


theorem pyJoinSp_nil_cons (l : List Str) (h : l ≠ []) : pyJoinSp ([] :: l) = 0x20 :: pyJoinSp l := by
  cases l with
  | nil => exact absurd rfl h
  | cons a t => simp [pyJoinSp]

/-- `' '.join(re.split('[ \t\n\r]+', u))` replaces every maximal whitespace run by one space -/
theorem pyJoinSp_reSplitWs (u : Str) : pyJoinSp (reSplitWs u) = FOStrings.collapse u := by
  fun_induction reSplitWs u with
  | case1 => simp [pyJoinSp, FOStrings.collapse]
  | case2 c h => simp [pyJoinSp, FOStrings.collapse, h]
  | case3 c h => simp [pyJoinSp, FOStrings.collapse, h]
  | case4 c d cs hc hd ih => simp [FOStrings.collapse, hc, hd, ih]
  | case5 c d cs hc hd ih =>
    rw [pyJoinSp_nil_cons _ (reSplitWs_ne_nil _), ih]; simp [FOStrings.collapse, hc, hd]
  | case6 c d cs hc h ih => exact absurd h (reSplitWs_ne_nil _)
  | case7 c d cs hc w ws h ih =>
    rw [pyJoinSp_cons_cons, ← h, ih]; simp [FOStrings.collapse, hc]

theorem pySplitSp_eq_splitSpace (s : Str) : pySplitSp s = FOStrings.splitSpace s := by
  induction s with
  | nil => rfl
  | cons c cs ih =>
    simp only [pySplitSp, FOStrings.splitSpace, ih]
    cases FOStrings.splitSpace cs <;> rfl

/-- what the code computes, for EVERY string: the F&O result on the string with FF / VT read as spaces -/
theorem fnTokenize1Six_eq_spec_folded (s : Str) :
    fnTokenize1Six (some s) = FOStrings.fnTokenize1 (some (s.map foldFfVt)) := by
  simp only [fnTokenize1Six, FOStrings.fnTokenize1, FOStrings.tokenize1, FOStrings.normalizeSpace]
  rw [reSplit6_eq, pyStrip6_map, pyJoinSp_reSplitWs, pyStripWs_eq_trim]
  split <;> split <;> simp_all [pySplitSp_eq_splitSpace]

/-- the code after fix F09o = F&O, for every argument -/
theorem fnTokenize1_eq_spec (a : Option Str) : fnTokenize1 a = FOStrings.fnTokenize1 a := by
  cases a with
  | none => rfl
  | some s =>
    simp only [fnTokenize1, FOStrings.fnTokenize1, FOStrings.tokenize1, FOStrings.normalizeSpace]
    rw [pyJoinSp_reSplitWs, pyStripWs_eq_trim]
    split <;> split <;> simp_all [pySplitSp_eq_splitSpace]

theorem map_foldFfVt_id (s : Str) (h : hasFfVt (some s) = false) : s.map foldFfVt = s := by
  unfold hasFfVt at h
  induction s with
  | nil => rfl
  | cons c cs ih =>
    simp only [List.any_cons, Bool.or_eq_false_iff] at h
    simp only [List.map_cons, ih h.2]
    have : foldFfVt c = c := by
      unfold foldFfVt; have := h.1; simp at this; simp [this.1, this.2]
    rw [this]

theorem mem_splitWs_flatten (s : Str) (c : Nat) :
    c ∈ (splitWs s).flatten ↔ c ∈ s ∧ isWs c = false := by
  induction s with
  | nil => simp [splitWs]
  | cons d cs ih =>
    simp only [splitWs]
    cases hs : splitWs cs with
    | nil => exact absurd hs (splitWs_ne_nil cs)
    | cons w ws =>
      rw [hs] at ih
      by_cases hd : isWs d = true
      · simp only [hd, if_true, List.flatten_cons, List.nil_append, List.mem_cons] at ih ⊢
        rw [ih]; constructor
        · rintro ⟨h1, h2⟩; exact ⟨Or.inr h1, h2⟩
        · rintro ⟨h1 | h1, h2⟩
          · subst h1; rw [hd] at h2; cases h2
          · exact ⟨h1, h2⟩
      · have hd' : isWs d = false := by simpa using hd
        simp only [hd', Bool.false_eq_true, if_false, List.flatten_cons, List.cons_append, List.mem_cons] at ih ⊢
        rw [ih]; constructor
        · rintro (h1 | ⟨h1, h2⟩)
          · subst h1; exact ⟨Or.inl rfl, hd'⟩
          · exact ⟨Or.inr h1, h2⟩
        · rintro ⟨h1 | h1, h2⟩
          · exact Or.inl h1
          · exact Or.inr ⟨h1, h2⟩

theorem mem_words_flatten (s : Str) (c : Nat) :
    c ∈ (words s).flatten ↔ c ∈ s ∧ isWs c = false := by
  rw [← mem_splitWs_flatten]
  unfold words
  simp only [List.mem_flatten, List.mem_filter]
  constructor
  · rintro ⟨w, ⟨hw, _⟩, hc⟩; exact ⟨w, hw, hc⟩
  · rintro ⟨w, hw, hc⟩
    refine ⟨w, ⟨hw, ?_⟩, hc⟩
    cases w with
    | nil => cases hc
    | cons => rfl

/-- the two readings of the specification agree: `tokenize(normalize-space(s), ' ')` = the maximal runs
of non-whitespace characters -/
theorem tokenize1_eq_maxRuns (s : Str) : FOStrings.tokenize1 s = FOStrings.maxRuns s := by
  rw [tokenize1_eq_words]
  fun_induction FOStrings.maxRuns s with
  | case1 => exact words_nil
  | case2 c cs h ih => rw [words_cons_ws c cs h, ih]
  | case3 c h => exact words_single c (by simpa using h)
  | case4 c h d r hd ih => rw [words_cons_nonws_ws c d r (by simpa using h) hd, ih]
  | case5 c h d r hd hm ih =>
    obtain ⟨w, ws, h1, _⟩ := words_cons_nonws_nonws c d r (by simpa using h) (by simpa using hd)
    rw [ih, hm] at h1; cases h1
  | case6 c h d r hd w ws hm ih =>
    obtain ⟨w', ws', h1, h2⟩ := words_cons_nonws_nonws c d r (by simpa using h) (by simpa using hd)
    rw [ih, hm] at h1; cases h1; rw [hm]; exact h2

end EPV.Strings

/-
C17 helper lemmas: the XML reader (end-of-line normalization, references, attribute-value
normalization) reads back what the serializers' escaping functions write.
-/
import EPV.Lemmas.JsonString
set_option linter.unusedSimpArgs false
namespace EPV.Json

/-! ### the escaping functions are per-character maps -/

def etTextChar (x : Nat) : Str :=
  if x = 38 then [38, 97, 109, 112, 59] else if x = 60 then [38, 108, 116, 59]
  else if x = 62 then [38, 103, 116, 59] else [x]

def etAttrChar (x : Nat) : Str :=
  if x = 38 then [38, 97, 109, 112, 59] else if x = 60 then [38, 108, 116, 59]
  else if x = 62 then [38, 103, 116, 59] else if x = 34 then [38, 113, 117, 111, 116, 59]
  else if x = 13 then [38, 35, 49, 51, 59] else if x = 10 then [38, 35, 49, 48, 59]
  else if x = 9 then [38, 35, 48, 57, 59] else [x]

def lxTextChar (x : Nat) : Str :=
  if x = 38 then [38, 97, 109, 112, 59] else if x = 60 then [38, 108, 116, 59]
  else if x = 62 then [38, 103, 116, 59] else if x = 13 then [38, 35, 49, 51, 59] else [x]

theorem etEscapeText_flatMap (s : Str) : etEscapeText s = s.flatMap etTextChar := by
  simp only [etEscapeText, replaceAll_single, List.flatMap_assoc]
  congr 1
  funext x
  unfold etTextChar
  by_cases h1 : x = 38
  · subst h1; decide
  by_cases h2 : x = 60
  · subst h2; decide
  by_cases h3 : x = 62
  · subst h3; decide
  simp [h1, h2, h3]

theorem lxEscapeText_flatMap (s : Str) : lxEscapeText s = s.flatMap lxTextChar := by
  simp only [lxEscapeText, etEscapeText, replaceAll_single, List.flatMap_assoc]
  congr 1
  funext x
  unfold lxTextChar
  by_cases h1 : x = 38
  · subst h1; decide
  by_cases h2 : x = 60
  · subst h2; decide
  by_cases h3 : x = 62
  · subst h3; decide
  by_cases h4 : x = 13
  · subst h4; decide
  simp [h1, h2, h3, h4]

theorem etEscapeAttr_flatMap (s : Str) : etEscapeAttr s = s.flatMap etAttrChar := by
  simp only [etEscapeAttr, replaceAll_single, List.flatMap_assoc]
  congr 1
  funext x
  unfold etAttrChar
  by_cases h1 : x = 38
  · subst h1; decide
  by_cases h2 : x = 60
  · subst h2; decide
  by_cases h3 : x = 62
  · subst h3; decide
  by_cases h4 : x = 34
  · subst h4; decide
  by_cases h5 : x = 13
  · subst h5; decide
  by_cases h6 : x = 10
  · subst h6; decide
  by_cases h7 : x = 9
  · subst h7; decide
  simp [h1, h2, h3, h4, h5, h6, h7]

/-! ### end-of-line normalization -/

theorem normEol_noop (t : Str) (h : ∀ c ∈ t, c ≠ 13) : normEol t = t := by
  unfold normEol
  induction t with
  | nil => rfl
  | cons c r ih =>
    have hc : c ≠ 13 := h c (by simp)
    have := ih (fun x hx => h x (by simp [hx]))
    simp [normEolAux, hc, this]

theorem no13_flatMap (esc : Nat → Str) (s : Str) (h : ∀ x ∈ s, ∀ c ∈ esc x, c ≠ 13) :
    ∀ c ∈ s.flatMap esc, c ≠ 13 := by
  intro c hc
  obtain ⟨x, hx, hcx⟩ := List.mem_flatMap.mp hc
  exact h x hx c hcx

/-! ### reading the encoding of one character costs one step -/

def CharOK (attr : Bool) (esc : Nat → Str) (c : Nat) : Prop :=
  esc c ≠ [] ∧ ∀ f rest, readCharsF attr (f + 1) (esc c ++ rest) = (readCharsF attr f rest).map (c :: ·)

theorem readCharsF_flatMap (attr : Bool) (esc : Nat → Str) (s : Str) (h : ∀ c ∈ s, CharOK attr esc c) :
    ∀ f, s.length ≤ f → readCharsF attr f (s.flatMap esc) = some s := by
  induction s with
  | nil => intro f _; cases f <;> rfl
  | cons x t ih =>
    intro f hf
    obtain ⟨f', rfl⟩ : ∃ f', f = f' + 1 := ⟨f - 1, by simp at hf; omega⟩
    have hx := (h x (by simp)).2 f' (t.flatMap esc)
    rw [List.flatMap_cons, hx, ih (fun c hc => h c (by simp [hc])) f' (by simp at hf; omega)]
    rfl

theorem readChars_flatMap_full (attr : Bool) (esc : Nat → Str) (s : Str) (h : ∀ c ∈ s, CharOK attr esc c) :
    readCharsF attr (s.flatMap esc).length (s.flatMap esc) = some s :=
  readCharsF_flatMap attr esc s h _ (length_le_flatMap esc s (fun c hc => (h c hc).1))

theorem charOK_etText (c : Nat) : CharOK false etTextChar c := by
  unfold CharOK
  by_cases h1 : c = 38
  · subst h1; exact ⟨by decide, fun f rest => by simp [etTextChar, readCharsF, readRef]⟩
  by_cases h2 : c = 60
  · subst h2; exact ⟨by decide, fun f rest => by simp [etTextChar, readCharsF, readRef]⟩
  by_cases h3 : c = 62
  · subst h3; exact ⟨by decide, fun f rest => by simp [etTextChar, readCharsF, readRef]⟩
  have he : etTextChar c = [c] := by simp [etTextChar, h1, h2, h3]
  rw [he]
  exact ⟨by simp, fun f rest => by simp [readCharsF, h1, h2]⟩

theorem charOK_lxText (c : Nat) : CharOK false lxTextChar c := by
  unfold CharOK
  by_cases h1 : c = 38
  · subst h1; exact ⟨by decide, fun f rest => by simp [lxTextChar, readCharsF, readRef]⟩
  by_cases h2 : c = 60
  · subst h2; exact ⟨by decide, fun f rest => by simp [lxTextChar, readCharsF, readRef]⟩
  by_cases h3 : c = 62
  · subst h3; exact ⟨by decide, fun f rest => by simp [lxTextChar, readCharsF, readRef]⟩
  by_cases h4 : c = 13
  · subst h4
    exact ⟨by decide, fun f rest => by simp [lxTextChar, readCharsF, readRef, spanDigits, isDigit, digitsVal]⟩
  have he : lxTextChar c = [c] := by simp [lxTextChar, h1, h2, h3, h4]
  rw [he]
  exact ⟨by simp, fun f rest => by simp [readCharsF, h1, h2]⟩

theorem charOK_etAttr (c : Nat) : CharOK true etAttrChar c := by
  unfold CharOK
  by_cases h1 : c = 38
  · subst h1; exact ⟨by decide, fun f rest => by simp [etAttrChar, readCharsF, readRef]⟩
  by_cases h2 : c = 60
  · subst h2; exact ⟨by decide, fun f rest => by simp [etAttrChar, readCharsF, readRef]⟩
  by_cases h3 : c = 62
  · subst h3; exact ⟨by decide, fun f rest => by simp [etAttrChar, readCharsF, readRef]⟩
  by_cases h4 : c = 34
  · subst h4; exact ⟨by decide, fun f rest => by simp [etAttrChar, readCharsF, readRef]⟩
  by_cases h5 : c = 13
  · subst h5
    exact ⟨by decide, fun f rest => by simp [etAttrChar, readCharsF, readRef, spanDigits, isDigit, digitsVal]⟩
  by_cases h6 : c = 10
  · subst h6
    exact ⟨by decide, fun f rest => by simp [etAttrChar, readCharsF, readRef, spanDigits, isDigit, digitsVal]⟩
  by_cases h7 : c = 9
  · subst h7
    exact ⟨by decide, fun f rest => by simp [etAttrChar, readCharsF, readRef, spanDigits, isDigit, digitsVal]⟩
  have he : etAttrChar c = [c] := by simp [etAttrChar, h1, h2, h3, h4, h5, h6, h7]
  rw [he]
  exact ⟨by simp, fun f rest => by simp [readCharsF, h1, h2, h4, h6, h7]⟩

/-! ### the repository's CR handling on top of ElementTree's escaping -/

theorem flatMap_congr_mem {f g : Nat → Str} (s : Str) (h : ∀ x ∈ s, f x = g x) : s.flatMap f = s.flatMap g := by
  induction s with
  | nil => rfl
  | cons a t ih =>
    simp only [List.flatMap_cons]
    rw [h a (by simp), ih (fun x hx => h x (by simp [hx]))]

/-- with a private-use mark that does not occur in the text, `repoEscapeText` is lxml's escaping -/
theorem repoEscapeText_eq (k : Nat) (s : Str) (hk : 0xE000 ≤ k) (hs : ∀ x ∈ s, x ≠ k) :
    repoEscapeText k s = s.flatMap lxTextChar := by
  simp only [repoEscapeText, etEscapeText, replaceAll_single, List.flatMap_assoc]
  apply flatMap_congr_mem
  intro x hx
  have hxk := hs x hx
  unfold lxTextChar
  have hk38 : k ≠ 38 := by omega
  have hk60 : k ≠ 60 := by omega
  have hk62 : k ≠ 62 := by omega
  have hsm : ∀ c : Nat, c < 200 → (if c = k then [38, 35, 49, 51, 59] else [c]) = [c] := by
    intro c hc
    have : c ≠ k := by omega
    simp [this]
  by_cases h1 : x = 38
  · subst h1; simp [hk38, hk60, hk62, hsm]
  by_cases h2 : x = 60
  · subst h2; simp [hk38, hk60, hk62, hsm]
  by_cases h3 : x = 62
  · subst h3; simp [hk38, hk60, hk62, hsm]
  by_cases h4 : x = 13
  · subst h4; simp [hk38, hk60, hk62]
  simp [h1, h2, h3, h4, hxk]

end EPV.Json

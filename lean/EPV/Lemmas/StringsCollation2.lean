/- C09 helper lemmas, part 14: collation-aware matching, declaratively: collation-equal factors, first position, minimal match. -/
import EPV.Lemmas.StringsCollation
namespace EPV.Strings
open EPV.FOStrings (Str Collation)

theorem strxfrm_append (col : Collation) (x y : Str) :
    strxfrm col (x ++ y) = strxfrm col x ++ strxfrm col y := by
  cases col <;> simp [strxfrm, asciiLower]

/-- two strings are equal under the collation (`compare(a, b, col) eq 0`) iff their keys are equal -/
theorem collEq_iff (col : Collation) (a b : Str) :
    FOStrings.compareC col a b = 0 ↔ strxfrm col a = strxfrm col b := by
  unfold FOStrings.compareC
  rw [specCompare_eq_iff, ← strxfrm_eq_key, ← strxfrm_eq_key]

theorem collEq_length (col : Collation) (a b : Str) (h : FOStrings.compareC col a b = 0) :
    a.length = b.length := by
  have := congrArg List.length ((collEq_iff col a b).mp h)
  rwa [strxfrm_length, strxfrm_length] at this

/-- a factor of `s` that is collation-equal to `t` is an occurrence of the key of `t` in the key of `s` -/
theorem occAt_of_factor (col : Collation) (s t b' m' a' : Str) (hs : s = b' ++ m' ++ a')
    (hm : FOStrings.compareC col m' t = 0) :
    occAt (strxfrm col t) (strxfrm col s) b'.length = true := by
  have hk := (collEq_iff col m' t).mp hm
  rw [occAt_iff _ _ _ (by rw [strxfrm_length, hs]; simp)]
  refine ⟨strxfrm col b', strxfrm col a', ?_, by rw [strxfrm_length]⟩
  rw [hs, strxfrm_append, strxfrm_append, hk]

/-- F&O §5.5 with a collation: `contains(s, t)` iff some factor of `s` is collation-equal to `t` -/
theorem containsC_iff (col : Collation) (s t : Str) :
    containsC col s t = true ↔ ∃ b m a, s = b ++ m ++ a ∧ FOStrings.compareC col m t = 0 := by
  constructor
  · intro h
    obtain ⟨m, hl, hk, hcat⟩ := before_after_concat_C col s t h
    exact ⟨_, m, _, hcat.symm, (collEq_iff col m t).mpr hk⟩
  · rintro ⟨b, m, a, hs, hm⟩
    unfold containsC
    rw [pyIn_eq_find]
    cases hf : pyFind (strxfrm col t) (strxfrm col s) with
    | some i => rfl
    | none =>
      have := (pyFind_eq_none_iff _ _).mp hf b.length (by rw [strxfrm_length, hs]; simp)
      rw [occAt_of_factor col s t b m a hs hm] at this
      cases this

/-- the match chosen by `substring-before` / `substring-after` is the FIRST one (no collation-equal
factor starts earlier) and it is MINIMAL (every collation-equal factor has the length of `t`) -/
theorem match_first_minimal (col : Collation) (s t : Str) (h : containsC col s t = true)
    (b' m' a' : Str) (hs : s = b' ++ m' ++ a') (hm : FOStrings.compareC col m' t = 0) :
    (substringBeforeC col s t).length ≤ b'.length ∧ m'.length = t.length := by
  refine ⟨?_, collEq_length col m' t hm⟩
  unfold containsC at h
  rw [pyIn_eq_find] at h
  unfold substringBeforeC findC
  cases hf : pyFind (strxfrm col t) (strxfrm col s) with
  | none => simp [hf] at h
  | some i =>
    obtain ⟨_, h2, h3⟩ := (pyFind_eq_some_iff _ _ i).mp hf
    simp only
    rw [strxfrm_length] at h2
    have hl : (s.take i).length = i := by simp; omega
    rw [hl]
    apply Nat.le_of_not_lt
    intro hlt
    have := h3 b'.length hlt
    rw [occAt_of_factor col s t b' m' a' hs hm] at this
    cases this

theorem startsWithC_iff (col : Collation) (s t : Str) :
    startsWithC col s t = true ↔ ∃ m a, s = m ++ a ∧ FOStrings.compareC col m t = 0 := by
  unfold startsWithC pyStartsWith
  rw [List.isPrefixOf_iff_prefix]
  constructor
  · rintro ⟨v, hv⟩
    refine ⟨s.take t.length, s.drop t.length, (List.take_append_drop _ _).symm, ?_⟩
    rw [collEq_iff, strxfrm_take, ← hv]
    simp [strxfrm_length]
  · rintro ⟨m, a, hs, hm⟩
    refine ⟨strxfrm col a, ?_⟩
    rw [hs, strxfrm_append, (collEq_iff col m t).mp hm]

theorem endsWithC_iff (col : Collation) (s t : Str) :
    endsWithC col s t = true ↔ ∃ b m, s = b ++ m ∧ FOStrings.compareC col m t = 0 := by
  unfold endsWithC pyEndsWith
  rw [List.isPrefixOf_iff_prefix, List.reverse_prefix]
  constructor
  · rintro ⟨u, hu⟩
    have hlen : t.length ≤ s.length := by
      have := congrArg List.length hu
      simp only [List.length_append, strxfrm_length] at this
      omega
    refine ⟨s.take (s.length - t.length), s.drop (s.length - t.length), (List.take_append_drop _ _).symm, ?_⟩
    rw [collEq_iff, strxfrm_drop, ← hu]
    have : s.length - t.length = u.length := by
      have := congrArg List.length hu
      simp only [List.length_append, strxfrm_length] at this
      omega
    rw [this]
    simp
  · rintro ⟨b, m, hs, hm⟩
    refine ⟨strxfrm col b, ?_⟩
    rw [hs, strxfrm_append, (collEq_iff col m t).mp hm]
end EPV.Strings

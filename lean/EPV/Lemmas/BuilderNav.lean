/-
C02 (phase 5) — lemmas about the link model `EPV/Model/BuilderNav.lean`: the two structural facts
(every `children` entry is the head of a kid whose parent link points back; every parent link points
to an enclosing container that occurs earlier and lists the node among its children), and what
strictly increasing positions add (links dereference to the very node).
-/
import EPV.Model.BuilderNav
import EPV.Lemmas.BuilderIters
namespace EPV.Builder

/-- the node can be in a `children` list (it is not a namespace or attribute node) -/
def Nav.isChild (b : Nav) : Bool := b.kind != .namespace && b.kind != .attribute
/-- element or document -/
def Nav.isContainer (a : Nav) : Bool := a.kind == .element || a.kind == .document

/-- the record of the node itself -/
def navHead (par : Option Nat) : PNode → Nav
  | .doc p kids => ⟨.document, p, par, kids.map PNode.pos⟩
  | .elem p _ _ _ _ kids => ⟨.element, p, par, kids.map PNode.pos⟩
  | .text p _ => ⟨.text, p, par, []⟩
  | .comment p _ => ⟨.comment, p, par, []⟩
  | .pi p _ _ => ⟨.pi, p, par, []⟩

theorem navNode_head (par : Option Nat) (n : PNode) : ∃ tl, navNode par n = navHead par n :: tl := by
  cases n <;> simp [navNode, navHead]

@[simp] theorem navHead_pos (par : Option Nat) (n : PNode) : (navHead par n).pos = n.pos := by
  cases n <;> rfl
@[simp] theorem navHead_parent (par : Option Nat) (n : PNode) : (navHead par n).parent = par := by
  cases n <;> rfl
@[simp] theorem navHead_isChild (par : Option Nat) (n : PNode) : (navHead par n).isChild = true := by
  cases n <;> rfl

theorem lazy_fields (p : Nat) (m : NsMap) (a : Attrib) :
    ∀ r ∈ namespaceNodes p m ++ attributeNodes p m a,
      (Nav.ofRec r).parent = some p ∧ (Nav.ofRec r).isChild = false ∧ (Nav.ofRec r).children = [] := by
  intro r hr
  rcases List.mem_append.1 hr with h | h
  · have := namespaceNodes_fields p m r h
    simp [Nav.ofRec, Nav.isChild, this.1, this.2]
  · have := attributeNodes_fields p m a r h
    simp [Nav.ofRec, Nav.isChild, this.1, this.2]

/-! ### positions are those of `iter` -/
mutual
theorem navNode_poss : ∀ (n : PNode) (par : Option Nat),
    (navNode par n).map (·.pos) = (iterNode par n).map (·.pos)
  | .doc p kids, par => by simp [navNode, iterNode, navKids_poss kids (some p)]
  | .elem p name m a sv kids, par => by
    simp [navNode, iterNode, navKids_poss kids (some p), Nav.ofRec, Function.comp_def]
  | .text p s, par => by simp [navNode, iterNode]
  | .comment p s, par => by simp [navNode, iterNode]
  | .pi p t s, par => by simp [navNode, iterNode]
theorem navKids_poss : ∀ (ns : List PNode) (par : Option Nat),
    (navKids par ns).map (·.pos) = (iterKids par ns).map (·.pos)
  | [], par => by simp [navKids, iterKids]
  | n :: ns, par => by simp [navKids, iterKids, navNode_poss n par, navKids_poss ns par]
end

/-- the head of every kid is in the listing of the kids -/
theorem navHead_mem_kids (par : Option Nat) : ∀ (ns : List PNode) (k : PNode), k ∈ ns →
    navHead par k ∈ navKids par ns
  | [], k, h => by cases h
  | n :: ns, k, h => by
    simp only [navKids, List.mem_append]
    rcases List.mem_cons.1 h with rfl | h
    · left; obtain ⟨tl, e⟩ := navNode_head par k; rw [e]; exact List.mem_cons_self
    · right; exact navHead_mem_kids par ns k h

/-! ### downwards: `children` entries are nodes whose parent link points back -/
mutual
theorem navNode_down : ∀ (n : PNode) (par : Option Nat), ∀ a ∈ navNode par n, ∀ c ∈ a.children,
    ∃ b ∈ navNode par n, b.pos = c ∧ b.parent = some a.pos ∧ b.isChild = true
  | .doc p kids, par => by
    intro a ha c hc
    simp only [navNode, List.mem_cons] at ha
    rcases ha with rfl | ha
    · obtain ⟨k, hk, rfl⟩ := List.mem_map.1 hc
      exact ⟨navHead (some p) k, by simp [navNode, navHead_mem_kids (some p) kids k hk], by simp, by simp, by simp⟩
    · obtain ⟨b, hb, h⟩ := navKids_down kids (some p) a ha c hc
      exact ⟨b, by simp [navNode, hb], h⟩
  | .elem p name m att sv kids, par => by
    intro a ha c hc
    simp only [navNode, List.mem_cons, List.mem_append, List.mem_map] at ha
    rcases ha with rfl | ⟨r, hr, rfl⟩ | ha
    · obtain ⟨k, hk, rfl⟩ := List.mem_map.1 hc
      exact ⟨navHead (some p) k, by simp [navNode, navHead_mem_kids (some p) kids k hk], by simp, by simp, by simp⟩
    · rw [(lazy_fields p m att r (List.mem_append.2 hr)).2.2] at hc; cases hc
    · obtain ⟨b, hb, h⟩ := navKids_down kids (some p) a ha c hc
      exact ⟨b, by simp [navNode, hb], h⟩
  | .text p s, par => by intro a ha c hc; simp [navNode] at ha; subst ha; cases hc
  | .comment p s, par => by intro a ha c hc; simp [navNode] at ha; subst ha; cases hc
  | .pi p t s, par => by intro a ha c hc; simp [navNode] at ha; subst ha; cases hc
theorem navKids_down : ∀ (ns : List PNode) (par : Option Nat), ∀ a ∈ navKids par ns, ∀ c ∈ a.children,
    ∃ b ∈ navKids par ns, b.pos = c ∧ b.parent = some a.pos ∧ b.isChild = true
  | [], par => by intro a ha; simp [navKids] at ha
  | n :: ns, par => by
    intro a ha c hc
    simp only [navKids, List.mem_append] at ha
    rcases ha with ha | ha
    · obtain ⟨b, hb, h⟩ := navNode_down n par a ha c hc
      exact ⟨b, by simp [navKids, hb], h⟩
    · obtain ⟨b, hb, h⟩ := navKids_down ns par a ha c hc
      exact ⟨b, by simp [navKids, hb], h⟩
end

/-! ### upwards: a parent link points to an earlier container that lists the node -/

/-- `b`'s parent link is served by `a`, which occurs before `b` in `l` -/
def Up (l : List Nav) (b : Nav) : Prop :=
  ∃ a, List.Sublist [a, b] l ∧ b.parent = some a.pos ∧ a.isContainer = true ∧ (b.isChild = true → b.pos ∈ a.children)

theorem Up.mono {l l' : List Nav} {b : Nav} (h : Up l b) (hs : List.Sublist l l') : Up l' b := by
  obtain ⟨a, h1, h2⟩ := h
  exact ⟨a, h1.trans hs, h2⟩

theorem pair_sublist_cons (a b : Nav) (l : List Nav) (hb : b ∈ l) : List.Sublist [a, b] (a :: l) :=
  List.Sublist.cons_cons a (List.singleton_sublist.2 hb)

mutual
theorem navNode_up : ∀ (n : PNode) (par : Option Nat), ∀ b ∈ navNode par n,
    b = navHead par n ∨ Up (navNode par n) b
  | .doc p kids, par => by
    intro b hb
    simp only [navNode, List.mem_cons] at hb
    rcases hb with rfl | hb
    · left; rfl
    · right
      rcases navKids_up kids (some p) b hb with ⟨k, hk, rfl⟩ | h
      · refine ⟨navHead par (.doc p kids), ?_, by rw [navHead_parent, navHead_pos]; rfl, by rfl, ?_⟩
        · simp only [navNode]; exact pair_sublist_cons _ _ _ hb
        · intro _; rw [navHead_pos]; show k.pos ∈ kids.map PNode.pos; exact List.mem_map_of_mem hk
      · exact h.mono (by simp only [navNode]; exact List.sublist_cons_self _ _)
  | .elem p name m att sv kids, par => by
    intro b hb
    have hb0 := hb
    simp only [navNode, List.mem_cons, List.mem_append, List.mem_map] at hb
    rcases hb with rfl | ⟨r, hr, rfl⟩ | hb
    · left; rfl
    · right
      have hf := lazy_fields p m att r (List.mem_append.2 hr)
      refine ⟨navHead par (.elem p name m att sv kids), ?_, by rw [hf.1, navHead_pos]; rfl, by rfl, ?_⟩
      · simp only [navNode, navHead]
        exact pair_sublist_cons _ _ _ (by simp only [List.mem_append, List.mem_map]; exact Or.inl ⟨r, hr, rfl⟩)
      · intro h; rw [hf.2.1] at h; cases h
    · right
      rcases navKids_up kids (some p) b hb with ⟨k, hk, rfl⟩ | h
      · refine ⟨navHead par (.elem p name m att sv kids), ?_, by rw [navHead_parent, navHead_pos]; rfl, by rfl, ?_⟩
        · simp only [navNode, navHead]
          exact pair_sublist_cons _ _ _ (by simp only [List.mem_append]; exact Or.inr hb)
        · intro _; rw [navHead_pos]; show k.pos ∈ kids.map PNode.pos; exact List.mem_map_of_mem hk
      · refine h.mono ?_
        simp only [navNode]
        exact (List.sublist_append_right _ _).trans (List.sublist_cons_self _ _)
  | .text p s, par => by intro b hb; simp [navNode] at hb; left; simp [hb, navHead]
  | .comment p s, par => by intro b hb; simp [navNode] at hb; left; simp [hb, navHead]
  | .pi p t s, par => by intro b hb; simp [navNode] at hb; left; simp [hb, navHead]
theorem navKids_up : ∀ (ns : List PNode) (par : Option Nat), ∀ b ∈ navKids par ns,
    (∃ k ∈ ns, b = navHead par k) ∨ Up (navKids par ns) b
  | [], par => by intro b hb; simp [navKids] at hb
  | n :: ns, par => by
    intro b hb
    simp only [navKids, List.mem_append] at hb
    rcases hb with hb | hb
    · rcases navNode_up n par b hb with rfl | h
      · left; exact ⟨n, List.mem_cons_self, rfl⟩
      · right; exact h.mono (by simp only [navKids]; exact List.sublist_append_left _ _)
    · rcases navKids_up ns par b hb with ⟨k, hk, rfl⟩ | h
      · left; exact ⟨k, List.mem_cons_of_mem _ hk, rfl⟩
      · right; exact h.mono (by simp only [navKids]; exact List.sublist_append_right _ _)
end

end EPV.Builder

/-
C08 (phase 5) — lemmas about the model of fn:deep-equal on atomic sequences (`Model/SeqDeepEq.lean`)
and its specification (`Spec/FODeepEq.lean`).
-/
import EPV.Spec.FODeepEq
set_option linter.unusedSimpArgs false
namespace EPV.Seq

theorem XV.eqv_nan_right (x : XV) : XV.eqv x .nan = false := by cases x <;> rfl
theorem XV.eqv_nan_left (x : XV) : XV.eqv .nan x = false := by cases x <;> rfl

theorem XV.eqv_comm (a b : XV) : XV.eqv a b = XV.eqv b a := by
  cases a <;> cases b <;> simp [XV.eqv, eq_comm]

theorem D.eqv_comm (a b : D) : D.eqv a b = D.eqv b a := XV.eqv_comm _ _

theorem XV.eqv_q_self (n : Int) (d : Nat) : XV.eqv (.q n d) (.q n d) = true := by simp [XV.eqv]

theorem collEq_refl (cl : Coll) (s : String) : collEq cl s s = true := by
  cases cl <;> simp [collEq]

theorem collEq_comm (cl : Coll) (s t : String) : collEq cl s t = collEq cl t s := by
  cases cl <;> simp only [collEq] <;> exact BEq.comm

/-! ### one pair of atomic values: the branches of the Python function = `eq` or both NaN -/

theorem deepEqPair_eq_spec (cl : Coll) (a b : DItem) (ha : a.isNode = false) (hb : b.isNode = false) :
    deepEqPair cl a b = .ok (DSpec.deepEqItems cl a b) := by
  cases a <;> cases b <;>
    simp_all [deepEqPair, DSpec.deepEqItems, DSpec.valueEq, DSpec.family, DSpec.isDouble, DSpec.isNaNItem,
      DSpec.asString, DItem.isNode, DItem.isBool, DItem.isUntyped, DItem.strLike, DItem.xv, DItem.toD,
      floatFirst, floatSecond, pairTrigger, nanVsHuge, infVsHuge]
  all_goals
    try (cases ‹D› <;> simp_all [D.isNaN, D.isInf, D.val, D.eqv, XV.eqv, XV.eqv_nan_left, XV.eqv_nan_right] <;>
      try (cases ‹D› <;> simp_all [D.isNaN, D.isInf, D.val, D.eqv, XV.eqv, XV.eqv_nan_left, XV.eqv_nan_right]))
  · exact XV.eqv_nan_right (D.val _)
  · exact XV.eqv_nan_right (D.val _)
  · rename_i x y; cases x <;> cases y <;> rfl

/-! ### the specification, unfolded along the two lists -/

theorem DSpec.deepEqual_nil_nil (cl : Coll) : DSpec.deepEqual cl [] [] = true := rfl
theorem DSpec.deepEqual_nil_cons (cl : Coll) (b : DItem) (bs : List DItem) :
    DSpec.deepEqual cl [] (b :: bs) = false := by simp [DSpec.deepEqual]
theorem DSpec.deepEqual_cons_nil (cl : Coll) (a : DItem) (as : List DItem) :
    DSpec.deepEqual cl (a :: as) [] = false := by simp [DSpec.deepEqual]
theorem DSpec.deepEqual_cons_cons (cl : Coll) (a b : DItem) (as bs : List DItem) :
    DSpec.deepEqual cl (a :: as) (b :: bs) = (DSpec.deepEqItems cl a b && DSpec.deepEqual cl as bs) := by
  simp only [DSpec.deepEqual, List.length_cons, List.zip_cons_cons, List.all_cons, Nat.add_right_cancel_iff,
    beq_iff_eq, Bool.and_left_comm, Nat.succ_eq_add_one]
  cases DSpec.deepEqItems cl a b <;> simp

/-- the early-return loop over `zip_longest` = same length and every pair deep-equal -/
theorem deepEqual_eq_spec (cl : Coll) : ∀ (xs ys : List DItem), DSpec.atomic xs = true → DSpec.atomic ys = true →
    deepEqual cl xs ys = .ok (DSpec.deepEqual cl xs ys)
  | [], [], _, _ => rfl
  | [], b :: bs, _, _ => by rw [DSpec.deepEqual_nil_cons]; rfl
  | a :: as, [], _, _ => by rw [DSpec.deepEqual_cons_nil]; rfl
  | a :: as, b :: bs, hx, hy => by
    simp only [DSpec.atomic, List.all_cons, Bool.and_eq_true, Bool.not_eq_true'] at hx hy
    have ih := deepEqual_eq_spec cl as bs (by simpa [DSpec.atomic] using hx.2) (by simpa [DSpec.atomic] using hy.2)
    rw [DSpec.deepEqual_cons_cons, deepEqual, deepEqPair_eq_spec cl a b hx.1 hy.1]
    cases DSpec.deepEqItems cl a b <;> simp [ih]

/-! ### reflexivity -/

theorem deepEqPair_refl (cl : Coll) (a : DItem) (ha : a.isNode = false) : deepEqPair cl a a = .ok true := by
  cases a <;>
    simp_all [deepEqPair, DItem.isNode, DItem.isBool, DItem.isUntyped, DItem.strLike, collEq_refl, XV.eqv]
  rename_i d
  cases d <;> simp [floatFirst, D.isNaN, D.isInf, D.val, D.eqv, XV.eqv, DItem.xv, DItem.toD]

theorem deepEqual_refl (cl : Coll) : ∀ xs : List DItem, DSpec.atomic xs = true → deepEqual cl xs xs = .ok true
  | [], _ => rfl
  | a :: as, hx => by
    simp only [DSpec.atomic, List.all_cons, Bool.and_eq_true, Bool.not_eq_true'] at hx
    rw [deepEqual, deepEqPair_refl cl a hx.1]
    exact deepEqual_refl cl as (by simpa [DSpec.atomic] using hx.2)

/-! ### symmetry -/

theorem DSpec.valueEq_comm (cl : Coll) (a b : DItem) : DSpec.valueEq cl a b = DSpec.valueEq cl b a := by
  cases a <;> cases b <;>
    simp [DSpec.valueEq, DSpec.family, DSpec.isDouble, DSpec.asString, DItem.toD, DItem.xv, D.eqv_comm, XV.eqv_comm,
      collEq_comm cl, eq_comm]

theorem DSpec.deepEqItems_comm (cl : Coll) (a b : DItem) : DSpec.deepEqItems cl a b = DSpec.deepEqItems cl b a := by
  simp only [DSpec.deepEqItems, DSpec.valueEq_comm cl a b, Bool.and_comm]

theorem DSpec.deepEqual_comm (cl : Coll) : ∀ xs ys : List DItem, DSpec.deepEqual cl xs ys = DSpec.deepEqual cl ys xs
  | [], [] => rfl
  | [], b :: bs => by rw [DSpec.deepEqual_nil_cons, DSpec.deepEqual_cons_nil]
  | a :: as, [] => by rw [DSpec.deepEqual_nil_cons, DSpec.deepEqual_cons_nil]
  | a :: as, b :: bs => by
    rw [DSpec.deepEqual_cons_cons, DSpec.deepEqual_cons_cons, DSpec.deepEqItems_comm, DSpec.deepEqual_comm cl as bs]

theorem DSpec.deepEqual_length (cl : Coll) (xs ys : List DItem) (h : DSpec.deepEqual cl xs ys = true) :
    xs.length = ys.length := by
  simp only [DSpec.deepEqual, Bool.and_eq_true, beq_iff_eq] at h
  exact h.1

end EPV.Seq

/-
C18 — partial application of function items and judgement histories.
-/
import EPV.Lemmas.SeqTypeInst
set_option linter.unusedSimpArgs false
namespace EPV.SeqType

theorem Tys.pick_all_false : ∀ (a : Tys) (m : List Bool), m.all (fun b => !b) = true → a.pick m = .nil
  | .nil, _, _ => by cases ‹List Bool› <;> simp [Tys.pick]
  | .cons _ _, [], _ => rfl
  | .cons x xs, b :: m, h => by
    simp only [List.all_cons, Bool.and_eq_true, Bool.not_eq_true'] at h
    rw [h.1]; simp only [Tys.pick]; exact Tys.pick_all_false xs m h.2

theorem count_all_false : ∀ (m : List Bool), m.all (fun b => !b) = true → m.count true = 0
  | [], _ => rfl
  | b :: m, h => by
    simp only [List.all_cons, Bool.and_eq_true, Bool.not_eq_true'] at h
    rw [h.1]; simp [count_all_false m h.2]

/-- on prefix masks the open parameters are the first ones (what the code did before the `fix:`) -/
theorem take_eq_pick_of_prefix : ∀ (a : Tys) (mask : List Bool), prefixMask mask = true →
    mask.length = a.length → a.take (mask.count true) = a.pick mask
  | .nil, [], _, _ => rfl
  | .nil, _ :: _, _, h => by simp [Tys.length] at h
  | .cons _ _, [], _, h => by simp [Tys.length] at h
  | .cons x xs, true :: m, hp, hl => by
    have ih := take_eq_pick_of_prefix xs m (by simpa [prefixMask] using hp) (by simpa [Tys.length] using hl)
    simp [Tys.pick, Tys.take, List.count_cons, ih]
  | .cons x xs, false :: m, hp, _ => by
    simp only [prefixMask] at hp
    simp only [Tys.pick]
    rw [Tys.pick_all_false xs m hp]
    simp [List.count_cons, count_all_false m hp, Tys.take]

/-- the number of open parameters is the number of placeholders (`nargs` of the partial function) -/
theorem Tys.pick_length : ∀ (a : Tys) (mask : List Bool), mask.length = a.length →
    (a.pick mask).length = mask.count true
  | .nil, [], _ => rfl
  | .nil, _ :: _, h => by simp [Tys.length] at h
  | .cons _ _, [], h => by simp [Tys.length] at h
  | .cons x xs, true :: m, h => by
    simp [Tys.pick, Tys.length, List.count_cons, Tys.pick_length xs m (by simpa [Tys.length] using h)]
  | .cons x xs, false :: m, h => by
    simp [Tys.pick, List.count_cons, Tys.pick_length xs m (by simpa [Tys.length] using h)]

/-! ### histories -/

theorem hStep_judgement_pool (tb : Tables) (xsd11 : Bool) (pool : List (List Item)) (op : HOp)
    (h : op.isPartial = false) : (hStep tb xsd11 pool op).1 = pool := by
  cases op <;> simp [HOp.isPartial] at h <;> rfl

/-- the pool after a history depends only on its partial applications: judgements never change an item -/
theorem hPool_filter (tb : Tables) (xsd11 : Bool) : ∀ (ops : List HOp) (pool : List (List Item)),
    hPool tb xsd11 pool ops = hPool tb xsd11 pool (ops.filter HOp.isPartial)
  | [], _ => rfl
  | op :: ops, pool => by
    cases hp : op.isPartial
    · simp only [hPool, List.filter_cons, hp, Bool.false_eq_true, if_false]
      rw [hStep_judgement_pool tb xsd11 pool op hp]; exact hPool_filter tb xsd11 ops pool
    · simp only [hPool, List.filter_cons, hp, if_true]; exact hPool_filter tb xsd11 ops _

theorem hRun_append (tb : Tables) (xsd11 : Bool) : ∀ (pre post : List HOp) (pool : List (List Item)),
    hRun tb xsd11 pool (pre ++ post) = hRun tb xsd11 pool pre ++ hRun tb xsd11 (hPool tb xsd11 pool pre) post
  | [], _, _ => rfl
  | op :: pre, post, pool => by
    simp only [List.cons_append, hRun, hPool, hRun_append tb xsd11 pre post]

theorem hRun_length (tb : Tables) (xsd11 : Bool) : ∀ (ops : List HOp) (pool : List (List Item)),
    (hRun tb xsd11 pool ops).length = ops.length
  | [], _ => rfl
  | _ :: ops, _ => by simp [hRun, hRun_length tb xsd11 ops]

/-- every step keeps the values that are in the pool and at most appends new ones -/
theorem hStep_prefix (tb : Tables) (xsd11 : Bool) (pool : List (List Item)) (op : HOp) :
    ∃ extra, (hStep tb xsd11 pool op).1 = pool ++ extra := by
  cases op with
  | coerce i k t r =>
    simp only [hStep]
    split <;> exact ⟨_, rfl⟩
  | papp i mask => exact ⟨_, rfl⟩
  | _ => exact ⟨[], by simp [hStep]⟩

theorem hPool_prefix (tb : Tables) (xsd11 : Bool) : ∀ (ops : List HOp) (pool : List (List Item)),
    ∃ extra, hPool tb xsd11 pool ops = pool ++ extra
  | [], pool => ⟨[], by simp [hPool]⟩
  | op :: ops, pool => by
    obtain ⟨e1, h1⟩ := hStep_prefix tb xsd11 pool op
    obtain ⟨e2, h2⟩ := hPool_prefix tb xsd11 ops (hStep tb xsd11 pool op).1
    exact ⟨e1 ++ e2, by simp only [hPool]; rw [h2, h1, List.append_assoc]⟩

/-- a value that is in the pool stays what it is, whatever is judged, partially applied or converted later -/
theorem hPool_getD (tb : Tables) (xsd11 : Bool) (ops : List HOp) (pool : List (List Item)) (j : Nat)
    (hj : j < pool.length) : (hPool tb xsd11 pool ops).getD j [] = pool.getD j [] := by
  obtain ⟨e, h⟩ := hPool_prefix tb xsd11 ops pool
  rw [h, List.getD_eq_getElem?_getD, List.getD_eq_getElem?_getD, List.getElem?_append_left hj]

/-- function conversion builds a new value: the argument is not the result unless it already matched -/
theorem castSeq_length (tb : Tables) (t : Nat) (v : List Item) : (castSeq tb t v).length = v.length := by
  simp [castSeq]

end EPV.SeqType

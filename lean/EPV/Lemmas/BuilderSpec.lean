/-
C02 helper lemmas: the built tree, listed by `iter`, *is* the XDM item list of the specification
placed at consecutive positions (needs dict-like namespace maps: unique keys).
-/
import EPV.Lemmas.Builder
import EPV.Lemmas.BuilderSV
import EPV.Spec.XDMTree
namespace EPV.Builder
open EPV.XDM

/-- a Python dict has unique keys -/
def nsWF (m : NsMap) : Bool := decide ((m.map (·.1)).Nodup)

mutual
/-- every namespace map read by the builder is a dict (unique prefixes) -/
def treeWF (c : Cfg) : XTree → Bool
  | .elem _ nsmap _ _ kids _ => nsWF (c.nsmapOf nsmap) && kidsWF c kids
  | .comment .. => true
  | .pi .. => true
def kidsWF (c : Cfg) : List XTree → Bool
  | [] => true
  | t :: ts => treeWF c t && kidsWF c ts
end

theorem nonXml_length_eq (m : NsMap) (h : nsWF m = true) :
    (nonXml m).length + 1 = m.length + (if hasXml m then 0 else 1) := by
  induction m with
  | nil => simp [nonXml, hasXml]
  | cons kv m ih =>
    simp only [nsWF, List.map_cons, List.nodup_cons, decide_eq_true_eq] at h
    have ih := ih (by simp [nsWF, h.2])
    by_cases hk : kv.1 = some "xml"
    · -- the head is the xml key: no other xml key in m
      have hno : hasXml m = false := by
        cases hx : hasXml m with
        | false => rfl
        | true =>
          exfalso
          simp only [hasXml, List.any_eq_true, beq_iff_eq] at hx
          obtain ⟨kv', hm, he⟩ := hx
          exact h.1 (by rw [hk, ← he]; exact List.mem_map_of_mem hm)
      have h1 : nonXml (kv :: m) = nonXml m := by simp [nonXml, hk]
      have h2 : hasXml (kv :: m) = true := by simp [hasXml, hk]
      rw [h1, h2]; simp [hno] at ih; simp; omega
    · have h1 : nonXml (kv :: m) = kv :: nonXml m := by simp [nonXml, hk]
      have h2 : hasXml (kv :: m) = hasXml m := by simp [hasXml, hk]
      rw [h1, h2]; simp only [List.length_cons]; omega

/-- put an XDM item at position `start + idx` -/
def place (start : Nat) (it : Item) : Rec :=
  { kind := it.kind, name := it.name, pos := start + it.idx, parent := it.parent.map (start + ·), sv := it.sv }

/-- forget the string value of documents and elements (where finding F02a lives) when `b` -/
def blankIf (b : Bool) (r : Rec) : Rec :=
  if b && (r.kind == .element || r.kind == .document) then { r with sv := "" } else r

theorem enumFrom_number {α : Type} (f : Nat → α → Rec) (g : Nat → α → Item) (start : Nat)
    (h : ∀ j a, f (start + j) a = place start (g j a)) (q j : Nat) (hq : q = start + j) (l : List α) :
    enumFrom f q l = (number g j l).map (place start) := by
  induction l generalizing q j with
  | nil => rfl
  | cons a l ih =>
    subst hq
    simp only [enumFrom, number, List.map_cons, h]
    rw [ih (start + j + 1) (j + 1) (by omega)]

@[simp] theorem length_number {α : Type} (g : Nat → α → Item) (j : Nat) (l : List α) :
    (number g j l).length = l.length := by
  induction l generalizing j with
  | nil => rfl
  | cons a l ih => simp [number, ih]

theorem nsItems_length (e i : Nat) (m : NsMap) : (nsItems e i m).length = 1 + (nonXml m).length := by
  simp [nsItems, nonXml]; omega

theorem attrItems_length (e i : Nat) (a : Attrib) : (attrItems e i a).length = a.length := by
  simp [attrItems]

theorem textItem_length (par : Option Nat) (i : Nat) (o : Option String) :
    (textItem par i o).length = (textNode 0 o).2 := by
  cases o <;> simp [textItem, textNode]

theorem namespaceNodes_spec (start p i : Nat) (hp : p = start + i) (m : NsMap) :
    namespaceNodes p m = (nsItems i (i + 1) m).map (place start) := by
  subst hp
  unfold namespaceNodes nsItems
  simp only [List.map_cons]
  congr 1
  exact enumFrom_number _ _ start (by intro j a; rfl) _ _ (by omega) _

theorem attributeNodes_spec (start p i : Nat) (hp : p = start + i) (m : NsMap) (hm : nsWF m = true) (a : Attrib) :
    attributeNodes p m a = (attrItems i (i + 1 + (nsItems i (i + 1) m).length) a).map (place start) := by
  subst hp
  unfold attributeNodes attrItems
  have := nonXml_length_eq m hm
  exact enumFrom_number _ _ start (by intro j a; rfl) _ _ (by rw [nsItems_length]; omega) _

theorem textNode_spec (start q j : Nat) (hq : q = start + j) (par : Nat) (o : Option String) :
    iterKids (some (start + par)) (textNode q o).1 = (textItem (some par) j o).map (place start) ∧
    (textNode q o).2 = q + (textItem (some par) j o).length := by
  subst hq
  cases o <;> simp [textNode, textItem, iterKids, iterNode, place]

theorem map_blank_append (b : Bool) (x y : List Rec) :
    (x ++ y).map (blankIf b) = x.map (blankIf b) ++ y.map (blankIf b) := List.map_append

theorem blankIf_elem (b : Bool) (h : b = false → sv₁ = sv₂) (name : Option String) (pos : Nat) (par : Option Nat) :
    blankIf b { kind := .element, name := name, pos := pos, parent := par, sv := sv₁ } =
    blankIf b { kind := .element, name := name, pos := pos, parent := par, sv := sv₂ } := by
  cases b with
  | true => simp [blankIf]
  | false => rw [h rfl]

theorem blankIf_doc (b : Bool) (h : b = false → sv₁ = sv₂) (name : Option String) (pos : Nat) (par : Option Nat) :
    blankIf b { kind := .document, name := name, pos := pos, parent := par, sv := sv₁ } =
    blankIf b { kind := .document, name := name, pos := pos, parent := par, sv := sv₂ } := by
  cases b with
  | true => simp [blankIf]
  | false => rw [h rfl]

mutual
/-- the subtree built at `start + i` is the item list of the spec placed at `start`, and the next
free position is `start + i + number of items` (no gap, no overlap) -/
theorem buildOne_spec (c : Cfg) (b : Bool) (start : Nat) : ∀ (t : XTree) (p i : Nat) (par : Option Nat),
    p = start + i → treeWF c t = true →
    (iterNode (par.map (start + ·)) (buildOne c p t).1).map (blankIf b)
        = ((itemsOne c par i t).map (place start)).map (blankIf b) ∧
    (buildOne c p t).2 = p + (itemsOne c par i t).length
  | .elem name nsmap attrib text kids tail, p, i, par, hp, hwf => by
    simp only [treeWF, Bool.and_eq_true] at hwf
    have hns := namespaceNodes_spec start p i hp (c.nsmapOf nsmap)
    have hat := attributeNodes_spec start p i hp (c.nsmapOf nsmap) hwf.1 attrib
    have hlen := nonXml_length_eq (c.nsmapOf nsmap) hwf.1
    have hnl := nsItems_length i (i + 1) (c.nsmapOf nsmap)
    have hal := attrItems_length i (i + 1 + (nsItems i (i + 1) (c.nsmapOf nsmap)).length) attrib
    have hoff : nsOffset (c.nsmapOf nsmap) = 1 + (nsItems i (i + 1) (c.nsmapOf nsmap)).length := by
      unfold nsOffset; omega
    have htx := textNode_spec start (p + nsOffset (c.nsmapOf nsmap) + attrib.length)
      (i + 1 + (nsItems i (i + 1) (c.nsmapOf nsmap)).length +
        (attrItems i (i + 1 + (nsItems i (i + 1) (c.nsmapOf nsmap)).length) attrib).length)
      (by omega) i text
    have hkids := buildKids_spec c b start kids
      (textNode (p + nsOffset (c.nsmapOf nsmap) + attrib.length) text).2
      (i + 1 + (nsItems i (i + 1) (c.nsmapOf nsmap)).length +
        (attrItems i (i + 1 + (nsItems i (i + 1) (c.nsmapOf nsmap)).length) attrib).length +
        (textItem (some i) (i + 1 + (nsItems i (i + 1) (c.nsmapOf nsmap)).length +
          (attrItems i (i + 1 + (nsItems i (i + 1) (c.nsmapOf nsmap)).length) attrib).length) text).length)
      i (by rw [htx.2]; omega) hwf.2
    have hsv : b = false → elemStringValue (.elem name nsmap attrib text kids tail)
        = stringValue (.elem name nsmap attrib text kids tail) := fun _ => elemStringValue_eq _
    have hin : inScope c nsmap = c.nsmapOf nsmap := rfl
    subst hp
    simp only [buildOne, iterNode, itemsOne, hin, List.map_cons, List.map_append, iterKids_append,
      List.length_cons, List.length_append]
    refine ⟨?_, ?_⟩
    · congr 1
      · exact blankIf_elem b hsv _ _ _
      · rw [hns, hat, htx.1, hkids.1]
        simp
    · rw [hkids.2, htx.2]; omega
  | .comment s tl, p, i, par, hp, _ => by subst hp; simp [buildOne, iterNode, itemsOne, place]
  | .pi t s tl, p, i, par, hp, _ => by subst hp; simp [buildOne, iterNode, itemsOne, place]
theorem buildKids_spec (c : Cfg) (b : Bool) (start : Nat) : ∀ (ts : List XTree) (p i par : Nat),
    p = start + i → kidsWF c ts = true →
    (iterKids (some (start + par)) (buildKids c p ts).1).map (blankIf b)
        = ((itemsKids c par i ts).map (place start)).map (blankIf b) ∧
    (buildKids c p ts).2 = p + (itemsKids c par i ts).length
  | [], p, i, par, _, _ => by simp [buildKids, iterKids, itemsKids]
  | t :: ts, p, i, par, hp, hwf => by
    simp only [kidsWF, Bool.and_eq_true] at hwf
    have h1 := buildOne_spec c b start t p i (some par) hp hwf.1
    have h2 := textNode_spec start (buildOne c p t).2 (i + (itemsOne c (some par) i t).length)
      (by rw [h1.2]; omega) par t.tail
    have h3 := buildKids_spec c b start ts (textNode (buildOne c p t).2 t.tail).2
      (i + (itemsOne c (some par) i t).length +
        (textItem (some par) (i + (itemsOne c (some par) i t).length) t.tail).length) par
      (by rw [h2.2, h1.2]; omega) hwf.2
    simp only [buildKids, iterKids_cons, iterKids_append, itemsKids, List.map_append, List.length_append]
    refine ⟨?_, ?_⟩
    · have h1' := h1.1
      simp only [Option.map_some] at h1'
      rw [h1', h2.1, h3.1]
    · rw [h3.2, h2.2, h1.2]; omega
end

/-! ### whole trees -/

theorem buildSiblings_spec (start : Nat) : ∀ (ts : List XTree) (p j : Nat), p = start + j →
    iterKids (some start) (buildSiblings p ts).1 = (siblingItems j ts).map (place start) ∧
    (buildSiblings p ts).2 = p + (siblingItems j ts).length ∧
    (buildSiblings p ts).1.filterMap svOfChild = []
  | [], p, j, _ => by simp [buildSiblings, siblingItems, iterKids]
  | .comment s tl :: ts, p, j, hp => by
    have ih := buildSiblings_spec start ts (p + 1) (j + 1) (by omega)
    subst hp
    simp only [buildSiblings, siblingItems, iterKids_cons, iterNode, List.map_cons, List.length_cons,
      List.filterMap_cons, svOfChild, ih.1, ih.2.1, ih.2.2]
    refine ⟨by simp [place], by omega, trivial⟩
  | .pi t s tl :: ts, p, j, hp => by
    have ih := buildSiblings_spec start ts (p + 1) (j + 1) (by omega)
    subst hp
    simp only [buildSiblings, siblingItems, iterKids_cons, iterNode, List.map_cons, List.length_cons,
      List.filterMap_cons, svOfChild, ih.1, ih.2.1, ih.2.2]
    refine ⟨by simp [place], by omega, trivial⟩
  | .elem .. :: ts, p, j, hp => by
    have ih := buildSiblings_spec start ts p j hp
    simpa only [buildSiblings, siblingItems] using ih

theorem buildOne_elem_sv (c : Cfg) (p : Nat) (e : XTree) (he : e.isElem = true) :
    [(buildOne c p e).1].filterMap svOfChild = [elemStringValue e] := by
  cases e with
  | elem name nsmap attrib text kids tail => simp [buildOne, svOfChild]
  | comment s tl => simp [XTree.isElem] at he
  | pi t s tl => simp [XTree.isElem] at he

/-- a document node at `d` over prolog, top element, epilog -/
theorem docNode_spec (c : Cfg) (b : Bool) (d : Nat) (pro : List XTree) (e : XTree) (epi : List XTree)
    (he : e.isElem = true) (hwf : treeWF c e = true) :
    (iter (.doc d ((buildSiblings (d + 1) pro).1 ++
        (buildOne c (buildSiblings (d + 1) pro).2 e).1 ::
        (buildSiblings (buildOne c (buildSiblings (d + 1) pro).2 e).2 epi).1))).map (blankIf b)
      = ((documentItems c pro (some e) epi).map (place d)).map (blankIf b) := by
  have h1 := buildSiblings_spec d pro (d + 1) 1 rfl
  have h2 := buildOne_spec c b d e (buildSiblings (d + 1) pro).2 (1 + (siblingItems 1 pro).length) (some 0)
    (by rw [h1.2.1]; omega) hwf
  have h3 := buildSiblings_spec d epi (buildOne c (buildSiblings (d + 1) pro).2 e).2
    (1 + (siblingItems 1 pro).length + (itemsOne c (some 0) (1 + (siblingItems 1 pro).length) e).length)
    (by rw [h2.2, h1.2.1]; omega)
  have hsv : docStringValue ((buildSiblings (d + 1) pro).1 ++
        (buildOne c (buildSiblings (d + 1) pro).2 e).1 ::
        (buildSiblings (buildOne c (buildSiblings (d + 1) pro).2 e).2 epi).1) = elemStringValue e := by
    unfold docStringValue
    rw [List.filterMap_append, h1.2.2, List.nil_append, ← List.singleton_append, List.filterMap_append,
      buildOne_elem_sv c _ e he, h3.2.2]
    simp [concat, String.append_empty]
  have h2' := h2.1
  simp only [Option.map_some, Nat.add_zero] at h2'
  simp only [iter, iterNode, documentItems, List.map_cons, List.map_append, iterKids_append, iterKids_cons,
    hsv, h1.1, h3.1, h2']
  congr 1
  · exact blankIf_doc b (fun _ => elemStringValue_eq e) _ _ _
  · simp only [List.append_assoc]

theorem subtreeAt_wf (c : Cfg) : ∀ (path : List Nat) (t e : XTree), subtreeAt t path = some e →
    treeWF c t = true → treeWF c e = true
  | [], t, e, h, hwf => by simp [subtreeAt] at h; subst h; exact hwf
  | k :: path, t, e, h, hwf => by
    simp only [subtreeAt] at h
    split at h
    · rename_i kid hkid
      refine subtreeAt_wf c path kid e h ?_
      have hmem : kid ∈ t.kids := List.mem_of_getElem? hkid
      cases t with
      | elem name nsmap attrib text kids tail =>
        simp only [treeWF, Bool.and_eq_true] at hwf
        simp only [XTree.kids] at hmem
        have : ∀ (l : List XTree), kidsWF c l = true → kid ∈ l → treeWF c kid = true := by
          intro l
          induction l with
          | nil => intro _ hm; cases hm
          | cons a l ih =>
            intro hl hm
            simp only [kidsWF, Bool.and_eq_true] at hl
            rcases List.mem_cons.1 hm with rfl | hm
            · exact hl.1
            · exact ih hl.2 hm
        exact this kids hwf.2 hmem
      | comment s tl => simp [XTree.kids] at hmem
      | pi t s tl => simp [XTree.kids] at hmem
    · cases h

end EPV.Builder

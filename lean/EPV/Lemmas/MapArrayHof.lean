/-
C15 — the loops behind array:filter / fold-left / fold-right / for-each-pair are the list
combinators of F&O §17.3 (`filter`, `foldl`, `foldr`, `zipWith`), and the atomic branch of
deep-equal: reflexive, symmetric, and equal to F&O `eq`-or-both-NaN outside `atomClash`.
-/
import EPV.Lemmas.MapArrayKeys
namespace EPV.MapArray
open Spec

theorem filterLoop_eq_filter {α : Type} (p : α → Option Bool) (q : α → Bool) (l : List α)
    (h : ∀ x ∈ l, p x = some (q x)) : filterLoop p l = .ok (l.filter q) := by
  induction l with
  | nil => rfl
  | cons a rest ih =>
    simp only [filterLoop, h a (by simp), ih fun x hx => h x (List.mem_cons_of_mem _ hx), List.filter_cons]

theorem filterLoop_error {α : Type} (p : α → Option Bool) (l : List α) (h : ∃ x ∈ l, p x = none) :
    filterLoop p l = .error .XPTY0004 := by
  induction l with
  | nil => obtain ⟨x, hx, _⟩ := h; simp at hx
  | cons a rest ih =>
    simp only [filterLoop]
    cases hp : p a with
    | none => rfl
    | some b =>
      simp only
      obtain ⟨x, hx, hxn⟩ := h
      rcases List.mem_cons.1 hx with rfl | hx
      · rw [hp] at hxn; cases hxn
      · rw [ih ⟨x, hx, hxn⟩]

theorem foldLLoop_eq_foldl {α β : Type} (f : β → α → β) (acc : β) (l : List α) :
    foldLLoop f acc l = l.foldl f acc := by
  induction l generalizing acc with
  | nil => rfl
  | cons x rest ih => simp only [foldLLoop, List.foldl_cons, ih]

theorem foldRLoop_eq_foldr {α β : Type} (f : α → β → β) (zero : β) (l : List α) :
    foldRLoop f zero l = l.foldr f zero := by
  unfold foldRLoop
  rw [foldLLoop_eq_foldl, List.foldl_reverse]

theorem pairLoop_eq_zipWith {α β : Type} (f : α → α → β) (l1 l2 : List α) :
    pairLoop f l1 l2 = List.zipWith f l1 l2 := by
  induction l1 generalizing l2 with
  | nil => cases l2 <;> rfl
  | cons a as ih =>
    cases l2 with
    | nil => rfl
    | cons b bs => simp only [pairLoop, List.zipWith_cons_cons, ih]

/-! deep-equal on atoms -/

theorem pyAtomEq_refl (a : Key) : pyAtomEq a a = true := by
  cases a <;> simp [pyAtomEq]

theorem pyAtomEq_symm (a b : Key) : pyAtomEq a b = pyAtomEq b a := by
  cases a <;> cases b <;> simp [pyAtomEq] <;>
    first | exact eq_comm | exact Bool.beq_comm | (rw [Bool.beq_comm])

/-- the code's atomic comparison and F&O's disagree on this pair (kept as a definition for the
driver; `atomClash_false` shows it never holds) -/
def atomClash (a b : Key) : Bool := pyAtomEq a b != atomDeepEqual a b

/-- **deep-equal on atoms**: the atomic branch of `deep_equal` is F&O's "`eq` or both NaN" for every
pair of atomic values -/
theorem pyAtomEq_eq_spec (a b : Key) : pyAtomEq a b = atomDeepEqual a b := by
  cases a <;> cases b <;>
    simp [pyAtomEq, atomDeepEqual, toDbl, Key.eqRep, Bool.beq_eq_decide_eq] <;>
    first | exact eq_comm | exact Bool.and_comm _ _

theorem atomClash_false (a b : Key) : atomClash a b = false := by
  simp [atomClash, pyAtomEq_eq_spec]

end EPV.MapArray

/-
C05 helper lemmas: `eval` (model) and `sem` (lexical specification) give related answers on
well-scoped programs — the helpers, given that the evaluators one level down are related.
-/
import EPV.Lemmas.ScopeRel
namespace EPV.Scope

variable {lex : Bool}

/-- model answer against spec answer: same error, or related values with the caller's dict and
objects handed back unchanged -/
def RRel (lex : Bool) (ρ1 : Env) (h : Heap) : Res → Except Err Val → Prop
  | .ok (v1, ρ', h'), .ok v2 => VRel lex v1 v2 ∧ ρ' = ρ1 ∧ h' = h
  | .error e1, .error e2 => e1.1 = e2
  | _, _ => False

theorem RRel.cases {ρ1 : Env} {h : Heap} {r : Res} {s : Except Err Val} (hr : RRel lex ρ1 h r s) :
    (∃ e ρ' h', r = .error (e, ρ', h') ∧ s = .error e) ∨
    (∃ v1 v2, r = .ok (v1, ρ1, h) ∧ s = .ok v2 ∧ VRel lex v1 v2) := by
  match r, s, hr with
  | .ok (v1, ρ', h'), .ok v2, ⟨hv, he, hh⟩ => subst he; subst hh; exact .inr ⟨v1, v2, rfl, rfl, hv⟩
  | .error (e1, ρ', h'), .error e2, he => cases he; exact .inl ⟨e1, ρ', h', rfl, rfl⟩

theorem RRel.err {ρ1 : Env} {h : Heap} (e : Err) {ρ' : Env} {h' : Heap} :
    RRel lex ρ1 h (.error (e, ρ', h')) (.error e) := rfl
theorem RRel.ok {ρ1 : Env} {h : Heap} {v1 v2 : Val} (hv : VRel lex v1 v2) : RRel lex ρ1 h (.ok (v1, ρ1, h)) (.ok v2) :=
  ⟨hv, rfl, rfl⟩

/-- the evaluators one level down are related on every well-scoped expression -/
def Related (lex : Bool) (ev : Expr → Env → Heap → Res) (sm : Expr → Env → Except Err Val) (h : Heap) : Prop :=
  ∀ e exact S ρ1 ρ2, WS lex exact S e = true → Inv lex none exact S ρ1 ρ2 → RRel lex ρ1 h (ev e ρ1 h) (sm e ρ2)

variable {ev : Expr → Env → Heap → Res} {sm : Expr → Env → Except Err Val} {h : Heap}

theorem operands_rel (hr : Related lex ev sm h) {a b : Expr} {exact : Bool} {S : List Name} {ρ1 ρ2 : Env}
    (hwa : WS lex exact S a = true) (hwb : WS lex exact S b = true) (hi : Inv lex none exact S ρ1 ρ2) :
    (∃ e ρ' h', operands ev a b ρ1 h = .error (e, ρ', h') ∧ semOperands sm a b ρ2 = .error e) ∨
    (operands ev a b ρ1 h = .ok (none, ρ1, h) ∧ semOperands sm a b ρ2 = .ok none) ∨
    (∃ x1 y1 x2 y2, operands ev a b ρ1 h = .ok (some (x1, y1), ρ1, h) ∧
      semOperands sm a b ρ2 = .ok (some (x2, y2)) ∧ IRel lex x1 x2 ∧ IRel lex y1 y2) := by
  unfold operands semOperands
  rcases (hr a exact S ρ1 ρ2 hwa hi).cases with ⟨e, _, _, h1, h2⟩ | ⟨v1, v2, h1, h2, hv⟩
  · simp only [h1, h2]; exact .inl ⟨e, _, _, rfl, rfl⟩
  · simp only [h1, h2]
    cases hv with
    | nil => exact .inr (.inl ⟨rfl, rfl⟩)
    | cons hx t =>
      cases t with
      | cons _ _ => exact .inl ⟨.type, _, _, rfl, rfl⟩
      | nil =>
        rcases (hr b exact S ρ1 ρ2 hwb hi).cases with ⟨e, _, _, h3, h4⟩ | ⟨w1, w2, h3, h4, hw⟩
        · simp only [h3, h4]; exact .inl ⟨e, _, _, rfl, rfl⟩
        · simp only [h3, h4]
          cases hw with
          | nil => exact .inr (.inl ⟨rfl, rfl⟩)
          | cons hy t2 =>
            cases t2 with
            | cons _ _ => exact .inl ⟨.type, _, _, rfl, rfl⟩
            | nil => exact .inr (.inr ⟨_, _, _, _, rfl, rfl, hx, hy⟩)

theorem forLoop_rel (hr : Related lex ev sm h) {x : Name} {body : Expr} {exact : Bool} {S : List Name} {ρ2 : Env}
    (hwb : WS lex exact (x :: S) body = true) :
    ∀ (items1 items2 : List Item), VRel lex items1 items2 → ∀ ρc, Inv lex (some x) exact S ρc ρ2 →
      (∃ e ρ' h', forLoop ev x body items1 ρc h = .error (e, ρ', h') ∧ semFor sm x body ρ2 items2 = .error e) ∨
      (∃ v1 v2 ρ', forLoop ev x body items1 ρc h = .ok (v1, ρ', h) ∧ semFor sm x body ρ2 items2 = .ok v2 ∧
        VRel lex v1 v2) := by
  intro items1 items2 hv
  induction hv with
  | nil => intro ρc _; exact .inr ⟨[], [], ρc, rfl, rfl, .nil⟩
  | @cons a b as bs hit _ ih =>
    intro ρc hi
    unfold forLoop semFor
    rcases (hr body exact (x :: S) _ _ hwb (hi.bind (.cons hit .nil))).cases with ⟨e, _, _, h1, h2⟩ | ⟨v1, v2, h1, h2, hv1⟩
    · simp only [h1, h2]; exact .inl ⟨e, _, _, rfl, rfl⟩
    · simp only [h1, h2]
      rcases ih ((x, [a]) :: ρc) hi.step with ⟨e, _, _, h3, h4⟩ | ⟨w1, w2, ρ', h3, h4, hw⟩
      · simp only [h3, h4]; exact .inl ⟨e, _, _, rfl, rfl⟩
      · simp only [h3, h4]; exact .inr ⟨_, _, ρ', rfl, rfl, hv1.append hw⟩

theorem quantLoop_rel (hr : Related lex ev sm h) {q : Bool} {x : Name} {body : Expr} {exact : Bool} {S : List Name}
    {ρ2 : Env} (hwb : WS lex exact (x :: S) body = true) :
    ∀ (items1 items2 : List Item), VRel lex items1 items2 → ∀ ρc, Inv lex (some x) exact S ρc ρ2 →
      (∃ e ρ' h', quantLoop ev q x body items1 ρc h = .error (e, ρ', h') ∧ semQuant sm q x body ρ2 items2 = .error e) ∨
      (∃ b ρ', quantLoop ev q x body items1 ρc h = .ok (b, ρ', h) ∧ semQuant sm q x body ρ2 items2 = .ok b) := by
  intro items1 items2 hv
  induction hv with
  | nil => intro ρc _; exact .inr ⟨!q, ρc, rfl, rfl⟩
  | @cons a b as bs hit _ ih =>
    intro ρc hi
    unfold quantLoop semQuant
    rcases (hr body exact (x :: S) _ _ hwb (hi.bind (.cons hit .nil))).cases with ⟨e, _, _, h1, h2⟩ | ⟨v1, v2, h1, h2, hv1⟩
    · simp only [h1, h2]; exact .inl ⟨e, _, _, rfl, rfl⟩
    · simp only [h1, h2, ebv_rel hv1]
      cases ebv v2 with
      | error e => exact .inl ⟨e, _, _, rfl, rfl⟩
      | ok bv =>
        simp only
        by_cases hb : (bv == q) = true
        · simp only [if_pos hb]; exact .inr ⟨q, _, rfl, rfl⟩
        · simp only [if_neg hb]; exact ih ((x, [a]) :: ρc) hi.step

theorem argToks_ws {exact : Bool} {S : List Name} : ∀ (a : Expr), WS lex exact S a = true →
    ∀ t, t ∈ argToks a → WS lex exact S t = true := by
  intro a
  induction a with
  | seq a b iha _ =>
    intro hw t ht
    simp only [WS, Bool.and_eq_true] at hw
    simp only [argToks, List.mem_append, List.mem_singleton] at ht
    rcases ht with ht | ht
    · exact iha hw.1 t ht
    · subst ht; exact hw.2
  | _ => intro hw t ht; simp only [argToks, List.mem_singleton] at ht; subst ht; exact hw

theorem evalArgs_rel (hr : Related lex ev sm h) {exact : Bool} {S : List Name} {ρ1 ρ2 : Env}
    (hi : Inv lex none exact S ρ1 ρ2) :
    ∀ (as : List Expr), (∀ t, t ∈ as → WS lex exact S t = true) →
      (∃ e ρ' h', evalArgs ev as ρ1 h = .error (e, ρ', h') ∧ semArgs sm ρ2 as = .error e) ∨
      (∃ vs1 vs2, evalArgs ev as ρ1 h = .ok (vs1, ρ1, h) ∧ semArgs sm ρ2 as = .ok vs2 ∧ All2 (VRel lex) vs1 vs2) := by
  intro as
  induction as with
  | nil => intro _; exact .inr ⟨[], [], rfl, rfl, .nil⟩
  | cons a rest ih =>
    intro hw
    unfold evalArgs semArgs
    rcases (hr a exact S ρ1 ρ2 (hw a (by simp)) hi).cases with ⟨e, _, _, h1, h2⟩ | ⟨v1, v2, h1, h2, hv⟩
    · simp only [h1, h2]; exact .inl ⟨e, _, _, rfl, rfl⟩
    · simp only [h1, h2]
      rcases ih (fun t ht => hw t (by simp [ht])) with ⟨e, _, _, h3, h4⟩ | ⟨w1, w2, h3, h4, hws⟩
      · simp only [h3, h4]; exact .inl ⟨e, _, _, rfl, rfl⟩
      · simp only [h3, h4]; exact .inr ⟨_, _, rfl, rfl, .cons hv hws⟩

theorem zip_lookup_rel : ∀ (ps : List Name) (vs1 vs2 : List Val), All2 (VRel lex) vs1 vs2 → ps.length = vs1.length →
    ∀ x, (x ∈ ps → ∃ v1 v2, (ps.zip vs1).lookup x = some v1 ∧ (ps.zip vs2).lookup x = some v2 ∧ VRel lex v1 v2) ∧
         (x ∉ ps → (ps.zip vs1).lookup x = none ∧ (ps.zip vs2).lookup x = none) := by
  intro ps
  induction ps with
  | nil => intro vs1 vs2 _ _ x; simp
  | cons p rest ih =>
    intro vs1 vs2 hv hl x
    cases hv with
    | nil => simp at hl
    | cons hv1 hvs =>
      rename_i a b as bs
      have hl' : rest.length = as.length := by simpa using hl
      have := ih as bs hvs hl' x
      simp only [List.zip_cons_cons]
      by_cases hx : x = p
      · subst hx
        simp only [lookup_cons_eq, List.mem_cons, true_or, not_true_eq_false, false_implies, and_true]
        intro _; exact ⟨_, _, rfl, rfl, hv1⟩
      · rw [lookup_cons_ne hx, lookup_cons_ne hx]
        simp only [List.mem_cons, hx, false_or]
        exact this

theorem lookup_append_some {x : Name} {a b : Env} {v : Val} (h : a.lookup x = some v) :
    (a ++ b).lookup x = some v := by
  rw [List.lookup_append, h]; rfl

theorem lookup_append_none {x : Name} {a b : Env} (h : a.lookup x = none) :
    (a ++ b).lookup x = b.lookup x := by
  rw [List.lookup_append, h]; rfl

/-- dynamic function call: the callee's dict of the model (`params ++ closure ++ tail`, where `tail`
is the caller's dict, or nothing when F05c is repaired) and of the specification
(`params ++ closure`) satisfy the invariant on `ps ++ S'`, the scope of the body -/
theorem callEnv_inv {ps : List Name} {cap1 cap2 tail : Env} {S' : List Name} {vs1 vs2 : List Val} {ex : Bool}
    (hdom : ∀ x, x ∈ S' → (cap1.lookup x).isSome = true ∧ (cap2.lookup x).isSome = true)
    (hrel : ∀ x v1 v2, x ∈ S' → cap1.lookup x = some v1 → cap2.lookup x = some v2 → VRel lex v1 v2)
    (hout : ex = true → ∀ x, x ∉ S' → cap1.lookup x = none ∧ cap2.lookup x = none)
    (htail : ex = true → tail = [])
    (hvs : All2 (VRel lex) vs1 vs2) (hl : ps.length = vs1.length) :
    Inv lex none ex (ps ++ S') (ps.zip vs1 ++ (cap1 ++ tail)) (ps.zip vs2 ++ cap2) := by
  have hz := zip_lookup_rel ps vs1 vs2 hvs hl
  refine ⟨?_, ?_, ?_⟩
  · intro x hx _
    by_cases hp : x ∈ ps
    · obtain ⟨v1, v2, e1, e2, _⟩ := (hz x).1 hp
      simp [lookup_append_some e1, lookup_append_some e2]
    · have hs : x ∈ S' := by simpa [hp] using hx
      obtain ⟨n1, n2⟩ := (hz x).2 hp
      rw [lookup_append_none n1, lookup_append_none n2]
      obtain ⟨d1, d2⟩ := hdom x hs
      obtain ⟨w, hw⟩ := Option.isSome_iff_exists.mp d1
      rw [lookup_append_some hw]
      exact ⟨rfl, d2⟩
  · intro x v1 v2 hx _ h1 h2
    by_cases hp : x ∈ ps
    · obtain ⟨w1, w2, e1, e2, hw⟩ := (hz x).1 hp
      rw [lookup_append_some e1] at h1; rw [lookup_append_some e2] at h2
      cases h1; cases h2; exact hw
    · have hs : x ∈ S' := by simpa [hp] using hx
      obtain ⟨n1, n2⟩ := (hz x).2 hp
      rw [lookup_append_none n1] at h1; rw [lookup_append_none n2] at h2
      obtain ⟨d1, _⟩ := hdom x hs
      obtain ⟨w, hw⟩ := Option.isSome_iff_exists.mp d1
      rw [lookup_append_some hw] at h1
      cases h1
      exact hrel x _ _ hs hw h2
  · intro he x hx _
    have hp : x ∉ ps := fun hm => hx (by simp [hm])
    have hs : x ∉ S' := fun hm => hx (by simp [hm])
    obtain ⟨n1, n2⟩ := (hz x).2 hp
    obtain ⟨c1, c2⟩ := hout he x hs
    rw [lookup_append_none n1, lookup_append_none n2, htail he, List.append_nil]
    exact ⟨c1, c2⟩

theorem applyFn_rel (hr : Related lex ev sm h) {c : Cfg} (hq : c.q.callCopies = true) (hlex : c.q.calleeLexical = lex)
    {ps : List Name} {body : Expr} {cap1 cap2 ρ1 : Env} {vs1 vs2 : List Val}
    (hf : IRel lex (.fn ps body cap1) (.fn ps body cap2)) (hvs : All2 (VRel lex) vs1 vs2) :
    RRel lex ρ1 h (applyFn ev c ps body cap1 vs1 ρ1 h) (semApply sm ps body cap2 vs2) := by
  unfold applyFn semApply
  have hlen := hvs.length_eq
  by_cases hl : ps.length = vs1.length
  · have hl2 : ps.length = vs2.length := hl.trans hlen
    rw [if_neg (fun hne => hne hl), if_neg (fun hne => hne hl2)]
    cases hf with
    | fn _ _ _ _ S' ex hex hws hdom hrel hout =>
      have hi : Inv lex none ex (ps ++ S') (calleeEnv c ps vs1 cap1 ρ1) (ps.zip vs2 ++ cap2) := by
        unfold calleeEnv
        cases hc : c.q.calleeLexical with
        | true =>
          simp only [if_true]
          have := callEnv_inv (tail := []) hdom hrel hout (fun _ => rfl) hvs hl
          simpa using this
        | false =>
          simp only [Bool.false_eq_true, if_false]
          have hexf : ex = false := by
            cases ex with
            | false => rfl
            | true => have := hex rfl; rw [← hlex, hc] at this; cases this
          subst hexf
          exact callEnv_inv (tail := ρ1) hdom hrel hout (fun hf => by cases hf) hvs hl
      rcases (hr body ex (ps ++ S') _ _ hws hi).cases with ⟨e, _, _, h1, h2⟩ | ⟨v1, v2, h1, h2, hv⟩
      · simp only [h1, h2]; exact RRel.err e
      · simp only [h1, h2, hq, if_true]; exact RRel.ok hv
  · have hl2 : ¬ ps.length = vs2.length := fun e => hl (e.trans hlen.symm)
    rw [if_pos hl, if_pos hl2]
    exact RRel.err .type

end EPV.Scope

/-
C11 — xs:time arithmetic (wraps modulo 24 h), comparison under an implicit timezone, the Gregorian
partial types (gYear … gDay).
-/
import EPV.Lemmas.CalendarMk
set_option linter.unusedVariables false
set_option linter.unusedSimpArgs false
namespace EPV.Cal
open EPV.Timeline (isLeap yearLen monthLen daysBeforeYearC daysBeforeMonthC dayNumC Val TVal)

/-- a well-formed `xs:time` value of the model: proxy date 2000-01-01, time inside the day, timezone ±14:00 -/
def IsTime (t : DT) : Prop := t.year = 2000 ∧ t.month = 1 ∧ t.day = 1 ∧ 0 ≤ t.us ∧ t.us < US ∧ TzOk t.tz
instance (t : DT) : Decidable (IsTime t) := by unfold IsTime; exact inferInstance

/-- the specification value of a model time -/
def absT (t : DT) : TVal := ⟨t.us, t.tz⟩

theorem IsTime.valid {t : DT} (h : IsTime t) : t.Valid := by
  obtain ⟨y, m, d, u, z⟩ := t
  obtain ⟨rfl, rfl, rfl, h0, h1, hz⟩ := h
  have e : astro 2000 = 2000 := by decide
  refine ⟨by simp, ⟨by simp [absV], by simp [absV], by simp [absV], ?_, h0, ?_⟩, hz⟩
  · simp [absV, e, monthLen]
  · simpa [absV, Timeline.US, US] using h1

/-- the sum `2000-01-01T<time> + d` stays inside CPython's years 1..9999 (complement: finding F11o) -/
def TimeDomain (t : DT) (d : Int) : Prop :=
  -730119 * US ≤ t.us + d ∧ t.us + d < (MAXORD - 730119) * US
instance (t : DT) (d : Int) : Decidable (TimeDomain t d) := by unfold TimeDomain; exact inferInstance

theorem pyOrdUs_2000 (us : Int) : pyOrdUs 2000 1 1 us = 730120 * US + us := by
  unfold pyOrdUs
  have : pyYmd2ord 2000 1 1 = 730120 := by decide
  rw [this]

theorem timeAddUs_spec (t : DT) (d : Int) (ht : IsTime t) (hd : TimeDomain t d) :
    timeAddUs t d = .ok { t with us := (t.us + d) % US } := by
  obtain ⟨hy, hm, hdy, h0, h1, hz⟩ := ht
  unfold TimeDomain MAXORD at hd
  unfold timeAddUs
  rw [pyOrdUs_2000]
  have hq : (730120 * US + t.us + d) / US = 730120 + (t.us + d) / US ∧
      (730120 * US + t.us + d) % US = (t.us + d) % US := by simp only [US] at *; omega
  have hr : 1 ≤ (730120 * US + t.us + d) / US ∧ (730120 * US + t.us + d) / US ≤ MAXORD := by
    unfold MAXORD; simp only [US] at *; omega
  obtain ⟨y, m, dd, hok, _⟩ := pyOfOrdUs_ok _ hr
  rw [hok, hq.2]
  simp only []
  have hrem : 0 ≤ (t.us + d) % US ∧ (t.us + d) % US < US := by simp only [US]; omega
  rw [mkUs_ok 2000 1 1 _ t.tz (by decide) (by decide) (by decide) (by decide) hrem]
  obtain ⟨y', m', d', u', z'⟩ := t
  simp only at hy hm hdy
  subst hy hm hdy; rfl

theorem timeAddUs_err (t : DT) (d : Int) (ht : IsTime t) (hd : ¬ TimeDomain t d) :
    timeAddUs t d = .error .overflow := by
  obtain ⟨hy, hm, hdy, h0, h1, hz⟩ := ht
  unfold TimeDomain MAXORD at hd
  unfold timeAddUs
  rw [pyOrdUs_2000]
  have hr : ¬ (1 ≤ (730120 * US + t.us + d) / US ∧ (730120 * US + t.us + d) / US ≤ MAXORD) := by
    unfold MAXORD; simp only [US] at *; omega
  rw [pyOfOrdUs_err _ hr]

theorem isTime_setUs {t : DT} (ht : IsTime t) (u : Int) (h : 0 ≤ u ∧ u < US) : IsTime { t with us := u } :=
  ⟨ht.1, ht.2.1, ht.2.2.1, h.1, h.2, ht.2.2.2.2.2⟩

/-- `proxyKey` of a time: constant + the key on the reference day -/
theorem proxyKey_time (t : DT) (ht : IsTime t) : proxyKey t = 730120 * US + (absT t).key 0 := by
  obtain ⟨y, m, d, u, z⟩ := t
  obtain ⟨rfl, rfl, rfl, h0, h1, hz⟩ := ht
  have e : proxyYear 2000 = 2000 := by decide
  unfold proxyKey
  simp only [e]
  rw [pyOrdUs_2000]
  cases z <;> simp [absT, TVal.key, UM, Timeline.UM] <;> omega

theorem fillTz_time {t : DT} (ht : IsTime t) (itz : Option Int) (hi : TzOk itz) : IsTime (fillTz itz t) := by
  unfold fillTz
  obtain ⟨a, b, c, d, e, f⟩ := ht
  cases hz : t.tz <;> cases itz <;> simp only [] <;> first | exact ⟨a, b, c, d, e, f⟩ | skip
  exact ⟨a, b, c, d, e, hi⟩

theorem fillTz_valid {v : DT} (hv : v.Valid) (itz : Option Int) (hi : TzOk itz) : (fillTz itz v).Valid := by
  unfold fillTz
  cases hz : v.tz <;> cases itz <;> simp only [] <;> first | exact hv | skip
  exact valid_setTz hv _ hi

/-- instant of a filled value = instant under the implicit timezone -/
theorem instantC_fillTz (v : DT) (itz : Option Int) :
    (absV (fillTz itz v)).instantC = (absV v).instantI (itz.getD 0) := by
  obtain ⟨y, m, d, u, z⟩ := v
  unfold fillTz
  cases z <;> cases itz <;> simp [absV, Val.instantC, Val.instantI, Val.localC, Option.getD]

/-- the XPath comparison under a dynamic context = order of the instants under its implicit timezone -/
theorem compareCtx_spec (itz : Option Int) (op : Cmp) (a b : DT) (ha : a.Valid) (hb : b.Valid) (hi : TzOk itz)
    (hd : CmpDomain (fillTz itz a) (fillTz itz b)) :
    compareCtx itz op a b =
      op.op ((absV a).instantI (itz.getD 0))
            ((absV b).instantI (itz.getD 0)) := by
  unfold compareCtx
  rw [compare_spec op _ _ (fillTz_valid ha itz hi) (fillTz_valid hb itz hi) hd, instantC_fillTz, instantC_fillTz]

/-- times of day compare by their position on a common reference day -/
theorem compare_time (op : Cmp) (a b : DT) (ha : IsTime a) (hb : IsTime b) :
    compare op a b = op.op ((absT a).key 0) ((absT b).key 0) := by
  unfold compare
  rw [if_neg (by rw [ha.1, hb.1]; simp), proxyKey_time a ha, proxyKey_time b hb]
  have := Cmp.op_shift op ((absT a).key 0) ((absT b).key 0) (730120 * US)
  rw [← this]; congr 1 <;> omega

theorem gMk_spec (k : GKind) (year month day : Int) (tz : Option Int) (w : DT)
    (h : gMk k year month day tz = .ok w) :
    w.us = 0 ∧ w.tz = tz ∧
    (k = .gYear → w.month = 1 ∧ w.day = 1) ∧ (k = .gYearMonth → w.day = 1) ∧
    (k = .gMonth → w.year = 2000 ∧ w.day = 1) ∧ (k = .gMonthDay → w.year = 2000) ∧
    (k = .gDay → w.year = 2000 ∧ w.month = 1) := by
  have key : ∀ y m d, mk y m d 0 0 0 0 tz = .ok w → w.us = 0 ∧ w.tz = tz ∧ w.month = m ∧ w.day = d ∧ (y ≠ 0 → w.year = y) := by
    intro y m d hm
    unfold mk at hm
    simp only [show ((0 : Int) == 24) = false from by decide, Bool.false_and, Bool.false_eq_true, ↓reduceIte] at hm
    unfold mkCore at hm
    simp only [Bool.false_eq_true, ↓reduceIte] at hm
    split at hm
    · split at hm
      · cases hm
      · cases hm; exact ⟨rfl, rfl, rfl, rfl, fun _ => rfl⟩
    · split at hm
      · cases hm
      · split at hm
        · cases hm
        · split at hm
          · cases hm
          · cases hm; exact ⟨rfl, rfl, rfl, rfl, fun _ => rfl⟩
  cases k <;> simp only [gMk] at h <;> have := key _ _ _ h <;>
    simp only [reduceCtorEq, false_implies, true_implies, implies_true, and_true, true_and] <;>
    (first | exact ⟨this.1, this.2.1, this.2.2.1, this.2.2.2.1⟩ | exact ⟨this.1, this.2.1, this.2.2.2.1⟩
           | exact ⟨this.1, this.2.1, this.2.2.2.2 (by decide), this.2.2.2.1⟩
           | exact ⟨this.1, this.2.1, this.2.2.2.2 (by decide)⟩
           | exact ⟨this.1, this.2.1, this.2.2.2.2 (by decide), this.2.2.1⟩)

/-- the raw `_compare` (a value without timezone at UTC) agrees with the comparison under the implicit timezone
whenever that timezone cannot matter -/
theorem compare_raw_eq_ctx (itz : Int) (op : Cmp) (a b : DT) (ha : a.Valid) (hb : b.Valid) (hi : TzOk (some itz))
    (hd : CmpDomain a b) (hd' : CmpDomain (fillTz (some itz) a) (fillTz (some itz) b))
    (h : ImplicitTzIrrelevant a b itz) : compare op a b = compareCtx (some itz) op a b := by
  rw [compare_implicit op a b itz ha hb hd h, compareCtx_spec (some itz) op a b ha hb hi hd']
  rfl

end EPV.Cal

/-
C17 phase 5 (second item) helper lemmas: option `escape: true` on whole values.
`xml-to-json(json-to-xml(v, escape:true))` is the rendering of `v` whose string encoder is `gFull` (per character:
what `escape_json_string(escape_string(·), escaped)` writes), readable by the RFC 8259 reader (`EscOK`) and by the
repository's own `unescape_json_string` (duplicate test of the map branch).
-/
import EPV.Lemmas.JsonXml
import EPV.Lemmas.JsonEscapeOpt
import EPV.Model.JsonXmlEsc
set_option linter.unusedSectionVars false
namespace EPV.Json

/-- what the composition writes for one source character -/
def gFull (x : Nat) : Str := if x = 92 then [92, 92] else gChar x

theorem G_flatMap (s : Str) : G s = s.flatMap gFull := by
  fun_induction G s with
  | case1 => rfl
  | case2 t ih =>
    have e1 : gFull 92 = [92, 92] := by decide
    have e2 : gFull 47 = [92, 47] := by decide
    simp [List.flatMap_cons, e1, e2, ih]
  | case3 t h ih =>
    have e1 : gFull 92 = [92, 92] := by decide
    simp [List.flatMap_cons, e1, ih]
  | case4 x t h1 h2 ih =>
    have hx : x ≠ 92 := fun e => h2 e
    simp [List.flatMap_cons, gFull, hx, ih]

theorem escOK_gFull (x : Nat) (hs : isScalar x = true) : EscOK gFull x := by
  by_cases hx : x = 92
  · subst hx
    refine ⟨by decide, fun f rest => ?_⟩
    have e1 : gFull 92 = [92, 92] := by decide
    rw [e1]
    simp [parseStrF, simpleEscape?]
  · have : gFull x = gChar x := by simp [gFull, hx]
    rw [EscOK, this]
    exact escOK_gChar x hx hs

/-- the string / key branch of xml-to-json on a text written by json-to-xml with `escape: true` -/
theorem esc_string_eq (s : Str) (hs : ∀ c ∈ s, isScalar c = true) :
    ((j2xEscapeString s).contains 92 && !checkEscapes (j2xEscapeString s)) = false ∧
    escapeJsonString (j2xEscapeString s) ((j2xEscapeString s).contains 92) = s.flatMap gFull := by
  have h := (escape_option_string s hs).1
  unfold x2jStringEscaped at h
  by_cases hc : ((j2xEscapeString s).contains 92 && !checkEscapes (j2xEscapeString s)) = true
  · rw [if_pos hc] at h
    exact absurd h (by simp)
  · have hc' : ((j2xEscapeString s).contains 92 && !checkEscapes (j2xEscapeString s)) = false := by simpa using hc
    refine ⟨hc', ?_⟩
    rw [if_neg hc] at h
    have h2 : 34 :: (escapeJsonString (j2xEscapeString s) ((j2xEscapeString s).contains 92) ++ [34]) = 34 :: (G s ++ [34]) := by
      injection h
    have h3 := List.cons.inj h2
    rw [← G_flatMap]
    exact List.append_cancel_right h3.2

theorem hexRun_hex4U_all (x : Nat) (h : x < 65536) : hexRun? (hex4U x) = some x := by
  simp only [hexRun?, hex4U, List.foldl_cons, List.foldl_nil,
    hexVal_hexDigitU _ (Nat.mod_lt _ (by decide : 16 > 0))]
  congr 1
  omega

/-- one step of `unescape_json_string` reads the encoding of one character -/
def UnOK (enc : Nat → Str) (c : Nat) : Prop :=
  enc c ≠ [] ∧ ∀ f rest, unescapeF (f + 1) (enc c ++ rest) = (unescapeF f rest).map (c :: ·)

theorem unescapeF_flatMap (enc : Nat → Str) (s : Str) (h : ∀ c ∈ s, UnOK enc c) :
    ∀ f, s.length ≤ f → unescapeF f (s.flatMap enc) = some s := by
  induction s with
  | nil => intro f _; cases f <;> simp [unescapeF]
  | cons x t ih =>
    intro f hf
    obtain ⟨f', rfl⟩ : ∃ f', f = f' + 1 := ⟨f - 1, by simp at hf; omega⟩
    rw [List.flatMap_cons, (h x (by simp)).2 f' _, ih (fun c hc => h c (by simp [hc])) f' (by simp at hf; omega)]
    rfl

theorem unOK_gFull (x : Nat) (hs : isScalar x = true) : UnOK gFull x := by
  have form : (∃ e, gFull x = [92, e] ∧ simpleUnescape? e = some x) ∨ (gFull x = 92 :: 117 :: hex4U x ∧ x < 65536) ∨
      (gFull x = [x] ∧ x ≠ 92) := by
    by_cases h92 : x = 92
    · subst h92; exact Or.inl ⟨92, by decide⟩
    have hg : gFull x = gChar x := by simp [gFull, h92]
    rw [hg]
    by_cases h6 : x = 8 ∨ x = 13 ∨ x = 10 ∨ x = 9 ∨ x = 12 ∨ x = 47 ∨ x = 34
    · left
      rcases h6 with h | h | h | h | h | h | h <;> subst h
      · exact ⟨98, by decide⟩
      · exact ⟨114, by decide⟩
      · exact ⟨110, by decide⟩
      · exact ⟨116, by decide⟩
      · exact ⟨102, by decide⟩
      · exact ⟨47, by decide⟩
      · exact ⟨34, by decide⟩
    · have hn : x ≠ 8 ∧ x ≠ 13 ∧ x ≠ 10 ∧ x ≠ 9 ∧ x ≠ 12 ∧ x ≠ 47 ∧ x ≠ 34 := by omega
      by_cases hxml : isXmlCodepoint x = true
      · have he : gChar x = ctrlEscape x := by
          unfold gChar chainChar
          simp [hn, hxml]
        rw [he]
        unfold ctrlEscape
        by_cases hc : (1 ≤ x ∧ x ≤ 31) ∨ (127 ≤ x ∧ x ≤ 159)
        · right; left; simp [hc]; omega
        · right; right; simp [hc, h92]
      · have hxml' : isXmlCodepoint x = false := by simpa using hxml
        obtain ⟨hlt, _⟩ := nonxml_scalar_lt x hs hxml'
        right; left
        refine ⟨?_, hlt⟩
        unfold gChar
        simp [hn, hxml']
  rcases form with ⟨e, he, hd⟩ | ⟨he, hlt⟩ | ⟨he, hne⟩
  · refine ⟨by rw [he]; simp, fun f rest => ?_⟩
    rw [he]
    simp [unescapeF, escapeAt, hd]
  · refine ⟨by rw [he]; simp, fun f rest => ?_⟩
    rw [he]
    have hx : hexRun? (hex4U x) = some x := hexRun_hex4U_all x hlt
    have hl : (hex4U x).length = 4 := rfl
    have ht : List.take 4 (hex4U x ++ rest) = hex4U x := by
      rw [List.take_append_of_le_length (by simp [hl])]; exact List.take_of_length_le (by simp [hl])
    have hd : List.drop 4 (hex4U x ++ rest) = rest := by
      rw [List.drop_append_of_le_length (by simp [hl])]; simp [List.drop_of_length_le, hl]
    have hlen : ¬ (hex4U x ++ rest).length < 4 := by
      simp only [List.length_append, hl]; omega
    simp only [unescapeF, List.cons_append, if_true, escapeAt]
    simp only [simpleUnescape?, hlen, ht, hd, hx]
    simp
  · refine ⟨by rw [he]; simp, fun f rest => ?_⟩
    rw [he]
    simp [unescapeF, hne]

/-- `unescape_json_string` reads the written key back to the source key -/
theorem unescape_gFull (s : Str) (hs : ∀ c ∈ s, isScalar c = true) :
    unescapeJsonString (s.flatMap gFull) = some s := by
  unfold unescapeJsonString
  exact unescapeF_flatMap gFull s (fun c hc => unOK_gFull c (hs c hc)) _
    (length_le_flatMap gFull s (fun c hc => (unOK_gFull c (hs c hc)).1))

/-! ### whole values -/

mutual
/-- JSON values as json-to-xml sees them: strings and keys of XML characters, distinct keys in every
object, doubles in normal form (any integers, any doubles) -/
def JValue.escDom : JValue → Bool
  | .str s => s.all isScalar
  | .dbl d => wfDec d
  | .arr l => escDomL l
  | .obj m => escDomM [] m
  | _ => true
def escDomL : List JValue → Bool
  | [] => true
  | v :: t => v.escDom && escDomL t
def escDomM (seen : List Str) : List (Str × JValue) → Bool
  | [] => true
  | (k, v) :: t => k.all isScalar && !(seen.contains k) && v.escDom && escDomM (k :: seen) t
end

section
variable (rnd : Dec → Dec)

mutual
theorem x2jE_value : ∀ (v : JValue), v.escDom = true → ∀ (key : Option Str) (ek : Bool),
    ∃ tag es text ch, toElemE .retain key ek v = .ok (.mk tag key ek es text ch) ∧
      elemToJsonE rnd (.mk tag key ek es text ch) = .ok (renderG gFull (x2jI rnd) (x2jD rnd) v)
  | .null, _, key, ek => ⟨.null, false, none, [], rfl, rfl⟩
  | .bool true, _, key, ek => ⟨.boolean, false, _, [], rfl, by simp [elemToJsonE, renderG]⟩
  | .bool false, _, key, ek => ⟨.boolean, false, _, [], rfl, by simp [elemToJsonE, renderG]⟩
  | .int n, h, key, ek => by
    refine ⟨.number, false, some (renderInt n), [], rfl, ?_⟩
    have hp : parseNum (renderInt n) = some (.int n, []) := by
      have := parseNum_renderInt n [] trivial
      simpa using this
    simp only [elemToJsonE, Option.getD_some, renderG, numberOfText, hp, x2jI]
  | .dbl d, h, key, ek => by
    refine ⟨.number, false, some (reprDouble d), [], rfl, ?_⟩
    have hp : parseNum (reprDouble d) = some (.dbl d, []) := by
      have := (numOK_reprDouble d (by simpa [JValue.escDom] using h)).2 [] trivial
      simpa using this
    simp only [elemToJsonE, Option.getD_some, renderG, numberOfText, hp, x2jD]
  | .str s, h, key, ek => by
    have hx : ∀ c ∈ s, isScalar c = true := by
      have : s.all isScalar = true := by simpa [JValue.escDom] using h
      exact fun c hc => List.all_eq_true.mp this c hc
    obtain ⟨h1, h2⟩ := esc_string_eq s hx
    refine ⟨.string, (j2xEscapeString s).contains 92, some (j2xEscapeString s), [], rfl, ?_⟩
    simp only [elemToJsonE, List.isEmpty_nil, Bool.not_true, Bool.false_eq_true, if_false, Option.getD_some, h1, h2, renderG]
  | .arr l, h, key, ek => by
    obtain ⟨es, h1, h2⟩ := x2jE_list l (by simpa [JValue.escDom] using h)
    refine ⟨.array, false, none, es, by simp [toElemE, h1, Except.map], ?_⟩
    simp only [elemToJsonE, h2, bind, Except.bind, pure, Except.pure, renderG]
    rw [← joinComma_renderGL]
  | .obj m, h, key, ek => by
    obtain ⟨es, h1, h2⟩ := x2jE_members m [] (by simpa [JValue.escDom] using h)
    refine ⟨.map, false, none, es, by simp [toElemE, h1, Except.map], ?_⟩
    simp only [elemToJsonE, h2, bind, Except.bind, pure, Except.pure, renderG]
    rw [← joinComma_renderGM]
theorem x2jE_list : ∀ (l : List JValue), escDomL l = true →
    ∃ es, toElemEL .retain l = .ok es ∧
      elemsToJsonE rnd es = .ok (l.map (renderG gFull (x2jI rnd) (x2jD rnd)))
  | [], _ => ⟨[], rfl, rfl⟩
  | v :: t, h => by
    have hh : v.escDom = true ∧ escDomL t = true := by simpa [escDomL] using h
    obtain ⟨tag, fl, text, ch, h1, h2⟩ := x2jE_value v hh.1 none false
    obtain ⟨es, h3, h4⟩ := x2jE_list t hh.2
    refine ⟨.mk tag none false fl text ch :: es, by simp [toElemEL, h1, h3, bind, Except.bind, pure, Except.pure], ?_⟩
    simp [elemsToJsonE, h2, h4, bind, Except.bind, pure, Except.pure]
theorem x2jE_members : ∀ (m : List (Str × JValue)) (seen : List Str), escDomM seen m = true →
    ∃ es, toElemEM .retain seen m = .ok es ∧
      membersToJsonE rnd seen es = .ok (m.map (memberTextG gFull (x2jI rnd) (x2jD rnd)))
  | [], _, _ => ⟨[], rfl, rfl⟩
  | (k, v) :: t, seen, h => by
    have hh : ((k.all isScalar = true ∧ seen.contains k = false) ∧ v.escDom = true) ∧
        escDomM (k :: seen) t = true := by simpa [escDomM] using h
    obtain ⟨⟨⟨hk, hs⟩, hv⟩, ht⟩ := hh
    have hks : k ∉ seen := by simpa using hs
    have hkx : ∀ c ∈ k, isScalar c = true := fun c hc => List.all_eq_true.mp hk c hc
    obtain ⟨hc1, hc2⟩ := esc_string_eq k hkx
    obtain ⟨tag, fl, text, ch, h1, h2⟩ := x2jE_value v hv (some (j2xEscapeString k)) ((j2xEscapeString k).contains 92)
    obtain ⟨es, h3, h4⟩ := x2jE_members t (k :: seen) ht
    have hun := unescape_gFull k hkx
    refine ⟨.mk tag (some (j2xEscapeString k)) ((j2xEscapeString k).contains 92) fl text ch :: es, ?_, ?_⟩
    · simp only [toElemEM, if_neg hks, h1, h3, bind, Except.bind, pure, Except.pure]
    · simp only [membersToJsonE, hc1, Bool.false_eq_true, if_false, hc2, h2, bind, Except.bind, pure, Except.pure,
        List.map_cons, memberTextG]
      simp only [hun, hks, if_false, h4]
end

/-- xml-to-json(json-to-xml(v, escape:true)) is the rendering of `v` with `gFull` as string encoder and the
stripped `str(float(·))` texts as number tokens -/
theorem x2jE_render (v : JValue) (h : v.escDom = true) :
    (jsonToXmlEsc v).bind (xmlToJsonE rnd) = .ok (renderG gFull (x2jI rnd) (x2jD rnd) v) := by
  obtain ⟨tag, fl, text, ch, h1, h2⟩ := x2jE_value rnd v h none false
  simp [jsonToXmlEsc, xmlToJsonE, h1, h2, Except.bind]

mutual
theorem renderG_fixedE : ∀ v : JValue, v.numsFixed rnd →
    renderG gFull (x2jI rnd) (x2jD rnd) v = renderG gFull (x2jI id) (x2jD id) v
  | .null, _ => rfl
  | .bool true, _ => rfl
  | .bool false, _ => rfl
  | .int n, h => by
    have h' : rnd (denInt n) = denInt n := h
    simp only [renderG, x2jI, h', id]
  | .dbl d, h => by
    have h' : rnd d = d := h
    simp only [renderG, x2jD, h', id]
  | .str _, _ => rfl
  | .arr l, h => by
    simp only [renderG]
    rw [renderGL_fixedE l h]
  | .obj m, h => by
    simp only [renderG]
    rw [renderGM_fixedE m h]
theorem renderGL_fixedE : ∀ l : List JValue, numsFixedL rnd l →
    renderGL gFull (x2jI rnd) (x2jD rnd) l = renderGL gFull (x2jI id) (x2jD id) l
  | [], _ => rfl
  | [v], h => by
    simp only [renderGL]
    rw [renderG_fixedE v h.1]
  | v :: w :: t, h => by
    have := renderGL_fixedE (w :: t) h.2
    simp only [renderGL] at this ⊢
    rw [renderG_fixedE v h.1, this]
theorem renderGM_fixedE : ∀ m : List (Str × JValue), numsFixedM rnd m →
    renderGM gFull (x2jI rnd) (x2jD rnd) m = renderGM gFull (x2jI id) (x2jD id) m
  | [], _ => rfl
  | [(k, v)], h => by
    simp only [renderGM]
    rw [renderG_fixedE v h.1]
  | (k, v) :: w :: t, h => by
    have := renderGM_fixedE (w :: t) h.2
    simp only [renderGM] at this ⊢
    rw [renderG_fixedE v h.1, this]
end

end

mutual
theorem escDom_valid : ∀ v : JValue, v.escDom = true → v.validWith isScalar wfDec = true
  | .null, _ => rfl
  | .bool _, _ => rfl
  | .int _, _ => rfl
  | .dbl d, h => by simpa [JValue.escDom, JValue.validWith] using h
  | .str s, h => by simpa [JValue.escDom, JValue.validWith] using h
  | .arr l, h => by
    simp only [JValue.validWith]
    exact escDomL_valid l (by simpa [JValue.escDom] using h)
  | .obj m, h => by
    simp only [JValue.validWith]
    exact escDomM_valid m [] (by simpa [JValue.escDom] using h)
theorem escDomL_valid : ∀ l : List JValue, escDomL l = true → validL isScalar wfDec l = true
  | [], _ => rfl
  | v :: t, h => by
    have hh : v.escDom = true ∧ escDomL t = true := by simpa [escDomL] using h
    simp [validL, escDom_valid v hh.1, escDomL_valid t hh.2]
theorem escDomM_valid : ∀ (m : List (Str × JValue)) (seen : List Str), escDomM seen m = true →
    validM isScalar wfDec m = true
  | [], _, _ => rfl
  | (k, v) :: t, seen, h => by
    have hh : ((k.all isScalar = true ∧ seen.contains k = false) ∧ v.escDom = true) ∧
        escDomM (k :: seen) t = true := by simpa [escDomM] using h
    simp only [validM, Bool.and_eq_true]
    exact ⟨⟨hh.1.1.1, escDom_valid v hh.1.2⟩, escDomM_valid t (k :: seen) hh.2⟩
end

mutual
theorem same_mapNumE : ∀ v : JValue, v.escDom = true →
    SameValue v (mapNum (fun n => x2jVal (denInt n)) x2jVal v)
  | .null, _ => .null
  | .bool b, _ => .bool b
  | .str s, _ => .str s
  | .int n, _ => by
    obtain ⟨b, hb, hs⟩ := sameNum_int n
    exact .num (v := .int n) rfl (by simpa [mapNum] using hb) hs
  | .dbl d, h => by
    obtain ⟨a, b, ha, hb, hs⟩ := sameNum_x2jVal d (by simpa [JValue.escDom] using h)
    exact .num ha (by simpa [mapNum] using hb) hs
  | .arr l, h => by
    simp only [mapNum]
    exact .arr (same_mapNumEEL l (by simpa [JValue.escDom] using h))
  | .obj m, h => by
    simp only [mapNum]
    exact .obj (same_mapNumEEM m [] (by simpa [JValue.escDom] using h))
theorem same_mapNumEEL : ∀ l : List JValue, escDomL l = true →
    SameL l (mapNumL (fun n => x2jVal (denInt n)) x2jVal l)
  | [], _ => .nil
  | v :: t, h => by
    have hh : v.escDom = true ∧ escDomL t = true := by simpa [escDomL] using h
    simp only [mapNumL]
    exact .cons (same_mapNumE v hh.1) (same_mapNumEEL t hh.2)
theorem same_mapNumEEM : ∀ (m : List (Str × JValue)) (seen : List Str), escDomM seen m = true →
    SameM m (mapNumM (fun n => x2jVal (denInt n)) x2jVal m)
  | [], _, _ => .nil
  | (k, v) :: t, seen, h => by
    have hh : ((k.all isScalar = true ∧ seen.contains k = false) ∧ v.escDom = true) ∧
        escDomM (k :: seen) t = true := by simpa [escDomM] using h
    simp only [mapNumM]
    exact .cons (same_mapNumE v hh.1.2) (same_mapNumEEM t (k :: seen) hh.2)
end

theorem isScalar_of_xml (c : Nat) (h : isXmlCodepoint c = true) : isScalar c = true := by
  simp only [isXmlCodepoint, Bool.or_eq_true, beq_iff_eq, Bool.and_eq_true, decide_eq_true_eq] at h
  simp only [isScalar, Bool.and_eq_true, decide_eq_true_eq, Bool.not_eq_true', Bool.and_eq_false_iff, decide_eq_false_iff_not]
  omega

theorem all_scalar_of_xml (s : Str) (h : s.all isXmlCodepoint = true) : s.all isScalar = true :=
  List.all_eq_true.mpr fun c hc => isScalar_of_xml c (List.all_eq_true.mp h c hc)

mutual
theorem escDom_of_x2jDom : ∀ v : JValue, v.x2jDom = true → v.escDom = true
  | .null, _ => rfl
  | .bool _, _ => rfl
  | .int _, _ => rfl
  | .dbl d, h => by simpa [JValue.x2jDom, JValue.escDom] using h
  | .str s, h => by
    simp only [JValue.escDom]
    exact all_scalar_of_xml s (by simpa [JValue.x2jDom] using h)
  | .arr l, h => by
    simp only [JValue.escDom]
    exact escDomL_of_x2jDomL l (by simpa [JValue.x2jDom] using h)
  | .obj m, h => by
    simp only [JValue.escDom]
    exact escDomM_of_x2jDomM m [] (by simpa [JValue.x2jDom] using h)
theorem escDomL_of_x2jDomL : ∀ l : List JValue, x2jDomL l = true → escDomL l = true
  | [], _ => rfl
  | v :: t, h => by
    have hh : v.x2jDom = true ∧ x2jDomL t = true := by simpa [x2jDomL] using h
    simp [escDomL, escDom_of_x2jDom v hh.1, escDomL_of_x2jDomL t hh.2]
theorem escDomM_of_x2jDomM : ∀ (m : List (Str × JValue)) (seen : List Str), x2jDomM seen m = true → escDomM seen m = true
  | [], _, _ => rfl
  | (k, v) :: t, seen, h => by
    have hh : ((k.all isXmlCodepoint = true ∧ seen.contains k = false) ∧ v.x2jDom = true) ∧
        x2jDomM (k :: seen) t = true := by simpa [x2jDomM] using h
    simp only [escDomM, Bool.and_eq_true]
    exact ⟨⟨⟨all_scalar_of_xml k hh.1.1.1, by simpa using hh.1.1.2⟩, escDom_of_x2jDom v hh.1.2⟩, escDomM_of_x2jDomM t (k :: seen) hh.2⟩
end

end EPV.Json

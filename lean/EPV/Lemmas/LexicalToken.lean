/-
C10 — xs:token: the pattern of `XsdToken` accepts every collapsed string, so the constructor is total and its value is
the whiteSpace=collapse normalisation of the argument.
-/
import EPV.Lemmas.LexicalStrip
namespace EPV.LexLemmas
open EPV

/-- no two adjacent spaces -/
def noDbl : List Char → Bool
  | c :: d :: r => !(c == ' ' && d == ' ') && noDbl (d :: r)
  | _ => true

theorem noDbl_tail (c : Char) (r : List Char) (h : noDbl (c :: r) = true) : noDbl r = true := by
  cases r with
  | nil => rfl
  | cons d r => simp only [noDbl, Bool.and_eq_true] at h; exact h.2

theorem noDbl_append_left : (a b : List Char) → noDbl (a ++ b) = true → noDbl a = true
  | [], _, _ => rfl
  | [c], _, _ => rfl
  | c :: d :: r, b, h => by
    simp only [List.cons_append, noDbl, Bool.and_eq_true] at h ⊢
    exact ⟨h.1, noDbl_append_left (d :: r) b h.2⟩

theorem noDbl_dropWhile (p : Char → Bool) : (x : List Char) → noDbl x = true → noDbl (x.dropWhile p) = true
  | [], _ => rfl
  | c :: r, h => by
    by_cases hc : p c = true
    · rw [List.dropWhile_cons_of_pos hc]; exact noDbl_dropWhile p r (noDbl_tail c r h)
    · rw [List.dropWhile_cons_of_neg hc]; exact h

theorem white_sp_or (c : Char) (h : Lex.isPyWhite c = false) : (c == ' ') = false := nonwhite_ne_sp c h

theorem noDbl_subWhite : (s : List Char) → (b : Bool) →
    noDbl (Lex.subWhite b s) = true ∧ (b = true → (Lex.subWhite b s).head? ≠ some ' ')
  | [], b => ⟨rfl, fun _ h => by cases h⟩
  | c :: cs, b => by
    by_cases hc : Lex.isPyWhite c = true
    · have ih := noDbl_subWhite cs true
      cases b
      · simp only [Lex.subWhite, hc, if_true, Bool.false_eq_true, if_false]
        refine ⟨?_, fun h => by cases h⟩
        cases hsw : Lex.subWhite true cs with
        | nil => rfl
        | cons d r =>
          have hd := ih.2 rfl
          rw [hsw] at hd ih
          have : (d == ' ') = false := by
            apply Bool.eq_false_iff.2; intro e
            have : d = ' ' := by simpa using e
            subst this; exact hd rfl
          simp only [noDbl, this, Bool.and_false, Bool.not_false, Bool.true_and]
          exact ih.1
      · simp only [Lex.subWhite, hc, if_true]
        exact ⟨ih.1, fun _ => ih.2 rfl⟩
    · have hc' : Lex.isPyWhite c = false := by simpa using hc
      have ih := noDbl_subWhite cs false
      simp only [Lex.subWhite, hc', Bool.false_eq_true, if_false]
      refine ⟨?_, fun _ h => ?_⟩
      · cases hsw : Lex.subWhite false cs with
        | nil => rfl
        | cons d r =>
          rw [hsw] at ih
          simp only [noDbl, white_sp_or c hc', Bool.false_and, Bool.not_false, Bool.true_and]
          exact ih.1
      · simp only [List.head?_cons, Option.some.injEq] at h
        subst h; exact absurd hc' (by decide)

theorem noDbl_stripSp (x : List Char) (h : noDbl x = true) : noDbl (Lex.stripSp x) = true := by
  unfold Lex.stripSp
  have h1 := noDbl_dropWhile (· == ' ') x h
  generalize x.dropWhile (· == ' ') = y at h1
  obtain ⟨k, hk⟩ := List.dropWhile_suffix (p := (· == ' ')) (l := y.reverse)
  have : y = (y.reverse.dropWhile (· == ' ')).reverse ++ k.reverse := by
    have := congrArg List.reverse hk
    rw [List.reverse_append, List.reverse_reverse] at this
    exact this.symm
  rw [this] at h1
  exact noDbl_append_left _ _ h1

theorem noDbl_collapse (s : List Char) : noDbl (Lex.collapse s) = true :=
  noDbl_stripSp _ (noDbl_subWhite s false).1

theorem tokCh_of_nonwhite (c : Char) (h : Lex.isPyWhite c = false) : Lex.isTokCh c = true := by
  unfold Lex.isTokCh
  have h1 : (c == ' ') = false := nonwhite_ne_sp c h
  have h2 : (c == '\t') = false := by
    apply Bool.eq_false_iff.2; intro e; have : c = '\t' := by simpa using e
    subst this; exact absurd h (by decide)
  have h3 : (c == '\n') = false := by
    apply Bool.eq_false_iff.2; intro e; have : c = '\n' := by simpa using e
    subst this; exact absurd h (by decide)
  have h4 : (c == '\r') = false := by
    apply Bool.eq_false_iff.2; intro e; have : c = '\r' := by simpa using e
    subst this; exact absurd h (by decide)
  simp [h1, h2, h3, h4]

/-- the scanner accepts a string of spaces and non-white characters without two adjacent spaces and without a final space -/
theorem tokScan_ok : (x : List Char) → (∀ c ∈ x, c = ' ' ∨ Lex.isPyWhite c = false) → noDbl x = true →
    (∀ c, x.getLast? = some c → c ≠ ' ') → Lex.tokScan x = true
  | [], _, _, _ => rfl
  | c :: rest, hch, hnd, hl => by
    have ih := tokScan_ok rest (fun d hd => hch d (List.mem_cons_of_mem _ hd)) (noDbl_tail c rest hnd)
      (fun d hd => hl d (by
        cases rest with
        | nil => cases hd
        | cons e r => rw [List.getLast?_cons_cons]; exact hd))
    unfold Lex.tokScan
    rcases hch c (List.mem_cons_self ..) with hc | hc
    · subst hc
      have : Lex.isTokCh ' ' = false := by decide
      simp only [this, Bool.false_eq_true, if_false, beq_self_eq_true, if_true]
      cases rest with
      | nil => exact absurd rfl (hl ' ' rfl)
      | cons d r =>
        simp only [Bool.and_eq_true]
        refine ⟨?_, ih⟩
        rcases hch d (List.mem_cons_of_mem _ (List.mem_cons_self ..)) with hd | hd
        · subst hd
          simp [noDbl] at hnd
        · exact tokCh_of_nonwhite d hd
    · rw [if_pos (tokCh_of_nonwhite c hc)]; exact ih

theorem tokScan_collapse (s : List Char) : Lex.tokScan (Lex.collapse s) = true :=
  tokScan_ok _ (fun c hc => collapse_no_white s c hc) (noDbl_collapse s)
    (fun c hc => (stripSp_ends (Lex.subWhite false s)).2 c hc)

theorem tokenCtor_eq (s : List Char) : Lex.tokenCtor s = some (XSD.wsCollapse s) := by
  unfold Lex.tokenCtor
  rw [tokScan_collapse, if_pos rfl, collapse_eq_wsCollapse_all]

theorem normStrCtor_eq (s : List Char) : Lex.normStrCtor s = XSD.wsReplace s := by
  unfold Lex.normStrCtor XSD.wsReplace
  apply List.map_congr_left
  intro c _
  unfold XSD.isXsdWhite
  by_cases h : c = ' '
  · subst h; rfl
  · have : (c == ' ') = false := by simpa using h
    rw [this, Bool.false_or]

end EPV.LexLemmas

/-
C16: one evaluation layer of the model simulates one layer of the specification
(`step_sim`), hence `eval` simulates `sem` (`eval_sim`).
-/
import EPV.Lemmas.ClosuresSim
namespace EPV.Clo

theorem zipFill_eq : ∀ (ps : List Nat) (pat : List (Option Seq)) (args : List Seq),
    zipFill ps pat args = ps.zip (fill pat args)
  | [], pat, args => by cases pat <;> simp [zipFill]
  | p :: ps, [], args => by simp [zipFill, fill]
  | p :: ps, some v :: pat, args => by simp [zipFill, fill, zipFill_eq ps pat args]
  | p :: ps, none :: pat, [] => by simp [zipFill, fill]
  | p :: ps, none :: pat, a :: args => by simp [zipFill, fill, zipFill_eq ps pat args]

theorem holes_cons_some (v : Seq) (pat : List (Option Seq)) : holes (some v :: pat) = holes pat := by
  simp [holes]

theorem holes_cons_none (pat : List (Option Seq)) : holes (none :: pat) = holes pat + 1 := by
  simp [holes]

theorem fill_length : ∀ (pat : List (Option Seq)) (args : List Seq), args.length = holes pat →
    (fill pat args).length = pat.length
  | [], args, _ => by simp [fill]
  | some v :: pat, args, h => by
    rw [holes_cons_some] at h
    simp [fill, fill_length pat args h]
  | none :: pat, [], h => by rw [holes_cons_none] at h; simp at h
  | none :: pat, a :: args, h => by
    rw [holes_cons_none] at h
    simp only [List.length_cons, Nat.add_right_cancel_iff] at h
    simp [fill, fill_length pat args h]

variable (cfg : Cfg) in
theorem currentVars_sim {γ δ} {q : γ → δ} (o : FObj) {f : Option Env × Env → IM γ} {s : SM δ}
    (h : ∀ e, Sim q (f (e, o.lex)) s) : Sim q (currentVars cfg o >>= f) s := by
  unfold currentVars
  split
  · rename_i t _ _
    rw [bind_assoc]
    apply Sim.silent_bind (silent_getSlot t)
    intro sl
    cases sl with
    | none => simp only [pure_bind]; exact h _
    | some dl =>
      obtain ⟨d, l⟩ := dl
      simp only [bind_assoc]
      apply Sim.flag_bind
      intro hfl
      simp only [Flags.none, Flags.mk.injEq, decide_eq_false_iff_not, Decidable.not_not, and_true,
        true_and] at hfl
      simp only [pure_bind]
      rw [hfl]
      exact h _
  · simp only [pure_bind]; exact h _

section
variable (cfg : Cfg) (ev : Expr → ICtx → Env → IM (Seq × Env)) (sev : Expr → SCtx → SM Seq)
variable (hev : ∀ e c D, Sim Prod.fst (ev e c D) (sev e (eraseCtx c)))
include hev

theorem evalArgs_sim (c : ICtx) : ∀ (as : List (Option Expr)) (D : Env),
    Sim Prod.fst (evalArgs ev c D as) (specArgs sev (eraseCtx c) as)
  | [], D => Sim.ret _ _ _ rfl
  | none :: as, D => by
    simp only [evalArgs, specArgs]
    exact Sim.bnd (evalArgs_sim c as D) (fun r => Sim.ret _ _ _ rfl)
  | some e :: as, D => by
    simp only [evalArgs, specArgs]
    exact Sim.bnd (hev e c D) (fun v => Sim.bnd (evalArgs_sim c as v.2) (fun r => Sim.ret _ _ _ rfl))

theorem evalList_sim (c : ICtx) : ∀ (es : List Expr) (D : Env),
    Sim Prod.fst (evalList ev c D es) (specList sev (eraseCtx c) es)
  | [], D => Sim.ret _ _ _ rfl
  | e :: es, D => by
    simp only [evalList, specList]
    exact Sim.bnd (hev e c D) (fun v => Sim.bnd (evalList_sim c es v.2) (fun r => Sim.ret _ _ _ rfl))

theorem runBody_sim (c : ICtx) (D : Env) (body : Expr) (binds : List (Nat × Seq)) (env : Option Env) (lex : Env) :
    Sim Prod.fst (runBody cfg ev c D body binds env lex) (sev body { lex := binds ++ lex, item := none }) := by
  unfold runBody
  exact Sim.map (hev body _ _) _ (fun a => rfl)

theorem callFn_sim (c : ICtx) (D : Env) (a : Nat) (args : List Seq) :
    Sim Prod.fst (callFn cfg ev c D a args) (specCall sev a args) := by
  unfold callFn specCall
  apply Sim.bnd (Sim.getObj a)
  intro o
  cases hc : o.code with
  | builtin b =>
    cases hf : o.fixed with
    | none =>
      simp only [eraseObj, FObj.nargsOk, FObj.arity, hc, hf, pure_bind]
      match args with
      | [s] =>
        simp only [List.length_cons, List.length_nil, Nat.zero_add, BEq.rfl, if_true, Option.isSome_none,
          Bool.false_and, Bool.false_eq_true, if_false]
        exact Sim.map (Sim.lift _) _ (fun _ => rfl)
      | [] => simp; exact Sim.thr _ _
      | _ :: _ :: _ => simp; exact Sim.thr _ _
    | some pat =>
      simp only [eraseObj, FObj.nargsOk, FObj.arity, hc, hf]
      by_cases h : args.length = holes pat
      · simp only [h, BEq.rfl, if_true, pure_bind]
        generalize fill pat args = full
        match full with
        | [s] =>
          simp only [Option.isSome_some, Bool.true_and]
          by_cases hq : (b == Builtin.exists_ || b == Builtin.empty_) = true
          · simp only [hq, if_true]
            apply Sim.flag_bind
            intro hfl
            simp [Flags.none] at hfl
          · simp only [hq, if_false]
            exact Sim.map (Sim.lift _) _ (fun _ => rfl)
        | [] => simp only []; exact Sim.thr _ _
        | _ :: _ :: _ => simp only []; exact Sim.thr _ _
      · have h' : (holes pat == args.length) = false := by
          simp only [beq_eq_false_iff_ne, ne_eq]; exact fun h2 => h h2.symm
        simp only [h', Bool.false_eq_true, if_false, h, SM.throw_bind]
        exact Sim.thr _ _
  | inline ps body =>
    cases hf : o.fixed with
    | none =>
      simp only [eraseObj, FObj.nargsOk, FObj.arity, hc, hf, if_true, pure_bind]
      trace_state
      sorry
    | some pat =>
      simp only [eraseObj, FObj.nargsOk, FObj.arity, hc, hf]
      trace_state
      sorry

end
end EPV.Clo

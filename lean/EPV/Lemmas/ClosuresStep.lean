/-
C16: one evaluation layer of the model simulates one layer of the specification
(`step_sim`), hence `eval` simulates `sem` (`eval_sim`).
-/
import EPV.Lemmas.ClosuresSim
import EPV.Lemmas.ClosuresSort
namespace EPV.Clo

theorem zipFill_eq : ∀ (ps : List Nat) (pat : List (Option Seq)) (args : List Seq),
    zipFill ps pat args = ps.zip (fill pat args)
  | [], pat, args => by cases pat <;> simp [zipFill]
  | p :: ps, [], args => by simp [zipFill, fill]
  | p :: ps, some v :: pat, args => by simp [zipFill, fill, zipFill_eq ps pat args]
  | p :: ps, none :: pat, [] => by simp [zipFill, fill]
  | p :: ps, none :: pat, a :: args => by simp [zipFill, fill, zipFill_eq ps pat args]

theorem holes_cons_some (v : Seq) (pat : List (Option Seq)) : holes (some v :: pat) = holes pat := by
  simp [holes]

theorem holes_cons_none (pat : List (Option Seq)) : holes (none :: pat) = holes pat + 1 := by
  simp [holes]

theorem fill_length : ∀ (pat : List (Option Seq)) (args : List Seq), args.length = holes pat →
    (fill pat args).length = pat.length
  | [], args, _ => by simp [fill]
  | some v :: pat, args, h => by
    rw [holes_cons_some] at h
    simp [fill, fill_length pat args h]
  | none :: pat, [], h => by rw [holes_cons_none] at h; simp at h
  | none :: pat, a :: args, h => by
    rw [holes_cons_none] at h
    simp only [List.length_cons, Nat.add_right_cancel_iff] at h
    simp [fill, fill_length pat args h]

variable (cfg : Cfg) in
theorem currentVars_sim {γ δ} {q : γ → δ} (o : FObj) {f : Option Env × Env → IM γ} {s : SM δ}
    (h : ∀ e, Sim q (f (e, o.lex)) s) : Sim q (currentVars cfg o >>= f) s := by
  unfold currentVars
  split
  · rename_i t _ _
    rw [bind_assoc]
    apply Sim.silent_bind (silent_getSlot t)
    intro sl
    cases sl with
    | none => simp only [pure_bind]; exact h _
    | some dl =>
      obtain ⟨d, l⟩ := dl
      simp only [bind_assoc]
      apply Sim.flag_bind
      intro hfl
      simp only [Flags.none, Flags.mk.injEq, decide_eq_false_iff_not, Decidable.not_not, and_true,
        true_and] at hfl
      simp only [pure_bind]
      rw [hfl]
      exact h _
  · simp only [pure_bind]; exact h _

section
variable (cfg : Cfg) (ev : Expr → ICtx → Env → IM (Seq × Env)) (sev : Expr → SCtx → SM Seq)
variable (hev : ∀ e c D, Sim Prod.fst (ev e c D) (sev e (eraseCtx c)))
include hev

theorem evalArgs_sim (c : ICtx) : ∀ (as : List (Option Expr)) (D : Env),
    Sim Prod.fst (evalArgs ev c D as) (specArgs sev (eraseCtx c) as)
  | [], D => Sim.ret _ _ _ rfl
  | none :: as, D => by
    simp only [evalArgs, specArgs]
    exact Sim.bnd (evalArgs_sim c as D) (fun r => Sim.ret _ _ _ rfl)
  | some e :: as, D => by
    simp only [evalArgs, specArgs]
    exact Sim.bnd (hev e c D) (fun v => Sim.bnd (evalArgs_sim c as v.2) (fun r => Sim.ret _ _ _ rfl))

theorem evalList_sim (c : ICtx) : ∀ (es : List Expr) (D : Env),
    Sim Prod.fst (evalList ev c D es) (specList sev (eraseCtx c) es)
  | [], D => Sim.ret _ _ _ rfl
  | e :: es, D => by
    simp only [evalList, specList]
    exact Sim.bnd (hev e c D) (fun v => Sim.bnd (evalList_sim c es v.2) (fun r => Sim.ret _ _ _ rfl))

omit hev in
/-- the evaluation of a named function in the context its reference captured -/
theorem builtin_call_sim (o : FObj) (b : Builtin) (full : List Seq) (D : Env) :
    Sim Prod.fst
      (do let r ← IM.lift (b.apF (o.fitem, o.fpos, o.fsize) full)
          pure (r, D))
      (SM.lift (b.apF (eraseObj o).focus full)) := by
  have hfoc : b.apF (o.fitem, o.fpos, o.fsize) full = b.apF (eraseObj o).focus full := by
    cases hb : b.focusDep with
    | false => simp [Builtin.apF, hb]
    | true => cases hli : o.fitem <;> cases full <;> simp [eraseObj, eraseFocus, Builtin.apF, hb, hli]
  rw [hfoc]
  exact Sim.map (Sim.lift _) _ (fun _ => rfl)

theorem runBody_sim (c : ICtx) (D : Env) (body : Expr) (binds : List (Nat × Seq)) (env : Option Env) (lex : Env) :
    Sim Prod.fst (runBody cfg ev c D body binds env lex) (sev body { lex := binds ++ lex, item := none }) := by
  unfold runBody
  exact Sim.map (hev body _ _) _ (fun a => rfl)

theorem typedBody_sim (c : ICtx) (D : Env) (body : Expr) (ps : List Nat) (sig : Option Sig)
    (full : List Seq) (env : Option Env) (lex : Env) :
    Sim Prod.fst
      (do let conv ← IM.lift (sigArgs sig full)
          let r ← runBody cfg ev c D body (ps.zip conv) env lex
          let v ← IM.lift (sigRes sig r.1)
          pure (v, r.2))
      (do let conv ← SM.lift (sigArgs sig full)
          let r ← sev body { lex := ps.zip conv ++ lex, item := none }
          SM.lift (sigRes sig r)) := by
  apply Sim.bnd (p := id) (Sim.lift _); intro conv
  apply Sim.bnd (runBody_sim cfg ev sev hev c D body _ _ _); intro r
  exact Sim.map (Sim.lift _) _ (fun _ => rfl)

theorem callFn_sim (c : ICtx) (D : Env) (a : Nat) (args : List Seq) :
    Sim Prod.fst (callFn cfg ev c D a args) (specCall sev a args) := by
  unfold callFn specCall
  apply Sim.bnd (Sim.getObj a)
  intro o
  cases hc : o.code with
  | builtin b =>
    cases hf : o.fixed with
    | none =>
      simp only [eraseObj, FObj.nargsOk, FObj.arity, hc, hf, pure_bind]
      by_cases h : args.length = b.arity
      · simp only [h, BEq.rfl, if_true]
        exact builtin_call_sim o b args D
      · have h' : (b.arity == args.length) = false := by
          simp only [beq_eq_false_iff_ne, ne_eq]; exact fun h2 => h h2.symm
        simp only [h', Bool.false_eq_true, if_false, h]
        exact Sim.thr _ _
    | some pat =>
      simp only [eraseObj, FObj.nargsOk, FObj.arity, hc, hf]
      by_cases h : args.length = holes pat
      · simp only [h, BEq.rfl, if_true, pure_bind]
        generalize fill pat args = full
        by_cases hl : full.length = b.arity
        · simp only [hl, if_true]
          exact builtin_call_sim o b full D
        · simp only [hl, if_false]
          exact Sim.thr _ _
      · have h' : (holes pat == args.length) = false := by
          simp only [beq_eq_false_iff_ne, ne_eq]; exact fun h2 => h h2.symm
        simp only [h', Bool.false_eq_true, if_false, h, SM.throw_bind]
        exact Sim.thr _ _
  | inline ps body =>
    cases hf : o.fixed with
    | none =>
      simp only [eraseObj, FObj.nargsOk, FObj.arity, hc, hf, pure_bind]
      by_cases h : args.length = ps.length
      · simp only [h, BEq.rfl, if_true]
        apply currentVars_sim
        intro e
        exact typedBody_sim cfg ev sev hev c D body ps o.sig args _ _
      · have h' : (ps.length == args.length) = false := by
          simp only [beq_eq_false_iff_ne, ne_eq]; exact fun h2 => h h2.symm
        simp only [h', Bool.false_eq_true, if_false, h]
        exact Sim.thr _ _
    | some pat =>
      simp only [eraseObj, FObj.nargsOk, FObj.arity, hc, hf]
      by_cases h : args.length = holes pat
      · simp only [h, BEq.rfl, if_true, pure_bind]
        apply currentVars_sim
        intro e
        apply Sim.flag_bind
        intro hfl
        simp only [Flags.none, Flags.mk.injEq, decide_eq_false_iff_not, Decidable.not_not, and_true,
          true_and] at hfl
        have hl : (fill pat args).length = ps.length := by rw [fill_length pat args h, hfl]
        simp only [hl, if_true]
        exact typedBody_sim cfg ev sev hev c D body ps o.sig (fill pat args) _ _
      · have h' : (holes pat == args.length) = false := by
          simp only [beq_eq_false_iff_ne, ne_eq]; exact fun h2 => h h2.symm
        simp only [h', Bool.false_eq_true, if_false, h, SM.throw_bind]
        exact Sim.thr _ _

omit hev in
theorem nargsOk_iff (o : FObj) (n : Nat) : o.nargsOk n = true ↔ n = o.arity := by
  unfold FObj.nargsOk
  simp only [beq_iff_eq]
  exact ⟨fun h => h.symm, fun h => h.symm⟩

theorem partialApply_sim (c : ICtx) (D : Env) (a : Nat) (args : List (Option Expr)) :
    Sim Prod.fst (partialApply cfg ev c D a args) (specPartial sev (eraseCtx c) a args) := by
  unfold partialApply specPartial
  apply Sim.bnd (Sim.getObj a)
  intro o
  by_cases h : args.length = (eraseObj o).arity
  · rw [if_pos ((nargsOk_iff o _).mpr h), if_pos h]
    apply currentVars_sim
    intro e
    apply Sim.bnd (evalArgs_sim ev sev hev c args D)
    intro r
    apply Sim.bnd (p := id) (Sim.lift _)
    intro pat'
    apply Sim.bnd (p := id) (Sim.alloc _)
    intro n
    exact Sim.ret _ _ _ rfl
  · rw [if_neg h, if_neg (fun hn => h ((nargsOk_iff o _).mp hn))]
    exact Sim.thr _ _

theorem funArgEval_sim (c : ICtx) (D : Env) (f : Expr) :
    Sim Prod.fst (funArgEval ev c D f) (do let v ← sev f (eraseCtx c); SM.single v) := by
  unfold funArgEval
  apply Sim.bnd (hev f c D)
  intro v
  exact Sim.map (Sim.single _) _ (fun _ => rfl)

omit hev in
theorem checkArity_bind_sim {γ δ} {q : γ → δ} (a n : Nat) {f : Unit → IM γ} {g : Nat → SM δ}
    (h : Sim q (f ()) (g a)) :
    Sim q (checkArity a n >>= f)
      ((do let o ← SM.getObj a; if o.arity = n then pure a else SM.throw .XPTY0004) >>= g) := by
  unfold checkArity
  simp only [bind_assoc]
  apply Sim.bnd (Sim.getObj a)
  intro o
  simp only [eraseObj_arity]
  by_cases hn : o.arity = n
  · simp only [hn, if_true, pure_bind]
    exact h
  · simp only [hn, if_false, SM.throw_bind]
    have : (IM.throw Err.XPTY0004 >>= f) = IM.throw Err.XPTY0004 := by funext st; rfl
    rw [this]
    exact Sim.thr _ _

theorem funArgCheck_sim (c : ICtx) (D : Env) (f : Expr) (n : Nat) :
    Sim Prod.fst (funArgCheck ev c D f n) (specFunArgN sev (eraseCtx c) f n) := by
  unfold funArgCheck specFunArgN specFunArg
  have h1 := funArgEval_sim ev sev hev c D f
  apply Sim.bnd h1
  intro fa
  have := checkArity_bind_sim (q := Prod.fst) fa.1 n (f := fun _ => pure fa) (g := pure)
    (Sim.ret _ _ _ rfl)
  rwa [bind_pure] at this

/-! ### loops -/

theorem forLoop_sim (c : ICtx) (x : Nat) (b : Expr) : ∀ (is : Seq) (D : Env) (acc : Seq),
    Sim Prod.fst (forLoop ev c x b D acc is)
      (specFor sev (eraseCtx c) x b is >>= fun rs => pure (acc ++ rs))
  | [], D, acc => by
    simp only [forLoop, specFor, pure_bind, List.append_nil]
    exact Sim.ret _ _ _ rfl
  | i :: is, D, acc => by
    simp only [forLoop, specFor, bind_assoc, pure_bind]
    apply Sim.bnd (hev b _ _)
    intro r
    have := forLoop_sim c x b is r.2 (acc ++ r.1)
    simpa only [List.append_assoc] using this

theorem mapLoop_sim (c : ICtx) (b : Expr) (size : Nat) : ∀ (is : Seq) (k : Nat) (D : Env) (acc : Seq),
    Sim Prod.fst (mapLoop ev c b size k D acc is)
      (specMap sev (eraseCtx c) b size k is >>= fun rs => pure (acc ++ rs))
  | [], k, D, acc => by
    simp only [mapLoop, specMap, pure_bind, List.append_nil]
    exact Sim.ret _ _ _ rfl
  | i :: is, k, D, acc => by
    simp only [mapLoop, specMap, bind_assoc, pure_bind]
    apply Sim.bnd (hev b _ _)
    intro r
    have := mapLoop_sim c b size is (k + 1) r.2 (acc ++ r.1)
    simpa only [List.append_assoc] using this

theorem hofForEach_sim (c : ICtx) (a : Nat) : ∀ (xs : Seq) (D : Env) (acc : Seq),
    Sim Prod.fst (hofForEach cfg ev c a D acc xs)
      (specForEach (specCall sev) a xs >>= fun rs => pure (acc ++ rs))
  | [], D, acc => by
    simp only [hofForEach, specForEach, pure_bind, List.append_nil]
    exact Sim.ret _ _ _ rfl
  | x :: xs, D, acc => by
    simp only [hofForEach, specForEach, bind_assoc, pure_bind]
    apply Sim.bnd (callFn_sim cfg ev sev hev c D a _)
    intro r
    have := hofForEach_sim c a xs r.2 (acc ++ r.1)
    simpa only [List.append_assoc] using this

theorem hofFilter_sim (c : ICtx) (a : Nat) : ∀ (xs : Seq) (D : Env) (acc : Seq),
    Sim Prod.fst (hofFilter cfg ev c a D acc xs)
      (specFilter (specCall sev) a xs >>= fun rs => pure (acc ++ rs))
  | [], D, acc => by
    simp only [hofFilter, specFilter, pure_bind, List.append_nil]
    exact Sim.ret _ _ _ rfl
  | x :: xs, D, acc => by
    simp only [hofFilter, specFilter, bind_assoc]
    apply Sim.bnd (callFn_sim cfg ev sev hev c D a _)
    intro r
    obtain ⟨r1, r2⟩ := r
    match r1 with
    | [.bool true] =>
      simp only [bind_assoc, pure_bind, if_true]
      have := hofFilter_sim c a xs r2 (acc ++ [x])
      simpa only [List.append_assoc, List.singleton_append] using this
    | [.bool false] =>
      simp only [bind_assoc, pure_bind, Bool.false_eq_true, if_false]
      exact hofFilter_sim c a xs r2 acc
    | [] => simp only [SM.throw_bind]; exact Sim.thr _ _
    | [.int _] => simp only [SM.throw_bind]; exact Sim.thr _ _
    | [.fn _] => simp only [SM.throw_bind]; exact Sim.thr _ _
    | [.dec _] => simp only [SM.throw_bind]; exact Sim.thr _ _
    | [.dbl _] => simp only [SM.throw_bind]; exact Sim.thr _ _
    | [.str _] => simp only [SM.throw_bind]; exact Sim.thr _ _
    | [.nan] => simp only [SM.throw_bind]; exact Sim.thr _ _
    | [.inf _] => simp only [SM.throw_bind]; exact Sim.thr _ _
    | [.negz] => simp only [SM.throw_bind]; exact Sim.thr _ _
    | _ :: _ :: _ => simp only [SM.throw_bind]; exact Sim.thr _ _

theorem hofFoldLeft_sim (c : ICtx) (a : Nat) : ∀ (xs : Seq) (D : Env) (res : Seq),
    Sim Prod.fst (hofFoldLeft cfg ev c a D res xs) (specFoldLeft (specCall sev) a res xs)
  | [], D, res => by
    simp only [hofFoldLeft, specFoldLeft]
    exact Sim.ret _ _ _ rfl
  | x :: xs, D, res => by
    simp only [hofFoldLeft, specFoldLeft]
    apply Sim.bnd (callFn_sim cfg ev sev hev c D a _)
    intro r
    exact hofFoldLeft_sim c a xs r.2 r.1

omit hev in
theorem specFoldRight_snoc (callf : Nat → List Seq → SM Seq) (a : Nat) (zero : Seq) (y : Item) :
    ∀ (l : Seq), specFoldRight callf a zero (l ++ [y]) =
      callf a [[y], zero] >>= fun r => specFoldRight callf a r l
  | [] => by simp [specFoldRight]
  | x :: l => by
    simp only [List.cons_append, specFoldRight, specFoldRight_snoc callf a zero y l, bind_assoc]

theorem hofFoldRightRev_sim (c : ICtx) (a : Nat) : ∀ (ys : Seq) (D : Env) (res : Seq),
    Sim Prod.fst (hofFoldRightRev cfg ev c a D res ys) (specFoldRight (specCall sev) a res ys.reverse)
  | [], D, res => by
    simp only [hofFoldRightRev, specFoldRight, List.reverse_nil]
    exact Sim.ret _ _ _ rfl
  | y :: ys, D, res => by
    simp only [hofFoldRightRev, List.reverse_cons, specFoldRight_snoc]
    apply Sim.bnd (callFn_sim cfg ev sev hev c D a _)
    intro r
    exact hofFoldRightRev_sim c a ys r.2 r.1

theorem hofPairs_sim (c : ICtx) (a : Nat) : ∀ (xs ys : Seq) (D : Env) (acc : Seq),
    Sim Prod.fst (hofPairs cfg ev c a D acc (xs.zip ys))
      (specForEachPair (specCall sev) a xs ys >>= fun rs => pure (acc ++ rs))
  | [], ys, D, acc => by
    simp only [List.zip_nil_left, hofPairs, specForEachPair, pure_bind, List.append_nil]
    exact Sim.ret _ _ _ rfl
  | x :: xs, [], D, acc => by
    simp only [List.zip_nil_right, hofPairs, specForEachPair, pure_bind, List.append_nil]
    exact Sim.ret _ _ _ rfl
  | x :: xs, y :: ys, D, acc => by
    simp only [List.zip_cons_cons, hofPairs, specForEachPair, bind_assoc, pure_bind]
    apply Sim.bnd (callFn_sim cfg ev sev hev c D a _)
    intro r
    have := hofPairs_sim c a xs ys r.2 (acc ++ r.1)
    simpa only [List.append_assoc] using this

theorem hofKeys_sim (ci : Bool) (c : ICtx) (a : Nat) : ∀ (xs : Seq) (D : Env) (acc : List (Item × List Int)),
    Sim Prod.fst (hofKeys cfg ev ci c a D acc xs)
      (specKeys (specCall sev) ci a xs >>= fun ks => pure (acc ++ ks))
  | [], D, acc => by
    simp only [hofKeys, specKeys, pure_bind, List.append_nil]
    exact Sim.ret _ _ _ rfl
  | x :: xs, D, acc => by
    simp only [hofKeys, specKeys, bind_assoc, pure_bind]
    apply Sim.bnd (callFn_sim cfg ev sev hev c D a _)
    intro r
    apply Sim.bnd (p := id) (Sim.lift _)
    intro k
    have := hofKeys_sim ci c a xs r.2 (acc ++ [(x, k)])
    simpa only [List.append_assoc, List.singleton_append, id] using this

/-! ### one layer -/

theorem evArith_sim (op : AOp) (a b : Expr) (c : ICtx) (D : Env) :
    Sim Prod.fst (evArith ev op a b c D) (specArith sev op a b (eraseCtx c)) := by
  unfold evArith specArith
  apply Sim.bnd (hev a c D); intro x
  cases arithOperand x.1 with
  | error e => exact Sim.thr _ _
  | ok v =>
    cases v with
    | none => exact Sim.ret _ _ _ rfl
    | some u =>
      apply Sim.bnd (hev b c x.2); intro y
      exact Sim.map (Sim.lift _) _ (fun _ => rfl)

theorem evCompare_sim (op : COp) (a b : Expr) (c : ICtx) (D : Env) :
    Sim Prod.fst (evCompare ev op a b c D) (specCompare sev op a b (eraseCtx c)) := by
  unfold evCompare specCompare
  apply Sim.bnd (hev a c D); intro x
  apply Sim.bnd (hev b c x.2); intro y
  exact Sim.map (Sim.lift _) _ (fun _ => rfl)

theorem step_sim (e : Expr) (c : ICtx) (D : Env) :
    Sim Prod.fst (step cfg ev e c D) (specStep sev e (eraseCtx c)) := by
  cases e with
  | lit n => exact Sim.ret _ _ _ rfl
  | dlit n => exact Sim.ret _ _ _ rfl
  | elit n => exact Sim.ret _ _ _ rfl
  | slit cs => exact Sim.ret _ _ _ rfl
  | nanlit => exact Sim.ret _ _ _ rfl
  | inflit p => exact Sim.ret _ _ _ rfl
  | negzlit => exact Sim.ret _ _ _ rfl
  | inst t e =>
    simp only [step, specStep]
    apply Sim.bnd (hev e c D); intro v
    exact Sim.ret _ _ _ rfl
  | tt => exact Sim.ret _ _ _ rfl
  | ff => exact Sim.ret _ _ _ rfl
  | emp => exact Sim.ret _ _ _ rfl
  | var x =>
    simp only [step, specStep]
    apply Sim.flag_bind
    intro hfl
    simp only [Flags.none, Flags.mk.injEq, decide_eq_false_iff_not, Decidable.not_not, and_true,
      true_and] at hfl
    simp only [eraseCtx, ← hfl]
    cases D.lookup x with
    | none => exact Sim.thr _ _
    | some v => exact Sim.ret _ _ _ rfl
  | dot =>
    simp only [step, specStep, eraseCtx]
    cases c.item with
    | none => exact Sim.thr _ _
    | some v => exact Sim.ret _ _ _ (by simp [eraseFocus])
  | posE =>
    simp only [step, specStep, eraseCtx]
    cases c.item with
    | none => exact Sim.thr _ _
    | some v => exact Sim.ret _ _ _ (by simp [eraseFocus])
  | lastE =>
    simp only [step, specStep, eraseCtx]
    cases c.item with
    | none => exact Sim.thr _ _
    | some v => exact Sim.ret _ _ _ (by simp [eraseFocus])
  | add a b => exact evArith_sim ev sev hev _ a b c D
  | sub a b => exact evArith_sim ev sev hev _ a b c D
  | mul a b => exact evArith_sim ev sev hev _ a b c D
  | gt a b => exact evCompare_sim ev sev hev _ a b c D
  | eq a b => exact evCompare_sim ev sev hev _ a b c D
  | cat a b =>
    simp only [step, specStep]
    apply Sim.bnd (hev a c D); intro x
    apply Sim.bnd (hev b c x.2); intro y
    exact Sim.ret _ _ _ rfl
  | ite cnd t e =>
    simp only [step, specStep]
    apply Sim.bnd (hev cnd c D); intro v
    apply Sim.bnd (p := id) (Sim.lift _); intro b
    cases b
    · exact hev e c v.2
    · exact hev t c v.2
  | forE x s b =>
    simp only [step, specStep]
    apply Sim.bnd (hev s c D); intro xs
    have := forLoop_sim ev sev hev c x b xs.1 xs.2 []
    simp only [List.nil_append, bind_pure] at this
    exact Sim.map this _ (fun _ => rfl)
  | letE x v b =>
    simp only [step, specStep]
    apply Sim.bnd (hev v c D); intro xv
    exact Sim.map (hev b _ _) _ (fun _ => rfl)
  | fnE t ps body =>
    simp only [step, specStep]
    cases cfg.share
    · simp only [Bool.false_eq_true, if_false, pure_bind]
      apply Sim.bnd (p := id) (Sim.alloc _); intro n
      exact Sim.ret _ _ _ rfl
    · simp only [if_true]
      apply Sim.silent_bind (silent_setSlot _ _); intro _
      apply Sim.bnd (p := id) (Sim.alloc _); intro n
      exact Sim.ret _ _ _ rfl
  | tfnE t ps tys rt body =>
    simp only [step, specStep]
    cases cfg.share
    · simp only [Bool.false_eq_true, if_false, pure_bind]
      apply Sim.bnd (p := id) (Sim.alloc _); intro n
      exact Sim.ret _ _ _ rfl
    · simp only [if_true]
      apply Sim.silent_bind (silent_setSlot _ _); intro _
      apply Sim.bnd (p := id) (Sim.alloc _); intro n
      exact Sim.ret _ _ _ rfl
  | named b =>
    simp only [step, specStep]
    have hf : ((eraseCtx c).item, (eraseCtx c).pos, (eraseCtx c).size) = eraseFocus c.item c.pos c.size := by
      cases h : c.item <;> simp [eraseCtx, eraseFocus, h]
    rw [hf]
    apply Sim.bnd (p := id) (Sim.alloc _); intro n
    exact Sim.ret _ _ _ rfl
  | call f args =>
    simp only [step, specStep]
    apply Sim.bnd (hev f c D); intro fv
    apply Sim.bnd (p := id) (Sim.single _); intro a
    cases args.any Option.isNone
    · simp only [Bool.false_eq_true, if_false]
      apply Sim.bnd (evalList_sim ev sev hev c _ _); intro vals
      exact callFn_sim cfg ev sev hev c _ _ _
    · simp only [if_true]
      exact partialApply_sim cfg ev sev hev c _ _ _
  | spart b args =>
    simp only [step, specStep]
    by_cases h : args.length = b.arity
    · simp only [h, if_true]
      apply Sim.bnd (evalArgs_sim ev sev hev c args D); intro r
      apply Sim.bnd (p := id) (Sim.alloc _); intro n
      exact Sim.ret _ _ _ rfl
    · simp only [h, if_false]
      exact Sim.thr _ _
  | par e => exact hev e c D
  | smap a b =>
    simp only [step, specStep]
    apply Sim.bnd (hev a c D); intro xs
    have := mapLoop_sim ev sev hev c b xs.1.length xs.1 1 xs.2 []
    simpa only [List.nil_append, bind_pure] using this
  | forEach s f =>
    simp only [step, specStep]
    apply Sim.bnd (funArgCheck_sim ev sev hev c D f 1); intro fa
    apply Sim.bnd (hev s c fa.2); intro xs
    have := hofForEach_sim cfg ev sev hev c fa.1 xs.1 xs.2 []
    simpa only [List.nil_append, bind_pure] using this
  | filter s f =>
    simp only [step, specStep]
    apply Sim.bnd (funArgCheck_sim ev sev hev c D f 1); intro fa
    apply Sim.bnd (hev s c fa.2); intro xs
    have := hofFilter_sim cfg ev sev hev c fa.1 xs.1 xs.2 []
    simpa only [List.nil_append, bind_pure] using this
  | foldL s z f =>
    simp only [step, specStep]
    apply Sim.bnd (funArgCheck_sim ev sev hev c D f 2); intro fa
    apply Sim.bnd (hev z c fa.2); intro zero
    apply Sim.bnd (hev s c zero.2); intro xs
    exact hofFoldLeft_sim cfg ev sev hev c fa.1 xs.1 xs.2 zero.1
  | foldR s z f =>
    simp only [step, specStep]
    apply Sim.bnd (funArgCheck_sim ev sev hev c D f 2); intro fa
    apply Sim.bnd (hev z c fa.2); intro zero
    apply Sim.bnd (hev s c zero.2); intro xs
    have := hofFoldRightRev_sim cfg ev sev hev c fa.1 xs.1.reverse xs.2 zero.1
    simpa only [List.reverse_reverse] using this
  | pairs s1 s2 f =>
    simp only [step, specStep]
    apply Sim.bnd (funArgCheck_sim ev sev hev c D f 2); intro fa
    apply Sim.bnd (hev s1 c fa.2); intro xs
    cases xs.1.isEmpty
    · simp only [Bool.false_eq_true, if_false]
      apply Sim.bnd (hev s2 c xs.2); intro ys
      have := hofPairs_sim cfg ev sev hev c fa.1 xs.1 ys.1 ys.2 []
      simpa only [List.nil_append, bind_pure] using this
    · simp only [if_true]
      exact Sim.ret _ _ _ rfl
  | sortK ci s f =>
    simp only [step, specStep]
    apply Sim.bnd (funArgCheck_sim ev sev hev c D f 1); intro fa
    apply Sim.bnd (hev s c fa.2); intro xs
    unfold specSort
    by_cases h : xs.1.length < 2
    · simp only [h, if_true]
      exact Sim.ret _ _ _ rfl
    · simp only [h, if_false]
      have := hofKeys_sim cfg ev sev hev ci c fa.1 xs.1 xs.2 []
      simp only [List.nil_append, bind_pure] at this
      apply Sim.bnd this; intro ks
      cases keysUniform (ks.1.map (·.2))
      · simp only [Bool.false_eq_true, if_false]; exact Sim.thr _ _
      · simp only [if_true]; exact Sim.ret _ _ _ (sortByKey_eq _)
  | apply f ms =>
    simp only [step, specStep, specFunArg]
    apply Sim.bnd (funArgEval_sim ev sev hev c D f); intro fa
    apply Sim.bnd (evalList_sim ev sev hev c _ _); intro vals
    apply Sim.bnd (Sim.getObj _); intro o
    by_cases h : vals.1.length = (eraseObj o).arity
    · have h' : o.arity = vals.1.length := h.symm
      rw [if_pos h, if_pos h']
      exact callFn_sim cfg ev sev hev c _ _ _
    · have h' : ¬ o.arity = vals.1.length := fun h2 => h h2.symm
      rw [if_neg h, if_neg h']
      exact Sim.thr _ _

end

/-- **the model simulates the specification**: for every configuration of the tree, every fuel,
expression, context and variables dict, a run that raises no trigger flag returns the value and
the (erased) heap that the lexical-closure semantics returns -/
theorem eval_sim (cfg : Cfg) : ∀ (n : Nat) (e : Expr) (c : ICtx) (D : Env),
    Sim Prod.fst (eval cfg n e c D) (sem n e (eraseCtx c))
  | 0, e, c, D => Sim.thr _ _
  | n + 1, e, c, D => step_sim cfg (eval cfg n) (sem n) (eval_sim cfg n) e c D

end EPV.Clo

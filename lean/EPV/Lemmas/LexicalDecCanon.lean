/-
C10 (phase 5) helper lemmas: the canonical text `Lex.decCanon` of a Decimal (digits before / after the point)
equals the specification's numeric `XSD.decimalCanon` of its value.
-/
import EPV.Lemmas.LexicalCast
import EPV.Lemmas.LexicalRepr
import EPV.Lemmas.LexicalGreg
namespace EPV.LexLemmas
open EPV

/-! ### digit characters -/

theorem digit_char_val (c : Char) (h : Lex.isDigit c = true) :
    c.toNat - 48 < 10 ∧ (c.toNat - 48).digitChar = c ∧ (c ≠ '0' → 0 < c.toNat - 48) := by
  have hb := (isDigit_iff c).1 h
  have hc : c = Char.ofNat c.toNat := (Char.ofNat_toNat c).symm
  have : c.toNat = 48 ∨ c.toNat = 49 ∨ c.toNat = 50 ∨ c.toNat = 51 ∨ c.toNat = 52 ∨ c.toNat = 53 ∨
      c.toNat = 54 ∨ c.toNat = 55 ∨ c.toNat = 56 ∨ c.toNat = 57 := by omega
  rcases this with e | e | e | e | e | e | e | e | e | e <;>
    (refine ⟨by omega, ?_, ?_⟩
     · (rw [e, hc, e]; try decide)
     · intro hne
       first
        | omega
        | (exfalso; apply hne; rw [hc, e]; try decide))

theorem digitsVal_snoc (x : List Char) (c : Char) :
    Lex.digitsVal (x ++ [c]) = 10 * Lex.digitsVal x + (c.toNat - 48) := by
  unfold Lex.digitsVal
  rw [Nat.ofDigitChars_append, Nat.ofDigitChars_cons, Nat.ofDigitChars_nil]
  rfl

/-- **printing the value of a digit string without leading zero gives the string back** -/
theorem toDigits_digitsVal : ∀ (n : Nat) (x : List Char), x.length = n →
    (∀ c ∈ x, Lex.isDigit c = true) → (∃ c r, x = c :: r ∧ c ≠ '0') →
    Nat.toDigits 10 (Lex.digitsVal x) = x ∧ 0 < Lex.digitsVal x := by
  intro n
  induction n with
  | zero =>
    intro x hl _ ⟨c, r, hx, _⟩
    subst hx; simp at hl
  | succ n ih =>
    intro x hl hd ⟨c, r, hx, hc0⟩
    rcases List.eq_nil_or_concat x with hnil | ⟨x', l, hxl⟩
    · subst hnil; simp at hl
    · rw [List.concat_eq_append] at hxl
      have hlD : Lex.isDigit l = true := hd l (by rw [hxl]; simp)
      obtain ⟨hl10, hlc, hlpos⟩ := digit_char_val l hlD
      rw [hxl, digitsVal_snoc]
      cases hx' : x' with
      | nil =>
        have hcl : l = c := by
          rw [hx'] at hxl; rw [hxl] at hx
          simp only [List.nil_append, List.cons.injEq] at hx
          exact hx.1
        have hv : Lex.digitsVal [] = 0 := rfl
        rw [hv, Nat.mul_zero, Nat.zero_add, List.nil_append, Nat.toDigits_of_lt_base hl10, hlc]
        exact ⟨rfl, hlpos (hcl ▸ hc0)⟩
      | cons c' r' =>
        have hcc : c' = c := by
          rw [hx'] at hxl; rw [hxl] at hx
          simp only [List.cons_append, List.cons.injEq] at hx
          exact hx.1
        have hlen : x'.length = n := by
          have := congrArg List.length hxl
          simp at this; omega
        have hd' : ∀ c ∈ x', Lex.isDigit c = true := fun c hc => hd c (by rw [hxl]; simp [hc])
        obtain ⟨ih1, ih2⟩ := ih x' hlen hd' ⟨c', r', hx', hcc ▸ hc0⟩
        rw [← hx']
        refine ⟨?_, by omega⟩
        rw [← Nat.toDigits_append_toDigits (by decide) ih2 hl10, ih1, Nat.toDigits_of_lt_base hl10, hlc]

theorem toDigits_digitsVal' (x : List Char) (hd : ∀ c ∈ x, Lex.isDigit c = true)
    (hh : ∃ c r, x = c :: r ∧ c ≠ '0') :
    Nat.toDigits 10 (Lex.digitsVal x) = x ∧ 0 < Lex.digitsVal x :=
  toDigits_digitsVal x.length x rfl hd hh

/-- the padding of `XSD.decimalCanon` on a digit string `y` of fraction digits: "0" and `y` -/
theorem pad_digits (y : List Char) (hd : ∀ c ∈ y, Lex.isDigit c = true) :
    List.replicate (y.length + 1 - (Nat.toDigits 10 (Lex.digitsVal y)).length) '0'
      ++ Nat.toDigits 10 (Lex.digitsVal y) = '0' :: y := by
  induction y with
  | nil => decide
  | cons c r ih =>
    by_cases hc : c = '0'
    · subst hc
      have ih' := ih (fun c hc => hd c (List.mem_cons_of_mem _ hc))
      have hv : Lex.digitsVal ('0' :: r) = Lex.digitsVal r := digitsVal_lead_zeros ['0'] r (by simp)
      rw [hv]
      have hlen := congrArg List.length ih'
      simp only [List.length_append, List.length_replicate, List.length_cons] at hlen
      have : ('0' :: r).length + 1 - (Nat.toDigits 10 (Lex.digitsVal r)).length
          = (r.length + 1 - (Nat.toDigits 10 (Lex.digitsVal r)).length) + 1 := by
        simp only [List.length_cons]; omega
      rw [this, List.replicate_succ, List.cons_append, ih']
    · obtain ⟨h1, _⟩ := toDigits_digitsVal' (c :: r) hd ⟨c, r, rfl, hc⟩
      rw [h1]
      have : (c :: r).length + 1 - (c :: r).length = 1 := by omega
      rw [this]; rfl

/-! ### the least-scale representative -/

theorem normAux_mul_pow (m : Int) (s z : Nat) : XSD.normAux (m * 10 ^ z) (s + z) = XSD.normAux m s := by
  induction z with
  | zero => simp
  | succ z ih =>
    have e : m * 10 ^ (z + 1) = (m * 10 ^ z) * 10 := by rw [Int.pow_succ, Int.mul_assoc]
    rw [e, ← Nat.add_assoc]
    generalize m * 10 ^ z = q at ih ⊢
    have h1 : (q * 10) % 10 = 0 := by omega
    have h2 : (q * 10) / 10 = q := by omega
    simp only [XSD.normAux, h1, h2, ↓reduceIte]
    exact ih

theorem normAux_last (m : Int) (k : Nat) (h : k = 0 ∨ m % 10 ≠ 0) : XSD.normAux m k = ⟨m, k⟩ := by
  cases k with
  | zero => rfl
  | succ k =>
    rcases h with h | h
    · omega
    · simp only [XSD.normAux, h, ↓reduceIte]

/-! ### `decCanon` is the numeric canonical map -/

theorem canon_coef_scale (d : Lex.PyDec) :
    ∃ z : Nat, d.coef = Lex.digitsVal (canonI d ++ canonF d) * 10 ^ z ∧ d.scale = (canonF d).length + z := by
  obtain ⟨z, hz, hz0⟩ := fp_split d
  refine ⟨z.length, ?_, ?_⟩
  · unfold Lex.PyDec.coef
    rw [digitsVal_canonI d (canonF d)]
    conv => lhs; rw [hz, ← List.append_assoc]
    exact digitsVal_trail_zeros _ _ hz0
  · unfold Lex.PyDec.scale
    conv => lhs; rw [hz]
    simp

theorem decimalCanon_of_norm (v : XSD.DecVal) (m : Int) (k : Nat) (h : v.norm = ⟨m, k⟩) :
    XSD.decimalCanon v =
      (let ds := Nat.toDigits 10 m.natAbs
       let padded := List.replicate (k + 1 - ds.length) '0' ++ ds
       let ip := padded.take (padded.length - k)
       let fp := padded.drop (padded.length - k)
       let body := if fp.isEmpty then ip else ip ++ '.' :: fp
       if m < 0 then '-' :: body else body) := by
  unfold XSD.decimalCanon
  simp only [h, natCanon_eq]

/-- **the canonical text of a Decimal is the XSD canonical representation of its value**
(XSD 1.1 Part 2 §3.3.3.2 decimalCanonicalMap / F&O 3.1 §19.1.2): for every sign, every digit string before
and after the point. -/
theorem decCanon_eq_decimalCanon (d : Lex.PyDec) (h : WFDec d) :
    Lex.decCanon d = XSD.decimalCanon (pyDecVal d) := by
  obtain ⟨z, hcoef, hscale⟩ := canon_coef_scale d
  obtain ⟨hIne, hI⟩ := canonI_digits d h
  have hF := canonF_digits d h
  have hIF : ∀ c ∈ canonI d ++ canonF d, Lex.isDigit c = true := by
    intro c hc
    rcases List.mem_append.mp hc with h | h
    · exact hI c h
    · exact hF c h
  generalize hC : Lex.digitsVal (canonI d ++ canonF d) = C at hcoef
  generalize hM : (if d.neg = true then -(C : Int) else (C : Int)) = M
  -- the last fraction digit is not zero
  have hlast : (canonF d).length = 0 ∨ M % 10 ≠ 0 := by
    rcases List.eq_nil_or_concat (canonF d) with hnil | ⟨F0, l, hFl⟩
    · left; rw [hnil]; rfl
    · right
      rw [List.concat_eq_append] at hFl
      have hlD : Lex.isDigit l = true := hF l (by rw [hFl]; simp)
      have hl0 : l ≠ '0' := by
        intro e
        have := canonF_last d
        rw [hFl, e] at this
        simp at this
      obtain ⟨h10, _, hpos⟩ := digit_char_val l hlD
      have hpos := hpos hl0
      have : C = 10 * Lex.digitsVal (canonI d ++ F0) + (l.toNat - 48) := by
        rw [← hC, hFl, ← List.append_assoc, digitsVal_snoc]
      rw [← hM]
      cases d.neg <;> simp only [Bool.false_eq_true, ↓reduceIte] <;> omega
  have hnorm : (pyDecVal d).norm = ⟨M, (canonF d).length⟩ := by
    unfold XSD.DecVal.norm pyDecVal
    simp only
    rw [hscale, hcoef]
    have : (if d.neg = true then -((C * 10 ^ z : Nat) : Int) else ((C * 10 ^ z : Nat) : Int)) = M * 10 ^ z := by
      rw [← hM]
      cases d.neg <;> simp [Int.neg_mul]
    rw [this, normAux_mul_pow]
    exact normAux_last _ _ hlast
  have hnat : M.natAbs = C := by
    rw [← hM]; cases d.neg <;> simp
  -- the padded digits are the digits of the canonical body
  have hpad : List.replicate ((canonF d).length + 1 - (Nat.toDigits 10 C).length) '0' ++ Nat.toDigits 10 C
      = canonI d ++ canonF d := by
    rcases canonI_shape d with h0 | ⟨c, r, hc, hc0⟩
    · have : C = Lex.digitsVal (canonF d) := by
        rw [← hC, h0]; exact digitsVal_lead_zeros ['0'] _ (by simp)
      rw [this, pad_digits _ hF, h0]; rfl
    · obtain ⟨h1, _⟩ := toDigits_digitsVal' (canonI d ++ canonF d) hIF ⟨c, r ++ canonF d, by rw [hc]; rfl, hc0⟩
      rw [hC] at h1
      rw [h1]
      have hl : 0 < (canonI d).length := List.length_pos_iff.mpr hIne
      have : (canonF d).length + 1 - (canonI d ++ canonF d).length = 0 := by
        simp only [List.length_append]; omega
      rw [this]; rfl
  -- zero
  have hzero : C = 0 ↔ canonBody d = ['0'] := by
    constructor
    · intro hc0
      have hFe : canonF d = [] := by
        rcases hlast with h | h
        · exact List.eq_nil_of_length_eq_zero h
        · exfalso; apply h; rw [← hM, hc0]; cases d.neg <;> simp
      rcases canonI_shape d with h0 | ⟨c, r, hc, hcn⟩
      · unfold canonBody; simp [hFe, h0]
      · obtain ⟨_, hp⟩ := toDigits_digitsVal' (canonI d ++ canonF d) hIF ⟨c, r ++ canonF d, by rw [hc]; rfl, hcn⟩
        omega
    · intro hb
      unfold canonBody at hb
      split at hb
      · rename_i hf
        have hf' : canonF d = [] := by simpa using hf
        rw [← hC, hf', hb]; decide
      · have := congrArg List.length hb
        simp at this
        have hne := List.length_pos_iff.mpr hIne
        omega
  have hsign : M < 0 ↔ (d.neg && !(canonBody d == ['0'])) = true := by
    have hb : (canonBody d == ['0']) = true ↔ C = 0 := by rw [hzero]; simp
    rw [← hM]
    cases hn : d.neg
    · simp <;> omega
    · by_cases hc : C = 0
      · simp [hb.mpr hc, hc]
      · have : (canonBody d == ['0']) = false := by
          cases hx : (canonBody d == ['0'])
          · rfl
          · exact absurd (hb.mp hx) hc
        simp [this]; omega
  rw [decCanon_eq, decimalCanon_of_norm _ _ _ hnorm]
  simp only [hnat, hpad]
  have hlen : (canonI d ++ canonF d).length - (canonF d).length = (canonI d).length := by
    simp [List.length_append]
  rw [hlen, List.take_left, List.drop_left]
  show _ = (if M < 0 then '-' :: canonBody d else canonBody d)
  by_cases hm : M < 0
  · rw [if_pos hm, if_pos (hsign.mp hm)]
  · rw [if_neg hm, if_neg (fun hx => hm (hsign.mpr hx))]

/-- a Decimal given by `as_tuple()` (sign, coefficient, exponent `-k`): `format(d,'f')` gives digit strings, and the
value is `±c / 10^k` -/
theorem pyDecOfTuple_wf_val (neg : Bool) (c k : Nat) :
    WFDec (Lex.pyDecOfTuple neg c k) ∧
      pyDecVal (Lex.pyDecOfTuple neg c k) = ⟨if neg then -(c : Int) else c, k⟩ := by
  generalize hp : List.replicate (k + 1 - (Nat.toDigits 10 c).length) '0' ++ Nat.toDigits 10 c = padded
  have hlen : k + 1 ≤ padded.length := by
    rw [← hp]; simp only [List.length_append, List.length_replicate]; omega
  have hdig : ∀ x ∈ padded, Lex.isDigit x = true := by
    intro x hx; rw [← hp] at hx
    rcases List.mem_append.mp hx with h | h
    · have := (List.mem_replicate.mp h).2; subst this; decide
    · exact toDigits_all_digit c x h
  have hval : Lex.digitsVal padded = c := by
    rw [← hp, digitsVal_lead_zeros _ _ (fun x hx => (List.mem_replicate.mp hx).2)]
    exact Nat.ofDigitChars_ten_toDigits
  have hd : Lex.pyDecOfTuple neg c k =
      ⟨neg, padded.take (padded.length - k), padded.drop (padded.length - k)⟩ := by
    unfold Lex.pyDecOfTuple; simp only [hp]
  rw [hd]
  constructor
  · refine ⟨fun x hx => hdig x (List.mem_of_mem_take hx), fun x hx => hdig x (List.mem_of_mem_drop hx), Or.inl ?_⟩
    intro e
    have := congrArg List.length e
    simp at this; omega
  · unfold pyDecVal Lex.PyDec.coef Lex.PyDec.scale
    simp only [List.take_append_drop, hval, List.length_drop]
    have : padded.length - (padded.length - k) = k := by omega
    rw [this]

end EPV.LexLemmas

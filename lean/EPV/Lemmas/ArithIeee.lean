/-
C06: the concrete round-to-nearest-even shipped with the driver (`FOArith.ieee`) satisfies `Faithful`:
it never yields NaN, keeps the sign, writes finite results well-formed, and never rounds a non-zero integer
to zero — so the mixed-operand theorems apply to the very values the harness compares.
-/
import EPV.Lemmas.ArithCtx
open EPV.FOArith
namespace EPV.Arith

theorem ilog2_bounds_raw (a : Rat) (ha : 0 < a) :
    (2 : Rat) ^ ((a.num.natAbs.log2 : Int) - (a.den.log2 : Int) - 1) < a ∧
    a < (2 : Rat) ^ ((a.num.natAbs.log2 : Int) - (a.den.log2 : Int) + 1) := by
  have hnum : 0 < a.num := Rat.num_pos.2 ha
  set N := a.num.natAbs with hN
  have hNpos : N ≠ 0 := by omega
  set ln := N.log2
  set ld := a.den.log2
  have h1 := Nat.log2_self_le hNpos
  have h2 := @Nat.lt_log2_self N
  have h3 := Nat.log2_self_le a.den_nz
  have h4 := @Nat.lt_log2_self a.den
  have hA : a = (N : Rat) / (a.den : Rat) := (absq_num_div a ha.le).symm
  have q1 : ((2 : Rat) ^ (ln : Nat)) ≤ (N : Rat) := by exact_mod_cast h1
  have q2 : (N : Rat) < (2 : Rat) ^ (ln + 1 : Nat) := by exact_mod_cast h2
  have q3 : ((2 : Rat) ^ (ld : Nat)) ≤ (a.den : Rat) := by exact_mod_cast h3
  have q4 : (a.den : Rat) < (2 : Rat) ^ (ld + 1 : Nat) := by exact_mod_cast h4
  have hDpos : (0 : Rat) < (a.den : Rat) := by exact_mod_cast a.den_pos
  have hNq : (0 : Rat) < (N : Rat) := by exact_mod_cast (Nat.pos_of_ne_zero hNpos)
  constructor
  · have e : ((ln : Int) - (ld : Int) - 1) = ((ln : Nat) : Int) - (((ld + 1 : Nat)) : Int) := by push_cast; omega
    rw [e, zpow_sub₀ (by norm_num : (2 : Rat) ≠ 0), zpow_natCast, zpow_natCast, hA]
    calc (2 : Rat) ^ ln / 2 ^ (ld + 1) ≤ (N : Rat) / 2 ^ (ld + 1) := by
            apply div_le_div_of_nonneg_right q1 (by positivity)
      _ < (N : Rat) / (a.den : Rat) := by
            apply div_lt_div_of_pos_left hNq hDpos q4
  · have e : ((ln : Int) - (ld : Int) + 1) = (((ln + 1 : Nat)) : Int) - ((ld : Nat) : Int) := by push_cast; omega
    rw [e, zpow_sub₀ (by norm_num : (2 : Rat) ≠ 0), zpow_natCast, zpow_natCast, hA]
    calc (N : Rat) / (a.den : Rat) < (2 : Rat) ^ (ln + 1) / (a.den : Rat) := by
            apply div_lt_div_of_pos_right q2 hDpos
      _ ≤ (2 : Rat) ^ (ln + 1) / 2 ^ ld := by
            apply div_le_div_of_nonneg_left (by positivity) (by positivity) q3

/-- `ilog2 a` is the binary exponent of a positive rational: 2^e ≤ a < 2^(e+1) -/
theorem ilog2_spec (a : Rat) (ha : 0 < a) :
    (2 : Rat) ^ (ilog2 a) ≤ a ∧ a < (2 : Rat) ^ (ilog2 a + 1) := by
  obtain ⟨lo, hi⟩ := ilog2_bounds_raw a ha
  unfold ilog2
  simp only []
  generalize ((a.num.natAbs.log2 : Int) - (a.den.log2 : Int)) = e at *
  by_cases h1 : (2 : Rat) ^ e ≤ a
  · by_cases h2 : (2 : Rat) ^ (e + 1) ≤ a
    · exact absurd hi (not_lt.2 h2)
    · rw [if_pos h1, if_neg h2]
      exact ⟨h1, hi⟩
  · rw [if_neg h1]
    refine ⟨lo.le, ?_⟩
    have : e - 1 + 1 = e := by omega
    rw [this]; exact not_le.1 h1

theorem nearestEven_ge_floor (y : Rat) : y.floor ≤ nearestEven y := by
  unfold nearestEven
  simp only []
  split
  · exact le_refl _
  · split
    · omega
    · split <;> omega


theorem abs_pos_of_ne (q : Rat) (hq : q ≠ 0) : 0 < (if q < 0 then -q else q) := by
  split
  · linarith
  · rename_i h; exact lt_of_le_of_ne (not_lt.1 h) (Ne.symm hq)

/-- shape of the result of the concrete rounding: ±0, ±INF or a non-zero finite value, each with the
sign of the argument -/
theorem ieeeRound_cases (mant : Nat) (eminUlp emax1 : Int) (q : Rat) (hq : q ≠ 0) :
    ieeeRound mant eminUlp emax1 q = .zero (decide (q < 0)) ∨
    ieeeRound mant eminUlp emax1 q = .inf (decide (q < 0)) ∨
    ∃ v : Rat, 0 < v ∧ ieeeRound mant eminUlp emax1 q = .fin (if decide (q < 0) then -v else v) := by
  unfold ieeeRound
  simp only [hq, if_false]
  set a := (if q < 0 then -q else q) with ha
  have hapos : 0 < a := abs_pos_of_ne q hq
  set ue := (if ilog2 a - ((mant - 1 : Nat) : Int) < eminUlp then eminUlp else ilog2 a - ((mant - 1 : Nat) : Int))
  have hulp : (0 : Rat) < (2 : Rat) ^ ue := zpow_pos (by norm_num) ue
  have hy : 0 ≤ a / (2 : Rat) ^ ue := (div_pos hapos hulp).le
  have hf0 : 0 ≤ nearestEven (a / (2 : Rat) ^ ue) :=
    le_trans (Int.floor_nonneg.2 hy) (nearestEven_ge_floor _)
  by_cases hz : nearestEven (a / (2 : Rat) ^ ue) = 0
  · left; simp [hz]
  · right
    simp only [hz, if_false]
    by_cases hov : (2 : Rat) ^ emax1 ≤ (nearestEven (a / (2 : Rat) ^ ue) : Rat) * (2 : Rat) ^ ue
    · left; simp [hov]
    · right
      refine ⟨(nearestEven (a / (2 : Rat) ^ ue) : Rat) * (2 : Rat) ^ ue, ?_, ?_⟩
      · have : (0 : Rat) < (nearestEven (a / (2 : Rat) ^ ue) : Rat) := by
          have : 0 < nearestEven (a / (2 : Rat) ^ ue) := lt_of_le_of_ne hf0 (Ne.symm hz)
          exact_mod_cast this
        positivity
      · simp [hov]

theorem ieee_faithful : Faithful ieee := by
  constructor
  · intro q hq
    show ieeeRound 53 (-1074) 1024 q ≠ .nan ∧ (ieeeRound 53 (-1074) 1024 q).isNeg = decide (q < 0) ∧
      (ieeeRound 53 (-1074) 1024 q).wf
    rcases ieeeRound_cases 53 (-1074) 1024 q hq with h | h | ⟨v, hv, h⟩
    · rw [h]; exact ⟨by simp, rfl, trivial⟩
    · rw [h]; exact ⟨by simp, rfl, trivial⟩
    · rw [h]
      refine ⟨by simp, ?_, ?_⟩
      · by_cases hn : q < 0
        · simp [Dbl.isNeg, hn, hv]
        · have : ¬ v < 0 := by linarith
          simp [Dbl.isNeg, hn, this]
      · show (if decide (q < 0) = true then -v else v) ≠ 0
        split <;> linarith
  · intro n hn s
    show ieeeRound 53 (-1074) 1024 (n : Rat) ≠ .zero s
    have hq : (n : Rat) ≠ 0 := by exact_mod_cast hn
    unfold ieeeRound
    simp only [hq, if_false]
    set a := (if (n : Rat) < 0 then -(n : Rat) else (n : Rat)) with ha
    have hapos : 0 < a := abs_pos_of_ne _ hq
    have ha1 : (1 : Rat) ≤ a := by
      rw [ha]
      split
      · rename_i h
        have : n ≤ -1 := by
          have : n < 0 := by exact_mod_cast h
          omega
        have : (n : Rat) ≤ -1 := by exact_mod_cast this
        linarith
      · rename_i h
        have : 1 ≤ n := by
          have : ¬ n < 0 := fun c => h (by exact_mod_cast c)
          omega
        exact_mod_cast this
    obtain ⟨lo, hi⟩ := ilog2_spec a hapos
    have he : 0 ≤ ilog2 a := by
      by_contra hneg
      have : ilog2 a + 1 ≤ 0 := by omega
      have h2 : (2 : Rat) ^ (ilog2 a + 1) ≤ (2 : Rat) ^ (0 : Int) :=
        zpow_le_zpow_right₀ (by norm_num) this
      rw [zpow_zero] at h2
      linarith
    have hue : (if ilog2 a - ((53 - 1 : Nat) : Int) < -1074 then (-1074 : Int) else ilog2 a - ((53 - 1 : Nat) : Int))
        = ilog2 a - 52 := by
      have : ¬ (ilog2 a - ((53 - 1 : Nat) : Int) < -1074) := by push_cast; omega
      rw [if_neg this]; push_cast; rfl
    rw [hue]
    have hulp : (0 : Rat) < (2 : Rat) ^ (ilog2 a - 52) := zpow_pos (by norm_num) _
    have hbig : (1 : Rat) ≤ a / (2 : Rat) ^ (ilog2 a - 52) := by
      rw [le_div_iff₀ hulp, one_mul]
      calc (2 : Rat) ^ (ilog2 a - 52) ≤ (2 : Rat) ^ (ilog2 a) := zpow_le_zpow_right₀ (by norm_num) (by omega)
        _ ≤ a := lo
    have hfl : 1 ≤ (a / (2 : Rat) ^ (ilog2 a - 52)).floor := by
      show 1 ≤ ⌊a / (2 : Rat) ^ (ilog2 a - 52)⌋
      exact Int.le_floor.2 (by exact_mod_cast hbig)
    have hne : nearestEven (a / (2 : Rat) ^ (ilog2 a - 52)) ≠ 0 := by
      have := nearestEven_ge_floor (a / (2 : Rat) ^ (ilog2 a - 52))
      omega
    simp only [hne, if_false]
    split <;> simp

end EPV.Arith

/-
C07 — ordering of xs:yearMonthDuration values: `Duration._compare_durations` compares four
`months2days` offsets; each is strictly monotone in the number of months, so the order is the order
of the months.  Uses the calendar closed forms of C11's specification (read-only).
-/
import EPV.Model.Compare
import EPV.Lemmas.CalendarSpec
set_option linter.unusedSimpArgs false
namespace EPV.Cmp
open EPV.Timeline (daysBeforeYearC daysBeforeMonthC dayNumC isLeap yearLen monthLen)

/-- day number of the first day of month number `k` (months counted from January of year 0) -/
def fom (k : Int) : Int := dayNumC (k / 12) (k % 12 + 1) 1

theorem isleap_eq' (y : Int) : isleap y = isLeap y := by
  unfold isleap isLeap
  by_cases h4 : y % 4 = 0 <;> by_cases h100 : y % 100 = 0 <;> by_cases h400 : y % 400 = 0 <;>
    simp [h4, h100, h400] <;> omega

theorem leapdays_eq' (a b : Int) : 365 * (b - a) + leapdays a b = daysBeforeYearC b - daysBeforeYearC a := by
  unfold leapdays daysBeforeYearC; simp only []; omega

theorem yearLen_leap (y : Int) : yearLen y = 365 + (if isLeap y then 1 else 0) := by
  unfold yearLen; split <;> simp_all

/-- `months2days(year, month, δ)` from one of the four reference months is the distance in days between
the first of that month and the first of the month δ months later -/
theorem months2days_fom (y m δ : Int) (hm : m = 9 ∨ m = 2 ∨ m = 3 ∨ m = 7) :
    months2days y m δ = fom (12 * y + (m - 1) + δ) - fom (12 * y + (m - 1)) := by
  have e1 : (12 * y + (m - 1) + δ) / 12 = y + (m - 1 + δ) / 12 := by omega
  have e2 : (12 * y + (m - 1) + δ) % 12 = (m - 1 + δ) % 12 := by omega
  have e3 : (12 * y + (m - 1)) / 12 = y := by omega
  have e4 : (12 * y + (m - 1)) % 12 + 1 = m := by omega
  unfold fom
  rw [e1, e2, e3, e4]
  unfold months2days
  split
  · rename_i h0; subst h0
    have h5 : (m - 1 + 0) / 12 = 0 := by omega
    have h6 : (m - 1 + 0) % 12 + 1 = m := by omega
    rw [h5, h6]; simp
  · simp only []
    generalize hty : y + (m - 1 + δ) / 12 = ty
    have hr : (m - 1 + δ) % 12 = 0 ∨ (m - 1 + δ) % 12 = 1 ∨ (m - 1 + δ) % 12 = 2 ∨ (m - 1 + δ) % 12 = 3 ∨
        (m - 1 + δ) % 12 = 4 ∨ (m - 1 + δ) % 12 = 5 ∨ (m - 1 + δ) % 12 = 6 ∨ (m - 1 + δ) % 12 = 7 ∨
        (m - 1 + δ) % 12 = 8 ∨ (m - 1 + δ) % 12 = 9 ∨ (m - 1 + δ) % 12 = 10 ∨ (m - 1 + δ) % 12 = 11 := by omega
    have l1 := leapdays_eq' y ty
    have l2 := leapdays_eq' (y + 1) (ty + 1)
    have s1 := EPV.Timeline.daysBeforeYearC_succ ty
    have s2 := EPV.Timeline.daysBeforeYearC_succ y
    rw [yearLen_leap] at s1 s2
    rw [isleap_eq']
    unfold dayNumC
    rcases hm with rfl | rfl | rfl | rfl <;>
    rcases hr with hr | hr | hr | hr | hr | hr | hr | hr | hr | hr | hr | hr <;>
      simp only [hr] <;>
      cases hb : isLeap ty <;> cases hc : isLeap y <;>
      simp [hb, hc, sumMonths, monthDays, daysBeforeMonthC] at s1 s2 ⊢ <;> omega

/-- consecutive first-of-month day numbers differ by the length of the month (28..31 days) -/
theorem fom_succ (k : Int) : fom k + 28 ≤ fom (k + 1) := by
  unfold fom dayNumC
  have hr : k % 12 = 0 ∨ k % 12 = 1 ∨ k % 12 = 2 ∨ k % 12 = 3 ∨ k % 12 = 4 ∨ k % 12 = 5 ∨ k % 12 = 6 ∨
      k % 12 = 7 ∨ k % 12 = 8 ∨ k % 12 = 9 ∨ k % 12 = 10 ∨ k % 12 = 11 := by omega
  have s1 := EPV.Timeline.daysBeforeYearC_succ (k / 12)
  rw [yearLen_leap] at s1
  rcases hr with hr | hr | hr | hr | hr | hr | hr | hr | hr | hr | hr | hr
  all_goals
    have e1 : (k + 1) % 12 = (k % 12 + 1) % 12 := by omega
    have e2 : (k + 1) / 12 = k / 12 + (if k % 12 = 11 then 1 else 0) := by split <;> omega
    rw [e1, e2, hr]
    cases hb : isLeap (k / 12) <;> cases hc : isLeap (k / 12 + 1) <;>
      simp [hb, hc, daysBeforeMonthC] at s1 ⊢ <;> omega

theorem fom_lt_aux (n : Nat) : ∀ j : Int, fom j < fom (j + n + 1) := by
  induction n with
  | zero => intro j; have := fom_succ j; simp; omega
  | succ n ih =>
    intro j
    have h1 := ih j
    have h2 := fom_succ (j + n + 1)
    have : j + (n + 1 : Nat) + 1 = j + n + 1 + 1 := by omega
    rw [this]; omega

/-- the first-of-month day number is strictly increasing in the month number -/
theorem fom_lt {j k : Int} (h : j < k) : fom j < fom k := by
  have := fom_lt_aux (k - j - 1).toNat j
  have e : j + ((k - j - 1).toNat : Int) + 1 = k := by omega
  rwa [e] at this

/-- `months2days` from a reference month is strictly increasing in the number of months -/
theorem months2days_lt (y m : Int) (hm : m = 9 ∨ m = 2 ∨ m = 3 ∨ m = 7) {a b : Int} (h : a < b) :
    months2days y m a < months2days y m b := by
  rw [months2days_fom y m a hm, months2days_fom y m b hm]
  have := @fom_lt (12 * y + (m - 1) + a) (12 * y + (m - 1) + b) (by omega)
  omega

theorem iCmp_mono (op : Op) (f : Int → Int) (hf : ∀ a b, a < b → f a < f b) (a b : Int) :
    iCmp op (f a) (f b) = iCmp op a b := by
  rcases Int.lt_trichotomy a b with h | h | h
  · have := hf a b h
    cases op <;> simp [iCmp, cmpBy] <;> grind
  · subst h; cases op <;> simp [iCmp, cmpBy]
  · have := hf b a h
    cases op <;> simp [iCmp, cmpBy] <;> grind

/-- ORDER OF yearMonthDurations: the four-reference-date comparison is the order of the months -/
theorem durCmp4_ymd (op : Op) (a b : Int) : durCmp4 op (a, 0) (b, 0) = iCmp op a b := by
  have h (y m : Int) (hm : m = 9 ∨ m = 2 ∨ m = 3 ∨ m = 7) :
      iCmp op (months2days y m a * 86400 + 0) (months2days y m b * 86400 + 0) = iCmp op a b :=
    iCmp_mono op (fun x => months2days y m x * 86400 + 0)
      (fun p q hpq => by have := months2days_lt y m hm hpq; omega) a b
  simp only [durCmp4, List.all_cons, List.all_nil, h 1696 9 (by decide), h 1697 2 (by decide),
    h 1903 3 (by decide), h 1903 7 (by decide), Bool.and_true, Bool.and_self]

end EPV.Cmp

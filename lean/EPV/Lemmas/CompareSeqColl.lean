/-
C07 (phase 5) — the sequence rules of the value comparison (`valueCmpC`: base.py `get_atomized_operand`
around the operator of _xpath2_operators.py) under ANY default collation and implicit timezone, against
XPath 3.1 §3.7.1 rules 1-4 (`seqRule`, `valueSeqAllowedC` of EPV/Spec/FOCompareSeqC.lean).
-/
import EPV.Lemmas.CompareCollation
import EPV.Spec.FOCompareSeqC
set_option linter.unusedSimpArgs false
set_option linter.unusedVariables false
namespace EPV.Cmp
open EPV.CmpSpec EPV.CmpFind

theorem untypedToString_eq (a : Atom) : untypedToString a = castUAStr a := by cases a <;> rfl

theorem isUA_castUAStr (a : Atom) : isUA (castUAStr a) = false := by cases a <;> rfl

theorem castUAStr_fillTz (itz : Option Int) (a : Atom) : castUAStr (a.fillTz itz) = (castUAStr a).fillTz itz := by
  cases a <;> rfl

theorem atomizeS_item_eq (m : Mode) (x : Item) : atomizeS m x = atomize m x := by cases x <;> rfl

/-- the atom the specification compares = the atom the code compares, filled with the implicit timezone -/
theorem specAtom_eq (itz : Option Int) (m : Mode) (x : Item) :
    untypedToString (atomizeS m (withImplicitTz itz x)) = (castUAStr (atomize m x)).fillTz itz := by
  rw [untypedToString_eq, atomizeS_item_eq, atomize_withImplicitTz, castUAStr_fillTz]

/-- on atoms that are not untypedAtomic the pair rule of the general comparison IS the value comparison -/
theorem pairSpecC_noUA (c : Coll) (m : Mode) (op : Op) (a b : Atom) (ha : isUA a = false) (hb : isUA b = false) :
    pairSpecC c m op a b = valueOpC c (binOrdered m) op a b := by
  cases a <;> simp [isUA] at ha <;> cases b <;> simp [isUA] at hb <;> rfl

/-- SPEC COHERENCE: the two transcriptions of §3.7.1 — `valueAllowedC` (rules 5-6 directly) and
`valueSeqAllowedC` (through the pair rule `pairSpecC`) — permit the same outcomes on every input -/
theorem valueSeqAllowedC_eq (c : Coll) (itz : Option Int) (m : Mode) (op : Op) (L Rr : List Item) :
    valueSeqAllowedC c itz m op L Rr = valueAllowedC c itz m op L Rr := by
  unfold valueSeqAllowedC valueAllowedC
  by_cases hm : m = .v1
  · simp [hm]
  · simp only [hm, if_false]
    match L, Rr with
    | [], [] => simp [seqRule]
    | [], [y] => simp [seqRule]
    | [], _ :: _ :: _ => simp [seqRule]
    | [x], [] => simp [seqRule]
    | [x], _ :: _ :: _ => simp [seqRule]
    | _ :: _ :: _, [] => simp [seqRule]
    | _ :: _ :: _, [y] => simp [seqRule]
    | _ :: _ :: _, _ :: _ :: _ => simp [seqRule]
    | [x], [y] =>
      simp only [seqRule, List.isEmpty_cons, List.length_cons, List.length_nil, Bool.or_self, Bool.false_eq_true,
        if_false]
      rw [pairSpecC_noUA c m op _ _ (by rw [untypedToString_eq]; exact isUA_castUAStr _)
        (by rw [untypedToString_eq]; exact isUA_castUAStr _)]
      generalize valueOpC c (binOrdered m) op _ _ = r
      cases r with
      | ok v => rfl
      | error e => cases e <;> rfl

/-! ### the code's sequence rules, exactly -/

theorem atomizedOperand_single (m : Mode) (x : Item) :
    atomizedOperand m [x] = .ok (some (castUAStr (atomize m x))) := by
  simp only [atomizedOperand]
  cases h : atomize m x <;> simp [castUAStr]

/-- a left operand of two or more items: XPTY0004, whatever the right operand -/
theorem valueCmpC_long_left (c : Coll) (itz : Option Int) (m : Mode) (op : Op) (x y : Item) (L Rr : List Item) :
    valueCmpC c itz m op (x :: y :: L) Rr = .error .XPTY0004 := by
  simp [valueCmpC, valueCmpWith, atomizedOperand]

/-- a right operand of two or more items behind a left operand of at most one: XPTY0004 -/
theorem valueCmpC_long_right (c : Coll) (itz : Option Int) (m : Mode) (op : Op) (x y : Item) (L Rr : List Item)
    (hL : L.length ≤ 1) : valueCmpC c itz m op L (x :: y :: Rr) = .error .XPTY0004 := by
  match L, hL with
  | [], _ => simp [valueCmpC, valueCmpWith, atomizedOperand]
  | [z], _ => simp only [valueCmpC, valueCmpWith, atomizedOperand_single]; simp [atomizedOperand]

/-- an empty operand facing an operand of at most one item: the empty sequence -/
theorem valueCmpC_empty (c : Coll) (itz : Option Int) (m : Mode) (op : Op) (L Rr : List Item)
    (hL : L.length ≤ 1) (hR : Rr.length ≤ 1) (he : L = [] ∨ Rr = []) :
    valueCmpC c itz m op L Rr = .ok none := by
  match L, Rr, hL, hR, he with
  | [], [], _, _, _ => simp [valueCmpC, valueCmpWith, atomizedOperand]
  | [], [y], _, _, _ => simp only [valueCmpC, valueCmpWith, atomizedOperand_single]; simp [atomizedOperand]
  | [x], [], _, _, _ => simp only [valueCmpC, valueCmpWith, atomizedOperand_single]; simp [atomizedOperand]
  | [x], [y], _, _, he => simp at he

/-- two single items: the pair function on the two atoms, untypedAtomic (node) operands as strings,
filled with the implicit timezone the specification's way -/
theorem valueCmpC_single (c : Coll) (itz : Option Int) (m : Mode) (op : Op) (x y : Item) :
    valueCmpC c itz m op [x] [y] =
      (valuePairWith (pyOpC c m op) op ((castUAStr (atomize m x)).fillTz itz) ((castUAStr (atomize m y)).fillTz itz)).map
        some := by
  simp only [valueCmpC, valueCmpWith, atomizedOperand_single, valuePairC_fill]

/-- THE SEQUENCE RULES OF THE CODE, by the specification's classification (no hypothesis on the values):
rule 2 → the empty sequence, rule 3 → XPTY0004, both → XPTY0004 (`get_atomized_operand` is called on
both operands, and raises on the long one, before the `is None` test), rule 4 → the pair function on the
specification's two atoms -/
theorem valueCmpC_by_rule (c : Coll) (itz : Option Int) (m : Mode) (op : Op) (L Rr : List Item) :
    match seqRule itz m L Rr with
    | .empty => valueCmpC c itz m op L Rr = .ok none
    | .long => valueCmpC c itz m op L Rr = .error .XPTY0004
    | .emptyOrLong => valueCmpC c itz m op L Rr = .error .XPTY0004
    | .pair a b => valueCmpC c itz m op L Rr = (valuePairWith (pyOpC c m op) op a b).map some := by
  match L, Rr with
  | [], [] => simp [seqRule, valueCmpC_empty]
  | [], [y] => simp [seqRule, valueCmpC_empty]
  | [x], [] => simp [seqRule, valueCmpC_empty]
  | [], _ :: _ :: _ => simp [seqRule, valueCmpC_long_right]
  | [x], _ :: _ :: _ => simp [seqRule, valueCmpC_long_right]
  | _ :: _ :: _, [] => simp [seqRule, valueCmpC_long_left]
  | _ :: _ :: _, [y] => simp [seqRule, valueCmpC_long_left]
  | _ :: _ :: _, _ :: _ :: _ => simp [seqRule, valueCmpC_long_left]
  | [x], [y] => simp only [seqRule, specAtom_eq, valueCmpC_single]

/-! ### string-like singletons: no finding trigger can hold -/

theorem strlike_noUA (a : Atom) (hs : isStrLike3 a = true) (hu : isUA a = false) :
    (∃ s, a = .str s) ∨ (∃ s, a = .uri s) := by
  cases a <;> simp [isStrLike3] at hs <;> simp [isUA] at hu <;> simp

/-- strings / anyURIs under any collation: the code's pair function = the specification's, no hypothesis -/
theorem valuePairC_strlike (c : Coll) (m : Mode) (op : Op) (a b : Atom)
    (hsa : isStrLike3 a = true) (hsb : isStrLike3 b = true) (hua : isUA a = false) (hub : isUA b = false) :
    valuePairWith (pyOpC c m op) op a b = valueOpC c (binOrdered m) op a b := by
  apply valuePairC_conforms c m op a b hua hub
  apply valuePair_conforms m op a b hua hub
  · rcases strlike_noUA a hsa hua with ⟨s, rfl⟩ | ⟨s, rfl⟩ <;> rcases strlike_noUA b hsb hub with ⟨t, rfl⟩ | ⟨t, rfl⟩ <;> rfl
  · rcases strlike_noUA a hsa hua with ⟨s, rfl⟩ | ⟨s, rfl⟩ <;> rcases strlike_noUA b hsb hub with ⟨t, rfl⟩ | ⟨t, rfl⟩ <;>
      simp [trigPromotion, numRank]
  · rcases strlike_noUA a hsa hua with ⟨s, rfl⟩ | ⟨s, rfl⟩ <;> rcases strlike_noUA b hsb hub with ⟨t, rfl⟩ | ⟨t, rfl⟩ <;> rfl

theorem valueOpC_strlike_ok (c : Coll) (bo : Bool) (op : Op) (a b : Atom)
    (hsa : isStrLike3 a = true) (hsb : isStrLike3 b = true) (hua : isUA a = false) (hub : isUA b = false) :
    ∃ v, valueOpC c bo op a b = .ok v := by
  rcases strlike_noUA a hsa hua with ⟨s, rfl⟩ | ⟨s, rfl⟩ <;> rcases strlike_noUA b hsb hub with ⟨t, rfl⟩ | ⟨t, rfl⟩ <;>
    exact ⟨_, rfl⟩

/-- rule 4 applies exactly to two singletons, on the specification's two atoms -/
theorem seqRule_pair_inv (itz : Option Int) (m : Mode) (L Rr : List Item) (a b : Atom)
    (hs : seqRule itz m L Rr = .pair a b) :
    ∃ x y, L = [x] ∧ Rr = [y] ∧ a = untypedToString (atomizeS m (withImplicitTz itz x)) ∧
      b = untypedToString (atomizeS m (withImplicitTz itz y)) := by
  match L, Rr with
  | [x], [y] =>
    simp only [seqRule, SeqRule.pair.injEq] at hs
    obtain ⟨rfl, rfl⟩ := hs
    exact ⟨x, y, rfl, rfl, rfl, rfl⟩
  | [], _ => simp [seqRule] at hs; split at hs <;> cases hs
  | _ :: _ :: _, _ => simp [seqRule] at hs; split at hs <;> cases hs
  | [x], [] => simp [seqRule] at hs
  | [x], _ :: _ :: _ => simp [seqRule] at hs

theorem seqRule_pair_noUA (itz : Option Int) (m : Mode) (L Rr : List Item) (a b : Atom)
    (hs : seqRule itz m L Rr = .pair a b) : isUA a = false ∧ isUA b = false := by
  obtain ⟨x, y, _, _, rfl, rfl⟩ := seqRule_pair_inv itz m L Rr a b hs
  exact ⟨by rw [untypedToString_eq]; exact isUA_castUAStr _, by rw [untypedToString_eq]; exact isUA_castUAStr _⟩

/-- a string-like item (xs:string, xs:anyURI, xs:untypedAtomic, node of an untyped document) stays
string-like through atomization, implicit timezone and the cast of rule 4 -/
theorem specAtom_strlike (itz : Option Int) (m : Mode) (x : Item) (h : isStrLike3 (atomize m x) = true) :
    isStrLike3 (untypedToString (atomizeS m (withImplicitTz itz x))) = true := by
  rw [specAtom_eq]
  cases hx : atomize m x <;> rw [hx] at h <;> simp [isStrLike3] at h <;> rfl

/-! ### conformity of the sequences -/

/-- if on the singleton pair (when there is one) the pair function agrees with the specification, the
value comparison of the sequences returns an outcome §3.7.1 permits — under any collation -/
theorem valueSeqC_conforms (c : Coll) (itz : Option Int) (m : Mode) (op : Op) (L Rr : List Item) (hm : m ≠ .v1)
    (hpair : ∀ a b, seqRule itz m L Rr = .pair a b →
      valuePairWith (pyOpC c m op) op a b = valueOpC c (binOrdered m) op a b ∧
      valueOpC c (binOrdered m) op a b ≠ .error .unsupported) :
    ∃ allowed, valueAllowedC c itz m op L Rr = some allowed ∧
      outOfOR (valueCmpC c itz m op L Rr) ∈ allowed := by
  rw [← valueSeqAllowedC_eq]
  have hr := valueCmpC_by_rule c itz m op L Rr
  unfold valueSeqAllowedC
  simp only [hm, if_false]
  cases hs : seqRule itz m L Rr with
  | empty => rw [hs] at hr; simp only at hr; simp [hr, outOfOR]
  | long => rw [hs] at hr; simp only at hr; simp [hr, outOfOR]
  | emptyOrLong => rw [hs] at hr; simp only at hr; simp [hr, outOfOR]
  | pair a b =>
    rw [hs] at hr; simp only at hr
    obtain ⟨h1, h2⟩ := hpair a b hs
    have hua : isUA a = false ∧ isUA b = false := by
      match L, Rr with
      | [x], [y] =>
        simp only [seqRule, SeqRule.pair.injEq] at hs
        obtain ⟨rfl, rfl⟩ := hs
        exact ⟨by rw [untypedToString_eq]; exact isUA_castUAStr _, by rw [untypedToString_eq]; exact isUA_castUAStr _⟩
      | [], _ => simp [seqRule] at hs; split at hs <;> cases hs
      | _ :: _ :: _, _ => simp [seqRule] at hs; split at hs <;> cases hs
      | [x], [] => simp [seqRule] at hs
      | [x], _ :: _ :: _ => simp [seqRule] at hs
    simp only [pairSpecC_noUA c m op a b hua.1 hua.2, hr, h1]
    cases hv : valueOpC c (binOrdered m) op a b with
    | ok v => cases v <;> simp [outOfOR, Out.ofBool, Except.map]
    | error e => cases e <;> simp_all [outOfOR, Except.map]

end EPV.Cmp

/-
C16: the F&O definitions of the higher-order functions, for a function item that behaves as a
pure total function, are the list combinators (`flatMap`, `filter`, `foldl`, `foldr`,
`zipWith`); partial application = direct call with the filled argument list.
-/
import EPV.Lemmas.ClosuresSim
namespace EPV.Clo

section
variable (callf : Nat → List Seq → SM Seq) (a : Nat)

theorem specForEach_pure (g : Item → Seq) (hg : ∀ x, callf a [[x]] = pure (g x)) :
    ∀ xs : Seq, specForEach callf a xs = pure (xs.flatMap g)
  | [] => rfl
  | x :: xs => by
    simp only [specForEach, hg, specForEach_pure g hg xs, pure_bind, List.flatMap_cons]

theorem specFilter_pure (p : Item → Bool) (hp : ∀ x, callf a [[x]] = pure [.bool (p x)]) :
    ∀ xs : Seq, specFilter callf a xs = pure (xs.filter p)
  | [] => rfl
  | x :: xs => by
    simp only [specFilter, hp, specFilter_pure p hp xs, pure_bind, List.filter_cons]

theorem specFoldLeft_pure (g : Seq → Item → Seq) (hg : ∀ z x, callf a [z, [x]] = pure (g z x)) :
    ∀ (xs : Seq) (zero : Seq), specFoldLeft callf a zero xs = pure (xs.foldl g zero)
  | [], zero => rfl
  | x :: xs, zero => by
    simp only [specFoldLeft, hg, pure_bind, specFoldLeft_pure g hg xs, List.foldl_cons]

theorem specFoldRight_pure (g : Item → Seq → Seq) (hg : ∀ x r, callf a [[x], r] = pure (g x r))
    (zero : Seq) : ∀ xs : Seq, specFoldRight callf a zero xs = pure (xs.foldr g zero)
  | [] => rfl
  | x :: xs => by
    simp only [specFoldRight, specFoldRight_pure g hg zero xs, pure_bind, hg, List.foldr_cons]

theorem specForEachPair_pure (g : Item → Item → Seq) (hg : ∀ x y, callf a [[x], [y]] = pure (g x y)) :
    ∀ xs ys : Seq, specForEachPair callf a xs ys = pure (List.zipWith g xs ys).flatten
  | [], _ => by simp [specForEachPair]
  | _ :: _, [] => by simp [specForEachPair]
  | x :: xs, y :: ys => by
    simp only [specForEachPair, hg, specForEachPair_pure g hg xs ys, pure_bind, List.zipWith_cons_cons,
      List.flatten_cons]

/-- the keys of `fn:sort` are computed from each occurrence of an item, in order -/
theorem specKeys_pure (ci : Bool) (k : Item → Seq) (g : Item → List Int) (hk : ∀ x, callf a [[x]] = pure (k x))
    (hg : ∀ x, keyOf ci (k x) = .ok (g x)) :
    ∀ xs : Seq, specKeys callf ci a xs = pure (xs.map fun x => (x, g x))
  | [] => rfl
  | x :: xs => by
    simp only [specKeys, hk, hg, SM.lift, pure_bind, specKeys_pure ci k g hk hg xs, List.map_cons]

theorem sortSpec_short : ∀ (l : List (Item × List Int)), l.length < 2 → sortSpec l = l
  | [], _ => rfl
  | [x], _ => rfl
  | _ :: _ :: _, h => by simp only [List.length_cons] at h; omega

theorem specSort_pure (ci : Bool) (k : Item → Seq) (g : Item → List Int) (hk : ∀ x, callf a [[x]] = pure (k x))
    (hg : ∀ x, keyOf ci (k x) = .ok (g x)) (xs : Seq) (hu : keysUniform (xs.map g) = true) :
    specSort callf ci a xs = pure ((sortSpec (xs.map fun x => (x, g x))).map (·.1)) := by
  unfold specSort
  split
  · rename_i h
    rw [sortSpec_short _ (by simpa using h)]
    have : ((fun x : Item × List Int => x.1) ∘ fun x => (x, g x)) = id := rfl
    simp [List.map_map, this]
  · have h2 : List.map (fun x : Item × List Int => x.2) (List.map (fun x => (x, g x)) xs) = xs.map g := by
      simp [List.map_map, Function.comp_def]
    simp only [specKeys_pure callf a ci k g hk hg xs, pure_bind, h2, hu, if_true]

end

/-! ### function conversion rules -/

theorem convItem_idem : ∀ (t : ITy) (x y : Item), convItem t x = .ok y → convItem t y = .ok y
  | .item, x, y, h => by simp only [convItem, Except.ok.injEq] at h; subst h; rfl
  | .func, x, y, h => by cases x <;> simp [convItem] at h <;> (subst h; rfl)
  | .atomic, x, y, h => by cases x <;> simp [convItem] at h <;> (subst h; simp [convItem])
  | .integer, x, y, h => by cases x <;> simp [convItem] at h <;> (subst h; rfl)
  | .decimal, x, y, h => by cases x <;> simp [convItem] at h <;> (subst h; rfl)
  | .double, x, y, h => by cases x <;> simp [convItem] at h <;> (subst h; rfl)
  | .boolean, x, y, h => by cases x <;> simp [convItem] at h <;> (subst h; rfl)

theorem convItem_isFn (t : ITy) (x y : Item) (h : convItem t x = .ok y) : y.isFn = x.isFn := by
  cases t <;> cases x <;> simp [convItem] at h <;> (subst h; rfl)

theorem mapM_convItem (t : ITy) : ∀ (s s' : Seq), s.mapM (convItem t) = .ok s' →
    s'.length = s.length ∧ s'.any Item.isFn = s.any Item.isFn ∧ s'.mapM (convItem t) = .ok s'
  | [], s', h => by simp [List.mapM_nil, pure, Except.pure] at h; subst h; simp [pure, Except.pure]
  | x :: xs, s', h => by
    rw [List.mapM_cons] at h
    simp only [bind, Except.bind] at h
    cases hx : convItem t x with
    | error e => simp [hx] at h
    | ok y =>
      cases hr : xs.mapM (convItem t) with
      | error e => simp [hx, hr] at h
      | ok ys =>
        simp only [hx, hr, pure, Except.pure, Except.ok.injEq] at h
        subst h
        obtain ⟨h1, h2, h3⟩ := mapM_convItem t xs ys hr
        refine ⟨by simp [h1], by simp [List.any_cons, h2, convItem_isFn t x y hx], ?_⟩
        rw [List.mapM_cons]
        simp [bind, Except.bind, convItem_idem t x y hx, h3, pure, Except.pure]

/-- the function conversion rules are idempotent: a converted value converts to itself (this is why
the fixed arguments of a partial application, converted when it is evaluated, may be handed to the
conversion again at the call without changing anything) -/
theorem convSeq_idem (t : STy) (s s' : Seq) (h : convSeq t s = .ok s') : convSeq t s' = .ok s' := by
  unfold convSeq at h ⊢
  by_cases h1 : (t.it.isAtomic && s.any Item.isFn) = true
  · simp [h1] at h
  · simp only [h1, Bool.false_eq_true, if_false] at h
    by_cases h2 : t.occ.ok s.length = true
    · simp only [h2, if_true] at h
      obtain ⟨g1, g2, g3⟩ := mapM_convItem t.it s s' h
      simp only [g1, g2, h1, h2, Bool.false_eq_true, if_false, if_true, g3]
    · simp [h2] at h

/-- calling a partial application = calling the underlying function item with the placeholders
filled (specification) -/
theorem specCall_partial (sev : Expr → SCtx → SM Seq) (h : SHeap) (a b : Nat) (o : SObj)
    (pat : List (Option Seq)) (args : List Seq)
    (ha : h[a]? = some { o with fixed := some pat }) (hb : h[b]? = some { o with fixed := none })
    (hn : args.length = holes pat) :
    specCall sev a args h = specCall sev b (fill pat args) h := by
  unfold specCall
  simp only [SM.bind_def, SM.getObj, ha, hb, hn, if_true, SM.pure_def]

end EPV.Clo

/-
C16: the F&O definitions of the higher-order functions, for a function item that behaves as a
pure total function, are the list combinators (`flatMap`, `filter`, `foldl`, `foldr`,
`zipWith`); partial application = direct call with the filled argument list.
-/
import EPV.Lemmas.ClosuresSim
namespace EPV.Clo

section
variable (callf : Nat → List Seq → SM Seq) (a : Nat)

theorem specForEach_pure (g : Item → Seq) (hg : ∀ x, callf a [[x]] = pure (g x)) :
    ∀ xs : Seq, specForEach callf a xs = pure (xs.flatMap g)
  | [] => rfl
  | x :: xs => by
    simp only [specForEach, hg, specForEach_pure g hg xs, pure_bind, List.flatMap_cons]

theorem specFilter_pure (p : Item → Bool) (hp : ∀ x, callf a [[x]] = pure [.bool (p x)]) :
    ∀ xs : Seq, specFilter callf a xs = pure (xs.filter p)
  | [] => rfl
  | x :: xs => by
    simp only [specFilter, hp, specFilter_pure p hp xs, pure_bind, List.filter_cons]

theorem specFoldLeft_pure (g : Seq → Item → Seq) (hg : ∀ z x, callf a [z, [x]] = pure (g z x)) :
    ∀ (xs : Seq) (zero : Seq), specFoldLeft callf a zero xs = pure (xs.foldl g zero)
  | [], zero => rfl
  | x :: xs, zero => by
    simp only [specFoldLeft, hg, pure_bind, specFoldLeft_pure g hg xs, List.foldl_cons]

theorem specFoldRight_pure (g : Item → Seq → Seq) (hg : ∀ x r, callf a [[x], r] = pure (g x r))
    (zero : Seq) : ∀ xs : Seq, specFoldRight callf a zero xs = pure (xs.foldr g zero)
  | [] => rfl
  | x :: xs => by
    simp only [specFoldRight, specFoldRight_pure g hg zero xs, pure_bind, hg, List.foldr_cons]

theorem specForEachPair_pure (g : Item → Item → Seq) (hg : ∀ x y, callf a [[x], [y]] = pure (g x y)) :
    ∀ xs ys : Seq, specForEachPair callf a xs ys = pure (List.zipWith g xs ys).flatten
  | [], _ => by simp [specForEachPair]
  | _ :: _, [] => by simp [specForEachPair]
  | x :: xs, y :: ys => by
    simp only [specForEachPair, hg, specForEachPair_pure g hg xs ys, pure_bind, List.zipWith_cons_cons,
      List.flatten_cons]

/-- the keys of `fn:sort` are computed from each occurrence of an item, in order -/
theorem specKeys_pure (k : Item → Seq) (g : Item → List Int) (hk : ∀ x, callf a [[x]] = pure (k x))
    (hg : ∀ x, keyOf (k x) = .ok (g x)) :
    ∀ xs : Seq, specKeys callf a xs = pure (xs.map fun x => (x, g x))
  | [] => rfl
  | x :: xs => by
    simp only [specKeys, hk, hg, SM.lift, pure_bind, specKeys_pure k g hk hg xs, List.map_cons]

theorem sortSpec_short : ∀ (l : List (Item × List Int)), l.length < 2 → sortSpec l = l
  | [], _ => rfl
  | [x], _ => rfl
  | _ :: _ :: _, h => by simp only [List.length_cons] at h; omega

theorem specSort_pure (k : Item → Seq) (g : Item → List Int) (hk : ∀ x, callf a [[x]] = pure (k x))
    (hg : ∀ x, keyOf (k x) = .ok (g x)) (xs : Seq) (hu : keysUniform (xs.map g) = true) :
    specSort callf a xs = pure ((sortSpec (xs.map fun x => (x, g x))).map (·.1)) := by
  unfold specSort
  split
  · rename_i h
    rw [sortSpec_short _ (by simpa using h)]
    have : ((fun x : Item × List Int => x.1) ∘ fun x => (x, g x)) = id := rfl
    simp [List.map_map, this]
  · have h2 : List.map (fun x : Item × List Int => x.2) (List.map (fun x => (x, g x)) xs) = xs.map g := by
      simp [List.map_map, Function.comp_def]
    simp only [specKeys_pure callf a k g hk hg xs, pure_bind, h2, hu, if_true]

end

/-- calling a partial application = calling the underlying function item with the placeholders
filled (specification) -/
theorem specCall_partial (sev : Expr → SCtx → SM Seq) (h : SHeap) (a b : Nat) (o : SObj)
    (pat : List (Option Seq)) (args : List Seq)
    (ha : h[a]? = some { o with fixed := some pat }) (hb : h[b]? = some { o with fixed := none })
    (hn : args.length = holes pat) :
    specCall sev a args h = specCall sev b (fill pat args) h := by
  unfold specCall
  simp only [SM.bind_def, SM.getObj, ha, hb, hn, if_true, SM.pure_def]

end EPV.Clo

/-
C16: on a tree with the F16 repair (`share = false`) the `stale` trigger is never raised.
-/
import EPV.Lemmas.ClosuresSim
namespace EPV.Clo

/-- the computation never raises `stale` -/
def NS {α} (m : IM α) : Prop := ∀ st, (m st).1.stale = false

theorem NS.ret {α} (a : α) : NS (pure a : IM α) := fun _ => rfl
theorem NS.thr {α} (e : Err) : NS (IM.throw e : IM α) := fun _ => rfl

theorem NS.bnd {α β} {m : IM α} {f : α → IM β} (hm : NS m) (hf : ∀ a, NS (f a)) : NS (m >>= f) := by
  intro st
  rw [IM.bind_def]
  have h1 := hm st
  generalize m st = r at h1
  obtain ⟨fl, r⟩ := r
  cases r with
  | error e => exact h1
  | ok v =>
    obtain ⟨a, st'⟩ := v
    have h2 := hf a st'
    simp only [Flags.or] at h1 ⊢
    simp [h1, h2]

theorem NS.flag (fl : Flags) (h : fl.stale = false) : NS (IM.flag fl) := fun _ => h
theorem NS.lift {α} (x : Except Err α) : NS (IM.lift x) := by
  cases x <;> intro st <;> rfl
theorem NS.single (v : Seq) : NS (IM.single v) := by
  unfold IM.single; split <;> intro st <;> rfl
theorem NS.alloc (o : FObj) : NS (IM.alloc o) := fun _ => rfl
theorem NS.getObj (a : Nat) : NS (IM.getObj a) := by
  intro st; simp only [IM.getObj]; split <;> rfl
theorem NS.setSlot (t : Nat) (v : Env × Env) : NS (IM.setSlot t v) := fun _ => rfl
theorem NS.getSlot (t : Nat) : NS (IM.getSlot t) := fun _ => rfl
/-- basic steps, tried in order -/
macro "ns_basic" : tactic => `(tactic| first
  | exact NS.ret _ | exact NS.thr _ | exact NS.lift _ | exact NS.single _ | exact NS.alloc _
  | exact NS.getObj _ | exact NS.setSlot _ _ | exact NS.getSlot _ | exact NS.flag _ rfl
  | assumption)

section
variable (cfg : Cfg) (hs : cfg.share = false)
variable (ev : Expr → ICtx → Env → IM (Seq × Env)) (hev : ∀ e c D, NS (ev e c D))
include hs

omit hs in
theorem ns_checkArity (a n : Nat) : NS (checkArity a n) := by
  unfold checkArity
  apply NS.bnd (NS.getObj _); intro o
  split <;> ns_basic

theorem ns_currentVars (o : FObj) : NS (currentVars cfg o) := by
  unfold currentVars
  rw [hs]
  exact NS.ret _

include hev

omit hs in
theorem ns_runBody (c : ICtx) (D : Env) (body : Expr) (binds : List (Nat × Seq)) (env : Option Env) (lex : Env) :
    NS (runBody cfg ev c D body binds env lex) := by
  unfold runBody
  exact NS.bnd (hev _ _ _) (fun _ => NS.ret _)

theorem ns_callFn (c : ICtx) (D : Env) (a : Nat) (args : List Seq) : NS (callFn cfg ev c D a args) := by
  unfold callFn
  apply NS.bnd (NS.getObj _); intro o
  have hb := ns_runBody cfg ev hev c D
  have hc := ns_currentVars cfg hs o
  repeat' (first | ns_basic | apply hb | exact hc | apply NS.bnd | split | dsimp only | intro _)

omit hs in
theorem ns_evalArgs (c : ICtx) : ∀ (as : List (Option Expr)) (D : Env), NS (evalArgs ev c D as)
  | [], D => NS.ret _
  | none :: as, D => by
    simp only [evalArgs]; exact NS.bnd (ns_evalArgs c as D) (fun _ => NS.ret _)
  | some e :: as, D => by
    simp only [evalArgs]
    exact NS.bnd (hev _ _ _) (fun v => NS.bnd (ns_evalArgs c as v.2) (fun _ => NS.ret _))

omit hs in
theorem ns_evalList (c : ICtx) : ∀ (es : List Expr) (D : Env), NS (evalList ev c D es)
  | [], D => NS.ret _
  | e :: es, D => by
    simp only [evalList]
    exact NS.bnd (hev _ _ _) (fun v => NS.bnd (ns_evalList c es v.2) (fun _ => NS.ret _))

theorem ns_partialApply (c : ICtx) (D : Env) (a : Nat) (args : List (Option Expr)) :
    NS (partialApply cfg ev c D a args) := by
  unfold partialApply
  apply NS.bnd (NS.getObj _); intro o
  split
  · apply NS.bnd (ns_currentVars cfg hs o); intro vars
    apply NS.bnd (ns_evalArgs ev hev c _ _); intro r
    apply NS.bnd (NS.lift _); intro pat'
    exact NS.bnd (NS.alloc _) (fun _ => NS.ret _)
  · exact NS.thr _

omit hs in
theorem ns_funArgEval (c : ICtx) (D : Env) (f : Expr) : NS (funArgEval ev c D f) := by
  unfold funArgEval
  exact NS.bnd (hev _ _ _) (fun v => NS.bnd (NS.single _) (fun _ => NS.ret _))

omit hs in
theorem ns_funArgCheck (c : ICtx) (D : Env) (f : Expr) (n : Nat) : NS (funArgCheck ev c D f n) := by
  unfold funArgCheck
  exact NS.bnd (ns_funArgEval ev hev c D f) (fun fa => NS.bnd (ns_checkArity _ _) (fun _ => NS.ret _))

omit hs in
theorem ns_forLoop (c : ICtx) (x : Nat) (b : Expr) : ∀ (is : Seq) (D : Env) (acc : Seq), NS (forLoop ev c x b D acc is)
  | [], D, acc => NS.ret _
  | i :: is, D, acc => by
    simp only [forLoop]; exact NS.bnd (hev _ _ _) (fun r => ns_forLoop c x b is _ _)

omit hs in
theorem ns_mapLoop (c : ICtx) (b : Expr) (size : Nat) : ∀ (is : Seq) (k : Nat) (D : Env) (acc : Seq),
    NS (mapLoop ev c b size k D acc is)
  | [], k, D, acc => NS.ret _
  | i :: is, k, D, acc => by
    simp only [mapLoop]; exact NS.bnd (hev _ _ _) (fun r => ns_mapLoop c b size is _ _ _)

theorem ns_hofForEach (c : ICtx) (a : Nat) : ∀ (xs : Seq) (D : Env) (acc : Seq), NS (hofForEach cfg ev c a D acc xs)
  | [], D, acc => NS.ret _
  | x :: xs, D, acc => by
    simp only [hofForEach]; exact NS.bnd (ns_callFn cfg hs ev hev _ _ _ _) (fun r => ns_hofForEach c a xs _ _)

theorem ns_hofFilter (c : ICtx) (a : Nat) : ∀ (xs : Seq) (D : Env) (acc : Seq), NS (hofFilter cfg ev c a D acc xs)
  | [], D, acc => NS.ret _
  | x :: xs, D, acc => by
    simp only [hofFilter]
    apply NS.bnd (ns_callFn cfg hs ev hev _ _ _ _); intro r
    split
    · exact ns_hofFilter c a xs _ _
    · exact NS.thr _

theorem ns_hofFoldLeft (c : ICtx) (a : Nat) : ∀ (xs : Seq) (D : Env) (res : Seq), NS (hofFoldLeft cfg ev c a D res xs)
  | [], D, res => NS.ret _
  | x :: xs, D, res => by
    simp only [hofFoldLeft]; exact NS.bnd (ns_callFn cfg hs ev hev _ _ _ _) (fun r => ns_hofFoldLeft c a xs _ _)

theorem ns_hofFoldRightRev (c : ICtx) (a : Nat) : ∀ (xs : Seq) (D : Env) (res : Seq),
    NS (hofFoldRightRev cfg ev c a D res xs)
  | [], D, res => NS.ret _
  | x :: xs, D, res => by
    simp only [hofFoldRightRev]
    exact NS.bnd (ns_callFn cfg hs ev hev _ _ _ _) (fun r => ns_hofFoldRightRev c a xs _ _)

theorem ns_hofPairs (c : ICtx) (a : Nat) : ∀ (ps : List (Item × Item)) (D : Env) (acc : Seq),
    NS (hofPairs cfg ev c a D acc ps)
  | [], D, acc => NS.ret _
  | (x, y) :: ps, D, acc => by
    simp only [hofPairs]; exact NS.bnd (ns_callFn cfg hs ev hev _ _ _ _) (fun r => ns_hofPairs c a ps _ _)

theorem ns_hofKeys (ci : Bool) (c : ICtx) (a : Nat) : ∀ (xs : Seq) (D : Env) (acc : List (Item × List Int)),
    NS (hofKeys cfg ev ci c a D acc xs)
  | [], D, acc => NS.ret _
  | x :: xs, D, acc => by
    simp only [hofKeys]
    exact NS.bnd (ns_callFn cfg hs ev hev _ _ _ _) (fun r => NS.bnd (NS.lift _) (fun k => ns_hofKeys ci c a xs _ _))

omit hs in
theorem ns_evArith (op : AOp) (a b : Expr) (c : ICtx) (D : Env) : NS (evArith ev op a b c D) := by
  unfold evArith
  apply NS.bnd (hev _ _ _); intro x
  split
  · exact NS.thr _
  · exact NS.ret _
  · exact NS.bnd (hev _ _ _) (fun _ => NS.bnd (NS.lift _) (fun _ => NS.ret _))

omit hs in
theorem ns_evCompare (op : COp) (a b : Expr) (c : ICtx) (D : Env) : NS (evCompare ev op a b c D) := by
  unfold evCompare
  exact NS.bnd (hev _ _ _) (fun _ => NS.bnd (hev _ _ _) (fun _ => NS.bnd (NS.lift _) (fun _ => NS.ret _)))

theorem ns_step (e : Expr) (c : ICtx) (D : Env) : NS (step cfg ev e c D) := by
  cases e with
  | lit n => exact NS.ret _
  | dlit n => exact NS.ret _
  | elit n => exact NS.ret _
  | slit cs => exact NS.ret _
  | nanlit => exact NS.ret _
  | inflit p => exact NS.ret _
  | negzlit => exact NS.ret _
  | inst t e =>
    simp only [step]
    exact NS.bnd (hev _ _ _) (fun _ => NS.ret _)
  | tt => exact NS.ret _
  | ff => exact NS.ret _
  | emp => exact NS.ret _
  | var x =>
    simp only [step]
    apply NS.bnd (NS.flag _ rfl); intro _
    split <;> ns_basic
  | dot =>
    simp only [step]
    split
    · exact NS.ret _
    · exact NS.thr _
  | posE =>
    simp only [step]
    split
    · exact NS.ret _
    · exact NS.thr _
  | lastE =>
    simp only [step]
    split
    · exact NS.ret _
    · exact NS.thr _
  | add a b => exact ns_evArith ev hev _ a b c D
  | sub a b => exact ns_evArith ev hev _ a b c D
  | mul a b => exact ns_evArith ev hev _ a b c D
  | gt a b => exact ns_evCompare ev hev _ a b c D
  | eq a b => exact ns_evCompare ev hev _ a b c D
  | cat a b =>
    simp only [step]
    exact NS.bnd (hev _ _ _) (fun _ => NS.bnd (hev _ _ _) (fun _ => NS.ret _))
  | ite cnd t e =>
    simp only [step]
    apply NS.bnd (hev _ _ _); intro v
    apply NS.bnd (NS.lift _); intro b
    split <;> exact hev _ _ _
  | forE x s b =>
    simp only [step]
    exact NS.bnd (hev _ _ _) (fun xs => NS.bnd (ns_forLoop ev hev c x b _ _ _) (fun _ => NS.ret _))
  | letE x v b =>
    simp only [step]
    exact NS.bnd (hev _ _ _) (fun _ => NS.bnd (hev _ _ _) (fun _ => NS.ret _))
  | fnE t ps body =>
    simp only [step, hs, Bool.false_eq_true, if_false]
    first
      | (apply NS.bnd (NS.alloc _); intro _; exact NS.ret _)
      | (apply NS.bnd (NS.ret _); intro _; apply NS.bnd (NS.alloc _); intro _; exact NS.ret _)
  | tfnE t ps tys rt body =>
    simp only [step, hs, Bool.false_eq_true, if_false]
    first
      | (apply NS.bnd (NS.alloc _); intro _; exact NS.ret _)
      | (apply NS.bnd (NS.ret _); intro _; apply NS.bnd (NS.alloc _); intro _; exact NS.ret _)
  | named b =>
    simp only [step]
    exact NS.bnd (NS.alloc _) (fun _ => NS.ret _)
  | call f args =>
    simp only [step]
    apply NS.bnd (hev _ _ _); intro fv
    apply NS.bnd (NS.single _); intro a
    split
    · exact ns_partialApply cfg hs ev hev _ _ _ _
    · exact NS.bnd (ns_evalList ev hev _ _ _) (fun _ => ns_callFn cfg hs ev hev _ _ _ _)
  | spart b args =>
    simp only [step]
    split
    · exact NS.bnd (ns_evalArgs ev hev _ _ _) (fun _ => NS.bnd (NS.alloc _) (fun _ => NS.ret _))
    · exact NS.thr _
  | par e => exact hev _ _ _
  | smap a b =>
    simp only [step]
    exact NS.bnd (hev _ _ _) (fun _ => ns_mapLoop ev hev _ _ _ _ _ _ _)
  | forEach s f =>
    simp only [step]
    exact NS.bnd (ns_funArgCheck ev hev _ _ _ _) (fun _ => NS.bnd (hev _ _ _)
      (fun _ => ns_hofForEach cfg hs ev hev _ _ _ _ _))
  | filter s f =>
    simp only [step]
    exact NS.bnd (ns_funArgCheck ev hev _ _ _ _) (fun _ => NS.bnd (hev _ _ _)
      (fun _ => ns_hofFilter cfg hs ev hev _ _ _ _ _))
  | foldL s z f =>
    simp only [step]
    exact NS.bnd (ns_funArgCheck ev hev _ _ _ _) (fun _ => NS.bnd (hev _ _ _) (fun _ => NS.bnd (hev _ _ _)
      (fun _ => ns_hofFoldLeft cfg hs ev hev _ _ _ _ _)))
  | foldR s z f =>
    simp only [step]
    exact NS.bnd (ns_funArgCheck ev hev _ _ _ _) (fun _ => NS.bnd (hev _ _ _) (fun _ => NS.bnd (hev _ _ _)
      (fun _ => ns_hofFoldRightRev cfg hs ev hev _ _ _ _ _)))
  | pairs s1 s2 f =>
    simp only [step]
    apply NS.bnd (ns_funArgCheck ev hev _ _ _ _); intro fa
    apply NS.bnd (hev _ _ _); intro xs
    split
    · exact NS.ret _
    · exact NS.bnd (hev _ _ _) (fun _ => ns_hofPairs cfg hs ev hev _ _ _ _ _)
  | sortK ci s f =>
    simp only [step]
    apply NS.bnd (ns_funArgCheck ev hev _ _ _ _); intro fa
    apply NS.bnd (hev _ _ _); intro xs
    split
    · exact NS.ret _
    · apply NS.bnd (ns_hofKeys cfg hs ev hev _ _ _ _ _ _); intro ks
      split
      · exact NS.ret _
      · exact NS.thr _
  | apply f ms =>
    simp only [step]
    apply NS.bnd (ns_funArgEval ev hev _ _ _); intro fa
    apply NS.bnd (ns_evalList ev hev _ _ _); intro vals
    apply NS.bnd (NS.getObj _); intro o
    split
    · exact ns_callFn cfg hs ev hev _ _ _ _
    · exact NS.thr _

end

/-- with the F16 repair the `stale` trigger is never raised, whatever the program -/
theorem ns_eval (cfg : Cfg) (hs : cfg.share = false) : ∀ (n : Nat) (e : Expr) (c : ICtx) (D : Env),
    NS (eval cfg n e c D)
  | 0, _, _, _ => NS.thr _
  | n + 1, e, c, D => ns_step cfg hs (eval cfg n) (ns_eval cfg hs n) e c D

end EPV.Clo

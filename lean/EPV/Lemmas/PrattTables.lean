/-
C04 helper: the executable consistency check over a concrete generated table (`checkB`) and its
soundness (`consistent_of_check`): if the check evaluates to `true` then the abstract hypothesis
`Consistent` of the generic theorems holds for the table and the grammar built from the level list.
-/
import EPV.Lemmas.PrattDerive
namespace EPV.Pratt
open EPV.Syn

def syms (rows : List Row) : List String := rows.map (·.sym)

/-- doubled binding power of level `j`: `2 * lbp` of the first symbol listed for the level (`2 * nud-rbp + 1`
for a prefix level); `rowOk` then forces every other symbol of the level to have the same value -/
def bpOf (rows : List Row) (levels : List Level) (j : Nat) : Nat :=
  match levels[j]? with
  | some L =>
    match L.ops.head? with
    | some s =>
      match rows.find? (·.sym == s) with
      | some row =>
        if L.kind == .prefix then (match row.nud with | .prefix r _ => 2 * r + 1 | _ => 0) else 2 * row.lbp
      | none => 0
    | none => 0
  | none => 0

/-- every operator symbol of the level list is a row of the table -/
def coverB (rows : List Row) (levels : List Level) : Bool :=
  levels.all fun L => L.ops.all fun s => rows.any (·.sym == s)

/-- the largest lbp among the modelled operator symbols -/
def maxLbp (rows : List Row) : Nat :=
  rows.foldl (fun m r => match r.led with | .none => m | .other => m | _ => max m r.lbp) 0

def checkB (rows : List Row) (levels : List Level) (emptyParens : Bool) : Bool :=
  let T := tableOf rows
  let G := gramOf levels emptyParens (syms rows)
  let bp := bpOf rows levels
  (List.range rows.length).all (rowOk T G bp (maxLbp rows)) &&
    (List.range levels.length).all (fun i => decide (i + 1 < levels.length → bp i < bp (i + 1))) &&
    coverB rows levels && decide (0 < bp 0)

theorem consistent_of_check (rows : List Row) (levels : List Level) (ep : Bool)
    (h : checkB rows levels ep = true) :
    Consistent (tableOf rows) (gramOf levels ep (syms rows)) (bpOf rows levels) (maxLbp rows) := by
  simp only [checkB, Bool.and_eq_true, List.all_eq_true, List.mem_range, decide_eq_true_eq] at h
  obtain ⟨⟨⟨h1, h2⟩, -⟩, -⟩ := h
  constructor
  · intro o
    by_cases ho : o < rows.length
    · exact h1 o ho
    · have : rows[o]? = none := List.getElem?_eq_none (by omega)
      simp [rowOk, tableOf, this]
  · intro i hi
    have hi' : i + 1 < levels.length := hi
    exact h2 i (by omega) hi'

end EPV.Pratt

namespace EPV.Pratt
open EPV.Syn

theorem pos_of_check (rows : List Row) (levels : List Level) (ep : Bool)
    (h : checkB rows levels ep = true) : 0 < bpOf rows levels 0 := by
  simp only [checkB, Bool.and_eq_true, decide_eq_true_eq] at h
  exact h.2

/-- occurrence-indicator code of a symbol of the table: `?` 1, `*` 2, `+` 3 -/
def occOfRow (rows : List Row) (o : Nat) : Option Nat :=
  match (rows[o]?).map (·.sym) with
  | some "?" => some 1
  | some "*" => some 2
  | some "+" => some 3
  | _ => none

/-- the typed operators that take a SingleType ([18] CastableExpr, [19] CastExpr) -/
def singleRow (rows : List Row) (o : Nat) : Bool :=
  match (rows[o]?).map (·.sym) with
  | some "cast" => true
  | some "castable" => true
  | _ => false

/-- the token list after the lexical constraint on occurrence indicators (`EPV.Syn.absorbOcc`) -/
def normalize (rows : List Row) (toks : List Tok) : List Tok := absorbOcc (occOfRow rows) (singleRow rows) toks

/-- the operator token of symbol `s` in a generated table (row index looked up by symbol) -/
def opTok (rows : List Row) (s : String) : Tok := .op (rows.findIdx (·.sym == s))

/-- name operand `n` -/
def nm (n : Nat) : Tok := .atom 0 n
def num (n : Nat) : Tok := .atom 1 n

/-- model and reference parser on the same token list -/
def modelParse (rows : List Row) (toks : List Tok) : Except Err Tree := parse (tableOf rows) toks
def specParse (levels : List Level) (ep : Bool) (rows : List Row) (toks : List Tok) : Option Tree :=
  ebnfParse (gramOf levels ep (syms rows)) toks

/-- the model accepts the token list -/
def accepts (rows : List Row) (toks : List Tok) : Bool := (modelParse rows toks).toOption.isSome
/-- the model rejects the token list with a syntax error -/
def rejects (rows : List Row) (toks : List Tok) : Bool :=
  match modelParse rows toks with | .error .syntax => true | _ => false
/-- the model's tree is an EBNF derivation from the start symbol -/
def modelDerivable (levels : List Level) (ep : Bool) (rows : List Row) (toks : List Tok) : Option Bool :=
  (modelParse rows toks).toOption.map (derivable (gramOf levels ep (syms rows)) 0)

/-! ### trigger predicates of the findings (computed from the input through the reference parser) -/

def symOf (rows : List Row) (o : Nat) : String := ((rows[o]?).map (·.sym)).getD "?"

/-- some node of the tree satisfies `p` -/
def anyNode (p : Tree → Bool) : Tree → Bool
  | .nil => p .nil
  | .atom k n => p (.atom k n)
  | .group g c e => p (.group g c e) || anyNode p e
  | .pre q x => p (.pre q x) || anyNode p x
  | .bin o l r => p (.bin o l r) || anyNode p l || anyNode p r
  | .typed o l n => p (.typed o l n) || anyNode p l
  | .post o c l e => p (.post o c l e) || anyNode p l || anyNode p e
  | .arrow o l f a => p (.arrow o l f a) || anyNode p l || anyNode p f || anyNode p a

def binSym (rows : List Row) : Tree → Option String
  | .bin o _ _ => some (symOf rows o)
  | _ => none

def isCmp10 (s : Option String) : Bool := s ∈ [some "=", some "!=", some "<", some "<=", some ">", some ">="]
def isPath (s : Option String) : Bool := s ∈ [some "/", some "//"]

/-- F04a trigger (XPath 1.0): the W3C derivation has a comparison whose operand is an unparenthesised
comparison (`1 = 2 = 3`, `1 < 2 = 3`, `1 = 2 < 3`) -/
def trigF04a (rows : List Row) (spec : Tree) : Bool :=
  anyNode (fun t => match t with
    | .bin o l r => isCmp10 (some (symOf rows o)) && (isCmp10 (binSym rows l) || isCmp10 (binSym rows r))
    | _ => false) spec

/-- first token of a tree -/
def firstTok (t : Tree) : Option Tok := t.yield.head?

/-- the token is the lookup symbol `?` -/
def isLookupTok (rows : List Row) : Option Tok → Bool
  | some (.op q) => symOf rows q == "?"
  | _ => false

/-- F04d trigger: the W3C derivation has a path step whose left operand is a postfix / unary lookup (3.1), or
whose right operand starts with a variable reference (2.0) or a unary lookup (3.1).
(The 1.0 cases — left operand a parenthesised expression or a function call — were repaired in /repo and are
no longer part of the trigger.) -/
def trigF04d (ver : Nat) (rows : List Row) (spec : Tree) : Bool :=
  anyNode (fun t => match t with
    | .bin o l r => isPath (some (symOf rows o)) &&
        ((ver == 31 && (binSym rows l == some "?" ||
            (match l with | .pre q _ => symOf rows q == "?" | _ => false) || isLookupTok rows (firstTok r))) ||
         (ver == 20 && (match firstTok r with | some (.atom 2 _) => true | _ => false)))
    | _ => false) spec

/-! #### which laxities the pinned code has (F04b) -/

/-- guard classes of the optional-once operators: an operator rejects a left operand whose top operator
is in its own class (general / value / `is` comparisons, `to`); `<<` and `>>` have no guard -/
def guardClass (s : String) : Nat :=
  if s ∈ ["=", "!=", "<", "<=", ">", ">="] then 1
  else if s ∈ ["eq", "ne", "lt", "le", "gt", "ge"] then 2
  else if s == "is" then 3
  else if s == "to" then 4
  else 0

/-- every optional-once operator of a guard class denies every operator of its class as left operand -/
def guardsB (rows : List Row) : Bool :=
  (List.range rows.length).all fun o =>
    let c := guardClass (symOf rows o)
    c == 0 ||
      match (tableOf rows).led o with
      | .infix _ deny _ =>
          (List.range rows.length).all fun o' => guardClass (symOf rows o') != c || deny.contains (2 * o' + 1)
      | _ => false

/-- the node uses one of the laxities that the pinned code is known to have (finding F04b), judged
against the grammar `G` the table is consistent with:
* L1 a prefix-operator expression as right operand / prefix operand of a tighter operator,
* L2 a typed-operator expression as left operand of a tighter operator,
* L3 an optional-once comparison whose left operand is a comparison of a *different* guard class, or a
  `<<` / `>>` (no guard class),
* L4 the function specifier and the argument list of `=>` are any expressions of a higher level (`a => $f?k(1)`,
  `a => $f(1)(2)`: `led__arrow_operator` parses them with `expression(80)` / `expression(67)` and only checks that
  the latter is `(`-topped) -/
def nodeLaxOk (rows : List Row) (G : Gram) : Tree → Bool
  | .pre p x =>
      if G.ulk p then x.isKeySpec
      else match G.pre p with
        | some j => decide (j ≤ lvl G x) || x.isPre
        | none => false
  | .bin o l r => match G.led o with
      | some (j, .left) => (decide (j ≤ lvl G l) || l.isTyped) && (decide (j + 1 ≤ lvl G r) || r.isPre)
      | some (j, .none) =>
          (decide (j + 1 ≤ lvl G l) || l.isTyped ||
            (decide (j ≤ lvl G l) && (match l with
              | .bin o' _ _ => guardClass (symOf rows o) == 0 || guardClass (symOf rows o) != guardClass (symOf rows o')
              | _ => false))) &&
          (decide (j + 1 ≤ lvl G r) || r.isPre)
      | some (j, .key) => decide (j ≤ lvl G l) || l.isTyped
      | _ => false
  | .typed o l _ => match G.led o with
      | some (j, .typed) => decide (j + 1 ≤ lvl G l) || l.isTyped
      | _ => false
  | .post o _ l _ => match G.led o with
      | some (j, .bracket _ _) => decide (j ≤ lvl G l) || l.isTyped
      | _ => false
  | .arrow o l f a => match G.led o with
      | some (j, .arrow) =>
          (decide (j ≤ lvl G l) || l.isTyped) && (f.isArrowSpec || decide (j + 1 ≤ lvl G f) || f.isPre) &&
            (a.isGroup || decide (j + 1 ≤ lvl G a) || a.isPre)
      | _ => false
  | _ => true

def pinnedLax (rows : List Row) (G : Gram) (t : Tree) : Bool := !anyNode (fun n => !nodeLaxOk rows G n) t

/-- F04b trigger: the W3C reference parser rejects the token list, the table-driven parser accepts it, and
its tree deviates from the grammar the table is consistent with only by the pinned laxities L1–L3 -/
def trigF04b (rows : List Row) (impl : List Level) (ep : Bool) (spec : Option Tree) (toks : List Tok) : Bool :=
  spec.isNone &&
    match modelParse rows toks with
    | .ok t => pinnedLax rows (gramOf impl ep (syms rows)) t
    | .error _ => false

/-! #### accepted trees never chain two operators of one guard class -/

/-- a comparison / range operator applied to an unparenthesised left operand of its own guard class -/
def sameClassChain (cls : Nat → Nat) : Tree → Bool
  | .bin o (.bin o' _ _) _ => cls o != 0 && cls o == cls o'
  | _ => false

/-- every operator of a guard class denies every operator of its class -/
def GuardsComplete (T : Tbl) (cls : Nat → Nat) : Prop :=
  ∀ o r deny rhs, T.led o = .infix r deny rhs → cls o ≠ 0 → ∀ o', cls o' = cls o → deny.contains (2 * o' + 1) = true

theorem wfr_no_chain (T : Tbl) (cls : Nat → Nat) (hg : GuardsComplete T cls) :
    ∀ t, WFr T t → anyNode (sameClassChain cls) t = false := by
  intro t
  induction t with
  | nil => intro h; simp [WFr] at h
  | atom => intro _; simp [anyNode, sameClassChain]
  | group g c e ih =>
    intro h
    cases hn : T.nud g <;> simp only [WFr, hn] at h
    rcases h.2 with ⟨rfl, -⟩ | h2
    · simp [anyNode, sameClassChain]
    · simp [anyNode, sameClassChain, ih h2]
  | pre p x ih =>
    intro h
    cases hn : T.nud p <;> simp only [WFr, hn] at h
    simp [anyNode, sameClassChain, ih h.1]
  | bin o l r ihl ihr =>
    intro h
    cases hl : T.led o <;> simp only [WFr, hl] at h
    rename_i rb deny rhs
    obtain ⟨hwl, hwr, -, -, hdeny, -⟩ := h
    have h0 : sameClassChain cls (.bin o l r) = false := by
      cases l with
      | bin o' l' r' =>
        simp only [sameClassChain, Bool.and_eq_false_iff, bne_eq_false_iff_eq, beq_eq_false_iff_ne]
        by_cases hc0 : cls o = 0
        · left; exact hc0
        · right
          intro heq
          have := hg o rb deny rhs hl hc0 o' heq.symm
          simp only [Tree.head] at hdeny
          rw [this] at hdeny
          exact absurd hdeny (by simp)
      | _ => rfl
    simp [anyNode, h0, ihl hwl, ihr hwr]
  | typed o l n ih =>
    intro h
    cases hl : T.led o <;> simp only [WFr, hl] at h
    simp [anyNode, sameClassChain, ih h.1]
  | post o c l e ihl ihe =>
    intro h
    cases hl : T.led o <;> simp only [WFr, hl] at h
    obtain ⟨-, hwl, -, -, he⟩ := h
    rcases he with ⟨rfl, -⟩ | he
    · simp [anyNode, sameClassChain, ihl hwl]
    · simp [anyNode, sameClassChain, ihl hwl, ihe he]
  | arrow o l f a ihl ihf iha =>
    intro h
    cases hl : T.led o <;> simp only [WFr, hl] at h
    simp [anyNode, sameClassChain, ihl h.1, ihf h.2.1, iha h.2.2.1]

theorem guardsComplete_of_check (rows : List Row) (h : guardsB rows = true) :
    GuardsComplete (tableOf rows) (fun o => guardClass (symOf rows o)) := by
  intro o r deny rhs hled hc o' hcls
  simp only [guardsB, List.all_eq_true, List.mem_range] at h
  have ho : o < rows.length := by
    by_cases ho : o < rows.length
    · exact ho
    · have : rows[o]? = none := List.getElem?_eq_none (by omega)
      simp [tableOf, this] at hled
  have ho' : o' < rows.length := by
    by_cases ho' : o' < rows.length
    · exact ho'
    · have : rows[o']? = none := List.getElem?_eq_none (by omega)
      have h1 : guardClass (symOf rows o') = 0 := by simp [symOf, this, guardClass]
      simp only at hcls
      rw [h1] at hcls
      exact absurd hcls.symm hc
  have := h o ho
  simp only [hled, Bool.or_eq_true, beq_iff_eq, List.all_eq_true, List.mem_range, bne_iff_ne, ne_eq] at this
  rcases this with h0 | hall
  · exact absurd h0 hc
  · rcases hall o' ho' with h1 | h1
    · exact absurd hcls h1
    · exact h1

end EPV.Pratt

namespace EPV.Pratt
open EPV.Syn

/-! #### a prefix symbol whose nud-rbp dominates every lbp parses a primary (unary lookup `?`) -/

/-- every symbol with a modelled `led` has lbp ≤ `r` -/
def dominates (rows : List Row) (r : Nat) : Bool :=
  rows.all fun row => match row.led with | .none => true | .other => true | _ => decide (row.lbp ≤ r)

/-- the tree was not built by a `led`: it is an operand, a parenthesised expression or a prefix expression -/
def notLedBuilt : Tree → Bool
  | .bin .. => false
  | .typed .. => false
  | .post .. => false
  | .arrow .. => false
  | _ => true

/-- in every tree returned by the parser, the operand of a prefix symbol whose nud-rbp dominates all
binding powers is closed before any binary / typed / postfix operator applies: the operator that follows
takes the whole prefix expression as its left operand -/
theorem dominant_prefix_operand (rows : List Row) (p r : Nat) (hp : ∃ rhs, (tableOf rows).nud p = .prefix r rhs)
    (hdom : dominates rows r = true) :
    ∀ t, WFr (tableOf rows) t → anyNode (fun n => match n with
      | .pre q x => q == p && !notLedBuilt x
      | _ => false) t = false := by
  have hl : ∀ o, (match (tableOf rows).led o with | .none => True | .other => True | _ => (tableOf rows).lbp o ≤ r) := by
    intro o
    simp only [dominates, List.all_eq_true] at hdom
    by_cases ho : o < rows.length
    · have := hdom rows[o] (List.getElem_mem ho)
      simp only [tableOf, List.getElem?_eq_getElem ho, Option.map_some, Option.getD_some]
      split <;> simp_all
    · have : rows[o]? = none := List.getElem?_eq_none (by omega)
      simp [tableOf, this]
  intro t
  induction t with
  | nil => intro h; simp [WFr] at h
  | atom => intro _; simp [anyNode]
  | group g c e ih =>
    intro h
    cases hn : (tableOf rows).nud g <;> simp only [WFr, hn] at h
    rcases h.2 with ⟨rfl, -⟩ | h2
    · simp [anyNode]
    · simp [anyNode, ih h2]
  | pre q x ih =>
    intro h
    cases hn : (tableOf rows).nud q <;> simp only [WFr, hn] at h
    rename_i rq rhsq
    obtain ⟨hx, hgt, -⟩ := h
    have h0 : (q == p && !notLedBuilt x) = false := by
      by_cases hqp : q = p
      · subst hqp
        obtain ⟨rhs, hp⟩ := hp
        rw [hp] at hn
        simp only [Nud.prefix.injEq] at hn
        obtain ⟨hn, -⟩ := hn
        subst hn
        cases x with
        | bin o l r' =>
          cases hled : (tableOf rows).led o <;> simp only [WFr, hled] at hx
          have := hl o
          simp only [hled] at this
          simp only [lbpTop, gtO] at hgt
          omega
        | typed o l n =>
          cases hled : (tableOf rows).led o <;> simp only [WFr, hled] at hx
          have := hl o
          simp only [hled] at this
          simp only [lbpTop, gtO] at hgt
          omega
        | post o c l e =>
          cases hled : (tableOf rows).led o <;> simp only [WFr, hled] at hx
          have := hl o
          simp only [hled] at this
          simp only [lbpTop, gtO] at hgt
          omega
        | arrow o l f a =>
          cases hled : (tableOf rows).led o <;> simp only [WFr, hled] at hx
          have := hl o
          simp only [hled] at this
          simp only [lbpTop, gtO] at hgt
          omega
        | _ => simp [notLedBuilt]
      · simp [hqp]
    simp [anyNode, h0, ih hx]
  | bin o l r' ihl ihr =>
    intro h
    cases hled : (tableOf rows).led o <;> simp only [WFr, hled] at h
    simp [anyNode, ihl h.1, ihr h.2.1]
  | typed o l n ih =>
    intro h
    cases hled : (tableOf rows).led o <;> simp only [WFr, hled] at h
    simp [anyNode, ih h.1]
  | post o c l e ihl ihe =>
    intro h
    cases hled : (tableOf rows).led o <;> simp only [WFr, hled] at h
    obtain ⟨-, hwl, -, -, he⟩ := h
    rcases he with ⟨rfl, -⟩ | he
    · simp [anyNode, ihl hwl]
    · simp [anyNode, ihl hwl, ihe he]
  | arrow o l f a ihl ihf iha =>
    intro h
    cases hled : (tableOf rows).led o <;> simp only [WFr, hled] at h
    simp [anyNode, ihl h.1, ihf h.2.1, iha h.2.2.1]

/-- the table with the `nud` of symbol `s` replaced by a plain prefix with the given rbp -/
def withPrefixNud (rows : List Row) (s : String) (r : Nat) : List Row :=
  rows.map fun row => if row.sym == s then { row with nud := .prefix r [] } else row

end EPV.Pratt

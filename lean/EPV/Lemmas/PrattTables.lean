/-
C04 helper: the executable consistency check over a concrete generated table (`checkB`) and its
soundness (`consistent_of_check`): if the check evaluates to `true` then the abstract hypothesis
`Consistent` of the generic theorems holds for the table and the grammar built from the level list.
-/
import EPV.Lemmas.PrattDerive
namespace EPV.Pratt
open EPV.Syn

def syms (rows : List Row) : List String := rows.map (·.sym)

/-- doubled binding power of level `j`: `2 * lbp` of the first symbol listed for the level (`2 * nud-rbp + 1`
for a prefix level); `rowOk` then forces every other symbol of the level to have the same value -/
def bpOf (rows : List Row) (levels : List Level) (j : Nat) : Nat :=
  match levels[j]? with
  | some L =>
    match L.ops.head? with
    | some s =>
      match rows.find? (·.sym == s) with
      | some row =>
        if L.kind == .prefix then (match row.nud with | .prefix r => 2 * r + 1 | _ => 0) else 2 * row.lbp
      | none => 0
    | none => 0
  | none => 0

/-- every operator symbol of the level list is a row of the table -/
def coverB (rows : List Row) (levels : List Level) : Bool :=
  levels.all fun L => L.ops.all fun s => rows.any (·.sym == s)

/-- the largest lbp among the modelled operator symbols -/
def maxLbp (rows : List Row) : Nat :=
  rows.foldl (fun m r => match r.led with | .none => m | .other => m | _ => max m r.lbp) 0

def checkB (rows : List Row) (levels : List Level) (emptyParens : Bool) : Bool :=
  let T := tableOf rows
  let G := gramOf levels emptyParens (syms rows)
  let bp := bpOf rows levels
  (List.range rows.length).all (rowOk T G bp (maxLbp rows)) &&
    (List.range levels.length).all (fun i => decide (i + 1 < levels.length → bp i < bp (i + 1))) &&
    coverB rows levels

theorem consistent_of_check (rows : List Row) (levels : List Level) (ep : Bool)
    (h : checkB rows levels ep = true) :
    Consistent (tableOf rows) (gramOf levels ep (syms rows)) (bpOf rows levels) (maxLbp rows) := by
  simp only [checkB, Bool.and_eq_true, List.all_eq_true, List.mem_range, decide_eq_true_eq] at h
  obtain ⟨⟨h1, h2⟩, -⟩ := h
  constructor
  · intro o
    by_cases ho : o < rows.length
    · exact h1 o ho
    · have : rows[o]? = none := List.getElem?_eq_none (by omega)
      simp [rowOk, tableOf, this]
  · intro i hi
    have hi' : i + 1 < levels.length := hi
    exact h2 i (by omega) hi'

end EPV.Pratt

namespace EPV.Pratt
open EPV.Syn

/-- the operator token of symbol `s` in a generated table (row index looked up by symbol) -/
def opTok (rows : List Row) (s : String) : Tok := .op (rows.findIdx (·.sym == s))

/-- name operand `n` -/
def nm (n : Nat) : Tok := .atom 0 n
def num (n : Nat) : Tok := .atom 1 n

/-- model and reference parser on the same token list -/
def modelParse (rows : List Row) (toks : List Tok) : Except Err Tree := parse (tableOf rows) toks
def specParse (levels : List Level) (ep : Bool) (rows : List Row) (toks : List Tok) : Option Tree :=
  ebnfParse (gramOf levels ep (syms rows)) toks

/-- the model accepts the token list -/
def accepts (rows : List Row) (toks : List Tok) : Bool := (modelParse rows toks).toOption.isSome
/-- the model rejects the token list with a syntax error -/
def rejects (rows : List Row) (toks : List Tok) : Bool :=
  match modelParse rows toks with | .error .syntax => true | _ => false
/-- the model's tree is an EBNF derivation from the start symbol -/
def modelDerivable (levels : List Level) (ep : Bool) (rows : List Row) (toks : List Tok) : Option Bool :=
  (modelParse rows toks).toOption.map (derivable (gramOf levels ep (syms rows)) 0)

/-! ### trigger predicates of the findings (computed from the input through the reference parser) -/

def symOf (rows : List Row) (o : Nat) : String := ((rows[o]?).map (·.sym)).getD "?"

/-- some node of the tree satisfies `p` -/
def anyNode (p : Tree → Bool) : Tree → Bool
  | .nil => p .nil
  | .atom k n => p (.atom k n)
  | .group g c e => p (.group g c e) || anyNode p e
  | .pre q x => p (.pre q x) || anyNode p x
  | .bin o l r => p (.bin o l r) || anyNode p l || anyNode p r
  | .typed o l n => p (.typed o l n) || anyNode p l
  | .post o c l e => p (.post o c l e) || anyNode p l || anyNode p e

def binSym (rows : List Row) : Tree → Option String
  | .bin o _ _ => some (symOf rows o)
  | _ => none

def isCmp10 (s : Option String) : Bool := s ∈ [some "=", some "!=", some "<", some "<=", some ">", some ">="]
def isPath (s : Option String) : Bool := s ∈ [some "/", some "//"]

/-- F04a trigger (XPath 1.0): the W3C derivation has a comparison whose operand is an unparenthesised
comparison (`1 = 2 = 3`, `1 < 2 = 3`, `1 = 2 < 3`) -/
def trigF04a (rows : List Row) (spec : Tree) : Bool :=
  anyNode (fun t => match t with
    | .bin o l r => isCmp10 (some (symOf rows o)) && (isCmp10 (binSym rows l) || isCmp10 (binSym rows r))
    | _ => false) spec

/-- first token of a tree -/
def firstTok (t : Tree) : Option Tok := t.yield.head?

/-- F04d trigger: the W3C derivation has a path step whose left operand is a parenthesised expression
(1.0) or a lookup (3.1), or whose right operand starts with a variable reference (2.0) -/
def trigF04d (ver : Nat) (rows : List Row) (spec : Tree) : Bool :=
  anyNode (fun t => match t with
    | .bin o l r => isPath (some (symOf rows o)) &&
        ((ver == 10 && (match l with | .group .. => true | _ => false)) ||
         (ver == 31 && binSym rows l == some "?") ||
         (ver == 20 && (match firstTok r with | some (.atom 2 _) => true | _ => false)))
    | _ => false) spec

/-- F04b trigger: the EBNF rejects the token list and the table-driven parser accepts it -/
def trigF04b (rows : List Row) (spec : Option Tree) (toks : List Tok) : Bool :=
  spec.isNone && accepts rows toks

end EPV.Pratt

import EPV.Lemmas.USet
namespace EPV.USet

/-- `complement()` on a sorted, bounded list never hits the `ValueError` branch and yields exactly
the code points `last ≤ x < maxunicode+1` that are not members -/
theorem complementAux_spec : ∀ (l : List CP) (last : Nat), WInv l → headLoGe last l →
    (∀ c ∈ l, c.hi ≤ maxCP1) → last ≤ maxCP1 →
    ∃ r, complementAux last l = some r ∧
      ∀ x, memL x r ↔ (last ≤ x ∧ x < maxCP1 ∧ ¬ memL x l) := by
  intro l
  induction l with
  | nil =>
    intro last _ _ _ hl
    simp only [complementAux]
    split
    · refine ⟨_, rfl, fun x => ?_⟩
      simp only [memL, CP.mem, CP.lo_rng, CP.hi_rng]; simp
    · split
      · rename_i h1 h2
        refine ⟨_, rfl, fun x => ?_⟩
        simp only [memL, CP.mem, CP.lo_one, CP.hi_one, maxCP1] at *; grind
      · rename_i h1 h2
        refine ⟨_, rfl, fun x => ?_⟩
        simp only [memL, maxCP1] at *; grind
  | cons c rest ih =>
    intro last hw hh hb hl
    obtain ⟨hc, hhead, hwr⟩ := winv_cons.mp hw
    have hcl : last ≤ c.lo := hh
    have hchi : c.hi ≤ maxCP1 := hb c (List.mem_cons_self ..)
    obtain ⟨r, hr, hmem⟩ := ih c.hi hwr hhead (fun d hd => hb d (List.mem_cons_of_mem _ hd)) hchi
    simp only [complementAux]
    rw [if_neg (by omega)]
    rw [hr]
    refine ⟨_, rfl, fun x => ?_⟩
    have hlb := headLoGe_lb hwr hhead x
    simp only [memL_append, hmem x, memL, CP.mem]
    split
    · simp only [memL, CP.mem, CP.lo_rng, CP.hi_rng]; grind
    · split
      · simp only [memL, CP.mem, CP.lo_one, CP.hi_one]; grind
      · split
        · simp only [memL, CP.mem, CP.lo_one, CP.hi_one]; grind
        · simp only [memL]; grind

end EPV.USet

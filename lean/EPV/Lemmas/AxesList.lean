/-
C01 — generic list lemmas: sub-ranges as filters of the full range, uniqueness of strictly sorted
lists, takeWhile/dropWhile on sorted lists, the seen-set de-duplication and the sort of
`EPV/Model/Paths.lean`, position numbering.
-/
import EPV.Model.Paths
namespace EPV.XP

/-! ### strictly sorted lists -/

theorem sorted_ext : ∀ {l₁ l₂ : List Nat}, l₁.Pairwise (· < ·) → l₂.Pairwise (· < ·) →
    (∀ x, x ∈ l₁ ↔ x ∈ l₂) → l₁ = l₂
  | [], [], _, _, _ => rfl
  | [], b :: l₂, _, _, h => by have := (h b).2 (by simp); simp at this
  | a :: l₁, [], _, _, h => by have := (h a).1 (by simp); simp at this
  | a :: l₁, b :: l₂, h₁, h₂, h => by
    rw [List.pairwise_cons] at h₁ h₂
    have hab : a = b := by
      have ha := (h a).1 (by simp)
      have hb := (h b).2 (by simp)
      rw [List.mem_cons] at ha hb
      rcases ha with ha | ha
      · exact ha
      · rcases hb with hb | hb
        · exact hb.symm
        · have := h₁.1 b hb; have := h₂.1 a ha; omega
    subst hab
    congr 1
    apply sorted_ext h₁.2 h₂.2
    intro x
    constructor
    · intro hx
      have := (h x).1 (List.mem_cons_of_mem _ hx)
      rw [List.mem_cons] at this
      rcases this with e | e
      · have := h₁.1 x hx; omega
      · exact e
    · intro hx
      have := (h x).2 (List.mem_cons_of_mem _ hx)
      rw [List.mem_cons] at this
      rcases this with e | e
      · have := h₂.1 x hx; omega
      · exact e

theorem range_filter_sorted (L : Nat) (p : Nat → Bool) : ((List.range L).filter p).Pairwise (· < ·) :=
  List.Pairwise.sublist List.filter_sublist List.pairwise_lt_range

theorem range'_sorted (s k : Nat) : (List.range' s k).Pairwise (· < ·) := by
  simpa using List.pairwise_lt_range' (s := s) (n := k)

/-- a strictly sorted list of indices below `L` is the filter of `range L` by membership -/
theorem sorted_eq_range_filter {l : List Nat} {L : Nat} (hs : l.Pairwise (· < ·))
    (hb : ∀ x ∈ l, x < L) : l = (List.range L).filter (fun i => l.contains i) := by
  apply sorted_ext hs (range_filter_sorted _ _)
  intro x
  simp only [List.mem_filter, List.mem_range, List.contains_iff_mem]
  exact ⟨fun h => ⟨hb x h, h⟩, fun h => h.2⟩

/-- two filters of the same range agree when the predicates agree below `L` -/
theorem range_filter_congr {L : Nat} {p q : Nat → Bool} (h : ∀ i, i < L → p i = q i) :
    (List.range L).filter p = (List.range L).filter q :=
  List.filter_congr (fun i hi => h i (List.mem_range.1 hi))

/-- a sub-range, filtered, is the full range filtered by "inside the sub-range and p" -/
theorem range'_filter_eq (s k L : Nat) (p : Nat → Bool) (h : s + k ≤ L) :
    (List.range' s k).filter p =
      (List.range L).filter (fun i => decide (s ≤ i) && decide (i < s + k) && p i) := by
  apply sorted_ext
  · exact List.Pairwise.sublist List.filter_sublist (range'_sorted s k)
  · exact range_filter_sorted _ _
  · intro x
    simp only [List.mem_filter, List.mem_range', List.mem_range, Bool.and_eq_true, decide_eq_true_eq]
    constructor
    · rintro ⟨⟨i, hi, rfl⟩, hp⟩
      refine ⟨by omega, ⟨by omega, by omega⟩, hp⟩
    · rintro ⟨_, ⟨h1, h2⟩, hp⟩
      exact ⟨⟨x - s, by omega, by omega⟩, hp⟩

/-! ### takeWhile / dropWhile on strictly sorted lists -/

theorem sorted_takeWhile_ne : ∀ {l : List Nat} {x : Nat}, l.Pairwise (· < ·) → x ∈ l →
    l.takeWhile (· != x) = l.filter (fun i => decide (i < x))
  | y :: ys, x, hs, hx => by
    rw [List.pairwise_cons] at hs
    by_cases hyx : y = x
    · subst hyx
      have : (y :: ys).filter (fun i => decide (i < y)) = [] := by
        rw [List.filter_eq_nil_iff]
        intro i hi
        rw [List.mem_cons] at hi
        rcases hi with rfl | hi
        · simp
        · have := hs.1 i hi; simp; omega
      simp [this]
    · rw [List.mem_cons] at hx
      have hx' : x ∈ ys := by rcases hx with e | e; exact absurd e.symm hyx; exact e
      have hlt := hs.1 x hx'
      have ih := sorted_takeWhile_ne hs.2 hx'
      simp [hyx, hlt, ih]

theorem sorted_dropWhile_ne : ∀ {l : List Nat} {x : Nat}, l.Pairwise (· < ·) → x ∈ l →
    (l.dropWhile (· != x)).drop 1 = l.filter (fun i => decide (x < i))
  | y :: ys, x, hs, hx => by
    rw [List.pairwise_cons] at hs
    by_cases hyx : y = x
    · subst hyx
      have : ys.filter (fun i => decide (y < i)) = ys := by
        rw [List.filter_eq_self]
        intro i hi
        have := hs.1 i hi; simpa using this
      simp [this]
    · rw [List.mem_cons] at hx
      have hx' : x ∈ ys := by rcases hx with e | e; exact absurd e.symm hyx; exact e
      have hlt := hs.1 x hx'
      have ih := sorted_dropWhile_ne hs.2 hx'
      have : ¬ x < y := by omega
      simp [hyx, this, ih]

/-! ### de-duplication and sort -/

theorem mem_dedup : ∀ (l seen : List Nat) (x : Nat), x ∈ dedup seen l ↔ x ∈ l ∧ x ∉ seen
  | [], seen, x => by simp [dedup]
  | y :: ys, seen, x => by
    unfold dedup
    by_cases hy : seen.contains y = true
    · rw [if_pos hy, mem_dedup ys seen x]
      have hy' : y ∈ seen := by simpa using hy
      constructor
      · rintro ⟨h1, h2⟩; exact ⟨List.mem_cons_of_mem _ h1, h2⟩
      · rintro ⟨h1, h2⟩
        rw [List.mem_cons] at h1
        rcases h1 with rfl | h1
        · exact absurd hy' h2
        · exact ⟨h1, h2⟩
    · rw [if_neg hy, List.mem_cons, mem_dedup ys (y :: seen) x]
      have hy' : y ∉ seen := by simpa using hy
      simp only [List.mem_cons, not_or]
      constructor
      · rintro (rfl | ⟨h1, h2, h3⟩)
        · exact ⟨Or.inl rfl, hy'⟩
        · exact ⟨Or.inr h1, h3⟩
      · rintro ⟨h1 | h1, h2⟩
        · exact Or.inl h1
        · by_cases hxy : x = y
          · exact Or.inl hxy
          · exact Or.inr ⟨h1, hxy, h2⟩

theorem nodup_dedup : ∀ (l seen : List Nat), (dedup seen l).Nodup
  | [], seen => by simp [dedup]
  | y :: ys, seen => by
    unfold dedup
    by_cases hy : seen.contains y = true
    · rw [if_pos hy]; exact nodup_dedup ys seen
    · rw [if_neg hy, List.nodup_cons]
      refine ⟨?_, nodup_dedup ys (y :: seen)⟩
      rw [mem_dedup]
      simp

theorem mem_ins (x y : Nat) : ∀ (l : List Nat), y ∈ ins x l ↔ y = x ∨ y ∈ l
  | [] => by simp [ins]
  | z :: zs => by
    unfold ins
    by_cases h : x ≤ z
    · rw [if_pos h]; simp
    · rw [if_neg h, List.mem_cons, mem_ins x y zs, List.mem_cons]
      constructor
      · rintro (h1 | h1 | h1)
        · exact Or.inr (Or.inl h1)
        · exact Or.inl h1
        · exact Or.inr (Or.inr h1)
      · rintro (h1 | h1 | h1)
        · exact Or.inr (Or.inl h1)
        · exact Or.inl h1
        · exact Or.inr (Or.inr h1)

theorem sorted_ins (x : Nat) : ∀ (l : List Nat), l.Pairwise (· < ·) → x ∉ l →
    (ins x l).Pairwise (· < ·)
  | [], _, _ => by simp [ins]
  | z :: zs, hs, hx => by
    unfold ins
    rw [List.pairwise_cons] at hs
    have hxz : x ≠ z := fun e => hx (by simp [e])
    have hxzs : x ∉ zs := fun e => hx (List.mem_cons_of_mem _ e)
    by_cases h : x ≤ z
    · rw [if_pos h, List.pairwise_cons]
      refine ⟨?_, List.pairwise_cons.2 hs⟩
      intro w hw
      rw [List.mem_cons] at hw
      rcases hw with rfl | hw
      · omega
      · have := hs.1 w hw; omega
    · rw [if_neg h, List.pairwise_cons]
      refine ⟨?_, sorted_ins x zs hs.2 hxzs⟩
      intro w hw
      rw [mem_ins] at hw
      rcases hw with rfl | hw
      · omega
      · exact hs.1 w hw

theorem mem_isort (y : Nat) : ∀ (l : List Nat), y ∈ isort l ↔ y ∈ l
  | [] => by simp [isort]
  | x :: xs => by
    have ih := mem_isort y xs
    unfold isort at ih ⊢
    rw [List.foldr_cons, mem_ins, ih, List.mem_cons]

theorem sorted_isort : ∀ (l : List Nat), l.Nodup → (isort l).Pairwise (· < ·)
  | [], _ => by simp [isort]
  | x :: xs, h => by
    rw [List.nodup_cons] at h
    have ih := sorted_isort xs h.2
    have hx : x ∉ isort xs := fun e => h.1 ((mem_isort x xs).1 e)
    unfold isort at ih hx ⊢
    rw [List.foldr_cons]
    exact sorted_ins x _ ih hx

/-- `sorted(set(results))` of indices below `L` = the range filtered by membership -/
theorem docOrder_eq (l : List Nat) (L : Nat) (hb : ∀ x ∈ l, x < L) :
    docOrder l = (List.range L).filter (fun i => l.contains i) := by
  unfold docOrder
  apply sorted_ext (sorted_isort _ (nodup_dedup l [])) (range_filter_sorted _ _)
  intro x
  rw [mem_isort, mem_dedup]
  simp only [List.mem_filter, List.mem_range, List.contains_iff_mem, List.not_mem_nil,
    not_false_eq_true, and_true]
  exact ⟨fun h => ⟨hb x h, h⟩, fun h => h.2⟩

/-! ### position numbering -/

theorem idxOf_cons_ne' {x n : Nat} (xs : List Nat) (h : x ≠ n) : (x :: xs).idxOf n = xs.idxOf n + 1 := by
  rw [List.idxOf_cons]
  have : (x == n) = false := by simpa using h
  rw [this]; rfl

theorem numberFrom_eq (size : Nat) : ∀ (l : List Nat) (k : Nat), l.Nodup →
    numberFrom size k l = l.map (fun n => (⟨n, l.idxOf n + k, size⟩ : Focus))
  | [], _, _ => rfl
  | x :: xs, k, h => by
    rw [List.nodup_cons] at h
    unfold numberFrom
    rw [List.map_cons, numberFrom_eq size xs (k + 1) h.2]
    congr 1
    · simp
    · apply List.map_congr_left
      intro n hn
      have hne : x ≠ n := fun e => h.1 (e ▸ hn)
      rw [idxOf_cons_ne' _ hne]
      congr 1; omega

theorem countDown_eq (size : Nat) : ∀ (l : List Nat) (k : Nat), l.Nodup →
    countDown size k l = l.map (fun n => (⟨n, k - l.idxOf n, size⟩ : Focus))
  | [], _, _ => rfl
  | x :: xs, k, h => by
    rw [List.nodup_cons] at h
    unfold countDown
    rw [List.map_cons, countDown_eq size xs (k - 1) h.2]
    congr 1
    · simp
    · apply List.map_congr_left
      intro n hn
      have hne : x ≠ n := fun e => h.1 (e ▸ hn)
      rw [idxOf_cons_ne' _ hne]
      congr 1; omega

/-- index in the reversed list -/
theorem idxOf_reverse : ∀ (l : List Nat) (n : Nat), l.Nodup → n ∈ l →
    l.reverse.idxOf n + 1 = l.length - l.idxOf n
  | x :: xs, n, h, hn => by
    rw [List.nodup_cons] at h
    rw [List.reverse_cons]
    by_cases hx : x = n
    · subst hx
      have : x ∉ xs.reverse := by simpa using h.1
      rw [List.idxOf_append, if_neg this]
      simp
    · rw [List.mem_cons] at hn
      have hn' : n ∈ xs := by rcases hn with e | e; exact absurd e.symm hx; exact e
      have hr : n ∈ xs.reverse := by simpa using hn'
      rw [List.idxOf_append, if_pos hr, idxOf_cons_ne' _ hx]
      have ih := idxOf_reverse xs n h.2 hn'
      have := List.idxOf_lt_length_of_mem hn'
      simp only [List.length_cons]
      omega

end EPV.XP

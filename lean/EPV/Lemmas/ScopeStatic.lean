/-
C05 helper lemmas: static scoping is sound for the lexical specification — an expression all of
whose variable references are statically bound (`WS false false S e`) never raises XPST0008, in any
environment that binds `S` to well-scoped values.
-/
import EPV.Lemmas.ScopeMain
namespace EPV.Scope

/-- an answer of the specification that is not "unknown variable", with well-scoped items -/
def SRes : Except Err Val → Prop
  | .ok v => VRel false v v
  | .error e => e ≠ .unbound

theorem SRes.cases {r : Except Err Val} (hr : SRes r) :
    (∃ e, r = .error e ∧ e ≠ .unbound) ∨ (∃ v, r = .ok v ∧ VRel false v v) := by
  match r, hr with
  | .ok v, h => exact .inr ⟨v, rfl, h⟩
  | .error e, h => exact .inl ⟨e, rfl, h⟩

def Sound (sm : Expr → Env → Except Err Val) : Prop :=
  ∀ e S ρ, WS false false S e = true → Inv false none false S ρ ρ → SRes (sm e ρ)

variable {sm : Expr → Env → Except Err Val}

theorem semOperands_sound (hs : Sound sm) {a b : Expr} {S : List Name} {ρ : Env}
    (hwa : WS false false S a = true) (hwb : WS false false S b = true) (hi : Inv false none false S ρ ρ) :
    (∃ e, semOperands sm a b ρ = .error e ∧ e ≠ .unbound) ∨ semOperands sm a b ρ = .ok none ∨
    (∃ x y, semOperands sm a b ρ = .ok (some (x, y)) ∧ IRel false x x ∧ IRel false y y) := by
  unfold semOperands
  rcases (hs a S ρ hwa hi).cases with ⟨e, h1, hne⟩ | ⟨v, h1, hv⟩
  · simp only [h1]; exact .inl ⟨e, rfl, hne⟩
  · simp only [h1]
    cases hv with
    | nil => exact .inr (.inl rfl)
    | cons hx t =>
      cases t with
      | cons _ _ => exact .inl ⟨.type, rfl, by decide⟩
      | nil =>
        rcases (hs b S ρ hwb hi).cases with ⟨e, h2, hne⟩ | ⟨w, h2, hw⟩
        · simp only [h2]; exact .inl ⟨e, rfl, hne⟩
        · simp only [h2]
          cases hw with
          | nil => exact .inr (.inl rfl)
          | cons hy t2 =>
            cases t2 with
            | cons _ _ => exact .inl ⟨.type, rfl, by decide⟩
            | nil => exact .inr (.inr ⟨_, _, rfl, hx, hy⟩)

theorem semFor_sound (hs : Sound sm) {x : Name} {body : Expr} {S : List Name} {ρ : Env}
    (hwb : WS false false (x :: S) body = true) (hi : Inv false none false S ρ ρ) :
    ∀ (items : List Item), VRel false items items → SRes (semFor sm x body ρ items) := by
  intro items
  induction items with
  | nil => intro _; exact .nil
  | cons it rest ih =>
    intro hv
    cases hv with
    | cons hit hrest =>
      unfold semFor
      rcases (hs body (x :: S) _ hwb ((hi.weaken x).bind (.cons hit .nil))).cases with ⟨e, h1, hne⟩ | ⟨v, h1, hv1⟩
      · simp only [h1]; exact hne
      · simp only [h1]
        rcases (ih hrest).cases with ⟨e, h2, hne⟩ | ⟨w, h2, hw⟩
        · simp only [h2]; exact hne
        · simp only [h2]; exact hv1.append hw

theorem semQuant_sound (hs : Sound sm) {q : Bool} {x : Name} {body : Expr} {S : List Name} {ρ : Env}
    (hwb : WS false false (x :: S) body = true) (hi : Inv false none false S ρ ρ) :
    ∀ (items : List Item), VRel false items items →
      (∃ e, semQuant sm q x body ρ items = .error e ∧ e ≠ .unbound) ∨ (∃ b, semQuant sm q x body ρ items = .ok b) := by
  intro items
  induction items with
  | nil => intro _; exact .inr ⟨!q, rfl⟩
  | cons it rest ih =>
    intro hv
    cases hv with
    | cons hit hrest =>
      unfold semQuant
      rcases (hs body (x :: S) _ hwb ((hi.weaken x).bind (.cons hit .nil))).cases with ⟨e, h1, hne⟩ | ⟨v, h1, hv1⟩
      · simp only [h1]; exact .inl ⟨e, rfl, hne⟩
      · simp only [h1]
        cases hb : ebv v with
        | error e =>
          refine .inl ⟨e, rfl, ?_⟩
          intro he; subst he
          unfold ebv at hb; split at hb <;> cases hb
        | ok bv =>
          simp only
          by_cases hc : (bv == q) = true
          · simp only [if_pos hc]; exact .inr ⟨q, rfl⟩
          · simp only [if_neg hc]; exact ih hrest

theorem semArgs_sound (hs : Sound sm) {S : List Name} {ρ : Env} (hi : Inv false none false S ρ ρ) :
    ∀ (as : List Expr), (∀ t, t ∈ as → WS false false S t = true) →
      (∃ e, semArgs sm ρ as = .error e ∧ e ≠ .unbound) ∨ (∃ vs, semArgs sm ρ as = .ok vs ∧ All2 (VRel false) vs vs) := by
  intro as
  induction as with
  | nil => intro _; exact .inr ⟨[], rfl, .nil⟩
  | cons a rest ih =>
    intro hw
    unfold semArgs
    rcases (hs a S ρ (hw a (by simp)) hi).cases with ⟨e, h1, hne⟩ | ⟨v, h1, hv⟩
    · simp only [h1]; exact .inl ⟨e, rfl, hne⟩
    · simp only [h1]
      rcases ih (fun t ht => hw t (by simp [ht])) with ⟨e, h2, hne⟩ | ⟨ws, h2, hws⟩
      · simp only [h2]; exact .inl ⟨e, rfl, hne⟩
      · simp only [h2]; exact .inr ⟨_, rfl, .cons hv hws⟩

theorem semApply_sound (hs : Sound sm) {ps : List Name} {body : Expr} {cap : Env} {vs : List Val}
    (hf : IRel false (.fn ps body cap) (.fn ps body cap)) (hvs : All2 (VRel false) vs vs) :
    SRes (semApply sm ps body cap vs) := by
  unfold semApply
  by_cases hl : ps.length = vs.length
  · rw [if_neg (fun hne => hne hl)]
    cases hf with
    | fn _ _ _ _ S' ex hex hws hdom hrel hout =>
      have hexf : ex = false := by
        cases ex with
        | false => rfl
        | true => exact absurd (hex rfl) (by decide)
      subst hexf
      have hi := callEnv_inv (tail := []) hdom hrel hout (fun _ => rfl) hvs hl
      simp only [List.append_nil] at hi
      exact hs body (ps ++ S') _ hws hi
  · rw [if_pos hl]; show Err.type ≠ Err.unbound; decide

theorem sem_sound (tz : Option Int) (h : Heap) : ∀ n, Sound (sem tz h n) := by
  intro n
  induction n with
  | zero => intro e S ρ _ _; show Err.fuel ≠ Err.unbound; decide
  | succ n ih =>
    intro e S ρ hw hi
    have terr : SRes (.error Err.type) := by show Err.type ≠ Err.unbound; decide
    cases e with
    | int k => exact .cons (.int k) .nil
    | var x =>
      simp only [sem]
      have hx : x ∈ S := by simpa [WS] using hw
      obtain ⟨d1, _⟩ := hi.1 x hx (by simp)
      obtain ⟨v, e1⟩ := Option.isSome_iff_exists.mp d1
      simp only [e1]
      exact hi.2.1 x v v hx (by simp) e1 e1
    | empty => exact .nil
    | paren e => simp only [sem]; exact ih e S ρ (by simpa [WS] using hw) hi
    | seq a b =>
      simp only [WS, Bool.and_eq_true] at hw
      simp only [sem]
      rcases (ih a S ρ hw.1 hi).cases with ⟨e, h1, hne⟩ | ⟨v, h1, hv⟩
      · simp only [h1]; exact hne
      · simp only [h1]
        rcases (ih b S ρ hw.2 hi).cases with ⟨e, h2, hne⟩ | ⟨w, h2, hw2⟩
        · simp only [h2]; exact hne
        · simp only [h2]; exact hv.append hw2
    | add a b =>
      simp only [WS, Bool.and_eq_true] at hw
      simp only [sem]
      rcases semOperands_sound ih hw.1 hw.2 hi with ⟨e, h1, hne⟩ | h1 | ⟨x, y, h1, _, _⟩
      · simp only [h1]; exact hne
      · simp only [h1]; exact .nil
      · simp only [h1]
        cases hr : addItems x y with
        | none => exact terr
        | some r => exact .cons (addItems_notFn hr) .nil
    | sub a b =>
      simp only [WS, Bool.and_eq_true] at hw
      simp only [sem]
      rcases semOperands_sound ih hw.1 hw.2 hi with ⟨e, h1, hne⟩ | h1 | ⟨x, y, h1, _, _⟩
      · simp only [h1]; exact hne
      · simp only [h1]; exact .nil
      · simp only [h1]
        cases hr : subPure tz h x y with
        | none => exact terr
        | some r => exact .cons (subPure_notFn hr) .nil
    | eq a b =>
      simp only [WS, Bool.and_eq_true] at hw
      simp only [sem]
      rcases (ih a S ρ hw.1 hi).cases with ⟨e, h1, hne⟩ | ⟨v, h1, hv⟩
      · simp only [h1]; exact hne
      · simp only [h1]
        rcases (ih b S ρ hw.2 hi).cases with ⟨e, h2, hne⟩ | ⟨w, h2, hw2⟩
        · simp only [h2]; exact hne
        · simp only [h2]
          cases hg : genEq v w with
          | error e =>
            show e ≠ Err.unbound
            intro he; subst he
            unfold genEq at hg; split at hg <;> cases hg
          | ok r => exact .cons (.bool r) .nil
    | dt l z => exact .cons (.dtv l z) .nil
    | tzOf e =>
      simp only [sem]
      rcases (ih e S ρ (by simpa [WS] using hw) hi).cases with ⟨e, h1, hne⟩ | ⟨v, h1, hv⟩
      · simp only [h1]; exact hne
      · simp only [h1]
        cases hr : tzItem h v with
        | error e =>
          show e ≠ Err.unbound
          intro he; subst he
          unfold tzItem at hr
          split at hr
          · cases hr
          · split at hr <;> cases hr
          · cases hr
        | ok r => exact tzItem_notFn hr
    | letE x e body =>
      simp only [WS, Bool.and_eq_true] at hw
      simp only [sem]
      rcases (ih e S ρ hw.1 hi).cases with ⟨e, h1, hne⟩ | ⟨v, h1, hv⟩
      · simp only [h1]; exact hne
      · simp only [h1]; exact ih body (x :: S) _ hw.2 ((hi.weaken x).bind hv)
    | forE x r body =>
      simp only [WS, Bool.and_eq_true] at hw
      simp only [sem]
      rcases (ih r S ρ hw.1 hi).cases with ⟨e, h1, hne⟩ | ⟨v, h1, hv⟩
      · simp only [h1]; exact hne
      · simp only [h1]; exact semFor_sound ih hw.2 hi v hv
    | someE x r body =>
      simp only [WS, Bool.and_eq_true] at hw
      simp only [sem]
      rcases (ih r S ρ hw.1 hi).cases with ⟨e, h1, hne⟩ | ⟨v, h1, hv⟩
      · simp only [h1]; exact hne
      · simp only [h1]
        rcases semQuant_sound (q := true) ih hw.2 hi v hv with ⟨e, h2, hne⟩ | ⟨b, h2⟩
        · simp only [h2]; exact hne
        · simp only [h2]; exact .cons (.bool b) .nil
    | everyE x r body =>
      simp only [WS, Bool.and_eq_true] at hw
      simp only [sem]
      rcases (ih r S ρ hw.1 hi).cases with ⟨e, h1, hne⟩ | ⟨v, h1, hv⟩
      · simp only [h1]; exact hne
      · simp only [h1]
        rcases semQuant_sound (q := false) ih hw.2 hi v hv with ⟨e, h2, hne⟩ | ⟨b, h2⟩
        · simp only [h2]; exact hne
        · simp only [h2]; exact .cons (.bool b) .nil
    | fn ps body =>
      simp only [WS] at hw
      have he := hi.toERel
      simp only [Bool.and_false] at hw
      exact .cons (.fn ps body ρ ρ S false (fun hf => by cases hf) hw he.1 he.2 (fun hf => by cases hf)) .nil
    | call0 f =>
      simp only [sem]
      rcases (ih f S ρ (by simpa [WS] using hw) hi).cases with ⟨e, h1, hne⟩ | ⟨v, h1, hv⟩
      · simp only [h1]; exact hne
      · simp only [h1]
        cases hv with
        | nil => exact terr
        | cons hf t =>
          cases t with
          | cons _ _ => cases hf <;> exact terr
          | nil =>
            cases hf with
            | fn ps b c1 _ S' ex hex hws hdom hrel hout => exact semApply_sound ih (.fn ps b c1 c1 S' ex hex hws hdom hrel hout) .nil
            | _ => exact terr
    | call f a =>
      simp only [WS, Bool.and_eq_true] at hw
      simp only [sem]
      rcases (ih f S ρ hw.1 hi).cases with ⟨e, h1, hne⟩ | ⟨v, h1, hv⟩
      · simp only [h1]; exact hne
      · simp only [h1]
        cases hv with
        | nil => exact terr
        | cons hf t =>
          cases t with
          | cons _ _ => cases hf <;> exact terr
          | nil =>
            cases hf with
            | fn ps b c1 _ S' ex hex hws hdom hrel hout =>
              simp only
              rcases semArgs_sound ih hi (argToks a) (argToks_ws a hw.2) with ⟨e, h2, hne⟩ | ⟨vs, h2, hvs⟩
              · simp only [h2]; exact hne
              · simp only [h2]; exact semApply_sound ih (.fn ps b c1 c1 S' ex hex hws hdom hrel hout) hvs
            | _ => exact terr
    | durLit s => exact .cons (.dur s) .nil
    | adjust1 e =>
      simp only [sem]
      rcases (ih e S ρ (by simpa [WS] using hw) hi).cases with ⟨e, h1, hne⟩ | ⟨v, h1, hv⟩
      · simp only [h1]; exact hne
      · simp only [h1]
        cases hv with
        | nil => exact .nil
        | cons hx t =>
          cases t with
          | cons _ _ => exact terr
          | nil =>
            simp only
            cases deref h _ with
            | none => exact terr
            | some d => exact .cons (.dtv _ _) .nil
    | adjust2 e z =>
      simp only [WS, Bool.and_eq_true] at hw
      simp only [sem]
      rcases (ih e S ρ hw.1 hi).cases with ⟨e, h1, hne⟩ | ⟨v, h1, hv⟩
      · simp only [h1]; exact hne
      · simp only [h1]
        by_cases hlen : v.length > 1
        · simp only [if_pos hlen]; exact terr
        · simp only [if_neg hlen]
          rcases (ih z S ρ hw.2 hi).cases with ⟨e, h2, hne⟩ | ⟨w, h2, _⟩
          · simp only [h2]; exact hne
          · simp only [h2]
            cases ht : targetOf w with
            | error er =>
              show er ≠ Err.unbound
              intro he; subst he
              unfold targetOf at ht
              split at ht
              · cases ht
              · split at ht <;> cases ht
              · cases ht
            | ok target =>
              simp only
              cases hv with
              | nil => exact .nil
              | cons hx t =>
                cases t with
                | cons _ _ => simp at hlen
                | nil =>
                  simp only
                  cases deref h _ with
                  | none => exact terr
                  | some d => exact .cons (.dtv _ _) .nil

/-- when references outside function bodies are restricted too (`exact = false`), `WS` does not
depend on the callee mode -/
theorem ws_false_lex (lex : Bool) : ∀ (e : Expr) (S : List Name), WS lex false S e = WS false false S e := by
  intro e
  induction e with
  | int _ | var _ | empty | dt _ _ | durLit _ => intro S; rfl
  | fn ps b ih => intro S; simp only [WS, Bool.false_and]; exact ih _
  | paren e ih | tzOf e ih | call0 e ih | adjust1 e ih => intro S; simp only [WS]; exact ih S
  | seq a b iha ihb | add a b iha ihb | sub a b iha ihb | eq a b iha ihb | call a b iha ihb | adjust2 a b iha ihb =>
    intro S; simp only [WS]; rw [iha S, ihb S]
  | letE x a b iha ihb | forE x a b iha ihb | someE x a b iha ihb | everyE x a b iha ihb =>
    intro S; simp only [WS]; rw [iha S, ihb (x :: S)]

end EPV.Scope

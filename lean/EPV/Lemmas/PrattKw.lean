/-
Lemmas for the keyword ExprSingle layer (C04 phase 5): invariant of `xsingle` / `xloop` (yield, binding-power
invariant of every operator-fragment leaf, next token), on top of `pratt_inv`.
-/
import EPV.Lemmas.PrattInv
import EPV.Lemmas.PrattDerive
import EPV.Spec.EBNFKw
namespace EPV.Kw
open EPV.Syn EPV.Pratt

/-- an operator-fragment tree returned by `expression(5)` -/
def LeafOK (T : Tbl) (t : Tree) : Prop := WFr T t ∧ gtO 5 (lbpTop T t)

/-- every leaf satisfies the Pratt invariant and was closed at rbp 5; the binder variable is a variable reference;
`,` nodes only at Expr positions (top, `if` condition, left of `,`) -/
def XInv (T : Tbl) (lp comma : Nat) : XTree → Prop
  | .leaf t => LeafOK T t
  | .seq o l r => o = comma ∧ XInv T lp comma l ∧ (XInv T lp comma r ∧ r.isSeq = false)
  | .ite g c a b => g = lp ∧ XInv T lp comma c ∧ (XInv T lp comma a ∧ a.isSeq = false) ∧
      (XInv T lp comma b ∧ b.isSeq = false)
  | .bind q v r b => isBinder q = true ∧ (∃ n, v = .atom 2 n) ∧ (XInv T lp comma r ∧ r.isSeq = false) ∧
      (XInv T lp comma b ∧ b.isSeq = false)

theorem leaf_inv (T : Tbl) {n : Nat} {toks : List Tok} {t : Tree} {rest : List Tok}
    (h : expr T n 5 toks = .ok (t, rest)) :
    t.yield ++ rest = toks ∧ LeafOK T t ∧ headLe T (some 5) rest :=
  have i := (pratt_inv T n).1 5 toks t rest h
  ⟨i.yld, ⟨i.wf, i.top⟩, i.nxt⟩

theorem xsingle_leaf (T : Tbl) (lp comma f : Nat) (toks : List Tok) (hne : ∀ q tl, toks ≠ .close q :: tl) :
    xsingle T lp comma (f + 1) toks =
      match expr T (2 * toks.length + 2) 5 toks with
      | .ok (t, rest) => .ok (.leaf t, rest)
      | .error e => .error e := by
  cases toks with
  | nil => (simp only [xsingle]; generalize expr T _ 5 _ = r; cases r with | error e => rfl | ok p => cases p; rfl)
  | cons a tl =>
    cases a with
    | close q => exact absurd rfl (hne q tl)
    | atom k n => (simp only [xsingle]; generalize expr T _ 5 _ = r; cases r with | error e => rfl | ok p => cases p; rfl)
    | ty n => (simp only [xsingle]; generalize expr T _ 5 _ = r; cases r with | error e => rfl | ok p => cases p; rfl)
    | op o => (simp only [xsingle]; generalize expr T _ 5 _ = r; cases r with | error e => rfl | ok p => cases p; rfl)

theorem x_inv (T : Tbl) (lp comma : Nat) : ∀ f,
    (∀ toks x rest, xsingle T lp comma f toks = .ok (x, rest) →
      x.yield ++ rest = toks ∧ (XInv T lp comma x ∧ x.isSeq = false) ∧ headLe T (some 5) rest) ∧
    (∀ left toks x rest, xloop T lp comma f left toks = .ok (x, rest) → XInv T lp comma left →
      x.yield ++ rest = left.yield ++ toks ∧ XInv T lp comma x) := by
  intro f
  induction f with
  | zero => constructor <;> intros <;> simp [xsingle, xloop] at *
  | succ f ih =>
    obtain ⟨ih, ihl⟩ := ih
    constructor
    · intro toks x rest h
      by_cases hc : ∃ q tl, toks = .close q :: tl
      · obtain ⟨q, tl, rfl⟩ := hc
        simp only [xsingle] at h
        split at h
        · -- if
          rename_i hq8
          have hq8' : q = 8 := by simpa using hq8
          subst hq8'
          split at h
          · rename_i g rest1
            split at h
            · simp at h
            · rename_i hg
              split at h
              · rename_i c0 rest0 h0
                split at h
                · rename_i c rest2 h1
                  split at h
                  · rename_i a rest3 h2
                    split at h
                    · rename_i b rest4 h3
                      simp only [Except.ok.injEq, Prod.mk.injEq] at h
                      obtain ⟨rfl, rfl⟩ := h
                      obtain ⟨y0, ⟨i0, -⟩, -⟩ := ih _ _ _ h0
                      obtain ⟨y1, i1⟩ := ihl _ _ _ _ h1 i0
                      obtain ⟨y2, i2, -⟩ := ih _ _ _ h2
                      obtain ⟨y3, i3, n3⟩ := ih _ _ _ h3
                      refine ⟨?_, ⟨⟨?_, i1, i2, i3⟩, rfl⟩, n3⟩
                      · simp only [XTree.yield]
                        rw [← y0, ← y1, ← y2, ← y3]; simp
                      · simpa using hg
                    · simp at h
                  · simp at h
                  · simp at h
                · simp at h
                · simp at h
              · simp at h
          · simp at h
        · split at h
          · -- binder
            rename_i hq
            split at h
            · rename_i n0 tl'
              split at h
              · rename_i n s rest1 hv
                split at h
                · simp at h
                · rename_i hs
                  split at h
                  · rename_i r e rest2 hr
                    split at h
                    · simp at h
                    · rename_i he
                      split at h
                      · rename_i b rest3 hb
                        simp only [Except.ok.injEq, Prod.mk.injEq] at h
                        obtain ⟨rfl, rfl⟩ := h
                        obtain ⟨yv, -, -⟩ := leaf_inv T hv
                        obtain ⟨yr, ir, -⟩ := ih _ _ _ hr
                        obtain ⟨yb, ib, nb⟩ := ih _ _ _ hb
                        refine ⟨?_, ⟨⟨hq, ⟨n, rfl⟩, ir, ib⟩, rfl⟩, nb⟩
                        have hs' : s = sepOf q := by simpa using hs
                        have he' : e = finOf q := by simpa using he
                        subst hs'; subst he'
                        simp only [XTree.yield]
                        rw [← yv, ← yr, ← yb]; simp
                      · simp at h
                  · split at h <;> simp at h
                  · simp at h
                  · simp at h
              · simp at h
              · simp at h
            · simp at h
          · split at h <;> simp at h
      · have hne : ∀ q tl, toks ≠ .close q :: tl := fun q tl e => hc ⟨q, tl, e⟩
        rw [xsingle_leaf T lp comma f toks hne] at h
        split at h
        · rename_i t rest' he
          simp only [Except.ok.injEq, Prod.mk.injEq] at h
          obtain ⟨rfl, rfl⟩ := h
          obtain ⟨y, i, n⟩ := leaf_inv T he
          exact ⟨by simpa [XTree.yield] using y, ⟨i, rfl⟩, n⟩
        · simp at h
    · intro left toks x rest h hl
      cases toks with
      | nil => simp [xloop] at h; obtain ⟨rfl, rfl⟩ := h; exact ⟨rfl, hl⟩
      | cons a tl =>
        cases a with
        | atom k n => simp [xloop] at h; obtain ⟨rfl, rfl⟩ := h; exact ⟨rfl, hl⟩
        | ty n => simp [xloop] at h; obtain ⟨rfl, rfl⟩ := h; exact ⟨rfl, hl⟩
        | close c => simp [xloop] at h; obtain ⟨rfl, rfl⟩ := h; exact ⟨rfl, hl⟩
        | op o =>
          simp only [xloop] at h
          split at h
          · rename_i ho
            split at h
            · rename_i r rest' hr
              obtain ⟨yr, ir, -⟩ := ih _ _ _ hr
              obtain ⟨y, i⟩ := ihl _ _ _ _ h ⟨by simpa using ho, hl, ir⟩
              refine ⟨?_, i⟩
              rw [y, ← yr]; simp [XTree.yield]
            · simp at h
          · simp at h; obtain ⟨rfl, rfl⟩ := h; exact ⟨rfl, hl⟩

theorem xsingle_inv (T : Tbl) (lp comma : Nat) (f : Nat) (toks : List Tok) (x : XTree) (rest : List Tok)
    (h : xsingle T lp comma f toks = .ok (x, rest)) :
    x.yield ++ rest = toks ∧ (XInv T lp comma x ∧ x.isSeq = false) ∧ headLe T (some 5) rest :=
  (x_inv T lp comma f).1 toks x rest h

theorem xloop_inv (T : Tbl) (lp comma : Nat) (f : Nat) (left : XTree) (toks : List Tok) (x : XTree) (rest : List Tok)
    (h : xloop T lp comma f left toks = .ok (x, rest)) (hl : XInv T lp comma left) :
    x.yield ++ rest = left.yield ++ toks ∧ XInv T lp comma x :=
  (x_inv T lp comma f).2 left toks x rest h hl

/-- the binding-power invariant implies the relaxed grammar of the layer: leaves are relaxed derivations of the
operator fragment from level 1 (or prefix-operator expressions: laxity L1), `,` only at the Expr level, the `if` condition
an Expr, the binder variable a VarRef -/
theorem xinv_relaxed {T : Tbl} {G : Gram} {bp : Nat → Nat} {K : Nat} (hc : Consistent T G bp K)
    (htop : 0 < G.top) (hk : G.lkind 0 ≠ some .postfix) (hb : bp 0 ≤ 11) (lp comma : Nat) :
    ∀ x single, XInv T lp comma x → (single = true → x.isSeq = false) → xwf false G lp comma single x = true := by
  have leaf : ∀ t, LeafOK T t → (wf false G t && (decide (1 ≤ lvl G t) || t.isPre)) = true := by
    intro t ⟨hw, hg⟩
    have h1 := wfr_relaxed hc t hw
    have h2 := right_level hc htop hk (b := 5) (by omega) t hw hg
    simp only [h1, Bool.true_and, Bool.or_eq_true, decide_eq_true_eq]
    simpa using h2
  intro x
  induction x with
  | leaf t => intro single h _; simpa [xwf] using leaf t h
  | seq o l r ihl ihr =>
    intro single h hs
    cases single with
    | true => simp [XTree.isSeq] at hs
    | false =>
      obtain ⟨ho, hl, hr, hrs⟩ := h
      simp [xwf, ho, ihl false hl (by simp), ihr true hr (fun _ => hrs)]
  | ite g c a b ihc iha ihb =>
    intro single h _
    obtain ⟨hg, hc', ⟨ha, has⟩, ⟨hb', hbs⟩⟩ := h
    simp [xwf, hg, ihc false hc' (by simp), iha true ha (fun _ => has), ihb true hb' (fun _ => hbs)]
  | bind q v r b ihr ihb =>
    intro single h _
    obtain ⟨hq, ⟨n, rfl⟩, ⟨hr, hrs⟩, ⟨hb', hbs⟩⟩ := h
    simp [xwf, hq, ihr true hr (fun _ => hrs), ihb true hb' (fun _ => hbs)]

end EPV.Kw

/-
C15 — the heap machine in copying mode only ever *appends* to the store and to the environment:
no operation overwrites an object that already exists (persistence / immutability).
-/
import EPV.Spec.FOMaps
namespace EPV.MapArray

theorem alloc_prefix (s : Store) (o : Obj) : s <+: (alloc s o).1 := by
  simp [alloc]

theorem allocMany_prefix (s : Store) (os : List Obj) : s <+: (allocMany s os).1 := by
  induction os generalizing s with
  | nil => simp [allocMany]
  | cons o os ih =>
    simp only [allocMany]
    exact List.IsPrefix.trans (alloc_prefix s o) (ih _)

theorem liftAlloc_prefix {s s' : Store} {r : Except Err Obj} {v : Seq}
    (h : liftAlloc s r = .ok (s', v)) : s <+: s' := by
  cases r with
  | error e => simp [liftAlloc, Except.map] at h
  | ok o =>
    simp only [liftAlloc, Except.map, Except.ok.injEq] at h
    have := alloc_prefix s o; rw [h] at this; exact this

theorem bind_ok {x : Except Err α} {f : α → Except Err β} {r : β}
    (h : (x >>= f) = .ok r) : ∃ a, x = .ok a ∧ f a = .ok r := by
  cases x with
  | error e => simp [bind, Except.bind] at h
  | ok a => exact ⟨a, rfl, h⟩

theorem ok_pair_prefix {s s1 s' : Store} {v v' : Seq} (hp : s <+: s1)
    (h : (Except.ok (s1, v) : Except Err (Store × Seq)) = .ok (s', v')) : s <+: s' := by
  injection h with h; injection h with h1 h2; subst h1; exact hp

theorem ok_alloc_prefix {s s' : Store} {o : Obj} {v' : Seq}
    (h : (Except.ok (alloc s o) : Except Err (Store × Seq)) = .ok (s', v')) : s <+: s' := by
  injection h with h; have := alloc_prefix s o; rw [h] at this; exact this

theorem ok_allocMany_prefix {s s' : Store} {os : List Obj} {v' : Seq}
    (h : (Except.ok (allocMany s os) : Except Err (Store × Seq)) = .ok (s', v')) : s <+: s' := by
  injection h with h; have := allocMany_prefix s os; rw [h] at this; exact this

theorem writeBack_copy (d : Dialect) (hd : d.alias = false) (s : Store) (a : Nat) (ms : List Seq) :
    writeBack d s a ms = s := by simp [writeBack, hd]

theorem evalOp_prefix (d : Dialect) (hd : d.alias = false) (st : St) (op : Op) (s' : Store) (v : Seq)
    (h : evalOp d st op = .ok (s', v)) : st.store <+: s' := by
  cases op <;> simp only [evalOp, writeBack_copy d hd] at h
  case mMerge ms pol =>
    cases pol with
    | none => simp at h
    | some p =>
      simp only at h
      obtain ⟨_, _, h⟩ := bind_ok h
      exact liftAlloc_prefix h
  all_goals
    repeat (obtain ⟨_, _, h⟩ := bind_ok h)
    first
    | exact ok_pair_prefix (List.prefix_refl _) h
    | exact liftAlloc_prefix h
    | exact ok_alloc_prefix h
    | exact ok_allocMany_prefix h
    | skip

/-- one step in copying mode: old objects and old variables are still there, unchanged -/
theorem step_prefix (d : Dialect) (hd : d.alias = false) (st : St) (op : Op) :
    st.store <+: (step d st op).1.store ∧ st.env <+: (step d st op).1.env := by
  unfold step
  cases h : evalOp d st op with
  | error e => simp
  | ok r =>
    obtain ⟨s', v⟩ := r
    exact ⟨evalOp_prefix d hd st op s' v h, by simp⟩

theorem run_prefix (d : Dialect) (hd : d.alias = false) (st : St) (ops : List Op) :
    st.store <+: (run d st ops).store ∧ st.env <+: (run d st ops).env := by
  induction ops generalizing st with
  | nil => simp [run]
  | cons op rest ih =>
    have h1 := step_prefix d hd st op
    have h2 := ih (step d st op).1
    simp only [run, List.foldl_cons] at h2 ⊢
    exact ⟨h1.1.trans h2.1, h1.2.trans h2.2⟩

theorem prefix_getElem? {l l' : List α} (h : l <+: l') {i : Nat} (hi : i < l.length) : l'[i]? = l[i]? := by
  obtain ⟨t, rfl⟩ := h
  simp [List.getElem?_append_left hi]

/-- every step binds exactly one new variable -/
theorem step_env_length (d : Dialect) (st : St) (op : Op) :
    (step d st op).1.env.length = st.env.length + 1 := by
  unfold step
  cases evalOp d st op with
  | error e => simp
  | ok r => simp

end EPV.MapArray
